// c05my_rig.go (C05, MySQL path): the same in-process MySQL proxy as rig.go, but
//   - the proxy factory gets a configured AcraCensor,
//   - the scripted client works at packet level (sequence ids and wire parts are kept),
//   - the fake back end (c05my_backend.go) records every command packet it receives and answers from a
//     statement plan handed in by the domain (which statement yields which rows / an error),
//   - the harness can read the proxy's own session state (hook decryptor/mysql/export_verif_x05my.go).
//
// All identifiers carry the prefix C05my / c05my.
package myrig

import (
	"context"
	"encoding/binary"
	"errors"
	"fmt"
	"io"
	"net"
	"strconv"
	"sync"
	"sync/atomic"
	"time"

	"github.com/sirupsen/logrus"

	acracensor "github.com/cossacklabs/acra/acra-censor"
	"github.com/cossacklabs/acra/crypto"
	"github.com/cossacklabs/acra/decryptor/base"
	"github.com/cossacklabs/acra/decryptor/mysql"
	"github.com/cossacklabs/acra/encryptor/base/config"
	"github.com/cossacklabs/acra/logging"
	"github.com/cossacklabs/acra/sqlparser"
	mysqlDialect "github.com/cossacklabs/acra/sqlparser/dialect/mysql"

	"acra-vh/vh"
)

// C05myRig: proxy factory wired like cmd/acra-server does for --mysql_enable, with a censor.
type C05myRig struct {
	fac base.ProxyFactory
}

// C05myNew builds the factory; censor may be shared by the sessions of one scenario.
func C05myNew(ks *vh.MemKeystore, encryptorConfigYAML []byte, censor acracensor.AcraCensorInterface) (*C05myRig, error) {
	rks := vh.RigKeystore{MemKeystore: ks}
	var regErr error
	registryOnce.Do(func() {
		sqlparser.SetDefaultDialect(mysqlDialect.NewMySQLDialect())
		regErr = crypto.InitRegistry(rks)
	})
	if regErr != nil {
		return nil, regErr
	}
	schema, err := config.MapTableSchemaStoreFromConfig(encryptorConfigYAML, true)
	if err != nil {
		return nil, fmt.Errorf("encryptor config: %w", err)
	}
	parser := sqlparser.New(sqlparser.ModeStrict)
	setting := base.NewProxySetting(parser, schema, rks, nil, censor, nil)
	fac, err := mysql.NewProxyFactory(setting, rks, nil)
	if err != nil {
		return nil, err
	}
	return &C05myRig{fac: fac}, nil
}

// C05myPkt: one logical protocol packet as read from the wire.
type C05myPkt struct {
	Seq     byte // sequence id of the first wire part
	Parts   int  // number of wire parts (payloads of 2^24-1 bytes continue)
	SeqCont bool // the parts carried consecutive sequence ids
	Payload []byte
}

// c05myReadPacket reads one logical packet keeping the sequence ids.
func c05myReadPacket(r io.Reader) (C05myPkt, error) {
	var pk C05myPkt
	pk.SeqCont = true
	for {
		var h [4]byte
		if _, err := io.ReadFull(r, h[:]); err != nil {
			return pk, err
		}
		n := int(h[0]) | int(h[1])<<8 | int(h[2])<<16
		if pk.Parts == 0 {
			pk.Seq = h[3]
		} else if h[3] != pk.Seq+byte(pk.Parts) {
			pk.SeqCont = false
		}
		pk.Parts++
		part := make([]byte, n)
		if _, err := io.ReadFull(r, part); err != nil {
			return pk, err
		}
		if pk.Payload == nil {
			pk.Payload = part
		} else {
			pk.Payload = append(pk.Payload, part...)
		}
		if n < 1<<24-1 {
			return pk, nil
		}
	}
}

// C05mySession: one proxied connection.
type C05mySession struct {
	proxy   base.Proxy
	cconn   *asyncConn
	dconn   *asyncConn
	be      *C05myBackend
	errCh   chan base.ProxyError
	beDone  chan struct{}
	pkts    chan C05myPkt
	Timeout time.Duration
	DepEOF  bool
	mu      sync.Mutex
	hung    bool
	proxyEr string
	panicS  string
}

// Open starts one proxied connection and performs the connection phase.
func (r *C05myRig) Open(clientID []byte, deprecateEOF bool, plan C05myPlan) (*C05mySession, error) {
	c1, c2 := net.Pipe() // client <-> proxy
	d1, d2 := net.Pipe() // proxy <-> database
	logger := logrus.NewEntry(logrus.StandardLogger())
	ctx := logging.SetLoggerToContext(context.Background(), logger)
	sess := &rigSession{client: c2, db: d1, data: map[string]interface{}{}}
	ctx = base.SetClientSessionToContext(ctx, sess)
	sess.ctx = ctx
	proxy, err := r.fac.New(clientID, sess)
	if err != nil {
		return nil, err
	}
	ac := base.NewAccessContext(base.WithClientID(clientID))
	proxy.AddClientIDObserver(ac)
	sess.ctx = base.SetAccessContextToContext(sess.ctx, ac)

	s := &C05mySession{proxy: proxy, errCh: make(chan base.ProxyError, 4), beDone: make(chan struct{}),
		pkts: make(chan C05myPkt, 8192), Timeout: 10 * time.Second, DepEOF: deprecateEOF}
	s.cconn = newAsyncConn(c1)
	s.dconn = newAsyncConn(d2)
	s.be = &C05myBackend{c: s.dconn, plan: plan, stmts: map[uint32]string{}}
	go func() { defer close(s.beDone); s.be.serve() }()
	guard := func(f func()) {
		defer func() {
			if rec := recover(); rec != nil {
				s.mu.Lock()
				s.panicS = fmt.Sprint(rec)
				s.mu.Unlock()
				s.errCh <- base.NewClientProxyError(errors.New("panic"))
			}
		}()
		f()
	}
	go guard(func() { proxy.ProxyClientConnection(sess.ctx, s.errCh) })
	go guard(func() { proxy.ProxyDatabaseConnection(sess.ctx, s.errCh) })
	go func() { // the listener closes both connections when either proxy goroutine stops
		pe := <-s.errCh
		if pe.Unwrap() != nil {
			s.mu.Lock()
			s.proxyEr = pe.InterruptSide() + ": " + pe.Unwrap().Error()
			s.mu.Unlock()
		}
		c2.Close()
		d1.Close()
	}()
	go func() {
		defer close(s.pkts)
		for {
			p, err := c05myReadPacket(s.cconn)
			if err != nil {
				return
			}
			s.pkts <- p
		}
	}()
	hs, ok := s.Recv()
	if !ok || len(hs.Payload) == 0 || hs.Payload[0] != 10 {
		return s, fmt.Errorf("no server handshake through the proxy (closed=%v hung=%v)", !ok, s.Hung())
	}
	caps := uint32(capLongPassword | capLongFlag | capConnectWithDB | capProtocol41 | capTransactions | capSecureConnection | capMultiResults | capPluginAuth)
	if deprecateEOF {
		caps |= capDeprecateEOF
	}
	var resp []byte
	resp = append(resp, byte(caps), byte(caps>>8), byte(caps>>16), byte(caps>>24))
	resp = append(resp, 0, 0, 0, 1) // max packet size
	resp = append(resp, 45)         // character set
	resp = append(resp, make([]byte, 23)...)
	resp = append(resp, []byte("u")...)
	resp = append(resp, 0)
	resp = append(resp, 20)
	resp = append(resp, make([]byte, 20)...)
	resp = append(resp, []byte("d")...)
	resp = append(resp, 0)
	resp = append(resp, []byte("mysql_native_password")...)
	resp = append(resp, 0)
	writePacket(s.cconn, 1, resp)
	okp, ok := s.Recv()
	if !ok || len(okp.Payload) == 0 || okp.Payload[0] != 0x00 {
		return s, fmt.Errorf("authentication through the proxy failed (closed=%v hung=%v)", !ok, s.Hung())
	}
	return s, nil
}

func (s *C05mySession) Hung() bool { s.mu.Lock(); defer s.mu.Unlock(); return s.hung }
func (s *C05mySession) ProxyErr() string {
	s.mu.Lock()
	defer s.mu.Unlock()
	return s.proxyEr
}
func (s *C05mySession) Panic() string { s.mu.Lock(); defer s.mu.Unlock(); return s.panicS }

// Send writes one command (split into wire parts when it is 2^24-1 bytes or longer); returns the number of parts.
func (s *C05mySession) Send(seq byte, payload []byte) int {
	writePacket(s.cconn, seq, payload)
	return len(payload)/(1<<24-1) + 1
}

// Recv waits for the next packet from the proxy.
func (s *C05mySession) Recv() (C05myPkt, bool) {
	timer := time.NewTimer(s.Timeout)
	defer timer.Stop()
	select {
	case p, ok := <-s.pkts:
		return p, ok
	case <-timer.C:
		s.mu.Lock()
		s.hung = true
		s.mu.Unlock()
		return C05myPkt{}, false
	}
}

// Pending returns the packets that are waiting unread (none are expected between two exchanges).
func (s *C05mySession) Pending() []C05myPkt {
	var out []C05myPkt
	for {
		select {
		case p, ok := <-s.pkts:
			if !ok {
				return out
			}
			out = append(out, p)
		default:
			return out
		}
	}
}

// State reads the proxy's own session bookkeeping.
func (s *C05mySession) State() mysql.VerifX05myState { return mysql.VerifX05mySessionState(s.proxy) }

// Backend gives access to the record of the fake back end.
func (s *C05mySession) Backend() *C05myBackend { return s.be }

// WaitBackend waits until the back end has finished n commands.
func (s *C05mySession) WaitBackend(n int) bool {
	deadline := time.Now().Add(s.Timeout)
	for time.Now().Before(deadline) {
		if int(atomic.LoadInt64(&s.be.done)) >= n {
			return true
		}
		select {
		case <-s.beDone:
			return int(atomic.LoadInt64(&s.be.done)) >= n
		case <-time.After(200 * time.Microsecond):
		}
	}
	return false
}

// Quit sends COM_QUIT and waits for both sides to finish; returns what was left unread on the client side.
func (s *C05mySession) Quit() (left []C05myPkt) {
	writePacket(s.cconn, 0, []byte{0x01})
	select {
	case <-s.beDone:
	case <-time.After(s.Timeout):
		s.mu.Lock()
		s.hung = true
		s.mu.Unlock()
	}
	// the proxy closes the client connection on COM_QUIT: drain
	deadline := time.After(s.Timeout)
drain:
	for {
		select {
		case p, ok := <-s.pkts:
			if !ok {
				break drain
			}
			left = append(left, p)
		case <-deadline:
			break drain
		}
	}
	s.Shutdown()
	return left
}

// Shutdown closes everything (also used after a dropped session).
func (s *C05mySession) Shutdown() {
	s.cconn.shutdown()
	s.dconn.shutdown()
	s.cconn.Conn.Close()
	s.dconn.Conn.Close()
	select {
	case <-s.beDone:
	case <-time.After(s.Timeout):
	}
}

// ---------- client-side reading of answers ----------

// C05myResp: the answer to one command as the client read it.
type C05myResp struct {
	Pkts     []C05myPkt
	Closed   bool // connection closed / nothing arrived in time
	Malform  string
	IsErr    bool
	ErrCode  uint16
	ErrState string
	ErrMsg   string
	IsOK     bool
	// result set
	Fields []Field
	Rows   [][][]byte
	// prepare
	StmtID  uint32
	NCols   int
	NParams int
}

// SeqFrom reports whether the packets carry consecutive sequence ids starting at first.
func (r *C05myResp) SeqFrom(first byte) bool {
	want := first
	for _, p := range r.Pkts {
		if p.Seq != want || !p.SeqCont {
			return false
		}
		want += byte(p.Parts)
	}
	return true
}

func (s *C05mySession) c05myNext(r *C05myResp) ([]byte, bool) {
	p, ok := s.Recv()
	if !ok {
		r.Closed = true
		return nil, false
	}
	r.Pkts = append(r.Pkts, p)
	if len(p.Payload) == 0 {
		r.Malform = "empty packet"
		return nil, false
	}
	return p.Payload, true
}

func c05myParseErr(r *C05myResp, p []byte) {
	r.IsErr = true
	if len(p) >= 3 {
		r.ErrCode = binary.LittleEndian.Uint16(p[1:])
	}
	if len(p) >= 9 && p[3] == '#' {
		r.ErrState = string(p[4:9])
		r.ErrMsg = string(p[9:])
	} else if len(p) > 3 {
		r.ErrMsg = string(p[3:])
	}
}

func (s *C05mySession) c05myFields(r *C05myResp, n int) ([]Field, bool) {
	var fs []Field
	for i := 0; i < n; i++ {
		p, ok := s.c05myNext(r)
		if !ok {
			return nil, false
		}
		f, err := parseField(p)
		if err != nil {
			r.Malform = "column definition: " + err.Error()
			return nil, false
		}
		fs = append(fs, f)
	}
	if !s.DepEOF && n > 0 {
		p, ok := s.c05myNext(r)
		if !ok {
			return nil, false
		}
		if !isEOF(p) {
			r.Malform = "EOF expected after definitions"
			return nil, false
		}
	}
	return fs, true
}

// ReadSimple reads a one-packet answer (OK or ERR).
func (s *C05mySession) ReadSimple() *C05myResp {
	r := &C05myResp{}
	p, ok := s.c05myNext(r)
	if !ok {
		return r
	}
	switch {
	case isErr(p):
		c05myParseErr(r, p)
	case p[0] == 0x00:
		r.IsOK = true
	default:
		r.Malform = fmt.Sprintf("OK or ERR expected, got 0x%02x", p[0])
	}
	return r
}

// ReadResult reads the answer to COM_QUERY / COM_STMT_EXECUTE.
func (s *C05mySession) ReadResult(binaryRows bool) *C05myResp {
	r := &C05myResp{}
	p, ok := s.c05myNext(r)
	if !ok {
		return r
	}
	switch {
	case isErr(p):
		c05myParseErr(r, p)
		return r
	case p[0] == 0x00:
		r.IsOK = true
		return r
	}
	n, _, _, err := lenEncInt(p)
	if err != nil || n == 0 || n > 64 {
		r.Malform = "column count"
		return r
	}
	fs, ok := s.c05myFields(r, int(n))
	if !ok {
		return r
	}
	r.Fields = fs
	for {
		p, ok := s.c05myNext(r)
		if !ok {
			return r
		}
		if isErr(p) {
			c05myParseErr(r, p)
			return r
		}
		if isEOF(p) {
			return r
		}
		row, err := decodeRow(p, fs, binaryRows)
		if err != nil {
			r.Malform = "row: " + err.Error()
			continue
		}
		r.Rows = append(r.Rows, row)
	}
}

// ReadPrepare reads the answer to COM_STMT_PREPARE.
func (s *C05mySession) ReadPrepare() *C05myResp {
	r := &C05myResp{}
	p, ok := s.c05myNext(r)
	if !ok {
		return r
	}
	if isErr(p) {
		c05myParseErr(r, p)
		return r
	}
	if len(p) < 12 || p[0] != 0x00 {
		r.Malform = "COM_STMT_PREPARE_OK expected"
		return r
	}
	r.IsOK = true
	r.StmtID = binary.LittleEndian.Uint32(p[1:])
	r.NCols = int(binary.LittleEndian.Uint16(p[5:]))
	r.NParams = int(binary.LittleEndian.Uint16(p[7:]))
	if _, ok := s.c05myFields(r, r.NParams); !ok {
		return r
	}
	fs, ok := s.c05myFields(r, r.NCols)
	if !ok {
		return r
	}
	r.Fields = fs
	return r
}

// C05myExecutePacket builds COM_STMT_EXECUTE with string parameters.
func C05myExecutePacket(id uint32, params [][]byte) []byte {
	ex := []byte{0x17, byte(id), byte(id >> 8), byte(id >> 16), byte(id >> 24)}
	ex = append(ex, 0x00)       // flags: CURSOR_TYPE_NO_CURSOR
	ex = append(ex, 1, 0, 0, 0) // iteration count
	if len(params) > 0 {
		ex = append(ex, make([]byte, (len(params)+7)/8)...)
		ex = append(ex, 1) // new-params-bound
		for range params {
			ex = append(ex, TypeVarString, 0x00)
		}
		for _, pa := range params {
			ex = putLenEncStr(ex, pa)
		}
	}
	return ex
}

// C05myIDPacket builds COM_STMT_CLOSE / COM_STMT_RESET (cmd + statement id).
func C05myIDPacket(cmd byte, id uint32) []byte {
	return []byte{cmd, byte(id), byte(id >> 8), byte(id >> 16), byte(id >> 24)}
}

// C05myLongDataPacket builds COM_STMT_SEND_LONG_DATA.
func C05myLongDataPacket(id uint32, param uint16, data []byte) []byte {
	b := []byte{0x18, byte(id), byte(id >> 8), byte(id >> 16), byte(id >> 24), byte(param), byte(param >> 8)}
	return append(b, data...)
}

func c05myItoa(n uint32) string { return strconv.FormatUint(uint64(n), 10) }
