// sql.go: the fake MySQL back end's own reader of statement text.  Deliberately NOT acra's sqlparser:
// what the proxy forwards (usually a statement re-serialised by sqlparser.String) is decoded here by an
// independent lexer that follows the MySQL manual ("String Literals", "Hexadecimal Literals",
// "Bit-Value Literals", "Character Set Introducers"), so that a literal acra writes back in a form MySQL
// would read differently is seen as a different stored value.
// Statement shapes: INSERT INTO t [(cols)] VALUES (..)[, (..)] [ON DUPLICATE KEY UPDATE c = v | VALUES(c), ..],
// UPDATE t SET c = v, .. [WHERE c = v], SELECT * | [t.]c [AS a], .. FROM t [WHERE c = v]; anything else = "other".
package myrig

import (
	"encoding/hex"
	"fmt"
	"strings"
)

type tokKind int

const (
	tEOF tokKind = iota
	tIdent
	tInt
	tStr
	tParam
	tPunct
)

type token struct {
	kind     tokKind
	text     string // identifier (as written) / punctuation / digits
	val      []byte // decoded literal bytes
	spelling string // str-single | str-double | hex-x | hex-0x | bit-b | bit-0b | int
	quoted   bool   // back-quoted identifier
}

// Val is a value position of a statement.
type Val struct {
	Kind     string // lit | null | param | valuesref | default
	Bytes    []byte
	Param    int    // 0-based, in order of appearance
	Ref      string // VALUES(col)
	Spelling string
	Binary   bool  // had the _binary introducer
	Args     []Val // ifnull: IFNULL(a, b) / COALESCE(a, ..)
}

type Assign struct {
	Col string
	V   Val
}

type Item struct {
	Star  bool
	Col   string
	Alias string
}

type Stmt struct {
	Kind    string // insert | update | select | other
	Table   string
	Cols    []string
	Rows    [][]Val
	OnDup   []Assign
	Sets    []Assign
	Where   *Assign
	Items   []Item
	NParams int
}

func isIdentStart(c byte) bool {
	return c == '_' || c == '$' || c == '@' || (c >= 'a' && c <= 'z') || (c >= 'A' && c <= 'Z') || c >= 0x80
}
func isDigit(c byte) bool { return c >= '0' && c <= '9' }
func isHexDigit(c byte) bool {
	return isDigit(c) || (c >= 'a' && c <= 'f') || (c >= 'A' && c <= 'F')
}

// unhexPadded: MySQL pads an odd number of digits of 0x.. with a leading zero.
func unhexPadded(d string) ([]byte, error) {
	if len(d)%2 == 1 {
		d = "0" + d
	}
	return hex.DecodeString(d)
}

func unbits(d string) []byte {
	for len(d)%8 != 0 {
		d = "0" + d
	}
	out := make([]byte, len(d)/8)
	for i := 0; i < len(d); i++ {
		if d[i] == '1' {
			out[i/8] |= 1 << (7 - uint(i%8))
		}
	}
	return out
}

// quoted string body starting after the opening quote q; returns decoded bytes and the index after the
// closing quote.  MySQL rules (NO_BACKSLASH_ESCAPES off): \0 \' \" \b \n \r \t \Z \\ ; \% and \_ keep the
// backslash; any other \c is c; a doubled quote is one quote.
func scanQuoted(s string, i int, q byte) ([]byte, int, error) {
	var out []byte
	for i < len(s) {
		c := s[i]
		switch {
		case c == '\\':
			if i+1 >= len(s) {
				return nil, 0, fmt.Errorf("unterminated escape")
			}
			e := s[i+1]
			switch e {
			case '0':
				out = append(out, 0)
			case 'b':
				out = append(out, '\b')
			case 'n':
				out = append(out, '\n')
			case 'r':
				out = append(out, '\r')
			case 't':
				out = append(out, '\t')
			case 'Z':
				out = append(out, 26)
			case '%', '_':
				out = append(out, '\\', e)
			default:
				out = append(out, e)
			}
			i += 2
		case c == q:
			if i+1 < len(s) && s[i+1] == q {
				out = append(out, q)
				i += 2
				continue
			}
			return out, i + 1, nil
		default:
			out = append(out, c)
			i++
		}
	}
	return nil, 0, fmt.Errorf("unterminated string")
}

func lex(s string) ([]token, error) {
	var toks []token
	i := 0
	for i < len(s) {
		c := s[i]
		switch {
		case c == ' ' || c == '\t' || c == '\n' || c == '\r':
			i++
		case c == '\'' || c == '"':
			v, j, err := scanQuoted(s, i+1, c)
			if err != nil {
				return nil, err
			}
			sp := "str-single"
			if c == '"' {
				sp = "str-double"
			}
			// adjacent string literals are concatenated by MySQL; not generated, not supported
			toks = append(toks, token{kind: tStr, val: v, spelling: sp})
			i = j
		case c == '`':
			j := strings.IndexByte(s[i+1:], '`')
			if j < 0 {
				return nil, fmt.Errorf("unterminated identifier")
			}
			toks = append(toks, token{kind: tIdent, text: s[i+1 : i+1+j], quoted: true})
			i += j + 2
		case (c == 'x' || c == 'X' || c == 'b' || c == 'B') && i+1 < len(s) && s[i+1] == '\'':
			j := strings.IndexByte(s[i+2:], '\'')
			if j < 0 {
				return nil, fmt.Errorf("unterminated literal")
			}
			body := s[i+2 : i+2+j]
			if c == 'x' || c == 'X' {
				if len(body)%2 == 1 {
					return nil, fmt.Errorf("odd X'' literal")
				}
				v, err := hex.DecodeString(body)
				if err != nil {
					return nil, err
				}
				toks = append(toks, token{kind: tStr, val: v, spelling: "hex-x"})
			} else {
				if strings.Trim(body, "01") != "" {
					return nil, fmt.Errorf("bad b'' literal")
				}
				toks = append(toks, token{kind: tStr, val: unbits(body), spelling: "bit-b"})
			}
			i += j + 3
		case c == '0' && i+1 < len(s) && s[i+1] == 'x' && i+2 < len(s) && isHexDigit(s[i+2]):
			j := i + 2
			for j < len(s) && isHexDigit(s[j]) {
				j++
			}
			v, err := unhexPadded(s[i+2 : j])
			if err != nil {
				return nil, err
			}
			toks = append(toks, token{kind: tStr, val: v, spelling: "hex-0x"})
			i = j
		case c == '0' && i+1 < len(s) && s[i+1] == 'b' && i+2 < len(s) && (s[i+2] == '0' || s[i+2] == '1'):
			j := i + 2
			for j < len(s) && (s[j] == '0' || s[j] == '1') {
				j++
			}
			toks = append(toks, token{kind: tStr, val: unbits(s[i+2 : j]), spelling: "bit-0b"})
			i = j
		case isDigit(c):
			j := i
			for j < len(s) && isDigit(s[j]) {
				j++
			}
			toks = append(toks, token{kind: tInt, text: s[i:j], val: []byte(s[i:j]), spelling: "int"})
			i = j
		case isIdentStart(c):
			j := i
			for j < len(s) && (isIdentStart(s[j]) || isDigit(s[j])) {
				j++
			}
			toks = append(toks, token{kind: tIdent, text: s[i:j]})
			i = j
		case c == '?':
			toks = append(toks, token{kind: tParam})
			i++
		case strings.IndexByte("(),=*.;-", c) >= 0:
			toks = append(toks, token{kind: tPunct, text: string(c)})
			i++
		default:
			return nil, fmt.Errorf("unexpected character %q", c)
		}
	}
	return toks, nil
}

type parser struct {
	toks    []token
	pos     int
	nparams int
}

func (p *parser) peek() token {
	if p.pos < len(p.toks) {
		return p.toks[p.pos]
	}
	return token{kind: tEOF}
}
func (p *parser) next() token { t := p.peek(); p.pos++; return t }
func (p *parser) kw(words ...string) bool {
	save := p.pos
	for _, w := range words {
		t := p.next()
		if t.kind != tIdent || t.quoted || !strings.EqualFold(t.text, w) {
			p.pos = save
			return false
		}
	}
	return true
}
func (p *parser) punct(s string) bool {
	t := p.peek()
	if t.kind == tPunct && t.text == s {
		p.pos++
		return true
	}
	return false
}
func (p *parser) expectPunct(s string) error {
	if !p.punct(s) {
		return fmt.Errorf("expected %q at token %d", s, p.pos)
	}
	return nil
}
func (p *parser) ident() (string, error) {
	t := p.next()
	if t.kind != tIdent {
		return "", fmt.Errorf("expected identifier at token %d", p.pos-1)
	}
	return t.text, nil
}

// [tbl .] col
func (p *parser) column() (string, error) {
	a, err := p.ident()
	if err != nil {
		return "", err
	}
	if p.punct(".") {
		return p.ident()
	}
	return a, nil
}

func (p *parser) value() (Val, error) {
	if p.punct("(") {
		v, err := p.value()
		if err != nil {
			return v, err
		}
		return v, p.expectPunct(")")
	}
	t := p.next()
	switch t.kind {
	case tStr, tInt:
		return Val{Kind: "lit", Bytes: t.val, Spelling: t.spelling}, nil
	case tParam:
		p.nparams++
		return Val{Kind: "param", Param: p.nparams - 1}, nil
	case tIdent:
		switch {
		case !t.quoted && strings.EqualFold(t.text, "null"):
			return Val{Kind: "null"}, nil
		case !t.quoted && strings.EqualFold(t.text, "default"):
			return Val{Kind: "default"}, nil
		case !t.quoted && strings.EqualFold(t.text, "_binary"):
			v, err := p.value()
			v.Binary = true
			v.Spelling = "_binary " + v.Spelling
			return v, err
		case !t.quoted && (strings.EqualFold(t.text, "ifnull") || strings.EqualFold(t.text, "coalesce")):
			if err := p.expectPunct("("); err != nil {
				return Val{}, err
			}
			out := Val{Kind: "ifnull"}
			for {
				a, err := p.value()
				if err != nil {
					return Val{}, err
				}
				out.Args = append(out.Args, a)
				if !p.punct(",") {
					break
				}
			}
			return out, p.expectPunct(")")
		case !t.quoted && strings.EqualFold(t.text, "values"):
			if err := p.expectPunct("("); err != nil {
				return Val{}, err
			}
			c, err := p.column()
			if err != nil {
				return Val{}, err
			}
			return Val{Kind: "valuesref", Ref: c}, p.expectPunct(")")
		}
	}
	return Val{}, fmt.Errorf("unsupported value expression at token %d", p.pos-1)
}

func (p *parser) assigns() ([]Assign, error) {
	var out []Assign
	for {
		c, err := p.column()
		if err != nil {
			return nil, err
		}
		if err := p.expectPunct("="); err != nil {
			return nil, err
		}
		v, err := p.value()
		if err != nil {
			return nil, err
		}
		out = append(out, Assign{Col: c, V: v})
		if !p.punct(",") {
			return out, nil
		}
	}
}

func (p *parser) where(st *Stmt) error {
	if !p.kw("where") {
		return nil
	}
	c, err := p.column()
	if err != nil {
		return err
	}
	if err := p.expectPunct("="); err != nil {
		return err
	}
	v, err := p.value()
	if err != nil {
		return err
	}
	st.Where = &Assign{Col: c, V: v}
	return nil
}

func (p *parser) end(st *Stmt) (*Stmt, error) {
	p.punct(";")
	if p.peek().kind != tEOF {
		return nil, fmt.Errorf("unexpected trailing tokens at %d", p.pos)
	}
	st.NParams = p.nparams
	return st, nil
}

// ParseSQL reads one statement.
func ParseSQL(sql string) (*Stmt, error) {
	first := strings.ToLower(strings.TrimLeft(sql, " \t\r\n"))
	if !strings.HasPrefix(first, "insert") && !strings.HasPrefix(first, "update") && !strings.HasPrefix(first, "select") {
		return &Stmt{Kind: "other"}, nil
	}
	toks, err := lex(sql)
	if err != nil {
		return nil, err
	}
	p := &parser{toks: toks}
	st := &Stmt{}
	switch {
	case p.kw("insert"):
		st.Kind = "insert"
		p.kw("into")
		if st.Table, err = p.ident(); err != nil {
			return nil, err
		}
		if p.punct("(") {
			for {
				c, err := p.ident()
				if err != nil {
					return nil, err
				}
				st.Cols = append(st.Cols, c)
				if !p.punct(",") {
					break
				}
			}
			if err := p.expectPunct(")"); err != nil {
				return nil, err
			}
		}
		if !p.kw("values") && !p.kw("value") {
			return nil, fmt.Errorf("expected VALUES")
		}
		for {
			if err := p.expectPunct("("); err != nil {
				return nil, err
			}
			var row []Val
			for {
				v, err := p.value()
				if err != nil {
					return nil, err
				}
				row = append(row, v)
				if !p.punct(",") {
					break
				}
			}
			if err := p.expectPunct(")"); err != nil {
				return nil, err
			}
			st.Rows = append(st.Rows, row)
			if !p.punct(",") {
				break
			}
		}
		if p.kw("on", "duplicate", "key", "update") {
			if st.OnDup, err = p.assigns(); err != nil {
				return nil, err
			}
		}
		return p.end(st)
	case p.kw("update"):
		st.Kind = "update"
		if st.Table, err = p.ident(); err != nil {
			return nil, err
		}
		if p.kw("as") { // UPDATE t AS x SET x.c = ..
			if _, err = p.ident(); err != nil {
				return nil, err
			}
		}
		if !p.kw("set") {
			return nil, fmt.Errorf("expected SET")
		}
		if st.Sets, err = p.assigns(); err != nil {
			return nil, err
		}
		if err := p.where(st); err != nil {
			return nil, err
		}
		return p.end(st)
	case p.kw("select"):
		st.Kind = "select"
		for {
			if p.punct("*") {
				st.Items = append(st.Items, Item{Star: true})
			} else {
				c, err := p.column()
				if err != nil {
					return nil, err
				}
				it := Item{Col: c, Alias: c}
				if p.kw("as") {
					if it.Alias, err = p.ident(); err != nil {
						return nil, err
					}
				}
				st.Items = append(st.Items, it)
			}
			if !p.punct(",") {
				break
			}
		}
		if !p.kw("from") {
			return nil, fmt.Errorf("expected FROM")
		}
		if st.Table, err = p.ident(); err != nil {
			return nil, err
		}
		if err := p.where(st); err != nil {
			return nil, err
		}
		return p.end(st)
	}
	return &Stmt{Kind: "other"}, nil
}
