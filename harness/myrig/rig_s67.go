// rig_s67.go (add-only): the MySQL rig with a tokenizer, and access to its proxy factory (see vh/pgrig_s67.go).
package myrig

import (
	"fmt"

	acracensor "github.com/cossacklabs/acra/acra-censor"
	"github.com/cossacklabs/acra/crypto"
	"github.com/cossacklabs/acra/decryptor/base"
	"github.com/cossacklabs/acra/decryptor/mysql"
	"github.com/cossacklabs/acra/encryptor/base/config"
	"github.com/cossacklabs/acra/sqlparser"
	mysqlDialect "github.com/cossacklabs/acra/sqlparser/dialect/mysql"

	"acra-vh/vh"
)

// NewTok = New with a tokenizer (vh.NewRigTokenizer: what cmd/acra-server builds without redis).
func NewTok(ks *vh.MemKeystore, encryptorConfigYAML []byte, db *FakeDB) (*Rig, error) {
	rks := vh.RigKeystore{MemKeystore: ks}
	var regErr error
	registryOnce.Do(func() {
		sqlparser.SetDefaultDialect(mysqlDialect.NewMySQLDialect())
		regErr = crypto.InitRegistry(rks)
	})
	if regErr != nil {
		return nil, regErr
	}
	schema, err := config.MapTableSchemaStoreFromConfig(encryptorConfigYAML, true)
	if err != nil {
		return nil, fmt.Errorf("encryptor config: %w", err)
	}
	tokenizer, err := vh.NewRigTokenizer(ks)
	if err != nil {
		return nil, err
	}
	parser := sqlparser.New(sqlparser.ModeStrict)
	setting := base.NewProxySetting(parser, schema, rks, nil, acracensor.NewAcraCensor(), nil)
	fac, err := mysql.NewProxyFactory(setting, rks, tokenizer)
	if err != nil {
		return nil, err
	}
	return &Rig{Keys: ks, Schema: schema, DB: db, fac: fac}, nil
}

// Factory: the proxy factory every session of the rig is built by.
func (r *Rig) Factory() base.ProxyFactory { return r.fac }
