// c12my_rig.go (C12, MySQL path, whole result sets): the in-process MySQL proxy of c05my_rig.go (same factory,
// same wiring, same packet-level scripted client) with a SCRIPTED RAW back end: after the connection phase the
// fake server answers every command with exactly the packet payloads the domain hands in, framed with consecutive
// sequence ids (payloads of 2^24-1 bytes and more are split like a MySQL server splits them). The domain compares
// the bytes the client read from the proxy with the bytes the back end wrote.
//
// All identifiers carry the prefix C12my / c12my.
package myrig

import (
	"context"
	"encoding/binary"
	"errors"
	"fmt"
	"net"
	"time"

	"github.com/sirupsen/logrus"

	"github.com/cossacklabs/acra/decryptor/base"
	"github.com/cossacklabs/acra/logging"
)

// C12myAnswer: payloads of the packets the database sends in answer to one command payload (nil = no answer).
type C12myAnswer func(cmd []byte) [][]byte

// C12myFrames frames payloads like the back end does: sequence ids from `seq` on; returns the bytes on the wire.
func C12myFrames(seq byte, payloads [][]byte) []byte {
	var out []byte
	for _, p := range payloads {
		for {
			n := len(p)
			if n > 1<<24-1 {
				n = 1<<24 - 1
			}
			out = append(out, byte(n), byte(n>>8), byte(n>>16), seq)
			out = append(out, p[:n]...)
			p = p[n:]
			seq++
			if n < 1<<24-1 {
				break
			}
		}
	}
	return out
}

func c12myServe(c net.Conn, answer C12myAnswer) {
	var hs []byte
	hs = append(hs, 10)
	hs = append(hs, []byte("8.0.0-c12my")...)
	hs = append(hs, 0)
	hs = append(hs, 1, 0, 0, 0)
	hs = append(hs, []byte("abcdefgh")...)
	hs = append(hs, 0)
	caps := uint32(capLongPassword | capLongFlag | capConnectWithDB | capProtocol41 | capTransactions | capSecureConnection | capMultiResults | capPluginAuth | capDeprecateEOF)
	hs = append(hs, byte(caps), byte(caps>>8))
	hs = append(hs, 45)
	hs = append(hs, 0x02, 0x00)
	hs = append(hs, byte(caps>>16), byte(caps>>24))
	hs = append(hs, 21)
	hs = append(hs, make([]byte, 10)...)
	hs = append(hs, []byte("ijklmnopqrst")...)
	hs = append(hs, 0)
	hs = append(hs, []byte("mysql_native_password")...)
	hs = append(hs, 0)
	if err := writePacket(c, 0, hs); err != nil {
		return
	}
	first, err := c05myReadPacket(c)
	if err != nil || len(first.Payload) < 4 {
		return
	}
	_ = binary.LittleEndian.Uint32(first.Payload)
	if writePacket(c, first.Seq+1, okPacket(0)) != nil {
		return
	}
	for {
		pk, err := c05myReadPacket(c)
		if err != nil || len(pk.Payload) == 0 {
			return
		}
		if pk.Payload[0] == 0x01 { // COM_QUIT
			return
		}
		seq := pk.Seq + byte(pk.Parts)
		if ans := answer(pk.Payload); len(ans) > 0 {
			if _, err := c.Write(C12myFrames(seq, ans)); err != nil {
				return
			}
		}
	}
}

// C12myOpen starts one proxied connection with the scripted raw back end and performs the connection phase.
// The returned session is a C05mySession (Send / Recv / Pending / ProxyErr / Panic / Hung / Shutdown / ClientRead).
func (r *C05myRig) C12myOpen(clientID []byte, deprecateEOF bool, answer C12myAnswer) (*C05mySession, error) {
	c1, c2 := net.Pipe() // client <-> proxy
	d1, d2 := net.Pipe() // proxy <-> database
	logger := logrus.NewEntry(logrus.StandardLogger())
	ctx := logging.SetLoggerToContext(context.Background(), logger)
	sess := &rigSession{client: c2, db: d1, data: map[string]interface{}{}}
	ctx = base.SetClientSessionToContext(ctx, sess)
	sess.ctx = ctx
	proxy, err := r.fac.New(clientID, sess)
	if err != nil {
		return nil, err
	}
	ac := base.NewAccessContext(base.WithClientID(clientID))
	proxy.AddClientIDObserver(ac)
	sess.ctx = base.SetAccessContextToContext(sess.ctx, ac)

	s := &C05mySession{proxy: proxy, errCh: make(chan base.ProxyError, 4), beDone: make(chan struct{}),
		pkts: make(chan C05myPkt, 8192), Timeout: 10 * time.Second, DepEOF: deprecateEOF}
	s.cconn = newAsyncConn(c1)
	s.dconn = newAsyncConn(d2)
	s.be = &C05myBackend{c: s.dconn, stmts: map[uint32]string{}}
	go func() { defer close(s.beDone); c12myServe(s.dconn, answer) }()
	guard := func(f func()) {
		defer func() {
			if rec := recover(); rec != nil {
				s.mu.Lock()
				s.panicS = fmt.Sprint(rec)
				s.mu.Unlock()
				s.errCh <- base.NewClientProxyError(errors.New("panic"))
			}
		}()
		f()
	}
	go guard(func() { proxy.ProxyClientConnection(sess.ctx, s.errCh) })
	go guard(func() { proxy.ProxyDatabaseConnection(sess.ctx, s.errCh) })
	go func() { // the listener closes both connections when either proxy goroutine stops
		pe := <-s.errCh
		if pe.Unwrap() != nil {
			s.mu.Lock()
			s.proxyEr = pe.InterruptSide() + ": " + pe.Unwrap().Error()
			s.mu.Unlock()
		}
		c2.Close()
		d1.Close()
	}()
	go func() {
		defer close(s.pkts)
		for {
			p, err := c05myReadPacket(s.cconn)
			if err != nil {
				return
			}
			s.pkts <- p
		}
	}()
	hs, ok := s.Recv()
	if !ok || len(hs.Payload) == 0 || hs.Payload[0] != 10 {
		return s, fmt.Errorf("no server handshake through the proxy (closed=%v hung=%v)", !ok, s.Hung())
	}
	caps := uint32(capLongPassword | capLongFlag | capConnectWithDB | capProtocol41 | capTransactions | capSecureConnection | capMultiResults | capPluginAuth)
	if deprecateEOF {
		caps |= capDeprecateEOF
	}
	var resp []byte
	resp = append(resp, byte(caps), byte(caps>>8), byte(caps>>16), byte(caps>>24))
	resp = append(resp, 0, 0, 0, 1) // max packet size
	resp = append(resp, 45)         // character set
	resp = append(resp, make([]byte, 23)...)
	resp = append(resp, []byte("u")...)
	resp = append(resp, 0)
	resp = append(resp, 20)
	resp = append(resp, make([]byte, 20)...)
	resp = append(resp, []byte("d")...)
	resp = append(resp, 0)
	resp = append(resp, []byte("mysql_native_password")...)
	resp = append(resp, 0)
	writePacket(s.cconn, 1, resp)
	okp, ok := s.Recv()
	if !ok || len(okp.Payload) == 0 || okp.Payload[0] != 0x00 {
		return s, fmt.Errorf("authentication through the proxy failed (closed=%v hung=%v)", !ok, s.Hung())
	}
	return s, nil
}

// C12myClientRead: number of bytes the scripted client has read from the proxy so far, and those bytes from `from` on.
func (s *C05mySession) C12myClientRead(from int) (int, []byte) {
	rec := s.cconn.Recorded()
	if from > len(rec) {
		from = len(rec)
	}
	return len(rec), rec[from:]
}

// C12myPackField packs a column definition (text protocol, protocol 4.1) for a non-protected column.
func C12myPackField(table, name string, typ byte, charset uint16, flags uint16) []byte {
	return Field{Table: table, Name: name, OrgName: name, Type: typ, Charset: charset, Flags: flags}.pack()
}
