// c05my_backend.go: the recording fake MySQL server of the C05 MySQL domain. It keeps every command packet it
// received (with sequence id and wire parts), allocates statement ids like a MySQL server (a per-connection
// counter, never re-used), remembers the statement prepared last (MariaDB: COM_STMT_EXECUTE with id -1) and
// answers from a statement plan of the domain: which statement text yields which rows, OK or an error.
package myrig

import (
	"encoding/binary"
	"net"
	"sync"
	"sync/atomic"
)

// C05myStmtPlan: what the database does with one statement text.
type C05myStmtPlan struct {
	Known   bool
	Err     bool     // COM_QUERY / COM_STMT_PREPARE of this text is answered with ERR
	ExecErr bool     // every COM_STMT_EXECUTE of it is answered with ERR
	NParams int      // placeholders
	Table   string   // result column: table ...
	Col     string   // ... and name; "" = the statement has no result set (OK answer)
	Rows    [][]byte // values of the single result column (nil = NULL)
}

// C05myPlan maps a statement text as it arrives at the database to its plan.
type C05myPlan func(sql string) C05myStmtPlan

// C05myCmd: one command packet the back end received.
type C05myCmd struct {
	Seq     byte
	Parts   int
	SeqCont bool
	Payload []byte
}

// C05myAnswered: what the back end did with one command, in order of arrival (one entry per command).
type C05myAnswered struct {
	Cmd      byte
	SQL      string // statement text the command ran / prepared ("" = none)
	Prepared bool
	ID       uint32 // statement id the command named (COM_STMT_PREPARE: the id allocated)
	Kind     string // rows | ok | err | prepok | none
	NParams  int    // prepok
	NCols    int    // prepok
	Rows     [][]byte
}

type C05myBackend struct {
	c        net.Conn
	plan     C05myPlan
	depEOF   bool
	mu       sync.Mutex
	stmts    map[uint32]string
	nextStmt uint32
	lastPrep uint32 // 0 = none / the last COM_STMT_PREPARE failed
	cmds     []C05myCmd
	answered []C05myAnswered
	unknown  []string // statement texts without a plan (must not happen)
	done     int64    // commands completely handled
	Err      error
}

// Commands returns a copy of the command record.
func (be *C05myBackend) Commands() []C05myCmd {
	be.mu.Lock()
	defer be.mu.Unlock()
	return append([]C05myCmd{}, be.cmds...)
}

// Answered returns a copy of the answered-statement record.
func (be *C05myBackend) Answered() []C05myAnswered {
	be.mu.Lock()
	defer be.mu.Unlock()
	return append([]C05myAnswered{}, be.answered...)
}

// Statements returns the prepared statements the server currently holds.
func (be *C05myBackend) Statements() map[uint32]string {
	be.mu.Lock()
	defer be.mu.Unlock()
	out := map[uint32]string{}
	for k, v := range be.stmts {
		out[k] = v
	}
	return out
}

// Unknown returns statement texts that arrived without a plan.
func (be *C05myBackend) Unknown() []string {
	be.mu.Lock()
	defer be.mu.Unlock()
	return append([]string{}, be.unknown...)
}

// Done returns the number of commands completely handled.
func (be *C05myBackend) Done() int { return int(atomic.LoadInt64(&be.done)) }

func (be *C05myBackend) send(seq *byte, p []byte) {
	writePacket(be.c, *seq, p)
	*seq++
}

func (be *C05myBackend) sendErr(seq *byte, code uint16, msg string) {
	be.send(seq, errPacket(code, msg))
}

func (be *C05myBackend) sendFields(seq *byte, fs []Field) {
	for _, f := range fs {
		be.send(seq, f.pack())
	}
	if !be.depEOF && len(fs) > 0 {
		be.send(seq, eofPacket())
	}
}

func c05myResultField(pl C05myStmtPlan) Field {
	// protected columns are stored as blobs
	return Field{Table: pl.Table, Name: pl.Col, OrgName: pl.Col, Type: TypeBlob, Charset: 63, Flags: 0x0010 | 0x0080}
}

func (be *C05myBackend) sendRows(seq *byte, pl C05myStmtPlan, binaryRows bool) {
	fs := []Field{c05myResultField(pl)}
	be.send(seq, putLenEncInt(nil, 1))
	be.sendFields(seq, fs)
	for _, cell := range pl.Rows {
		var p []byte
		if !binaryRows {
			if cell == nil {
				p = append(p, 0xfb)
			} else {
				p = putLenEncStr(p, cell)
			}
		} else {
			p = append(p, 0x00)
			bm := make([]byte, (1+7+2)/8)
			if cell == nil {
				bm[0] |= 1 << 2
			}
			p = append(p, bm...)
			if cell != nil {
				p = putLenEncStr(p, cell)
			}
		}
		be.send(seq, p)
	}
	if be.depEOF {
		be.send(seq, okEOFPacket())
	} else {
		be.send(seq, eofPacket())
	}
}

func (be *C05myBackend) lookup(sql string) C05myStmtPlan {
	pl := be.plan(sql)
	if !pl.Known {
		be.mu.Lock()
		be.unknown = append(be.unknown, sql)
		be.mu.Unlock()
	}
	return pl
}

func (be *C05myBackend) note(a C05myAnswered) {
	be.mu.Lock()
	be.answered = append(be.answered, a)
	be.mu.Unlock()
}

func (be *C05myBackend) serve() {
	var hs []byte
	hs = append(hs, 10)
	hs = append(hs, []byte("8.0.0-c05my")...)
	hs = append(hs, 0)
	hs = append(hs, 1, 0, 0, 0)
	hs = append(hs, []byte("abcdefgh")...)
	hs = append(hs, 0)
	caps := uint32(capLongPassword | capLongFlag | capConnectWithDB | capProtocol41 | capTransactions | capSecureConnection | capMultiResults | capPluginAuth | capDeprecateEOF)
	hs = append(hs, byte(caps), byte(caps>>8))
	hs = append(hs, 45)
	hs = append(hs, 0x02, 0x00)
	hs = append(hs, byte(caps>>16), byte(caps>>24))
	hs = append(hs, 21)
	hs = append(hs, make([]byte, 10)...)
	hs = append(hs, []byte("ijklmnopqrst")...)
	hs = append(hs, 0)
	hs = append(hs, []byte("mysql_native_password")...)
	hs = append(hs, 0)
	if err := writePacket(be.c, 0, hs); err != nil {
		return
	}
	first, err := c05myReadPacket(be.c)
	if err != nil {
		return
	}
	if len(first.Payload) < 4 {
		be.Err = errShort
		return
	}
	be.depEOF = binary.LittleEndian.Uint32(first.Payload)&capDeprecateEOF != 0
	if writePacket(be.c, first.Seq+1, okPacket(0)) != nil {
		return
	}
	for {
		pk, err := c05myReadPacket(be.c)
		if err != nil {
			return
		}
		be.mu.Lock()
		be.cmds = append(be.cmds, C05myCmd{Seq: pk.Seq, Parts: pk.Parts, SeqCont: pk.SeqCont, Payload: pk.Payload})
		be.mu.Unlock()
		p := pk.Payload
		if len(p) == 0 {
			be.Err = errShort
			return
		}
		seq := pk.Seq + byte(pk.Parts)
		a := C05myAnswered{Cmd: p[0], Kind: "none"}
		switch p[0] {
		case 0x01: // COM_QUIT
			be.note(a)
			atomic.AddInt64(&be.done, 1)
			return
		case 0x02, 0x0e: // COM_INIT_DB, COM_PING
			a.Kind = "ok"
			be.send(&seq, okPacket(0))
		case 0x03: // COM_QUERY
			a.SQL = string(p[1:])
			pl := be.lookup(a.SQL)
			switch {
			case !pl.Known:
				a.Kind = "err"
				be.sendErr(&seq, 1064, "statement without a plan")
			case pl.Err:
				a.Kind = "err"
				be.sendErr(&seq, 1146, "Table doesn't exist")
			case pl.NParams > 0:
				a.Kind = "err"
				be.sendErr(&seq, 1064, "placeholder in a text protocol statement")
			case pl.Col == "":
				a.Kind = "ok"
				be.send(&seq, okPacket(1))
			default:
				a.Kind, a.Rows = "rows", pl.Rows
				be.sendRows(&seq, pl, false)
			}
		case 0x16: // COM_STMT_PREPARE
			a.SQL, a.Prepared = string(p[1:]), true
			pl := be.lookup(a.SQL)
			if !pl.Known || pl.Err {
				be.mu.Lock()
				be.lastPrep = 0
				be.mu.Unlock()
				a.Kind = "err"
				be.sendErr(&seq, 1146, "Table doesn't exist")
				break
			}
			be.mu.Lock()
			be.nextStmt++
			id := be.nextStmt
			be.stmts[id] = a.SQL
			be.lastPrep = id
			be.mu.Unlock()
			ncols := 0
			if pl.Col != "" {
				ncols = 1
			}
			a.Kind, a.ID, a.NParams, a.NCols = "prepok", id, pl.NParams, ncols
			r := []byte{0x00, byte(id), byte(id >> 8), byte(id >> 16), byte(id >> 24)}
			r = append(r, byte(ncols), byte(ncols>>8))
			r = append(r, byte(pl.NParams), byte(pl.NParams>>8))
			r = append(r, 0x00, 0x00, 0x00)
			be.send(&seq, r)
			if pl.NParams > 0 {
				var pf []Field
				for i := 0; i < pl.NParams; i++ {
					pf = append(pf, Field{Name: "?", Type: TypeVarString, Charset: 63, Flags: 0x0080})
				}
				be.sendFields(&seq, pf)
			}
			if ncols > 0 {
				be.sendFields(&seq, []Field{c05myResultField(pl)})
			}
		case 0x17: // COM_STMT_EXECUTE
			a.Prepared = true
			if len(p) < 10 {
				a.Kind = "err"
				be.sendErr(&seq, 1835, "malformed COM_STMT_EXECUTE")
				break
			}
			id := binary.LittleEndian.Uint32(p[1:])
			be.mu.Lock()
			if id == 0xffffffff {
				id = be.lastPrep
			}
			sql, ok := be.stmts[id]
			be.mu.Unlock()
			a.ID = id
			if !ok {
				a.Kind = "err"
				be.sendErr(&seq, 1243, "Unknown prepared statement handler")
				break
			}
			a.SQL = sql
			pl := be.lookup(sql)
			switch {
			case !pl.Known || pl.ExecErr:
				a.Kind = "err"
				be.sendErr(&seq, 1062, "Duplicate entry")
			case pl.Col == "":
				a.Kind = "ok"
				be.send(&seq, okPacket(1))
			default:
				a.Kind, a.Rows = "rows", pl.Rows
				be.sendRows(&seq, pl, true)
			}
		case 0x18: // COM_STMT_SEND_LONG_DATA: no response
		case 0x19: // COM_STMT_CLOSE: no response
			if len(p) >= 5 {
				a.ID = binary.LittleEndian.Uint32(p[1:])
				be.mu.Lock()
				delete(be.stmts, a.ID)
				be.mu.Unlock()
			}
		case 0x1a: // COM_STMT_RESET
			known := false
			if len(p) >= 5 {
				a.ID = binary.LittleEndian.Uint32(p[1:])
				be.mu.Lock()
				_, known = be.stmts[a.ID]
				be.mu.Unlock()
			}
			if known {
				a.Kind = "ok"
				be.send(&seq, okPacket(0))
			} else {
				a.Kind = "err"
				be.sendErr(&seq, 1243, "Unknown prepared statement handler")
			}
		default:
			a.Kind = "err"
			be.sendErr(&seq, 1047, "Unknown command")
		}
		be.note(a)
		atomic.AddInt64(&be.done, 1)
	}
}
