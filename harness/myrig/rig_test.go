package myrig

import (
	"bytes"
	"testing"

	"github.com/sirupsen/logrus"

	"acra-vh/vh"
)

const smokeYAML = `schemas:
  - table: t
    columns:
      - id
      - c0
      - c1
    encrypted:
      - column: c1
        crypto_envelope: acrablock
`

// smoke test of the rig itself: a write and a read through the real proxy, both protocols
func TestRigSmoke(t *testing.T) {
	logrus.SetLevel(logrus.WarnLevel)
	r := vh.NewRng(7)
	ks := vh.NewMemKeystore()
	ks.Clients["client_a"] = vh.NewKeySet(r, 1, 1, true)
	db := NewFakeDB()
	db.Tables["t"] = &Table{Name: "t", Cols: []Col{{"id", KInt}, {"c0", KText}, {"c1", KBlob}}}
	rig, err := New(ks, []byte(smokeYAML), db)
	if err != nil {
		t.Fatal(err)
	}
	for _, dep := range []bool{false, true} {
		db.Tables["t"].Rows = nil
		tape := vh.StartTape(r)
		s, err := rig.Open([]byte("client_a"), tape, dep)
		if err != nil {
			t.Fatal(err)
		}
		res := s.Query("INSERT INTO t (id, c0, c1) VALUES (1, 'plain', 'SECRETSECRET')")
		if res.Err != "" || res.Closed {
			t.Fatalf("insert: %+v proxyErr=%s panic=%s", res, s.ProxyErr, s.Panic)
		}
		res = s.Prepared("INSERT INTO t (id, c0, c1) VALUES (?, ?, ?)", []Param{{TypeLong, []byte("2")}, {TypeVarString, []byte("p2")}, {TypeBlob, []byte("SECRET2SECRET2")}})
		if res.Err != "" || res.Closed {
			t.Fatalf("prepared insert: %+v proxyErr=%s panic=%s", res, s.ProxyErr, s.Panic)
		}
		res = s.Query("SELECT id, c0, c1 FROM t")
		if res.Err != "" || res.Closed || len(res.Rows) != 2 {
			t.Fatalf("select: %+v proxyErr=%s", res, s.ProxyErr)
		}
		if string(res.Rows[0][2]) != "SECRETSECRET" || string(res.Rows[1][2]) != "SECRET2SECRET2" || string(res.Rows[1][0]) != "2" {
			t.Fatalf("read back: %q", res.Rows)
		}
		res = s.Prepared("SELECT * FROM t WHERE id = ?", []Param{{TypeLong, []byte("2")}})
		if res.Err != "" || res.Closed || len(res.Rows) != 1 || string(res.Rows[0][2]) != "SECRET2SECRET2" || string(res.Rows[0][0]) != "2" {
			t.Fatalf("prepared select: %+v proxyErr=%s", res, s.ProxyErr)
		}
		dbBound, _, fwd, beErr := s.Close()
		vh.StopTape()
		if beErr != nil {
			t.Fatal(beErr)
		}
		if bytes.Contains(dbBound, []byte("SECRET")) {
			t.Fatalf("plaintext reached the database: %q", dbBound)
		}
		for _, f := range fwd {
			t.Logf("depEOF=%v fwd: %s err=%q values=%d", dep, f.SQL, f.Err, len(f.Values))
		}
		for _, row := range db.Tables["t"].Rows {
			if bytes.Contains(row[2], []byte("SECRET")) {
				t.Fatalf("stored in the clear: %q", row[2])
			}
		}
	}
}

func TestParseSQL(t *testing.T) {
	st, err := ParseSQL("insert into `t`(id, c1) values (1, _binary 'a\\'b\\\\c\\%d''e'), (2, 0xABC), (3, X'4142'), (4, b'0100000101000010'), (5, \"q\\\"\"\"'\") on duplicate key update c1 = values(c1), c0 = ?")
	if err != nil {
		t.Fatal(err)
	}
	want := []string{"a'b\\c\\%d'e", "\x0a\xbc", "AB", "AB", "q\"\"'"}
	for i, w := range want {
		if string(st.Rows[i][1].Bytes) != w {
			t.Fatalf("row %d: %q != %q", i, st.Rows[i][1].Bytes, w)
		}
	}
	if len(st.OnDup) != 2 || st.OnDup[0].V.Kind != "valuesref" || st.OnDup[1].V.Kind != "param" || st.NParams != 1 {
		t.Fatalf("on dup: %+v", st.OnDup)
	}
}
