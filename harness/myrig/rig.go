// rig.go: the REAL acra MySQL proxy in-process: a harness ClientSession over two net.Pipe pairs,
// decryptor/mysql.NewProxyFactory(...).New (the observers and subscribers wired exactly as
// decryptor/mysql/proxy.go does), both proxy goroutines, a scripted client (COM_QUERY and
// COM_STMT_PREPARE/EXECUTE/CLOSE, with and without CLIENT_DEPRECATE_EOF) and the recording fake
// back end of backend.go.
package myrig

import (
	"bytes"
	"context"
	"encoding/binary"
	"errors"
	"fmt"
	"net"
	"strconv"
	"sync"
	"time"

	"github.com/sirupsen/logrus"

	acracensor "github.com/cossacklabs/acra/acra-censor"
	"github.com/cossacklabs/acra/crypto"
	"github.com/cossacklabs/acra/decryptor/base"
	"github.com/cossacklabs/acra/decryptor/mysql"
	"github.com/cossacklabs/acra/encryptor/base/config"
	"github.com/cossacklabs/acra/logging"
	"github.com/cossacklabs/acra/sqlparser"
	mysqlDialect "github.com/cossacklabs/acra/sqlparser/dialect/mysql"

	"acra-vh/vh"
)

// ---------- session object handed to the proxy ----------

type rigSession struct {
	ctx    context.Context
	client net.Conn
	db     net.Conn
	state  interface{}
	mu     sync.RWMutex
	data   map[string]interface{}
}

func (s *rigSession) Context() context.Context        { return s.ctx }
func (s *rigSession) ClientConnection() net.Conn      { return s.client }
func (s *rigSession) DatabaseConnection() net.Conn    { return s.db }
func (s *rigSession) ProtocolState() interface{}      { return s.state }
func (s *rigSession) SetProtocolState(st interface{}) { s.state = st }
func (s *rigSession) GetData(k string) (interface{}, bool) {
	s.mu.RLock()
	defer s.mu.RUnlock()
	v, ok := s.data[k]
	return v, ok
}
func (s *rigSession) SetData(k string, v interface{}) { s.mu.Lock(); s.data[k] = v; s.mu.Unlock() }
func (s *rigSession) DeleteData(k string)             { s.mu.Lock(); delete(s.data, k); s.mu.Unlock() }
func (s *rigSession) HasData(k string) bool {
	s.mu.RLock()
	defer s.mu.RUnlock()
	_, ok := s.data[k]
	return ok
}

// asyncConn decouples our writes from the peer's reads (net.Pipe is synchronous) and records what we read.
type asyncConn struct {
	net.Conn
	q      chan []byte
	record bytes.Buffer
	rmu    sync.Mutex
}

func newAsyncConn(c net.Conn) *asyncConn {
	a := &asyncConn{Conn: c, q: make(chan []byte, 4096)}
	go func() {
		for b := range a.q {
			if _, err := c.Write(b); err != nil {
				for range a.q {
				}
				return
			}
		}
	}()
	return a
}
func (a *asyncConn) Write(p []byte) (int, error) {
	defer func() { recover() }()
	a.q <- append([]byte{}, p...)
	return len(p), nil
}
func (a *asyncConn) Read(p []byte) (int, error) {
	n, err := a.Conn.Read(p)
	if n > 0 {
		a.rmu.Lock()
		a.record.Write(p[:n])
		a.rmu.Unlock()
	}
	return n, err
}
func (a *asyncConn) Recorded() []byte {
	a.rmu.Lock()
	defer a.rmu.Unlock()
	return append([]byte{}, a.record.Bytes()...)
}
func (a *asyncConn) shutdown() {
	defer func() { recover() }()
	close(a.q)
}

// ---------- rig ----------

type Rig struct {
	Keys   *vh.MemKeystore
	Schema config.TableSchemaStore
	DB     *FakeDB
	fac    base.ProxyFactory
}

var registryOnce sync.Once

// New wires the proxy factory the way cmd/acra-server does for --mysql_enable (no censor rules, no TLS,
// no poison callbacks).
func New(ks *vh.MemKeystore, encryptorConfigYAML []byte, db *FakeDB) (*Rig, error) {
	rks := vh.RigKeystore{MemKeystore: ks}
	var regErr error
	registryOnce.Do(func() {
		sqlparser.SetDefaultDialect(mysqlDialect.NewMySQLDialect())
		regErr = crypto.InitRegistry(rks)
	})
	if regErr != nil {
		return nil, regErr
	}
	schema, err := config.MapTableSchemaStoreFromConfig(encryptorConfigYAML, true)
	if err != nil {
		return nil, fmt.Errorf("encryptor config: %w", err)
	}
	parser := sqlparser.New(sqlparser.ModeStrict)
	setting := base.NewProxySetting(parser, schema, rks, nil, acracensor.NewAcraCensor(), nil)
	fac, err := mysql.NewProxyFactory(setting, rks, nil)
	if err != nil {
		return nil, err
	}
	return &Rig{Keys: ks, Schema: schema, DB: db, fac: fac}, nil
}

// Param is one bound parameter of a prepared statement as the application hands it to its driver.
type Param struct {
	Type byte   // MySQL type code sent in COM_STMT_EXECUTE
	Data []byte // raw bytes for string/blob types, decimal text for integer types; nil = NULL
}

// Result of one scripted statement as the client saw it.
type Result struct {
	Fields []Field
	Rows   [][][]byte // decoded cells (integers of binary rows as decimal text); nil = NULL
	Binary bool
	Err    string // ERR packet message, if any
	Closed bool   // the proxy closed the connection instead of answering
	Tape0  int    // tape chunk index range drawn while this statement was in flight
	Tape1  int
}

type Session struct {
	rig      *Rig
	cconn    *asyncConn
	dconn    *asyncConn
	bc       *backendConn
	errCh    chan base.ProxyError
	beDone   chan struct{}
	pkts     chan []byte
	Timeout  time.Duration
	tape     *vh.Tape
	depEOF   bool
	Hung     bool
	ProxyErr string
	Panic    string
	mu       sync.Mutex
}

// Open starts one proxied connection for clientID and performs the connection phase.
func (r *Rig) Open(clientID []byte, tape *vh.Tape, deprecateEOF bool) (*Session, error) {
	c1, c2 := net.Pipe() // client <-> proxy
	d1, d2 := net.Pipe() // proxy <-> database
	logger := logrus.NewEntry(logrus.StandardLogger())
	ctx := logging.SetLoggerToContext(context.Background(), logger)
	sess := &rigSession{client: c2, db: d1, data: map[string]interface{}{}}
	ctx = base.SetClientSessionToContext(ctx, sess)
	sess.ctx = ctx
	// same order as cmd/acra-server/common/listener.go
	proxy, err := r.fac.New(clientID, sess)
	if err != nil {
		return nil, err
	}
	ac := base.NewAccessContext(base.WithClientID(clientID))
	proxy.AddClientIDObserver(ac)
	sess.ctx = base.SetAccessContextToContext(sess.ctx, ac)

	s := &Session{rig: r, errCh: make(chan base.ProxyError, 4), beDone: make(chan struct{}),
		pkts: make(chan []byte, 4096), Timeout: 20 * time.Second, tape: tape, depEOF: deprecateEOF}
	s.cconn = newAsyncConn(c1)
	s.dconn = newAsyncConn(d2)
	s.bc = &backendConn{db: r.DB, c: s.dconn, stmts: map[uint32]*beStmt{}}
	go func() { defer close(s.beDone); s.bc.serve() }()
	guard := func(f func()) {
		defer func() {
			if rec := recover(); rec != nil {
				s.mu.Lock()
				s.Panic = fmt.Sprint(rec)
				s.mu.Unlock()
				s.errCh <- base.NewClientProxyError(errors.New("panic"))
			}
		}()
		f()
	}
	go guard(func() { proxy.ProxyClientConnection(sess.ctx, s.errCh) })
	go guard(func() { proxy.ProxyDatabaseConnection(sess.ctx, s.errCh) })
	go func() { // the listener closes both connections when either proxy goroutine stops
		pe := <-s.errCh
		if pe.Unwrap() != nil {
			s.mu.Lock()
			s.ProxyErr = pe.InterruptSide() + ": " + pe.Unwrap().Error()
			s.mu.Unlock()
		}
		c2.Close()
		d1.Close()
	}()
	go func() {
		defer close(s.pkts)
		for {
			_, p, err := readPacket(s.cconn)
			if err != nil {
				return
			}
			s.pkts <- p
		}
	}()
	// connection phase: server handshake, our response, OK
	hs, ok := s.recv()
	if !ok || len(hs) == 0 || hs[0] != 10 {
		return s, fmt.Errorf("no server handshake through the proxy (closed=%v hung=%v)", !ok, s.Hung)
	}
	caps := uint32(capLongPassword | capLongFlag | capConnectWithDB | capProtocol41 | capTransactions | capSecureConnection | capMultiResults | capPluginAuth)
	if deprecateEOF {
		caps |= capDeprecateEOF
	}
	var resp []byte
	resp = append(resp, byte(caps), byte(caps>>8), byte(caps>>16), byte(caps>>24))
	resp = append(resp, 0, 0, 0, 1) // max packet size
	resp = append(resp, 45)         // character set
	resp = append(resp, make([]byte, 23)...)
	resp = append(resp, []byte("u")...)
	resp = append(resp, 0)
	resp = append(resp, 20)
	resp = append(resp, make([]byte, 20)...)
	resp = append(resp, []byte("d")...)
	resp = append(resp, 0)
	resp = append(resp, []byte("mysql_native_password")...)
	resp = append(resp, 0)
	writePacket(s.cconn, 1, resp)
	okp, ok := s.recv()
	if !ok || len(okp) == 0 || okp[0] != 0x00 {
		return s, fmt.Errorf("authentication through the proxy failed (closed=%v hung=%v)", !ok, s.Hung)
	}
	return s, nil
}

func (s *Session) recv() ([]byte, bool) {
	timer := time.NewTimer(s.Timeout)
	defer timer.Stop()
	select {
	case p, ok := <-s.pkts:
		return p, ok
	case <-timer.C:
		s.Hung = true
		return nil, false
	}
}

func (s *Session) tapeLen() int {
	if s.tape == nil {
		return 0
	}
	return len(s.tape.Chunks)
}

func (s *Session) readFields(n int) ([]Field, bool) {
	var fs []Field
	for i := 0; i < n; i++ {
		p, ok := s.recv()
		if !ok {
			return nil, false
		}
		f, err := parseField(p)
		if err != nil {
			return nil, false
		}
		fs = append(fs, f)
	}
	if !s.depEOF && n > 0 {
		if p, ok := s.recv(); !ok || !isEOF(p) {
			return nil, false
		}
	}
	return fs, true
}

// readResponse reads the answer to COM_QUERY / COM_STMT_EXECUTE.
func (s *Session) readResponse(res *Result, binaryRows bool) {
	p, ok := s.recv()
	if !ok {
		res.Closed = true
		return
	}
	switch {
	case isErr(p):
		res.Err = errText(p)
		return
	case p[0] == 0x00:
		return
	}
	n, _, _, err := lenEncInt(p)
	if err != nil {
		res.Err = "client: malformed column count"
		return
	}
	fs, ok := s.readFields(int(n))
	if !ok {
		res.Closed = true
		return
	}
	res.Fields = fs
	res.Binary = binaryRows
	for {
		p, ok := s.recv()
		if !ok {
			res.Closed = true
			return
		}
		if isErr(p) {
			res.Err = errText(p)
			return
		}
		if isEOF(p) {
			return
		}
		row, err := decodeRow(p, fs, binaryRows)
		if err != nil {
			res.Err = "client: malformed row: " + err.Error()
			// keep reading to the end of the result set
			continue
		}
		res.Rows = append(res.Rows, row)
	}
}

func decodeRow(p []byte, fs []Field, binaryRows bool) ([][]byte, error) {
	row := make([][]byte, len(fs))
	if !binaryRows {
		pos := 0
		for i := range fs {
			v, null, n, err := lenEncStr(p[pos:])
			if err != nil {
				return nil, err
			}
			pos += n
			if !null {
				if v == nil {
					v = []byte{}
				}
				row[i] = v
			}
		}
		if pos != len(p) {
			return nil, fmt.Errorf("%d trailing bytes", len(p)-pos)
		}
		return row, nil
	}
	if len(p) < 1+(len(fs)+9)/8 || p[0] != 0x00 {
		return nil, fmt.Errorf("bad binary row header")
	}
	bm := p[1 : 1+(len(fs)+9)/8]
	pos := 1 + len(bm)
	for i, f := range fs {
		if bm[(i+2)/8]&(1<<(uint(i+2)%8)) != 0 {
			continue
		}
		switch f.Type {
		case TypeLong:
			if len(p) < pos+4 {
				return nil, errShort
			}
			row[i] = []byte(strconv.Itoa(int(int32(binary.LittleEndian.Uint32(p[pos:])))))
			pos += 4
		case TypeLongLong:
			if len(p) < pos+8 {
				return nil, errShort
			}
			row[i] = []byte(strconv.FormatInt(int64(binary.LittleEndian.Uint64(p[pos:])), 10))
			pos += 8
		default:
			v, _, n, err := lenEncStr(p[pos:])
			if err != nil {
				return nil, err
			}
			if v == nil {
				v = []byte{}
			}
			row[i] = v
			pos += n
		}
	}
	if pos != len(p) {
		return nil, fmt.Errorf("%d trailing bytes", len(p)-pos)
	}
	return row, nil
}

// Query sends one COM_QUERY and waits for its answer.
func (s *Session) Query(sql string) *Result {
	res := &Result{Tape0: s.tapeLen()}
	writePacket(s.cconn, 0, append([]byte{0x03}, sql...))
	s.readResponse(res, false)
	res.Tape1 = s.tapeLen()
	return res
}

// Prepared sends COM_STMT_PREPARE, COM_STMT_EXECUTE (with params, new-params-bound) and COM_STMT_CLOSE.
func (s *Session) Prepared(sql string, params []Param) *Result {
	res := &Result{Tape0: s.tapeLen()}
	defer func() { res.Tape1 = s.tapeLen() }()
	writePacket(s.cconn, 0, append([]byte{0x16}, sql...))
	p, ok := s.recv()
	if !ok {
		res.Closed = true
		return res
	}
	if isErr(p) {
		res.Err = errText(p)
		return res
	}
	if len(p) < 12 || p[0] != 0x00 {
		res.Err = "client: malformed COM_STMT_PREPARE response"
		return res
	}
	id := p[1:5]
	ncols := int(binary.LittleEndian.Uint16(p[5:]))
	nparams := int(binary.LittleEndian.Uint16(p[7:]))
	if _, ok := s.readFields(nparams); !ok {
		res.Closed = true
		return res
	}
	if _, ok := s.readFields(ncols); !ok {
		res.Closed = true
		return res
	}
	if nparams != len(params) {
		res.Err = fmt.Sprintf("client: statement has %d parameters, %d given", nparams, len(params))
		return res
	}
	ex := []byte{0x17}
	ex = append(ex, id...)
	ex = append(ex, 0x00)       // flags: CURSOR_TYPE_NO_CURSOR
	ex = append(ex, 1, 0, 0, 0) // iteration count
	if len(params) > 0 {
		bm := make([]byte, (len(params)+7)/8)
		for i, pa := range params {
			if pa.Data == nil {
				bm[i/8] |= 1 << (uint(i) % 8)
			}
		}
		ex = append(ex, bm...)
		ex = append(ex, 1) // new-params-bound
		for _, pa := range params {
			ex = append(ex, pa.Type, 0x00)
		}
		for _, pa := range params {
			if pa.Data == nil {
				continue
			}
			switch pa.Type {
			case TypeTiny:
				n, _ := strconv.Atoi(string(pa.Data))
				ex = append(ex, byte(int8(n)))
			case TypeLong:
				n, _ := strconv.Atoi(string(pa.Data))
				var x [4]byte
				binary.LittleEndian.PutUint32(x[:], uint32(int32(n)))
				ex = append(ex, x[:]...)
			case TypeLongLong:
				n, _ := strconv.ParseInt(string(pa.Data), 10, 64)
				var x [8]byte
				binary.LittleEndian.PutUint64(x[:], uint64(n))
				ex = append(ex, x[:]...)
			default:
				ex = putLenEncStr(ex, pa.Data)
			}
		}
	}
	writePacket(s.cconn, 0, ex)
	s.readResponse(res, true)
	if !res.Closed {
		writePacket(s.cconn, 0, append([]byte{0x19}, id...))
	}
	return res
}

// Close ends the session; returns (everything the database end received, everything the client end
// received, the statements the back end executed).
func (s *Session) Close() (dbBound, clientBound []byte, stmts []*FwdStmt, backendErr error) {
	writePacket(s.cconn, 0, []byte{0x01})
	select {
	case <-s.beDone:
	case <-time.After(s.Timeout):
		s.Hung = true
	}
	s.cconn.shutdown()
	s.dconn.shutdown()
	s.cconn.Conn.Close()
	s.dconn.Conn.Close()
	select {
	case <-s.beDone:
	case <-time.After(s.Timeout):
		s.Hung = true
	}
	s.mu.Lock()
	defer s.mu.Unlock()
	return s.dconn.Recorded(), s.cconn.Recorded(), s.bc.Stmts, s.bc.Err
}
