// Package myrig: the REAL acra MySQL proxy in-process (C04 extension, MySQL path).
// proto.go: the few MySQL client/server protocol pieces the scripted client and the fake back end need,
// written here from the protocol documentation (NOT shared with decryptor/mysql, so that a packing
// mistake of acra is not mirrored by the rig).
package myrig

import (
	"encoding/binary"
	"errors"
	"io"
)

// MySQL column / parameter types used by the rig.
const (
	TypeTiny      = 0x01
	TypeLong      = 0x03
	TypeNull      = 0x06
	TypeLongLong  = 0x08
	TypeBlob      = 0xfc
	TypeVarString = 0xfd
	TypeString    = 0xfe
)

// capability flags
const (
	capLongPassword     = 0x00000001
	capLongFlag         = 0x00000004
	capConnectWithDB    = 0x00000008
	capProtocol41       = 0x00000200
	capTransactions     = 0x00002000
	capSecureConnection = 0x00008000
	capMultiResults     = 0x00020000
	capPluginAuth       = 0x00080000
	capDeprecateEOF     = 0x01000000
)

var errShort = errors.New("myrig: short packet")

// readPacket reads one protocol packet (payloads of 2^24-1 bytes continue in the next packet).
func readPacket(r io.Reader) (seq byte, payload []byte, err error) {
	for {
		var h [4]byte
		if _, err = io.ReadFull(r, h[:]); err != nil {
			return 0, nil, err
		}
		n := int(h[0]) | int(h[1])<<8 | int(h[2])<<16
		seq = h[3]
		part := make([]byte, n)
		if _, err = io.ReadFull(r, part); err != nil {
			return 0, nil, err
		}
		payload = append(payload, part...)
		if n < 1<<24-1 {
			return seq, payload, nil
		}
	}
}

func writePacket(w io.Writer, seq byte, payload []byte) error {
	for {
		n := len(payload)
		if n > 1<<24-1 {
			n = 1<<24 - 1
		}
		buf := make([]byte, 4+n)
		buf[0], buf[1], buf[2], buf[3] = byte(n), byte(n>>8), byte(n>>16), seq
		copy(buf[4:], payload[:n])
		if _, err := w.Write(buf); err != nil {
			return err
		}
		payload = payload[n:]
		seq++
		if n < 1<<24-1 {
			return nil
		}
	}
}

func putLenEncInt(b []byte, n uint64) []byte {
	switch {
	case n < 251:
		return append(b, byte(n))
	case n < 1<<16:
		return append(b, 0xfc, byte(n), byte(n>>8))
	case n < 1<<24:
		return append(b, 0xfd, byte(n), byte(n>>8), byte(n>>16))
	}
	b = append(b, 0xfe)
	var x [8]byte
	binary.LittleEndian.PutUint64(x[:], n)
	return append(b, x[:]...)
}

func putLenEncStr(b, s []byte) []byte {
	b = putLenEncInt(b, uint64(len(s)))
	return append(b, s...)
}

// lenEncInt decodes a length-encoded integer; null = the 0xfb NULL marker of text rows.
func lenEncInt(b []byte) (n uint64, null bool, used int, err error) {
	if len(b) == 0 {
		return 0, false, 0, errShort
	}
	switch b[0] {
	case 0xfb:
		return 0, true, 1, nil
	case 0xfc:
		if len(b) < 3 {
			return 0, false, 0, errShort
		}
		return uint64(b[1]) | uint64(b[2])<<8, false, 3, nil
	case 0xfd:
		if len(b) < 4 {
			return 0, false, 0, errShort
		}
		return uint64(b[1]) | uint64(b[2])<<8 | uint64(b[3])<<16, false, 4, nil
	case 0xfe:
		if len(b) < 9 {
			return 0, false, 0, errShort
		}
		return binary.LittleEndian.Uint64(b[1:9]), false, 9, nil
	}
	return uint64(b[0]), false, 1, nil
}

func lenEncStr(b []byte) (s []byte, null bool, used int, err error) {
	n, null, k, err := lenEncInt(b)
	if err != nil || null {
		return nil, null, k, err
	}
	if uint64(len(b)-k) < n {
		return nil, false, 0, errShort
	}
	return append([]byte{}, b[k:k+int(n)]...), false, k + int(n), nil
}

// column definition (Protocol::ColumnDefinition41)
type Field struct {
	Table   string
	Name    string // as selected (alias)
	OrgName string
	Type    byte
	Charset uint16
	Flags   uint16
}

func (f Field) pack() []byte {
	var b []byte
	b = putLenEncStr(b, []byte("def"))
	b = putLenEncStr(b, []byte("d"))
	b = putLenEncStr(b, []byte(f.Table))
	b = putLenEncStr(b, []byte(f.Table))
	b = putLenEncStr(b, []byte(f.Name))
	b = putLenEncStr(b, []byte(f.OrgName))
	b = append(b, 0x0c)
	b = append(b, byte(f.Charset), byte(f.Charset>>8))
	b = append(b, 0xff, 0xff, 0x00, 0x00) // column length
	b = append(b, f.Type)
	b = append(b, byte(f.Flags), byte(f.Flags>>8))
	b = append(b, 0x00)       // decimals
	b = append(b, 0x00, 0x00) // filler
	return b
}

func parseField(p []byte) (Field, error) {
	var f Field
	pos := 0
	var strs [6][]byte
	for i := 0; i < 6; i++ {
		s, _, n, err := lenEncStr(p[pos:])
		if err != nil {
			return f, err
		}
		strs[i] = s
		pos += n
	}
	if len(p) < pos+13 {
		return f, errShort
	}
	pos++ // 0x0c
	f.Table, f.Name, f.OrgName = string(strs[2]), string(strs[4]), string(strs[5])
	f.Charset = binary.LittleEndian.Uint16(p[pos:])
	pos += 2 + 4
	f.Type = p[pos]
	pos++
	f.Flags = binary.LittleEndian.Uint16(p[pos:])
	return f, nil
}

func okPacket(affected uint64) []byte {
	b := []byte{0x00}
	b = putLenEncInt(b, affected)
	b = putLenEncInt(b, 0)
	return append(b, 0x02, 0x00, 0x00, 0x00) // status AUTOCOMMIT, warnings
}

func eofPacket() []byte { return []byte{0xfe, 0x00, 0x00, 0x02, 0x00} }

// terminator of a result set for CLIENT_DEPRECATE_EOF clients: an OK packet with the 0xfe header
func okEOFPacket() []byte { return []byte{0xfe, 0x00, 0x00, 0x02, 0x00, 0x00, 0x00} }

func errPacket(code uint16, msg string) []byte {
	b := []byte{0xff, byte(code), byte(code >> 8), '#'}
	b = append(b, []byte("HY000")...)
	return append(b, []byte(msg)...)
}

func isEOF(p []byte) bool { return len(p) > 0 && p[0] == 0xfe && len(p) < 9 }
func isErr(p []byte) bool { return len(p) > 0 && p[0] == 0xff }
func errText(p []byte) string {
	if len(p) > 9 && p[3] == '#' {
		return string(p[9:])
	}
	if len(p) > 3 {
		return string(p[3:])
	}
	return "error"
}
