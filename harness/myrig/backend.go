// backend.go: a recording fake MySQL server: tables of typed columns, COM_QUERY / COM_STMT_PREPARE /
// COM_STMT_EXECUTE / COM_STMT_CLOSE / COM_QUIT, text and binary result sets.
package myrig

import (
	"bytes"
	"encoding/binary"
	"fmt"
	"net"
	"strconv"
	"strings"
)

type ColKind int

const (
	KInt ColKind = iota
	KText
	KBlob
)

type Col struct {
	Name string
	Kind ColKind
}

type Table struct {
	Name string
	Cols []Col
	Rows [][][]byte // nil cell = NULL
}

func (t *Table) colIndex(name string) int {
	for i, c := range t.Cols {
		if strings.EqualFold(c.Name, name) {
			return i
		}
	}
	return -1
}

// FwdValue: one value position of a forwarded INSERT/UPDATE as the database understood it.
type FwdValue struct {
	Stored   []byte // nil = NULL
	Col      string
	Spelling string // literal spelling or "param:<type>"
	Ref      bool   // VALUES(col) reference (no value of its own)
}

// FwdStmt: one statement that reached the database.
type FwdStmt struct {
	SQL      string
	Prepared bool
	Kind     string
	Values   []FwdValue // VALUES tuples row-major, then the ON DUPLICATE KEY UPDATE assignments; or the SET list
	NRowVals int        // how many of Values belong to VALUES tuples
	Conflict bool       // INSERT hit an existing key (ON DUPLICATE KEY UPDATE applied)
	Returned [][]byte   // result cells row-major as stored (nil = NULL)
	NCols    int
	Err      string
}

type FakeDB struct {
	Tables map[string]*Table
}

func NewFakeDB() *FakeDB { return &FakeDB{Tables: map[string]*Table{}} }

func (db *FakeDB) table(name string) *Table {
	for k, t := range db.Tables {
		if strings.EqualFold(k, name) {
			return t
		}
	}
	return nil
}

type param struct {
	typ  byte
	data []byte // canonical bytes (integers as decimal text); nil = NULL
}

type beStmt struct {
	sql    string
	st     *Stmt
	fields []Field
	types  []byte // parameter types of the last bind
}

type backendConn struct {
	db       *FakeDB
	c        net.Conn
	depEOF   bool
	stmts    map[uint32]*beStmt
	nextStmt uint32
	Stmts    []*FwdStmt
	Err      error
}

type sqlErr struct {
	code uint16
	msg  string
}

func (e *sqlErr) Error() string { return e.msg }

func (bc *backendConn) resolve(v Val, col *Col, params []param) ([]byte, string, error) {
	switch v.Kind {
	case "null", "default":
		return nil, v.Kind, nil
	case "param":
		if v.Param >= len(params) {
			return nil, "", &sqlErr{1210, "Incorrect arguments to mysqld_stmt_execute"}
		}
		p := params[v.Param]
		b := p.data
		if col != nil && col.Kind == KInt && b != nil {
			if _, err := strconv.ParseInt(string(b), 10, 64); err != nil {
				return nil, "", &sqlErr{1366, fmt.Sprintf("Incorrect integer value: %q", b)}
			}
		}
		return b, fmt.Sprintf("param:0x%02x", p.typ), nil
	case "ifnull":
		for _, a := range v.Args {
			b, sp, err := bc.resolve(a, col, params)
			if err != nil {
				return nil, "", err
			}
			if b != nil {
				return b, "ifnull(" + sp + ")", nil
			}
		}
		return nil, "ifnull", nil
	case "lit":
		if col != nil && col.Kind == KInt {
			if _, err := strconv.ParseInt(string(v.Bytes), 10, 64); err != nil {
				return nil, "", &sqlErr{1366, fmt.Sprintf("Incorrect integer value: %q", v.Bytes)}
			}
		}
		b := v.Bytes
		if b == nil {
			b = []byte{}
		}
		return b, v.Spelling, nil
	}
	return nil, "", &sqlErr{1064, "unsupported value"}
}

func fieldOf(t *Table, c Col, alias string) Field {
	f := Field{Table: t.Name, Name: alias, OrgName: c.Name}
	switch c.Kind {
	case KInt:
		f.Type, f.Charset, f.Flags = TypeLong, 63, 0x0001|0x0002|0x8000 // NOT_NULL PRI_KEY NUM
	case KText:
		f.Type, f.Charset = TypeVarString, 45
	default:
		f.Type, f.Charset, f.Flags = TypeBlob, 63, 0x0010|0x0080 // BLOB BINARY
	}
	return f
}

func (bc *backendConn) resultFields(st *Stmt) ([]Field, []int, error) {
	t := bc.db.table(st.Table)
	if t == nil {
		return nil, nil, &sqlErr{1146, "Table '" + st.Table + "' doesn't exist"}
	}
	var fs []Field
	var idx []int
	for _, it := range st.Items {
		if it.Star {
			for i, c := range t.Cols {
				fs = append(fs, fieldOf(t, c, c.Name))
				idx = append(idx, i)
			}
			continue
		}
		i := t.colIndex(it.Col)
		if i < 0 {
			return nil, nil, &sqlErr{1054, "Unknown column '" + it.Col + "'"}
		}
		fs = append(fs, fieldOf(t, t.Cols[i], it.Alias))
		idx = append(idx, i)
	}
	return fs, idx, nil
}

func (bc *backendConn) matches(t *Table, st *Stmt, params []param) (func(row [][]byte) bool, error) {
	if st.Where == nil {
		return func([][]byte) bool { return true }, nil
	}
	i := t.colIndex(st.Where.Col)
	if i < 0 {
		return nil, &sqlErr{1054, "Unknown column '" + st.Where.Col + "'"}
	}
	want, _, err := bc.resolve(st.Where.V, &t.Cols[i], params)
	if err != nil {
		return nil, err
	}
	return func(row [][]byte) bool {
		if row[i] == nil || want == nil {
			return false
		}
		if t.Cols[i].Kind == KInt {
			a, _ := strconv.ParseInt(string(row[i]), 10, 64)
			b, _ := strconv.ParseInt(string(want), 10, 64)
			return a == b
		}
		return bytes.Equal(row[i], want)
	}, nil
}

// exec runs one statement; rows != nil for SELECT.
func (bc *backendConn) exec(st *Stmt, params []param, fw *FwdStmt) (rows [][][]byte, fields []Field, affected uint64, err error) {
	fw.Kind = st.Kind
	switch st.Kind {
	case "other":
		return nil, nil, 0, nil
	case "select":
		fs, idx, err := bc.resultFields(st)
		if err != nil {
			return nil, nil, 0, err
		}
		t := bc.db.table(st.Table)
		m, err := bc.matches(t, st, params)
		if err != nil {
			return nil, nil, 0, err
		}
		rows = [][][]byte{}
		for _, r := range t.Rows {
			if !m(r) {
				continue
			}
			var out [][]byte
			for _, i := range idx {
				out = append(out, r[i])
				fw.Returned = append(fw.Returned, r[i])
			}
			rows = append(rows, out)
		}
		fw.NCols = len(idx)
		return rows, fs, 0, nil
	case "update":
		t := bc.db.table(st.Table)
		if t == nil {
			return nil, nil, 0, &sqlErr{1146, "Table '" + st.Table + "' doesn't exist"}
		}
		type setv struct {
			i int
			v []byte
		}
		var sets []setv
		for _, a := range st.Sets {
			i := t.colIndex(a.Col)
			if i < 0 {
				return nil, nil, 0, &sqlErr{1054, "Unknown column '" + a.Col + "'"}
			}
			v, sp, err := bc.resolve(a.V, &t.Cols[i], params)
			if err != nil {
				return nil, nil, 0, err
			}
			sets = append(sets, setv{i, v})
			fw.Values = append(fw.Values, FwdValue{Stored: v, Col: t.Cols[i].Name, Spelling: sp})
		}
		m, err := bc.matches(t, st, params)
		if err != nil {
			return nil, nil, 0, err
		}
		for _, r := range t.Rows {
			if m(r) {
				for _, s := range sets {
					r[s.i] = s.v
				}
				affected++
			}
		}
		return nil, nil, affected, nil
	case "insert":
		t := bc.db.table(st.Table)
		if t == nil {
			return nil, nil, 0, &sqlErr{1146, "Table '" + st.Table + "' doesn't exist"}
		}
		var cidx []int
		if st.Cols == nil {
			for i := range t.Cols {
				cidx = append(cidx, i)
			}
		} else {
			for _, c := range st.Cols {
				i := t.colIndex(c)
				if i < 0 {
					return nil, nil, 0, &sqlErr{1054, "Unknown column '" + c + "'"}
				}
				cidx = append(cidx, i)
			}
		}
		// every value position is decoded and recorded first (also of a statement that is rejected below:
		// what was sent to the server was sent), then the statement is validated
		var newRows [][][]byte
		var firstErr error
		for ri, row := range st.Rows {
			if len(row) != len(cidx) && firstErr == nil {
				firstErr = &sqlErr{1136, fmt.Sprintf("Column count doesn't match value count at row %d", ri+1)}
			}
			nr := make([][]byte, len(t.Cols))
			for j, v := range row {
				var col *Col
				name := ""
				if j < len(cidx) {
					col, name = &t.Cols[cidx[j]], t.Cols[cidx[j]].Name
				}
				b, sp, err := bc.resolve(v, col, params)
				if err != nil {
					if firstErr == nil {
						firstErr = err
					}
					b, sp, _ = bc.resolve(v, nil, params)
				}
				if col != nil {
					nr[cidx[j]] = b
				}
				fw.Values = append(fw.Values, FwdValue{Stored: b, Col: name, Spelling: sp})
			}
			newRows = append(newRows, nr)
		}
		fw.NRowVals = len(fw.Values)
		type dupv struct {
			i   int
			v   []byte
			ref int // >= 0: VALUES(col)
		}
		var dups []dupv
		for _, a := range st.OnDup {
			i := t.colIndex(a.Col)
			if i < 0 {
				return nil, nil, 0, &sqlErr{1054, "Unknown column '" + a.Col + "'"}
			}
			if a.V.Kind == "valuesref" {
				ri := t.colIndex(a.V.Ref)
				if ri < 0 {
					return nil, nil, 0, &sqlErr{1054, "Unknown column '" + a.V.Ref + "'"}
				}
				dups = append(dups, dupv{i, nil, ri})
				fw.Values = append(fw.Values, FwdValue{Col: t.Cols[i].Name, Ref: true, Spelling: "values()"})
				continue
			}
			v, sp, err := bc.resolve(a.V, &t.Cols[i], params)
			if err != nil {
				return nil, nil, 0, err
			}
			dups = append(dups, dupv{i, v, -1})
			fw.Values = append(fw.Values, FwdValue{Stored: v, Col: t.Cols[i].Name, Spelling: sp})
		}
		if firstErr != nil {
			return nil, nil, 0, firstErr
		}
		pk := t.colIndex("id")
		for _, nr := range newRows {
			var old [][]byte
			if pk >= 0 && nr[pk] != nil {
				for _, r := range t.Rows {
					if r[pk] != nil && string(r[pk]) == string(nr[pk]) {
						old = r
					}
				}
			}
			if old == nil {
				t.Rows = append(t.Rows, nr)
				affected++
				continue
			}
			if st.OnDup == nil {
				return nil, nil, 0, &sqlErr{1062, "Duplicate entry '" + string(nr[pk]) + "' for key 'PRIMARY'"}
			}
			fw.Conflict = true
			for _, d := range dups {
				if d.ref >= 0 {
					old[d.i] = nr[d.ref]
				} else {
					old[d.i] = d.v
				}
			}
			affected += 2
		}
		return nil, nil, affected, nil
	}
	return nil, nil, 0, &sqlErr{1064, "unsupported statement"}
}

func (bc *backendConn) send(seq *byte, p []byte) {
	writePacket(bc.c, *seq, p) // a write error = the proxy went away; not a back-end error
	*seq++
}

func (bc *backendConn) sendErr(seq *byte, err error) {
	code := uint16(1064)
	if se, ok := err.(*sqlErr); ok {
		code = se.code
	}
	bc.send(seq, errPacket(code, err.Error()))
}

func (bc *backendConn) sendFields(seq *byte, fs []Field) {
	for _, f := range fs {
		bc.send(seq, f.pack())
	}
	if !bc.depEOF {
		bc.send(seq, eofPacket())
	}
}

func (bc *backendConn) sendResult(seq *byte, fs []Field, rows [][][]byte, binaryRows bool) {
	bc.send(seq, putLenEncInt(nil, uint64(len(fs))))
	bc.sendFields(seq, fs)
	for _, r := range rows {
		var p []byte
		if !binaryRows {
			for _, cell := range r {
				if cell == nil {
					p = append(p, 0xfb)
				} else {
					p = putLenEncStr(p, cell)
				}
			}
		} else {
			p = append(p, 0x00)
			bm := make([]byte, (len(fs)+7+2)/8)
			for i, cell := range r {
				if cell == nil {
					bm[(i+2)/8] |= 1 << (uint(i+2) % 8)
				}
			}
			p = append(p, bm...)
			for i, cell := range r {
				if cell == nil {
					continue
				}
				if fs[i].Type == TypeLong {
					n, _ := strconv.ParseInt(string(cell), 10, 64)
					var x [4]byte
					binary.LittleEndian.PutUint32(x[:], uint32(int32(n)))
					p = append(p, x[:]...)
				} else {
					p = putLenEncStr(p, cell)
				}
			}
		}
		bc.send(seq, p)
	}
	if bc.depEOF {
		bc.send(seq, okEOFPacket())
	} else {
		bc.send(seq, eofPacket())
	}
}

// parseExecute decodes the parameters of COM_STMT_EXECUTE.
func parseExecute(p []byte, ps *beStmt) ([]param, error) {
	n := ps.st.NParams
	if n == 0 {
		return nil, nil
	}
	pos := 10
	bmLen := (n + 7) / 8
	if len(p) < pos+bmLen+1 {
		return nil, errShort
	}
	bm := p[pos : pos+bmLen]
	pos += bmLen
	newBound := p[pos] == 1
	pos++
	if newBound {
		if len(p) < pos+2*n {
			return nil, errShort
		}
		ps.types = make([]byte, n)
		for i := 0; i < n; i++ {
			ps.types[i] = p[pos]
			pos += 2
		}
	}
	if len(ps.types) != n {
		return nil, fmt.Errorf("parameters were never bound")
	}
	out := make([]param, n)
	for i := 0; i < n; i++ {
		out[i].typ = ps.types[i]
		if bm[i/8]&(1<<(uint(i)%8)) != 0 {
			continue
		}
		switch ps.types[i] {
		case TypeNull:
		case TypeTiny:
			if len(p) < pos+1 {
				return nil, errShort
			}
			out[i].data = []byte(strconv.Itoa(int(int8(p[pos]))))
			pos++
		case TypeLong:
			if len(p) < pos+4 {
				return nil, errShort
			}
			out[i].data = []byte(strconv.Itoa(int(int32(binary.LittleEndian.Uint32(p[pos:])))))
			pos += 4
		case TypeLongLong:
			if len(p) < pos+8 {
				return nil, errShort
			}
			out[i].data = []byte(strconv.FormatInt(int64(binary.LittleEndian.Uint64(p[pos:])), 10))
			pos += 8
		case TypeBlob, TypeVarString, TypeString, 0xf9, 0xfa, 0xfb, 0x0f:
			s, _, k, err := lenEncStr(p[pos:])
			if err != nil {
				return nil, err
			}
			if s == nil {
				s = []byte{}
			}
			out[i].data = s
			pos += k
		default:
			return nil, fmt.Errorf("unsupported parameter type 0x%02x", ps.types[i])
		}
	}
	if pos != len(p) {
		return nil, fmt.Errorf("COM_STMT_EXECUTE has %d trailing bytes", len(p)-pos)
	}
	return out, nil
}

func (bc *backendConn) serve() {
	// initial handshake (protocol 10)
	var hs []byte
	hs = append(hs, 10)
	hs = append(hs, []byte("8.0.0-myrig")...)
	hs = append(hs, 0)
	hs = append(hs, 1, 0, 0, 0)            // connection id
	hs = append(hs, []byte("abcdefgh")...) // auth-plugin-data-part-1
	hs = append(hs, 0)                     // filler
	caps := uint32(capLongPassword | capLongFlag | capConnectWithDB | capProtocol41 | capTransactions | capSecureConnection | capMultiResults | capPluginAuth | capDeprecateEOF)
	hs = append(hs, byte(caps), byte(caps>>8))      // capability flags (lower)
	hs = append(hs, 45)                             // character set
	hs = append(hs, 0x02, 0x00)                     // status
	hs = append(hs, byte(caps>>16), byte(caps>>24)) // capability flags (upper)
	hs = append(hs, 21)                             // auth plugin data length
	hs = append(hs, make([]byte, 10)...)            // reserved
	hs = append(hs, []byte("ijklmnopqrst")...)      // auth-plugin-data-part-2
	hs = append(hs, 0)
	hs = append(hs, []byte("mysql_native_password")...)
	hs = append(hs, 0)
	if err := writePacket(bc.c, 0, hs); err != nil {
		return
	}
	seq, resp, err := readPacket(bc.c)
	if err != nil {
		return
	}
	if len(resp) < 4 {
		bc.Err = fmt.Errorf("handshake response too short")
		return
	}
	bc.depEOF = binary.LittleEndian.Uint32(resp)&capDeprecateEOF != 0
	if writePacket(bc.c, seq+1, okPacket(0)) != nil {
		return
	}
	for {
		_, p, err := readPacket(bc.c)
		if err != nil {
			return
		}
		if len(p) == 0 {
			bc.Err = fmt.Errorf("empty command packet")
			return
		}
		seq := byte(1)
		switch p[0] {
		case 0x01: // COM_QUIT
			return
		case 0x03: // COM_QUERY
			sql := string(p[1:])
			fw := &FwdStmt{SQL: sql}
			bc.Stmts = append(bc.Stmts, fw)
			st, err := ParseSQL(sql)
			if err == nil && st.NParams > 0 {
				err = &sqlErr{1064, "placeholder in a text protocol statement"}
			}
			if err != nil {
				fw.Err = err.Error()
				bc.sendErr(&seq, err)
				continue
			}
			rows, fs, aff, err := bc.exec(st, nil, fw)
			if err != nil {
				fw.Err = err.Error()
				bc.sendErr(&seq, err)
				continue
			}
			if rows == nil {
				bc.send(&seq, okPacket(aff))
			} else {
				bc.sendResult(&seq, fs, rows, false)
			}
		case 0x16: // COM_STMT_PREPARE
			sql := string(p[1:])
			st, err := ParseSQL(sql)
			var fs []Field
			if err == nil && st.Kind == "select" {
				fs, _, err = bc.resultFields(st)
			}
			if err != nil {
				bc.Stmts = append(bc.Stmts, &FwdStmt{SQL: sql, Prepared: true, Err: err.Error()})
				bc.sendErr(&seq, err)
				continue
			}
			bc.nextStmt++
			id := bc.nextStmt
			bc.stmts[id] = &beStmt{sql: sql, st: st, fields: fs}
			r := []byte{0x00}
			r = append(r, byte(id), byte(id>>8), byte(id>>16), byte(id>>24))
			r = append(r, byte(len(fs)), byte(len(fs)>>8))
			r = append(r, byte(st.NParams), byte(st.NParams>>8))
			r = append(r, 0x00, 0x00, 0x00)
			bc.send(&seq, r)
			if st.NParams > 0 {
				var pf []Field
				for i := 0; i < st.NParams; i++ {
					pf = append(pf, Field{Name: "?", Type: TypeVarString, Charset: 63, Flags: 0x0080})
				}
				bc.sendFields(&seq, pf)
			}
			if len(fs) > 0 {
				bc.sendFields(&seq, fs)
			}
		case 0x17: // COM_STMT_EXECUTE
			if len(p) < 10 {
				bc.Err = errShort
				return
			}
			id := binary.LittleEndian.Uint32(p[1:])
			ps := bc.stmts[id]
			if ps == nil {
				bc.sendErr(&seq, &sqlErr{1243, "Unknown prepared statement handler"})
				continue
			}
			fw := &FwdStmt{SQL: ps.sql, Prepared: true}
			bc.Stmts = append(bc.Stmts, fw)
			params, err := parseExecute(p, ps)
			if err != nil {
				fw.Err = "malformed COM_STMT_EXECUTE: " + err.Error()
				bc.sendErr(&seq, &sqlErr{1835, fw.Err})
				continue
			}
			rows, fs, aff, err := bc.exec(ps.st, params, fw)
			if err != nil {
				fw.Err = err.Error()
				bc.sendErr(&seq, err)
				continue
			}
			if rows == nil {
				bc.send(&seq, okPacket(aff))
			} else {
				bc.sendResult(&seq, fs, rows, true)
			}
		case 0x19: // COM_STMT_CLOSE: no response
			if len(p) >= 5 {
				delete(bc.stmts, binary.LittleEndian.Uint32(p[1:]))
			}
		case 0x1a: // COM_STMT_RESET
			bc.send(&seq, okPacket(0))
		case 0x0e: // COM_PING
			bc.send(&seq, okPacket(0))
		default:
			bc.sendErr(&seq, &sqlErr{1047, "Unknown command"})
		}
	}
}
