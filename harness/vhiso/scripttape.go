package vhiso

import (
	"crypto/rand"

	"acra-vh/vh"
)

// ScriptTape is a recording crypto/rand.Reader replacement like Tape, except that the next scripted
// chunk is handed out whenever its length equals the length requested (used to force chosen
// anonymized values, e.g. token collisions between clients); every other draw comes from the Rng.
type ScriptTape struct {
	rng    *vh.Rng
	Script [][]byte
	Chunks [][]byte
}

func (t *ScriptTape) Read(p []byte) (int, error) {
	var c []byte
	if len(t.Script) > 0 && len(t.Script[0]) == len(p) {
		c = append([]byte{}, t.Script[0]...)
		t.Script = t.Script[1:]
	} else {
		c = t.rng.Bytes(len(p))
	}
	copy(p, c)
	t.Chunks = append(t.Chunks, c)
	return len(p), nil
}

// StartScriptTape installs the reader (undo with StopTape).
func StartScriptTape(r *vh.Rng, script [][]byte) *ScriptTape {
	t := &ScriptTape{rng: vh.NewRng(r.U64()), Script: script}
	rand.Reader = t
	return t
}
