package vhiso

// MemFS: an in-memory implementation of acra's keystore/filesystem.Storage (v1 key store) that never
// touches the real file system and records every path the key store accesses (so the harness can
// observe which storage name a getter/generator uses).  Paths are opaque strings: no cleaning, no
// interpretation of ".." (exactly what the v1 key store hands to the OS is what is recorded).

import (
	"fmt"
	"io/fs"
	"os"
	"path/filepath"
	"sort"
	"time"
)

type memFile struct {
	data []byte
	mode os.FileMode
	dir  bool
}

type MemFS struct {
	Files map[string]*memFile
	Log   []string // "<op> <path>" in access order
	tmpN  int
}

func NewMemFS() *MemFS { return &MemFS{Files: map[string]*memFile{}} }

type memInfo struct {
	name string
	f    *memFile
}

func (i memInfo) Name() string { return i.name }
func (i memInfo) Size() int64  { return int64(len(i.f.data)) }
func (i memInfo) Mode() os.FileMode {
	if i.f.dir {
		return i.f.mode | os.ModeDir
	}
	return i.f.mode
}
func (i memInfo) ModTime() time.Time { return time.Time{} }
func (i memInfo) IsDir() bool        { return i.f.dir }
func (i memInfo) Sys() interface{}   { return nil }

func notExist(op, path string) error { return &os.PathError{Op: op, Path: path, Err: fs.ErrNotExist} }
func exist(op, path string) error    { return &os.PathError{Op: op, Path: path, Err: fs.ErrExist} }

func (m *MemFS) log(op, path string) { m.Log = append(m.Log, op+" "+path) }

// ResetLog forgets the recorded accesses.
func (m *MemFS) ResetLog() { m.Log = nil }

func (m *MemFS) Stat(path string) (os.FileInfo, error) {
	m.log("stat", path)
	f, ok := m.Files[path]
	if !ok {
		return nil, notExist("stat", path)
	}
	return memInfo{filepath.Base(path), f}, nil
}
func (m *MemFS) Exists(path string) (bool, error) {
	m.log("exists", path)
	_, ok := m.Files[path]
	return ok, nil
}
func (m *MemFS) ReadDir(path string) ([]os.FileInfo, error) {
	m.log("readdir", path)
	d, ok := m.Files[path]
	if !ok || !d.dir {
		return nil, notExist("readdir", path)
	}
	var names []string
	for p := range m.Files {
		if p != path && filepath.Dir(p) == path {
			names = append(names, p)
		}
	}
	sort.Strings(names)
	out := make([]os.FileInfo, 0, len(names))
	for _, p := range names {
		out = append(out, memInfo{filepath.Base(p), m.Files[p]})
	}
	return out, nil
}
func (m *MemFS) MkdirAll(path string, perm os.FileMode) error {
	m.log("mkdirall", path)
	for p := path; p != "" && p != "." && p != "/"; p = filepath.Dir(p) {
		if f, ok := m.Files[p]; ok {
			if !f.dir {
				return exist("mkdir", p)
			}
			continue
		}
		m.Files[p] = &memFile{mode: perm, dir: true}
	}
	return nil
}
func (m *MemFS) Rename(oldpath, newpath string) error {
	m.log("rename", newpath)
	f, ok := m.Files[oldpath]
	if !ok {
		return notExist("rename", oldpath)
	}
	delete(m.Files, oldpath)
	m.Files[newpath] = f
	return nil
}
func (m *MemFS) TempFile(pattern string, perm os.FileMode) (string, error) {
	m.tmpN++
	name := fmt.Sprintf("%s.tmp%06d", pattern, m.tmpN)
	m.Files[name] = &memFile{mode: perm}
	return name, nil
}
func (m *MemFS) TempDir(pattern string, perm os.FileMode) (string, error) {
	m.tmpN++
	name := fmt.Sprintf("%s.tmp%06d", pattern, m.tmpN)
	m.Files[name] = &memFile{mode: perm, dir: true}
	return name, nil
}
func (m *MemFS) Link(oldpath, newpath string) error {
	m.log("link", newpath)
	return m.Copy(oldpath, newpath)
}
func (m *MemFS) Copy(src, dst string) error {
	f, ok := m.Files[src]
	if !ok {
		return notExist("copy", src)
	}
	if _, ok := m.Files[dst]; ok {
		return exist("copy", dst)
	}
	m.Files[dst] = &memFile{data: append([]byte{}, f.data...), mode: f.mode}
	return nil
}
func (m *MemFS) ReadFile(path string) ([]byte, error) {
	m.log("read", path)
	f, ok := m.Files[path]
	if !ok || f.dir {
		return nil, notExist("open", path)
	}
	return append([]byte{}, f.data...), nil
}
func (m *MemFS) WriteFile(path string, data []byte, perm os.FileMode) error {
	m.log("write", path)
	if f, ok := m.Files[path]; ok && !f.dir {
		f.data = append([]byte{}, data...)
		return nil
	}
	m.Files[path] = &memFile{data: append([]byte{}, data...), mode: perm}
	return nil
}
func (m *MemFS) Remove(path string) error {
	m.log("remove", path)
	if _, ok := m.Files[path]; !ok {
		return notExist("remove", path)
	}
	delete(m.Files, path)
	return nil
}
func (m *MemFS) RemoveAll(path string) error {
	m.log("removeall", path)
	for p := range m.Files {
		if p == path || (len(p) > len(path) && p[:len(path)+1] == path+"/") {
			delete(m.Files, p)
		}
	}
	return nil
}

// Raw returns the stored bytes of a file (nil if absent) without logging.
func (m *MemFS) Raw(path string) []byte {
	if f, ok := m.Files[path]; ok && !f.dir {
		return append([]byte{}, f.data...)
	}
	return nil
}

// Plant writes bytes under a name without logging (attacker-style relocation of a stored blob).
func (m *MemFS) Plant(path string, data []byte, perm os.FileMode) {
	m.Files[path] = &memFile{data: append([]byte{}, data...), mode: perm}
}

// SpyBackend wraps a keystore v2 backend and records the path of every Get/Put/Rename.
type SpyBackend struct {
	Inner interface {
		Get(path string) ([]byte, error)
		Put(path string, data []byte) error
		ListAll() ([]string, error)
		Rename(oldpath, newpath string) error
		RenameNX(oldpath, newpath string) error
		Remove(path string) error
		Lock() error
		RLock() error
		Unlock() error
		RUnlock() error
		Close() error
	}
	Log []string
}

func (s *SpyBackend) Get(path string) ([]byte, error) {
	s.Log = append(s.Log, "get "+path)
	return s.Inner.Get(path)
}
func (s *SpyBackend) Put(path string, data []byte) error {
	s.Log = append(s.Log, "put "+path)
	return s.Inner.Put(path, data)
}
func (s *SpyBackend) ListAll() ([]string, error) { return s.Inner.ListAll() }
func (s *SpyBackend) Rename(o, n string) error {
	s.Log = append(s.Log, "rename "+n)
	return s.Inner.Rename(o, n)
}
func (s *SpyBackend) RenameNX(o, n string) error {
	s.Log = append(s.Log, "renamenx "+n)
	return s.Inner.RenameNX(o, n)
}
func (s *SpyBackend) Remove(p string) error {
	s.Log = append(s.Log, "remove "+p)
	return s.Inner.Remove(p)
}
func (s *SpyBackend) Lock() error    { return s.Inner.Lock() }
func (s *SpyBackend) RLock() error   { return s.Inner.RLock() }
func (s *SpyBackend) Unlock() error  { return s.Inner.Unlock() }
func (s *SpyBackend) RUnlock() error { return s.Inner.RUnlock() }
func (s *SpyBackend) Close() error   { return nil }

// Clone returns an independent copy of the storage content (empty log).
func (m *MemFS) Clone() *MemFS {
	c := NewMemFS()
	for p, f := range m.Files {
		c.Files[p] = &memFile{data: append([]byte{}, f.data...), mode: f.mode, dir: f.dir}
	}
	c.tmpN = m.tmpN
	return c
}
