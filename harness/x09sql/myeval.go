// Package x09sql: a tiny evaluator for the WHERE conditions that acra's MySQL searchable-encryption rewrite
// (hmac/decryptor/mysql HashQuery.OnQuery) produces or leaves alone, on the sqlparser AST of the REWRITTEN
// statement:
//
//	cond    ::= cond AND cond | cond OR cond | NOT cond | (cond) | operand (=|!=|<>|<=>) operand
//	operand ::= column | substr(column, from, len) | convert(operand, type) | 'str' | X'hex' | 0xhex | ? (:vN)
//
// Values are byte strings; convert()/CAST do not change bytes. Anything else is an error (the caller reports a
// shape outside the evaluator as a violation).
package x09sql

import (
	"bytes"
	"encoding/hex"
	"fmt"
	"strconv"
	"strings"

	"github.com/cossacklabs/acra/sqlparser"
)

// X09Row maps a column name to the stored bytes.
type X09Row map[string][]byte

// X09Where returns the WHERE expression of a SELECT.
func X09Where(stmt sqlparser.Statement) (sqlparser.Expr, error) {
	sel, ok := stmt.(*sqlparser.Select)
	if !ok || sel.Where == nil {
		return nil, fmt.Errorf("not a SELECT with a WHERE clause")
	}
	return sel.Where.Expr, nil
}

func x09Int(e sqlparser.Expr) (int, error) {
	v, ok := e.(*sqlparser.SQLVal)
	if !ok || v.Type != sqlparser.IntVal {
		return 0, fmt.Errorf("substr bound is not an integer literal")
	}
	return strconv.Atoi(string(v.Val))
}

func x09Value(e sqlparser.Expr, row X09Row, binds [][]byte) ([]byte, error) {
	switch n := e.(type) {
	case *sqlparser.ColName:
		v, ok := row[n.Name.String()]
		if !ok {
			return nil, fmt.Errorf("unknown column %s", n.Name.String())
		}
		return v, nil
	case *sqlparser.SubstrExpr:
		v, err := x09Value(n.Name, row, binds)
		if err != nil {
			return nil, err
		}
		from, err := x09Int(n.From)
		if err != nil {
			return nil, err
		}
		ln, err := x09Int(n.To)
		if err != nil {
			return nil, err
		}
		if from < 1 || ln < 0 {
			return nil, fmt.Errorf("substr range")
		}
		lo := from - 1
		if lo > len(v) {
			lo = len(v)
		}
		hi := lo + ln
		if hi > len(v) {
			hi = len(v)
		}
		return v[lo:hi], nil
	case *sqlparser.ConvertExpr:
		return x09Value(n.Expr, row, binds)
	case *sqlparser.ParenExpr:
		return x09Value(n.Expr, row, binds)
	case *sqlparser.SQLVal:
		switch n.Type {
		case sqlparser.StrVal:
			return n.Val, nil
		case sqlparser.HexVal:
			return hex.DecodeString(string(n.Val))
		case sqlparser.HexNum:
			s := string(n.Val)
			s = strings.TrimPrefix(strings.TrimPrefix(s, "0x"), "0X")
			return hex.DecodeString(s)
		case sqlparser.ValArg:
			i, err := strconv.Atoi(strings.TrimPrefix(string(n.Val), ":v"))
			if err != nil || i < 1 || i > len(binds) {
				return nil, fmt.Errorf("placeholder %s without value", n.Val)
			}
			return binds[i-1], nil
		}
		return nil, fmt.Errorf("literal type %d outside the evaluator", n.Type)
	}
	return nil, fmt.Errorf("operand %T outside the evaluator", e)
}

// X09Eval evaluates a condition on one row.
func X09Eval(e sqlparser.Expr, row X09Row, binds [][]byte) (bool, error) {
	switch n := e.(type) {
	case *sqlparser.AndExpr:
		a, err := X09Eval(n.Left, row, binds)
		if err != nil {
			return false, err
		}
		b, err := X09Eval(n.Right, row, binds)
		return a && b, err
	case *sqlparser.OrExpr:
		a, err := X09Eval(n.Left, row, binds)
		if err != nil {
			return false, err
		}
		b, err := X09Eval(n.Right, row, binds)
		return a || b, err
	case *sqlparser.NotExpr:
		a, err := X09Eval(n.Expr, row, binds)
		return !a, err
	case *sqlparser.ParenExpr:
		return X09Eval(n.Expr, row, binds)
	case *sqlparser.ComparisonExpr:
		var eq bool
		switch n.Operator {
		case sqlparser.EqualStr, sqlparser.NullSafeEqualStr:
			eq = true
		case sqlparser.NotEqualStr, "<>":
			eq = false
		default:
			return false, fmt.Errorf("operator %q outside the evaluator", n.Operator)
		}
		l, err := x09Value(n.Left, row, binds)
		if err != nil {
			return false, err
		}
		r, err := x09Value(n.Right, row, binds)
		if err != nil {
			return false, err
		}
		return bytes.Equal(l, r) == eq, nil
	}
	return false, fmt.Errorf("condition %T outside the evaluator", e)
}
