// Package core is the whole "cryptography" of the stand-in. It is NOT secure; it is a
// deterministic, transparent, length-faithful twin of the Themis primitives acra uses,
// mirrored byte for byte by /verif/coq/Crypto/Stub.v.
package core

import (
	"crypto/rand"
	"encoding/binary"
)

const (
	fnvBasisA = 0xcbf29ce484222325
	fnvBasisB = 0x84222325cbf29ce4
	// SealOverhead = 12 header + 4 length + 12 nonce + 16 tag
	SealOverhead = 44
	NonceLen     = 12
	KeyLen       = 45
	SeedLen      = 32
	WrapHeader   = 8
)

var sealMagic = []byte{0x00, 0x01, 0x01, 0x40, 12, 0, 0, 0, 16, 0, 0, 0}
var wrapMagic = []byte{0x20, 0x27, 0x04, 0x26}

// Fnv is a cheap 64-bit absorption hash (FNV-like: xor the byte in, multiply by the odd
// constant 1+2^13+2^40, fold the high bits down); shifts and adds keep its Coq twin fast.
func Fnv(basis uint64, parts ...[]byte) uint64 {
	h := basis
	for _, p := range parts {
		for _, b := range p {
			h ^= uint64(b)
			h = h + h<<13 + h<<40
			h ^= h >> 29
		}
	}
	return h
}

func le32(n int) []byte { b := make([]byte, 4); binary.LittleEndian.PutUint32(b, uint32(n)); return b }
func le64(n uint64) []byte {
	b := make([]byte, 8)
	binary.LittleEndian.PutUint64(b, n)
	return b
}

func keystream(key, nonce []byte, n int) []byte {
	out := make([]byte, 0, n+8)
	for i := uint64(0); len(out) < n; i++ {
		out = append(out, le64(Fnv(fnvBasisA, key, nonce, le64(i)))...)
	}
	return out[:n]
}

func tag(key, ctx, nonce, msg []byte) []byte {
	a := Fnv(fnvBasisA, le32(len(key)), key, le32(len(ctx)), ctx, nonce, msg)
	b := Fnv(fnvBasisB, le32(len(key)), key, le32(len(ctx)), ctx, nonce, msg)
	return append(le64(a), le64(b)...)
}

// Nonce draws 12 bytes from crypto/rand.Reader.
func Nonce() ([]byte, bool) {
	n := make([]byte, NonceLen)
	if _, err := rand.Read(n); err != nil {
		return nil, false
	}
	return n, true
}

// SealEnc with explicit nonce.
func SealEnc(key, ctx, nonce, msg []byte) []byte {
	out := make([]byte, 0, len(msg)+SealOverhead)
	out = append(out, sealMagic...)
	out = append(out, le32(len(msg))...)
	out = append(out, nonce...)
	out = append(out, tag(key, ctx, nonce, msg)...)
	ks := keystream(key, nonce, len(msg))
	for i, b := range msg {
		out = append(out, b^ks[i])
	}
	return out
}

// SealDec returns (plaintext, ok).
func SealDec(key, ctx, ct []byte) ([]byte, bool) {
	if len(ct) <= SealOverhead {
		return nil, false
	}
	for i, b := range sealMagic {
		if ct[i] != b {
			return nil, false
		}
	}
	n := int(binary.LittleEndian.Uint32(ct[12:16]))
	if n != len(ct)-SealOverhead {
		return nil, false
	}
	nonce := ct[16:28]
	body := ct[SealOverhead:]
	ks := keystream(key, nonce, len(body))
	msg := make([]byte, len(body))
	for i, b := range body {
		msg[i] = b ^ ks[i]
	}
	t := tag(key, ctx, nonce, msg)
	for i := range t {
		if t[i] != ct[28+i] {
			return nil, false
		}
	}
	return msg, true
}

func crc(body []byte) []byte { return le64(Fnv(fnvBasisA, body))[:4] }

// KeyPair builds (private, public) from a 32-byte seed.
func KeyPair(seed []byte) ([]byte, []byte) {
	privBody := append([]byte{0x00}, seed...)
	pubBody := make([]byte, 0, 33)
	pubBody = append(pubBody, 0x02)
	for _, b := range seed {
		pubBody = append(pubBody, b^0x5a)
	}
	priv := append(append([]byte("REC2"), 0, 0, 0, KeyLen), crc(privBody)...)
	priv = append(priv, privBody...)
	pub := append(append([]byte("UEC2"), 0, 0, 0, KeyLen), crc(pubBody)...)
	pub = append(pub, pubBody...)
	return priv, pub
}

func validKey(k []byte, tagName string, first byte) bool {
	if len(k) != KeyLen || string(k[:4]) != tagName || k[4] != 0 || k[5] != 0 || k[6] != 0 || k[7] != KeyLen || k[12] != first {
		return false
	}
	c := crc(k[12:])
	return c[0] == k[8] && c[1] == k[9] && c[2] == k[10] && c[3] == k[11]
}

// ValidPrivate / ValidPublic check the container.
func ValidPrivate(k []byte) bool { return validKey(k, "REC2", 0x00) }
func ValidPublic(k []byte) bool  { return validKey(k, "UEC2", 0x02) }

// Shared is the symmetric "ECDH" of the stand-in.
func Shared(priv, pub []byte) ([]byte, bool) {
	if !ValidPrivate(priv) || !ValidPublic(pub) {
		return nil, false
	}
	s := make([]byte, SeedLen)
	for i := range s {
		s[i] = priv[13+i] ^ pub[13+i] ^ 0x5a
	}
	return s, true
}

// Wrap with explicit nonce.
func Wrap(priv, pub, nonce, msg []byte) ([]byte, bool) {
	s, ok := Shared(priv, pub)
	if !ok {
		return nil, false
	}
	out := append([]byte{}, wrapMagic...)
	out = append(out, le32(len(msg)+SealOverhead+WrapHeader)...)
	return append(out, SealEnc(s, nil, nonce, msg)...), true
}

// Unwrap.
func Unwrap(priv, pub, ct []byte) ([]byte, bool) {
	s, ok := Shared(priv, pub)
	if !ok {
		return nil, false
	}
	if len(ct) <= WrapHeader+SealOverhead {
		return nil, false
	}
	for i, b := range wrapMagic {
		if ct[i] != b {
			return nil, false
		}
	}
	if int(binary.LittleEndian.Uint32(ct[4:8])) != len(ct) {
		return nil, false
	}
	return SealDec(s, nil, ct[WrapHeader:])
}
