// Package cell: stand-in for gothemis/cell (Seal mode only; acra uses nothing else).
package cell

import (
	"github.com/cossacklabs/themis/gothemis/core"
	"github.com/cossacklabs/themis/gothemis/errors"
	"github.com/cossacklabs/themis/gothemis/keys"
)

// Errors returned by Secure Cell.
var (
	ErrGetOutputSize     = errors.New("failed to get output size")
	ErrEncryptData       = errors.New("failed to protect data")
	ErrDecryptData       = errors.New("failed to unprotect data")
	ErrInvalidMode       = errors.NewWithCode(errors.InvalidParameter, "invalid Secure Cell mode specified")
	ErrMissingKey        = errors.NewWithCode(errors.InvalidParameter, "empty symmetric key for Secure Cell")
	ErrMissingPassphrase = errors.NewWithCode(errors.InvalidParameter, "empty passphrase for Secure Cell")
	ErrMissingMessage    = errors.NewWithCode(errors.InvalidParameter, "empty message for Secure Cell")
	ErrMissingToken      = errors.NewWithCode(errors.InvalidParameter, "authentication token is required in Token Protect mode")
	ErrMissingContext    = errors.NewWithCode(errors.InvalidParameter, "associated context is required in Context Imprint mode")
	ErrOutOfMemory       = errors.NewWithCode(errors.NoMemory, "Secure Cell cannot allocate enough memory")
	ErrOverflow          = ErrOutOfMemory
)

// Secure Cell modes.
const (
	ModeSeal = iota
	ModeTokenProtect
	ModeContextImprint
)

// Deprecated aliases.
const (
	CELL_MODE_SEAL            = ModeSeal
	CELL_MODE_TOKEN_PROTECT   = ModeTokenProtect
	CELL_MODE_CONTEXT_IMPRINT = ModeContextImprint
)

// SecureCellSeal is Secure Cell in Seal mode.
type SecureCellSeal struct{ key *keys.SymmetricKey }

// SealWithKey makes a new Secure Cell in Seal mode.
func SealWithKey(key *keys.SymmetricKey) (*SecureCellSeal, error) {
	if key == nil || len(key.Value) == 0 {
		return nil, ErrMissingKey
	}
	return &SecureCellSeal{key}, nil
}

// Encrypt message.
func (sc *SecureCellSeal) Encrypt(message, context []byte) ([]byte, error) {
	if len(message) == 0 {
		return nil, ErrMissingMessage
	}
	nonce, ok := core.Nonce()
	if !ok {
		return nil, errors.NewWithCode(errors.Fail, "Secure Cell failed to encrypt")
	}
	return core.SealEnc(sc.key.Value, context, nonce, message), nil
}

// Decrypt message.
func (sc *SecureCellSeal) Decrypt(encrypted, context []byte) ([]byte, error) {
	if len(encrypted) == 0 {
		return nil, ErrMissingMessage
	}
	m, ok := core.SealDec(sc.key.Value, context, encrypted)
	if !ok {
		return nil, errors.NewWithCode(errors.Fail, "Secure Cell failed to decrypt")
	}
	return m, nil
}

// SecureCell is the legacy API.
type SecureCell struct {
	key  []byte
	mode int
}

// New makes a new Secure Cell (legacy API).
func New(key []byte, mode int) *SecureCell { return &SecureCell{key, mode} }

// Protect encrypts.
func (sc *SecureCell) Protect(data []byte, context []byte) ([]byte, []byte, error) {
	if sc.mode != ModeSeal {
		return nil, nil, ErrInvalidMode
	}
	if len(sc.key) == 0 {
		return nil, nil, ErrMissingKey
	}
	if len(data) == 0 {
		return nil, nil, ErrMissingMessage
	}
	nonce, ok := core.Nonce()
	if !ok {
		return nil, nil, ErrEncryptData
	}
	return core.SealEnc(sc.key, context, nonce, data), nil, nil
}

// Unprotect decrypts.
func (sc *SecureCell) Unprotect(protectedData []byte, additionalData []byte, context []byte) ([]byte, error) {
	if sc.mode != ModeSeal {
		return nil, ErrInvalidMode
	}
	if len(sc.key) == 0 {
		return nil, ErrMissingKey
	}
	if len(protectedData) == 0 {
		return nil, ErrMissingMessage
	}
	m, ok := core.SealDec(sc.key, context, protectedData)
	if !ok {
		return nil, ErrDecryptData
	}
	return m, nil
}
