// Package keys: stand-in for gothemis/keys.
package keys

import (
	"crypto/rand"

	"github.com/cossacklabs/themis/gothemis/core"
	"github.com/cossacklabs/themis/gothemis/errors"
)

// Type of Themis key.
const (
	TypeEC = iota
	TypeRSA
)

// Deprecated aliases.
const (
	KEYTYPE_EC  = TypeEC
	KEYTYPE_RSA = TypeRSA
)

// Errors returned by key generation.
var (
	ErrGetKeySize           = errors.New("failed to get needed key sizes")
	ErrGenerateKeypair      = errors.New("failed to generate keypair")
	ErrInvalidType          = errors.NewWithCode(errors.InvalidParameter, "invalid key type specified")
	ErrOutOfMemory          = errors.NewWithCode(errors.NoMemory, "key generator cannot allocate enough memory")
	ErrOverflow             = ErrOutOfMemory
	ErrGetSymmetricKeySize  = errors.New("failed to get symmetric key size")
	ErrGenerateSymmetricKey = errors.New("failed to generate symmetric key")
)

// PrivateKey stores a private key.
type PrivateKey struct{ Value []byte }

// PublicKey stores a public key.
type PublicKey struct{ Value []byte }

// Keypair stores a key pair.
type Keypair struct {
	Private *PrivateKey
	Public  *PublicKey
}

// SymmetricKey stores a master key for Secure Cell.
type SymmetricKey struct{ Value []byte }

// New generates a key pair: draws 32 bytes from crypto/rand.Reader.
func New(keytype int) (*Keypair, error) {
	if keytype != TypeEC {
		return nil, ErrInvalidType
	}
	seed := make([]byte, core.SeedLen)
	if _, err := rand.Read(seed); err != nil {
		return nil, ErrGenerateKeypair
	}
	priv, pub := core.KeyPair(seed)
	return &Keypair{Private: &PrivateKey{Value: priv}, Public: &PublicKey{Value: pub}}, nil
}

// NewSymmetricKey draws 32 bytes from crypto/rand.Reader.
func NewSymmetricKey() (*SymmetricKey, error) {
	key := make([]byte, 32)
	if _, err := rand.Read(key); err != nil {
		return nil, ErrGenerateSymmetricKey
	}
	return &SymmetricKey{Value: key}, nil
}
