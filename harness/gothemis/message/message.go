// Package message: stand-in for gothemis/message (encrypt mode only).
package message

import (
	"github.com/cossacklabs/themis/gothemis/core"
	"github.com/cossacklabs/themis/gothemis/errors"
	"github.com/cossacklabs/themis/gothemis/keys"
)

// Errors returned by Secure Message.
var (
	ErrEncryptMessage    = errors.New("failed to encrypt message")
	ErrDecryptMessage    = errors.New("failed to decrypt message")
	ErrSignMessage       = errors.New("failed to sign message")
	ErrVerifyMessage     = errors.New("failed to verify message")
	ErrProcessMessage    = errors.New("failed to process message")
	ErrGetOutputSize     = errors.New("failed to get output size")
	ErrMissingMessage    = errors.NewWithCode(errors.InvalidParameter, "empty message for Secure Cell")
	ErrMissingPublicKey  = errors.NewWithCode(errors.InvalidParameter, "empty peer public key for Secure Message")
	ErrMissingPrivateKey = errors.NewWithCode(errors.InvalidParameter, "empty private key for Secure Message")
	ErrOutOfMemory       = errors.NewWithCode(errors.NoMemory, "Secure Message cannot allocate enough memory")
	ErrOverflow          = ErrOutOfMemory
)

// SecureMessage provides a sequence-independent, stateless, contextless messaging system.
type SecureMessage struct {
	private    *keys.PrivateKey
	peerPublic *keys.PublicKey
}

// New makes a new Secure Message context.
func New(private *keys.PrivateKey, peerPublic *keys.PublicKey) *SecureMessage {
	return &SecureMessage{private, peerPublic}
}

func (sm *SecureMessage) check() error {
	if nil == sm.private || 0 == len(sm.private.Value) {
		return ErrMissingPrivateKey
	}
	if nil == sm.peerPublic || 0 == len(sm.peerPublic.Value) {
		return ErrMissingPublicKey
	}
	return nil
}

// Wrap encrypts the message.
func (sm *SecureMessage) Wrap(message []byte) ([]byte, error) {
	if err := sm.check(); err != nil {
		return nil, err
	}
	if len(message) == 0 {
		return nil, ErrMissingMessage
	}
	if !core.ValidPrivate(sm.private.Value) || !core.ValidPublic(sm.peerPublic.Value) {
		return nil, ErrGetOutputSize
	}
	nonce, ok := core.Nonce()
	if !ok {
		return nil, ErrEncryptMessage
	}
	out, ok := core.Wrap(sm.private.Value, sm.peerPublic.Value, nonce, message)
	if !ok {
		return nil, ErrEncryptMessage
	}
	return out, nil
}

// Unwrap decrypts the message.
func (sm *SecureMessage) Unwrap(message []byte) ([]byte, error) {
	if err := sm.check(); err != nil {
		return nil, err
	}
	if len(message) == 0 {
		return nil, ErrMissingMessage
	}
	out, ok := core.Unwrap(sm.private.Value, sm.peerPublic.Value, message)
	if !ok {
		return nil, ErrDecryptMessage
	}
	return out, nil
}

// Sign / Verify are not used by acra; provided for API completeness.
func (sm *SecureMessage) Sign(message []byte) ([]byte, error)   { return nil, ErrSignMessage }
func (sm *SecureMessage) Verify(message []byte) ([]byte, error) { return nil, ErrVerifyMessage }
