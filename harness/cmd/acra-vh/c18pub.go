package main

// Domain c18pub (C18, strengthening s59): keystore v2 export -> import, EVERY export mode x ring
// shape x target/delegate, enumerated systematically (table driven; the seed only varies key
// material, times and which old key is destroyed).
//
//	modes        1 public-only, 2 private, 4 "all" alone (no private bit: acts as public-only),
//	             3 public|private, 6 private|all
//	ring shapes  key-pair rings: single key; rotated; rotated with an OLD key destroyed; current
//	             destroyed; all destroyed; public-only keys; public-only + destroyed; key states
//	             walked through activate/deactivate/compromise (+ destroy); keys never made current
//	             other rings: symmetric single / rotated with old destroyed / all destroyed; empty ring;
//	             API-only shapes: key-pair and symmetric keys in one ring, one key with two formats
//	selection    key-pair and symmetric rings together, permuted / partial, a missing ring
//	targets      empty (acra's default delegate), same rings + overwrite, same rings + skip,
//	             other rings (default delegate), same rings + default delegate (conflict)
//
// The REAL filesystem.KeyStore (in-memory back end) executes everything; every step is replayed on
// Model/KeyRingV2Ext.v (+ DerV2Ext.v) through Model/RunKeyRingV2Ext.v (KExport,
// KDerRoundTrip, KHistViews, KPlan = model export -> DER SET order -> model import into each target -> stored rings and getters).
//
// The property's own oracle on the implementation, driven by the SELECTION (not by what happens to
// be in the bundle):
//   - every selected ring that exists in the source and has anything exportable in the mode (private
//     bit: every ring; otherwise: at least one readable public key) is in the bundle, and after a
//     successful import it is in the target with exactly the getters the mode allows (public-only:
//     CurrentKey, AllKeys, State, ValidSince/Until, Formats, PublicKey identical; no PrivateKey /
//     SymmetricKey readable);
//   - the bundle holds only selected rings; ImportKeyRings reports exactly the rings of the bundle
//     (the explicit result for what was left out); a missing ring is an error of the export;
//   - without the private bit no private / symmetric plaintext AND no sealed private / symmetric
//     field of the source appears in the bundle plaintext, and the rings written to the target have
//     empty private / symmetric fields;
//   - rings outside the bundle (and rings kept by a skip delegate) are byte-identical afterwards.
//
// A last leg drives the same source through ServerKeyStore + KeyBackuper.Export(ExportIDs, mode) /
// KeyBackuper.Import — the code path of `acra-keys export` / `acra-keys import` — and applies the
// selected-ring oracle there too (oracle only: its access keys are generated inside acra).

import (
	"bytes"
	"fmt"
	"sort"
	"strings"
	"time"

	"acra-vh/vh"

	"github.com/cossacklabs/acra/keystore"
	keystoreV2 "github.com/cossacklabs/acra/keystore/v2/keystore"
	"github.com/cossacklabs/acra/keystore/v2/keystore/api"
	"github.com/cossacklabs/acra/keystore/v2/keystore/asn1"
	cryptoV2 "github.com/cossacklabs/acra/keystore/v2/keystore/crypto"
	fsV2 "github.com/cossacklabs/acra/keystore/v2/keystore/filesystem"
	"github.com/cossacklabs/themis/gothemis/core"
)

func init() { register("c18pub", "Model.RunKeyRingV2Ext", c18pubRun) }

// ---------- scripted ring operations ----------

// c18pubOp: 'a' AddKey(data kind), 'c' SetCurrent(seq), 's' SetState(seq, st), 'd' DestroyKey(seq)
type c18pubOp struct {
	kind byte
	data string // "pair", "pub" (key pair without private half), "sym", "pair+sym", "sym+pair"
	seq  int
	st   int
}

type c18pubShape struct {
	name string
	pair bool // a key-pair ring (natural paths: client/<id>/storage, poison-record)
	ops  func(r *vh.Rng) []c18pubOp
}

func c18pubAdd(data string) c18pubOp { return c18pubOp{kind: 'a', data: data} }
func c18pubCur(seq int) c18pubOp     { return c18pubOp{kind: 'c', seq: seq} }
func c18pubSt(seq, st int) c18pubOp  { return c18pubOp{kind: 's', seq: seq, st: st} }
func c18pubDel(seq int) c18pubOp     { return c18pubOp{kind: 'd', seq: seq} }

// generate `n` keys of kind `data`, each made current as ServerKeyStore does (AddKey + SetCurrent)
func c18pubRotate(data string, n int) []c18pubOp {
	var out []c18pubOp
	for i := 1; i <= n; i++ {
		out = append(out, c18pubAdd(data), c18pubCur(i))
	}
	return out
}

var c18pubPairShapes = []c18pubShape{
	{"pair:single", true, func(r *vh.Rng) []c18pubOp { return c18pubRotate("pair", 1) }},
	{"pair:rotated", true, func(r *vh.Rng) []c18pubOp { return c18pubRotate("pair", 2+r.Intn(2)) }},
	{"pair:rotated-old-destroyed", true, func(r *vh.Rng) []c18pubOp {
		// acra-keys destroy --index i: one of the rotated (not current) keys
		n := 2 + r.Intn(2)
		return append(c18pubRotate("pair", n), c18pubDel(1+r.Intn(n-1)))
	}},
	{"pair:current-destroyed", true, func(r *vh.Rng) []c18pubOp {
		n := 1 + r.Intn(3)
		return append(c18pubRotate("pair", n), c18pubDel(n))
	}},
	{"pair:all-destroyed", true, func(r *vh.Rng) []c18pubOp {
		n := 1 + r.Intn(2)
		out := c18pubRotate("pair", n)
		for i := n; i >= 1; i-- {
			out = append(out, c18pubDel(i))
		}
		return out
	}},
	{"pair:public-only-keys", true, func(r *vh.Rng) []c18pubOp { return c18pubRotate("pub", 1+r.Intn(2)) }},
	{"pair:public-only-old-destroyed", true, func(r *vh.Rng) []c18pubOp {
		out := append(c18pubRotate("pub", 1), c18pubAdd("pair"), c18pubCur(2))
		if r.Bool() {
			out = append(out, c18pubAdd("pub"), c18pubCur(3))
		}
		return append(out, c18pubDel(1))
	}},
	{"pair:states", true, func(r *vh.Rng) []c18pubOp {
		// 1 pre-active -> 2 active -> 3 deactivated -> 4 compromised (-> destroyed)
		out := []c18pubOp{c18pubAdd("pair"), c18pubCur(1), c18pubSt(1, 2), c18pubAdd("pair"), c18pubCur(2), c18pubSt(2, 2), c18pubSt(1, 3)}
		if r.Bool() {
			out = append(out, c18pubSt(1, 4))
		}
		if r.Bool() {
			out = append(out, c18pubDel(1))
		}
		return append(out, c18pubAdd("pair")) // a third key, never made current
	}},
	{"pair:no-current", true, func(r *vh.Rng) []c18pubOp {
		out := []c18pubOp{c18pubAdd("pair"), c18pubAdd("pair")}
		if r.Bool() {
			out = append(out, c18pubDel(1))
		}
		return out
	}},
}

var c18pubOtherShapes = []c18pubShape{
	{"sym:single", false, func(r *vh.Rng) []c18pubOp { return c18pubRotate("sym", 1) }},
	{"sym:rotated-old-destroyed", false, func(r *vh.Rng) []c18pubOp { return append(c18pubRotate("sym", 2), c18pubDel(1)) }},
	{"mixed:pair-then-sym", false, func(r *vh.Rng) []c18pubOp {
		return []c18pubOp{c18pubAdd("pair"), c18pubCur(1), c18pubAdd("sym"), c18pubCur(2)}
	}},
	{"sym:all-destroyed", false, func(r *vh.Rng) []c18pubOp { return append(c18pubRotate("sym", 1), c18pubDel(1)) }},
	{"mixed:two-format-key", false, func(r *vh.Rng) []c18pubOp {
		d := []string{"pair+sym", "sym+pair"}[r.Intn(2)]
		return []c18pubOp{c18pubAdd(d), c18pubCur(1), c18pubAdd("pair"), c18pubCur(2)}
	}},
	{"empty-ring", false, func(r *vh.Rng) []c18pubOp { return []c18pubOp{c18pubCur(1)} }}, // opened read-write, nothing added
	{"mixed:sym-then-pair-destroyed-sym", false, func(r *vh.Rng) []c18pubOp {
		// the only key without public data is destroyed again: only public data and a marker are left
		return []c18pubOp{c18pubAdd("sym"), c18pubCur(1), c18pubAdd("pair"), c18pubCur(2), c18pubDel(1)}
	}},
	{"sym:rotated", false, func(r *vh.Rng) []c18pubOp { return c18pubRotate("sym", 2+r.Intn(2)) }},
}

// c18pubApply runs one scripted operation on the real store and records the model's rop
func (s *x18Store) c18pubApply(rep *vh.Report, r *vh.Rng, path string, op c18pubOp, small bool) [][]byte {
	s.paths[path] = true
	ring, err := s.ks.OpenKeyRingRW(path)
	if err != nil {
		panic("OpenKeyRingRW: " + err.Error())
	}
	switch op.kind {
	case 'a':
		rep.Count("rop:addkey:" + op.data)
		since := time.Date(2020+r.Intn(15), time.Month(1+r.Intn(12)), 1+r.Intn(28), r.Intn(24), r.Intn(60), r.Intn(60), 0, time.UTC)
		until := since.Add(time.Duration(1+r.Intn(1000)) * time.Hour)
		sym := func() x18Data {
			if small {
				return x18Data{format: int(api.ThemisSymmetricKeyFormat), sym: r.Bytes(16)}
			}
			return x18Data{format: int(api.ThemisSymmetricKeyFormat), sym: r.Bytes(32)}
		}
		pair := func() x18Data {
			if small {
				// the key store treats key material as opaque bytes: short values keep the target histories small
				return x18Data{format: int(api.ThemisKeyPairFormat), pub: r.Bytes(16), priv: r.Bytes(16)}
			}
			priv, pub := core.KeyPair(r.Bytes(32))
			return x18Data{format: int(api.ThemisKeyPairFormat), pub: pub, priv: priv}
		}
		var ds []x18Data
		switch op.data {
		case "pair":
			ds = []x18Data{pair()}
		case "pub":
			d := pair()
			d.priv = nil
			ds = []x18Data{d}
		case "sym":
			ds = []x18Data{sym()}
		case "pair+sym":
			ds = []x18Data{pair(), sym()}
		case "sym+pair":
			ds = []x18Data{sym(), pair()}
		}
		desc := api.KeyDescription{ValidSince: since, ValidUntil: until}
		for _, d := range ds {
			desc.Data = append(desc.Data, api.KeyData{Format: api.KeyFormat(d.format), PublicKey: d.pub, PrivateKey: d.priv, SymmetricKey: d.sym})
			for _, sec := range [][]byte{d.priv, d.sym} {
				if len(sec) >= 16 {
					s.secrets = append(s.secrets, sec)
				}
			}
		}
		s.ops = append(s.ops, fmt.Sprintf("RAddKey %s %s %s %s", vh.H([]byte(path)), vh.H(x18UTC(since)), vh.H(x18UTC(until)), x18DataCoq(ds)))
		n, err := ring.AddKey(desc)
		return s.resVals(n, err)
	case 'c':
		rep.Count("rop:setcurrent")
		s.ops = append(s.ops, fmt.Sprintf("RSetCurrent %s %s", vh.H([]byte(path)), x18Z(op.seq)))
		return s.resVals(op.seq, ring.SetCurrent(op.seq))
	case 's':
		rep.Count("rop:setstate")
		s.ops = append(s.ops, fmt.Sprintf("RSetState %s %s %s", vh.H([]byte(path)), x18Z(op.seq), x18Z(op.st)))
		return s.resVals(op.seq, ring.SetState(op.seq, api.KeyState(op.st)))
	default:
		rep.Count("rop:destroy")
		s.ops = append(s.ops, fmt.Sprintf("RDestroy %s %s", vh.H([]byte(path)), x18Z(op.seq)))
		return s.resVals(op.seq, ring.DestroyKey(op.seq))
	}
}

type c18pubStep struct {
	path string
	op   c18pubOp
}

func (s *x18Store) c18pubHistory(rep *vh.Report, r *vh.Rng, steps []c18pubStep, small bool) [][]byte {
	tape := vh.StartTape(r)
	defer vh.StopTape()
	var out [][]byte
	for _, st := range steps {
		out = append(out, s.c18pubApply(rep, r, st.path, st.op, small)...)
	}
	s.tape = append(s.tape, tape.Chunks...)
	return out
}

func c18pubSteps(path string, ops []c18pubOp) []c18pubStep {
	var out []c18pubStep
	for _, o := range ops {
		out = append(out, c18pubStep{path, o})
	}
	return out
}

// c18pubInterleave merges the scripts of several rings, keeping the order inside each ring
func c18pubInterleave(r *vh.Rng, scripts [][]c18pubStep) []c18pubStep {
	var out []c18pubStep
	idx := make([]int, len(scripts))
	for {
		var live []int
		for i := range scripts {
			if idx[i] < len(scripts[i]) {
				live = append(live, i)
			}
		}
		if len(live) == 0 {
			return out
		}
		i := live[r.Intn(len(live))]
		out = append(out, scripts[i][idx[i]])
		idx[i]++
	}
}

// ---------- what the source holds, read through the implementation only ----------

// c18pubHasPublic: at least one public key of the ring is readable through api.KeyRing
func c18pubHasPublic(qs []x18Query) bool {
	for _, q := range qs {
		if strings.HasPrefix(q.coq, "QPublic") && len(q.vals) == 2 && q.vals[0][0] == 0 && len(q.vals[1]) > 0 {
			return true
		}
	}
	return false
}

// c18pubReplayQueries: the getters replayed on the model after an import (the oracle compares ALL getters on
// the implementation): everything but the private / symmetric getters of the other formats and the
// unknown-key probe
func c18pubReplayQueries(qs []x18Query) []x18Query {
	var out []x18Query
	for _, q := range qs {
		if strings.Contains(q.coq, "(77)%Z") ||
			((strings.HasPrefix(q.coq, "QPrivate") || strings.HasPrefix(q.coq, "QPublic")) && !strings.HasSuffix(q.coq, "(1)%Z")) ||
			(strings.HasPrefix(q.coq, "QSymmetric") && !strings.HasSuffix(q.coq, "(3)%Z")) {
			continue
		}
		out = append(out, q)
	}
	return out
}

// c18pubStored decodes the ring file of `path`; nil if absent
func (s *x18Store) c18pubStored(path string) *asn1.KeyRing {
	data, err := s.rec.Get(path + fsV2.VerifKeyringSuffix())
	if err != nil {
		return nil
	}
	ring, err := x18DecodeRingFile(data)
	if err != nil {
		return nil
	}
	return ring
}

// c18pubSealedFields: the private / symmetric fields as stored (sealed) in the ring files
func (s *x18Store) c18pubSealedFields() [][]byte {
	var out [][]byte
	for p := range s.paths {
		if ring := s.c18pubStored(p); ring != nil {
			for _, k := range ring.Keys {
				for _, d := range k.Data {
					for _, f := range [][]byte{d.PrivateKey, d.SymmetricKey} {
						if len(f) >= 16 {
							out = append(out, f)
						}
					}
				}
			}
		}
	}
	return out
}

// c18pubHasDataWithoutPublic: some key of the stored ring has a format without public key data
func c18pubHasDataWithoutPublic(ring *asn1.KeyRing) bool {
	if ring == nil {
		return false
	}
	for _, k := range ring.Keys {
		for _, d := range k.Data {
			if len(d.PublicKey) == 0 {
				return true
			}
		}
	}
	return false
}

// ---------- the domain ----------

func c18pubRun(rep *vh.Report, r *vh.Rng, n int, thorough bool) {
	time.Local = time.UTC
	for i := 0; i < n; i++ {
		c18pubScenario(rep, r, i, thorough)
	}
}

var c18pubClients = []string{"client_1", "client-two", "alice"}

type c18pubRing struct {
	path  string
	shape c18pubShape
}

func c18pubScenario(rep *vh.Report, r *vh.Rng, idx int, thorough bool) {
	np, no := len(c18pubPairShapes), len(c18pubOtherShapes)
	id := c18pubClients[idx%len(c18pubClients)]
	shA := c18pubPairShapes[idx%np]
	shB := c18pubPairShapes[(idx*4+2+idx/np)%np]
	shO := c18pubOtherShapes[idx%no]
	pathO := []string{"client/" + id + "/storage-sym", "client/" + id + "/hmac-sym", "poison-record-sym", "audit-log"}[(idx/no+idx)%4]
	if strings.HasPrefix(shO.name, "mixed") {
		pathO = "zz/custom ring"
	}
	rings := []c18pubRing{{"client/" + id + "/storage", shA}, {"poison-record", shB}, {pathO, shO}}
	src := x18NewStore(r)
	var scripts [][]c18pubStep
	for _, rg := range rings {
		rep.Count("shape:" + rg.shape.name)
		scripts = append(scripts, c18pubSteps(rg.path, rg.shape.ops(r)))
	}
	// real Themis-format key pairs in every third scenario, short opaque key material otherwise (the key
	// store does not look into key material; Coq elaborates long literals slowly)
	resVals := src.c18pubHistory(rep, r, c18pubInterleave(r, scripts), idx%3 != 0)
	hist := strings.Join(src.ops, "; ")
	var shapeNames []string
	for _, rg := range rings {
		shapeNames = append(shapeNames, fmt.Sprintf("%q=%s", rg.path, rg.shape.name))
	}
	hist = "shapes[" + strings.Join(shapeNames, ", ") + "] " + hist

	var allPaths []string
	for p := range src.paths {
		allPaths = append(allPaths, p)
	}
	sort.Strings(allPaths)
	var probes [][]byte
	exp := append([][]byte{}, resVals...)
	for _, p := range allPaths {
		probes = append(probes, []byte(p))
		exp = append(exp, src.probe(p)...)
	}
	srcViews := map[string][]x18Query{}
	var viewTerms []string
	for _, p := range allPaths {
		v := x18View(src.ks, p)
		srcViews[p] = v
		qc, vals := x18ViewCoq(v)
		viewTerms = append(viewTerms, fmt.Sprintf("(%s, %s)", vh.H([]byte(p)), qc))
		exp = append(exp, vals...)
	}
	rep.Add("khistviews "+hist, fmt.Sprintf("KHistViews %s %s [%s]", src.coqHist(), vh.HL(probes), strings.Join(viewTerms, "; ")), vh.Ok(exp...))

	// mode x selection x targets.  Targets: 0 empty/default, 1 same rings/overwrite, 2 same rings/skip,
	// 3 other rings/default, 4 same rings/default (conflict)
	type plan struct {
		mode    keystore.ExportMode
		sel     []string
		targets []int
	}
	perm := append([]string{}, allPaths...)
	for i := range perm {
		j := i + r.Intn(len(perm)-i)
		perm[i], perm[j] = perm[j], perm[i]
	}
	rev := []string{allPaths[2], allPaths[1], allPaths[0]}
	plans := []plan{
		{keystore.ExportPublicOnly, allPaths, []int{0, 1, 2, 3, 4}},
		{keystore.ExportAllKeys, perm, []int{0, 1 + idx%4}},
		{keystore.ExportPrivateKeys, rev, []int{idx % 5}},
		{keystore.ExportPublicOnly | keystore.ExportPrivateKeys, perm[:2], []int{(idx + 1) % 5}},
		{keystore.ExportPrivateKeys | keystore.ExportAllKeys, perm[1:], []int{(idx + 2) % 5}},
	}
	if idx%2 == 1 {
		// a single selected ring, public-only: each ring on its own
		plans = append(plans, plan{keystore.ExportPublicOnly, []string{allPaths[idx/2%3]}, []int{0}})
	}
	if idx%3 == 2 {
		missing := append(append([]string{}, perm[:1]...), "client/nobody/storage")
		plans = append(plans, plan{[]keystore.ExportMode{keystore.ExportPublicOnly, keystore.ExportPrivateKeys}[idx/3%2], missing, nil})
		rep.Count("export:missing-ring")
	}
	if thorough {
		for m := 1; m <= 7; m++ {
			plans = append(plans, plan{keystore.ExportMode(m), perm, []int{r.Intn(5), r.Intn(5)}})
		}
	}
	for _, pl := range plans {
		c18pubExportImport(rep, r, src, rings, hist, srcViews, pl.mode, pl.sel, pl.targets, thorough)
	}
	c18pubBackuperLeg(rep, r, src, id, rings, hist, srcViews, idx)
}

// c18pubTarget builds the target store of one variant; returns the delegate (nil = acra's default) and its number in the model
func c18pubTarget(rep *vh.Report, r *vh.Rng, variant int, rings []c18pubRing) (*x18Store, api.ImportDecision, int) {
	dst := x18NewStore(r)
	deleg, dn := api.ImportAbort, 0
	switch variant {
	case 0:
		rep.Count("target:empty-default")
	case 3:
		rep.Count("target:other-rings-default")
		dst.c18pubHistory(rep, r, c18pubInterleave(r, [][]c18pubStep{
			c18pubSteps("client/zed/storage", c18pubRotate("pair", 1+r.Intn(2))),
			c18pubSteps("client/zed/storage-sym", c18pubRotate("sym", 1)),
		}), true)
	default:
		// the same ring paths with keys of their own kind; the first ring with a LONGER history than any
		// source ring (an overwrite must remove keys as well) and a destroyed key
		var scripts [][]c18pubStep
		for i, rg := range rings {
			kind := "sym"
			if rg.shape.pair {
				kind = "pair"
			}
			n := 1
			if i == 0 {
				n = 4 // longer than any source ring
			}
			ops := c18pubRotate(kind, n)
			if i == 0 {
				ops = append(ops, c18pubDel(2))
			}
			scripts = append(scripts, c18pubSteps(rg.path, ops))
		}
		dst.c18pubHistory(rep, r, c18pubInterleave(r, scripts), true)
		switch variant {
		case 1:
			rep.Count("target:same-rings-overwrite")
			deleg, dn = api.ImportOverwrite, 1
		case 2:
			rep.Count("target:same-rings-skip")
			deleg, dn = api.ImportSkip, 2
		default:
			rep.Count("target:same-rings-default")
		}
	}
	return dst, deleg, dn
}

func c18pubExportImport(rep *vh.Report, r *vh.Rng, src *x18Store, rings []c18pubRing, hist string,
	srcViews map[string][]x18Query, mode keystore.ExportMode, sel []string, targets []int, thorough bool) {
	rep.Count(fmt.Sprintf("export:mode%d", int(mode)))
	private := mode&keystore.ExportPrivateKeys != 0
	accEnc, accSig := r.Bytes(32), r.Bytes(32)
	access, _ := cryptoV2.NewSCellSuite(accEnc, accSig)
	var selB [][]byte
	selSet := map[string]bool{}
	for _, p := range sel {
		selB = append(selB, []byte(p))
		selSet[p] = true
	}
	h := fmt.Sprintf("%s; ExportKeyRings(%q, mode=%d)", hist, sel, int(mode))
	vh.StartTape(r)
	var bundle []byte
	o := vh.Guard(func() vh.Outcome {
		var err error
		bundle, err = src.ks.ExportKeyRings(sel, access, mode)
		if err != nil {
			return vh.ErrO(err)
		}
		return vh.Ok()
	})
	vh.StopTape()
	exportOp := fmt.Sprintf("KExport %s %d %s", src.coqHist(), int(mode), vh.HL(selB))
	missing := false
	for _, p := range sel {
		if !src.paths[p] {
			missing = true
		}
	}
	rep.OracleChecks++
	if o.Kind != "ok" {
		rep.Add("kexport "+h, exportOp, o)
		if o.Kind == "panic" {
			rep.Violate("panic", "ExportKeyRings panicked: "+o.Msg, h)
		} else if !missing {
			rep.Violate("v2-export-fails", "export of existing rings failed: "+o.Msg, h)
		}
		return
	}
	if missing {
		rep.Violate("v2-export-missing-ring-silent", "a selected ring does not exist in the source but the export reports success", h)
	}
	// open the bundle with the access keys
	var ser []byte
	cont, err := asn1.UnmarshalVerifiedContainer(bundle)
	if err == nil {
		var encBytes []byte
		if _, err = encodingUnmarshalOctets(cont.Payload.Data.FullBytes, &encBytes); err == nil {
			var ok bool
			ser, ok = core.SealDec(accEnc, fsV2.VerifExportKeyContext(), encBytes)
			if !ok {
				err = fmt.Errorf("not a seal under the access key")
			}
		}
	}
	rep.OracleChecks++
	if err != nil {
		rep.Violate("v2-bundle-not-sealed", "bundle cannot be opened with its access keys: "+err.Error(), h)
		return
	}
	chunks := x18Chunk(ser)
	planVals := append([][]byte{x18Z8(len(chunks))}, chunks...)
	var planTargets []string
	planOK := true
	defer func() {
		// one op per export: the histories are written once (Coq elaborates literals slowly)
		if planOK {
			rep.Add("kplan "+h, fmt.Sprintf("KPlan %s %d %s [%s]", src.coqHist(), int(mode), vh.HL(selB), strings.Join(planTargets, "; ")), vh.Ok(planVals...))
		}
	}()
	rep.OracleChecks++
	for _, sec := range src.secrets {
		if bytes.Contains(bundle, sec) {
			rep.Violate("secret-in-clear", "plaintext key material in the v2 bundle", h)
		}
	}
	keysDec, err := asn1.UnmarshalEncryptedKeys(ser)
	if err != nil {
		rep.Violate("v2-bundle-undecodable", err.Error(), h)
		return
	}
	if !private {
		rep.Add("kder", fmt.Sprintf("KDerRoundTrip %s", x18H(ser)), vh.Ok(append(x18Chunk(ser), x18Z8(len(keysDec.KeyRings)))...))
	}
	inBundle := map[string]bool{}
	for _, kr := range keysDec.KeyRings {
		p := string(kr.Purpose)
		rep.OracleChecks++
		if inBundle[p] {
			rep.Violate("v2-export-duplicate-ring", fmt.Sprintf("ring %q is in the bundle twice", p), h)
		}
		inBundle[p] = true
		if !selSet[p] {
			rep.Violate("v2-export-unselected-ring", fmt.Sprintf("ring %q is in the bundle but was not selected", p), h)
		}
	}
	// ---- the selection oracle on the bundle: nothing exportable may be left out ----
	exportable := map[string]bool{}
	for _, p := range sel {
		if !src.paths[p] {
			continue
		}
		rep.OracleChecks++
		exportable[p] = private || c18pubHasPublic(srcViews[p])
		if exportable[p] {
			rep.Count("selected:exportable")
		} else {
			rep.Count("selected:nothing-exportable")
		}
		if exportable[p] && !inBundle[p] {
			class := "v2-export-drops-ring"
			if !private && c18pubHasDataWithoutPublic(src.c18pubStored(p)) {
				// API-only ring shape (keys / formats with and without public data in one ring): known finding
				class = "v2-public-export-drops-mixed-ring"
			}
			rep.Violate(class, fmt.Sprintf("selected ring %q exists in the source and has data exportable in mode %d, but the successful export left it out without an error (source reads %s)",
				p, int(mode), x18ViewString(srcViews[p], !private)), h)
		}
	}
	// ---- no private material without the private bit ----
	if !private {
		rep.OracleChecks++
		for _, sec := range src.secrets {
			if bytes.Contains(ser, sec) {
				rep.Violate("v2-public-export-has-secret", "public-only export carries private/symmetric key material", h)
			}
		}
		for _, f := range src.c18pubSealedFields() {
			if bytes.Contains(ser, f) {
				rep.Violate("v2-public-export-has-secret", "public-only export carries a sealed private/symmetric field of the source", h)
			}
		}
		for _, kr := range keysDec.KeyRings {
			for _, k := range kr.Keys {
				for _, d := range k.Data {
					if len(d.PrivateKey) != 0 || len(d.SymmetricKey) != 0 {
						rep.Violate("v2-public-export-has-secret", fmt.Sprintf("public-only export: key %d of ring %q has a private/symmetric field", k.Seqnum, kr.Purpose), h)
					}
				}
			}
		}
	}

	// ---- targets ----
	for ti, variant := range targets {
		dst, deleg, dn := c18pubTarget(rep, r, variant, rings)
		ht := h + fmt.Sprintf("; target[%s] deleg=%d", strings.Join(dst.ops, "; "), dn)
		before := map[string][]byte{}
		beforeViews := map[string]string{}
		tpaths := map[string]bool{}
		for p := range dst.paths {
			tpaths[p] = true
		}
		for _, p := range sel {
			tpaths[p] = true
		}
		var tprobe []string
		for p := range tpaths {
			tprobe = append(tprobe, p)
		}
		sort.Strings(tprobe)
		for _, p := range tprobe {
			d, _ := dst.rec.Get(p + fsV2.VerifKeyringSuffix())
			before[p] = d
			beforeViews[p] = x18ViewString(x18View(dst.ks, p), false)
		}
		nput := len(dst.rec.puts)
		itape := vh.StartTape(r)
		var ierr error
		var reported []string
		oo := vh.Guard(func() vh.Outcome {
			if deleg == api.ImportAbort {
				reported, ierr = dst.ks.ImportKeyRings(bundle, access, nil) // nil = acra's own defaultImportDelegate
			} else {
				reported, ierr = dst.ks.ImportKeyRings(bundle, access, x18Deleg{deleg})
			}
			return vh.Ok()
		})
		vh.StopTape()
		if oo.Kind == "panic" {
			rep.Violate("panic", "ImportKeyRings panicked: "+oo.Msg, ht)
			planOK = false
			continue
		}
		flag := byte(0)
		if ierr != nil {
			flag = 1
		}
		puts := dst.rec.puts[nput:]
		ivals := [][]byte{{flag}, x18Z8(len(puts))}
		for _, put := range puts {
			ring, err := x18DecodeRingFile(put.data)
			if err != nil {
				rep.Violate("v2-import-wrote-garbage", "a file put by import does not decode", ht)
				planOK = false
				continue
			}
			name := strings.TrimSuffix(put.path, fsV2.VerifKeyringSuffix()+".new")
			rep.OracleChecks++
			for _, sec := range src.secrets {
				if bytes.Contains(put.data, sec) {
					rep.Violate("secret-in-clear", "import wrote plaintext key material to the target back end ("+put.path+")", ht)
				}
			}
			if !private {
				for _, k := range ring.Keys {
					for _, d := range k.Data {
						if len(d.PrivateKey) != 0 || len(d.SymmetricKey) != 0 {
							rep.Violate("v2-public-export-has-secret", fmt.Sprintf("after a public-only export the target stores a private/symmetric field (ring %q key %d)", name, k.Seqnum), ht)
						}
					}
				}
			}
		}
		var tprobeB [][]byte
		for _, p := range tprobe {
			tprobeB = append(tprobeB, []byte(p))
			ivals = append(ivals, dst.probe(p)...)
		}
		var tviews []string
		conflict := false
		for p := range inBundle {
			if dst.paths[p] {
				conflict = true
			}
		}
		rep.OracleChecks++
		if ierr != nil && !(conflict && deleg == api.ImportAbort) {
			rep.Violate("v2-import-fails", fmt.Sprintf("import of an untouched bundle failed: %v", ierr), ht)
		}
		if ierr == nil && conflict && deleg == api.ImportAbort {
			rep.Violate("v2-import-overwrote-silently", "default delegate: an existing ring was replaced without error", ht)
		}
		if ierr == nil {
			// the explicit result: exactly the rings of the bundle are reported
			rep.OracleChecks++
			got := append([]string{}, reported...)
			sort.Strings(got)
			var want []string
			for p := range inBundle {
				want = append(want, p)
			}
			sort.Strings(want)
			if strings.Join(got, "\x00") != strings.Join(want, "\x00") {
				rep.Violate("v2-import-report-differs", fmt.Sprintf("ImportKeyRings reports %q, the bundle holds %q", got, want), ht)
			}
			// the selection oracle on the target: every selected ring with something exportable arrived
			for _, p := range sel {
				if !exportable[p] || (dst.paths[p] && deleg == api.ImportSkip) {
					continue
				}
				rep.OracleChecks++
				got := x18View(dst.ks, p)
				reportedIt := false
				for _, q := range reported {
					if q == p {
						reportedIt = true
					}
				}
				switch {
				case got == nil || !inBundle[p]:
					class := "v2-selected-ring-not-imported"
					if !private && c18pubHasDataWithoutPublic(src.c18pubStored(p)) {
						class = "v2-public-export-drops-mixed-ring"
					}
					rep.Violate(class, fmt.Sprintf("export and import report success, but the selected ring %q (exportable in mode %d) is not what the target holds (in bundle: %v, reported by import: %v, opens in target: %v)",
						p, int(mode), inBundle[p], reportedIt, got != nil), ht)
				default:
					gs, ws := x18ViewString(got, !private), x18ViewString(srcViews[p], !private)
					if gs != ws {
						rep.Violate("v2-import-differs", fmt.Sprintf("ring %q reads differently after export/import: source %s target %s", p, ws, gs), ht)
					}
				}
			}
		}
		for _, p := range tprobe {
			after, _ := dst.rec.Get(p + fsV2.VerifKeyringSuffix())
			imported := inBundle[p] && ierr == nil && !(dst.paths[p] && deleg == api.ImportSkip)
			rep.OracleChecks++
			switch {
			case imported:
				got := x18View(dst.ks, p)
				if !private {
					for _, q := range got {
						if (strings.HasPrefix(q.coq, "QPrivate") || strings.HasPrefix(q.coq, "QSymmetric")) && q.vals[0][0] == 0 {
							rep.Violate("v2-public-export-has-secret", "a private getter succeeds after a public-only import", ht)
						}
					}
				}
				if selSet[p] && got != nil && ti < 2 {
					qc, vals := x18ViewCoq(c18pubReplayQueries(got))
					tviews = append(tviews, fmt.Sprintf("(%s, %s)", vh.H([]byte(p)), qc))
					ivals = append(ivals, vals...)
				}
			case !inBundle[p] || (dst.paths[p] && deleg == api.ImportSkip):
				if !bytes.Equal(after, before[p]) {
					rep.Violate("v2-import-clobbers-unrelated", fmt.Sprintf("ring %q is not in the bundle (or was to be skipped) but its file changed", p), ht)
				}
				if x18ViewString(x18View(dst.ks, p), false) != beforeViews[p] {
					rep.Violate("v2-import-clobbers-unrelated", fmt.Sprintf("ring %q reads differently after an import that does not contain it", p), ht)
				}
			}
		}
		planTargets = append(planTargets, fmt.Sprintf("mk_ktarget %s %d %s %s [%s]", dst.coqHist(), dn, vh.HL(itape.Chunks), vh.HL(tprobeB), strings.Join(tviews, "; ")))
		planVals = append(planVals, ivals...)
	}
}

// c18pubBackuperLeg: the same source through ServerKeyStore + KeyBackuper (acra-keys export <ids> /
// acra-keys import), oracle only.
func c18pubBackuperLeg(rep *vh.Report, r *vh.Rng, src *x18Store, id string, rings []c18pubRing, hist string,
	srcViews map[string][]x18Query, idx int) {
	kinds := map[string]string{
		"client/" + id + "/storage":     keystore.KeyStoragePublic,
		"client/" + id + "/storage-sym": keystore.KeySymmetric,
		"client/" + id + "/hmac-sym":    keystore.KeySearch,
		"poison-record":                 keystore.KeyPoisonPublic,
		"poison-record-sym":             keystore.KeyPoisonSymmetric,
	}
	var ids []keystore.ExportID
	var sel []string
	for _, rg := range rings {
		if k, ok := kinds[rg.path]; ok {
			ids = append(ids, keystore.ExportID{KeyKind: k, ContextID: []byte(id)})
			sel = append(sel, rg.path)
		}
	}
	mode := keystore.ExportPublicOnly // what `acra-keys export` uses without --private_keys
	if idx%4 == 3 {
		mode = keystore.ExportPrivateKeys
	}
	private := mode&keystore.ExportPrivateKeys != 0
	rep.Count(fmt.Sprintf("backuper:mode%d", int(mode)))
	h := fmt.Sprintf("%s; KeyBackuper.Export(%q, mode=%d); KeyBackuper.Import into an empty keystore", hist, sel, int(mode))
	dst := x18NewStore(r)
	vh.StartTape(r)
	defer vh.StopTape()
	var eerr, ierr error
	var descs []keystore.KeyDescription
	o := vh.Guard(func() vh.Outcome {
		exporter, err := keystoreV2.NewKeyBackuper("", "", keystoreV2.NewServerKeyStore(src.ks))
		if err != nil {
			eerr = err
			return vh.Ok()
		}
		var backup *keystore.KeysBackup
		backup, eerr = exporter.Export(ids, mode)
		if eerr != nil {
			return vh.Ok()
		}
		for _, sec := range src.secrets {
			if bytes.Contains(backup.Data, sec) {
				rep.Violate("secret-in-clear", "plaintext key material in the KeyBackuper bundle", h)
			}
		}
		importer, err := keystoreV2.NewKeyBackuper("", "", keystoreV2.NewServerKeyStore(dst.ks))
		if err != nil {
			ierr = err
			return vh.Ok()
		}
		descs, ierr = importer.Import(backup)
		return vh.Ok()
	})
	rep.OracleChecks++
	if o.Kind == "panic" {
		rep.Violate("panic", "KeyBackuper export/import panicked: "+o.Msg, h)
		return
	}
	if eerr != nil {
		rep.Violate("v2-export-fails", "KeyBackuper.Export of existing rings failed: "+eerr.Error(), h)
		return
	}
	if ierr != nil {
		rep.Violate("v2-import-fails", "KeyBackuper.Import of an untouched bundle into an empty keystore failed: "+ierr.Error(), h)
		return
	}
	described := map[string]bool{}
	for _, d := range descs {
		described[d.KeyID] = true
	}
	for _, p := range sel {
		rep.OracleChecks++
		got := x18View(dst.ks, p)
		if !(private || c18pubHasPublic(srcViews[p])) {
			if got != nil {
				// nothing exportable in this mode: whatever arrived must not carry secrets
				for _, q := range got {
					if (strings.HasPrefix(q.coq, "QPrivate") || strings.HasPrefix(q.coq, "QSymmetric")) && q.vals[0][0] == 0 {
						rep.Violate("v2-public-export-has-secret", "a private getter succeeds after a public-only KeyBackuper import", h)
					}
				}
			}
			continue
		}
		if got == nil {
			class := "v2-selected-ring-not-imported"
			if !private && c18pubHasDataWithoutPublic(src.c18pubStored(p)) {
				class = "v2-public-export-drops-mixed-ring"
			}
			rep.Violate(class, fmt.Sprintf("acra-keys export/import path: both report success, but the selected ring %q (exportable in mode %d) does not exist in the target (described by import: %v)", p, int(mode), described[p]), h)
			continue
		}
		gs, ws := x18ViewString(got, !private), x18ViewString(srcViews[p], !private)
		if gs != ws {
			rep.Violate("v2-import-differs", fmt.Sprintf("acra-keys export/import path: ring %q reads differently: source %s target %s", p, ws, gs), h)
		}
		if !private {
			for _, q := range got {
				if (strings.HasPrefix(q.coq, "QPrivate") || strings.HasPrefix(q.coq, "QSymmetric")) && q.vals[0][0] == 0 {
					rep.Violate("v2-public-export-has-secret", "a private getter succeeds after a public-only KeyBackuper import", h)
				}
			}
		}
	}
}
