package main

import (
	"bytes"
	"encoding/binary"
	"encoding/hex"
	"fmt"

	"acra-vh/vh"

	"github.com/cossacklabs/acra/crypto"
	"github.com/cossacklabs/acra/decryptor/base"
	encryptor "github.com/cossacklabs/acra/encryptor/base"
	"github.com/cossacklabs/acra/encryptor/base/config"
	cfgcommon "github.com/cossacklabs/acra/encryptor/base/config/common"
	"github.com/cossacklabs/acra/masking"
	maskcommon "github.com/cossacklabs/acra/masking/common"
)

func init() { register("c11", "Model.RunMasking", runC11) }

// maskSetting builds the column setting the way the encryptor config does (fields only; Init is
// exercised separately through ValidateMaskingParams).
func maskSetting(pattern string, plen int, side maskcommon.PlainTextSide, id byte) *config.BasicColumnEncryptionSetting {
	env := config.CryptoEnvelopeTypeAcraStruct
	if id == crypto.AcraBlockEnvelopeID {
		env = config.CryptoEnvelopeTypeAcraBlock
	}
	return &config.BasicColumnEncryptionSetting{Name: "c", MaskingPattern: pattern, PartialPlaintextLenBytes: plen,
		PlaintextSide: side, CryptoEnvelope: &env}
}

func coqSetting(pattern string, plen int, side string, dtype int) string {
	return fmt.Sprintf("(mk_ms %s (%d)%%Z %s %d)", vh.H([]byte(pattern)), plen, vh.H([]byte(side)), dtype)
}

// MaskOps: real masking encryptor and real detector chain, recorded as model cases.
type MaskOps struct {
	rep *vh.Report
	r   *vh.Rng
}

func (m *MaskOps) Enc(label string, id byte, ks *vh.KeySet, st *config.BasicColumnEncryptionSetting, data []byte) vh.Outcome {
	store := storeFor(ks)
	rh := crypto.NewRegistryHandler(store)
	// decryptor/postgresql/proxy.go: maskingDataEncryptor := NewChainDataEncryptor(registryHandler); NewMaskingDataEncryptor(keystore, ...)
	me, err := masking.NewMaskingDataEncryptor(store, encryptor.NewChainDataEncryptor(rh))
	if err != nil {
		panic(err)
	}
	t := vh.StartTape(m.r)
	o := vh.Guard(func() vh.Outcome {
		return one(me.EncryptWithClientID([]byte(clientID), append(make([]byte, 0, len(data)), data...), st))
	})
	vh.StopTape()
	m.rep.Add(label, fmt.Sprintf("MaskEnc %s %s %s %s %s", vh.H([]byte{id}), ks.Coq(), vh.HL(t.Chunks),
		coqSetting(st.MaskingPattern, st.PartialPlaintextLenBytes, string(st.PlaintextSide), 0), vh.H(data)), o)
	return o
}

// Read runs EnvelopeDetector.OnColumn with [DecryptHandler(masking.Processor(RegistryHandler))] for the reader's keys.
func (m *MaskOps) Read(label string, st *config.BasicColumnEncryptionSetting, ks *vh.KeySet, col []byte, record bool) vh.Outcome {
	store := storeFor(ks)
	rh := crypto.NewRegistryHandler(store)
	det := crypto.NewEnvelopeDetector()
	var proc base.DataProcessor = rh
	mp, err := masking.NewProcessor(rh)
	if err != nil {
		panic(err)
	}
	proc = mp
	det.AddCallback(crypto.NewDecryptHandler(store, proc))
	ctx := clientCtx()
	coqS := "None"
	if st != nil {
		ctx = encryptor.NewContextWithEncryptionSetting(ctx, st)
		coqS = "(Some " + coqSetting(st.MaskingPattern, st.PartialPlaintextLenBytes, string(st.PlaintextSide), 0) + ")"
	}
	o := vh.Guard(func() vh.Outcome {
		c2, out, err := det.OnColumn(ctx, append([]byte{}, col...))
		if err != nil {
			return vh.ErrO(err)
		}
		f := byte(0)
		if base.IsDecryptedFromContext(c2) {
			f = 1
		}
		return vh.Ok(out, []byte{f})
	})
	if record {
		m.rep.Add(label, fmt.Sprintf("MaskRead %s %s %s", coqS, ks.Coq(), vh.H(col)), o)
	}
	return o
}

// ReadWrapped: the same chain behind OldContainerDetectorWrapper (what the proxies subscribe); oracle only.
func (m *MaskOps) ReadWrapped(st *config.BasicColumnEncryptionSetting, ks *vh.KeySet, col []byte) vh.Outcome {
	store := storeFor(ks)
	rh := crypto.NewRegistryHandler(store)
	det := crypto.NewEnvelopeDetector()
	w := crypto.NewOldContainerDetectorWrapper(det)
	mp, _ := masking.NewProcessor(rh)
	det.AddCallback(crypto.NewDecryptHandler(store, mp))
	ctx := encryptor.NewContextWithEncryptionSetting(clientCtx(), st)
	return vh.Guard(func() vh.Outcome {
		_, out, err := w.OnColumn(ctx, append([]byte{}, col...))
		if err != nil {
			return vh.ErrO(err)
		}
		return vh.Ok(out)
	})
}

func (m *MaskOps) Process(label string, st *config.BasicColumnEncryptionSetting, ks *vh.KeySet, data []byte) vh.Outcome {
	store := storeFor(ks)
	mp, _ := masking.NewProcessor(crypto.NewRegistryHandler(store))
	ctx := encryptor.NewContextWithEncryptionSetting(clientCtx(), st)
	o := vh.Guard(func() vh.Outcome {
		return one(mp.Process(append([]byte{}, data...), &base.DataProcessorContext{Keystore: store, Context: ctx}))
	})
	m.rep.Add(label, fmt.Sprintf("MaskProcess (Some %s) %s %s", coqSetting(st.MaskingPattern, st.PartialPlaintextLenBytes, string(st.PlaintextSide), 0), ks.Coq(), vh.H(data)), o)
	return o
}

var maskPatterns = []string{"xxxx", "***", "*", "%%%", `""""""""`, "%", "%%%%", "masked value with spaces", "\x00", "ж", "%%%\x0d\x00\x00\x00\x00\x00\x00\x00\xf0"}

// forgedHeader: '%%%' + declared length + envelope id + filler: a container header that is not an envelope
func forgedHeader(r *vh.Rng, room int) []byte {
	id := byte(crypto.AcraStructEnvelopeID)
	if r.Bool() {
		id = crypto.AcraBlockEnvelopeID
	}
	fill := r.Intn(24)
	var decl uint64
	switch r.Intn(9) {
	case 7, 8:
		decl = uint64(13 + r.Intn(fill+1)) // fits inside the forged bytes
	case 0:
		decl = 13
	case 1:
		decl = uint64(12 + fill) // exactly the forged bytes (when fill>0)
	case 2:
		decl = uint64(12 + fill + 1 + r.Intn(8)) // reaches into what follows
	case 3:
		decl = uint64(room + 1000)
	case 4:
		decl = ^uint64(0) - uint64(r.Intn(3))
	case 5:
		decl = uint64(r.Intn(13))
	default:
		decl = uint64(13 + r.Intn(40))
	}
	h := []byte("%%%")
	h = binary.LittleEndian.AppendUint64(h, decl)
	h = append(h, id)
	return append(h, r.Bytes(fill)...)
}

// hasCandidate: does some position of b carry something ExtractSerializedContainer accepts?
func hasCandidate(b []byte) bool {
	for i := 0; i+3 <= len(b); i++ {
		if bytes.HasPrefix(b[i:], []byte("%%%")) {
			if _, _, err := crypto.ExtractSerializedContainer(append([]byte{}, b[i:]...)); err == nil {
				return true
			}
		}
	}
	return false
}

// maskHint: window lengths (left, right) that make the clear window cover a forged header; -1 = none
type maskHint struct{ left, right int }

func genMaskValue(r *vh.Rng, pattern string, pool [][]byte) ([]byte, string, maskHint) {
	x, class, h := genMaskValue0(r, pattern, pool)
	return x, class, h
}

func genMaskValue0(r *vh.Rng, pattern string, pool [][]byte) ([]byte, string, maskHint) {
	none := maskHint{-1, -1}
	n := 1 + r.Intn(48)
	if r.Intn(6) == 0 {
		n = 1 + r.Intn(200)
	}
	b := r.Bytes(n)
	switch r.Intn(9) {
	case 0:
		return b, "random", none
	case 1:
		i := r.Intn(len(b) + 1)
		return append(append(append([]byte{}, b[:i]...), pattern...), b[i:]...), "contains-pattern", none
	case 2:
		for i := 0; i+3 <= len(b); i += 1 + r.Intn(12) {
			copy(b[i:], "%%%")
		}
		return b, "percent-tags", none
	case 3:
		i := r.Intn(len(b) + 1)
		return append(append(append([]byte{}, b[:i]...), `""""""""`...), b[i:]...), "quote-tag", none
	case 4, 5:
		if len(b) < 2 {
			b = r.Bytes(2 + r.Intn(20))
		}
		i := 1 + r.Intn(len(b)-1) // both sides non-empty
		fh := forgedHeader(r, len(b)-i)
		a, z := b[:i], b[i:]
		x := append(append(append([]byte{}, a...), fh...), z...)
		return x, "forged-header", maskHint{len(a) + len(fh) + r.Intn(len(z)), len(fh) + len(z) + r.Intn(len(a))}
	case 6:
		if len(pool) > 0 {
			env := pool[r.Intn(len(pool))]
			i := r.Intn(len(b) + 1)
			return append(append(append([]byte{}, b[:i]...), env...), b[i:]...), "embedded-envelope", none
		}
		return bytes.Repeat([]byte{'%'}, n), "percents", none
	case 7:
		return []byte("4111-1111-1111-1111 John Doe jd@example.com")[:1+r.Intn(43)], "text", none
	}
	return bytes.Repeat([]byte{'%'}, n), "percents", none
}

// longest run of a (>= k bytes) that occurs in out but not in allowed
func leaks(secret, out, allowed []byte, k int) bool {
	for i := 0; i+k <= len(secret); i++ {
		if bytes.Contains(out, secret[i:i+k]) && !bytes.Contains(allowed, secret[i:i+k]) {
			return true
		}
	}
	return false
}

// runC11: write through the real masking encryptor, read through the real detector chain as owner /
// client without keys / client with other keys.
// Oracle (independent of the model): owner gets the original; everybody else gets exactly window+pattern
// (left) or pattern+window (right), no 8-byte run of the ciphertext or of the hidden plaintext.
func runC11(rep *vh.Report, r *vh.Rng, n int, thorough bool) {
	m := &MaskOps{rep, r}
	var pool [][]byte
	// ValidateMaskingParams: boundary table
	for _, pat := range []string{"", "x"} {
		for _, pl := range []int{-1, 0, 1, 1 << 40} {
			for _, side := range []string{"left", "right", "", "Left", "middle"} {
				for _, dt := range []cfgcommon.EncryptedType{cfgcommon.EncryptedType_Unknown, cfgcommon.EncryptedType_String, cfgcommon.EncryptedType_Bytes, cfgcommon.EncryptedType_Int32, cfgcommon.EncryptedType_Int64, 77} {
					if !thorough && r.Intn(6) != 0 {
						continue
					}
					err := maskcommon.ValidateMaskingParams(pat, pl, maskcommon.PlainTextSide(side), dt)
					o := vh.Ok()
					if err != nil {
						o = vh.ErrO(err)
					}
					rep.Add("ValidateMaskingParams", "MaskValidate "+coqSetting(pat, pl, side, int(dt)), o)
					rep.OracleChecks++
					want := pat != "" && pl >= 0 && (side == "left" || side == "right") && (dt == cfgcommon.EncryptedType_Unknown || dt == cfgcommon.EncryptedType_String || dt == cfgcommon.EncryptedType_Bytes)
					if (err == nil) != want {
						rep.Violate("validate", "ValidateMaskingParams accepted/rejected wrongly", fmt.Sprintf("pattern=%q len=%d side=%q type=%d err=%v", pat, pl, side, dt, err))
					}
				}
			}
		}
	}
	for sc := 0; sc < n; sc++ {
		owner := vh.NewKeySet(r, 1+r.Intn(2), 1+r.Intn(2), false)
		other := vh.NewKeySet(r, 1+r.Intn(2), 1+r.Intn(2), false)
		pattern := maskPatterns[r.Intn(len(maskPatterns))]
		if r.Intn(5) == 0 {
			pattern = string(r.Bytes(1 + r.Intn(20)))
		}
		id := byte(crypto.AcraStructEnvelopeID)
		if r.Bool() {
			id = crypto.AcraBlockEnvelopeID
		}
		x, class, hint := genMaskValue(r, pattern, pool)
		rep.Count("value:" + class)
		// window lengths 0..len+1: all of them in the thorough tier (short values), a boundary-biased pick otherwise
		var plens []int
		if thorough && len(x) <= 64 {
			for p := 0; p <= len(x)+1; p++ {
				plens = append(plens, p)
			}
		} else {
			plens = []int{r.Pick(0, 1, 2, len(x)/2, len(x)-2, len(x)-1, len(x), len(x)+1, r.Intn(len(x)+2), r.Intn(len(x)+2))}
			if plens[0] < 0 {
				plens[0] = 0
			}
		}
		for _, plen := range plens {
			side := maskcommon.PlainTextSideLeft
			if r.Bool() {
				side = maskcommon.PlainTextSideRight
			}
			if hint.left >= 0 && len(plens) == 1 && r.Intn(4) != 0 { // aim the window at the forged header
				plen = hint.left
				if side == maskcommon.PlainTextSideRight {
					plen = hint.right
				}
				rep.Count("window-aimed-at-forged-header")
			}
			rep.Count("side:" + string(side))
			rep.Count(fmt.Sprintf("window:%s", map[bool]string{true: ">=len", false: "<len"}[plen >= len(x)]))
			st := maskSetting(pattern, plen, side, id)
			lab := fmt.Sprintf("sc%d %s id=%02x len=%d window=%d side=%s pattern=%q", sc, class, id, len(x), plen, side, pattern)
			w := m.Enc(lab+" masking.EncryptWithClientID", id, owner, st, x)
			rep.OracleChecks++
			if w.Kind != "ok" {
				rep.Violate("mask-write", "masking encryptor failed: "+w.String(), lab+" x="+hex.EncodeToString(x))
				continue
			}
			col := w.Vals[0]
			// split the value as the configuration says
			var window, hidden []byte
			switch {
			case plen >= len(x):
				hidden = x
			case side == maskcommon.PlainTextSideLeft:
				window, hidden = x[:plen], x[plen:]
			default:
				window, hidden = x[len(x)-plen:], x[:len(x)-plen]
			}
			var cipher []byte // what was stored in place of the hidden part
			passthrough := false
			if side == maskcommon.PlainTextSideLeft || plen >= len(x) {
				rep.OracleChecks++
				if !bytes.HasPrefix(col, window) {
					rep.Violate("mask-write-shape", "stored value does not start with the clear window", lab+" col="+hex.EncodeToString(col))
					continue
				}
				cipher = col[len(window):]
			} else {
				rep.OracleChecks++
				if !bytes.HasSuffix(col, window) {
					rep.Violate("mask-write-shape", "stored value does not end with the clear window", lab+" col="+hex.EncodeToString(col))
					continue
				}
				cipher = col[:len(col)-len(window)]
			}
			if bytes.Equal(cipher, hidden) {
				passthrough = true // the hidden part already was a protected value: left as it is (C01)
				rep.Count("hidden-part-passthrough")
			} else if len(pool) < 30 {
				pool = append(pool, cipher)
			}
			rep.OracleChecks++
			if !passthrough && (class == "random" || class == "text") && leaks(hidden, cipher, nil, 8) {
				rep.Violate("mask-write-leak", "hidden plaintext bytes are present in the stored value", lab+" col="+hex.EncodeToString(col))
			}
			// the documented caveat (same as C01's "already protected" premise): a clear window that itself holds a
			// complete well-formed envelope is processed like any envelope in a column
			windowEnvelope := false
			lo, hi := 0, len(window)
			if !(side == maskcommon.PlainTextSideLeft || plen >= len(x)) {
				lo, hi = len(cipher), len(col)
			}
			if passthrough {
				lo, hi = 0, len(col)
			}
			for j := lo; j < hi; j++ {
				if bytes.HasPrefix(col[j:], []byte("%%%")) {
					if _, c, err := crypto.ExtractSerializedContainer(append([]byte{}, col[j:]...)); err == nil && crypto.NewRegistryHandler(storeFor(nil)).MatchDataSignature(c) {
						if !(passthrough && j == len(col)-len(window)-len(cipher) && false) {
							windowEnvelope = true
						}
					}
				}
			}
			if hasCandidate(window) {
				rep.Count("forged-header-in-window")
			}
			cls := func(c string) string { return c }
			if windowEnvelope {
				rep.Count("window-holds-envelope(caveat)")
				continue
			}
			replay := lab + " x=" + hex.EncodeToString(x) + " col=" + hex.EncodeToString(col)
			// owner
			own := m.Read(lab+" read:owner", st, owner, col, true)
			rep.OracleChecks++
			if !passthrough && (own.Kind != "ok" || !bytes.Equal(own.Vals[0], x)) {
				rep.Violate(cls("owner-original"), "owner did not get the original value: "+own.String()[:min(160, len(own.String()))], replay)
			}
			// readers that cannot decrypt
			var expect []byte
			if side == maskcommon.PlainTextSideLeft || plen >= len(x) {
				expect = append(append([]byte{}, window...), pattern...)
			} else {
				expect = append([]byte(pattern), window...)
			}
			for _, rd := range []struct {
				name string
				ks   *vh.KeySet
			}{{"no-keys", nil}, {"other-keys", other}} {
				o := m.Read(lab+" read:"+rd.name, st, rd.ks, col, true)
				rep.Count("reader:" + rd.name)
				rep.OracleChecks += 3
				if o.Kind != "ok" {
					rep.Violate(cls("non-owner-error"), rd.name+" read failed: "+o.String(), replay)
					continue
				}
				out := o.Vals[0]
				if leaks(cipher, out, expect, 8) {
					rep.Violate("ciphertext-leak", rd.name+" received ciphertext bytes: "+hex.EncodeToString(out), replay)
				}
				if !passthrough && len(hidden) >= 4 && leaks(hidden, out, expect, min(8, len(hidden))) {
					rep.Violate("plaintext-leak", rd.name+" received hidden plaintext bytes: "+hex.EncodeToString(out), replay)
				}
				if !bytes.Equal(out, expect) {
					rep.Violate(cls("non-owner-view"), rd.name+" did not receive window+pattern: got "+hex.EncodeToString(out)+" want "+hex.EncodeToString(expect), replay)
				}
				if sc%4 == 0 {
					wo := m.ReadWrapped(st, rd.ks, col)
					rep.OracleChecks++
					if wo.Kind != "ok" || !bytes.Equal(wo.Vals[0], out) {
						rep.Violate("wrapper-differs", "OldContainerDetectorWrapper changes the masked view: "+wo.String(), replay)
					}
				}
			}
			if sc%5 == 0 {
				m.Process(lab+" masking.Process(other)", st, other, cipher)
				m.Process(lab+" masking.Process(owner)", st, owner, cipher)
			}
		}
		// regression for fix 329e7f4: a forged container header with an absurd declared length inside the
		// stored value of a masked column must neither panic nor make the pattern swallow unrelated bytes
		if sc%6 == 0 {
			st := maskSetting(pattern, 2, maskcommon.PlainTextSideLeft, id)
			tail := r.Bytes(5 + r.Intn(20))
			for _, decl := range []uint64{uint64(13 + len(tail) + 1), 1 << 62, ^uint64(0), 12, 0} {
				h := binary.LittleEndian.AppendUint64([]byte("ab%%%"), decl)
				col := append(append(h, id), tail...)
				o := m.Read(fmt.Sprintf("sc%d forged declared length %d", sc, decl), st, nil, col, true)
				rep.OracleChecks++
				rep.Count("forged-declared-length")
				if o.Kind != "ok" || !bytes.Equal(o.Vals[0], col) {
					rep.Violate("forged-declared-length", "forged container length changed the column or crashed: "+o.String(), "col="+hex.EncodeToString(col))
				}
			}
		}
	}
}
