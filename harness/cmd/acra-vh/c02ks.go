package main

// Domain c02ks (part of C02): key store naming / lookup.  "Different clients always get different keys, a key
// stored for one client cannot be loaded as another client's key", both key store formats.
//
// REAL keystore v1 (filesystem.KeyStore over the in-memory vhiso.MemFS) and REAL keystore v2 (ServerKeyStore over
// backend.NewInMemory); nothing touches the real file system.  Key material is captured from the crypto/rand
// tape at generation time (independent of the getters and of the Coq model).

import (
	"bytes"
	"encoding/hex"
	"fmt"
	"path/filepath"
	"sort"
	"strings"

	"acra-vh/vh"
	"acra-vh/vhiso"

	"github.com/cossacklabs/acra/keystore"
	"github.com/cossacklabs/acra/keystore/v2/keystore/filesystem/backend"
	"github.com/cossacklabs/themis/gothemis/core"
	"github.com/cossacklabs/themis/gothemis/keys"
)

func init() { register("c02ks", "Model.RunKeyNames", runC02ks) }

type clientKS interface {
	GenerateDataEncryptionKeys([]byte) error
	GenerateClientIDSymmetricKey([]byte) error
	GenerateHmacKey([]byte) error
	GetServerDecryptionPrivateKey([]byte) (*keys.PrivateKey, error)
	GetServerDecryptionPrivateKeys([]byte) ([]*keys.PrivateKey, error)
	GetClientIDEncryptionPublicKey([]byte) (*keys.PublicKey, error)
	GetClientIDSymmetricKey([]byte) ([]byte, error)
	GetClientIDSymmetricKeys([]byte) ([][]byte, error)
	GetHMACSecretKey([]byte) ([]byte, error)
}

var ksKinds = []string{"pair", "sym", "hmac"}

// generated[id][kind] = raw material drawn from the tape, newest first (pair: 32-byte seed; sym/hmac: the key)
type generated map[string]map[string][][]byte

func (g generated) add(id, kind string, k []byte) {
	if g[id] == nil {
		g[id] = map[string][][]byte{}
	}
	g[id][kind] = append([][]byte{k}, g[id][kind]...)
}

// owner of a key value among everything generated ("" if none): "<id>/<kind>#<age>"
func (g generated) whose(val []byte, private bool) string {
	var ids []string
	for id := range g {
		ids = append(ids, id)
	}
	sort.Strings(ids)
	for _, id := range ids {
		for _, kind := range ksKinds {
			for i, k := range g[id][kind] {
				v := k
				if kind == "pair" {
					priv, pub := core.KeyPair(k)
					v = pub
					if private {
						v = priv
					}
				}
				if bytes.Equal(v, val) {
					return fmt.Sprintf("%q/%s#%d", id, kind, i)
				}
			}
		}
	}
	return ""
}

func privs(seeds [][]byte) [][]byte {
	var out [][]byte
	for _, s := range seeds {
		p, _ := core.KeyPair(s)
		out = append(out, p)
	}
	return out
}

func eqLists(a, b [][]byte) bool {
	if len(a) != len(b) {
		return false
	}
	for i := range a {
		if !bytes.Equal(a[i], b[i]) {
			return false
		}
	}
	return true
}

// generate one key of kind for id on ks, capturing the material from the tape.
func ksGenerate(r *vh.Rng, ks clientKS, g generated, id []byte, kind string) error {
	t := vh.StartTape(r)
	defer vh.StopTape()
	var err error
	o := vh.Guard(func() vh.Outcome {
		switch kind {
		case "pair":
			err = ks.GenerateDataEncryptionKeys(id)
		case "sym":
			err = ks.GenerateClientIDSymmetricKey(id)
		default:
			err = ks.GenerateHmacKey(id)
		}
		return vh.Ok()
	})
	if o.Kind == "panic" {
		return fmt.Errorf("panic: %s", o.Msg)
	}
	if err == nil && len(t.Chunks) > 0 && len(t.Chunks[0]) == 32 {
		g.add(string(id), kind, t.Chunks[0])
	}
	return err
}

type getterRes struct {
	name    string
	kind    string
	private bool
	vals    [][]byte
	err     error
	all     bool
}

func ksGet(ks clientKS, id []byte) []getterRes {
	var out []getterRes
	one := func(name, kind string, private, all bool, f func() ([][]byte, error)) {
		var vals [][]byte
		var err error
		o := vh.Guard(func() vh.Outcome { vals, err = f(); return vh.Ok() })
		if o.Kind == "panic" {
			err = fmt.Errorf("panic: %s", o.Msg)
		}
		out = append(out, getterRes{name, kind, private, vals, err, all})
	}
	one("GetServerDecryptionPrivateKey", "pair", true, false, func() ([][]byte, error) {
		k, err := ks.GetServerDecryptionPrivateKey(id)
		if err != nil {
			return nil, err
		}
		return [][]byte{k.Value}, nil
	})
	one("GetServerDecryptionPrivateKeys", "pair", true, true, func() ([][]byte, error) {
		k, err := ks.GetServerDecryptionPrivateKeys(id)
		if err != nil {
			return nil, err
		}
		var o [][]byte
		for _, x := range k {
			o = append(o, x.Value)
		}
		return o, nil
	})
	one("GetClientIDEncryptionPublicKey", "pair", false, false, func() ([][]byte, error) {
		k, err := ks.GetClientIDEncryptionPublicKey(id)
		if err != nil {
			return nil, err
		}
		return [][]byte{k.Value}, nil
	})
	one("GetClientIDSymmetricKey", "sym", false, false, func() ([][]byte, error) {
		k, err := ks.GetClientIDSymmetricKey(id)
		if err != nil {
			return nil, err
		}
		return [][]byte{k}, nil
	})
	one("GetClientIDSymmetricKeys", "sym", false, true, func() ([][]byte, error) { return ks.GetClientIDSymmetricKeys(id) })
	one("GetHMACSecretKey", "hmac", false, false, func() ([][]byte, error) {
		k, err := ks.GetHMACSecretKey(id)
		if err != nil {
			return nil, err
		}
		return [][]byte{k}, nil
	})
	return out
}

// oracle (ii)+(iii): every getter for every id of the universe returns exactly what was generated for that id
// and kind, and an error when nothing was generated for it.
func ksCheckGetters(rep *vh.Report, label string, ks clientKS, g generated, universe [][]byte, history string) {
	for _, id := range universe {
		for _, res := range ksGet(ks, id) {
			rep.OracleChecks++
			raw := g[string(id)][res.kind]
			var want [][]byte
			for _, k := range raw {
				v := k
				if res.kind == "pair" {
					priv, pub := core.KeyPair(k)
					v = pub
					if res.private {
						v = priv
					}
				}
				want = append(want, v)
			}
			if !res.all && len(want) > 1 {
				want = want[:1]
			}
			replay := fmt.Sprintf("%s id=%q getter=%s history=[%s]", label, id, res.name, history)
			if res.err != nil {
				if len(want) > 0 {
					rep.Violate("own-key-not-loadable", fmt.Sprintf("%s(%q) fails (%v) although %d key(s) of that kind were generated for this client", res.name, id, res.err, len(raw)), replay)
				}
				continue
			}
			if len(want) == 0 {
				who := ""
				if len(res.vals) > 0 {
					who = g.whose(res.vals[0], res.private)
				}
				if len(res.vals) == 0 { // an empty list is as good as an error
					continue
				}
				rep.Violate("key-loaded-as-other-client", fmt.Sprintf("%s(%q) returned a key although none was generated for this client/kind (it is the key of %s)", res.name, id, who), replay)
				continue
			}
			if !eqLists(res.vals, want) {
				who := ""
				if len(res.vals) > 0 {
					who = g.whose(res.vals[0], res.private)
				}
				class := "wrong-key" // not a key of anybody / an older own key / wrong order
				if who != "" && !strings.HasPrefix(who, fmt.Sprintf("%q/%s#", id, res.kind)) {
					class = "cross-client-key" // a key generated for another client or another purpose
				}
				rep.Violate(class, fmt.Sprintf("%s(%q) returned %d key(s), first = key of %s, expected the %d newest-first key(s) generated for this client", res.name, id, len(res.vals), who, len(want)), replay)
			}
		}
	}
}

// oracle (i): all generated key material is pairwise distinct
func ksCheckDistinct(rep *vh.Report, label string, g generated, history string) {
	seen := map[string]string{}
	for id, kinds := range g {
		for kind, ks := range kinds {
			for i, k := range ks {
				rep.OracleChecks++
				me := fmt.Sprintf("%q/%s#%d", id, kind, i)
				if other, ok := seen[string(k)]; ok {
					rep.Violate("same-key-two-owners", "identical key material for "+me+" and "+other, label+" history=["+history+"]")
				}
				seen[string(k)] = me
			}
		}
	}
}

var v1KindPurpose = map[string]string{"pair": "StoragePriv", "sym": "StorageSym", "hmac": "Hmac"}
var v2KindPurpose = map[string]string{"pair": "StorageRing", "sym": "StorageSymRing", "hmac": "HmacRing"}

func cloneBackend(b *backend.InMemory) *backend.InMemory {
	c := backend.NewInMemory()
	paths, _ := b.ListAll()
	for _, p := range paths {
		d, err := b.Get(p)
		if err == nil {
			c.Put(p, d)
		}
	}
	return c
}

func getOne(ks clientKS, kind string, id []byte) (val []byte, err error) {
	o := vh.Guard(func() vh.Outcome {
		switch kind {
		case "pair":
			var k *keys.PrivateKey
			k, err = ks.GetServerDecryptionPrivateKey(id)
			if err == nil {
				val = k.Value
			}
		case "sym":
			val, err = ks.GetClientIDSymmetricKey(id)
		default:
			val, err = ks.GetHMACSecretKey(id)
		}
		return vh.Ok()
	})
	if o.Kind == "panic" {
		err = fmt.Errorf("panic: %s", o.Msg)
	}
	return
}

func idClass(id []byte) string {
	switch {
	case len(id) < keystore.MinClientIDLength:
		return "short"
	case len(id) == keystore.MinClientIDLength:
		return "minlen"
	case len(id) == keystore.MaxClientIDLength:
		return "maxlen"
	case len(id) > keystore.MaxClientIDLength:
		return "toolong"
	}
	return "mid"
}

const validAlphabet = "abcdefghijklmnopqrstuvwxyzABCDEFGHIJKLMNOPQRSTUVWXYZ0123456789_- "

func randValidID(r *vh.Rng, n int) []byte {
	b := make([]byte, n)
	for i := range b {
		b[i] = validAlphabet[r.Intn(len(validAlphabet))]
	}
	return b
}

// name suffixes as OBSERVED on the real v1 key store (used to build related ids; no literal of acra here)
func observedV1Suffixes() []string {
	var out []string
	seen := map[string]bool{}
	for _, p := range v1Purposes {
		n, ok := v1Name(p, []byte("QZPROBEIDQZ"))
		if !ok {
			continue
		}
		_, suf := splitProbe(n, "QZPROBEIDQZ")
		if suf != "" && !seen[suf] && keystore.ValidateID([]byte("AAAAA"+suf)) {
			seen[suf] = true
			out = append(out, suf)
		}
	}
	return out
}

// universe of ids of one scenario: a base id plus ids that are prefixes / suffix-extensions of it
func ksUniverse(r *vh.Rng, rep *vh.Report, sc int, sufs []string) [][]byte {
	fixed := []string{"a", "a_storage", "a_storage_sym", "a_sym", "a_hmac", "client", "clientb", "b", "client_storage",
		"alice", "alice_storage", "alice_storage_sym", "alice_sym", "alice_hmac", "alice_storage_storage", "alice_hmac_storage_sym"}
	var ids [][]byte
	add := func(b []byte) {
		for _, x := range ids {
			if bytes.Equal(x, b) {
				return
			}
		}
		ids = append(ids, b)
	}
	switch sc % 5 {
	case 4: // CONFUSABLE ids: valid ids that differ only in one separator character (' ', '_', '-'), in letter
		// case, or in a doubled / leading / trailing separator.  A storage-name function that normalises any of
		// these makes two clients share keys (seeded change m41: ' ' -> '_' in the v2 ring path).
		a, b := randValidID(r, 3+r.Intn(5)), randValidID(r, 3+r.Intn(5))
		seps := []string{" ", "_", "-"}
		for _, sp := range seps {
			add([]byte(string(a) + sp + string(b)))
		}
		sp := seps[r.Intn(3)]
		add([]byte(string(a) + sp + sp + string(b)))
		add([]byte(sp + string(a) + sp + string(b)))
		add([]byte(string(a) + sp + string(b) + sp))
		add([]byte(strings.ToUpper(string(a)) + sp + string(b)))
		add([]byte(strings.ToLower(string(a)) + sp + string(b)))
		add([]byte(string(a) + string(b)))
		rep.Count("universe:confusable")
	case 0: // the ids the property text names
		for _, f := range fixed[:9] {
			add([]byte(f))
		}
		rep.Count("universe:named-short")
	case 1:
		for _, f := range fixed[9:] {
			add([]byte(f))
		}
		rep.Count("universe:named-valid")
	case 2: // boundary lengths
		base := randValidID(r, keystore.MinClientIDLength)
		add(base)
		add(base[:keystore.MinClientIDLength-1])
		long := randValidID(r, keystore.MaxClientIDLength)
		add(long)
		add(long[:keystore.MaxClientIDLength-len(sufs[0])])
		add(append(append([]byte{}, long...), 'x'))
		add(append(append([]byte{}, base...), sufs[r.Intn(len(sufs))]...))
		rep.Count("universe:boundary-lengths")
	default: // random valid base + its extensions by the observed name suffixes, and chains of two
		base := randValidID(r, 5+r.Intn(12))
		add(base)
		for _, s := range sufs {
			if r.Intn(3) != 0 {
				add([]byte(string(base) + s))
			}
		}
		s1, s2 := sufs[r.Intn(len(sufs))], sufs[r.Intn(len(sufs))]
		add([]byte(string(base) + s1 + s2))
		add(base[:len(base)-1])
		add(append(append([]byte{}, base...), byte('a'+r.Intn(26))))
		add(randValidID(r, 5+r.Intn(12)))
		rep.Count("universe:random-related")
	}
	return ids
}

func emitNameOps(rep *vh.Report, id []byte, done map[string]bool) {
	if done[string(id)] {
		return
	}
	done[string(id)] = true
	lab := fmt.Sprintf("id=%q", id)
	for _, p := range v1Purposes {
		var n string
		var ok bool
		o := vh.Guard(func() vh.Outcome { n, ok = v1Name(p, id); return vh.Ok() })
		if o.Kind == "panic" {
			rep.Add(lab+" v1 "+p, fmt.Sprintf("(NameV1 %s %s)", p, vh.H(id)), o)
			continue
		}
		if !ok { // the legacy generators refuse invalid ids before any storage access
			rep.Count("v1-name-not-observable:" + p)
			continue
		}
		rep.Add(lab+" v1 "+p, fmt.Sprintf("(NameV1 %s %s)", p, vh.H(id)), vh.Ok([]byte(n)))
	}
	plain := filepath.Join("P", string(id), "S") == "P/"+string(id)+"/S"
	fl := []byte{0}
	if plain {
		fl[0] = 1
	}
	rep.Add(lab+" filepath.Join verbatim", fmt.Sprintf("(JoinPlain %s)", vh.H(id)), vh.Ok(fl))
	for _, p := range v2Purposes {
		if !plain {
			rep.Count("v2-name-outside-model-domain")
			continue
		}
		var n string
		var ok bool
		o := vh.Guard(func() vh.Outcome { n, ok = v2Name(p, id); return vh.Ok() })
		if o.Kind == "panic" || !ok {
			rep.Add(lab+" v2 "+p, fmt.Sprintf("(NameV2 %s %s)", p, vh.H(id)), vh.Outcome{Kind: "panic", Msg: o.Msg})
			continue
		}
		rep.Add(lab+" v2 "+p, fmt.Sprintf("(NameV2 %s %s)", p, vh.H(id)), vh.Ok([]byte(n)))
		if p == "StorageRing" { // the public-key getter must use the same ring as the private-key getter
			rep.OracleChecks++
			if pn, ok := v2PubName(id); !ok || pn != n {
				rep.Violate("v2-public-ring-differs", fmt.Sprintf("public key getter fetches %q, private key getter %q", pn, n), lab)
			}
		}
	}
	v := []byte{0}
	if keystore.ValidateID(id) {
		v[0] = 1
	}
	rep.Count(fmt.Sprintf("validid:%d", v[0]))
	rep.Add(lab+" ValidateID", fmt.Sprintf("(ValidID %s)", vh.H(id)), vh.Ok(v))
}

func malformedID(r *vh.Rng, rep *vh.Report) []byte {
	base := randValidID(r, 5+r.Intn(8))
	switch k := r.Intn(12); k {
	case 0:
		rep.Count("malformed:empty")
		return []byte{}
	case 1:
		rep.Count("malformed:dotdot")
		return []byte("../" + string(base))
	case 2:
		rep.Count("malformed:slash-inside")
		return []byte(string(base) + "/" + string(randValidID(r, 3)))
	case 3:
		rep.Count("malformed:clean-collapses")
		return []byte("x/../" + string(base))
	case 4:
		rep.Count("malformed:dot")
		return []byte(strings.Repeat(".", 1+r.Intn(3)))
	case 5:
		rep.Count("malformed:utf8")
		return []byte(string(base) + "жλ€")
	case 6:
		rep.Count("malformed:invalid-utf8")
		return append(append([]byte{}, base...), 0xff, 0xc3)
	case 7:
		rep.Count("malformed:nul")
		return append(append([]byte{}, base...), 0)
	case 8:
		rep.Count("malformed:toolong")
		return randValidID(r, keystore.MaxClientIDLength+1+r.Intn(3))
	case 9:
		rep.Count("malformed:dot-suffix")
		return []byte(string(base) + ".pub")
	case 10:
		rep.Count("malformed:one-bad-byte")
		b := append([]byte{}, base...)
		b[r.Intn(len(b))] = byte(r.Intn(256))
		return b
	default:
		rep.Count("malformed:random-bytes")
		return r.Bytes(1 + r.Intn(12))
	}
}

func runC02ks(rep *vh.Report, r *vh.Rng, n int, thorough bool) {
	sufs := observedV1Suffixes()
	done := map[string]bool{}
	ksLegacyConnector(rep, r)
	for sc := 0; sc < n; sc++ {
		universe := ksUniverse(r, rep, sc, sufs)
		for _, id := range universe {
			rep.Count("idlen:" + idClass(id))
			emitNameOps(rep, id, done)
		}
		for i := 0; i < 6; i++ {
			emitNameOps(rep, malformedID(r, rep), done)
		}
		for _, format := range []string{"v1", "v2"} {
			ksScenario(rep, r, sc, format, universe, thorough)
		}
	}
}

// one stateful scenario on one key store format
func ksScenario(rep *vh.Report, r *vh.Rng, sc int, format string, universe [][]byte, thorough bool) {
	label := fmt.Sprintf("sc%d %s", sc, format)
	var ks clientKS
	var cold func() clientKS
	var mfs *vhiso.MemFS
	var mem *backend.InMemory
	t0 := vh.StartTape(r) // the v1 key store draws its cache key on construction
	if format == "v1" {
		mfs = vhiso.NewMemFS()
		ks = newV1(mfs)
		cold = func() clientKS { t := vh.StartTape(r); defer vh.StopTape(); _ = t; return newV1(mfs) }
	} else {
		mem = backend.NewInMemory()
		ks = c02NewV2(&vhiso.SpyBackend{Inner: mem})
		cold = func() clientKS { return c02NewV2(&vhiso.SpyBackend{Inner: mem}) }
	}
	_ = t0
	vh.StopTape()
	g := generated{}
	// owners: a random non-empty subset of the universe; the rest never gets a key (oracle iii)
	var owners [][]byte
	for _, id := range universe {
		if r.Intn(3) != 0 {
			owners = append(owners, id)
		}
	}
	if len(owners) == 0 {
		owners = universe[:1]
	}
	steps := 6 + r.Intn(10)
	if thorough {
		steps += 10 + r.Intn(20)
	}
	var hist []string
	for s := 0; s < steps; s++ {
		id := owners[r.Intn(len(owners))]
		kind := ksKinds[r.Intn(len(ksKinds))]
		err := ksGenerate(r, ks, g, id, kind)
		st := "ok"
		if err != nil {
			st = "refused"
		}
		rep.Count("generate:" + format + ":" + kind + ":" + st)
		h := hex.EncodeToString(id)
		if len(h) > 40 {
			h = fmt.Sprintf("%s…(%d bytes)", h[:40], len(id))
		}
		hist = append(hist, fmt.Sprintf("gen %s %s %s", kind, h, st))
		// after the first few generations: everybody else must still get errors (oracle iii early)
		if s == 1 {
			// (on a fresh instance over the same storage: a getter call on the generating instance would cache
			// the list of historical files / the public key, and v1 does not refresh those on a later
			// in-process rotation — stale OWN keys, not a concern of this property)
			ksCheckGetters(rep, label+" early", cold(), g, universe, strings.Join(hist, "; "))
		}
	}
	history := strings.Join(hist, "; ")
	for id, kinds := range g {
		for kind, l := range kinds {
			if len(l) > 1 {
				rep.Count("rotated:" + format + ":" + kind)
			}
			_ = id
		}
	}
	ksCheckDistinct(rep, label, g, history)
	ksCheckGetters(rep, label+" warm", ks, g, universe, history)
	ksCheckGetters(rep, label+" cold", cold(), g, universe, history)

	// oracle (iv): relocate the stored blob of X's key to the storage name of Y's key; Y's getter must fail
	var have []string
	for id := range g {
		have = append(have, id)
	}
	sort.Strings(have)
	if len(have) == 0 {
		return
	}
	tries := 4
	if thorough {
		tries = 12
	}
	for i := 0; i < tries; i++ {
		x := []byte(have[r.Intn(len(have))])
		y := universe[r.Intn(len(universe))]
		if bytes.Equal(x, y) {
			continue
		}
		kind := ksKinds[r.Intn(len(ksKinds))]
		if len(g[string(x)][kind]) == 0 {
			continue
		}
		replay := fmt.Sprintf("%s relocate kind=%s from id=%q to id=%q history=[%s]", label, kind, x, y, history)
		var val []byte
		var err error
		if format == "v1" {
			src, ok1 := v1Name(v1KindPurpose[kind], x)
			dst, ok2 := v1Name(v1KindPurpose[kind], y)
			blob := mfs.Raw(c02V1Dir + "/" + src)
			if !ok1 || !ok2 || blob == nil {
				continue
			}
			c := mfs.Clone()
			c.Plant(c02V1Dir+"/"+dst, blob, 0o600)
			t := vh.StartTape(r)
			k2 := newV1(c)
			_ = t
			vh.StopTape()
			val, err = getOne(k2, kind, y)
			// same owner, other purpose (observation only: v1's key context is the owner id alone)
			if kind == "hmac" {
				dst2, _ := v1Name("StorageSym", x)
				c2 := mfs.Clone()
				c2.Plant(c02V1Dir+"/"+dst2, blob, 0o600)
				vh.StartTape(r)
				k3 := newV1(c2)
				vh.StopTape()
				if v, e := getOne(k3, "sym", x); e == nil && bytes.Equal(v, g[string(x)]["hmac"][0]) {
					rep.Count("observation:v1-same-owner-hmac-blob-accepted-as-symmetric-key")
				} else {
					rep.Count("observation:v1-same-owner-hmac-blob-rejected-as-symmetric-key")
				}
			}
		} else {
			src, ok1 := v2Name(v2KindPurpose[kind], x)
			dst, ok2 := v2Name(v2KindPurpose[kind], y)
			if !ok1 || !ok2 {
				continue
			}
			c := cloneBackend(mem)
			blob, e := c.Get(src)
			if e != nil {
				continue
			}
			if e := c.Put(dst+".relocated", blob); e != nil {
				continue
			}
			if e := c.Rename(dst+".relocated", dst); e != nil {
				continue
			}
			val, err = getOne(c02NewV2(&vhiso.SpyBackend{Inner: c}), kind, y)
		}
		rep.OracleChecks++
		rep.Count("relocate:" + format + ":" + kind)
		if err == nil {
			rep.Violate("relocated-key-loaded", fmt.Sprintf("the stored %s key of client %q copied to the storage name of client %q is returned by %q's getter (it is the key of %s)", kind, x, y, y, g.whose(val, kind == "pair")), replay)
		}
	}
}

// The legacy AcraConnector transport key pair of client "<x>_storage" shares its two files with the storage key
// pair of client "<x>" (Coq: name_v1_injective_refuted).  Confirm on the real key store what that means.
func ksLegacyConnector(rep *vh.Report, r *vh.Rng) {
	x := []byte("alice")
	n, _ := v1Name("StoragePriv", x)
	y := []byte(n) // = x ++ observed storage suffix
	mfs := vhiso.NewMemFS()
	vh.StartTape(r)
	ks := newV1(mfs)
	vh.StopTape()
	g := generated{}
	if err := ksGenerate(r, ks, g, x, "pair"); err != nil {
		return
	}
	t := vh.StartTape(r)
	err := ks.GenerateConnectorKeys(y)
	vh.StopTape()
	if err != nil || len(t.Chunks) == 0 {
		return
	}
	connPriv, connPub := core.KeyPair(t.Chunks[0])
	replay := fmt.Sprintf("v1: GenerateDataEncryptionKeys(%q); GenerateConnectorKeys(%q); getters for %q", x, y, x)
	for _, cold := range []bool{false, true} {
		k := clientKS(ks)
		if cold {
			vh.StartTape(r)
			k = newV1(mfs)
			vh.StopTape()
		}
		rep.OracleChecks++
		pub, e1 := k.GetClientIDEncryptionPublicKey(x)
		priv, e2 := k.GetServerDecryptionPrivateKey(x)
		privRes := "fails"
		if e2 == nil {
			privRes = "returns another key"
			if bytes.Equal(priv.Value, connPriv) {
				privRes = "returns the connector PRIVATE key of the other client"
			} else if bytes.Equal(priv.Value, privs(g[string(x)]["pair"])[0]) {
				privRes = "still returns the own key"
			}
		}
		rep.Count("legacy-connector:private-getter " + privRes)
		if e1 == nil && bytes.Equal(pub.Value, connPub) {
			rep.Violate("keyname-collision-legacy-connector",
				fmt.Sprintf("keystore v1: the connector key pair generated for client %q overwrote the storage key files of client %q: GetClientIDEncryptionPublicKey(%q) returns the PUBLIC key generated for %q (cold=%v); GetServerDecryptionPrivateKey(%q) %s", y, x, x, y, cold, x, privRes), replay)
		}
	}
}
