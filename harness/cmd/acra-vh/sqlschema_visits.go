package main

// Part of the `sqlschema` translator (C16): the normalizer's visit functions.
//
// sqlparser.Walk goes below a node only when the visit function returns kontinue = true for it, so the
// return statements of WalkStatement / WalkSelect decide, together with walkSubtree, which literals are
// reached.  This file
//   (a) reads them with go/ast: for every case of the type switch the handler called on the node and the value
//       returned to Walk, as a function of what the comparison handler reported (abstract run of the clause
//       for both answers); what convertComparison reports after / without replacing node.Right;
//   (b) probes the compiled package: trees with a sentinel literal below each specially handled node kind are
//       redacted with the real walk (hook VerifRedactInPlace) and it is observed whether the sentinel was
//       reached.  Gen/SqlSchema.v carries both; Proofs/SqlRedact.v checks that the model's reading of the
//       tables predicts every observation (visit_probe_agrees).

import (
	"fmt"
	"go/ast"
	"go/token"
	"reflect"
	"strings"
	"unsafe"

	"github.com/cossacklabs/acra/sqlparser"
)

var sqlschemaHandlerActions = map[string]string{
	"convertSQLVal":      "convert_val",
	"convertSQLValDedup": "convert_val_dedup",
	"convertComparison":  "convert_comparison",
}

// sqlschemaVisitEval: abstract run of statements of a visit function for one answer of the comparison handler.
type sqlschemaVisitEval struct {
	recv    string          // receiver name of the visit function (nz)
	handled bool            // the answer convertComparison gives in this run
	env     map[string]bool // local bool variables assigned from the handler
	action  string          // what was done with the node ("" = nothing yet)
	ok      bool            // everything met was understood
}

func (ev *sqlschemaVisitEval) setAction(a string) {
	if ev.action != "" && ev.action != a {
		ev.action = "unknown"
		ev.ok = false
		return
	}
	ev.action = a
}

// handlerCall: recv.<handler>(node) -> the handler's action name
func (ev *sqlschemaVisitEval) handlerCall(e ast.Expr) (string, bool) {
	c, ok := e.(*ast.CallExpr)
	if !ok {
		return "", false
	}
	se, ok := c.Fun.(*ast.SelectorExpr)
	if !ok {
		return "", false
	}
	id, ok := se.X.(*ast.Ident)
	if !ok || id.Name != ev.recv {
		return "", false
	}
	a, ok := sqlschemaHandlerActions[se.Sel.Name]
	return a, ok
}

// nestedWalk: Walk(recv.<visit>, node) -> name of the visit function
func (ev *sqlschemaVisitEval) nestedWalk(e ast.Expr) (string, bool) {
	c, ok := e.(*ast.CallExpr)
	if !ok || len(c.Args) != 2 {
		return "", false
	}
	f, ok := c.Fun.(*ast.Ident)
	if !ok || f.Name != "Walk" {
		return "", false
	}
	se, ok := c.Args[0].(*ast.SelectorExpr)
	if !ok {
		return "", false
	}
	id, ok := se.X.(*ast.Ident)
	if !ok || id.Name != ev.recv {
		return "", false
	}
	if a, ok := c.Args[1].(*ast.Ident); !ok || a.Name != "node" {
		return "", false
	}
	return se.Sel.Name, true
}

// boolExpr: value of a condition / of the first result of a return
func (ev *sqlschemaVisitEval) boolExpr(e ast.Expr) (bool, bool) {
	switch x := e.(type) {
	case *ast.ParenExpr:
		return ev.boolExpr(x.X)
	case *ast.UnaryExpr:
		if x.Op == token.NOT {
			v, ok := ev.boolExpr(x.X)
			return !v, ok
		}
	case *ast.Ident:
		switch x.Name {
		case "true":
			return true, true
		case "false":
			return false, true
		}
		if v, ok := ev.env[x.Name]; ok {
			return v, true
		}
	case *ast.CallExpr:
		if a, ok := ev.handlerCall(x); ok && a == "convert_comparison" {
			ev.setAction(a)
			return ev.handled, true
		}
	}
	return false, false
}

func (ev *sqlschemaVisitEval) simple(s ast.Stmt) bool {
	switch x := s.(type) {
	case *ast.ExprStmt:
		if a, ok := ev.handlerCall(x.X); ok {
			ev.setAction(a)
			return true
		}
		if w, ok := ev.nestedWalk(x.X); ok {
			if w == "WalkSelect" {
				ev.setAction("walk_select")
				return true
			}
		}
	case *ast.AssignStmt:
		if len(x.Lhs) == 1 && len(x.Rhs) == 1 {
			lhs, _ := x.Lhs[0].(*ast.Ident)
			if w, ok := ev.nestedWalk(x.Rhs[0]); ok && lhs != nil && lhs.Name == "_" {
				if w == "WalkSelect" {
					ev.setAction("walk_select")
					return true
				}
				return false
			}
			if a, ok := ev.handlerCall(x.Rhs[0]); ok && a == "convert_comparison" && lhs != nil {
				ev.setAction(a)
				if lhs.Name != "_" {
					ev.env[lhs.Name] = ev.handled
				}
				return true
			}
		}
	case *ast.EmptyStmt:
		return true
	}
	return false
}

// run: (kontinue, returned)
func (ev *sqlschemaVisitEval) run(stmts []ast.Stmt) (bool, bool) {
	for _, s := range stmts {
		switch x := s.(type) {
		case *ast.ReturnStmt:
			if len(x.Results) != 2 {
				ev.ok = false
				return false, true
			}
			if id, ok := x.Results[1].(*ast.Ident); !ok || id.Name != "nil" {
				ev.ok = false
			}
			v, ok := ev.boolExpr(x.Results[0])
			if !ok {
				ev.ok = false
			}
			return v, true
		case *ast.BlockStmt:
			if k, r := ev.run(x.List); r {
				return k, true
			}
		case *ast.IfStmt:
			if x.Init != nil && !ev.simple(x.Init) {
				ev.ok = false
				return false, true
			}
			c, ok := ev.boolExpr(x.Cond)
			if !ok {
				ev.ok = false
				return false, true
			}
			if c {
				if k, r := ev.run(x.Body.List); r {
					return k, true
				}
			} else if x.Else != nil {
				if k, r := ev.run([]ast.Stmt{x.Else}); r {
					return k, true
				}
			}
		default:
			if !ev.simple(s) {
				ev.ok = false
				return false, true
			}
		}
	}
	return false, false
}

func sqlschemaEvalClause(recv string, body, tail []ast.Stmt, typ string) sVisitClause {
	cl := sVisitClause{Type: typ, Understood: true}
	for _, handled := range []bool{true, false} {
		ev := &sqlschemaVisitEval{recv: recv, handled: handled, env: map[string]bool{}, ok: true}
		k, returned := ev.run(body)
		if !returned {
			k, returned = ev.run(tail)
		}
		if !returned || !ev.ok {
			cl.Understood = false
		}
		if ev.action == "" {
			ev.action = "none"
		}
		if cl.Action == "" {
			cl.Action = ev.action
		} else if cl.Action != ev.action {
			cl.Action, cl.Understood = "unknown", false
		}
		if handled {
			cl.KHandled = k
		} else {
			cl.KUnhandled = k
		}
	}
	if !cl.Understood {
		cl.Action = "unknown"
	}
	return cl
}

func sqlschemaReadVisitFunc(fd *ast.FuncDecl, name string) *sVisitFunc {
	vf := &sVisitFunc{Name: name}
	if fd == nil || fd.Body == nil || len(fd.Recv.List[0].Names) == 0 {
		return vf
	}
	vf.Found = true
	recv := fd.Recv.List[0].Names[0].Name
	stmts := fd.Body.List
	var sw *ast.TypeSwitchStmt
	var tail []ast.Stmt
	if len(stmts) > 0 {
		if ts, ok := stmts[0].(*ast.TypeSwitchStmt); ok {
			sw, tail = ts, stmts[1:]
		}
	}
	if sw == nil {
		// no type switch in first position: every node is treated alike
		vf.Default = sqlschemaEvalClause(recv, nil, stmts, "")
		return vf
	}
	hasDefault := false
	for _, c := range sw.Body.List {
		cc := c.(*ast.CaseClause)
		if cc.List == nil {
			hasDefault = true
			vf.Default = sqlschemaEvalClause(recv, cc.Body, tail, "")
			continue
		}
		for _, te := range cc.List {
			tn := ""
			switch t := te.(type) {
			case *ast.StarExpr:
				if id, ok := t.X.(*ast.Ident); ok {
					tn = id.Name
				}
			case *ast.Ident:
				tn = t.Name
			}
			cl := sqlschemaEvalClause(recv, cc.Body, tail, tn)
			if tn == "" {
				cl.Action, cl.Understood = "unknown", false
			}
			vf.Clauses = append(vf.Clauses, cl)
		}
	}
	if !hasDefault {
		vf.Default = sqlschemaEvalClause(recv, nil, tail, "")
	}
	return vf
}

func sqlschemaReadVisits(sc *sqlSchema, funcs map[string]*ast.FuncDecl) {
	sc.Visits = map[string]*sVisitFunc{}
	for _, n := range []string{"WalkStatement", "WalkSelect"} {
		sc.Visits[n] = sqlschemaReadVisitFunc(funcs["normalizer."+n], n)
	}
	// the visit function Redact starts with: Walk(nz.<visit>, stmt)
	if fd := funcs["Redact"]; fd != nil && fd.Body != nil {
		ast.Inspect(fd.Body, func(x ast.Node) bool {
			if c, ok := x.(*ast.CallExpr); ok && len(c.Args) >= 1 {
				if f, ok := c.Fun.(*ast.Ident); ok && f.Name == "Walk" {
					if se, ok := c.Args[0].(*ast.SelectorExpr); ok {
						sc.RedactEntry = se.Sel.Name
					}
				}
			}
			return true
		})
	}
	// convertComparison: what it reports.  Returns textually before the assignment to node.Right leave the
	// node as it was; the ones after it (or falling off the end) come after the replacement.
	fd := funcs["normalizer.convertComparison"]
	if fd == nil || fd.Body == nil {
		return
	}
	sc.CmpUnderstood = true
	sc.CmpHasResult = fd.Type.Results != nil && len(fd.Type.Results.List) == 1
	if fd.Type.Results != nil && len(fd.Type.Results.List) > 1 {
		sc.CmpUnderstood = false
	}
	var replacePos token.Pos
	ast.Inspect(fd.Body, func(x ast.Node) bool {
		if as, ok := x.(*ast.AssignStmt); ok && len(as.Lhs) == 1 {
			if se, ok := as.Lhs[0].(*ast.SelectorExpr); ok && se.Sel.Name == "Right" {
				replacePos = as.Pos()
			}
		}
		return true
	})
	if replacePos == token.NoPos {
		sc.CmpUnderstood = false
	}
	var before, after []bool
	ast.Inspect(fd.Body, func(x ast.Node) bool {
		r, ok := x.(*ast.ReturnStmt)
		if !ok {
			return true
		}
		if !sc.CmpHasResult {
			return true
		}
		v := false
		if len(r.Results) == 1 {
			if id, ok := r.Results[0].(*ast.Ident); ok && (id.Name == "true" || id.Name == "false") {
				v = id.Name == "true"
			} else {
				sc.CmpUnderstood = false
			}
		} else {
			sc.CmpUnderstood = false
		}
		if r.Pos() < replacePos {
			before = append(before, v)
		} else {
			after = append(after, v)
		}
		return true
	})
	if sc.CmpHasResult {
		uniform := func(l []bool) (bool, bool) {
			if len(l) == 0 {
				return false, false
			}
			for _, v := range l {
				if v != l[0] {
					return false, false
				}
			}
			return l[0], true
		}
		var ok1, ok2 bool
		sc.CmpUnchanged, ok1 = uniform(before)
		sc.CmpReplaced, ok2 = uniform(after)
		if !ok1 || !ok2 {
			sc.CmpUnderstood = false
		}
	}
}

// ---------- run-time probe of the compiled package ----------

// sVisitProbe: in walk mode Sel (false: the statement is a DELETE, visited by WalkStatement; true: a SELECT,
// visited by WalkSelect) a node of type Type whose comparison handler replaces / does not replace the right
// operand; Below: the sentinel literals below the node were all reached by the real walk.
type sVisitProbe struct {
	Sel     bool
	Type    string
	Handled bool
	Below   bool
	What    string
}

const sqlschemaSentinel = "PRBsentinel"

func sqlschemaSentinelVal() *sqlparser.SQLVal { return sqlparser.NewStrVal([]byte(sqlschemaSentinel)) }

// sentinelsLeft: number of SQLVal nodes that still hold the sentinel (reflection over the whole tree,
// independent of Walk)
func sqlschemaSentinelsLeft(v reflect.Value, depth int) int {
	if depth > 40 {
		return 0
	}
	switch v.Kind() {
	case reflect.Interface, reflect.Ptr:
		if v.IsNil() {
			return 0
		}
		if v.Kind() == reflect.Ptr && v.Type() == reflect.TypeOf(&sqlparser.SQLVal{}) {
			n := 0
			if val, ok := v.Interface().(*sqlparser.SQLVal); ok && val.Type != sqlparser.ValArg && strings.Contains(string(val.Val), sqlschemaSentinel) {
				n = 1
			}
			return n + sqlschemaSentinelsLeft(v.Elem(), depth+1)
		}
		return sqlschemaSentinelsLeft(v.Elem(), depth+1)
	case reflect.Struct:
		n := 0
		v = addressable(v)
		for i := 0; i < v.NumField(); i++ {
			f := v.Field(i)
			switch f.Kind() {
			case reflect.Interface, reflect.Ptr, reflect.Struct, reflect.Slice:
				if !f.CanInterface() {
					if !f.CanAddr() {
						continue
					}
					f = reflect.NewAt(f.Type(), unsafe.Pointer(f.UnsafeAddr())).Elem()
				}
				n += sqlschemaSentinelsLeft(f, depth+1)
			}
		}
		return n
	case reflect.Slice:
		if v.Type().Elem().Kind() == reflect.Uint8 {
			return 0
		}
		n := 0
		for i := 0; i < v.Len(); i++ {
			n += sqlschemaSentinelsLeft(v.Index(i), depth+1)
		}
		return n
	}
	return 0
}

func sqlschemaProbeVisits() (rows []sVisitProbe, err error) {
	defer func() {
		if r := recover(); r != nil {
			err = fmt.Errorf("visit probe panicked: %v", r)
		}
	}()
	defer setDialect("mysql")
	type probe struct {
		typ     string
		handled bool
		what    string
		pg      bool
		expr    func() (sqlparser.Expr, error)
	}
	lit := func(s string) *sqlparser.SQLVal { return sqlparser.NewStrVal([]byte(s)) }
	col := func() sqlparser.Expr {
		return &sqlparser.ColName{Name: sqlparser.NewColIdent("c")}
	}
	probes := []probe{
		{"ComparisonExpr", true, "SENTINEL in ('x', 'y')", false, func() (sqlparser.Expr, error) {
			return &sqlparser.ComparisonExpr{Operator: sqlparser.InStr, Left: sqlschemaSentinelVal(), Right: sqlparser.ValTuple{lit("x"), lit("y")}}, nil
		}},
		{"ComparisonExpr", true, "lower(SENTINEL) not in ('x')", false, func() (sqlparser.Expr, error) {
			f := &sqlparser.FuncExpr{Name: sqlparser.NewColIdent("lower"), Exprs: sqlparser.SelectExprs{&sqlparser.AliasedExpr{Expr: sqlschemaSentinelVal()}}}
			return &sqlparser.ComparisonExpr{Operator: sqlparser.NotInStr, Left: f, Right: sqlparser.ValTuple{lit("x")}}, nil
		}},
		{"ComparisonExpr", false, "SENTINEL in (SENTINEL, c)", false, func() (sqlparser.Expr, error) {
			return &sqlparser.ComparisonExpr{Operator: sqlparser.InStr, Left: sqlschemaSentinelVal(), Right: sqlparser.ValTuple{sqlschemaSentinelVal(), col()}}, nil
		}},
		{"ComparisonExpr", false, "SENTINEL = SENTINEL", false, func() (sqlparser.Expr, error) {
			return &sqlparser.ComparisonExpr{Operator: sqlparser.EqualStr, Left: sqlschemaSentinelVal(), Right: sqlschemaSentinelVal()}, nil
		}},
		{"ComparisonExpr", false, "SENTINEL like SENTINEL escape SENTINEL", false, func() (sqlparser.Expr, error) {
			return &sqlparser.ComparisonExpr{Operator: sqlparser.LikeStr, Left: sqlschemaSentinelVal(), Right: sqlschemaSentinelVal(), Escape: sqlschemaSentinelVal()}, nil
		}},
		{"ParenExpr", false, "(SENTINEL)", false, func() (sqlparser.Expr, error) {
			return &sqlparser.ParenExpr{Expr: sqlschemaSentinelVal()}, nil
		}},
		{"Select", false, "c in (select SENTINEL from u)  [sentinel below a Select node]", false, func() (sqlparser.Expr, error) {
			st, err := sqlparser.New(sqlparser.ModeStrict).Parse("select '" + sqlschemaSentinel + "' from u")
			if err != nil {
				return nil, err
			}
			return &sqlparser.ComparisonExpr{Operator: sqlparser.InStr, Left: col(), Right: &sqlparser.Subquery{Select: st.(sqlparser.SelectStatement)}}, nil
		}},
		{"SQLVal", false, "NewCastVal((SENTINEL), ::text)  [SQLVal with an expression below it]", true, func() (sqlparser.Expr, error) {
			return sqlparser.NewCastVal(&sqlparser.ParenExpr{Expr: sqlschemaSentinelVal()}, []byte("::text")), nil
		}},
	}
	for _, sel := range []bool{false, true} {
		for _, p := range probes {
			if p.pg {
				setDialect("pg")
			} else {
				setDialect("mysql")
			}
			e, err := p.expr()
			if err != nil {
				return nil, fmt.Errorf("visit probe %q: %v", p.what, err)
			}
			before := sqlschemaSentinelsLeft(reflect.ValueOf(e), 0)
			if before == 0 {
				return nil, fmt.Errorf("visit probe %q: the probe tree holds no sentinel", p.what)
			}
			var stmt sqlparser.Statement
			if sel {
				stmt, err = sqlparser.New(sqlparser.ModeStrict).Parse("select a from t where a = b")
				if err == nil {
					stmt.(*sqlparser.Select).Where.Expr = e
				}
			} else {
				stmt, err = sqlparser.New(sqlparser.ModeStrict).Parse("delete from t where a = b")
				if err == nil {
					stmt.(*sqlparser.Delete).Where.Expr = e
				}
			}
			if err != nil {
				return nil, fmt.Errorf("visit probe frame: %v", err)
			}
			sqlparser.VerifRedactInPlace(stmt)
			left := sqlschemaSentinelsLeft(reflect.ValueOf(stmt), 0)
			rows = append(rows, sVisitProbe{Sel: sel, Type: p.typ, Handled: p.handled, Below: left == 0, What: p.what})
		}
	}
	return rows, nil
}

// ---------- printing ----------

func sqlschemaVisitReturn(c sVisitClause) string {
	switch {
	case !c.Understood:
		return "VR_unknown"
	case c.KHandled && c.KUnhandled:
		return "VR_continue"
	case !c.KHandled && !c.KUnhandled:
		return "VR_stop"
	case !c.KHandled && c.KUnhandled:
		return "VR_stop_if_handled"
	default:
		return "VR_continue_if_handled"
	}
}

func emitSQLVisits(sc *sqlSchema) {
	p := fmt.Println
	pf := fmt.Printf
	p("")
	p("(** ---------- the normalizer's visit functions (sqlparser/normalizer.go), read with go/ast ----------")
	p("    Walk goes below a node only when the visit function returns kontinue = true for it.  For every case of the")
	p("    type switch of WalkStatement / WalkSelect: the node type, what is done with the node, and the first result")
	p("    of the function as it depends on what the comparison handler reported:")
	p("      VR_continue: true whatever was reported;  VR_stop: false whatever was reported;")
	p("      VR_stop_if_handled: false when the handler reported true, else true;  VR_continue_if_handled: the reverse;")
	p("      VR_unknown / VA_unknown: the clause contains something this reader does not understand. *)")
	p("Inductive vaction := VA_none | VA_convert_val | VA_convert_val_dedup | VA_convert_comparison | VA_walk_select | VA_unknown.")
	p("Inductive vreturn := VR_continue | VR_stop | VR_stop_if_handled | VR_continue_if_handled | VR_unknown.")
	p("Record vclause := mkVC { vc_type : N; vc_action : vaction; vc_return : vreturn }.")
	for _, n := range []struct{ fn, coq string }{{"WalkStatement", "VISIT_STATEMENT"}, {"WalkSelect", "VISIT_SELECT"}} {
		vf := sc.Visits[n.fn]
		pf("(** normalizer.%s%s *)\n", n.fn, map[bool]string{true: "", false: " (NOT FOUND)"}[vf.Found])
		pf("Definition %s : list vclause := [", n.coq)
		for i, c := range vf.Clauses {
			id := 1000000
			if t := sc.ByName[c.Type]; t != nil {
				id = t.ID
			}
			sep := ";"
			if i == len(vf.Clauses)-1 {
				sep = ""
			}
			pf("\n  mkVC %d VA_%s %s%s  (* case %s *)", id, c.Action, sqlschemaVisitReturn(c), sep, c.Type)
		}
		p("\n].")
		d := vf.Default
		if !vf.Found {
			d = sVisitClause{Action: "unknown"}
		}
		pf("(** ... and for a node type without a case of its own *)\n")
		pf("Definition %s_DEFAULT : vclause := mkVC 1000000 VA_%s %s.\n", n.coq, d.Action, sqlschemaVisitReturn(d))
	}
	p("(** the visit function sqlparser.Redact hands to Walk: is it WalkSelect (else WalkStatement)?  KNOWN: it is one of the two *)")
	pf("Definition REDACT_ENTRY_SELECT : bool := %v.\n", sc.RedactEntry == "WalkSelect")
	pf("Definition REDACT_ENTRY_KNOWN : bool := %v.  (* %q *)\n", sc.RedactEntry == "WalkSelect" || sc.RedactEntry == "WalkStatement", sc.RedactEntry)
	p("(** normalizer.convertComparison: does it have a bool result; its value after node.Right was replaced by the list")
	p("    bind variable / on the paths that leave the node as it was; UNDERSTOOD: every return is a plain true/false,")
	p("    uniform on each side of the assignment to node.Right *)")
	pf("Definition CMP_HAS_RESULT : bool := %v.\n", sc.CmpHasResult)
	pf("Definition CMP_REPORTS_REPLACED : bool := %v.\n", sc.CmpHasResult && sc.CmpReplaced)
	pf("Definition CMP_REPORTS_UNCHANGED : bool := %v.\n", sc.CmpHasResult && sc.CmpUnchanged)
	pf("Definition CMP_REPORTS_UNDERSTOOD : bool := %v.\n", sc.CmpUnderstood)
	p("")
	p("(** run-time probe of the compiled package (hook VerifRedactInPlace = the walk HandleRawSQLQuery runs): a tree with")
	p("    sentinel literals below a node of the given type, inside a DELETE (sel = false: WalkStatement) or a SELECT")
	p("    (sel = true: WalkSelect); handled = the right operand of the comparison is an all-literal IN list (replaced);")
	p("    last component: every sentinel below the node was reached and replaced by the real walk.")
	p("    (sel, node type, handled, walk went below) *)")
	rows, err := sqlschemaProbeVisits()
	if err != nil {
		pf("(* PROBE FAILED: %s *)\n", strings.ReplaceAll(err.Error(), "*)", "* )"))
		p("Definition VISIT_PROBE_RAN : bool := false.")
		p("Definition VISIT_PROBE : list (bool * N * bool * bool) := [].")
		return
	}
	p("Definition VISIT_PROBE_RAN : bool := true.")
	p("Definition VISIT_PROBE : list (bool * N * bool * bool) := [")
	for i, r := range rows {
		id := 1000000
		if t := sc.ByName[r.Type]; t != nil {
			id = t.ID
		}
		sep := ";"
		if i == len(rows)-1 {
			sep = ""
		}
		pf("  (%v, %d, %v, %v)%s  (* %s: %s *)\n", r.Sel, id, r.Handled, r.Below, sep, r.Type, strings.ReplaceAll(r.What, "*)", "* )"))
	}
	p("].")
}
