package main

// Domain c02rp (property C02, "which identity does each READ-PATH processor use"): every column processor the
// acra-server proxies wire for result columns, obtained from the REAL factories (harness/c02rprig: PostgreSQL and
// MySQL proxyFactory.New over one keystore, one encryptor config and one shared token store, exactly the lists of
// decryptor/{postgresql,mysql}/proxy.go):
//
//	pseudonymization.TokenProcessor.OnColumn            tokenized columns (random / consistent tokens)
//	crypto.DecryptHandler (registry handler)            acrablock / acrastruct columns
//	masking.Processor                                   masked columns
//	hmac.Processor + Verifier                           searchable columns (blind index in front of the envelope)
//
// x the setting of the column WITH and WITHOUT an explicit `client_id` (none / the owner / the reader / a third
// client) x zone-less connections of the owner, of another client with keys, of a third client and of a client
// without keys.  The value is first WRITTEN through the real write path of a connection
// (QueryDataEncryptor.encryptWithColumnSettings: identity = client_id of the column if set, else the connection;
// then the whole DataEncryptor chain), by the owner itself or BY ANOTHER connection into a column that names the
// owner.  It is then READ by every connection through every setting: the column subscribers between decoder and
// encoder (PostgreSQL and MySQL proxies) and PgProxy.onColumnDecryption in binary and text format.
//
// Oracle (independent of the model), per the property text: the READ path reveals under the identity of the
// CONNECTION only.  A connection of identity B receives the plaintext of a value protected for A only if B = A,
// whatever `client_id` the setting of the column it reads through carries: B != A gets the stored form unchanged
// (masked column: exactly window+pattern), and A always gets her plaintext back.
// Every call is replayed on Model/RunReadPath.v.

import (
	"bytes"
	"context"
	"encoding/hex"
	"fmt"
	"strings"

	"acra-vh/c02rprig"
	"acra-vh/vh"
	"acra-vh/vhiso"

	"github.com/cossacklabs/acra/decryptor/base"
	"github.com/cossacklabs/acra/encryptor/base/config"
)

func init() { register("c02rp", "Model.RunReadPath", runC02rp) }

// identity families: plain names, ids that are prefixes / suffixes of each other, ids around the literal `client`
// that the token storage concatenates without a separator.  Roles: owner, reader, third; "nokeys" has no keys.
var c02rpFamilies = [][3]string{
	{"alice_client", "bob_client", "carol_client"},
	{"client", "clientclient", "zclient"},
	{"tenant", "tenant1", "1tenant"},
	{"ab_ab", "ab_ab_ab", "ab_ba"},
}

const c02rpNoKeys = "nokeys_client"

// one column flavour = which read-path processor decides
type c02rpKind struct {
	name               string
	tok, cons          bool
	envAB              bool
	search, mask       bool
	side               string
	pattern            string
	plen               int
	wantTok, wantS, wM bool // optional stages this flavour needs in the schema
}

var c02rpKinds = []c02rpKind{
	{name: "token-random", tok: true},
	{name: "token-consistent", tok: true, cons: true},
	{name: "acrablock", envAB: true},
	{name: "acrastruct"},
	{name: "search-acrablock", envAB: true, search: true},
	{name: "search-acrastruct", search: true},
	{name: "mask-acrablock-left", envAB: true, mask: true, side: "left", pattern: "xxxx", plen: 3},
	{name: "mask-acrastruct-right", mask: true, side: "right", pattern: "****", plen: 4},
}

// which optional stages the factory installs (same record as Model/FullChain.v)
type c02rpSchema struct{ tok, search, mask bool }

func (s c02rpSchema) coq() string {
	return fmt.Sprintf("(mk_sch %s %s %s)", coqBool(s.tok), coqBool(s.search), coqBool(s.mask))
}

// setting of one column: the flavour + the explicit client_id ("" = none)
type c02rpSetting struct {
	col string
	cid string
	k   *c02rpKind
}

func (s c02rpSetting) coq() string {
	if s.k.tok {
		return fmt.Sprintf("(mk_rps %s (RpTok %s))", vh.H([]byte(s.cid)), coqBool(s.k.cons))
	}
	ms := coqSetting("", 0, "", 0)
	if s.k.mask {
		ms = coqSetting(s.k.pattern, s.k.plen, s.k.side, 0)
	}
	reenc := s.k.search || s.k.mask
	return fmt.Sprintf("(mk_rps %s (RpEnc (mk_fs %s %s %s %s)))", vh.H([]byte(s.cid)), coqBool(s.k.envAB), coqBool(reenc), coqBool(s.k.search), ms)
}

func (s c02rpSetting) yaml() string {
	var sb strings.Builder
	sb.WriteString("      - column: " + s.col + "\n")
	if s.cid != "" {
		sb.WriteString("        client_id: " + s.cid + "\n")
	}
	k := s.k
	if k.tok {
		sb.WriteString("        token_type: bytes\n        consistent_tokenization: " + coqBool(k.cons) + "\n")
		return sb.String()
	}
	if k.envAB {
		sb.WriteString("        crypto_envelope: acrablock\n")
	} else {
		sb.WriteString("        crypto_envelope: acrastruct\n")
	}
	switch {
	case k.search:
		sb.WriteString("        searchable: true\n")
	case k.mask:
		sb.WriteString("        masking: " + c11oldYAMLString(k.pattern) + "\n")
		sb.WriteString(fmt.Sprintf("        plaintext_length: %d\n        plaintext_side: %s\n", k.plen, k.side))
	default:
		sb.WriteString("        reencrypting_to_acrablocks: false\n")
	}
	return sb.String()
}

const c02rpAlphabet = "abcdefghijklmnopqrstuvwxyzABCDEFGHIJKLMNOPQRSTUVWXYZ0123456789 -_.:/@"

// a printable high-entropy secret (no tag bytes, no backslash: this domain is about identities, not parsing)
func c02rpSecret(r *vh.Rng, n int) []byte {
	b := make([]byte, n)
	for i := range b {
		b[i] = c02rpAlphabet[r.Intn(len(c02rpAlphabet))]
	}
	return b
}

type c02rpWrite struct {
	setting c02rpSetting
	conn    string
	tape    [][]byte
	data    []byte
}

func (w c02rpWrite) coq() string {
	return fmt.Sprintf("(mk_rpw %s %s %s %s)", w.setting.coq(), vh.H([]byte(w.conn)), vh.HL(w.tape), c01chainH(w.data))
}

type c02rpScenario struct {
	rep    *vh.Report
	r      *vh.Rng
	head   string
	rig    *c02rprig.Rig
	schema c02rpSchema
	keys   *vh.MemKeystore
	ids    []string // identities that have keys, in the order of the Coq key map
	hist   []c02rpWrite
}

func (sc *c02rpScenario) coqKeys() string {
	var parts []string
	for _, id := range sc.ids {
		parts = append(parts, fmt.Sprintf("(%s, %s)", vh.H([]byte(id)), sc.keys.Clients[id].Coq()))
	}
	return "[" + strings.Join(parts, "; ") + "]"
}

func (sc *c02rpScenario) coqHist() string {
	var parts []string
	for _, w := range sc.hist {
		parts = append(parts, w.coq())
	}
	return "[" + strings.Join(parts, "; ") + "]"
}

func (sc *c02rpScenario) realSetting(s c02rpSetting) config.ColumnEncryptionSetting {
	return sc.rig.Schema.GetTableSchema("t").GetColumnEncryptionSettings(s.col)
}

func (sc *c02rpScenario) open(conn string, my bool) *c02rprig.Conn {
	var c *c02rprig.Conn
	var err error
	if my {
		c, err = sc.rig.OpenMy([]byte(conn))
	} else {
		c, err = sc.rig.OpenPg([]byte(conn))
	}
	if err != nil {
		sc.rep.Violate("harness-error", "proxyFactory.New: "+err.Error(), sc.head)
		return nil
	}
	return c
}

// write: the real write path of a connection of identity conn
func (sc *c02rpScenario) write(label string, s c02rpSetting, conn string, my bool, data []byte, script [][]byte) vh.Outcome {
	c := sc.open(conn, my)
	if c == nil {
		return vh.Outcome{Kind: "err", Msg: "no proxy"}
	}
	defer c.Close()
	setting := sc.realSetting(s)
	t := vhiso.StartScriptTape(sc.r, script)
	d := append([]byte{}, data...)
	o := vh.Guard(func() vh.Outcome { return one(c.Write(setting, d)) })
	vh.StopTape()
	w := c02rpWrite{s, conn, t.Chunks, append([]byte{}, data...)}
	sc.rep.Add(label, fmt.Sprintf("RpWrite %s %s %s %s", sc.schema.coq(), sc.coqKeys(), sc.coqHist(), w.coq()), o)
	sc.hist = append(sc.hist, w)
	return o
}

// core: the subscribers between decoder and encoder, notified as ColumnDecryptionObserver.OnColumnDecryption does
func (sc *c02rpScenario) core(label string, s c02rpSetting, conn string, my bool, col []byte) vh.Outcome {
	c := sc.open(conn, my)
	if c == nil {
		return vh.Outcome{Kind: "err", Msg: "no proxy"}
	}
	defer c.Close()
	var subs []base.DecryptionSubscriber
	if my {
		subs = c01chainCore(c.Subscribers(), "DataDecoderProcessor", "DataEncoderProcessor")
	} else {
		subs = c01chainCore(c.Subscribers(), "PgSQLDataDecoderProcessor", "PgSQLDataEncoderProcessor")
	}
	if len(subs) == 0 {
		sc.rep.Violate("harness-error", "no column subscribers between decoder and encoder", sc.head)
	}
	ctx := c.ColumnCtx(sc.realSetting(s))
	d := append([]byte{}, col...)
	o := vh.Guard(func() vh.Outcome {
		var cx context.Context = ctx
		data := d
		var err error
		for _, sub := range subs {
			cx, data, err = sub.OnColumn(cx, data)
			if err != nil {
				return vh.ErrO(err)
			}
		}
		fl := []byte{0}
		if base.IsDecryptedFromContext(cx) {
			fl[0] = 1
		}
		return vh.Ok(append([]byte{}, data...), fl)
	})
	sc.rep.Add(label, fmt.Sprintf("RpCore %s %s %s (Some %s) %s %s", sc.schema.coq(), sc.coqKeys(), sc.coqHist(), s.coq(), vh.H([]byte(conn)), c01chainH(col)), o)
	return o
}

// pg: PgProxy.onColumnDecryption (decoder ; subscribers ; encoder)
func (sc *c02rpScenario) pg(label string, s c02rpSetting, conn string, binaryFmt bool, data []byte) vh.Outcome {
	c := sc.open(conn, false)
	if c == nil {
		return vh.Outcome{Kind: "err", Msg: "no proxy"}
	}
	defer c.Close()
	setting := sc.realSetting(s)
	d := append([]byte{}, data...)
	o := vh.Guard(func() vh.Outcome { return one(c.Column(1, d, binaryFmt, setting)) })
	sc.rep.Add(label, fmt.Sprintf("RpPg %s %s %s (Some %s) %s %s %s", sc.schema.coq(), sc.coqKeys(), sc.coqHist(), s.coq(), vh.H([]byte(conn)), coqBool(binaryFmt), c01chainH(data)), o)
	return o
}

// contains a run of n bytes of secret
func c02rpLeaks(got, secret []byte, n int) bool {
	if len(secret) < n {
		return len(secret) > 0 && bytes.Contains(got, secret)
	}
	for i := 0; i+n <= len(secret); i++ {
		if bytes.Contains(got, secret[i:i+n]) {
			return true
		}
	}
	return false
}

func c02rpUnhex(b []byte) []byte {
	if bytes.HasPrefix(b, []byte(`\x`)) {
		if raw, err := hex.DecodeString(string(b[2:])); err == nil {
			return raw
		}
	}
	return b
}

func runC02rp(rep *vh.Report, r *vh.Rng, n int, thorough bool) {
	for i := 0; i < n; i++ {
		k := c02rpKinds[i%len(c02rpKinds)]
		wv := (i / len(c02rpKinds)) % 3
		if thorough && r.Intn(4) == 0 {
			wv = 3
		}
		c02rpOne(rep, r, i, k, wv, thorough)
	}
}

// one scenario: flavour k, write variant wv:
//
//	0 the owner writes into the column WITHOUT client_id          (identity of the connection)
//	1 the owner writes into the column with client_id = owner
//	2 the READER writes into the column with client_id = owner    (protected for the owner by another connection)
//	3 the third client writes into the column with client_id = owner
func c02rpOne(rep *vh.Report, r *vh.Rng, idx int, k c02rpKind, wv int, thorough bool) {
	fam := c02rpFamilies[r.Intn(len(c02rpFamilies))]
	// the roles vary over the family
	perm := [][3]int{{0, 1, 2}, {1, 0, 2}, {2, 1, 0}, {1, 2, 0}}[r.Intn(4)]
	owner, reader, third := fam[perm[0]], fam[perm[1]], fam[perm[2]]
	rep.Count("ids:" + fam[0])
	rep.Count("kind:" + k.name)
	rep.Count(fmt.Sprintf("write-variant:%d", wv))

	schema := c02rpSchema{tok: k.tok || r.Intn(3) == 0, search: k.search || r.Intn(3) == 0, mask: k.mask || r.Intn(3) == 0}
	rep.Count("schema:" + schema.coq())
	settings := []c02rpSetting{{"v0", "", &k}, {"v1", owner, &k}, {"v2", reader, &k}, {"v3", third, &k}}
	var sb strings.Builder
	sb.WriteString("schemas:\n  - table: t\n    columns:\n      - id\n      - v0\n      - v1\n      - v2\n      - v3\n      - xs\n      - xm\n      - xt\n    encrypted:\n")
	for _, s := range settings {
		sb.WriteString(s.yaml())
	}
	if schema.search && !k.search {
		sb.WriteString(c02rpSetting{"xs", "", &c02rpKind{search: true, envAB: !k.envAB}}.yaml())
	}
	if schema.mask && !k.mask {
		sb.WriteString(c02rpSetting{"xm", "", &c02rpKind{mask: true, envAB: !k.envAB, pattern: "zz", plen: 2, side: "right"}}.yaml())
	}
	if schema.tok && !k.tok {
		sb.WriteString(c02rpSetting{"xt", "", &c02rpKind{tok: true}}.yaml())
	}
	yaml := sb.String()

	keys := vh.NewMemKeystore()
	ids := []string{owner, reader, third}
	for _, id := range ids {
		keys.Clients[id] = vh.NewKeySet(r, 1+r.Intn(2), 1+r.Intn(2), true)
	}
	head := fmt.Sprintf("scenario %d (seed %d) processor=%s write-variant=%d owner=%q reader=%q third=%q nokeys=%q\nencryptor config:\n%s", idx, rep.Seed, k.name, wv, owner, reader, third, c02rpNoKeys, yaml)
	rig, err := c02rprig.New(keys, []byte(yaml))
	if err != nil {
		rep.Violate("harness-error", "rig: "+err.Error(), head)
		return
	}
	sc := &c02rpScenario{rep: rep, r: r, head: head, rig: rig, schema: schema, keys: keys, ids: ids}
	for _, s := range settings {
		if sc.realSetting(s) == nil {
			rep.Violate("harness-error", "no setting for column "+s.col, head)
			return
		}
	}

	nlen := 12 + r.Intn(28)
	secret := c02rpSecret(r, nlen)
	// what the reader itself protects (its own data: it may read that back)
	readerOwn := c02rpSecret(r, nlen)
	lab := fmt.Sprintf("sc%d %s wv%d", idx, k.name, wv)

	// ---- history before: the reader protects a value of its own (same column family, its own identity)
	if r.Intn(2) == 0 {
		rep.Count("history:reader-writes-before")
		sc.write(lab+" reader writes its own value before", settings[r.Pick(0, 2)], reader, r.Intn(3) == 0, readerOwn, nil)
	}

	// ---- the write under test
	ws, wconn := settings[0], owner
	switch wv {
	case 1:
		ws = settings[1]
	case 2:
		ws, wconn = settings[1], reader
	case 3:
		ws, wconn = settings[1], third
	}
	w := sc.write(lab+" write", ws, wconn, r.Intn(3) == 0, secret, nil)
	replay := func(extra string) string {
		return head + fmt.Sprintf("plaintext protected for %q (written by connection %q through column %s) = %q\n%s", owner, wconn, ws.col, secret, extra)
	}
	rep.OracleChecks++
	if w.Kind != "ok" {
		rep.Violate("readpath-write-failed", "the write path refused the value: "+w.String(), replay(""))
		return
	}
	stored := w.Vals[0]
	rep.OracleChecks++
	if c02rpLeaks(stored, c02rpHidden(&k, secret), 6) {
		rep.Violate("readpath-stored-in-clear", "the stored form contains the plaintext", replay("stored="+hex.EncodeToString(stored)))
	}

	// ---- history after: the reader protects values of its own; for tokens sometimes forced onto the SAME token bytes
	readerOwnTok := map[string][]byte{}
	if r.Intn(2) == 0 {
		var script [][]byte
		if k.tok && r.Intn(2) == 0 {
			script = [][]byte{stored}
			rep.Count("history:reader-token-forced-equal")
		}
		rep.Count("history:reader-writes-after")
		o := sc.write(lab+" reader writes its own value after", settings[r.Pick(0, 2)], reader, r.Intn(3) == 0, readerOwn, script)
		if o.Kind == "ok" && k.tok {
			readerOwnTok[string(o.Vals[0])] = readerOwn
		}
	}
	// ---- reads: every reading connection x every setting
	type read struct {
		conn string
		s    c02rpSetting
	}
	var reads []read
	for _, conn := range []string{reader, owner} { // the other identity first: the first violation reported is the reveal
		for _, s := range settings {
			reads = append(reads, read{conn, s})
		}
	}
	reads = append(reads, read{third, settings[1]}, read{c02rpNoKeys, settings[1]})
	if thorough {
		reads = append(reads, read{third, settings[0]}, read{third, settings[3]}, read{c02rpNoKeys, settings[0]})
	}
	hidden := c02rpHidden(&k, secret)
	judge := func(how string, rd read, got []byte, o vh.Outcome) {
		rep.OracleChecks++
		what := fmt.Sprintf("%s: connection %q reads through column %s (client_id %q): %s", how, rd.conn, rd.s.col, rd.s.cid, c01chainShort(o))
		extra := "stored=" + hex.EncodeToString(stored) + "\n" + what
		if o.Kind == "panic" {
			rep.Violate("readpath-panic", what, replay(extra))
			return
		}
		if rd.conn == owner {
			// the owner reads her data whatever client_id the setting names
			if o.Kind != "ok" || !bytes.Equal(got, secret) {
				rep.Violate("readpath-owner-cannot-read", "the connection of the identity the value is protected for did not get the plaintext; "+what, replay(extra))
			}
			return
		}
		if o.Kind != "ok" {
			return // failing is allowed by the property text
		}
		if c02rpLeaks(got, hidden, 6) {
			rep.Violate("readpath-cross-client-reveal", fmt.Sprintf("a connection of identity %q received plaintext protected for %q; ", rd.conn, owner)+what, replay(extra))
			return
		}
		// the stored protected form comes back unchanged (masked column: the masked view)
		want := stored
		if k.mask {
			if k.side == "left" {
				want = append(append([]byte{}, secret[:k.plen]...), k.pattern...)
			} else {
				want = append([]byte(k.pattern), secret[len(secret)-k.plen:]...)
			}
		}
		if own, ok := readerOwnTok[string(stored)]; ok && rd.conn == reader && bytes.Equal(got, own) {
			rep.Count("read:reader-got-its-own-value-for-the-same-token")
			return
		}
		if !bytes.Equal(got, want) {
			rep.Violate("readpath-not-unchanged", "another identity got neither the stored form unchanged nor (masked column) the masked view; "+what, replay(extra))
		}
	}
	for j, rd := range reads {
		role := "other"
		switch rd.conn {
		case owner:
			role = "owner"
		case c02rpNoKeys:
			role = "nokeys"
		}
		rep.Count("read:" + role + ":setting-client_id=" + map[string]string{"": "none", owner: "owner", reader: "reader", third: "third"}[rd.s.cid])
		my := (idx+j)%3 == 0
		o := sc.core(fmt.Sprintf("%s core conn=%s col=%s my=%v", lab, rd.conn, rd.s.col, my), rd.s, rd.conn, my, stored)
		if o.Kind == "ok" {
			judge("column subscribers", rd, o.Vals[0], o)
		} else {
			judge("column subscribers", rd, nil, o)
		}
		if (idx+j)%2 == 0 {
			o := sc.pg(fmt.Sprintf("%s pg-binary conn=%s col=%s", lab, rd.conn, rd.s.col), rd.s, rd.conn, true, stored)
			if o.Kind == "ok" {
				judge("onColumnDecryption (binary)", rd, o.Vals[0], o)
			} else {
				judge("onColumnDecryption (binary)", rd, nil, o)
			}
		} else {
			o := sc.pg(fmt.Sprintf("%s pg-text conn=%s col=%s", lab, rd.conn, rd.s.col), rd.s, rd.conn, false, c11oldHex(stored))
			if o.Kind == "ok" {
				judge("onColumnDecryption (text)", rd, c02rpUnhex(o.Vals[0]), o)
			} else {
				judge("onColumnDecryption (text)", rd, nil, o)
			}
		}
	}
}

// the part of the plaintext that is never shown to another identity
func c02rpHidden(k *c02rpKind, secret []byte) []byte {
	if !k.mask {
		return secret
	}
	if k.side == "left" {
		return secret[k.plen:]
	}
	return secret[:len(secret)-k.plen]
}
