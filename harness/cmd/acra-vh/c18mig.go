package main

// Domain c18mig (C18 extension): `acra-keys migrate` from keystore v1 to v2.
// A REAL keystore v1 in a fresh temporary directory (MigrateV1toV2 reads key files with os.Open, so an
// in-memory Storage cannot be used; only well-formed client ids are generated) is filled by generated
// histories (all key kinds, rotations, missing halves of key pairs) and migrated by the real
// keys.MigrateV1toV2 into a real keystore v2 (in-memory back end).  The file tree, the verdict and the
// resulting rings are replayed on Model/MigrateV2Ext.v; the oracle compares every key of every kind and
// owner through the typed getters of both keystores.

import (
	"bytes"
	"crypto/rand"
	"fmt"
	"os"
	"path/filepath"
	"sort"
	"strings"
	"time"

	"acra-vh/vh"

	migrate "github.com/cossacklabs/acra/cmd/acra-keys/keys"
	"github.com/cossacklabs/acra/keystore"
	"github.com/cossacklabs/acra/keystore/filesystem"
	keystoreV2 "github.com/cossacklabs/acra/keystore/v2/keystore"
	cryptoV2 "github.com/cossacklabs/acra/keystore/v2/keystore/crypto"
	fsV2 "github.com/cossacklabs/acra/keystore/v2/keystore/filesystem"
	"github.com/cossacklabs/acra/keystore/v2/keystore/filesystem/backend"
)

func init() { register("c18mig", "Model.RunKeyRingV2Ext", x18mRun) }

var x18mIDs = []string{"client_1", "client-two", "Client 3", "zzzzz", "a_storage", "b_hmac_x", "c_storage_sym", "user_pub"}

func x18mRun(rep *vh.Report, r *vh.Rng, n int, thorough bool) {
	time.Local = time.UTC
	for i := 0; i < n; i++ {
		x18mScenario(rep, r)
	}
}

// x18mKeys: everything the typed getters of a keystore offer for the given ids (values copied)
type x18mGetter interface {
	GetClientIDSymmetricKeys(id []byte) ([][]byte, error)
	GetHMACSecretKey(id []byte) ([]byte, error)
	GetPoisonSymmetricKeys() ([][]byte, error)
	GetLogSecretKey() ([]byte, error)
}

// x18mConstReader: a crypto/rand.Reader replacement that repeats one chunk
type x18mConstReader []byte

func (c x18mConstReader) Read(p []byte) (int, error) {
	for i := range p {
		p[i] = c[i%len(c)]
	}
	return len(p), nil
}

// clock values are inputs of the migration: they are normalised in the observation
var x18mTime = []byte("700101000000Z")

func x18mNormTimes(vals [][]byte) [][]byte {
	for i, v := range vals {
		if len(v) == 13 && v[12] == 'Z' {
			vals[i] = x18mTime
		}
	}
	return vals
}

func x18mCopy(b []byte) []byte { return append([]byte{}, b...) }

func x18mScenario(rep *vh.Report, r *vh.Rng) {
	dir, err := os.MkdirTemp("", "x18mig")
	if err != nil {
		panic(err)
	}
	defer os.RemoveAll(dir)
	dir, _ = filepath.EvalSymlinks(dir)
	m1, m2enc, m2sig := r.Bytes(32), r.Bytes(32), r.Bytes(32)
	enc, _ := keystore.NewSCellKeyEncryptor(m1)
	ks, err := filesystem.NewCustomFilesystemKeyStore().KeyDirectory(dir).Encryptor(enc).Build()
	if err != nil {
		panic(err)
	}
	tape := vh.StartTape(r)
	nids := 1 + r.Intn(3)
	var ids []string
	for len(ids) < nids {
		id := x18mIDs[r.Intn(len(x18mIDs))]
		dup := false
		for _, x := range ids {
			dup = dup || x == id
		}
		if !dup {
			ids = append(ids, id)
		}
	}
	rotate := r.Intn(3) == 0
	var hist []string
	rotated := false
	gen := func(name string, f func() error) {
		times := 1
		if rotate && r.Intn(2) == 0 {
			times = 2 + r.Intn(2)
			rotated = true
		}
		for i := 0; i < times; i++ {
			if err := f(); err != nil {
				hist = append(hist, name+"!"+err.Error())
				return
			}
			hist = append(hist, name)
			if times > 1 {
				time.Sleep(time.Millisecond) // distinct history file names
			}
		}
	}
	for _, id := range ids {
		idb := []byte(id)
		if r.Intn(4) != 0 {
			gen("GenSym("+id+")", func() error { return ks.GenerateClientIDSymmetricKey(idb) })
		}
		if r.Intn(3) != 0 {
			gen("GenHmac("+id+")", func() error { return ks.GenerateHmacKey(idb) })
		}
		if r.Intn(3) != 0 {
			gen("GenPair("+id+")", func() error { return ks.GenerateDataEncryptionKeys(idb) })
		}
	}
	if r.Intn(3) == 0 {
		gen("GenPoisonPair", ks.GeneratePoisonKeyPair)
	}
	if r.Intn(3) == 0 {
		gen("GenPoisonSym", ks.GeneratePoisonSymmetricKey)
	}
	if r.Intn(3) == 0 {
		gen("GenLogKey", ks.GenerateLogKey)
	}
	vh.StopTape()
	_ = tape
	if rotated {
		rep.Count("v1:rotated")
	} else {
		rep.Count("v1:no-history")
	}
	// half key pairs: one file of a storage key pair removed
	halfPriv, halfPub := "", ""
	if !rotated && r.Intn(5) == 0 {
		for _, id := range ids {
			p := filepath.Join(dir, id+"_storage")
			if _, err := os.Stat(p); err == nil {
				if r.Bool() {
					os.Remove(p)
					halfPub = id // only the public key is left
					rep.Count("v1:public-only-pair")
				} else {
					os.Remove(p + ".pub")
					halfPriv = id
					rep.Count("v1:private-only-pair")
				}
				hist = append(hist, "RemoveHalf("+id+")")
				break
			}
		}
	}
	ks.Reset()
	h := strings.Join(hist, "; ")
	// history files are named after the wall clock: rename them to fixed, order-preserving timestamps so
	// that the cases depend on the seed only
	filepath.Walk(dir, func(p string, fi os.FileInfo, err error) error {
		if err == nil && fi.IsDir() && strings.HasSuffix(p, ".old") {
			entries, _ := os.ReadDir(p)
			for i, e := range entries {
				os.Rename(filepath.Join(p, e.Name()), filepath.Join(p, fmt.Sprintf("2021-03-04T05:06:%02d.%09d", i, i+1)))
			}
		}
		return nil
	})

	// ---- the file tree as the migration sees it ----
	paths, err := ks.EnumerateExportedKeyPaths()
	if err != nil {
		panic(err)
	}
	var files []string
	for _, p := range paths {
		data, err := os.ReadFile(p)
		if err != nil {
			panic(err)
		}
		fi, _ := os.Stat(p)
		priv := "false"
		if !(fi.Mode().Perm() > os.FileMode(0600)) {
			priv = "true"
		}
		files = append(files, fmt.Sprintf("mk_xfile %s %s %s", vh.H([]byte(strings.TrimPrefix(p, dir))), x18H(data), priv))
	}

	// ---- the real migration ----
	suite, _ := cryptoV2.NewSCellSuite(m2enc, m2sig)
	rec := &x18Rec{Backend: backend.NewInMemory()}
	ks2raw, _ := fsV2.CustomKeyStore(rec, suite)
	s2 := keystoreV2.NewServerKeyStore(ks2raw)
	var merr error
	// Go iterates the classified keys in map order: give every encryption the same nonce so that the
	// observation does not depend on that order
	constNonce := r.Bytes(12)
	savedReader := rand.Reader
	rand.Reader = x18mConstReader(constNonce)
	o := vh.Guard(func() vh.Outcome { merr = migrate.MigrateV1toV2(ks, s2); return vh.Ok() })
	rand.Reader = savedReader
	rep.OracleChecks++
	if o.Kind == "panic" {
		rep.Violate("panic", "MigrateV1toV2 panicked: "+o.Msg, h)
		return
	}
	rings, _ := s2.ListKeyRings()
	sort.Strings(rings)
	st := &x18Store{rec: rec}
	okFlag := byte(0)
	if merr != nil {
		okFlag = 1
	}
	exp := [][]byte{{okFlag}}
	var aux, probes []string
	for _, ring := range rings {
		vals := x18mNormTimes(st.probe(ring))
		exp = append(exp, vals...)
		probes = append(probes, vh.H([]byte(ring)))
		data, _ := rec.Get(ring + fsV2.VerifKeyringSuffix())
		if kr, err := x18DecodeRingFile(data); err == nil && len(kr.Keys) > 0 {
			k := kr.Keys[0]
			nonce := []byte{}
			for _, d := range k.Data {
				for _, f := range [][]byte{d.PrivateKey, d.SymmetricKey} {
					if len(f) >= 28 {
						nonce = f[16:28]
					}
				}
			}
			aux = append(aux, fmt.Sprintf("(%s, (%s, %s, %s))", vh.H([]byte(ring)), vh.H(x18mTime), vh.H(x18mTime), vh.H(nonce)))
		}
	}
	// rings the model might create beyond those listed are probed too: ask for every purpose of every id
	extra := []string{"poison-record", "poison-record-sym", "audit-log"}
	for _, id := range ids {
		extra = append(extra, "client/"+id+"/storage", "client/"+id+"/storage-sym", "client/"+id+"/hmac-sym")
	}
	for _, e := range extra {
		found := false
		for _, ring := range rings {
			found = found || ring == e
		}
		if !found {
			exp = append(exp, []byte{0})
			probes = append(probes, vh.H([]byte(e)))
		}
	}
	rep.Add("kmigrate "+h, fmt.Sprintf("KMigrate %s %s [%s] [%s] [%s]", vh.H(m1), vh.H(m2enc), strings.Join(aux, "; "), strings.Join(files, "; "), strings.Join(probes, "; ")), vh.Ok(exp...))

	// ---- the property's oracle: every key of every kind / owner, rotated ones, order, current ----
	type cmp struct {
		what   string
		v1, v2 [][]byte
	}
	var cmps []cmp
	cur := func(l [][]byte) [][]byte {
		if len(l) == 0 {
			return nil
		}
		return l[:1]
	}
	cpl := func(l [][]byte, err error) [][]byte {
		if err != nil {
			return nil
		}
		var out [][]byte
		for _, b := range l {
			out = append(out, x18mCopy(b))
		}
		return out
	}
	one := func(b []byte, err error) [][]byte {
		if err != nil {
			return nil
		}
		return [][]byte{x18mCopy(b)}
	}
	for _, id := range ids {
		idb := []byte(id)
		cmps = append(cmps, cmp{"symmetric keys of " + id, cpl(ks.GetClientIDSymmetricKeys(idb)), cpl(s2.GetClientIDSymmetricKeys(idb))})
		cmps = append(cmps, cmp{"hmac key of " + id, one(ks.GetHMACSecretKey(idb)), one(s2.GetHMACSecretKey(idb))})
		var p1, p2 [][]byte
		if id != halfPub {
			if l, err := ks.GetServerDecryptionPrivateKeys(idb); err == nil {
				for _, k := range l {
					p1 = append(p1, x18mCopy(k.Value))
				}
			}
		}
		if l, err := s2.GetServerDecryptionPrivateKeys(idb); err == nil {
			for _, k := range l {
				p2 = append(p2, x18mCopy(k.Value))
			}
		}
		if id == halfPriv {
			p1 = nil // a private key without its public key cannot be represented in v2: must be refused
		}
		cmps = append(cmps, cmp{"private storage keys of " + id, p1, p2})
		var u1, u2 [][]byte
		if k, err := ks.GetClientIDEncryptionPublicKey(idb); err == nil {
			u1 = [][]byte{x18mCopy(k.Value)}
		}
		if k, err := s2.GetClientIDEncryptionPublicKey(idb); err == nil {
			u2 = [][]byte{x18mCopy(k.Value)}
		}
		cmps = append(cmps, cmp{"public storage key of " + id, u1, u2})
	}
	cmps = append(cmps, cmp{"poison symmetric keys", cpl(ks.GetPoisonSymmetricKeys()), cpl(s2.GetPoisonSymmetricKeys())})
	var pp1, pp2 [][]byte
	if l, err := ks.GetPoisonPrivateKeys(); err == nil {
		for _, k := range l {
			pp1 = append(pp1, x18mCopy(k.Value))
		}
	}
	if l, err := s2.GetPoisonPrivateKeys(); err == nil {
		for _, k := range l {
			pp2 = append(pp2, x18mCopy(k.Value))
		}
	}
	cmps = append(cmps, cmp{"poison private keys", pp1, pp2})
	cmps = append(cmps, cmp{"audit log key", one(ks.GetLogSecretKey()), one(s2.GetLogSecretKey())})
	ks.Reset()
	eq := func(a, b [][]byte) bool {
		if len(a) != len(b) {
			return false
		}
		for i := range a {
			if !bytes.Equal(a[i], b[i]) {
				return false
			}
		}
		return true
	}
	allEqual, currentEqual := true, true
	var firstDiff string
	for _, c := range cmps {
		rep.OracleChecks++
		if !eq(c.v1, c.v2) {
			allEqual = false
			if firstDiff == "" {
				firstDiff = fmt.Sprintf("%s: v1 %x, v2 %x", c.what, c.v1, c.v2)
			}
		}
		if !eq(cur(c.v1), cur(c.v2)) {
			currentEqual = false
		}
	}
	rep.OracleChecks++
	switch {
	case halfPriv != "":
		if merr == nil {
			rep.Violate("v1-migrate-half-pair-accepted", "a private key without public key was reported as migrated", h)
		}
		if !allEqual {
			rep.Violate("v1-migrate-differs", firstDiff, h)
		}
	case rotated && (merr != nil || !allEqual):
		// keystore v1 keeps rotated keys in <name>.old/<timestamp>; the classifier does not understand them
		if currentEqual && merr != nil {
			rep.Violate("v1-migrate-rotated-keys-not-carried", "rotated keys of the v1 keystore are not migrated (migration reports failure, current keys arrive): "+firstDiff, h)
		} else {
			rep.Violate("v1-migrate-differs", fmt.Sprintf("migration with history: err=%v, %s", merr, firstDiff), h)
		}
	case merr != nil:
		rep.Violate("v1-migrate-fails", "migration of a keystore without history failed: "+merr.Error(), h)
	case !allEqual:
		rep.Violate("v1-migrate-differs", firstDiff, h)
	}
	// nothing secret in clear in the target
	rep.OracleChecks++
	for _, c := range cmps {
		if strings.Contains(c.what, "public") {
			continue
		}
		for _, sec := range c.v1 {
			for _, put := range rec.puts {
				if len(sec) >= 16 && bytes.Contains(put.data, sec) {
					rep.Violate("secret-in-clear", "migration wrote plaintext key material to the v2 back end", h)
				}
			}
		}
	}
}
