package main

// Domain c14env (property C14, envelope-decoder part): "no input can crash a handler or make it
// consume unbounded resources".  Every decoder of the envelope layer is fed a malformed stream
// (random bytes at boundary lengths, header-field overwrites, truncations, tags followed by junk,
// nested/embedded envelopes) and ~15 % valid envelopes.  Oracle, evaluated on the real code only:
// no panic (outside the documented caller-side preconditions), no hang (5 s), output bounded by
// 16*len(input)+1024.  Every call is also recorded for replay on Model.RunEnvelopeChecked.

import (
	"bytes"
	"context"
	"encoding/binary"
	"encoding/hex"
	"errors"
	"fmt"
	"strings"
	"time"

	"acra-vh/vh"

	"github.com/cossacklabs/acra/acrablock"
	"github.com/cossacklabs/acra/acrastruct"
	"github.com/cossacklabs/acra/crypto"
	"github.com/cossacklabs/acra/decryptor/base"
	"github.com/cossacklabs/acra/hmac"
	"github.com/cossacklabs/themis/gothemis/keys"
)

func init() { register("c14env", "Model.RunEnvelopeChecked", runC14Env) }

// ---------- test processor / callback (pmode of Model/RunEnvelopeChecked.v) ----------

type pmKind int

const (
	pmID pmKind = iota
	pmConst
	pmErr
	pmDecErr
	pmTail
)

var pmNames = []string{"PmId", "PmConst", "PmErr", "PmDecErr", "PmTail"}

type pmode struct {
	kind pmKind
	b    []byte
}

func (p pmode) Coq() string {
	if p.kind == pmConst {
		return "(PmConst " + vh.H(p.b) + ")"
	}
	return pmNames[p.kind]
}

func (p pmode) apply(x []byte) ([]byte, error) {
	switch p.kind {
	case pmID:
		return x, nil
	case pmConst:
		return append([]byte{}, p.b...), nil
	case pmErr:
		return nil, errors.New("x")
	case pmDecErr:
		return nil, crypto.ErrDecryptionError
	}
	if len(x) == 0 {
		return []byte{}, nil
	}
	return append([]byte{}, x[1:]...), nil
}

// acrastruct.Processor, acrablock.Processor, crypto.EnvelopeCallbackHandler
func (p pmode) OnAcraStruct(_ context.Context, s []byte) ([]byte, error) { return p.apply(s) }
func (p pmode) OnAcraBlock(_ context.Context, b acrablock.AcraBlock) ([]byte, error) {
	return p.apply(b)
}
func (p pmode) OnCryptoEnvelope(_ context.Context, c []byte) ([]byte, error) { return p.apply(c) }
func (p pmode) ID() string                                                   { return "c14env test callback" }

var (
	_ acrastruct.Processor           = pmode{}
	_ acrablock.Processor            = pmode{}
	_ crypto.EnvelopeCallbackHandler = pmode{}
)

// ---------- small helpers ----------

func i8(n int) []byte    { b := make([]byte, 8); binary.LittleEndian.PutUint64(b, uint64(n)); return b }
func u8(n uint64) []byte { b := make([]byte, 8); binary.LittleEndian.PutUint64(b, n); return b }
func cpb(b []byte) []byte {
	c := make([]byte, len(b)) // cap == len
	copy(c, b)
	return c
}
func c14Cat(bs ...[]byte) []byte {
	var out []byte
	for _, b := range bs {
		out = append(out, b...)
	}
	return cpb(out)
}
func c14HexList(bs [][]byte) string {
	parts := make([]string, len(bs))
	for i, b := range bs {
		parts[i] = hex.EncodeToString(b)
	}
	return "[" + strings.Join(parts, ",") + "]"
}

const (
	fAS = iota
	fAB
	fSC
	fHash
)

var fmtNames = []string{"acrastruct", "acrablock", "container", "hash"}

var families = [][]string{
	fAS:   {"AsDataLen", "AsValidate", "AsExtract", "AsDecrypt", "PAS", "MatchOld"},
	fAB:   {"AbExtract", "AbKeyLen", "AbKeyId", "AbDecrypt", "PAB", "MatchOld"},
	fSC:   {"ScValidate", "ScLen", "ScDeserialize", "ScExtract", "DecHandler", "Process", "OnColumn", "OnColumnCb"},
	fHash: {"ExtractHash", "ExtractHashData"},
}

var allOps = []string{"AsDataLen", "ScValidate", "AbExtract", "ExtractHash", "AsValidate", "ScLen", "AbKeyLen", "OnColumn",
	"AsExtract", "MatchOld", "AbKeyId", "ExtractHashData", "AsDecrypt", "ScDeserialize", "AbDecrypt", "OnColumnCb",
	"PAS", "ScExtract", "PAB", "DecHandler", "Process"}

var wrapOps = []string{"Process", "DecHandler", "OnColumn", "ScDeserialize", "ScExtract", "OnColumnCb"}

// ---------- the runner ----------

type c14 struct {
	rep *vh.Report
	r   *vh.Rng
	e   *EnvOps
	ks  *vh.KeySet
	// deterministic rotation counters (so that every decoder sees every mutant class over a run)
	rotFam, rotAll, rotWrap, rotValid, rotID int
}

// guardT runs f under vh.Guard in a goroutine with a 5 s timeout.
func (c *c14) guardT(fn string, in []byte, f func() vh.Outcome) vh.Outcome {
	ch := make(chan vh.Outcome, 1)
	go func() { ch <- vh.Guard(f) }()
	t := time.NewTimer(5 * time.Second)
	defer t.Stop()
	select {
	case o := <-ch:
		return o
	case <-t.C:
		c.rep.Violate("hang:"+fn, fn+" did not return within 5 s", fn+" input="+hex.EncodeToString(in))
		return vh.Outcome{Kind: "panic", Msg: "timeout"}
	}
}

// oracle: pre = the documented caller-side precondition of fn holds for this input.
func (c *c14) oracle(fn string, inLen int, replay string, o vh.Outcome, pre bool) {
	c.rep.OracleChecks++
	if o.Kind == "panic" {
		if o.Msg == "timeout" {
			return // reported as hang:<fn>
		}
		if pre {
			c.rep.Violate("panic:"+fn, fn+" panicked: "+o.Msg, replay)
		} else {
			c.rep.Count("xpanic-outside-precondition:" + fn)
		}
		return
	}
	total := 0
	for _, v := range o.Vals {
		total += len(v)
	}
	if total > 16*inLen+1024 {
		c.rep.Violate("alloc:"+fn, fmt.Sprintf("%s returned %d bytes for %d input bytes", fn, total, inLen), replay)
	}
}

// own: an op executed and recorded here.
func (c *c14) own(label, fn, term string, in []byte, extra string, inLen int, pre bool, f func() vh.Outcome) vh.Outcome {
	o := c.guardT(fn, in, f)
	c.rep.Add(label+" "+fn, term, o)
	c.oracle(fn, inLen, fn+" input="+hex.EncodeToString(in)+extra, o, pre)
	return o
}

// viaEnv: an op executed and recorded by EnvOps (envops.go); f returns its outcome.
func (c *c14) viaEnv(fn string, in []byte, extra string, f func() vh.Outcome) vh.Outcome {
	o := c.guardT(fn, in, f)
	c.oracle(fn, len(in), fn+" input="+hex.EncodeToString(in)+extra, o, true)
	return o
}

func (c *c14) genPmode() pmode {
	var p pmode
	switch c.r.Intn(10) {
	case 0, 1, 2:
		p = pmode{kind: pmID}
	case 3:
		p = pmode{kind: pmConst, b: []byte{}}
		c.rep.Count("pmconst:empty")
	case 4:
		p = pmode{kind: pmConst, b: c.r.Bytes(1 + c.r.Intn(8))}
		c.rep.Count("pmconst:short")
	case 5:
		p = pmode{kind: pmConst, b: c.r.Bytes(100 + c.r.Intn(200))}
		c.rep.Count("pmconst:long")
	case 6:
		p = pmode{kind: pmErr}
	case 7:
		p = pmode{kind: pmDecErr}
	default:
		p = pmode{kind: pmTail}
	}
	c.rep.Count("pm:" + pmNames[p.kind])
	return p
}

func (c *c14) genOutb(n int) []byte {
	switch c.r.Intn(6) {
	case 0:
		c.rep.Count("outb:empty")
		return []byte{}
	case 1:
		c.rep.Count("outb:shorter")
		return c.r.Bytes(c.r.Intn(n + 1))
	case 2:
		c.rep.Count("outb:longer")
		return c.r.Bytes(n + 1 + c.r.Intn(16))
	}
	c.rep.Count("outb:make(len(in))")
	return make([]byte, n)
}

func (c *c14) privs() [][]byte {
	var p [][]byte
	for i := range c.ks.Seeds {
		p = append(p, c.ks.Priv(i))
	}
	return p
}

// run feeds data to one decoder op.
func (c *c14) run(op, label string, data []byte) vh.Outcome {
	d := cpb(data)
	hd := vh.H(data)
	c.rep.Count(fmt.Sprintf("inlen:%d", bucket(len(data))))
	switch op {
	case "AsDataLen":
		return c.own(label, "GetDataLengthFromAcraStruct", "AsDataLen "+hd, data, "", len(data),
			len(data) >= acrastruct.GetMinAcraStructLength(),
			func() vh.Outcome { return vh.Ok(i8(acrastruct.GetDataLengthFromAcraStruct(d))) })
	case "AsValidate":
		return c.own(label, "ValidateAcraStructLength", "AsValidate "+hd, data, "", len(data), true, func() vh.Outcome {
			if err := acrastruct.ValidateAcraStructLength(d); err != nil {
				return vh.ErrO(err)
			}
			return vh.Ok()
		})
	case "AsExtract":
		return c.own(label, "ExtractAcraStruct", "AsExtract "+hd, data, "", len(data), true, func() vh.Outcome {
			n, s, err := acrastruct.ExtractAcraStruct(d)
			if err != nil {
				return vh.ErrO(err)
			}
			return vh.Ok(i8(n), s)
		})
	case "AsDecrypt":
		p := c.privs()
		return c.viaEnv("DecryptAcrastruct", data, " privs="+c14HexList(p)+" ctx=", func() vh.Outcome {
			return c.e.AsDecrypt(label+" DecryptRotatedAcrastruct", data, p, nil)
		})
	case "PAS", "PAB":
		pm := c.genPmode()
		outb := c.genOutb(len(data))
		ob := cpb(outb)
		fn := "ProcessAcraStructs"
		if op == "PAB" {
			fn = "ProcessAcraBlocks"
		}
		term := fmt.Sprintf("%s %s %s %s", op, pm.Coq(), hd, vh.H(outb))
		extra := fmt.Sprintf(" outBuffer=%s processor=%s", hex.EncodeToString(outb), pm.Coq())
		return c.own(label, fn, term, data, extra, len(data)+len(outb)+len(pm.b), true, func() vh.Outcome {
			if op == "PAS" {
				return one(acrastruct.ProcessAcraStructs(context.Background(), d, ob, pm))
			}
			return one(acrablock.ProcessAcraBlocks(context.Background(), d, ob, pm))
		})
	case "AbExtract":
		return c.viaEnv("ExtractAcraBlockFromData", data, "", func() vh.Outcome {
			return c.e.AbExtract(label+" ExtractAcraBlockFromData", data)
		})
	case "AbKeyLen":
		return c.own(label, "AcraBlock.EncryptedDataEncryptionKeyLength", "AbKeyLen "+hd, data, "", len(data),
			len(data) >= acrablock.AcraBlockMinSize,
			func() vh.Outcome { return vh.Ok(i8(acrablock.AcraBlock(d).EncryptedDataEncryptionKeyLength())) })
	case "AbKeyId":
		return c.own(label, "AcraBlock.getKeyEncryptionKeyID", "AbKeyId "+hd, data, "", len(data), true, func() vh.Outcome {
			id, err := acrablock.VerifGetKeyEncryptionKeyID(d)
			if err != nil {
				return vh.ErrO(err)
			}
			return vh.Ok(id)
		})
	case "AbDecrypt":
		return c.viaEnv("AcraBlock.Decrypt", data, " keys="+c14HexList(c.ks.Syms)+" ctx=", func() vh.Outcome {
			return c.e.AbDecrypt(label+" AcraBlock.Decrypt", data, c.ks.Syms, nil)
		})
	case "ScValidate":
		return c.own(label, "validateSerializedContainer", "ScValidate "+hd, data, "", len(data), true, func() vh.Outcome {
			id, err := crypto.VerifValidateSerializedContainer(d)
			if err != nil {
				return vh.ErrO(err)
			}
			return vh.Ok([]byte{id})
		})
	case "ScLen":
		return c.own(label, "getSerializedContainerLength", "ScLen "+hd, data, "", len(data),
			len(data) > crypto.SerializedContainerMinSize, func() vh.Outcome {
				n, err := crypto.VerifGetSerializedContainerLength(d)
				if err != nil {
					return vh.ErrO(err)
				}
				return vh.Ok(u8(n))
			})
	case "MatchOld":
		return c.own(label, "matchOldContainer", "MatchOld "+hd, data, "", len(data), true, func() vh.Outcome {
			id, n, err := crypto.VerifMatchOldContainer(d)
			if err != nil {
				return vh.ErrO(err)
			}
			return vh.Ok([]byte{id}, i8(n))
		})
	case "ScDeserialize":
		return c.viaEnv("DeserializeEncryptedData", data, "", func() vh.Outcome {
			return c.e.ScDeserialize(label+" DeserializeEncryptedData", data)
		})
	case "ScExtract":
		return c.viaEnv("ExtractSerializedContainer", data, "", func() vh.Outcome {
			return c.e.ScExtract(label+" ExtractSerializedContainer", data)
		})
	case "DecHandler":
		id := byte(crypto.AcraStructEnvelopeID)
		if c.rotID++; c.rotID%2 == 0 {
			id = crypto.AcraBlockEnvelopeID
		}
		c.rep.Count(fmt.Sprintf("handler:%02x", id))
		return c.viaEnv("RegistryHandler.DecryptWithHandler", data, fmt.Sprintf(" handler=%02x keyset=%s", id, c.ks.Coq()), func() vh.Outcome {
			return c.e.DecHandler(label+" RegistryHandler.DecryptWithHandler", id, c.ks, data)
		})
	case "Process":
		return c.viaEnv("RegistryHandler.Process", data, " keyset="+c.ks.Coq(), func() vh.Outcome {
			return c.e.Process(label+" RegistryHandler.Process", c.ks, data)
		})
	case "OnColumn":
		return c.viaEnv("EnvelopeDetector.OnColumn", data, " keyset="+c.ks.Coq(), func() vh.Outcome {
			return c.e.OnColumn(label+" EnvelopeDetector.OnColumn", c.ks, data)
		})
	case "OnColumnCb":
		k := 1 + c.r.Intn(3)
		c.rep.Count(fmt.Sprintf("callbacks:%d", k))
		var pms []pmode
		var terms []string
		extraLen := 0
		for i := 0; i < k; i++ {
			pm := c.genPmode()
			pms = append(pms, pm)
			terms = append(terms, pm.Coq())
			extraLen += len(pm.b)
		}
		lst := "[" + strings.Join(terms, "; ") + "]"
		return c.own(label, "EnvelopeDetector.OnColumn", "OnColumnCb "+lst+" "+hd, data, " callbacks="+lst, len(data)+extraLen, true, func() vh.Outcome {
			det := crypto.NewEnvelopeDetector()
			for _, pm := range pms {
				det.AddCallback(pm)
			}
			ctx, out, err := det.OnColumn(context.Background(), d)
			if err != nil {
				return vh.ErrO(err)
			}
			f := byte(0)
			if base.IsDecryptedFromContext(ctx) {
				f = 1
			}
			return vh.Ok(out, []byte{f})
		})
	case "ExtractHash":
		return c.own(label, "ExtractHash", "ExtractHash "+hd, data, "", len(data), true, func() vh.Outcome {
			h := hmac.ExtractHash(d)
			if h == nil {
				return vh.ErrO(errors.New("nil"))
			}
			return vh.Ok(h.Marshal())
		})
	case "ExtractHashData":
		return c.own(label, "ExtractHashAndData", "ExtractHashData "+hd, data, "", len(data), true, func() vh.Outcome {
			h, rest := hmac.ExtractHashAndData(d)
			if h == nil {
				return vh.ErrO(errors.New("nil"))
			}
			return vh.Ok(h.Marshal(), rest)
		})
	}
	panic("c14env: unknown op " + op)
}

// ---------- valid envelopes of one scenario ----------

type envSet struct {
	plain            []byte
	as, ab, cas, cab []byte
}

func mustB(b []byte, err error) []byte {
	if err != nil {
		panic(err)
	}
	return b
}

func (c *c14) build(maxPlain int) *envSet {
	es := &envSet{plain: c.r.Bytes(1 + c.r.Intn(maxPlain))}
	vh.StartTape(c.r)
	defer vh.StopTape()
	es.as = mustB(acrastruct.CreateAcrastruct(cpb(es.plain), &keys.PublicKey{Value: c.ks.Pub(0)}, nil))
	es.ab = mustB(acrablock.CreateAcraBlock(cpb(es.plain), cpb(c.ks.Syms[0]), nil))
	es.cas = mustB(crypto.SerializeEncryptedData(es.as, crypto.AcraStructEnvelopeID))
	es.cab = mustB(crypto.SerializeEncryptedData(es.ab, crypto.AcraBlockEnvelopeID))
	return es
}

func (es *envSet) byFmt(f int, alt bool) []byte {
	switch f {
	case fAS:
		return es.as
	case fAB:
		return es.ab
	}
	if alt {
		return es.cas
	}
	return es.cab
}

// ---------- (b) header-field overwrite table ----------

type hfield struct {
	name  string
	fmt   int
	off   int
	width int
	ops   []string // every decoder that reads the field
}

var hfields = []hfield{
	{"as.datalen", fAS, 0, 8, []string{"AsDataLen", "AsValidate", "AsExtract", "AsDecrypt", "PAS", "MatchOld"}},
	{"ab.restlen", fAB, acrablock.RestAcraBlockLengthPosition, 8, []string{"AbExtract", "PAB", "MatchOld"}},
	{"ab.keylen", fAB, acrablock.DataEncryptionKeyLengthPosition, 2, []string{"AbKeyLen", "AbDecrypt"}},
	{"ab.kektype", fAB, acrablock.KeyEncryptionKeyTypePosition, 1, []string{"AbExtract", "AbDecrypt", "PAB", "MatchOld"}},
	{"ab.datatype", fAB, acrablock.DataEncryptionTypePosition, 1, []string{"AbExtract", "AbDecrypt", "PAB", "MatchOld"}},
	{"sc.length", fSC, crypto.TagBeginSize, 8, []string{"ScLen", "ScDeserialize", "ScExtract", "DecHandler", "Process", "OnColumn", "OnColumnCb"}},
	{"sc.envid", fSC, crypto.TagBeginSize + crypto.SerializedContainerLengthSize, 1, []string{"ScValidate", "ScDeserialize", "ScExtract", "DecHandler", "Process", "OnColumn", "OnColumnCb"}},
}

type vkind int

const (
	v0 vkind = iota
	v1
	vSmall
	vTrueM1
	vTrue
	vTrueP1
	vTotM1
	vTot
	vTotP1
	v2p31
	v2p32
	vHalfM1 // 2^(bits-1)-1  (2^63-1 for the 64-bit fields)
	vHalf   // 2^(bits-1)    (2^63)
	vMaxM3  // 2^bits-4      (2^64-4)
	vMax    // 2^bits-1      (2^64-1, 0xffff, 0xff)
	vOtherID
	vWrapA  // 2^(bits-1)-146: int(v)+145 just below the int overflow
	vWrapB  // 2^(bits-1)-145: int(v)+145 wraps to the most negative int
	vWrapC  // 2^(bits-1)-20
	vMaxM11 // 2^bits-12: uint64 subtraction of the 12-byte container header wraps
	vMaxM12
)

var vNames = []string{"0", "1", "small", "true-1", "true", "true+1", "total-1", "total", "total+1", "2^31", "2^32",
	"half-1", "half", "max-3", "max", "other-envelope-id", "half-146", "half-145", "half-20", "max-11", "max-12"}

var vByWidth = map[int][]vkind{
	8: {v0, v1, vSmall, vTrueM1, vTrue, vTrueP1, vTotM1, vTot, vTotP1, v2p31, v2p32, vHalfM1, vHalf, vMaxM3, vMax},
	2: {v0, v1, vSmall, vTrueM1, vTrue, vTrueP1, vTotM1, vTot, vTotP1, vHalfM1, vHalf, vMaxM3, vMax},
	1: {v0, v1, vSmall, vTrueP1, vTot, vHalfM1, vHalf, vMaxM3, vMax, vOtherID},
}

type hentry struct {
	f int // index in hfields
	v vkind
}

var htable []hentry

func init() {
	hfields[0].off = acrastruct.GetMinAcraStructLength() - acrastruct.DataLengthSize
	for fi, f := range hfields {
		for _, v := range vByWidth[f.width] {
			htable = append(htable, hentry{fi, v})
		}
	}
}

func readField(b []byte, off, width int) uint64 {
	var v uint64
	for i := width - 1; i >= 0; i-- {
		v = v<<8 | uint64(b[off+i])
	}
	return v
}

func writeField(b []byte, off, width int, v uint64) {
	for i := 0; i < width; i++ {
		b[off+i] = byte(v >> (8 * uint(i)))
	}
}

// headerMutant applies table entry idx to the scenario's valid envelope of the field's format.
func (c *c14) headerMutant(es *envSet, idx int, alt bool) (hfield, []byte, string) {
	he := htable[idx%len(htable)]
	f := hfields[he.f]
	basev := cpb(es.byFmt(f.fmt, alt))
	tv := readField(basev, f.off, f.width)
	tot := uint64(len(basev))
	bits := uint(8 * f.width)
	var v uint64
	switch he.v {
	case v0:
		v = 0
	case v1:
		v = 1
	case vSmall:
		v = uint64(2 + c.r.Intn(16))
	case vTrueM1:
		v = tv - 1
	case vTrue:
		v = tv
	case vTrueP1:
		v = tv + 1
	case vTotM1:
		v = tot - 1
	case vTot:
		v = tot
	case vTotP1:
		v = tot + 1
	case v2p31:
		v = 1 << 31
	case v2p32:
		v = 1 << 32
	case vHalfM1:
		v = 1<<(bits-1) - 1
	case vHalf:
		v = 1 << (bits - 1)
	case vMaxM3:
		v = ^uint64(0) - 3
	case vMax:
		v = ^uint64(0)
	case vWrapA:
		v = 1<<(bits-1) - 146
	case vWrapB:
		v = 1<<(bits-1) - 145
	case vWrapC:
		v = 1<<(bits-1) - 20
	case vMaxM11:
		v = ^uint64(0) - 11
	case vMaxM12:
		v = ^uint64(0) - 12
	case vOtherID:
		v = uint64(crypto.AcraStructEnvelopeID)
		if tv == v {
			v = uint64(crypto.AcraBlockEnvelopeID)
		}
	}
	writeField(basev, f.off, f.width, v)
	c.rep.Count("field:" + f.name)
	c.rep.Count("value:" + vNames[he.v])
	return f, basev, fmt.Sprintf("header %s=%s", f.name, vNames[he.v])
}

// wrapID: the envelope id a mutant of format f is wrapped with
func wrapID(f int) byte {
	if f == fAB {
		return crypto.AcraBlockEnvelopeID
	}
	return crypto.AcraStructEnvelopeID
}

func serialize(b []byte, id byte) []byte {
	if len(b) == 0 {
		return append(append(append([]byte{}, crypto.TagBegin...), u8(uint64(crypto.SerializedContainerMinSize))...), id)
	}
	return mustB(crypto.SerializeEncryptedData(cpb(b), id))
}

// ---------- (a) random bytes ----------

var c14Lens = []int{0, 1, 2, 3, 4, 7, 8, 11, 12, 13, 14, 17, 18, 19, 20, 32, 33, 34, 75, 76, 77, 136, 137, 138, 144, 145, 146}

func tagOf(f int) []byte {
	switch f {
	case fAS:
		return acrastruct.TagBegin
	case fAB:
		return acrastruct.TagBegin[:acrablock.TagBeginSize]
	case fSC:
		return crypto.TagBegin
	}
	return []byte{0x7f}
}

func (c *c14) randomMutant(f int) ([]byte, string) {
	var n int
	if c.r.Intn(3) != 0 {
		n = c14Lens[c.r.Intn(len(c14Lens))]
		c.rep.Count("random:boundary-length")
	} else {
		n = c.r.Intn(200)
		c.rep.Count("random:random-length")
	}
	var b []byte
	fill := "random"
	switch c.r.Intn(6) {
	case 0:
		b = make([]byte, n)
		fill = "zeros"
	case 1:
		b = bytes.Repeat([]byte{0xff}, n)
		fill = "ff"
	default:
		b = c.r.Bytes(n)
	}
	if c.r.Intn(3) == 0 { // begin with the tag of the targeted format so that the deeper checks are reached
		copy(b, tagOf(f))
		fill += "+tag"
	}
	c.rep.Count("random:" + fill)
	return b, fmt.Sprintf("random(%s) len=%d", fill, n)
}

// ---------- (c) truncation ----------

func truncOffsets(f int, es *envSet, env []byte) []int {
	var offs []int
	n := len(env)
	switch f {
	case fAS:
		p, k, m := acrastruct.PublicKeyLength, acrastruct.KeyBlockLength, acrastruct.GetMinAcraStructLength()
		offs = []int{0, 1, 7, 8, 9, 8 + p - 1, 8 + p, 8 + p + 1, 8 + k - 1, 8 + k, 8 + k + 1, m - 1, m, m + 1, n - 1}
	case fAB:
		kl := acrablock.AcraBlock(env).EncryptedDataEncryptionKeyLength()
		m := acrablock.AcraBlockMinSize
		offs = []int{0, 1, 3, 4, 5, 8, 11, 12, 13, 14, 15, 16, 17, 18, 19, 20, 21, m + kl - 1, m + kl, m + kl + 1, n - 1}
	default:
		m := crypto.SerializedContainerMinSize
		offs = []int{0, 1, 2, 3, 4, 10, 11, 12, 13, 14, m + 4, m + 8, m + 12, m + 16, m + 19, m + 20, m + 21, n - 1}
		if bytes.Equal(env, es.cas) {
			a := acrastruct.GetMinAcraStructLength()
			offs = append(offs, m+a-8, m+a-1, m+a, m+a+1)
		}
	}
	var ok []int
	for _, o := range offs {
		if o >= 0 && o <= n {
			ok = append(ok, o)
		}
	}
	return ok
}

func (c *c14) truncMutant(f int, es *envSet) ([]byte, string) {
	env := es.byFmt(f, c.r.Bool())
	offs := truncOffsets(f, es, env)
	o := offs[c.r.Intn(len(offs))]
	b := cpb(env[:o])
	junk := 0
	if c.r.Intn(3) == 0 {
		junk = 1 + c.r.Intn(8)
		b = c14Cat(b, c.r.Bytes(junk))
		c.rep.Count("trunc:with-junk")
	}
	c.rep.Count("trunc:" + fmtNames[f])
	return b, fmt.Sprintf("truncate %s at %d of %d junk=%d", fmtNames[f], o, len(env), junk)
}

// ---------- (d) tags followed by junk ----------

func (c *c14) tagMutant(i int) (int, []byte, string) {
	q, p := byte(acrastruct.TagSymbol), byte(crypto.TagSymbol)
	junk := c.r.Bytes(c.r.Intn(41))
	var b []byte
	var f int
	var what string
	switch i % 10 {
	case 0:
		f, b, what = fAS, c14Cat(bytes.Repeat([]byte{q}, 8), junk), "as-tag+junk"
	case 1:
		f, b, what = fAB, c14Cat(bytes.Repeat([]byte{q}, 4), junk), "ab-tag+junk"
	case 2:
		f, b, what = fSC, c14Cat(bytes.Repeat([]byte{p}, 3), junk), "sc-tag+junk"
	case 3:
		f, b, what = fSC, bytes.Repeat([]byte{p}, 30), "30-percent"
	case 4:
		f, b, what = fAS, bytes.Repeat([]byte{q}, 40), "40-quotes"
	case 5:
		f, b, what = fAB, bytes.Repeat([]byte{q}, 40), "40-quotes"
	case 6: // AcraStruct tag and a whole header worth of junk, so that the length field is read
		f, b, what = fAS, c14Cat(bytes.Repeat([]byte{q}, 8), c.r.Bytes(137+c.r.Intn(24))), "as-tag+header-junk"
	case 7: // container tag, plausible length and id, junk
		id := byte(crypto.AcraStructEnvelopeID)
		if c.r.Bool() {
			id = crypto.AcraBlockEnvelopeID
		}
		f, b, what = fSC, c14Cat(crypto.TagBegin, u8(uint64(12+len(junk))), []byte{id}, junk), "sc-header+junk"
	case 8: // AcraBlock tag, plausible rest length, known backends, junk
		f, b, what = fAB, c14Cat(bytes.Repeat([]byte{q}, 4), u8(uint64(16+len(junk))), []byte{0, 1, 2, 0, byte(c.r.Intn(48)), 0}, junk), "ab-header+junk"
	default:
		f, b, what = fHash, c14Cat([]byte{0x7f}, c.r.Bytes(28+c.r.Intn(9))), "hash-tag+junk"
	}
	c.rep.Count("tagjunk:" + what)
	return f, b, "tag+junk " + what
}

// ---------- (e) nested / embedded ----------

func (c *c14) affix() []byte {
	switch c.r.Intn(4) {
	case 0:
		return bytes.Repeat([]byte{crypto.TagSymbol}, 1+c.r.Intn(3))
	case 1:
		return bytes.Repeat([]byte{acrastruct.TagSymbol}, 1+c.r.Intn(8))
	}
	return c.r.Bytes(1 + c.r.Intn(10))
}

func (c *c14) nestedMutant(i int, es *envSet) (int, []byte, string) {
	var b []byte
	var f int
	var what string
	asID, abID := byte(crypto.AcraStructEnvelopeID), byte(crypto.AcraBlockEnvelopeID)
	switch i % 11 {
	case 0:
		f, b, what = fSC, c14Cat(c.affix(), es.cab, c.affix()), "container-in-junk"
	case 1:
		f, b, what = fSC, c14Cat(es.cab, es.cab), "two-containers"
	case 2:
		f, b, what = fSC, serialize(es.cab, abID), "container-in-container"
	case 3: // first container declares a length that covers the second one
		x := c14Cat(es.cab, es.cab)
		writeField(x, crypto.TagBeginSize, 8, uint64(len(x)))
		f, b, what = fSC, x, "length-covers-next-container"
	case 4:
		f, b, what = fAS, c14Cat(c.affix(), es.as, c.affix()), "old-acrastruct-in-column"
	case 5:
		f, b, what = fAB, c14Cat(c.affix(), es.ab, c.affix()), "old-acrablock-in-column"
	case 6:
		f, b, what = fSC, serialize(es.ab, asID), "acrablock-with-acrastruct-id"
	case 7:
		f, b, what = fSC, serialize(es.as, abID), "acrastruct-with-acrablock-id"
	case 8:
		f, b, what = fAB, c14Cat(es.ab, es.ab), "two-acrablocks"
	case 9: // block inside the data part of another block's length
		x := c14Cat(es.ab, es.ab)
		writeField(x, acrablock.RestAcraBlockLengthPosition, 8, uint64(len(x)-acrablock.TagBeginSize))
		f, b, what = fAB, x, "restlen-covers-next-acrablock"
	default: // container prefix glued to an old-format envelope
		f, b, what = fSC, c14Cat(crypto.TagBegin, es.ab, c.affix(), es.cab[:13]), "tag+old-acrablock+container-head"
	}
	c.rep.Count("nested:" + what)
	return f, b, "nested " + what
}

// ---------- feeding ----------

// feedFamily: k rotating ops of the mutant's family plus `foreign` rotating ops of the whole list.
func (c *c14) feedFamily(label string, f int, data []byte, k, foreign int) {
	fam := families[f]
	if k > len(fam) {
		foreign += k - len(fam)
		k = len(fam)
	}
	for i := 0; i < k; i++ {
		c.run(fam[(c.rotFam+i)%len(fam)], label, data)
	}
	c.rotFam += k
	for i := 0; i < foreign; i++ {
		c.run(allOps[c.rotAll%len(allOps)], label+" (foreign)", data)
		c.rotAll++
	}
}

func (c *c14) feedWrapped(label string, f int, data []byte) {
	if f != fAS && f != fAB {
		return
	}
	op := wrapOps[c.rotWrap%len(wrapOps)]
	c.rotWrap++
	c.rep.Count("wrapped-in-container")
	c.run(op, label+" wrapped", serialize(data, wrapID(f)))
}

// valid: the scenario's unmodified envelopes on the decoder they belong to (expected ok).
func (c *c14) valid(label string, es *envSet) {
	pre, suf := c.r.Bytes(c.r.Intn(6)), c.r.Bytes(c.r.Intn(6))
	type vc struct {
		op   string
		data []byte
	}
	h := c14Cat([]byte{0x7f}, c.r.Bytes(32), c.r.Bytes(c.r.Intn(8)))
	cases := []vc{
		{"AsValidate", es.as}, {"AbExtract", c14Cat(es.ab, suf)}, {"ScDeserialize", es.cas}, {"ExtractHashData", h},
		{"AsExtract", c14Cat(es.as, suf)}, {"AbDecrypt", es.ab}, {"ScExtract", c14Cat(es.cab, suf)}, {"OnColumn", c14Cat(pre, es.cab, suf)},
		{"AsDecrypt", es.as}, {"PAB", c14Cat(pre, es.ab, suf)}, {"Process", es.cab}, {"OnColumnCb", c14Cat(pre, es.cab, suf)},
		{"PAS", c14Cat(pre, es.as, suf)}, {"AbKeyLen", es.ab}, {"DecHandler", es.cab}, {"MatchOld", es.as},
		{"AsDataLen", es.as}, {"AbKeyId", es.ab}, {"ScValidate", es.cab}, {"ScLen", es.cas}, {"MatchOld", es.ab},
		{"Process", es.ab}, {"ExtractHash", h}, {"Process", es.cas}, {"OnColumn", c14Cat(pre, es.cas)},
	}
	v := cases[c.rotValid%len(cases)]
	c.rotValid++
	c.rep.Count("valid-envelope")
	c.run(v.op, label+" valid", v.data)
}

func runC14Env(rep *vh.Report, r *vh.Rng, n int, thorough bool) {
	c := &c14{rep: rep, r: r, e: &EnvOps{rep, r}}
	tOff := r.Intn(len(htable))
	for sc := 0; sc < n; sc++ {
		c.ks = vh.NewKeySet(r, 1+r.Intn(2), 1+r.Intn(2), true)
		es := c.build(40)
		lab := fmt.Sprintf("sc%d", sc)

		// (b) two header-field mutants: the first goes to every decoder that reads the field (and, wrapped
		// in a container, to one container-level decoder), the second to two of them
		f1, m1, w1 := c.headerMutant(es, tOff+2*sc, r.Bool())
		rep.Count("class:header")
		for _, op := range f1.ops {
			c.run(op, lab+" "+w1, m1)
		}
		c.feedWrapped(lab+" "+w1, f1.fmt, m1)
		f2, m2, w2 := c.headerMutant(es, tOff+2*sc+1, r.Bool())
		rep.Count("class:header")
		for i := 0; i < 2; i++ {
			c.run(f2.ops[(sc+i)%len(f2.ops)], lab+" "+w2, m2)
		}

		// one mutant of the classes (a) random, (c) truncation, (d) tag+junk, (e) nested
		var f int
		var m []byte
		var w string
		switch sc % 4 {
		case 0:
			f = (sc / 4) % 4
			m, w = c.randomMutant(f)
			rep.Count("class:random")
		case 1:
			f = (sc / 4) % 3
			m, w = c.truncMutant(f, es)
			rep.Count("class:truncation")
		case 2:
			f, m, w = c.tagMutant(sc/4 + r.Intn(2)*5)
			rep.Count("class:tag+junk")
		default:
			f, m, w = c.nestedMutant(sc/4+r.Intn(3), es)
			rep.Count("class:nested")
		}
		rep.Count("fmt:" + fmtNames[f])
		c.feedFamily(lab+" "+w, f, m, 3, 1)
		if sc%4 == 3 || sc%8 == 1 {
			c.feedWrapped(lab+" "+w, f, m)
		}

		// ~15 % valid
		c.valid(lab, es)
		if sc%2 == 0 {
			c.valid(lab, es)
		}

		if sc == 0 {
			c.wrapSweep(lab, es)
		}
		if thorough {
			c.thoroughSweep(lab, sc, es)
		}
	}
}

// wrapSweep: integer wrap-around values of every 64-bit length field through EVERY decoder that reads it
// (deterministic, once per run): the sums len+header / len-header must not wrap into an accepted range.
func (c *c14) wrapSweep(lab string, es *envSet) {
	wrapVals := []vkind{vHalfM1, vHalf, vWrapA, vWrapB, vWrapC, vMaxM3, vMax, vMaxM11, vMaxM12}
	for fi, f := range hfields {
		if f.width != 8 {
			continue
		}
		for _, v := range wrapVals {
			save := htable
			htable = []hentry{{fi, v}}
			for _, alt := range []bool{false, true} {
				_, m, w := c.headerMutant(es, 0, alt)
				for _, op := range f.ops {
					c.rep.Count("class:header(wrap-sweep)")
					c.run(op, lab+" wrap "+w, m)
					// the same mutant followed by junk, so that scanners have bytes after the header
					c.run(op, lab+" wrap+junk "+w, c14Cat(m, c.r.Bytes(3)))
				}
			}
			htable = save
		}
	}
}

// thoroughSweep: a quarter of the complete (field x value) table and every 16th truncation offset of
// one of the scenario's envelopes per scenario (one decoder each), so that any 16 consecutive scenarios
// cover the complete table four times and every offset 0..len of every format.
func (c *c14) thoroughSweep(lab string, sc int, es *envSet) {
	q := (len(htable) + 3) / 4
	for i := 0; i < q; i++ {
		idx := (sc%4)*q + i
		if idx >= len(htable) {
			break
		}
		f, m, w := c.headerMutant(es, idx, (sc/4)%2 == 0)
		c.rep.Count("class:header(thorough)")
		c.run(f.ops[(sc/4+i)%len(f.ops)], lab+" sweep "+w, m)
	}
	f := sc % 4
	env := es.byFmt(f%3, f == 3)
	ff := f % 3
	for o := sc / 4 % 16; o <= len(env); o += 16 {
		c.rep.Count("class:truncation(thorough)")
		fam := families[ff]
		c.run(fam[(o/16+sc)%len(fam)], fmt.Sprintf("%s sweep truncate %s at %d of %d", lab, fmtNames[ff], o, len(env)), env[:o])
	}
}
