package main

// C13_statements: trees the grammar CANNOT build (sub-trees of one accepted statement moved into slots of another by
// a reflect walk, parentheses removed): the model's wf must answer false exactly when Go does not round-trip
// them, and the model's parser must give what Go's Parse gives for their printed text.

import (
	"reflect"

	"github.com/cossacklabs/acra/sqlparser"
)

var c13sIfaces = []reflect.Type{
	reflect.TypeOf((*sqlparser.Expr)(nil)).Elem(),
	reflect.TypeOf((*sqlparser.TableExpr)(nil)).Elem(),
	reflect.TypeOf((*sqlparser.SelectStatement)(nil)).Elem(),
	reflect.TypeOf((*sqlparser.SelectExpr)(nil)).Elem(),
	reflect.TypeOf((*sqlparser.InsertRows)(nil)).Elem(),
}

func c13sIsSlotType(t reflect.Type) bool {
	for _, i := range c13sIfaces {
		if t == i {
			return true
		}
	}
	return false
}

// c13sSlots: every settable interface-typed position (Expr, TableExpr, SelectStatement, SelectExpr, InsertRows) below root
func c13sSlots(root interface{}) []reflect.Value {
	var out []reflect.Value
	var walk func(v reflect.Value, depth int)
	walk = func(v reflect.Value, depth int) {
		if depth > 60 {
			return
		}
		switch v.Kind() {
		case reflect.Interface:
			if v.IsNil() {
				return
			}
			if v.CanSet() && c13sIsSlotType(v.Type()) {
				out = append(out, v)
			}
			walk(v.Elem(), depth+1)
		case reflect.Ptr:
			if !v.IsNil() {
				walk(v.Elem(), depth+1)
			}
		case reflect.Struct:
			if v.Type().PkgPath() != "" && !stringsHasSuffix(v.Type().PkgPath(), "/sqlparser") {
				return
			}
			for i := 0; i < v.NumField(); i++ {
				if v.Type().Field(i).PkgPath == "" { // exported
					walk(v.Field(i), depth+1)
				}
			}
		case reflect.Slice:
			if v.Type().Elem().Kind() == reflect.Uint8 {
				return
			}
			for i := 0; i < v.Len(); i++ {
				walk(v.Index(i), depth+1)
			}
		}
	}
	walk(reflect.ValueOf(root), 0)
	return out
}

func stringsHasSuffix(s, suf string) bool { return len(s) >= len(suf) && s[len(s)-len(suf):] == suf }

// opWild: move a sub-tree of statement b into a slot of statement a (both freshly parsed), or strip parentheses.
func (c *c13s) opWild(a, b string) bool {
	ta, err, pan := c.parse(a)
	if err != nil || pan != "" || ta == nil {
		return false
	}
	tb, err, pan := c.parse(b)
	if err != nil || pan != "" || tb == nil {
		return false
	}
	slots := c13sSlots(ta)
	donors := c13sSlots(tb)
	if len(slots) == 0 || len(donors) == 0 {
		return false
	}
	for try := 0; try < 20; try++ {
		s := slots[c.r.Intn(len(slots))]
		if c.r.Intn(5) == 0 { // strip a ParenExpr / ParenSelect in place
			switch p := s.Interface().(type) {
			case *sqlparser.ParenExpr:
				s.Set(reflect.ValueOf(p.Expr))
				c.rep.Count("wild:strip-paren-expr")
				return c.opRound(ta, "wild")
			case *sqlparser.ParenSelect:
				if s.Type() == reflect.TypeOf((*sqlparser.SelectStatement)(nil)).Elem() {
					s.Set(reflect.ValueOf(p.Select))
					c.rep.Count("wild:strip-paren-select")
					return c.opRound(ta, "wild")
				}
			}
			continue
		}
		d := donors[c.r.Intn(len(donors))]
		if d.IsNil() || !d.Elem().Type().AssignableTo(s.Type()) {
			continue
		}
		switch d.Interface().(type) { // mostly inner nodes: leaves rarely make a tree the grammar cannot build
		case *sqlparser.SQLVal, *sqlparser.ColName, *sqlparser.NullVal, sqlparser.BoolVal, *sqlparser.StarExpr:
			if c.r.Intn(4) != 0 {
				continue
			}
		}
		s.Set(d.Elem())
		c.rep.Count("wild:" + goType(d.Interface()) + "-into-" + s.Type().Name())
		return c.opRound(ta, "wild")
	}
	return false
}
