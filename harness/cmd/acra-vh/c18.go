package main

// Domain c18: exported keys import to an identical keystore and stay confidential in transit.
// REAL KeyBackuper.Export/Import of keystore v1 (recording in-memory Storage) and of keystore v2
// (in-memory backends) on generated keystore histories.

import (
	"bytes"
	"encoding/gob"
	"fmt"
	"path/filepath"
	"sort"
	"strings"

	"acra-vh/vh"
	"acra-vh/vhks"

	"github.com/cossacklabs/acra/keystore"
	"github.com/cossacklabs/acra/keystore/filesystem"
	keystoreV2 "github.com/cossacklabs/acra/keystore/v2/keystore"
	"github.com/cossacklabs/acra/keystore/v2/keystore/asn1"
	cryptoV2 "github.com/cossacklabs/acra/keystore/v2/keystore/crypto"
	fsV2 "github.com/cossacklabs/acra/keystore/v2/keystore/filesystem"
	"github.com/cossacklabs/acra/keystore/v2/keystore/filesystem/backend"
	"github.com/cossacklabs/themis/gothemis/core"
)

func init() { register("c18", "Model.RunKeystore", runC18) }

func runC18(rep *vh.Report, r *vh.Rng, n int, thorough bool) {
	for i := 0; i < n; i++ {
		c18V1(rep, r, thorough)
		if i%2 == 0 {
			c18V2(rep, r, thorough)
		}
	}
	// name classification of KeyBackuper (isPrivate / getContextFromFilename) on simple names
	for i := 0; i < n; i++ {
		id := goodIDs[r.Intn(len(goodIDs))]
		name := id + []string{"_hmac", "_storage", "_storage_sym", "_storage.pub", "_server", "_translator", "", ".pub", "_hmac.old", "_storage.pub.old", "_sym", "_zone"}[r.Intn(12)]
		kc := filesystem.VerifContextFromFilename(name)
		fl := []byte{0}
		if filesystem.VerifIsPrivate(name) {
			fl[0] = 1
		}
		rep.Add("ctxfromname "+name, "CtxFromName "+vh.H([]byte(name)), vh.Ok(fl, keystore.GetKeyContextFromContext(kc)))
	}
}

type keyView struct {
	syms  [][]byte
	hmac  []byte
	privs [][]byte
	pub   []byte
}

type keyGetter interface {
	GetClientIDSymmetricKeys(id []byte) ([][]byte, error)
	GetHMACSecretKey(id []byte) ([]byte, error)
	GetClientIDEncryptionPublicKey(id []byte) (*coreKeysPublic, error)
}

func flipOne(r *vh.Rng, b []byte, i int) []byte {
	d := append([]byte{}, b...)
	d[i] ^= byte(1 << uint(r.Intn(8)))
	return d
}

func fsSnapshot(m *vhks.MemFS) string {
	var sb strings.Builder
	for _, p := range m.Files() {
		fmt.Fprintf(&sb, "%s=%x;", p, m.Peek(p))
	}
	return sb.String()
}

// ---------------- v1 ----------------
func c18V1(rep *vh.Report, r *vh.Rng, thorough bool) {
	srcMaster, dstMaster := r.Bytes(32), r.Bytes(32)
	src := vhks.NewMemFS()
	rig, err := newV1Rig(r, srcMaster, src, 1000)
	if err != nil {
		return
	}
	defer vh.StopTape()
	ids := []string{goodIDs[r.Intn(len(goodIDs))], goodIDs[r.Intn(len(goodIDs))]}
	var hist []string
	var secrets [][]byte
	for i := 0; i < 3+r.Intn(6); i++ {
		id := []byte(ids[r.Intn(2)])
		t0 := len(rig.tape.Chunks)
		switch r.Intn(3) {
		case 0:
			hist = append(hist, fmt.Sprintf("GenSym(%s)=%v", id, rig.ks.GenerateClientIDSymmetricKey(id)))
			secrets = append(secrets, rig.tape.Chunks[t0])
		case 1:
			hist = append(hist, fmt.Sprintf("GenHmac(%s)=%v", id, rig.ks.GenerateHmacKey(id)))
			secrets = append(secrets, rig.tape.Chunks[t0])
		case 2:
			hist = append(hist, fmt.Sprintf("GenPair(%s)=%v", id, rig.ks.GenerateDataEncryptionKeys(id)))
			p, _ := core.KeyPair(rig.tape.Chunks[t0])
			secrets = append(secrets, p, rig.tape.Chunks[t0])
		}
	}
	rig.ks.Reset()
	srcEnc, _ := keystore.NewSCellKeyEncryptor(srcMaster)
	bk, _ := filesystem.NewKeyBackuper(v1Dir, "", src, srcEnc, rig.ks)

	// selection: explicit ids (current keys only) or the whole store
	var sel []keystore.ExportID
	mode := keystore.ExportAllKeys
	whole := r.Intn(3) == 0
	type want struct {
		kind string
		id   string
		val  []byte
	}
	var wants []want
	if whole {
		rep.Count("v1export:whole")
		mode = []keystore.ExportMode{keystore.ExportAllKeys, keystore.ExportPrivateKeys}[r.Intn(2)]
	} else {
		rep.Count("v1export:selection")
		for _, id := range ids {
			for _, kind := range []string{keystore.KeySymmetric, keystore.KeySearch, keystore.KeyStoragePrivate, keystore.KeyStoragePublic} {
				if r.Intn(2) == 0 {
					continue
				}
				var v []byte
				var e error
				switch kind {
				case keystore.KeySymmetric:
					v, e = rig.ks.GetClientIDSymmetricKey([]byte(id))
				case keystore.KeySearch:
					v, e = rig.ks.GetHMACSecretKey([]byte(id))
				case keystore.KeyStoragePrivate:
					var k interface{}
					_ = k
					pk, e2 := rig.ks.GetServerDecryptionPrivateKey([]byte(id))
					e = e2
					if e2 == nil {
						v = pk.Value
					}
				case keystore.KeyStoragePublic:
					pk, e2 := rig.ks.GetClientIDEncryptionPublicKey([]byte(id))
					e = e2
					if e2 == nil {
						v = pk.Value
					}
				}
				if e != nil {
					continue // key does not exist: selecting it makes Export fail as a whole (not the property)
				}
				sel = append(sel, keystore.ExportID{KeyKind: kind, ContextID: []byte(id)})
				wants = append(wants, want{kind, id, append([]byte{}, v...)})
			}
		}
		if len(sel) == 0 {
			return
		}
	}
	h := strings.Join(hist, "; ") + fmt.Sprintf("; Export(sel=%v, mode=%d)", sel, mode)
	// what the source offers (whole-store comparison)
	view := func(ks *filesystem.KeyStore, id string) (out [][]byte) {
		ks.Reset()
		cp := func(b []byte) []byte { return append([]byte{}, b...) }
		if l, err := ks.GetClientIDSymmetricKeys([]byte(id)); err == nil {
			out = append(out, []byte("syms"))
			for _, k := range l {
				out = append(out, cp(k))
			}
		}
		if k, err := ks.GetHMACSecretKey([]byte(id)); err == nil {
			out = append(out, []byte("hmac"), cp(k))
		}
		if l, err := ks.GetServerDecryptionPrivateKeys([]byte(id)); err == nil {
			out = append(out, []byte("privs"))
			for _, k := range l {
				out = append(out, cp(k.Value))
			}
		}
		if mode == keystore.ExportAllKeys {
			if k, err := ks.GetClientIDEncryptionPublicKey([]byte(id)); err == nil {
				out = append(out, []byte("pub"), cp(k.Value))
			}
		}
		return out
	}
	srcView := map[string][][]byte{}
	if whole {
		for _, id := range ids {
			srcView[id] = view(rig.ks, id)
		}
	}
	t0 := len(rig.tape.Chunks)
	var backup *keystore.KeysBackup
	o := vh.Guard(func() vh.Outcome {
		var err error
		backup, err = bk.Export(sel, mode)
		if err != nil {
			return vh.ErrO(err)
		}
		return vh.Ok(nil)
	})
	rep.OracleChecks++
	if o.Kind != "ok" {
		rep.Violate("v1-export-fails", "export of existing keys failed: "+o.Kind+" "+o.Msg, h)
		return
	}
	expTape := rig.tape.Chunks[t0:]
	// verifyPublicKey draws too (key pair + nonce) for public keys: the last two chunks are access key and nonce
	if len(expTape) < 2 {
		return
	}
	access, nonce := expTape[len(expTape)-2], expTape[len(expTape)-1]
	gobBytes, ok := core.SealDec(backup.Keys, nil, backup.Data)
	rep.OracleChecks++
	if !ok {
		rep.Violate("v1-bundle-not-sealed", "bundle data is not a seal under the access key", h)
		return
	}
	rep.Add("b1export "+h, fmt.Sprintf("B1Export %s %s", vh.HL([][]byte{access, nonce}), vh.H(gobBytes)), vh.Ok(backup.Keys, backup.Data))
	// ---- oracle: bundle_sealed ----
	rep.OracleChecks++
	for _, s := range secrets {
		if bytes.Contains(backup.Data, s) {
			rep.Violate("secret-in-clear", "key material in clear in the v1 bundle", h)
		}
	}
	var keysDecoded []*keystore.Key
	if err := gob.NewDecoder(bytes.NewReader(gobBytes)).Decode(&keysDecoded); err != nil {
		rep.Violate("v1-bundle-undecodable", err.Error(), h)
		return
	}
	vh.StopTape()

	// ---- targets: empty and non-empty ----
	for _, nonEmpty := range []bool{false, true} {
		dst := vhks.NewMemFS()
		drig, err := newV1Rig(r, dstMaster, dst, 1000)
		if err != nil {
			return
		}
		other := "other_id"
		if nonEmpty {
			rep.Count("v1target:non-empty")
			drig.ks.GenerateClientIDSymmetricKey([]byte(other))
			drig.ks.GenerateHmacKey([]byte(ids[0]))
			drig.ks.Reset()
		} else {
			rep.Count("v1target:empty")
		}
		var otherBefore []byte
		if nonEmpty {
			otherBefore, _ = drig.ks.GetClientIDSymmetricKey([]byte(other))
			drig.ks.Reset()
		}
		dstEnc, _ := keystore.NewSCellKeyEncryptor(dstMaster)
		dbk, _ := filesystem.NewKeyBackuper(v1Dir, "", dst, dstEnc, drig.ks)
		// rejected imports first: modified bundle / wrong access keys leave the target unchanged
		snap := fsSnapshot(dst)
		step := 13
		if thorough {
			step = 1
		}
		tryReject := func(what string, b *keystore.KeysBackup) {
			var err error
			oo := vh.Guard(func() vh.Outcome { _, err = dbk.Import(b); return vh.Ok(nil) })
			rep.OracleChecks++
			rep.Count("v1flip")
			if oo.Kind == "panic" {
				rep.Violate("panic", "Import panicked: "+oo.Msg, h+"; "+what)
			} else if err == nil {
				rep.Violate("v1-modified-bundle-accepted", what+" was imported", h)
			}
			if fsSnapshot(dst) != snap {
				rep.Violate("v1-rejected-import-changed-target", what+": target changed by a rejected import", h)
				snap = fsSnapshot(dst)
			}
		}
		for i := r.Intn(step); i < len(backup.Data); i += step {
			tryReject(fmt.Sprintf("bundle with byte %d modified", i), &keystore.KeysBackup{Keys: backup.Keys, Data: flipOne(r, backup.Data, i)})
		}
		for i := r.Intn(5); i < len(backup.Keys); i += 5 {
			tryReject(fmt.Sprintf("access key with byte %d modified", i), &keystore.KeysBackup{Keys: flipOne(r, backup.Keys, i), Data: backup.Data})
		}
		if !nonEmpty {
			// one rejected case replayed on the model
			bad := flipOne(r, backup.Data, r.Intn(len(backup.Data)))
			rep.Add("b1import-modified", fmt.Sprintf("B1Import %s %s [] %s %s []", vh.H(dstMaster), vh.H([]byte(v1Dir)), vh.H(backup.Keys), vh.H(bad)), vh.Outcome{Kind: "err"})
		}
		// the honest import
		e0, t1 := len(dst.Events), len(drig.tape.Chunks)
		var ierr error
		oo := vh.Guard(func() vh.Outcome {
			_, ierr = dbk.Import(&keystore.KeysBackup{Keys: backup.Keys, Data: backup.Data})
			return vh.Ok(nil)
		})
		rep.OracleChecks++
		if oo.Kind == "panic" || ierr != nil {
			rep.Violate("v1-import-fails", fmt.Sprintf("import of an untouched bundle failed: %v %s", ierr, oo.Msg), h)
			vh.StopTape()
			continue
		}
		var evs [][]byte
		for _, e := range dst.Events[e0:] {
			if e.Op == "write" {
				evs = append(evs, []byte{0}, []byte(e.Path), e.Data)
			}
		}
		var coqKeys []string
		for _, k := range keysDecoded {
			hint := "None"
			if strings.Contains(k.Name, "/") {
				kc := filesystem.VerifContextFromFilename(k.Name)
				hint = fmt.Sprintf("(Some (%s, %s))", vhks.CoqBool(filesystem.VerifIsPrivate(k.Name)), vh.H(keystore.GetKeyContextFromContext(kc)))
			}
			coqKeys = append(coqKeys, fmt.Sprintf("mk_bkey %s %s %s", vh.H([]byte(k.Name)), vh.H(k.Content), hint))
		}
		rep.Add("b1import "+h, fmt.Sprintf("B1Import %s %s %s %s %s [%s]", vh.H(dstMaster), vh.H([]byte(v1Dir)), vh.HL(drig.tape.Chunks[t1:]), vh.H(backup.Keys), vh.H(backup.Data), strings.Join(coqKeys, "; ")), vh.Ok(evs...))
		drig.ks.Reset()
		// ---- oracle: import_export_identity ----
		for _, w := range wants {
			var got []byte
			var e error
			switch w.kind {
			case keystore.KeySymmetric:
				got, e = drig.ks.GetClientIDSymmetricKey([]byte(w.id))
			case keystore.KeySearch:
				got, e = drig.ks.GetHMACSecretKey([]byte(w.id))
			case keystore.KeyStoragePrivate:
				pk, e2 := drig.ks.GetServerDecryptionPrivateKey([]byte(w.id))
				e = e2
				if e2 == nil {
					got = pk.Value
				}
			case keystore.KeyStoragePublic:
				pk, e2 := drig.ks.GetClientIDEncryptionPublicKey([]byte(w.id))
				e = e2
				if e2 == nil {
					got = pk.Value
				}
			}
			rep.OracleChecks++
			if e != nil || !bytes.Equal(got, w.val) {
				class := "v1-import-differs"
				if e == nil && len(got) > 0 && bytes.Equal(got, make([]byte, len(got))) {
					class = "v1-export-zeroized-key"
				}
				rep.Violate(class, fmt.Sprintf("selected key %s of %q: exported %x, target has %x (err %v)", w.kind, w.id, w.val, got, e), h)
			}
		}
		if whole {
			for _, id := range ids {
				got := view(drig.ks, id)
				rep.OracleChecks++
				if !nonEmptyConflict(nonEmpty, id, ids[0]) && fmt.Sprintf("%x", got) != fmt.Sprintf("%x", srcView[id]) {
					rep.Violate("v1-import-differs", fmt.Sprintf("whole-store export/import: keys of %q differ (values, order or history): source %x target %x", id, srcView[id], got), h)
				}
			}
		}
		if nonEmpty {
			drig.ks.Reset()
			after, _ := drig.ks.GetClientIDSymmetricKey([]byte(other))
			rep.OracleChecks++
			if !bytes.Equal(after, otherBefore) {
				rep.Violate("v1-import-clobbers-unrelated", "a key of an unrelated id changed by import", h)
			}
		}
		vh.StopTape()
	}
}

// in a non-empty target the hmac key of ids[0] pre-exists: its history legitimately differs
func nonEmptyConflict(nonEmpty bool, id, first string) bool { return nonEmpty && id == first }

type coreKeysPublic struct{}

// ---------------- v2 ----------------
type v2store struct {
	mem *backend.InMemory
	s   *keystoreV2.ServerKeyStore
}

func newV2(encKey, sigKey []byte) *v2store {
	suite, _ := cryptoV2.NewSCellSuite(encKey, sigKey)
	mem := backend.NewInMemory()
	ks, _ := fsV2.CustomKeyStore(mem, suite)
	return &v2store{mem, keystoreV2.NewServerKeyStore(ks)}
}
func (v *v2store) snapshot() string {
	paths, _ := v.mem.ListAll()
	sort.Strings(paths)
	var sb strings.Builder
	for _, p := range paths {
		d, _ := v.mem.Get(p)
		fmt.Fprintf(&sb, "%s=%x;", p, d)
	}
	return sb.String()
}
func (v *v2store) view(id string, withPriv bool) (out [][]byte) {
	if withPriv {
		if l, err := v.s.GetClientIDSymmetricKeys([]byte(id)); err == nil {
			out = append(out, []byte("syms"))
			out = append(out, l...)
		}
		if k, err := v.s.GetClientIDSymmetricKey([]byte(id)); err == nil {
			out = append(out, []byte("cursym"), k)
		}
		if k, err := v.s.GetHMACSecretKey([]byte(id)); err == nil {
			out = append(out, []byte("hmac"), k)
		}
		if l, err := v.s.GetServerDecryptionPrivateKeys([]byte(id)); err == nil {
			out = append(out, []byte("privs"))
			for _, k := range l {
				out = append(out, k.Value)
			}
		}
	}
	if k, err := v.s.GetClientIDEncryptionPublicKey([]byte(id)); err == nil {
		out = append(out, []byte("pub"), k.Value)
	}
	return out
}

func c18V2(rep *vh.Report, r *vh.Rng, thorough bool) {
	src := newV2(r.Bytes(32), r.Bytes(32))
	tape := vh.StartTape(r)
	defer vh.StopTape()
	ids := []string{goodIDs[r.Intn(len(goodIDs))], goodIDs[r.Intn(len(goodIDs))]}
	var hist []string
	var secrets [][]byte
	for i := 0; i < 3+r.Intn(6); i++ {
		id := []byte(ids[r.Intn(2)])
		t0 := len(tape.Chunks)
		switch r.Intn(3) {
		case 0:
			hist = append(hist, fmt.Sprintf("GenSym(%s)=%v", id, src.s.GenerateClientIDSymmetricKey(id)))
		case 1:
			hist = append(hist, fmt.Sprintf("GenHmac(%s)=%v", id, src.s.GenerateHmacKey(id)))
		case 2:
			hist = append(hist, fmt.Sprintf("GenPair(%s)=%v", id, src.s.GenerateDataEncryptionKeys(id)))
			p, _ := core.KeyPair(tape.Chunks[t0])
			secrets = append(secrets, p)
		}
		secrets = append(secrets, tape.Chunks[t0])
	}
	whole := r.Intn(2) == 0
	mode := keystore.ExportPrivateKeys
	var sel []keystore.ExportID
	selIDs := map[string]bool{}
	if whole {
		mode = keystore.ExportAllKeys
		rep.Count("v2export:whole")
	} else {
		rep.Count("v2export:selection")
		if r.Intn(4) == 0 {
			mode = keystore.ExportPublicOnly
			rep.Count("v2export:public-only")
		}
		rings, _ := src.s.ListKeyRings()
		for _, ring := range rings {
			parts := strings.Split(ring, "/")
			if len(parts) != 3 || r.Intn(3) == 0 {
				continue
			}
			kind := map[string]string{"storage": keystore.KeyStoragePrivate, "storage-sym": keystore.KeySymmetric, "hmac-sym": keystore.KeySearch}[parts[2]]
			if kind == "" || (mode == keystore.ExportPublicOnly && kind != keystore.KeyStoragePrivate) {
				continue
			}
			sel = append(sel, keystore.ExportID{KeyKind: kind, ContextID: []byte(parts[1])})
			selIDs[ring] = true
		}
		if len(sel) == 0 {
			return
		}
	}
	h := strings.Join(hist, "; ") + fmt.Sprintf("; Export(sel=%v, mode=%d)", sel, mode)
	bk, _ := keystoreV2.NewKeyBackuper("", "", src.s)
	var backup *keystore.KeysBackup
	o := vh.Guard(func() vh.Outcome {
		var err error
		backup, err = bk.Export(sel, mode)
		if err != nil {
			return vh.ErrO(err)
		}
		return vh.Ok(nil)
	})
	vh.StopTape()
	rep.OracleChecks++
	if o.Kind != "ok" {
		rep.Violate("v2-export-fails", "export of existing key rings failed: "+o.Kind+" "+o.Msg, h)
		return
	}
	// ---- bundle_sealed ----
	rep.OracleChecks++
	if mode != keystore.ExportPublicOnly {
		for _, s := range secrets {
			if bytes.Contains(backup.Data, s) {
				rep.Violate("secret-in-clear", "key material in clear in the v2 bundle", h)
			}
		}
	}
	// ---- model: seal + signature of the bundle ----
	access := &keystoreV2.SerializedKeys{}
	if err := access.Unmarshal(backup.Keys); err != nil {
		return
	}
	if cont, err := asn1.UnmarshalVerifiedContainer(backup.Data); err == nil {
		var encBytes []byte
		if _, err := encodingUnmarshalOctets(cont.Payload.Data.FullBytes, &encBytes); err == nil {
			if ser, ok := core.SealDec(access.Encryption, fsV2.VerifExportKeyContext(), encBytes); ok {
				var sigs [][2][]byte
				for _, sg := range cont.Signatures {
					sigs = append(sigs, [2][]byte{[]byte(sg.Algorithm.String()), sg.Signature})
				}
				hasSecret := []byte{0}
				for _, sct := range secrets {
					if bytes.Contains(ser, sct) {
						hasSecret[0] = 1
					}
				}
				if whole && len(secrets) > 0 {
					rep.Add("v2mode", fmt.Sprintf("V2ExportsPrivate %d", int(mode)), vh.Ok(hasSecret))
				}
				rep.Add("b2seal", fmt.Sprintf("B2Seal %s %s %s", vh.H(access.Encryption), vh.H(encBytes[16:28]), vh.H(ser)), vh.Ok(encBytes))
				rep.Add("b2open", fmt.Sprintf("B2Open %s %s %s %s %s", vh.H(access.Signature), vh.H(access.Encryption), vh.H([]byte(cont.Payload.RawContent)), vh.H(encBytes), vhks.CoqPairs(sigs)), vh.Ok(ser))
				wrong := flipOne(r, access.Signature, r.Intn(len(access.Signature)))
				rep.Add("b2open-wrong-key", fmt.Sprintf("B2Open %s %s %s %s %s", vh.H(wrong), vh.H(access.Encryption), vh.H([]byte(cont.Payload.RawContent)), vh.H(encBytes), vhks.CoqPairs(sigs)), vh.Outcome{Kind: "err"})
			} else {
				rep.Violate("v2-bundle-not-sealed", "bundle payload is not a seal under the access encryption key with the export context", h)
			}
		}
	}
	for _, nonEmpty := range []bool{false, true} {
		dst := newV2(r.Bytes(32), r.Bytes(32))
		other := "other_id"
		var otherBefore [][]byte
		if nonEmpty {
			rep.Count("v2target:non-empty")
			dst.s.GenerateClientIDSymmetricKey([]byte(other))
			otherBefore = dst.view(other, true)
		} else {
			rep.Count("v2target:empty")
		}
		dbk, _ := keystoreV2.NewKeyBackuper("", "", dst.s)
		snap := dst.snapshot()
		step := 17
		if thorough {
			step = 1
		}
		tryReject := func(what string, b *keystore.KeysBackup) {
			var err error
			oo := vh.Guard(func() vh.Outcome { _, err = dbk.Import(b); return vh.Ok(nil) })
			rep.OracleChecks++
			rep.Count("v2flip")
			if oo.Kind == "panic" {
				rep.Violate("panic", "v2 Import panicked: "+oo.Msg, h+"; "+what)
			} else if err == nil {
				rep.Violate("v2-modified-bundle-accepted", what+" was imported", h)
			}
			if s2 := dst.snapshot(); s2 != snap {
				rep.Violate("v2-rejected-import-changed-target", what+": target changed by a rejected import", h)
				snap = s2
			}
		}
		for i := r.Intn(step); i < len(backup.Data); i += step {
			tryReject(fmt.Sprintf("bundle with byte %d modified", i), &keystore.KeysBackup{Keys: backup.Keys, Data: flipOne(r, backup.Data, i)})
		}
		// access keys: flip inside the decoded key material (the JSON/base64 wrapper has slack bits)
		for _, which := range []int{0, 1} {
			for i := r.Intn(7); i < 32; i += 7 {
				bad := &keystoreV2.SerializedKeys{Encryption: access.Encryption, Signature: access.Signature}
				if which == 0 {
					bad.Encryption = flipOne(r, access.Encryption, i)
				} else {
					bad.Signature = flipOne(r, access.Signature, i)
				}
				kb, _ := bad.Marshal()
				tryReject(fmt.Sprintf("access key %d with byte %d modified", which, i), &keystore.KeysBackup{Keys: kb, Data: backup.Data})
			}
		}
		var ierr error
		oo := vh.Guard(func() vh.Outcome {
			_, ierr = dbk.Import(&keystore.KeysBackup{Keys: backup.Keys, Data: backup.Data})
			return vh.Ok(nil)
		})
		rep.OracleChecks++
		if oo.Kind == "panic" || ierr != nil {
			rep.Violate("v2-import-fails", fmt.Sprintf("import of an untouched bundle failed: %v %s", ierr, oo.Msg), h)
			continue
		}
		// ---- import_export_identity: values, order, current marker per exported ring ----
		for _, id := range ids {
			full := whole
			if !whole {
				// only rings selected: compare ring by ring through the typed getters
				full = false
			}
			sv, dv := src.view(id, mode != keystore.ExportPublicOnly), dst.view(id, mode != keystore.ExportPublicOnly)
			rep.OracleChecks++
			if full {
				if fmt.Sprintf("%x", sv) != fmt.Sprintf("%x", dv) {
					class := "v2-import-differs"
					if mode == keystore.ExportAllKeys && fmt.Sprintf("%x", src.view(id, false)) == fmt.Sprintf("%x", dst.view(id, false)) {
						class = "v2-export-all-omits-private" // public parts arrived, private/symmetric ones were left out
					}
					rep.Violate(class, fmt.Sprintf("keys of %q differ after whole-store export/import: source %x target %x", id, sv, dv), h)
				}
				continue
			}
			for ring := range selIDs {
				parts := strings.Split(ring, "/")
				if parts[1] != id {
					continue
				}
				var a, b [][]byte
				switch parts[2] {
				case "storage-sym":
					a, _ = src.s.GetClientIDSymmetricKeys([]byte(id))
					b, _ = dst.s.GetClientIDSymmetricKeys([]byte(id))
					ca, _ := src.s.GetClientIDSymmetricKey([]byte(id))
					cb, _ := dst.s.GetClientIDSymmetricKey([]byte(id))
					a, b = append(a, ca), append(b, cb)
				case "hmac-sym":
					ka, _ := src.s.GetHMACSecretKey([]byte(id))
					kb, _ := dst.s.GetHMACSecretKey([]byte(id))
					a, b = [][]byte{ka}, [][]byte{kb}
				case "storage":
					if mode != keystore.ExportPublicOnly {
						la, _ := src.s.GetServerDecryptionPrivateKeys([]byte(id))
						lb, _ := dst.s.GetServerDecryptionPrivateKeys([]byte(id))
						for _, k := range la {
							a = append(a, k.Value)
						}
						for _, k := range lb {
							b = append(b, k.Value)
						}
					}
					pa, _ := src.s.GetClientIDEncryptionPublicKey([]byte(id))
					pb, e := dst.s.GetClientIDEncryptionPublicKey([]byte(id))
					if pa != nil {
						a = append(a, pa.Value)
					}
					if e == nil {
						b = append(b, pb.Value)
					}
				}
				if fmt.Sprintf("%x", a) != fmt.Sprintf("%x", b) {
					rep.Violate("v2-import-differs", fmt.Sprintf("ring %s differs after export/import: source %x target %x", ring, a, b), h)
				}
			}
		}
		if nonEmpty {
			rep.OracleChecks++
			if fmt.Sprintf("%x", dst.view(other, true)) != fmt.Sprintf("%x", otherBefore) {
				rep.Violate("v2-import-clobbers-unrelated", "a ring of an unrelated id changed by import", h)
			}
		}
	}
	_ = filepath.Join
}
