package main

import (
	"bytes"
	"encoding/hex"
	"fmt"
	"strings"

	"acra-vh/vh"
	"acra-vh/vhiso"

	"github.com/cossacklabs/acra/hmac"
	"github.com/cossacklabs/acra/pseudonymization"
	"github.com/cossacklabs/acra/pseudonymization/common"
	"github.com/cossacklabs/acra/pseudonymization/storage"
)

// Domain c02tok (part of C02): de-tokenization / token decryption / blind-index check under another
// client identity, on the REAL pseudoanonymizer over the REAL MemoryTokenStorage wrapped (or not) by
// the REAL scellEncryptor, with per-client symmetric keys from vh.MemKeystore.
func init() { register("c02tok", "Model.RunIsoTokens", runC02tok) }

type tokCtx struct{ cid, ac []byte }

func (c tokCtx) real() common.TokenContext {
	return common.TokenContext{ClientID: c.cid, AdditionalContext: c.ac}
}
func (c tokCtx) coq() string { return "(tc " + vh.H(c.cid) + " " + vh.H(c.ac) + ")" }

// scope as the property sees it: the identity a request runs under
func (c tokCtx) scope() string {
	if len(c.ac) != 0 {
		return "zone:" + string(c.ac)
	}
	return "client:" + string(c.cid)
}
func (c tokCtx) String() string { return fmt.Sprintf("{cid=%q ac=%q}", c.cid, c.ac) }

func coqKeystore(ids [][]byte, ks *vh.MemKeystore) string {
	var parts []string
	for _, id := range ids {
		if k, ok := ks.Clients[string(id)]; ok {
			parts = append(parts, "("+vh.H(id)+", "+vh.HL(k.Syms)+")")
		}
	}
	return "[" + strings.Join(parts, "; ") + "]"
}

// client id families named by the property: prefixes/suffixes of each other, ids containing the
// literal `client`/`zone` that generateDataID concatenates without a separator.
var idFamilies = [][]string{
	{"client", "clientb", "b"},
	{"a", "ab", "b"},
	{"yclientz", "z", "y"},
	{"", "client", "clientclient"},
	{"zone", "zonea", "a"},
	{"A\x00", "A", "\x00"},
}

func encOut(o vh.Outcome) []byte {
	switch o.Kind {
	case "ok":
		return append([]byte{0}, o.Vals[0]...)
	case "err":
		return []byte{1}
	}
	return []byte{2}
}

type tokRec struct {
	owner tokCtx
	value []byte
	token []byte
}

func runC02tok(rep *vh.Report, r *vh.Rng, n int, thorough bool) {
	for i := 0; i < n; i++ {
		tokHistory(rep, r, i, thorough)
		tokDataID(rep, r, i)
		tokEncryptor(rep, r, i)
		tokBlindIndex(rep, r, i)
	}
}

func pickIDs(rep *vh.Report, r *vh.Rng) [][]byte {
	var ids [][]byte
	if r.Intn(4) != 0 {
		fam := idFamilies[r.Intn(len(idFamilies))]
		rep.Count("ids:family:" + fam[1])
		for _, s := range fam {
			ids = append(ids, []byte(s))
		}
	} else {
		rep.Count("ids:random")
		base := r.Bytes(1 + r.Intn(6))
		ids = [][]byte{base, append(append([]byte{}, base...), r.Bytes(1+r.Intn(3))...), r.Bytes(1 + r.Intn(6))}
	}
	// random order so that A/B roles vary
	for j := len(ids) - 1; j > 0; j-- {
		k := r.Intn(j + 1)
		ids[j], ids[k] = ids[k], ids[j]
	}
	return ids
}

func mkKeystore(rep *vh.Report, r *vh.Rng, ids [][]byte, allowMissing bool) *vh.MemKeystore {
	ks := vh.NewMemKeystore()
	for j, id := range ids {
		if allowMissing && j == 2 && r.Intn(3) == 0 {
			rep.Count("ks:client-without-keys")
			continue
		}
		ks.Clients[string(id)] = vh.NewKeySet(r, 0, 1+r.Intn(2), true)
	}
	return ks
}

// ---- histories over the whole stack ----
func tokHistory(rep *vh.Report, r *vh.Rng, idx int, thorough bool) {
	ids := pickIDs(rep, r)
	// data-id collision split: client A = s||"client"||B, A's token d, B asks for d||"client"||s:
	// both detokenizations look up the SAME storage key; only the storage scope keeps them apart
	var splitD, splitS []byte
	split := r.Intn(5) == 0
	if split {
		splitD, splitS = r.Bytes(1+r.Intn(3)), r.Bytes(r.Intn(3))
		cidB := [][]byte{[]byte("z"), []byte("b"), {}, r.Bytes(2)}[r.Intn(4)]
		cidA := append(append(append([]byte{}, splitS...), []byte("client")...), cidB...)
		ids = [][]byte{cidA, cidB, []byte("y")}
		rep.Count("hist:data-id-split")
	}
	ks := mkKeystore(rep, r, ids, !split)
	enc := r.Intn(4) != 0
	if split {
		enc = r.Intn(2) == 0
	}
	sharedAC := []byte(nil)
	if enc && r.Intn(8) == 0 {
		sharedAC = []byte("zoneX") // legacy zone context shared by all clients: only the encryption separates them
		rep.Count("hist:shared-additional-context")
	}
	rep.Count(fmt.Sprintf("hist:enc=%v", enc))

	mem, _ := storage.NewMemoryTokenStorage()
	var st common.TokenStorage = mem
	if enc {
		e, _ := storage.NewSCellEncryptor(ks)
		st = storage.WrapStorageWithEncryption(mem, e)
	}
	tokenizer, _ := pseudonymization.NewPseudoanonymizer(st)

	ctxOf := func(j int) tokCtx { return tokCtx{ids[j], sharedAC} }
	// value pool: short values (collisions of 1-byte tokens), values that are id fragments, shared values
	pool := [][]byte{[]byte("x"), []byte("xclienty"), {}, r.Bytes(1), r.Bytes(1 + r.Intn(5)), r.Bytes(8 + r.Intn(24)), []byte("secret-of-A"), ids[0], append([]byte("v"), ids[1]...)}
	var recs []tokRec
	ownValues := map[string]map[string]bool{} // scope -> values that scope itself tokenized
	var opsCoq []string
	var outs [][]byte
	var labels []string

	doTok := func(c tokCtx, consistent bool, value []byte, script [][]byte) {
		tape := vhiso.StartScriptTape(r, script)
		o := vh.Guard(func() vh.Outcome {
			var res interface{}
			var err error
			if consistent {
				res, err = tokenizer.AnonymizeConsistently(append([]byte{}, value...), c.real(), common.TokenType_Bytes)
			} else {
				res, err = tokenizer.Anonymize(append([]byte{}, value...), c.real(), common.TokenType_Bytes)
			}
			if err != nil {
				return vh.ErrO(err)
			}
			return vh.Ok(res.([]byte))
		})
		vh.StopTape()
		opsCoq = append(opsCoq, fmt.Sprintf("Tok %v %s %s %s", consistent, c.coq(), vh.HL(tape.Chunks), vh.H(value)))
		outs = append(outs, encOut(o))
		labels = append(labels, fmt.Sprintf("tokenize(cons=%v,%v,%x)=>%s", consistent, c, value, o.String()))
		rep.Count("step:tokenize:" + o.Kind)
		if ownValues[c.scope()] == nil {
			ownValues[c.scope()] = map[string]bool{}
		}
		// the value was handed to the tokenizer under this scope (even if the call failed half way)
		ownValues[c.scope()][string(value)] = true
		if o.Kind == "ok" {
			recs = append(recs, tokRec{c, append([]byte{}, value...), append([]byte{}, o.Vals[0]...)})
		}
	}
	doDetok := func(c tokCtx, token []byte) {
		o := vh.Guard(func() vh.Outcome {
			res, err := tokenizer.Deanonymize(append([]byte{}, token...), c.real(), common.TokenType_Bytes)
			if err != nil {
				return vh.ErrO(err)
			}
			return vh.Ok(res.([]byte))
		})
		opsCoq = append(opsCoq, fmt.Sprintf("Detok %s %s", c.coq(), vh.H(token)))
		outs = append(outs, encOut(o))
		labels = append(labels, fmt.Sprintf("detokenize(%v,%x)=>%s", c, token, o.String()))
		rep.Count("step:detokenize:" + o.Kind)
		// ORACLE (independent of the model): under scope S a detokenization may only give back the
		// token unchanged, an error, or a value that S itself handed to the tokenizer.
		rep.OracleChecks++
		history := "enc=" + fmt.Sprint(enc) + " ids=" + fmt.Sprintf("%q", ids) + " history: " + strings.Join(labels, " ; ")
		switch o.Kind {
		case "panic":
			rep.Violate("detokenize-panic", "Deanonymize panicked: "+o.Msg, history)
		case "ok":
			got := o.Vals[0]
			if bytes.Equal(got, token) || ownValues[c.scope()][string(got)] {
				if !bytes.Equal(got, token) {
					rep.Count("detok:own-value-revealed")
				} else {
					rep.Count("detok:token-unchanged")
				}
				break
			}
			class := "detokenize-unexpected-value"
			for _, rec := range recs {
				if rec.owner.scope() != c.scope() && bytes.Equal(rec.value, got) {
					class = "cross-client-detokenize"
				}
			}
			rep.Violate(class, fmt.Sprintf("Deanonymize under %v of %x returned %x, which that identity never tokenized", c, token, got), history)
		}
	}

	if split {
		doTok(ctxOf(0), r.Intn(3) == 0, r.Bytes(len(splitD)), [][]byte{splitD})
		doDetok(ctxOf(1), append(append(append([]byte{}, splitD...), []byte("client")...), splitS...))
		doDetok(ctxOf(0), splitD)
	}
	nOps := 3 + r.Intn(5)
	if thorough {
		nOps += r.Intn(6)
	}
	for k := 0; k < nOps; k++ {
		c := ctxOf(r.Intn(len(ids)))
		switch r.Intn(10) {
		case 0, 1, 2, 3, 4:
			value := pool[r.Intn(len(pool))]
			var script [][]byte
			switch r.Intn(6) {
			case 0: // force a token another record already uses (same or other client)
				for _, rec := range recs {
					if len(rec.token) == len(value) && len(value) > 0 {
						script = [][]byte{rec.token, rec.token}
						rep.Count("tok:scripted-reuse-token")
						break
					}
				}
			case 1: // the concatenation split: token "x" for client "yclientz" vs token "xclienty" for "z"
				if len(value) == 1 {
					script = [][]byte{[]byte("x")}
				} else if len(value) == 8 {
					script = [][]byte{[]byte("xclienty")}
				}
				rep.Count("tok:scripted-split-token")
			}
			doTok(c, r.Intn(3) == 0, value, script)
		case 5, 6, 7:
			if len(recs) > 0 {
				rec := recs[r.Intn(len(recs))]
				rep.Count("detok:known-token")
				doDetok(c, rec.token)
				break
			}
			fallthrough
		case 8:
			rep.Count("detok:split-literal")
			doDetok(c, [][]byte{[]byte("x"), []byte("xclienty"), []byte("xclient"), {}}[r.Intn(4)])
		default:
			rep.Count("detok:random-token")
			doDetok(c, r.Bytes(r.Intn(4)))
		}
	}
	// finally: every identity detokenizes every token produced so far
	final := append([]tokRec{}, recs...)
	for _, rec := range final {
		for j := range ids {
			c := ctxOf(j)
			if c.scope() == rec.owner.scope() && r.Intn(2) == 0 {
				continue
			}
			doDetok(c, rec.token)
		}
	}
	op := fmt.Sprintf("Hist %v %s [%s]", enc, coqKeystore(ids, ks), strings.Join(opsCoq, "; "))
	rep.Add(fmt.Sprintf("hist#%d %s", idx, strings.Join(labels, " ; ")), op, vh.Ok(outs...))
}

// ---- generateDataID / AggregateTokenContextToBytes, incl. the concatenation collisions ----
func tokDataID(rep *vh.Report, r *vh.Rng, idx int) {
	type pair struct{ data, cid, ac []byte }
	var ps []pair
	switch r.Intn(4) {
	case 0: // (data, client) splits of one byte string around the literal `client`
		s := append(append(r.Bytes(1+r.Intn(4)), []byte("client")...), r.Bytes(1+r.Intn(4))...)
		s = append(append(s, []byte("client")...), r.Bytes(r.Intn(4))...)
		first := bytes.Index(s, []byte("client"))
		second := first + 6 + bytes.Index(s[first+6:], []byte("client"))
		ps = []pair{{s[:first], s[first+6:], nil}, {s[:second], s[second+6:], nil}}
		rep.Count("dataid:split-pair")
	case 1:
		ps = []pair{{[]byte("x"), []byte("yclientz"), nil}, {[]byte("xclienty"), []byte("z"), nil}, {[]byte("a"), []byte("b"), []byte("c")}, {[]byte("azone"), []byte("b"), []byte("c")}}
		rep.Count("dataid:fixed-table")
	default:
		fam := pickIDs(rep, r)
		d := r.Bytes(r.Intn(6))
		ps = []pair{{d, fam[0], nil}, {d, fam[1], nil}, {d, fam[0], r.Bytes(r.Intn(3))}}
		rep.Count("dataid:family")
	}
	var ids [][]byte
	for _, p := range ps {
		ty := common.TokenType(r.Pick(3, 4, 4, 4, 1, 7, 0))
		if len(ps) == 2 {
			ty = common.TokenType_Bytes
		}
		id := pseudonymization.VerifGenerateDataID(p.data, common.TokenContext{ClientID: p.cid, AdditionalContext: p.ac}, ty)
		ids = append(ids, id)
		rep.Add(fmt.Sprintf("dataid#%d", idx), fmt.Sprintf("DataId %s %s %s %d", vh.H(p.data), vh.H(p.cid), vh.H(p.ac), int(ty)), vh.Ok(id))
		cb := common.AggregateTokenContextToBytes(common.TokenContext{ClientID: p.cid, AdditionalContext: p.ac})
		rep.Add(fmt.Sprintf("ctxbytes#%d", idx), fmt.Sprintf("CtxBytes %s %s", vh.H(p.cid), vh.H(p.ac)), vh.Ok(cb))
	}
	if len(ps) == 2 && bytes.Equal(ids[0], ids[1]) && !(bytes.Equal(ps[0].data, ps[1].data) && bytes.Equal(ps[0].cid, ps[1].cid)) {
		// an observation, not a violation: the storage scope still differs (checked by tokHistory)
		rep.Count("dataid:collision-of-distinct-(value,client)-confirmed-on-real-code")
		a := common.AggregateTokenContextToBytes(common.TokenContext{ClientID: ps[0].cid})
		b := common.AggregateTokenContextToBytes(common.TokenContext{ClientID: ps[1].cid})
		rep.OracleChecks++
		if bytes.Equal(a, b) {
			rep.Violate("token-scope-collision", "two client ids with equal data id AND equal storage scope", fmt.Sprintf("%q/%q vs %q/%q", ps[0].data, ps[0].cid, ps[1].data, ps[1].cid))
		}
	}
}

// ---- layer 2 alone: scellEncryptor under A, Decrypt under B ----
func tokEncryptor(rep *vh.Report, r *vh.Rng, idx int) {
	ids := pickIDs(rep, r)
	ks := mkKeystore(rep, r, ids, false)
	e, _ := storage.NewSCellEncryptor(ks)
	a, b := tokCtx{ids[0], nil}, tokCtx{ids[1], nil}
	if r.Intn(6) == 0 {
		a.ac, b.ac = []byte("zoneX"), []byte("zoneX")
		rep.Count("enc:shared-additional-context")
	}
	data := r.Bytes(1 + r.Intn(40))
	tape := vh.StartTape(r)
	oe := vh.Guard(func() vh.Outcome {
		out, err := e.Encrypt(append([]byte{}, data...), a.real())
		if err != nil {
			return vh.ErrO(err)
		}
		return vh.Ok(out)
	})
	vh.StopTape()
	rep.Add(fmt.Sprintf("tokenc#%d", idx), fmt.Sprintf("TokEnc %s %s %s %s", coqKeystore(ids, ks), vh.HL(tape.Chunks), vh.H(data), a.coq()), oe)
	if oe.Kind != "ok" {
		return
	}
	blob := oe.Vals[0]
	for _, c := range []tokCtx{a, b} {
		c := c
		od := vh.Guard(func() vh.Outcome {
			out, err := e.Decrypt(append([]byte{}, blob...), c.real())
			if err != nil {
				return vh.ErrO(err)
			}
			return vh.Ok(out)
		})
		rep.Add(fmt.Sprintf("tokdec#%d", idx), fmt.Sprintf("TokDec %s %s %s", coqKeystore(ids, ks), vh.H(blob), c.coq()), od)
		rep.OracleChecks++
		replay := fmt.Sprintf("Encrypt(%x) under %v, Decrypt under %v => %s", data, a, c, od.String())
		if bytes.Equal(c.cid, a.cid) {
			if od.Kind != "ok" || !bytes.Equal(od.Vals[0], data) {
				rep.Violate("token-encryptor-roundtrip", "owner cannot decrypt its own token value", replay)
			}
		} else if od.Kind == "ok" {
			rep.Violate("cross-client-token-decrypt", "token value encrypted for one client decrypts under another client", replay)
		}
	}
}

// ---- blind index: hash made with A's HMAC key, verified under B ----
func tokBlindIndex(rep *vh.Report, r *vh.Rng, idx int) {
	ids := pickIDs(rep, r)
	ks := mkKeystore(rep, r, ids, false)
	a, b := ids[0], ids[1]
	data := r.Bytes(r.Intn(24))
	if r.Intn(4) == 0 {
		data = a // the value is an id fragment
	}
	keyA, _ := ks.GetHMACSecretKey(a)
	keyCopy := append([]byte{}, keyA...)
	hash := hmac.GenerateHMAC(keyA, data)
	rep.Add(fmt.Sprintf("genhmac#%d", idx), fmt.Sprintf("GenHmac %s %s", vh.H(keyCopy), vh.H(data)), vh.Ok(hash))
	stored := append(append([]byte{}, hash...), r.Bytes(r.Intn(8))...) // hash followed by the envelope
	for _, id := range [][]byte{a, b, []byte("nobody")} {
		h := hmac.ExtractHash(stored)
		var o vh.Outcome
		if h == nil {
			o = vh.Outcome{Kind: "err", Msg: "no hash"}
		} else {
			eq := h.IsEqual(data, id, ks)
			v := byte(0)
			if eq {
				v = 1
			}
			o = vh.Ok([]byte{v})
			rep.OracleChecks++
			replay := fmt.Sprintf("hash=%s made under %q, data=%x, IsEqual under %q => %v", hex.EncodeToString(hash), a, data, id, eq)
			if bytes.Equal(id, a) && !eq {
				rep.Violate("own-hash-mismatch", "owner's blind index does not match its own value", replay)
			}
			if !bytes.Equal(id, a) && eq {
				rep.Violate("cross-client-hash-match", "search hash of one client verifies under another client's key", replay)
			}
		}
		var hk []byte
		if k, err := ks.GetHMACSecretKey(id); err == nil {
			hk = k
		}
		rep.Add(fmt.Sprintf("hasheq#%d", idx), fmt.Sprintf("HashEq %s %s %s", vh.H(stored), vh.H(data), vh.HOpt(hk)), o)
	}
}
