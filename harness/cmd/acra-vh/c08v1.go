package main

// C08_v1: crash/fault safety of keystore v1 writes (keystore/filesystem/server_keystore.go) on a
// fault-injecting in-memory filesystem.Storage.  For sampled histories of (operation, fault) steps:
// EVERY Storage call of a write operation x EVERY fault kind, then a fresh keystore object on the
// same storage, the full probe, and a follow-up write; each scenario is replayed on
// Model.RunKeystoreWriteV1.

import (
	"fmt"
	"strings"

	"acra-vh/vh"
	"acra-vh/vhv1"
)

func init() {
	register("c08v1", "Model.RunKeystoreWriteV1", c8v1Run)
}

type c8v1Fault struct{ at, kind int }

func (f c8v1Fault) Coq() string {
	if f.kind == vhv1.KNone {
		return "None"
	}
	return fmt.Sprintf("(Some (%d%%nat, %s))", f.at, vhv1.KindNames[f.kind])
}

type c8v1Step struct {
	o vhv1.Op
	f c8v1Fault
}

func c8v1CoqHist(h []c8v1Step) string {
	parts := make([]string, len(h))
	for i, s := range h {
		parts[i] = "(" + s.o.Coq() + ", " + s.f.Coq() + ")"
	}
	return "[" + strings.Join(parts, "; ") + "]"
}

// c8v1Counters hands out fresh ordinals / temporary suffixes / time stamps.
type c8v1Counters struct{ ord, rnd, ts int }

func (c *c8v1Counters) fill(o vhv1.Op) vhv1.Op {
	o.Ord, o.Ord2 = c.ord+1, c.ord+2
	o.Rnd, o.Rnd2 = c.rnd+1, c.rnd+2
	o.Ts, o.Ts2 = c.ts+1, c.ts+2
	c.ord, c.rnd, c.ts = c.ord+2, c.rnd+2, c.ts+2
	return o
}

var (
	c8v1SingleKinds = []int{vhv1.KStorageSym, vhv1.KHmac, vhv1.KLog, vhv1.KPoisonSym}
	c8v1PairKinds   = []int{vhv1.KStoragePriv, vhv1.KPoisonPriv}
)

func c8v1Key(r *vh.Rng, kind int) int {
	if kind == vhv1.KLog || kind >= vhv1.KPoisonPriv {
		return kind
	}
	return kind + 8*r.Intn(2)
}

// c8v1GenOp draws one write operation (kind -1: any).
func c8v1GenOp(r *vh.Rng, c *c8v1Counters, kind int) vhv1.Op {
	if kind < 0 {
		kind = r.Pick(vhv1.OpWrite, vhv1.OpWrite, vhv1.OpWrite, vhv1.OpSavePair, vhv1.OpSavePair, vhv1.OpDestroyPair,
			vhv1.OpDestroySym, vhv1.OpDestroyRot, vhv1.OpDestroyRot, vhv1.OpDestroyRotPair)
	}
	o := vhv1.Op{Kind: kind}
	switch kind {
	case vhv1.OpWrite:
		o.K = c8v1Key(r, c8v1SingleKinds[r.Intn(len(c8v1SingleKinds))])
	case vhv1.OpSavePair:
		o.K = c8v1Key(r, c8v1PairKinds[r.Intn(len(c8v1PairKinds))])
		o.K2 = o.K + 1
		o.ImportedPair = r.Bool()
	case vhv1.OpDestroyPair:
		o.K = c8v1Key(r, r.Pick(vhv1.KStoragePriv, vhv1.KPoisonPriv, vhv1.KHmac))
		o.K2 = o.K + 1
		if vhv1.KindOf(o.K) == vhv1.KHmac {
			o.K2 = 100 + o.K // "<id>_hmac.pub": a file that never exists
		}
	case vhv1.OpDestroySym:
		o.K = c8v1Key(r, r.Pick(vhv1.KStorageSym, vhv1.KPoisonSym))
	case vhv1.OpDestroyRot:
		o.K = c8v1Key(r, r.Pick(vhv1.KStorageSym, vhv1.KHmac, vhv1.KPoisonSym))
		o.Idx = r.Pick(2, 2, 2, 3, 3, 4, 1, 0, -1, 9)
	case vhv1.OpDestroyRotPair:
		o.K = c8v1Key(r, c8v1PairKinds[r.Intn(len(c8v1PairKinds))])
		o.K2 = o.K + 1
		o.Idx = r.Pick(2, 2, 2, 3, 3, 1, 7)
	}
	return c.fill(o)
}

// c8v1Replay rebuilds the storage of a history on a new rig.
func c8v1Replay(master []byte, noLinks bool, h []c8v1Step) *vhv1.Rig {
	rig, err := vhv1.NewRig(master, noLinks)
	if err != nil {
		panic(err)
	}
	for _, s := range h {
		_, _, crashed := rig.Run(s.o, s.f.at, s.f.kind)
		if crashed {
			if err := rig.Reopen(); err != nil {
				panic(err)
			}
		}
	}
	return rig
}

func c8v1Run(rep *vh.Report, r *vh.Rng, n int, thorough bool) {
	vh.StartTape(r)
	defer vh.StopTape()
	targets := 3
	if thorough {
		targets = 6
	}
	for sc := 0; sc < n; sc++ {
		master := r.Bytes(32)
		noLinks := sc%2 == 1 // every second scenario: a storage without hard links (Copy fallback)
		rep.Count(fmt.Sprintf("storage-has-hard-links:%v", !noLinks))
		c := &c8v1Counters{}
		var hist []c8v1Step
		// the history always makes some keys and rotates them, then anything, sometimes with faults
		first := []vhv1.Op{
			{Kind: vhv1.OpWrite, K: vhv1.KStorageSym}, {Kind: vhv1.OpSavePair, K: vhv1.KStoragePriv, K2: vhv1.KStoragePub},
			{Kind: vhv1.OpWrite, K: vhv1.KStorageSym},
		}
		for _, o := range first[:r.Intn(4)] {
			hist = append(hist, c8v1Step{o: c.fill(o)})
		}
		for i, hl := 0, r.Intn(8); i < hl; i++ {
			s := c8v1Step{o: c8v1GenOp(r, c, -1)}
			if r.Intn(3) == 0 {
				s.f = c8v1Fault{at: r.Intn(16), kind: 1 + r.Intn(5)}
				rep.Count("hist-fault:" + vhv1.KindNames[s.f.kind])
			}
			hist = append(hist, s)
		}
		rep.Count(fmt.Sprintf("hist-len:%d", len(hist)))
		for ti := 0; ti < targets; ti++ {
			var o vhv1.Op
			switch ti {
			case 0: // the operations the property names first: a key (re)generated = written + rotated
				o = c.fill(vhv1.Op{Kind: vhv1.OpWrite, K: c8v1Key(r, c8v1SingleKinds[r.Intn(len(c8v1SingleKinds))])})
				if r.Bool() && len(hist) > 0 {
					for _, s := range hist { // prefer a key which exists: the rotation path
						if s.o.Kind == vhv1.OpWrite {
							o.K = s.o.K
						}
					}
				}
			case 1:
				o = c8v1GenOp(r, c, vhv1.OpSavePair)
			default:
				o = c8v1GenOp(r, c, -1)
			}
			probe := c8v1Replay(master, noLinks, hist)
			_, ncalls, _ := probe.Run(o, 0, vhv1.KNone)
			rep.Count(fmt.Sprintf("op-calls:%d", ncalls))
			for at := 0; at <= ncalls; at++ {
				for kind := vhv1.KErr; kind <= vhv1.KErrTorn; kind++ {
					if at == ncalls && kind != vhv1.KErr {
						continue // beyond the last call: a single fault-free case
					}
					follow := *c
					c8v1Case(rep, sc, master, noLinks, hist, o, c8v1Fault{at, kind}, &follow)
				}
			}
		}
	}
}

func c8v1Find(ks []vhv1.KeyState, k int) vhv1.KeyState {
	for _, s := range ks {
		if s.K == k {
			return s
		}
	}
	return vhv1.KeyState{K: k}
}

func c8v1Same(a, b *vhv1.Content) bool {
	if a == nil || b == nil {
		return a == b
	}
	return *a == *b
}

func c8v1SameOld(a, b []vhv1.Content) bool {
	if len(a) != len(b) {
		return false
	}
	for i := range a {
		if a[i] != b[i] {
			return false
		}
	}
	return true
}

func c8v1In(k int, ks []int) bool {
	for _, x := range ks {
		if x == k {
			return true
		}
	}
	return false
}

const (
	c8v1ClassPair = "v1-keypair-not-atomic"
	c8v1ClassCopy = "v1-backup-copy-torn"
)

func c8v1Case(rep *vh.Report, sc int, master []byte, noLinks bool, hist []c8v1Step, o vhv1.Op, f c8v1Fault, c *c8v1Counters) {
	rig := c8v1Replay(master, noLinks, hist)
	if err := rig.Reopen(); err != nil {
		panic(err)
	}
	links := "true"
	if noLinks {
		links = "false"
	}
	replay := fmt.Sprintf("Scenario %s %s (%s) %s", links, c8v1CoqHist(hist), o.Coq(), f.Coq())
	pre := rig.Abstract()
	preProbe := rig.Probe()
	if err := rig.Reopen(); err != nil {
		panic(err)
	}
	res, calls, crashed := rig.Run(o, f.at, f.kind)
	rep.Count("fault:" + vhv1.KindNames[f.kind])
	if f.at < calls || crashed {
		rep.Count("fault-hit")
		if f.at < len(rig.FS.Trace) {
			rep.Count("fault-at:" + rig.FS.Trace[f.at])
		}
	}
	out := &vhv1.Enc{}
	switch {
	case crashed:
		out.N(2)
		rep.Count("result:crash")
	case res == 0:
		out.N(0).N(calls)
		rep.Count("result:ok")
	default:
		out.N(1).N(calls)
		rep.Count("result:err")
	}
	// ---- recovery: a fresh keystore object on what is left ----
	if err := rig.Reopen(); err != nil {
		rep.Violate("v1-keystore-does-not-open", "a keystore object cannot be created on the storage left by the fault: "+err.Error(), replay)
		return
	}
	post := rig.Abstract()
	stray := append([]string{}, rig.Stray...)
	probe := rig.Probe()
	// follow-up: the same operation again, with fresh material, no fault
	follow := c.fill(o)
	if follow.Kind == vhv1.OpDestroyRot || follow.Kind == vhv1.OpDestroyRotPair {
		follow.Idx = 2
	}
	if err := rig.Reopen(); err != nil {
		panic(err)
	}
	fres, _, fcrashed := rig.Run(follow, 0, vhv1.KNone)
	if fcrashed {
		panic("c08v1: crash without a fault")
	}
	fo := &vhv1.Enc{}
	fo.N(fres)
	rig.Reopen()
	post2 := rig.Abstract()
	for _, k := range follow.Keys() {
		if k < 100 {
			cd, ord := rig.ReadCur(k)
			fo.N(cd)
			if cd == 0 {
				fo.N(ord)
			}
			rig.KS.Reset()
		}
	}
	probe2 := rig.Probe()
	rep.Add(fmt.Sprintf("sc%d links=%s %s fault=%s", sc, links, o.Coq(), f.Coq()),
		fmt.Sprintf("Scenario %s %s (%s) %s (%s)", links, c8v1CoqHist(hist), o.Coq(), f.Coq(), follow.Coq()),
		vh.Ok(out.Bytes(), vhv1.EncodeStorage(post), probe.Encode(), fo.Bytes(), vhv1.EncodeStorage(post2)))

	// ---------------- the property's own oracle (independent of the model) ----------------
	written := o.Keys()
	isPair := o.Kind == vhv1.OpSavePair || o.Kind == vhv1.OpDestroyPair || o.Kind == vhv1.OpDestroyRotPair
	rep.OracleChecks++
	if len(stray) > 0 {
		rep.Violate("v1-stray-file", fmt.Sprintf("files which are no key file, rotated version or temporary file: %v", stray), replay)
	}
	// well-formedness of what is left: every key file and every rotated version is complete
	tornBackup := false
	for _, s := range post {
		rep.OracleChecks++
		if s.Cur != nil && !(s.Cur.Whole && s.Cur.Ord > 0) {
			rep.Violate("v1-key-file-corrupt", fmt.Sprintf("%s holds incomplete/unknown data after the fault (%+v)", vhv1.KeyFile(s.K), *s.Cur), replay)
		}
		for i, c := range s.Old {
			if !(c.Whole && c.Ord > 0) {
				before := c8v1Find(pre, s.K).Old
				if noLinks && i == len(s.Old)-1 && len(before) == len(s.Old)-1 && (f.kind == vhv1.KTorn || f.kind == vhv1.KErrTorn) {
					tornBackup = true
					rep.Violate(c8v1ClassCopy, fmt.Sprintf("storage without hard links: the copy of %s into %s.old was cut and the partial file stays; every read of the rotated keys fails from now on", vhv1.KeyFile(s.K), vhv1.KeyFile(s.K)), replay)
				} else {
					rep.Violate("v1-rotated-version-corrupt", fmt.Sprintf("%s.old entry %d holds incomplete/unknown data after the fault (%+v)", vhv1.KeyFile(s.K), i, c), replay)
				}
			}
		}
	}
	// an operation which RETURNS an error cleans up after itself: no new temporary file (unless the
	// fault hit the clean-up call itself, the last one, or TempFile was cut after creating the file)
	if !crashed && res != 0 && f.kind == vhv1.KErr && f.at < calls-1 {
		rep.OracleChecks++
		for _, s := range post {
			if before := c8v1Find(pre, s.K); len(s.Tmp) > len(before.Tmp) {
				rep.Violate("v1-tempfile-left-after-error", fmt.Sprintf("%s returned an error and left %d temporary file(s) of %s behind (%s)", o.Coq(), len(s.Tmp)-len(before.Tmp), vhv1.KeyFile(s.K), rig.Mem.Dump()), replay)
			}
		}
	}
	// (i) every key readable before reads the same afterwards
	for _, s := range pre {
		a := c8v1Find(post, s.K)
		if !c8v1In(s.K, written) {
			rep.OracleChecks++
			if !c8v1Same(s.Cur, a.Cur) || !c8v1SameOld(s.Old, a.Old) {
				rep.Violate("v1-other-key-changed", fmt.Sprintf("%s changed although the operation does not write it", vhv1.KeyFile(s.K)), replay)
			}
			pc, ac := preProbe.Cur[s.K], probe.Cur[s.K]
			pairPartner := (vhv1.KindOf(s.K) == vhv1.KPoisonPriv && c8v1In(s.K+1, written)) || (vhv1.KindOf(s.K) == vhv1.KPoisonPub && c8v1In(s.K-1, written))
			if pc[0] == 0 && ac != pc && !pairPartner {
				rep.Violate("v1-key-lost", fmt.Sprintf("%s read ordinal %d before the fault and reads %v afterwards", vhv1.KeyFile(s.K), pc[1], ac), replay)
			}
			if preProbe.AllCode[s.K] == 0 && (probe.AllCode[s.K] != 0 || fmt.Sprint(preProbe.All[s.K]) != fmt.Sprint(probe.All[s.K])) {
				rep.Violate("v1-key-lost", fmt.Sprintf("all versions of %s read %v before the fault and (code %d) %v afterwards", vhv1.KeyFile(s.K), preProbe.All[s.K], probe.AllCode[s.K], probe.All[s.K]), replay)
			}
			continue
		}
		// the key being written: rotated versions are never lost (except the one a destroy-rotated names);
		// the previous current version is kept when a new one is installed
		rep.OracleChecks++
		if o.Kind == vhv1.OpDestroyRot || o.Kind == vhv1.OpDestroyRotPair {
			if len(a.Old) < len(s.Old)-1 || len(a.Old) > len(s.Old) || !c8v1Same(s.Cur, a.Cur) {
				rep.Violate("v1-destroy-rotated-removed-more", fmt.Sprintf("%s: %d rotated versions before, %d after; current changed: %v", vhv1.KeyFile(s.K), len(s.Old), len(a.Old), !c8v1Same(s.Cur, a.Cur)), replay)
			}
			continue
		}
		if len(a.Old) < len(s.Old) || !c8v1SameOld(s.Old, a.Old[:len(s.Old)]) {
			if !tornBackup {
				rep.Violate("v1-rotated-version-lost", fmt.Sprintf("%s.old: %v before, %v after", vhv1.KeyFile(s.K), s.Old, a.Old), replay)
			}
			continue
		}
		switch o.Kind {
		case vhv1.OpWrite, vhv1.OpSavePair:
			newOrd := o.Ord
			if s.K == o.K2 {
				newOrd = o.Ord2
			}
			isNew := a.Cur != nil && a.Cur.Ord == newOrd && a.Cur.Whole
			// (ii) old (or absent) or completely new
			if !isNew && !c8v1Same(s.Cur, a.Cur) {
				rep.Violate("v1-written-key-neither-old-nor-new", fmt.Sprintf("%s: before %v, after %v, new ordinal %d", vhv1.KeyFile(s.K), s.Cur, a.Cur, newOrd), replay)
			}
			if isNew && s.Cur != nil {
				kept := false
				for _, c := range a.Old[len(s.Old):] {
					kept = kept || c == *s.Cur
				}
				if !kept {
					rep.Violate("v1-previous-version-lost", fmt.Sprintf("%s was replaced and its previous version (ordinal %d) is not in %s.old", vhv1.KeyFile(s.K), s.Cur.Ord, vhv1.KeyFile(s.K)), replay)
				}
			}
			if !crashed && !isPair {
				if res == 0 && !isNew {
					rep.Violate("v1-write-reported-ok-but-old", fmt.Sprintf("%s: the operation returned nil and the file does not hold the new key", vhv1.KeyFile(s.K)), replay)
				}
				if res != 0 && isNew {
					rep.Violate("v1-write-reported-error-but-new", fmt.Sprintf("%s: the operation returned an error and the file holds the new key", vhv1.KeyFile(s.K)), replay)
				}
			}
		case vhv1.OpDestroyPair, vhv1.OpDestroySym:
			if a.Cur != nil && !c8v1Same(s.Cur, a.Cur) {
				rep.Violate("v1-destroy-changed-key", fmt.Sprintf("%s: before %v, after %v", vhv1.KeyFile(s.K), s.Cur, a.Cur), replay)
			}
			if !crashed && res == 0 && a.Cur != nil {
				rep.Violate("v1-destroy-reported-ok-but-present", vhv1.KeyFile(s.K)+" is still there", replay)
			}
		}
	}
	// (ii) for a key PAIR: private first, public second.  Never public ahead of private; the half-way
	// state (private new/removed, public old) is the known non-atomicity.
	if isPair && o.K2 < 100 {
		pa, pb := c8v1Find(pre, o.K), c8v1Find(pre, o.K2)
		qa, qb := c8v1Find(post, o.K), c8v1Find(post, o.K2)
		rep.OracleChecks++
		switch o.Kind {
		case vhv1.OpSavePair:
			privNew := qa.Cur != nil && qa.Cur.Ord == o.Ord
			pubNew := qb.Cur != nil && qb.Cur.Ord == o.Ord2
			if pubNew && !privNew {
				rep.Violate("v1-keypair-public-ahead", "the new public key is stored and its private key is not", replay)
			}
			if privNew && !pubNew {
				rep.Violate(c8v1ClassPair, fmt.Sprintf("key pair half written: %s holds the new private key, %s the previous public key (%v)", vhv1.KeyFile(o.K), vhv1.KeyFile(o.K2), qb.Cur), replay)
			}
			if !crashed && res == 0 && !(privNew && pubNew) {
				rep.Violate("v1-write-reported-ok-but-old", "SaveKeyPairWithFilename returned nil and the pair is not the new one", replay)
			}
		case vhv1.OpDestroyPair:
			if qb.Cur == nil && pb.Cur != nil && qa.Cur != nil {
				rep.Violate("v1-keypair-public-ahead", "the public key is removed and the private key is not", replay)
			}
			if qa.Cur == nil && pa.Cur != nil && qb.Cur != nil {
				rep.Violate(c8v1ClassPair, fmt.Sprintf("key pair half destroyed: %s is removed, %s is still there", vhv1.KeyFile(o.K), vhv1.KeyFile(o.K2)), replay)
			}
		case vhv1.OpDestroyRotPair:
			if len(qb.Old) < len(pb.Old) && len(qa.Old) == len(pa.Old) && len(pa.Old) > 0 {
				rep.Violate("v1-keypair-public-ahead", "a rotated public key is removed and the private one is not", replay)
			}
			if len(qa.Old) < len(pa.Old) && len(qb.Old) == len(pb.Old) && o.Idx-2 < len(pb.Old) {
				rep.Violate(c8v1ClassPair, fmt.Sprintf("rotated key pair half destroyed: %s.old lost entry %d, %s.old did not", vhv1.KeyFile(o.K), o.Idx, vhv1.KeyFile(o.K2)), replay)
			}
		}
	}
	// (iii) listing, cache warm-up, reads and a following write succeed
	halfPoison := func(ks []vhv1.KeyState) bool {
		return (c8v1Find(ks, vhv1.KPoisonPriv).Cur == nil) != (c8v1Find(ks, vhv1.KPoisonPub).Cur == nil)
	}
	for pi, p := range []*vhv1.ProbeResult{probe, probe2} {
		when := []string{"after the fault", "after the follow-up write"}[pi]
		state := [][]vhv1.KeyState{post, post2}[pi]
		rep.OracleChecks++
		if p.ListErr != nil {
			rep.Violate("v1-listkeys-fails", fmt.Sprintf("ListKeys fails %s: %v (files: %s)", when, p.ListErr, rig.Mem.Dump()), replay)
		} else {
			var want []int
			for _, s := range state {
				if s.Cur != nil {
					want = append(want, s.K)
				}
			}
			if fmt.Sprint(want) != fmt.Sprint(p.Listed) {
				rep.Violate("v1-listkeys-wrong", fmt.Sprintf("ListKeys %s shows %v, the key files are %v", when, p.Listed, want), replay)
			}
		}
		if p.RotErr != nil {
			rep.Violate("v1-listrotated-fails", fmt.Sprintf("ListRotatedKeys fails %s: %v", when, p.RotErr), replay)
		}
		if p.CacheErr != nil {
			switch {
			case p.ListErr != nil:
			case halfPoison(state):
				rep.Violate(c8v1ClassPair, fmt.Sprintf("CacheOnStart fails %s: only one half of the poison key pair is stored (%v)", when, p.CacheErr), replay)
			case tornBackup:
			default:
				rep.Violate("v1-cacheonstart-fails", fmt.Sprintf("CacheOnStart fails %s: %v", when, p.CacheErr), replay)
			}
		}
		for _, s := range state {
			if s.Cur == nil {
				continue
			}
			rep.OracleChecks++
			poisonHalf := (vhv1.KindOf(s.K) == vhv1.KPoisonPriv || vhv1.KindOf(s.K) == vhv1.KPoisonPub) && halfPoison(state)
			if c := p.Cur[s.K]; !(c[0] == 0 && c[1] == s.Cur.Ord) && !poisonHalf {
				rep.Violate("v1-key-unreadable", fmt.Sprintf("%s is stored (ordinal %d) and reads %v %s", vhv1.KeyFile(s.K), s.Cur.Ord, c, when), replay)
			}
			if vhv1.HasAll(s.K) && p.AllCode[s.K] != 0 && !tornBackup {
				rep.Violate("v1-rotated-keys-unreadable", fmt.Sprintf("all versions of %s do not read %s (code %d)", vhv1.KeyFile(s.K), when, p.AllCode[s.K]), replay)
			}
		}
	}
	rep.OracleChecks++
	switch follow.Kind {
	case vhv1.OpWrite, vhv1.OpSavePair:
		if fres != 0 {
			rep.Violate("v1-write-blocked", fmt.Sprintf("%s fails after the fault (calls: %s)", follow.Coq(), strings.Join(rig.FS.Trace, ",")), replay)
		} else {
			for _, k := range follow.Keys() {
				want := follow.Ord
				if k == follow.K2 {
					want = follow.Ord2
				}
				if c := probe2.Cur[k]; !(c[0] == 0 && c[1] == want) {
					rep.Violate("v1-new-key-unreadable", fmt.Sprintf("%s written after the fault reads %v, expected ordinal %d", vhv1.KeyFile(k), c, want), replay)
				}
			}
		}
	case vhv1.OpDestroyPair, vhv1.OpDestroySym:
		if fres != 0 {
			rep.Violate("v1-write-blocked", follow.Coq()+" fails after the fault", replay)
		}
	}
}
