package main

// C05 (pattern matcher): the sqlparser ASTs of a statement and of a parsed pattern as GENERIC LABELLED TREES.
//
// The export is done by reflection over the real AST values (exported and unexported fields alike), so the
// tree shows exactly what reflect.DeepEqual and the field-by-field comparators of
// acra-censor/common/matching_logic.go can see:
//
//	nil pointer / nil interface / nil slice  -> K_nil
//	string                                   -> K_string, label = the bytes
//	[]byte (unnamed)                         -> K_bytes,  label = the bytes
//	bool                                     -> K_bool,   label = [0|1]
//	any integer type                         -> K_int,    label = one byte (0..255) or 8 bytes big endian
//	unnamed slice                            -> K_list,   children = elements
//	named slice / named []byte / named bool  -> K_<TypeName> (children / label)
//	struct (also behind a pointer)           -> K_<TypeName>, children = ALL fields in declaration order
//
// The kind table (names, numbers, field names) is computed from the compiled sqlparser package and printed
// as coq/Gen/CensorKinds.v; the trees of the placeholder statements of acra-censor/common/common.go are
// printed as coq/Gen/CensorPatterns.v.  Trees travel to Coq as ONE byte string each (prefix encoding, see enc)
// decoded by Model.CensorTree.decode.

import (
	"encoding/hex"
	"fmt"
	"reflect"
	"sort"
	"strings"

	"github.com/cossacklabs/acra/acra-censor/common"
	"github.com/cossacklabs/acra/sqlparser"
)

type c5pNode struct {
	kind int
	lab  []byte
	cs   []*c5pNode
}

type c5pKind struct {
	name   string
	fields []string // struct kinds: field names in declaration order
	slice  bool     // named slice type (children = elements)
}

const (
	c5pKNil = iota
	c5pKString
	c5pKBytes
	c5pKBool
	c5pKInt
	c5pKList
	c5pKPrims
)

var (
	c5pKinds   []c5pKind
	c5pKindIdx = map[string]int{}
	c5pTypeIdx = map[reflect.Type]int{}
)

// the concrete types behind the interfaces of the AST (ast.go: iStatement, iSelectStatement, iInsertRows,
// iSelectExpr, iTableExpr, iSimpleTableExpr, iExpr, iColTuple, iPreparedQuery)
var c5pRoots = []interface{}{
	&sqlparser.Union{}, &sqlparser.Select{}, &sqlparser.Stream{}, &sqlparser.Insert{}, &sqlparser.Update{}, &sqlparser.Delete{},
	&sqlparser.Set{}, &sqlparser.DBDDL{}, &sqlparser.DDL{}, &sqlparser.Show{}, &sqlparser.Use{}, &sqlparser.Begin{}, &sqlparser.Commit{},
	&sqlparser.Rollback{}, &sqlparser.OtherRead{}, &sqlparser.OtherAdmin{}, &sqlparser.DeallocatePrepare{}, &sqlparser.Prepare{},
	&sqlparser.Execute{}, &sqlparser.ParenSelect{}, sqlparser.EmptyStatement{}, sqlparser.NotParsedStatement{},
	sqlparser.Values{}, &sqlparser.StarExpr{}, &sqlparser.AliasedExpr{}, sqlparser.Nextval{},
	&sqlparser.AliasedTableExpr{}, &sqlparser.ParenTableExpr{}, &sqlparser.JoinTableExpr{}, sqlparser.TableName{}, &sqlparser.Subquery{},
	&sqlparser.AndExpr{}, &sqlparser.OrExpr{}, &sqlparser.NotExpr{}, &sqlparser.ParenExpr{}, &sqlparser.ComparisonExpr{},
	&sqlparser.RangeCond{}, &sqlparser.IsExpr{}, &sqlparser.ExistsExpr{}, &sqlparser.SQLVal{}, &sqlparser.NullVal{}, sqlparser.BoolVal(false),
	&sqlparser.ColName{}, sqlparser.ValTuple{}, sqlparser.ListArg{}, &sqlparser.BinaryExpr{}, &sqlparser.UnaryExpr{},
	&sqlparser.IntervalExpr{}, &sqlparser.CollateExpr{}, &sqlparser.FuncExpr{}, &sqlparser.CaseExpr{}, &sqlparser.ValuesFuncExpr{},
	&sqlparser.ConvertExpr{}, &sqlparser.SubstrExpr{}, &sqlparser.ConvertUsingExpr{}, &sqlparser.MatchExpr{}, &sqlparser.GroupConcatExpr{},
	&sqlparser.Default{}, sqlparser.TableIdent{},
}

func init() {
	for _, n := range []string{"nil", "string", "bytes", "bool", "int", "list"} {
		c5pKindIdx[n] = len(c5pKinds)
		c5pKinds = append(c5pKinds, c5pKind{name: n})
	}
	seen := map[reflect.Type]bool{}
	var named []reflect.Type
	var visit func(t reflect.Type)
	visit = func(t reflect.Type) {
		if seen[t] {
			return
		}
		seen[t] = true
		switch t.Kind() {
		case reflect.Ptr:
			visit(t.Elem())
		case reflect.Interface:
		case reflect.Slice:
			if t.Name() != "" {
				named = append(named, t)
			}
			if t.Elem().Kind() != reflect.Uint8 {
				visit(t.Elem())
			}
		case reflect.Struct:
			named = append(named, t)
			for i := 0; i < t.NumField(); i++ {
				if c5pSkipField(t.Field(i)) {
					continue
				}
				visit(t.Field(i).Type)
			}
		case reflect.Bool:
			if t.Name() != "bool" {
				named = append(named, t)
			}
		}
	}
	for _, r := range c5pRoots {
		visit(reflect.TypeOf(r))
	}
	sort.Slice(named, func(i, j int) bool { return named[i].Name() < named[j].Name() })
	for _, t := range named {
		k := c5pKind{name: t.Name(), slice: t.Kind() == reflect.Slice && t.Elem().Kind() != reflect.Uint8}
		if t.Kind() == reflect.Struct {
			for i := 0; i < t.NumField(); i++ {
				if !c5pSkipField(t.Field(i)) {
					k.fields = append(k.fields, t.Field(i).Name)
				}
			}
		}
		if _, dup := c5pKindIdx[k.name]; dup {
			panic("c05pat: two AST types named " + k.name)
		}
		c5pKindIdx[k.name] = len(c5pKinds)
		c5pTypeIdx[t] = len(c5pKinds)
		c5pKinds = append(c5pKinds, k)
	}
	if len(c5pKinds) > 250 {
		panic("c05pat: more than 250 node kinds")
	}
	generators["censorkinds"] = c5pEmitKinds
	generators["censorpatterns"] = c5pEmitPatterns
	generators["censorwitness"] = c5pEmitWitness
}

// blank padding fields (ColIdent._) carry no data
func c5pSkipField(f reflect.StructField) bool { return f.Name == "_" }

func c5pK(name string) int {
	k, ok := c5pKindIdx[name]
	if !ok {
		panic("c05pat: unknown kind " + name)
	}
	return k
}

// c5pTypedNil counts interface values that hold a typed nil pointer/slice (the model sees them as nil)
var c5pTypedNil int

// c5pTree exports an AST value
func c5pTree(x interface{}) *c5pNode {
	if x == nil {
		return &c5pNode{kind: c5pKNil}
	}
	return c5pExport(reflect.ValueOf(x), false)
}

func c5pExport(v reflect.Value, inIface bool) *c5pNode {
	t := v.Type()
	switch t.Kind() {
	case reflect.Interface:
		if v.IsNil() {
			return &c5pNode{kind: c5pKNil}
		}
		return c5pExport(v.Elem(), true)
	case reflect.Ptr:
		if v.IsNil() {
			if inIface {
				c5pTypedNil++
			}
			return &c5pNode{kind: c5pKNil}
		}
		return c5pExport(v.Elem(), false)
	case reflect.String:
		return &c5pNode{kind: c5pKString, lab: []byte(v.String())}
	case reflect.Bool:
		b := []byte{0}
		if v.Bool() {
			b[0] = 1
		}
		if k, ok := c5pTypeIdx[t]; ok {
			return &c5pNode{kind: k, lab: b}
		}
		return &c5pNode{kind: c5pKBool, lab: b}
	case reflect.Int, reflect.Int8, reflect.Int16, reflect.Int32, reflect.Int64:
		return &c5pNode{kind: c5pKInt, lab: c5pIntLab(uint64(v.Int()))}
	case reflect.Uint, reflect.Uint8, reflect.Uint16, reflect.Uint32, reflect.Uint64:
		return &c5pNode{kind: c5pKInt, lab: c5pIntLab(v.Uint())}
	case reflect.Slice:
		if v.IsNil() {
			if inIface {
				c5pTypedNil++
			}
			return &c5pNode{kind: c5pKNil}
		}
		k, isNamed := c5pTypeIdx[t]
		if t.Elem().Kind() == reflect.Uint8 {
			b := make([]byte, v.Len())
			for i := range b {
				b[i] = byte(v.Index(i).Uint())
			}
			if !isNamed {
				k = c5pKBytes
			}
			return &c5pNode{kind: k, lab: b}
		}
		if !isNamed {
			k = c5pKList
		}
		n := &c5pNode{kind: k}
		for i := 0; i < v.Len(); i++ {
			n.cs = append(n.cs, c5pExport(v.Index(i), false))
		}
		return n
	case reflect.Struct:
		k, ok := c5pTypeIdx[t]
		if !ok {
			panic("c05pat: AST type outside the kind table: " + t.String())
		}
		n := &c5pNode{kind: k}
		for i := 0; i < t.NumField(); i++ {
			if c5pSkipField(t.Field(i)) {
				continue
			}
			n.cs = append(n.cs, c5pExport(v.Field(i), false))
		}
		return n
	}
	panic("c05pat: cannot export " + t.String())
}

func c5pIntLab(u uint64) []byte {
	if u < 256 {
		return []byte{byte(u)}
	}
	b := make([]byte, 8)
	for i := 7; i >= 0; i-- {
		b[i] = byte(u)
		u >>= 8
	}
	return b
}

// prefix encoding: kind byte; K_nil: nothing else; leaf kinds (string, bytes, bool, int, BoolVal, ListArg): label
// length + label; all other kinds: child count + children.  Lengths / counts: one byte 0..254, or 255 + 2 bytes BE.
func c5pLeafKind(k int) bool {
	if k < c5pKList {
		return true
	}
	n := c5pKinds[k].name
	return n == "BoolVal" || n == "ListArg"
}

func c5pLen(out []byte, n int) []byte {
	if n > 0xffff {
		panic("c05pat: node too large for the encoding")
	}
	if n < 255 {
		return append(out, byte(n))
	}
	return append(out, 255, byte(n>>8), byte(n))
}

func (n *c5pNode) enc(out []byte) []byte {
	out = append(out, byte(n.kind))
	if n.kind == c5pKNil {
		return out
	}
	if c5pLeafKind(n.kind) {
		if len(n.cs) != 0 {
			panic("c05pat: leaf with children")
		}
		out = c5pLen(out, len(n.lab))
		return append(out, n.lab...)
	}
	if len(n.lab) != 0 {
		panic("c05pat: labelled inner node")
	}
	out = c5pLen(out, len(n.cs))
	for _, c := range n.cs {
		out = c.enc(out)
	}
	return out
}

func (n *c5pNode) size() int {
	s := 1
	for _, c := range n.cs {
		s += c.size()
	}
	return s
}

// Coq term of the encoded tree: chunks of 40 bytes (parsing a number literal costs time quadratic in its length)
func (n *c5pNode) H() string {
	b := n.enc(nil)
	var parts []string
	for len(b) > 0 {
		k := 40
		if len(b) < k {
			k = len(b)
		}
		parts = append(parts, "0x1"+hex.EncodeToString(b[:k]))
		b = b[k:]
	}
	return "(hbs [" + strings.Join(parts, "; ") + "])"
}

// Coq term of the tree itself (used for the small constant trees of Gen/CensorPatterns.v)
func (n *c5pNode) term() string {
	var cs []string
	for _, c := range n.cs {
		cs = append(cs, c.term())
	}
	lab := "[]"
	if len(n.lab) > 0 {
		lab = "(hb 0x1" + hex.EncodeToString(n.lab) + ")"
	}
	return fmt.Sprintf("(T K_%s %s [%s])", c5pKinds[n.kind].name, lab, strings.Join(cs, "; "))
}

// human-readable form for replays
func (n *c5pNode) String() string {
	s := c5pKinds[n.kind].name
	if len(n.lab) > 0 {
		s += fmt.Sprintf("%q", n.lab)
	}
	if len(n.cs) > 0 {
		var cs []string
		for _, c := range n.cs {
			cs = append(cs, c.String())
		}
		s += "(" + strings.Join(cs, ",") + ")"
	}
	return s
}

// ---------- generators ----------

func c5pEmitKinds() {
	fmt.Println("(* GENERATED by `acra-vh censorkinds` from the compiled sqlparser package of /repo on every run. Do not edit.")
	fmt.Println("   Node kinds of the generic tree form of sqlparser ASTs (one per Go type that can occur in an AST) and the")
	fmt.Println("   field names of every struct type in declaration order. *)")
	fmt.Println("From Coq Require Import List NArith String.")
	fmt.Println("Import ListNotations.")
	fmt.Println("Local Open Scope N_scope.")
	var names []string
	for _, k := range c5pKinds {
		names = append(names, "K_"+k.name)
	}
	fmt.Println("Inductive kind :=\n| " + strings.Join(names, "\n| ") + ".")
	fmt.Println("Definition kind_code (k : kind) : N :=\n  match k with")
	for i, n := range names {
		fmt.Printf("  | %s => %d\n", n, i)
	}
	fmt.Println("  end.")
	fmt.Println("Definition all_kinds : list kind :=\n  [" + strings.Join(names, "; ") + "].")
	fmt.Println("Definition kind_of_code (n : N) : option kind := nth_error all_kinds (N.to_nat n).")
	fmt.Println("Definition kind_fields (k : kind) : list string :=\n  match k with")
	for i, k := range c5pKinds {
		if len(k.fields) == 0 {
			continue
		}
		var fs []string
		for _, f := range k.fields {
			fs = append(fs, fmt.Sprintf("%q", f))
		}
		fmt.Printf("  | %s => [%s]%%string\n", names[i], strings.Join(fs, "; "))
	}
	fmt.Println("  | _ => []\n  end.")
	var slices []string
	for i, k := range c5pKinds {
		if k.slice || i == c5pKList {
			slices = append(slices, names[i])
		}
	}
	fmt.Println("(* slice types: the children are the elements *)")
	fmt.Println("Definition kind_is_slice (k : kind) : bool :=\n  match k with\n  | " + strings.Join(slices, " | ") + " => true\n  | _ => false\n  end.")
	fmt.Printf("Definition VALTYPE_StrVal : N := %d.\n", int(sqlparser.StrVal))
	fmt.Printf("Definition VALTYPE_UnknownVal : N := %d.\n", int(sqlparser.UnknownVal))
}

func c5pEmitPatterns() {
	fmt.Println("(* GENERATED by `acra-vh censorpatterns` from acra-censor/common of /repo on every run. Do not edit.")
	fmt.Println("   Tree forms of the statements the 13 placeholders are replaced by (common.go) and the three leaf markers. *)")
	fmt.Println("From Coq Require Import List NArith.")
	fmt.Println("From Acra Require Import Lib.Bytes Gen.CensorKinds Model.CensorTree.")
	fmt.Println("Import ListNotations.")
	fmt.Println("Local Open Scope N_scope.")
	def := func(name, comment string, x interface{}) {
		fmt.Printf("(* %s *)\nDefinition %s : tree :=\n  %s.\n", comment, name, c5pTree(x).term())
	}
	def("PAT_UNION", "%%UNION%% = "+common.UnionReplacer, common.UnionPatternStatement)
	def("PAT_SELECT", "%%SELECT%% = "+common.SelectReplacer, common.SelectPatternStatement)
	def("PAT_INSERT", "%%INSERT%% = "+common.InsertReplacer, common.InsertPatternStatement)
	def("PAT_UPDATE", "%%UPDATE%% = "+common.UpdateReplacer, common.UpdatePatternStatement)
	def("PAT_DELETE", "%%DELETE%% = "+common.DeleteReplacer, common.DeletePatternStatement)
	def("PAT_SUBQUERY_SELECT", "%%SUBQUERY%% = "+common.SubqueryReplacer, common.SubqueryPatternStatement)
	def("PAT_WHERE", "%%WHERE%% = "+common.WhereReplacer, common.WherePatternStatement.(*sqlparser.Select).Where)
	def("PAT_VALUE", "%%VALUE%% = "+common.ValueReplacer, common.ValuePatternStatement)
	def("PAT_LIST_OF_VALUES", "%%LIST_OF_VALUES%% = "+common.ListOfValuesReplacer, common.ListOfValuePatternStatement)
	def("PAT_COLUMN", "%%COLUMN%% = "+common.ColumnReplacer, common.ColumnPatternStatement)
	p := sqlparser.New(sqlparser.ModeStrict)
	// what the parser makes of %%COLUMN%% as a select item / as an expression, and of `*`
	if st, err := common.ParsePatterns([]string{"select " + common.ColumnPlaceholder, "select *"}, p); err != nil {
		panic(err)
	} else {
		item := st[0].(*sqlparser.Select).SelectExprs[0].(*sqlparser.AliasedExpr)
		def("PAT_COLUMN_ITEM", "select item "+common.ColumnPlaceholder, item)
		def("PAT_COLUMN_EXPR", "expression "+common.ColumnPlaceholder, item.Expr)
		def("PAT_STAR", "select item *", st[1].(*sqlparser.Select).SelectExprs[0])
	}
	for _, x := range []struct{ name, ph, repl string }{{"PAT_BEGIN", common.BeginPlaceholder, common.BeginReplacer},
		{"PAT_COMMIT", common.CommitPlaceholder, common.CommitReplacer}, {"PAT_ROLLBACK", common.RollbackPlaceholder, common.RollbackReplacer}} {
		st, err := common.ParsePatterns([]string{x.ph}, p)
		if err != nil {
			panic(err)
		}
		def(x.name, x.ph+" = "+x.repl, st[0])
	}
}

// c5pEmitWitness prints coq/Gen/CensorWitness.v: tree forms of a few concrete (pattern, statement) pairs parsed by
// the REAL parser / ParsePatterns, used as witnesses of the refuted statements and as non-vacuity examples of
// Properties/C05_patterns.v.
func c5pEmitWitness() {
	fmt.Println("(* GENERATED by `acra-vh censorwitness` from /repo on every run (real sqlparser + common.ParsePatterns). Do not edit. *)")
	fmt.Println("From Coq Require Import List NArith.")
	fmt.Println("From Acra Require Import Lib.Bytes Gen.CensorKinds Model.CensorTree.")
	fmt.Println("Import ListNotations.")
	fmt.Println("Local Open Scope N_scope.")
	p := sqlparser.New(sqlparser.ModeStrict)
	stmt := func(name, q string) {
		st, err := p.Parse(q)
		if err != nil {
			panic(fmt.Sprintf("censorwitness: %s: %v", q, err))
		}
		fmt.Printf("(* statement: %s *)\nDefinition %s : tree :=\n  %s.\n", q, name, c5pTree(st).term())
	}
	pat := func(name, q string) {
		st, err := common.ParsePatterns([]string{q}, p)
		if err != nil {
			panic(fmt.Sprintf("censorwitness: %s: %v", q, err))
		}
		fmt.Printf("(* pattern: %s *)\nDefinition %s : tree :=\n  %s.\n", q, name, c5pTree(st[0]).term())
	}
	// %%WHERE%% absorbs the clauses after WHERE
	pat("W_WHERE_PAT", "select a from t %%WHERE%% limit 1")
	stmt("W_WHERE_STMT", "select a from t where b = 2 limit 100")
	// statement kinds without a comparator
	stmt("W_STREAM", "stream * from t")
	stmt("W_EXECUTE", "execute s1")
	// a statement with most generalisable positions
	stmt("W_RICH", "select a, lower(b), (select max(n) from t2 where t2.id = t1.id) as m from t1 join t3 on t1.id = t3.id where a = 1 and b in (1, 'x', null) and c between 2 and 3 order by a desc limit 10")
	pat("W_RICH_PAT", "select %%COLUMN%%, %%COLUMN%%, (%%SUBQUERY%%) as m from t1 join t3 on t1.id = t3.id where a = %%VALUE%% and b in (%%VALUE%%, %%LIST_OF_VALUES%%) and c between 2 and %%VALUE%% order by a desc limit 10")
	stmt("W_RICH_MISS", "select a, lower(b), (select max(n) from t2 where t2.id = t1.id) as m from t1 join t3 on t1.id = t3.id where a = 1 and b in (1, 'x', null) and c between 2 and 3 order by a asc limit 10")
	// CAST / INTERVAL / CASE: the statement as its own pattern (nil dereference and inverted comparisons before the fix)
	stmt("W_CAST", "select cast(a as char), convert(b, decimal(10, 2)), case a when 1 then 2 else 3 end from t where d > now() - interval 1 day")
	// RETURNING is part of the statement
	pat("W_INSERT_PAT", "insert into log (m) values (%%VALUE%%)")
	stmt("W_INSERT_RET", "insert into log (m) values ('x') returning (select p from secrets)")
	stmt("W_INSERT", "insert into log (m) values ('x')")
	// clause order of handleUpdateStatement / handleDeleteStatement (Properties/C05_clauses.v): RETURNING is compared
	// BEFORE the WHERE clause, so a pattern that ends in %%WHERE%% does not admit an added RETURNING clause
	pat("W_DEL_WPAT", "delete from sessions %%WHERE%%")
	stmt("W_DEL_OK", "delete from sessions where id = 17")
	stmt("W_DEL_RET", "delete from sessions where id = 17 returning (select password from users where name = 'admin')")
	pat("W_DEL_WPAT_RET", "delete from sessions %%WHERE%% returning token")
	stmt("W_DEL_RET_TOKEN", "delete from sessions where id = 17 returning token")
	c5cSetDialect(true) // UPDATE ... RETURNING parses in the PostgreSQL dialect only
	pat("W_UPD_WPAT", "update accounts set balance = %%VALUE%% %%WHERE%%")
	stmt("W_UPD_OK", "update accounts set balance = 10 where id = 3")
	stmt("W_UPD_RET", "update accounts set balance = 10 where id = 3 returning (select password from users limit 1)")
	c5cSetDialect(false)
	// the clauses the %%WHERE%% early exit does skip (known finding where-placeholder-absorbs-tail), one witness each
	pat("W_TAIL_SEL_PAT", "select a from t %%WHERE%% group by a having count(a) > 1 order by a limit 1 for update")
	stmt("W_TAIL_SEL_GROUPBY", "select a from t where b = 2 group by b having count(a) > 1 order by a limit 1 for update")
	stmt("W_TAIL_SEL_HAVING", "select a from t where b = 2 group by a having count(a) > 2 order by a limit 1 for update")
	stmt("W_TAIL_SEL_ORDERBY", "select a from t where b = 2 group by a having count(a) > 1 order by b limit 1 for update")
	stmt("W_TAIL_SEL_LIMIT", "select a from t where b = 2 group by a having count(a) > 1 order by a limit 2 for update")
	stmt("W_TAIL_SEL_LOCK", "select a from t where b = 2 group by a having count(a) > 1 order by a limit 1 lock in share mode")
	pat("W_TAIL_UPD_PAT", "update t set a = 1 %%WHERE%% order by a limit 1")
	stmt("W_TAIL_UPD_ORDERBY", "update t set a = 1 where b = 2 order by b limit 1")
	stmt("W_TAIL_UPD_LIMIT", "update t set a = 1 where b = 2 order by a limit 2")
	pat("W_TAIL_DEL_PAT", "delete from t %%WHERE%% order by a limit 1")
	stmt("W_TAIL_DEL_ORDERBY", "delete from t where b = 2 order by b limit 1")
	stmt("W_TAIL_DEL_LIMIT", "delete from t where b = 2 order by a limit 2")
}
