package main

// Domain c01old (property C01, legacy part): the REAL OldContainerDetectorWrapper wired as
// decryptor/{postgresql,mysql}/proxy.go wire it (wrapper = callbacks[0], then DecryptHandler over the
// RegistryHandler), raw AcraStructs / AcraBlocks of the client inside column values, the raw scanners
// ProcessAcraStructs / ProcessAcraBlocks (the latter with ALIASED buffers as the wrapper calls it), and
// ReEncryptHandler.EncryptWithClientID.  Every call is recorded for replay on Model/RunEnvelopeOld.v.

import (
	"bytes"
	"encoding/binary"
	"encoding/hex"
	"fmt"
	"time"

	"acra-vh/vh"

	"github.com/cossacklabs/acra/acrablock"
	"github.com/cossacklabs/acra/acrastruct"
	"github.com/cossacklabs/acra/crypto"
	"github.com/cossacklabs/acra/decryptor/base"
	"github.com/cossacklabs/acra/encryptor/base/config"
)

func init() { register("c01old", "Model.RunEnvelopeOld", runC01Old) }

type c01oldSetting struct {
	config.ColumnEncryptionSetting
	envAB, onlyEnc, reenc bool
}

func (s c01oldSetting) GetCryptoEnvelope() config.CryptoEnvelopeType {
	if s.envAB {
		return config.CryptoEnvelopeTypeAcraBlock
	}
	return config.CryptoEnvelopeTypeAcraStruct
}
func (s c01oldSetting) OnlyEncryption() bool                       { return s.onlyEnc }
func (s c01oldSetting) ShouldReEncryptAcraStructToAcraBlock() bool { return s.reenc }

// c01oldWire = what the proxy factories do (without a poison recogniser).
func c01oldWire(ks *vh.KeySet) *crypto.OldContainerDetectorWrapper {
	st := storeFor(ks)
	det := crypto.NewEnvelopeDetector()
	w := crypto.NewOldContainerDetectorWrapper(det) // registers itself as callbacks[0]
	det.AddCallback(crypto.NewDecryptHandler(st, crypto.NewRegistryHandler(st)))
	return w
}

const c01oldTimeout = 20 * time.Second

// c01oldTimed runs f under Guard in a goroutine; a call that does not return is reported as a hang.
func c01oldTimed(rep *vh.Report, label string, data []byte, f func() vh.Outcome) (vh.Outcome, bool) {
	ch := make(chan vh.Outcome, 1)
	go func() { ch <- vh.Guard(f) }()
	select {
	case o := <-ch:
		return o, true
	case <-time.After(c01oldTimeout):
		rep.Violate("hang", "call did not return within "+c01oldTimeout.String(), label+" data="+hex.EncodeToString(data))
		return vh.Outcome{Kind: "err", Msg: "hang"}, false
	}
}

func c01oldBool(b bool) string {
	if b {
		return "true"
	}
	return "false"
}

type c01oldOps struct {
	rep *vh.Report
	r   *vh.Rng
	e   *EnvOps
}

// OnColumn of the wrapper.  Safety oracle on every call: no panic, no hang, no error (DecryptHandler swallows
// decryption errors), output never longer than the input, input buffer not modified, mark <=> output differs
// (when something was opened the output is shorter).
func (o *c01oldOps) onColumn(label string, ks *vh.KeySet, data []byte) vh.Outcome {
	w := c01oldWire(ks)
	in := append([]byte{}, data...)
	out, ok := c01oldTimed(o.rep, label, data, func() vh.Outcome {
		ctx, res, err := w.OnColumn(clientCtx(), in)
		if err != nil {
			return vh.ErrO(err)
		}
		f := byte(0)
		if base.IsDecryptedFromContext(ctx) {
			f = 1
		}
		return vh.Ok(append([]byte{}, res...), []byte{f})
	})
	if !ok {
		return out
	}
	o.rep.Add(label, fmt.Sprintf("OnColumnOld %s %s", ks.Coq(), vh.H(data)), out)
	o.rep.OracleChecks++
	rp := label + " col=" + hex.EncodeToString(data) + " ks=" + ks.Coq()
	switch {
	case out.Kind == "panic":
		o.rep.Violate("panic", "OldContainerDetectorWrapper.OnColumn panicked: "+out.Msg, rp)
	case out.Kind == "err":
		o.rep.Violate("column-error", "OldContainerDetectorWrapper.OnColumn returned an error: "+out.Msg, rp)
	case !bytes.Equal(in, data):
		o.rep.Violate("input-mutated", "OnColumn modified its input buffer", rp)
	case len(out.Vals[0]) > len(data):
		o.rep.Violate("output-grew", "OnColumn output longer than input", rp)
	case (out.Vals[1][0] == 1) != !bytes.Equal(out.Vals[0], data):
		o.rep.Violate("mark-mismatch", "decrypted mark does not say whether the value changed", rp)
	}
	return out
}

func (o *c01oldOps) pas(label string, ks *vh.KeySet, data []byte) vh.Outcome {
	w := c01oldWire(ks)
	in := append([]byte{}, data...)
	out, ok := c01oldTimed(o.rep, label, data, func() vh.Outcome {
		return one(acrastruct.ProcessAcraStructs(clientCtx(), in, make([]byte, len(in)), w))
	})
	if !ok {
		return out
	}
	if out.Kind == "ok" {
		out.Vals[0] = append([]byte{}, out.Vals[0]...)
	}
	o.rep.Add(label, fmt.Sprintf("ProcessAcraStructs %s %s", ks.Coq(), vh.H(data)), out)
	o.rep.OracleChecks++
	if out.Kind != "ok" {
		o.rep.Violate("scanner-"+out.Kind, "ProcessAcraStructs: "+out.Msg, label+" data="+hex.EncodeToString(data))
	}
	return out
}

// ProcessAcraBlocks exactly as the wrapper calls it: inBuffer and outBuffer are the same slice.
// Implementation-level aliasing oracle: the result equals that of a call with a separate output buffer.
func (o *c01oldOps) pab(label string, ks *vh.KeySet, data []byte) vh.Outcome {
	w := c01oldWire(ks)
	buf := append([]byte{}, data...)
	out, ok := c01oldTimed(o.rep, label, data, func() vh.Outcome {
		res, err := acrablock.ProcessAcraBlocks(clientCtx(), buf, buf, w)
		if err != nil {
			return vh.ErrO(err)
		}
		return vh.Ok(append([]byte{}, res...))
	})
	if !ok {
		return out
	}
	o.rep.Add(label, fmt.Sprintf("ProcessAcraBlocks %s %s", ks.Coq(), vh.H(data)), out)
	o.rep.Add(label+" (in-place model)", fmt.Sprintf("ProcessAcraBlocksAliased %s %s", ks.Coq(), vh.H(data)), out)
	o.rep.OracleChecks++
	if out.Kind != "ok" {
		o.rep.Violate("scanner-"+out.Kind, "ProcessAcraBlocks: "+out.Msg, label+" data="+hex.EncodeToString(data))
		return out
	}
	in2 := append([]byte{}, data...)
	sep := vh.Guard(func() vh.Outcome {
		return one(acrablock.ProcessAcraBlocks(clientCtx(), in2, make([]byte, len(in2)), c01oldWire(ks)))
	})
	o.rep.OracleChecks++
	if sep.Kind != "ok" || !bytes.Equal(sep.Vals[0], out.Vals[0]) {
		o.rep.Violate("aliasing", "ProcessAcraBlocks with aliased buffers differs from the call with a separate output buffer: "+sep.String(),
			label+" data="+hex.EncodeToString(data)+" ks="+ks.Coq())
	}
	return out
}

func (o *c01oldOps) reEnc(label string, envAB, onlyEnc, reenc bool, ks *vh.KeySet, data []byte) vh.Outcome {
	h := crypto.NewReEncryptHandler(storeFor(ks))
	in := append([]byte{}, data...)
	out, tape := o.e.withTape(func() vh.Outcome {
		return one(h.EncryptWithClientID([]byte(clientID), in, c01oldSetting{envAB: envAB, onlyEnc: onlyEnc, reenc: reenc}))
	})
	o.rep.Add(label, fmt.Sprintf("ReEnc %s %s %s %s %s %s", c01oldBool(envAB), c01oldBool(onlyEnc), c01oldBool(reenc), ks.Coq(), vh.HL(tape), vh.H(data)), out)
	return out
}

// ---------- generators ----------

func c01oldClean(r *vh.Rng, n int) []byte { // no tag symbol of any kind
	b := r.Bytes(n)
	for i := range b {
		if b[i] == '"' || b[i] == '%' {
			b[i] = 'a'
		}
	}
	return b
}

// affix: mostly what the property names (random bytes, tag runs), "%" only in runs shorter than the tag
func c01oldAffix(r *vh.Rng) ([]byte, string) {
	switch r.Intn(8) {
	case 0:
		return nil, "empty"
	case 1:
		return bytes.Repeat([]byte{'"'}, 1+r.Intn(3)), "quotes<4"
	case 2:
		return bytes.Repeat([]byte{'"'}, 4+r.Intn(8)), "quotes>=4"
	case 3:
		return append(c01oldClean(r, r.Intn(10)), '%', '%'), "percent2"
	case 4:
		return append(append(c01oldClean(r, r.Intn(6)), bytes.Repeat([]byte{'"'}, 1+r.Intn(9))...), c01oldClean(r, 1+r.Intn(6))...), "quotes-inside"
	case 5:
		return r.Bytes(r.Intn(40)), "random"
	}
	return c01oldClean(r, r.Intn(30)), "clean"
}

func c01oldPlain(r *vh.Rng) ([]byte, string) {
	n := 1 + r.Intn(60)
	if r.Intn(4) == 0 {
		n = r.Pick(1, 2, 3, 4, 7, 8, 17, 18, 19, 44, 45, 144, 145, 146, 300)
	}
	switch r.Intn(6) {
	case 0:
		return bytes.Repeat([]byte{'"'}, n), "quotes"
	case 1:
		return bytes.Repeat([]byte{'%'}, n), "percents"
	case 2:
		return make([]byte, n), "zeros"
	case 3:
		b := r.Bytes(n)
		for i := 0; i+8 <= len(b); i += 9 + r.Intn(20) {
			copy(b[i:], `""""""""`)
		}
		return b, "tags-in-random"
	}
	return r.Bytes(n), "random"
}

type c01oldEnv struct {
	raw   []byte
	plain []byte
	kind  string // "as" | "ab"
	mine  bool
}

// raw envelope of either kind under ks (creation is replayed on the model: AsCreate / AbCreate)
func (o *c01oldOps) rawEnv(label string, ks *vh.KeySet, mine bool) (c01oldEnv, bool) {
	x, class := c01oldPlain(o.r)
	o.rep.Count("plain:" + class)
	var c vh.Outcome
	kind := "as"
	if o.r.Bool() {
		kind = "ab"
		c = o.e.AbCreate(label+" CreateAcraBlock", x, ks.Syms[0], nil)
	} else {
		c = o.e.AsCreate(label+" CreateAcrastruct", x, ks.Pub(0), nil)
	}
	o.rep.Count("raw:" + kind)
	o.rep.OracleChecks++
	if c.Kind != "ok" {
		o.rep.Violate("protect-error", "raw envelope creation failed: "+c.String(), label+" x="+hex.EncodeToString(x))
		return c01oldEnv{}, false
	}
	return c01oldEnv{raw: c.Vals[0], plain: x, kind: kind, mine: mine}, true
}

func c01oldCat(parts ...[]byte) []byte {
	var b []byte
	for _, p := range parts {
		b = append(b, p...)
	}
	return b
}

// no occurrence of tag starts inside pre (looking at pre+next)
func c01oldQuiet(pre, next, tag []byte) bool {
	s := c01oldCat(pre, next)
	for j := 0; j < len(pre); j++ {
		if bytes.HasPrefix(s[j:], tag) {
			return false
		}
	}
	return true
}

var (
	c01oldTag4 = []byte(`""""`)
	c01oldTag8 = []byte(`""""""""`)
	c01oldTagC = []byte(`%%%`)
)

func c01oldLE(v uint64) []byte { b := make([]byte, 8); binary.LittleEndian.PutUint64(b, v); return b }

// malformed raw envelopes: truncations, bit flips, length fields at the boundaries of the integer checks
func c01oldMalform(r *vh.Rng, env c01oldEnv) ([]byte, string) {
	b := append([]byte{}, env.raw...)
	lenPos := 137 // AcraStruct: 8 tag + 129 key block
	exact := uint64(len(b) - 145)
	if env.kind == "ab" {
		lenPos = 4
		exact = uint64(len(b) - 4)
	}
	switch r.Intn(7) {
	case 0:
		return b[:r.Intn(len(b))], "truncated"
	case 1:
		i := r.Intn(len(b))
		b[i] ^= 1 << uint(r.Intn(8))
		return b, "bitflip"
	case 2: // header only, exactly at / around the strict minimum
		n := 145
		if env.kind == "ab" {
			n = 18
		}
		n += r.Pick(-1, 0, 1)
		if n > len(b) {
			n = len(b)
		}
		return b[:n], "min-length"
	case 3, 4:
		var vals []uint64
		if env.kind == "as" {
			vals = []uint64{0, 1, exact - 1, exact + 1, exact + 2, 1<<63 - 146, 1<<63 - 145, 1<<63 - 144, 1<<63 - 1, 1 << 63,
				^uint64(0), ^uint64(0) - 143, ^uint64(0) - 144, ^uint64(0) - 145, 1 << 32, uint64(len(b))}
		} else {
			vals = []uint64{0, 1, 13, 14, 15, exact - 1, exact + 1, exact + 2, 1<<63 - 4, 1<<63 - 1, 1 << 63, ^uint64(0), ^uint64(0) - 3, ^uint64(0) - 4, 1 << 32, uint64(len(b))}
		}
		v := vals[r.Intn(len(vals))]
		if env.kind == "as" && r.Bool() { // where acrastructLength wraps to 0 / 1 / negative
			v = []uint64{^uint64(0) - 144, ^uint64(0) - 143, ^uint64(0) - 145, 1<<63 - 145}[r.Intn(4)]
		}
		copy(b[lenPos:], c01oldLE(v))
		return append(b, r.Bytes(r.Intn(20))...), "length-field"
	case 5: // a header whose length swallows what follows
		copy(b[lenPos:], c01oldLE(exact+uint64(1+r.Intn(30))))
		return b, "length-over"
	}
	// backend bytes / key length of an AcraBlock, tag of an AcraStruct
	if env.kind == "ab" {
		b[r.Pick(12, 15, 16, 17)] = byte(r.Intn(256))
	} else {
		b[r.Intn(8)] = byte(r.Pick(0x21, 0x23, 0x25))
	}
	return b, "header-byte"
}

// runC01Old.  Property oracle (independent of the model): a raw envelope of the client placed in a column
// is replaced IN PLACE by its plaintext when the client reads the column; foreign envelopes stay as they are.
func runC01Old(rep *vh.Report, r *vh.Rng, n int, thorough bool) {
	o := &c01oldOps{rep, r, &EnvOps{rep, r}}
	for sc := 0; sc < n; sc++ {
		ks := vh.NewKeySet(r, 1+r.Intn(2), 1+r.Intn(2), true)
		other := vh.NewKeySet(r, 1, 1, true)
		kind := r.Intn(12)
		lab := fmt.Sprintf("sc%d", sc)
		var col []byte
		switch {
		case kind <= 4: // one raw envelope among affixes
			rep.Count("scenario:single")
			env, ok := o.rawEnv(lab, ks, true)
			if !ok {
				continue
			}
			rotate(r, ks)
			pre, pc := c01oldAffix(r)
			suf, sc2 := c01oldAffix(r)
			rep.Count("prefix:" + pc)
			rep.Count("suffix:" + sc2)
			col = c01oldCat(pre, env.raw, suf)
			out := o.onColumn(fmt.Sprintf("%s single %s pre=%s suf=%s", lab, env.kind, hx(pre), hx(suf)), ks, col)
			rep.OracleChecks++
			decisive := !bytes.Contains(col, c01oldTagC) && c01oldQuiet(pre, env.raw, c01oldTag4) && !bytes.Contains(env.raw[4:], c01oldTag8)
			if decisive {
				rep.Count("decisive:single")
				if out.Kind != "ok" || !bytes.HasPrefix(out.Vals[0], c01oldCat(pre, env.plain)) || out.Vals[1][0] != 1 {
					rep.Violate("raw-roundtrip", "raw "+env.kind+" envelope of the client was not revealed in place: "+hx([]byte(out.String())),
						lab+" col="+hex.EncodeToString(col)+" x="+hex.EncodeToString(env.plain)+" ks="+ks.Coq())
				}
			}
		case kind <= 6: // several envelopes (mine and foreign) between clean fillers: exact expectation
			rep.Count("scenario:multi")
			k := 2 + r.Intn(2)
			want := c01oldClean(r, r.Intn(12))
			col = append([]byte{}, want...)
			good := true
			for i := 0; i < k; i++ {
				mine := r.Intn(4) != 0
				owner := ks
				if !mine {
					owner = other
				}
				env, ok := o.rawEnv(fmt.Sprintf("%s env%d", lab, i), owner, mine)
				if !ok {
					good = false
					break
				}
				fill := c01oldClean(r, r.Intn(12))
				col = c01oldCat(col, env.raw, fill)
				if mine {
					want = c01oldCat(want, env.plain, fill)
				} else {
					rep.Count("foreign-envelope")
					want = c01oldCat(want, env.raw, fill)
				}
				if bytes.Contains(env.raw[4:], c01oldTag8) || bytes.Contains(env.raw, c01oldTagC) || bytes.Contains(env.plain, c01oldTag4) {
					good = false // an accidental tag inside ciphertext / plaintext: expectation not decisive
				}
			}
			rotate(r, ks)
			out := o.onColumn(lab+" multi", ks, col)
			rep.OracleChecks++
			if good {
				rep.Count("decisive:multi")
				if out.Kind != "ok" || !bytes.Equal(out.Vals[0], want) {
					rep.Violate("raw-roundtrip", "column with several raw envelopes: got "+hx([]byte(out.String()))+" want "+hx(want),
						lab+" col="+hex.EncodeToString(col)+" ks="+ks.Coq())
				}
			}
		case kind == 7: // a raw envelope next to a serialized container of the same client
			rep.Count("scenario:mixed")
			env, ok := o.rawEnv(lab, ks, true)
			if !ok {
				continue
			}
			id := byte(crypto.AcraStructEnvelopeID)
			if r.Bool() {
				id = crypto.AcraBlockEnvelopeID
			}
			y := c01oldClean(r, 1+r.Intn(20))
			contOwner := ks
			if r.Intn(3) == 0 { // a container the client cannot open: stays as it is
				contOwner = other
				rep.Count("mixed:foreign-container")
			}
			cont := o.e.EncHandler(lab+" container", id, contOwner, y)
			if cont.Kind != "ok" {
				continue
			}
			if contOwner == other {
				y = cont.Vals[0]
			}
			f1, f2, f3 := c01oldClean(r, r.Intn(8)), c01oldClean(r, 1+r.Intn(8)), c01oldClean(r, r.Intn(8))
			var want []byte
			if r.Bool() {
				col = c01oldCat(f1, cont.Vals[0], f2, env.raw, f3)
				want = c01oldCat(f1, y, f2, env.plain, f3)
			} else {
				col = c01oldCat(f1, env.raw, f2, cont.Vals[0], f3)
				want = c01oldCat(f1, env.plain, f2, y, f3)
			}
			out := o.onColumn(lab+" mixed raw+container", ks, col)
			rep.OracleChecks++
			if !bytes.Contains(env.raw, c01oldTagC) && !bytes.Contains(env.plain, c01oldTag4) && (out.Kind != "ok" || !bytes.Equal(out.Vals[0], want)) {
				rep.Violate("raw-next-to-container", "a raw envelope of the client in the same column value as a serialized container is not revealed: got "+hx([]byte(out.String())),
					lab+" col="+hex.EncodeToString(col)+" ks="+ks.Coq())
			}
		case kind == 8: // the plaintext of a raw AcraStruct is itself a raw AcraBlock of the client
			rep.Count("scenario:nested")
			y := c01oldClean(r, 1+r.Intn(20))
			inner := o.e.AbCreate(lab+" inner CreateAcraBlock", y, ks.Syms[0], nil)
			if inner.Kind != "ok" {
				continue
			}
			outer := o.e.AsCreate(lab+" outer CreateAcrastruct", inner.Vals[0], ks.Pub(0), nil)
			if outer.Kind != "ok" {
				continue
			}
			pre := c01oldClean(r, r.Intn(8))
			col = c01oldCat(pre, outer.Vals[0])
			out := o.onColumn(lab+" nested AcraStruct(AcraBlock)", ks, col)
			rep.OracleChecks++
			if out.Kind != "ok" || !bytes.Equal(out.Vals[0], c01oldCat(pre, inner.Vals[0])) {
				rep.Violate("nested-raw-envelope", "plaintext that is itself a raw AcraBlock of the client is opened too (revealed twice): got "+hx([]byte(out.String())),
					lab+" col="+hex.EncodeToString(col)+" ks="+ks.Coq())
			}
		default: // malformed stream
			rep.Count("scenario:malformed")
			env, ok := o.rawEnv(lab, ks, true)
			if !ok {
				continue
			}
			bad, class := c01oldMalform(r, env)
			rep.Count("malformed:" + class)
			pre, _ := c01oldAffix(r)
			col = c01oldCat(pre, bad)
			if r.Intn(3) == 0 { // a good envelope after the bad one
				col = c01oldCat(col, c01oldClean(r, r.Intn(5)), env.raw)
			}
			o.onColumn(lab+" malformed "+class, ks, col)
		}
		// the two scanners on their own, on the same bytes (ProcessAcraBlocks with aliased buffers)
		if sc%2 == 0 || kind > 8 {
			o.pas(lab+" ProcessAcraStructs", ks, col)
			o.pab(lab+" ProcessAcraBlocks(aliased)", ks, col)
		}
		// the re-encryptor
		if sc%3 == 0 {
			c01oldReEncScenario(o, r, lab, ks, other)
		}
	}
}

func c01oldReEncScenario(o *c01oldOps, r *vh.Rng, lab string, ks, other *vh.KeySet) {
	rep := o.rep
	x := c01oldClean(r, 1+r.Intn(40))
	envAB, onlyEnc, reenc := true, true, true
	if r.Intn(4) == 0 {
		envAB, onlyEnc, reenc = r.Intn(3) != 0, r.Intn(3) != 0, r.Intn(3) != 0
	}
	var data []byte
	class := ""
	switch r.Intn(8) {
	case 0:
		data, class = x, "plain"
	case 1:
		c := o.e.AsCreate(lab+" reenc raw AcraStruct", x, ks.Pub(0), nil)
		data, class = c.Vals[0], "raw-as"
	case 2:
		c := o.e.AbCreate(lab+" reenc raw AcraBlock", x, ks.Syms[0], nil)
		data, class = c.Vals[0], "raw-ab"
	case 3:
		c := o.e.EncHandler(lab+" reenc AcraBlock container", crypto.AcraBlockEnvelopeID, ks, x)
		data, class = c.Vals[0], "container-ab"
	case 4:
		c := o.e.EncHandler(lab+" reenc foreign AcraStruct container", crypto.AcraStructEnvelopeID, other, x)
		data, class = c.Vals[0], "container-as-foreign"
	case 5:
		c := o.e.EncHandler(lab+" reenc AcraStruct container", crypto.AcraStructEnvelopeID, ks, x)
		data, class = c.Vals[0][:len(c.Vals[0])-1-r.Intn(10)], "container-as-truncated"
	default:
		c := o.e.EncHandler(lab+" reenc AcraStruct container", crypto.AcraStructEnvelopeID, ks, x)
		data, class = c.Vals[0], "container-as"
	}
	rep.Count("reenc:" + class)
	rep.Count(fmt.Sprintf("reenc-flags:%v/%v/%v", envAB, onlyEnc, reenc))
	out := o.reEnc(fmt.Sprintf("%s ReEncrypt %s %v/%v/%v", lab, class, envAB, onlyEnc, reenc), envAB, onlyEnc, reenc, ks, data)
	rp := lab + " class=" + class + " data=" + hex.EncodeToString(data) + " ks=" + ks.Coq()
	rep.OracleChecks++
	if out.Kind == "panic" {
		rep.Violate("panic", "ReEncryptHandler.EncryptWithClientID panicked: "+out.Msg, rp)
		return
	}
	unchanged := out.Kind == "ok" && bytes.Equal(out.Vals[0], data)
	switch {
	case !envAB || !onlyEnc:
		if !unchanged {
			rep.Violate("reenc-gate", "setting does not ask for AcraBlock-only encryption but the data changed", rp)
		}
	case class == "raw-ab" || class == "container-ab":
		if !unchanged {
			rep.Violate("reenc-double-wrap", "data that already is an AcraBlock was not passed through", rp)
		}
	case (class == "container-as" || class == "raw-as") && reenc:
		// re-encrypted: a container holding an AcraBlock, which the owner reveals to x
		if out.Kind != "ok" || unchanged {
			rep.Violate("reenc-roundtrip", "decryptable AcraStruct was not re-encrypted: "+out.String(), rp)
			return
		}
		rotate(r, ks)
		d := o.e.Process(lab+" reveal re-encrypted", ks, out.Vals[0])
		in, id, err := crypto.DeserializeEncryptedData(out.Vals[0])
		rep.OracleChecks++
		if d.Kind != "ok" || !bytes.Equal(d.Vals[0], x) || err != nil || id != crypto.AcraBlockEnvelopeID || len(in) == 0 {
			rep.Violate("reenc-roundtrip", "re-encrypted value does not reveal to the original plaintext as an AcraBlock: "+d.String(), rp)
		}
	case class == "container-as-foreign" && reenc:
		if out.Kind != "err" {
			rep.Violate("reenc-undecryptable", "AcraStruct the client cannot open was not refused: "+out.String(), rp)
		}
	case class == "container-as" || class == "container-as-foreign":
		if !unchanged { // reencrypting_to_acrablocks off: an AcraStruct container is a protected value, passed through
			rep.Violate("reenc-double-wrap", "AcraStruct container was wrapped again", rp)
		}
	case class == "plain":
		if out.Kind != "ok" {
			rep.Violate("reenc-roundtrip", "plain value was not protected: "+out.String(), rp)
			return
		}
		d := o.e.Process(lab+" reveal protected", ks, out.Vals[0])
		rep.OracleChecks++
		if d.Kind != "ok" || !bytes.Equal(d.Vals[0], x) {
			rep.Violate("reenc-roundtrip", "plain value protected by the re-encryptor does not reveal: "+d.String(), rp)
		}
	}
}
