package main

// Domain "c12desc" (C12, malformed stream also for C14): RowDescription / ParameterDescription messages, the generic
// relay of the database side, the start-up switch of the client side.  Every operation runs the REAL code
// (PacketHandler, pgproto3 as acra calls it, PgProxy.handleDatabasePacket through the hook VerifS14Proxy) under
// recover() and a timeout, is recorded as a Model.RunPgDesc op, and is judged by oracles that do not use the model:
// a decoder of both messages written from the protocol text (x12descRefRow / x12descRefPar) and pgproto3 on the
// emitted bytes.

import (
	"bufio"
	"bytes"
	"encoding/binary"
	"encoding/hex"
	"fmt"
	"os"
	"strings"
	"time"

	"acra-vh/vh"

	acracensor "github.com/cossacklabs/acra/acra-censor"
	"github.com/cossacklabs/acra/decryptor/postgresql"
	encryptor "github.com/cossacklabs/acra/encryptor/base"
	"github.com/cossacklabs/acra/encryptor/base/config"
	"github.com/cossacklabs/acra/sqlparser"
	"github.com/jackc/pgx/v5/pgproto3"
	"github.com/jackc/pgx/v5/pgtype"
)

func init() { register("c12desc", "Model.RunPgDesc", x12descRun) }

// ---------- values ----------

type x12descField struct {
	name   []byte
	table  uint32
	attr   uint16
	typ    uint32
	size   uint16
	mod    uint32
	format uint16
}

func (f x12descField) fixed() []byte {
	return cat(be4(f.table), be2(f.attr), be4(f.typ), be2(f.size), be4(f.mod), be2(f.format))
}
func (f x12descField) bytes() []byte { return cat(f.name, []byte{0}, f.fixed()) }
func (f x12descField) coq() string {
	return fmt.Sprintf("(mk_fd %s %d %d %d %d %d %d)", vh.H(f.name), f.table, f.attr, f.typ, f.size, f.mod, f.format)
}

func x12descRowPayload(count uint16, fs []x12descField) []byte {
	o := be2(count)
	for _, f := range fs {
		o = append(o, f.bytes()...)
	}
	return o
}
func x12descParPayload(count uint16, oids []uint32) []byte {
	o := be2(count)
	for _, v := range oids {
		o = append(o, be4(v)...)
	}
	return o
}

// x12descSetting is what the handlers read from a setting; real carries the acra object.
type x12descSetting struct {
	onlyEnc, searchable, masking bool
	dtid                         uint32
	real                         config.ColumnEncryptionSetting
}

// x12descScripted answers the four accessors from a table; every other method is the embedded real setting's.
type x12descScripted struct {
	*config.BasicColumnEncryptionSetting
	s x12descSetting
}

func (x *x12descScripted) OnlyEncryption() bool { return x.s.onlyEnc }
func (x *x12descScripted) IsSearchable() bool   { return x.s.searchable }
func (x *x12descScripted) GetMaskingPattern() string {
	if x.s.masking {
		return "xxx"
	}
	return ""
}
func (x *x12descScripted) GetDBDataTypeID() uint32 { return x.s.dtid }

var x12descOIDs = []uint32{pgtype.Int4OID, pgtype.Int8OID, pgtype.TextOID, pgtype.ByteaOID, 0, 1, 16, 1043, 701, 0x7fffffff, 0x80000000, 0xffffffff}

// x12descGenSetting: nil, a real BasicColumnEncryptionSetting (fields set, accessors read back), or a scripted one.
func x12descGenSetting(rep *vh.Report, r *vh.Rng) *x12descSetting {
	switch k := r.Intn(10); {
	case k < 3:
		rep.Count("desc:setting:nil")
		return nil
	case k < 6:
		b := &config.BasicColumnEncryptionSetting{Name: "c", DataTypeID: x12descOIDs[r.Intn(len(x12descOIDs))], Searchable: r.Intn(4) == 0}
		if r.Intn(4) == 0 {
			b.MaskingPattern = "xx"
		}
		rep.Count("desc:setting:real")
		return &x12descSetting{b.OnlyEncryption(), b.IsSearchable(), b.GetMaskingPattern() != "", b.GetDBDataTypeID(), b}
	}
	s := x12descSetting{onlyEnc: r.Intn(2) == 0, searchable: r.Intn(3) == 0, masking: r.Intn(2) == 0, dtid: x12descOIDs[r.Intn(len(x12descOIDs))]}
	s.real = &x12descScripted{&config.BasicColumnEncryptionSetting{Name: "c"}, s}
	rep.Count("desc:setting:scripted")
	return &s
}

func x12descTyped(oid uint32) *x12descSetting {
	b := &config.BasicColumnEncryptionSetting{Name: "c", DataTypeID: oid}
	return &x12descSetting{b.OnlyEncryption(), b.IsSearchable(), false, oid, b}
}

// the oracle's own reading of the rule: a column is retyped iff its setting is type-aware
// (plain encryption, searchable, or masking with a data type id) and the id is one of the four supported types
func (s *x12descSetting) wantOID() (uint32, bool) {
	if s == nil {
		return 0, false
	}
	aware := s.onlyEnc || s.searchable || (s.masking && s.dtid != 0)
	if !aware {
		return 0, false
	}
	switch s.dtid {
	case pgtype.Int4OID, pgtype.Int8OID, pgtype.TextOID, pgtype.ByteaOID:
		return s.dtid, true
	}
	return 0, false
}

func x12descCoqBool(b bool) string {
	if b {
		return "true"
	}
	return "false"
}
func x12descCoqItems(items []*x12descSetting, present bool) string {
	if !present {
		return "None"
	}
	parts := make([]string, len(items))
	for i, s := range items {
		if s == nil {
			parts[i] = "None"
		} else {
			parts[i] = fmt.Sprintf("Some (mk_setting %s %s %s %d)", x12descCoqBool(s.onlyEnc), x12descCoqBool(s.searchable), x12descCoqBool(s.masking), s.dtid)
		}
	}
	return "(Some [" + strings.Join(parts, "; ") + "])"
}

// ---------- reference decoders written from the protocol text ----------
// RowDescription: Int16 count; per field String name, Int32 table, Int16 column, Int32 type, Int16 size, Int32 modifier,
// Int16 format; nothing after the last field.  ParameterDescription: Int16 count, count x Int32.

func x12descRefRow(p []byte) ([]x12descField, bool) {
	if len(p) < 2 {
		return nil, false
	}
	n := int(binary.BigEndian.Uint16(p))
	p = p[2:]
	fs := []x12descField{}
	for i := 0; i < n; i++ {
		z := bytes.IndexByte(p, 0)
		if z < 0 || len(p)-z-1 < 18 {
			return nil, false
		}
		q := p[z+1:]
		fs = append(fs, x12descField{name: p[:z], table: binary.BigEndian.Uint32(q), attr: binary.BigEndian.Uint16(q[4:]), typ: binary.BigEndian.Uint32(q[6:]),
			size: binary.BigEndian.Uint16(q[10:]), mod: binary.BigEndian.Uint32(q[12:]), format: binary.BigEndian.Uint16(q[16:])})
		p = q[18:]
	}
	return fs, len(p) == 0
}

func x12descRefPar(p []byte) ([]uint32, bool) {
	if len(p) < 2 {
		return nil, false
	}
	n := int(binary.BigEndian.Uint16(p))
	if len(p) != 2+4*n {
		return nil, false
	}
	o := make([]uint32, n)
	for i := range o {
		o[i] = binary.BigEndian.Uint32(p[2+4*i:])
	}
	return o, true
}

// ---------- plumbing ----------

type x12descOps struct {
	rep *vh.Report
	w   *WireOps
}

// timed runs f under recover() and a timeout.
func (x *x12descOps) timed(what, lab string, in []byte, f func() vh.Outcome) vh.Outcome {
	ch := make(chan vh.Outcome, 1)
	go func() { ch <- vh.Guard(f) }()
	var o vh.Outcome
	select {
	case o = <-ch:
	case <-time.After(20 * time.Second):
		o = vh.Outcome{Kind: "panic", Msg: "timeout"}
		x.rep.Violate("hang:"+what, what+" did not return within 20 s", lab+" input="+short(in))
	}
	noPanic(x.rep, what, o, lab, in)
	return o
}

func x12descHandler(client bool, in []byte) (*postgresql.PacketHandler, *bytes.Reader, *bytes.Buffer) {
	rd := bytes.NewReader(in)
	out := &bytes.Buffer{}
	var h *postgresql.PacketHandler
	if client {
		h, _ = postgresql.NewClientSidePacketHandler(rd, bufio.NewWriter(out), wireLogger)
	} else {
		h, _ = postgresql.NewDbSidePacketHandler(rd, bufio.NewWriter(out), wireLogger)
	}
	return h, rd, out
}

// ---------- codec ops ----------

func (x *x12descOps) rowDec(lab string, payload []byte) vh.Outcome {
	o := x.timed("GetRowDescriptionData", lab, payload, func() vh.Outcome {
		h, _, _ := x12descHandler(false, frame('T', payload))
		if err := h.ReadPacket(); err != nil {
			return vh.Outcome{Kind: "panic", Msg: "harness: framing failed: " + err.Error()}
		}
		rd, err := h.GetRowDescriptionData()
		if err != nil {
			return vh.ErrO(err)
		}
		vals := [][]byte{be2(uint16(len(rd.Fields)))}
		for _, f := range rd.Fields {
			g := x12descField{table: f.TableOID, attr: f.TableAttributeNumber, typ: f.DataTypeOID, size: uint16(f.DataTypeSize), mod: uint32(f.TypeModifier), format: uint16(f.Format)}
			vals = append(vals, append([]byte{}, f.Name...), g.fixed())
		}
		return vh.Ok(vals...)
	})
	x.w.add(lab, "(DRowDec "+vh.H(payload)+")", o)
	// oracle: a description the protocol text accepts is accepted with exactly those fields; what is accepted is a
	// prefix-decodable message (count fields present)
	x.rep.OracleChecks++
	ref, exact := x12descRefRow(payload)
	if exact {
		x.rep.Count("desc:row-decode:wellformed")
		good := o.Kind == "ok" && len(o.Vals) == 1+2*len(ref)
		for i := 0; good && i < len(ref); i++ {
			good = bytes.Equal(o.Vals[1+2*i], ref[i].name) && bytes.Equal(o.Vals[2+2*i], ref[i].fixed())
		}
		if !good {
			x.rep.Violate("pg-rowdesc-decode", "a well-formed RowDescription is not decoded into its fields", lab+" payload="+short(payload)+" got="+o.String())
		}
	} else {
		x.rep.Count("desc:row-decode:malformed:" + o.Kind)
		if o.Kind == "ok" && ref == nil {
			x.rep.Violate("pg-rowdesc-malformed-accepted", "a RowDescription with missing fields is accepted", lab+" payload="+short(payload))
		}
	}
	return o
}

func (x *x12descOps) rowEnc(lab string, fs []x12descField) vh.Outcome {
	parts := make([]string, len(fs))
	for i, f := range fs {
		parts[i] = f.coq()
	}
	o := x.timed("RowDescription.Encode", lab, nil, func() vh.Outcome {
		rd := &pgproto3.RowDescription{}
		for _, f := range fs {
			rd.Fields = append(rd.Fields, pgproto3.FieldDescription{Name: f.name, TableOID: f.table, TableAttributeNumber: f.attr, DataTypeOID: f.typ,
				DataTypeSize: int16(f.size), TypeModifier: int32(f.mod), Format: int16(f.format)})
		}
		b, err := rd.Encode(nil)
		if err != nil {
			return vh.ErrO(err)
		}
		return vh.Ok(b[5:])
	})
	x.w.add(lab, "(DRowEnc ["+strings.Join(parts, "; ")+"])", o)
	x.rep.OracleChecks++
	if len(fs) <= 65535 {
		if o.Kind != "ok" || !bytes.Equal(o.Vals[0], x12descRowPayload(uint16(len(fs)), fs)) {
			x.rep.Violate("pg-rowdesc-encode", "the encoding of a RowDescription is not the protocol encoding of its fields", lab+" got="+o.String())
		}
	}
	return o
}

func (x *x12descOps) parDec(lab string, payload []byte) vh.Outcome {
	o := x.timed("GetParameterDescriptionData", lab, payload, func() vh.Outcome {
		h, _, _ := x12descHandler(false, frame('t', payload))
		if err := h.ReadPacket(); err != nil {
			return vh.Outcome{Kind: "panic", Msg: "harness: framing failed: " + err.Error()}
		}
		pd, err := h.GetParameterDescriptionData()
		if err != nil {
			return vh.ErrO(err)
		}
		var all []byte
		for _, v := range pd.ParameterOIDs {
			all = append(all, be4(v)...)
		}
		if all == nil {
			all = []byte{}
		}
		return vh.Ok(be2(uint16(len(pd.ParameterOIDs))), all)
	})
	x.w.add(lab, "(DParDec "+vh.H(payload)+")", o)
	x.rep.OracleChecks++
	if ref, ok := x12descRefPar(payload); ok {
		x.rep.Count("desc:par-decode:wellformed")
		if o.Kind != "ok" || !bytes.Equal(o.Vals[1], x12descParPayload(0, ref)[2:]) || !bytes.Equal(o.Vals[0], be2(uint16(len(ref)))) {
			x.rep.Violate("pg-paramdesc-decode", "a well-formed ParameterDescription is not decoded into its type ids", lab+" payload="+short(payload)+" got="+o.String())
		}
	} else {
		x.rep.Count("desc:par-decode:malformed:" + o.Kind)
	}
	return o
}

func (x *x12descOps) parEnc(lab string, oids []uint32) vh.Outcome {
	parts := make([]string, len(oids))
	for i, v := range oids {
		parts[i] = fmt.Sprint(v)
	}
	o := x.timed("ParameterDescription.Encode", lab, nil, func() vh.Outcome {
		b, err := (&pgproto3.ParameterDescription{ParameterOIDs: oids}).Encode(nil)
		if err != nil {
			return vh.ErrO(err)
		}
		return vh.Ok(b[5:])
	})
	x.w.add(lab, "(DParEnc ["+strings.Join(parts, "; ")+"])", o)
	x.rep.OracleChecks++
	if len(oids) <= 65535 && (o.Kind != "ok" || !bytes.Equal(o.Vals[0], x12descParPayload(uint16(len(oids)), oids))) {
		x.rep.Violate("pg-paramdesc-encode", "the encoding of a ParameterDescription is not the protocol encoding of its type ids", lab+" got="+o.String())
	}
	return o
}

// ---------- the database-side step ----------

// db: one fresh proxy state whose session holds the given items; ReadPacket + handleDatabasePacket + sendPacket.
func (x *x12descOps) db(lab string, ritems []*x12descSetting, rpresent bool, pitems []*x12descSetting, ppresent bool, stream []byte) vh.Outcome {
	tag := byte(0)
	if len(stream) > 0 {
		tag = stream[0]
	}
	o := x.timed(fmt.Sprintf("PgProxy.handleDatabasePacket(%q)", tag), lab, stream, func() vh.Outcome {
		sess := &c12MemSession{data: map[string]interface{}{}}
		p, err := postgresql.NewVerifS14Proxy(sess, sqlparser.New(sqlparser.ModeStrict), acracensor.NewAcraCensor())
		if err != nil {
			return vh.Outcome{Kind: "panic", Msg: "harness: " + err.Error()}
		}
		if rpresent {
			items := make([]*encryptor.QueryDataItem, len(ritems))
			for i, s := range ritems {
				if s != nil {
					items[i] = encryptor.NewQueryDataItem(s.real, "t", "c", "")
				}
			}
			encryptor.SaveQueryDataItemsToClientSession(sess, items)
		}
		if ppresent {
			m := map[int]config.ColumnEncryptionSetting{}
			for i, s := range pitems {
				if s != nil {
					m[i] = s.real
				}
			}
			sess.SetData(encryptor.PlaceholdersSettingKey, m)
		} else {
			sess.SetData(encryptor.PlaceholdersSettingKey, "not a map")
		}
		h, rd, out := x12descHandler(false, stream)
		if err := h.ReadPacket(); err != nil {
			return vh.ErrO(err)
		}
		if err := p.HandleDatabasePacket(h); err != nil {
			return vh.Outcome{Kind: "panic", Msg: "harness: handleDatabasePacket refused the packet: " + err.Error()}
		}
		if err := h.VerifSendPacket(); err != nil {
			return vh.ErrO(err)
		}
		return vh.Ok(out.Bytes(), stream[len(stream)-rd.Len():])
	})
	x.w.add(lab, "(DDb "+x12descCoqItems(ritems, rpresent)+" "+x12descCoqItems(pitems, ppresent)+" "+vh.H(stream)+")", o)
	return o
}

// wellFramed: sent is exactly one message whose length field counts itself and the payload
func x12descWellFramed(sent []byte, tag byte) bool {
	return len(sent) >= 5 && sent[0] == tag && int(binary.BigEndian.Uint32(sent[1:5])) == len(sent)-1
}

// rowDb: a RowDescription through the proxy, judged against the generator's own fields.
func (x *x12descOps) rowDb(lab string, payload []byte, items []*x12descSetting, present bool, next []byte) {
	rep := x.rep
	in := cat(frame('T', payload), next)
	o := x.db(lab, items, present, nil, true, in)
	rep.OracleChecks++
	if o.Kind != "ok" {
		rep.Violate("pg-rowdesc-relay", "a framed RowDescription message is not forwarded", lab+" input="+short(in)+" got="+o.String())
		return
	}
	sent, rest := o.Vals[0], o.Vals[1]
	if !bytes.Equal(rest, next) {
		rep.Violate("pg-rowdesc-relay", "the proxy consumed bytes of the next message", lab+" input="+short(in))
	}
	replay := lab + " items=" + x12descCoqItems(items, present) + " input=" + short(in) + " sent=" + short(sent)
	if !x12descWellFramed(sent, 'T') {
		rep.Violate("pg-rowdesc-rewrite-length", "the forwarded RowDescription declares a length that is not its actual length", replay)
		return
	}
	ref, exact := x12descRefRow(payload)
	rewrites := false
	if present && ref != nil && len(items) == len(ref) {
		for _, s := range items {
			if _, ok := s.wantOID(); ok {
				rewrites = true
			}
		}
	}
	if !rewrites {
		rep.Count("desc:row-db:untouched")
		if !bytes.Equal(sent, in[:len(in)-len(next)]) {
			rep.Violate("pg-rowdesc-relay", "a RowDescription the proxy has no reason to change is not forwarded byte for byte", replay)
		}
		return
	}
	rep.Count("desc:row-db:rewritten")
	if exact {
		rep.Count("desc:row-db:rewritten:wellformed")
	} else {
		rep.Count("desc:row-db:rewritten:trailing-bytes")
	}
	// independent re-parse of what was sent: pgproto3 and the reference decoder
	var back pgproto3.RowDescription
	got, gotExact := x12descRefRow(sent[5:])
	if err := back.Decode(sent[5:]); err != nil || !gotExact || len(got) != len(ref) || len(back.Fields) != len(ref) {
		rep.Violate("pg-rowdesc-rewrite", "the rewritten RowDescription does not parse back into the same number of fields", replay)
		return
	}
	for i := range ref {
		want := ref[i]
		if oid, ok := items[i].wantOID(); ok {
			want.typ = oid
		}
		if !bytes.Equal(got[i].bytes(), want.bytes()) || back.Fields[i].DataTypeOID != want.typ || !bytes.Equal(back.Fields[i].Name, want.name) {
			rep.Violate("pg-rowdesc-rewrite", fmt.Sprintf("field %d of the rewritten RowDescription is not the original with only the type id replaced by the setting's", i), replay)
			return
		}
	}
	if exact && len(sent) != 5+len(payload) {
		rep.Violate("pg-rowdesc-rewrite", "the rewritten RowDescription changed its size", replay)
	}
}

func (x *x12descOps) parDb(lab string, payload []byte, items []*x12descSetting, present bool, next []byte) {
	rep := x.rep
	in := cat(frame('t', payload), next)
	o := x.db(lab, nil, false, items, present, in)
	rep.OracleChecks++
	if o.Kind != "ok" {
		rep.Violate("pg-paramdesc-relay", "a framed ParameterDescription message is not forwarded", lab+" input="+short(in)+" got="+o.String())
		return
	}
	sent, rest := o.Vals[0], o.Vals[1]
	if !bytes.Equal(rest, next) {
		rep.Violate("pg-paramdesc-relay", "the proxy consumed bytes of the next message", lab+" input="+short(in))
	}
	replay := lab + " items=" + x12descCoqItems(items, present) + " input=" + short(in) + " sent=" + short(sent)
	if !x12descWellFramed(sent, 't') {
		rep.Violate("pg-paramdesc-rewrite-length", "the forwarded ParameterDescription declares a length that is not its actual length", replay)
		return
	}
	// the type ids actually present (whatever the declared count says)
	var ids []uint32
	if len(payload) >= 2 {
		for b := payload[2:]; len(b) >= 4; b = b[4:] {
			ids = append(ids, binary.BigEndian.Uint32(b))
		}
	}
	_, exact := x12descRefPar(payload)
	rewrites := false
	if present && len(payload) >= 2 && len(ids) <= 65535 {
		for i := range ids {
			if i < len(items) {
				if _, ok := items[i].wantOID(); ok {
					rewrites = true
				}
			}
		}
	}
	if !rewrites {
		rep.Count("desc:par-db:untouched")
		if !bytes.Equal(sent, in[:len(in)-len(next)]) {
			rep.Violate("pg-paramdesc-relay", "a ParameterDescription the proxy has no reason to change is not forwarded byte for byte", replay)
		}
		return
	}
	rep.Count("desc:par-db:rewritten")
	if !exact {
		rep.Count("desc:par-db:rewritten:count-or-tail-off")
	}
	var back pgproto3.ParameterDescription
	got, ok := x12descRefPar(sent[5:])
	if err := back.Decode(sent[5:]); err != nil || !ok || len(got) != len(ids) || len(back.ParameterOIDs) != len(ids) {
		rep.Violate("pg-paramdesc-rewrite", "the rewritten ParameterDescription does not parse back into the same number of type ids", replay)
		return
	}
	for i := range ids {
		want := ids[i]
		if i < len(items) {
			if oid, ok := items[i].wantOID(); ok {
				want = oid
			}
		}
		if got[i] != want || back.ParameterOIDs[i] != want {
			rep.Violate("pg-paramdesc-rewrite", fmt.Sprintf("type id %d of the rewritten ParameterDescription is neither the original nor the setting's", i), replay)
			return
		}
	}
}

// otherDb: a message of a type the proxy does not rewrite goes out as it came in.
func (x *x12descOps) otherDb(lab string, tag byte, payload []byte, ritems, pitems []*x12descSetting, next []byte) {
	in := cat(frame(tag, payload), next)
	o := x.db(lab, ritems, true, pitems, true, in)
	x.rep.OracleChecks++
	if strings.IndexByte("RKSZCIsENA123nGHWdcVv", tag) >= 0 {
		x.rep.Count("desc:relay-db:known-backend-type")
	} else {
		x.rep.Count("desc:relay-db:other-type")
	}
	if o.Kind != "ok" || !bytes.Equal(o.Vals[0], in[:len(in)-len(next)]) || !bytes.Equal(o.Vals[1], next) {
		x.rep.Violate("pg-db-relay", fmt.Sprintf("a database message of type %q is not forwarded byte for byte", tag), lab+" input="+short(in)+" got="+o.String())
	}
}

// ---------- client side / first answer ----------

// client: new client handler; ReadClientPacket + sendPacket until the first error. ok = every byte of a stream of
// well-formed messages must come out.
func (x *x12descOps) client(lab string, stream []byte, wellformed bool, messages int) vh.Outcome {
	o := x.timed("PacketHandler.ReadClientPacket-loop", lab, stream, func() vh.Outcome {
		h, _, out := x12descHandler(true, stream)
		n := 0
		for {
			if err := h.ReadClientPacket(); err != nil {
				break
			}
			if err := h.VerifSendPacket(); err != nil {
				return vh.ErrO(err)
			}
			n++
			if n > len(stream)+1 {
				return vh.Outcome{Kind: "panic", Msg: "the loop relays more messages than the stream has bytes"}
			}
		}
		return vh.Ok(out.Bytes(), be4(uint32(n)))
	})
	x.w.add(lab, "(DClient "+vh.H(stream)+")", o)
	x.rep.OracleChecks++
	if wellformed {
		if o.Kind != "ok" || !bytes.Equal(o.Vals[0], stream) || binary.BigEndian.Uint32(o.Vals[1]) != uint32(messages) {
			x.rep.Violate("pg-client-startup-relay", "a start-up message followed by general messages is not relayed byte for byte", lab+" stream="+short(stream)+" got="+o.String())
		}
	} else if o.Kind == "ok" && !bytes.HasPrefix(stream, o.Vals[0]) {
		x.rep.Violate("pg-client-startup-relay", "the bytes relayed from a client stream are not a prefix of it", lab+" stream="+short(stream)+" got="+o.String())
	}
	return o
}

// dbFirst: the first answer of the database as ProxyDatabaseConnection reads it (stateFirstPacket): readMessageType is
// not exported, so ReadPacket is used for ordinary messages and the one-byte answers are compared by IsSSLRequest*.
func (x *x12descOps) dbFirst(lab string, stream []byte) vh.Outcome {
	o := x.timed("ProxyDatabaseConnection.first-packet", lab, stream, func() vh.Outcome {
		if len(stream) == 0 {
			return vh.Outcome{Kind: "err", Msg: "EOF"}
		}
		// which branch the type byte takes, asked of the real predicates on a handler that read it
		probe, _, _ := x12descHandler(false, []byte{stream[0], 0, 0, 0, 4})
		if err := probe.ReadPacket(); err != nil {
			return vh.ErrO(err)
		}
		if probe.IsSSLRequestDeny() || probe.IsSSLRequestAllowed() {
			return vh.Ok(stream[:1], stream[1:])
		}
		h, rd, out := x12descHandler(false, stream)
		if err := h.ReadPacket(); err != nil {
			return vh.ErrO(err)
		}
		if err := h.VerifSendPacket(); err != nil {
			return vh.ErrO(err)
		}
		return vh.Ok(out.Bytes(), stream[len(stream)-rd.Len():])
	})
	x.w.add(lab, "(DDbFirst "+vh.H(stream)+")", o)
	x.rep.OracleChecks++
	if o.Kind == "ok" && !bytes.Equal(cat(o.Vals[0], o.Vals[1]), stream) {
		x.rep.Violate("pg-db-first-relay", "the first answer of the database is not forwarded byte for byte", lab+" stream="+short(stream))
	}
	return o
}

// ---------- generators ----------

var x12descNames = [][]byte{[]byte("id"), []byte("?column?"), {}, []byte("data_raw"), []byte("caf\xc3\xa9"), []byte("a b\tc"), {0xff, 0xfe}, []byte("T"), bytes.Repeat([]byte("n"), 63)}

func x12descGenField(r *vh.Rng) x12descField {
	f := x12descField{name: x12descNames[r.Intn(len(x12descNames))]}
	if r.Intn(4) == 0 {
		f.name = bytes.ReplaceAll(r.Bytes(1+r.Intn(12)), []byte{0}, []byte{1})
	}
	f.table = []uint32{0, 16384, 0xffffffff, uint32(r.U64())}[r.Intn(4)]
	f.attr = []uint16{0, 1, 2, 0xffff, uint16(r.U64())}[r.Intn(5)]
	f.typ = x12descOIDs[r.Intn(len(x12descOIDs))]
	f.size = []uint16{0xffff, 0xfffe, 4, 8, 0x8000, 0x7fff}[r.Intn(6)]
	f.mod = []uint32{0xffffffff, 0, 68, 0x80000000, uint32(r.U64())}[r.Intn(5)]
	f.format = []uint16{0, 1, 0, 1, 0xffff, 2}[r.Intn(6)]
	return f
}

func x12descGenItems(rep *vh.Report, r *vh.Rng, n int) []*x12descSetting {
	items := make([]*x12descSetting, n)
	for i := range items {
		items[i] = x12descGenSetting(rep, r)
	}
	return items
}

func x12descNext(r *vh.Rng) []byte {
	switch r.Intn(3) {
	case 0:
		return nil
	case 1:
		return frame('Z', []byte{'I'})
	}
	return cat(frame('D', []byte{0, 1, 0xff, 0xff, 0xff, 0xff}), []byte{'C', 0, 0})
}

var x12descDbTags = []byte{'R', 'K', 'S', 'Z', 'C', 'I', 's', 'E', 'N', 'A', '1', '2', '3', 'n', 'G', 'H', 'W', 'd', 'c', 'V', 'v', 'X', 'Q', 'P', 'B', 0x01, 0x7f, 0x80, 0xff}

func x12descStartup(r *vh.Rng) []byte {
	switch r.Intn(5) {
	case 0:
		return postgresql.SSLRequestHeader
	case 1:
		return postgresql.GSSENCRequestHeader
	case 2:
		return cat(postgresql.CancelRequestHeader, r.Bytes(8))
	}
	body := cat(postgresql.StartupRequest, []byte("user\x00u\x00database\x00d\x00"), r.Bytes(r.Intn(20)), []byte{0})
	if r.Intn(4) == 0 {
		body = cat(postgresql.StartupRequest)
	}
	return cat(be4(uint32(len(body)+4)), body)
}

var x12descClientTags = []byte{'S', 'H', 'X', 'C', 'D', 'd', 'c', 'f', 'p', 'F', 'E', 'z', 0x01, 0xff}

func x12descValid(x *x12descOps, r *vh.Rng, lab string) {
	rep := x.rep
	switch k := r.Intn(10); {
	case k < 4: // RowDescription: codec + proxy
		n := []int{0, 1, 1, 2, 3, 3, 5, 9}[r.Intn(8)]
		fs := make([]x12descField, n)
		for i := range fs {
			fs[i] = x12descGenField(r)
		}
		payload := x12descRowPayload(uint16(n), fs)
		x.rowDec(lab+" row-decode", payload)
		x.rowEnc(lab+" row-encode", fs)
		present, m := true, n
		switch r.Intn(8) {
		case 0:
			present = false
		case 1:
			m = n + 1
		case 2:
			if n > 0 {
				m = n - 1
			}
		}
		items := x12descGenItems(rep, r, m)
		if r.Intn(3) == 0 && m > 0 { // make sure rewrites happen often
			items[r.Intn(m)] = x12descTyped([]uint32{pgtype.Int4OID, pgtype.Int8OID, pgtype.TextOID, pgtype.ByteaOID}[r.Intn(4)])
		}
		x.rowDb(lab+" row-db", payload, items, present, x12descNext(r))
	case k < 6: // ParameterDescription
		n := []int{0, 1, 2, 3, 7}[r.Intn(5)]
		oids := make([]uint32, n)
		for i := range oids {
			oids[i] = x12descOIDs[r.Intn(len(x12descOIDs))]
		}
		payload := x12descParPayload(uint16(n), oids)
		x.parDec(lab+" par-decode", payload)
		x.parEnc(lab+" par-encode", oids)
		m := []int{n, n, n, n + 2, n / 2, 0}[r.Intn(6)]
		items := x12descGenItems(rep, r, m)
		if r.Intn(3) == 0 && m > 0 {
			items[r.Intn(m)] = x12descTyped(pgtype.Int4OID)
		}
		x.parDb(lab+" par-db", payload, items, r.Intn(8) != 0, x12descNext(r))
	case k < 8: // every other database message type
		tag := x12descDbTags[r.Intn(len(x12descDbTags))]
		payload := r.Bytes(r.Intn(40))
		if r.Intn(3) == 0 { // looks like a description
			payload = x12descRowPayload(1, []x12descField{x12descGenField(r)})
		}
		x.otherDb(lab+" relay-db", tag, payload, x12descGenItems(rep, r, 1), x12descGenItems(rep, r, 1), x12descNext(r))
	case k < 9: // client: start-up message, then general messages
		stream := x12descStartup(r)
		n := r.Intn(4)
		for i := 0; i < n; i++ {
			stream = cat(stream, frame(x12descClientTags[r.Intn(len(x12descClientTags))], r.Bytes(r.Intn(12))))
		}
		rep.Count("desc:client:startup+general")
		x.client(lab+" client", stream, true, n+1)
	default:
		first := [][]byte{{'N'}, {'S'}, frame('R', []byte{0, 0, 0, 0}), frame('E', []byte("SFATAL\x00\x00")), frame('R', []byte{0, 0, 0, 5, 1, 2, 3, 4})}[r.Intn(5)]
		rep.Count("desc:db-first")
		x.dbFirst(lab+" db-first", cat(first, x12descNext(r)))
	}
}

// x12descTables: the boundary tables of the property text, every run, independent of the seed.
func x12descTables(x *x12descOps, thorough bool) {
	rep := x.rep
	mk := func(name string, typ uint32) x12descField {
		return x12descField{name: []byte(name), table: 16384, attr: 1, typ: typ, size: 0xffff, mod: 0xffffffff, format: 0}
	}
	three := []x12descField{mk("id", pgtype.Int4OID), mk("", pgtype.ByteaOID), mk("data", pgtype.ByteaOID)}
	three[0].size, three[2].mod, three[2].format = 4, 68, 1
	typed3 := []*x12descSetting{x12descTyped(pgtype.Int8OID), nil, x12descTyped(pgtype.TextOID)}
	// declared field count against 0..3 fields present
	rowCounts := []uint16{0, 1, 2, 3, 4, 0x7fff, 0x8000, 0xffff}
	if !thorough {
		rowCounts = []uint16{0, 1, 3, 4, 0x8000, 0xffff}
	}
	for _, count := range rowCounts {
		for present := 0; present <= 3; present++ {
			payload := x12descRowPayload(count, three[:present])
			lab := fmt.Sprintf("table row count=%d present=%d", count, present)
			rep.Count("desc:table:row-count")
			x.rowDec(lab, payload)
			x.rowDb(lab+" typed", payload, typed3[:present], true, frame('Z', []byte{'I'}))
			if thorough || count <= 4 {
				x.rowDb(lab+" typed-by-count", payload, x12descGenItemsFixed(int(count)), true, nil)
			}
		}
	}
	// cut at every field boundary of the message (every byte in the thorough tier), with and without bytes after it
	full := x12descRowPayload(3, three)
	var cuts []int
	pos := 2
	cuts = append(cuts, 0, 1, 2)
	for _, f := range three {
		for _, w := range []int{len(f.name), 1, 4, 2, 4, 2, 4, 2} {
			pos += w
			cuts = append(cuts, pos)
			if w > 1 {
				cuts = append(cuts, pos-1)
			}
		}
	}
	if !thorough { // quick tier: the boundaries themselves and one byte before each 4-byte value
		cuts = cuts[:0]
		pos = 2
		cuts = append(cuts, 0, 1, 2)
		for _, f := range three {
			for _, w := range []int{len(f.name), 1, 4, 2, 4, 2, 4, 2} {
				pos += w
				cuts = append(cuts, pos)
				if w == 4 {
					cuts = append(cuts, pos-1)
				}
			}
		}
	}
	if thorough {
		cuts = nil
		for i := 0; i <= len(full); i++ {
			cuts = append(cuts, i)
		}
	}
	for _, c := range cuts {
		lab := fmt.Sprintf("table row cut=%d", c)
		rep.Count("desc:table:row-cut")
		x.rowDec(lab, full[:c])
		x.rowDb(lab+" typed", full[:c], typed3, true, frame('Z', []byte{'I'}))
	}
	// session items that do not fit the description: absent, empty, one short, one long (nothing may change)
	x.rowDb("table row items-absent", full, nil, false, nil)
	x.rowDb("table row items-empty", full, []*x12descSetting{}, true, nil)
	x.rowDb("table row items-one-short", full, typed3[:2], true, frame('Z', []byte{'I'}))
	x.rowDb("table row items-one-long", full, append(append([]*x12descSetting{}, typed3...), x12descTyped(pgtype.Int4OID)), true, nil)
	x.rowDb("table row items-all-nil", full, make([]*x12descSetting, 3), true, nil)
	// names without terminator: the terminator removed, with and without a later 0 byte standing in
	for i := range three {
		fs := append([]x12descField{}, three...)
		var p []byte
		p = be2(3)
		for j, f := range fs {
			if j == i {
				p = append(p, f.name...)
				p = append(p, f.fixed()...)
			} else {
				p = append(p, f.bytes()...)
			}
		}
		lab := fmt.Sprintf("table row no-terminator field=%d", i)
		rep.Count("desc:table:row-no-terminator")
		x.rowDec(lab, p)
		x.rowDb(lab+" typed", p, typed3, true, nil)
		nz := bytes.ReplaceAll(p, []byte{0}, []byte{1})
		x.rowDec(lab+" no-zero-at-all", nz)
		x.rowDb(lab+" no-zero-at-all typed", nz, typed3, true, nil)
	}
	// bytes after the last field: the rewritten message must declare its own length
	extras := []int{1, 2, 3, 4, 17, 18, 19, 40}
	if !thorough {
		extras = []int{1, 4, 18, 19}
	}
	for _, extra := range extras {
		for _, n := range []int{0, 1, 3} {
			p := cat(x12descRowPayload(uint16(n), three[:n]), bytes.Repeat([]byte{'x'}, extra))
			lab := fmt.Sprintf("table row fields=%d trailing=%d", n, extra)
			rep.Count("desc:table:row-trailing")
			x.rowDec(lab, p)
			x.rowDb(lab+" typed", p, typed3[:n], true, frame('Z', []byte{'I'}))
			x.rowDb(lab+" untyped", p, make([]*x12descSetting, n), true, frame('Z', []byte{'I'}))
		}
	}
	// every registered type id, unregistered ids, every combination of the three flags
	matrixOIDs := x12descOIDs
	if !thorough {
		matrixOIDs = []uint32{pgtype.Int4OID, 0, 1043}
	}
	for _, oid := range matrixOIDs {
		for flags := 0; flags < 8; flags++ {
			s := x12descSetting{onlyEnc: flags&1 != 0, searchable: flags&2 != 0, masking: flags&4 != 0, dtid: oid}
			s.real = &x12descScripted{&config.BasicColumnEncryptionSetting{Name: "c"}, s}
			lab := fmt.Sprintf("table setting oid=%d flags=%d", oid, flags)
			rep.Count("desc:table:setting-matrix")
			x.rowDb(lab+" row", x12descRowPayload(2, three[:2]), []*x12descSetting{nil, &s}, true, nil)
			x.parDb(lab+" par", x12descParPayload(2, []uint32{pgtype.TextOID, 705}), []*x12descSetting{&s}, true, nil)
		}
	}
	// ParameterDescription: declared count against 0..3 ids present, tails of 1-3 bytes, payloads of 0/1 bytes
	ids := []uint32{pgtype.TextOID, 705, pgtype.ByteaOID}
	typedP := []*x12descSetting{x12descTyped(pgtype.Int4OID), nil, x12descTyped(pgtype.Int8OID)}
	parCounts := []uint16{0, 1, 2, 3, 4, 0x7fff, 0x8000, 0xffff}
	if !thorough {
		parCounts = []uint16{0, 3, 0xffff}
	}
	for _, count := range parCounts {
		for present := 0; present <= 3; present++ {
			for tail := 0; tail <= 3; tail++ {
				if !thorough && (tail == 2 || present == 2) {
					continue
				}
				p := cat(x12descParPayload(count, ids[:present]), bytes.Repeat([]byte{9}, tail))
				lab := fmt.Sprintf("table par count=%d present=%d tail=%d", count, present, tail)
				rep.Count("desc:table:par-count")
				x.parDec(lab, p)
				x.parDb(lab+" typed", p, typedP, true, frame('Z', []byte{'I'}))
				if tail == 0 {
					x.parDb(lab+" untyped", p, nil, true, nil)
				}
			}
		}
	}
	for _, p := range [][]byte{{}, {0}, {0, 0}, {0xff, 0xff}, {0, 1, 0}} {
		lab := "table short payload=" + hex.EncodeToString(p)
		x.rowDec(lab, p)
		x.parDec(lab, p)
		x.rowDb(lab+" typed", p, typed3[:1], true, nil)
		x.parDb(lab+" typed", p, typedP, true, nil)
	}
	// encoders at their limits
	x.rowEnc("table encode empty", nil)
	x.parEnc("table encode empty", nil)
	x.parEnc("table encode 3", ids)
	// message length fields: below 4, larger than the bytes present (a reader at its end: error, no allocation by the
	// declared length), huge
	for _, tag := range []byte{'T', 't', 'Z', 'E'} {
		for _, l := range []uint32{0, 3, 4, 5, 29, 0x7fffffff, 0x80000000, 0xfffffffe, 0xffffffff} {
			in := cat([]byte{tag}, be4(l), x12descRowPayload(1, three[:1]))
			lab := fmt.Sprintf("table length tag=%q declared=%d", tag, l)
			rep.Count("desc:table:declared-length")
			o := x.db(lab, typed3[:1], true, typedP, true, in)
			x.rep.OracleChecks++
			if o.Kind == "ok" && !bytes.HasPrefix(in, o.Vals[0]) && tag != 'T' && tag != 't' {
				x.rep.Violate("pg-db-relay", "a message with an odd length field is forwarded with other bytes", lab+" input="+short(in))
			}
		}
	}
	// every type byte on the database side: only D / T / t may differ
	for b := 0; b < 256; b++ {
		if b == 'D' || b == postgresql.WithoutMessageType {
			continue // DataRow: the column path (domain c12); type 0 is the handler's "no type byte" marker, not a message type
		}
		if !thorough && b%16 != 1 && strings.IndexByte("RKSZCIsENA123nGHWdcVvTtXQPB", byte(b)) < 0 {
			continue // quick tier: the known types and every fourth other byte
		}
		payload := x12descRowPayload(1, three[:1])
		lab := fmt.Sprintf("table relay type=%d", b)
		switch byte(b) {
		case 'T':
			x.rowDb(lab, payload, typed3[:1], true, nil)
		case 't':
			x.parDb(lab, payload, typedP, true, nil)
		default:
			x.otherDb(lab, byte(b), payload, typed3[:1], typedP, frame('Z', []byte{'I'}))
		}
	}
	// start-up phase: every request code x length field
	codes := [][]byte{postgresql.StartupRequest, postgresql.SSLRequest, postgresql.CancelRequest, postgresql.GSSENCRequest, {0, 2, 0, 0}, {4, 210, 22, 49}, {0, 0, 0, 0}}
	for ci, code := range codes {
		for _, l := range []uint32{0, 4, 7, 8, 9, 16, 17, 0x7fffffff, 0xffffffff} {
			for _, have := range []int{0, 8} {
				if !thorough && (ci >= 4 && l != 8 || have == 8 && l > 17) {
					continue
				}
				stream := cat(be4(l), code, bytes.Repeat([]byte{0x61}, have), frame('S', nil))
				lab := fmt.Sprintf("table startup code=%d length=%d have=%d", ci, l, have)
				rep.Count("desc:table:startup")
				x.client(lab, stream, false, 0)
			}
		}
	}
	for _, cut := range []int{0, 1, 4, 7} {
		x.client(fmt.Sprintf("table startup cut=%d", cut), postgresql.SSLRequestHeader[:cut], false, 0)
	}
	// well-formed start-up messages of every kind followed by general messages (Terminate, Sync, unknown)
	tail := cat(frame('S', nil), frame('p', []byte("secret\x00")), frame(0x01, []byte{1, 2, 3}), postgresql.TerminatePacket)
	for i, su := range [][]byte{postgresql.SSLRequestHeader, postgresql.GSSENCRequestHeader, cat(postgresql.CancelRequestHeader, []byte{1, 2, 3, 4, 5, 6, 7, 8}),
		cat(be4(8), postgresql.StartupRequest), cat(be4(23), postgresql.StartupRequest, []byte("user\x00postgres\x00\x00"))} {
		x.client(fmt.Sprintf("table startup wellformed=%d", i), cat(su, tail), true, 5)
	}
	// first answer of the database
	for b := 1; b < 256; b++ {
		if !thorough && b%32 != 1 && strings.IndexByte("RSNEKZ", byte(b)) < 0 {
			continue
		}
		x.dbFirst(fmt.Sprintf("table db-first type=%d", b), cat([]byte{byte(b)}, be4(8), []byte{0, 0, 0, 0}, frame('Z', []byte{'I'})))
	}
	x.dbFirst("table db-first empty", nil)
	x.dbFirst("table db-first cut", []byte{'R', 0, 0})
	// sizes that cannot be replayed in Coq: implementation oracle only
	big := 65535
	if !thorough {
		big = 4000
	}
	for _, n := range []int{big, 65536, 70000} {
		if !thorough && n > big {
			continue
		}
		fs := make([]x12descField, 0, n)
		oids := make([]uint32, 0, n)
		for i := 0; i < n; i++ {
			fs = append(fs, mk(fmt.Sprintf("c%d", i), pgtype.ByteaOID))
			oids = append(oids, pgtype.TextOID)
		}
		items := make([]*x12descSetting, n)
		items[n-1] = x12descTyped(pgtype.Int4OID)
		rep.Count("desc:table:many-fields")
		if n <= 65535 {
			x.rowDb(fmt.Sprintf("table row fields=%d", n), x12descRowPayload(uint16(n), fs), items, true, frame('Z', []byte{'I'}))
		}
		// above 65535 ids the declared count wraps and the re-encoding is refused: forwarded as read
		x.parDb(fmt.Sprintf("table par ids=%d", n), x12descParPayload(uint16(n), oids), items, true, frame('Z', []byte{'I'}))
	}
}

// x12descGenItemsFixed: n typed items, capped (a declared count of 65535 with few fields present is refused before the
// items are looked at).
func x12descGenItemsFixed(n int) []*x12descSetting {
	if n > 4 {
		n = 4
	}
	items := make([]*x12descSetting, n)
	for i := range items {
		items[i] = x12descTyped(pgtype.Int4OID)
	}
	return items
}

func x12descMalformed(x *x12descOps, r *vh.Rng, lab string) {
	n := 1 + r.Intn(3)
	fs := make([]x12descField, n)
	for i := range fs {
		fs[i] = x12descGenField(r)
	}
	p := x12descRowPayload(uint16(n), fs)
	isRow := r.Intn(3) != 0
	if !isRow {
		oids := make([]uint32, n)
		for i := range oids {
			oids[i] = uint32(r.U64())
		}
		p = x12descParPayload(uint16(n), oids)
	}
	switch r.Intn(6) {
	case 0:
		p = p[:r.Intn(len(p)+1)]
		x.rep.Count("desc:malformed:truncated")
	case 1:
		i := r.Intn(len(p))
		p = append([]byte{}, p...)
		p[i] ^= byte(1 << uint(r.Intn(8)))
		x.rep.Count("desc:malformed:bit-flip")
	case 2:
		p = cat(p, r.Bytes(1+r.Intn(25)))
		x.rep.Count("desc:malformed:trailing")
	case 3:
		p = cat(be2([]uint16{0, 1, 0x7fff, 0x8000, 0xffff, uint16(n + 1), uint16(n - 1)}[r.Intn(7)]), p[2:])
		x.rep.Count("desc:malformed:count")
	case 4:
		p = bytes.ReplaceAll(p, []byte{0}, []byte{byte(1 + r.Intn(255))})
		x.rep.Count("desc:malformed:no-zero")
	default:
		p = r.Bytes(r.Intn(60))
		x.rep.Count("desc:malformed:random")
	}
	if p == nil {
		p = []byte{}
	}
	items := x12descGenItems(x.rep, r, n)
	items[r.Intn(n)] = x12descTyped(pgtype.Int4OID)
	if isRow {
		x.rowDec(lab+" malformed row-decode", p)
		x.rowDb(lab+" malformed row-db", p, items, true, x12descNext(r))
	} else {
		x.parDec(lab+" malformed par-decode", p)
		x.parDb(lab+" malformed par-db", p, items, true, x12descNext(r))
	}
	if r.Intn(3) == 0 {
		s := x12descStartup(r)
		s = cat(s, frame('S', nil))
		i := r.Intn(len(s))
		s[i] ^= byte(1 << uint(r.Intn(8)))
		x.rep.Count("desc:malformed:startup-bit-flip")
		x.client(lab+" malformed client", s, false, 0)
	}
}

func x12descRun(rep *vh.Report, r *vh.Rng, n int, thorough bool) {
	x := &x12descOps{rep, &WireOps{rep}}
	c14 := os.Getenv("VERIF_PROP") == "C14"
	for sc := 0; sc < n; sc++ {
		lab := fmt.Sprintf("sc%d", sc)
		if c14 || r.Intn(4) == 0 {
			x12descMalformed(x, r, lab)
		} else {
			x12descValid(x, r, lab)
		}
	}
	x12descTables(x, thorough)
}
