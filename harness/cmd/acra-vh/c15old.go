package main

// Domain c15old (property C15, legacy part): RAW legacy poison records (AcraStruct form under a poison key
// pair, AcraBlock form under a symmetric poison key; current or rotated key) inside column values, read
// through the column path of a REAL PostgreSQL proxy built by postgresql.NewProxyFactory(...).New with a
// poison-record callback storage: OldContainerDetectorWrapper.OnColumn of the detector the factory built
// (op LegacyColumn) and PgProxy.onColumnDecryption (op PgColumn).  Placements: after a quiet prefix, before
// any suffix, next to ordinary raw envelopes of the client, next to a serialized container, in a masked
// column, container form behind the wrapper.  Negatives: client envelopes, random bytes with tag runs,
// truncated / bit-flipped records, records under a key the keystore no longer has.
// Oracle (independent of the model): positives: callbacks ran (>= 1), none after the call returned, and a
// failing callback means nothing is delivered; negatives: 0 runs.

import (
	"bytes"
	"encoding/binary"
	"encoding/hex"
	"fmt"
	"strings"

	"acra-vh/vh"
	"acra-vh/x11rig"

	"github.com/cossacklabs/acra/crypto"
	"github.com/cossacklabs/acra/decryptor/base"
	"github.com/cossacklabs/acra/encryptor/base/config"
	"github.com/cossacklabs/acra/poison"
)

func init() { register("c15old", "Model.RunLegacyChain", runC15Old) }

const c15oldYAML = `schemas:
  - table: t
    columns:
      - id
      - m
      - e
      - p
    encrypted:
      - column: m
        crypto_envelope: acrablock
        masking: "xxxx"
        plaintext_length: 2
        plaintext_side: left
      - column: e
        crypto_envelope: acrastruct
`

const c15oldPlainYAML = `schemas:
  - table: t
    columns:
      - id
      - e
      - p
    encrypted:
      - column: e
        crypto_envelope: acrablock
`

type c15oldRun struct {
	rep       *vh.Report
	keys      *vh.MemKeystore
	rig       *x11rig.Rig
	cb        *countingCallback
	delivered *bool
	hasCb     bool
	fail      bool
	reader    string
	p         *x11rig.Proxy
}

func (u *c15oldRun) reset() { u.cb.n, u.cb.late, *u.delivered = 0, false, false }

// column = OldContainerDetectorWrapper.OnColumn of the factory-built detector; col name selects the setting
func (u *c15oldRun) column(label, colName string, col []byte) vh.Outcome {
	setting, coqS := u.setting(colName)
	w := x11rig.Wrapper(u.p.PgSubscribers())
	in := append([]byte{}, col...)
	u.reset()
	o := vh.Guard(func() vh.Outcome {
		ctx, out, err := w.OnColumn(u.p.ColumnCtx(setting), in)
		*u.delivered = true
		f := byte(0)
		if base.IsDecryptedFromContext(ctx) {
			f = 1
		}
		return evOutcome(u.cb, err, append([]byte{}, out...), []byte{f})
	})
	u.rep.Add(label, fmt.Sprintf("LegacyColumn %s %s %s %s %s %s", coqBool(u.hasCb), coqBool(u.fail), coqPK(u.keys), coqS,
		u.keys.Clients[u.reader].Coq(), vh.H(col)), o)
	return o
}

func (u *c15oldRun) setting(colName string) (config.ColumnEncryptionSetting, string) {
	var setting config.ColumnEncryptionSetting
	coqS := "None"
	if tbl := u.rig.Schema.GetTableSchema("t"); tbl != nil {
		if s := tbl.GetColumnEncryptionSettings(colName); s != nil {
			setting = s
			coqS = "(Some " + coqSetting(s.GetMaskingPattern(), s.GetPartialPlaintextLen(), map[bool]string{true: "left", false: ""}[s.IsEndMasking()], 0) + ")"
		}
	}
	return setting, coqS
}

// pgColumn = PgProxy.onColumnDecryption (decoder ; wrapper ; encoder), bytea hex text as the database sends it
func (u *c15oldRun) pgColumn(label, colName string, i int, col []byte, binaryFmt bool) vh.Outcome {
	setting, coqS := u.setting(colName)
	data := append([]byte{}, col...)
	if !binaryFmt {
		data = c11oldHex(col)
	}
	sent := append([]byte{}, data...)
	u.reset()
	o := vh.Guard(func() vh.Outcome {
		out, err := u.p.Column(i, data, binaryFmt, setting)
		*u.delivered = true
		return evOutcome(u.cb, err, append([]byte{}, out...))
	})
	store := fmt.Sprintf("[(%s, %s)]", vh.H([]byte(c11oldOwner)), u.keys.Clients[c11oldOwner].Coq())
	u.rep.Add(label, fmt.Sprintf("PgColumn %s %s %s %s %s %s %s %s", coqBool(u.hasCb), coqBool(u.fail), coqPK(u.keys), store,
		vh.H([]byte(u.reader)), coqS, coqBool(binaryFmt), vh.H(sent)), o)
	return o
}

func c15oldClean(r *vh.Rng, n int) []byte { // no tag symbol of any kind, no backslash
	b := r.Bytes(n)
	for i := range b {
		if b[i] == '"' || b[i] == '%' || b[i] == '\\' {
			b[i] = 'a'
		}
	}
	return b
}

// c15oldDecisive: the premises of the detection theorems on the concrete column: no container header anywhere,
// nothing that starts a raw tag in front of the record; AcraBlock form: no AcraStruct tag run in front of / inside it
func c15oldDecisive(pre, raw []byte, sym bool, col []byte) bool {
	if hasCandidate(col) {
		return false
	}
	if !c11oldQuiet(pre, raw, c11oldTag4) {
		return false
	}
	if sym && bytes.Contains(append(append([]byte{}, pre...), raw...), c11oldTag8) {
		return false
	}
	return true
}

func runC15Old(rep *vh.Report, r *vh.Rng, n int, thorough bool) {
	e := &EnvOps{rep: vh.NewReport("scratch", 0), r: r}
	flippedAll := false
	for sc := 0; sc < n; sc++ {
		nAsym, nSym := 1+r.Intn(3), 1+r.Intn(3)
		var seeds, syms [][]byte
		for i := 0; i < nAsym; i++ {
			seeds = append(seeds, r.Bytes(32))
		}
		for i := 0; i < nSym; i++ {
			syms = append(syms, r.Bytes(32))
		}
		client := vh.NewKeySet(r, 1+r.Intn(2), 1+r.Intn(2), false)
		full := vh.NewMemKeystore()
		full.Clients[c11oldOwner] = client
		full.PoisonSeeds, full.PoisonSyms = seeds, syms
		sym := sc%2 == 0
		k := r.Intn(nAsym)
		if sym {
			k = r.Intn(nSym)
		}
		then := vh.NewMemKeystore()
		then.PoisonSeeds, then.PoisonSyms = seeds, syms
		if sym {
			then.PoisonSyms = syms[k:]
		} else {
			then.PoisonSeeds = seeds[k:]
		}
		dlen := r.Pick(1, 2, 16, 99, 100, 1+r.Intn(200))
		lab := fmt.Sprintf("sc%d sym=%v keyindex=%d/%d datalen=%d", sc, sym, k, map[bool]int{true: nSym, false: nAsym}[sym], dlen)
		rep.Count(fmt.Sprintf("record:sym=%v", sym))
		rep.Count(fmt.Sprintf("key:%s", map[bool]string{true: "current", false: "rotated"}[k == 0]))
		// the record as acra-poisonrecordmaker makes it, and its raw (legacy) form = the envelope inside
		t := vh.StartTape(r)
		recO := vh.Guard(func() vh.Outcome {
			if sym {
				return one(poison.CreateSymmetricPoisonRecord(vh.PoisonStore{MemKeystore: then}, dlen))
			}
			return one(poison.CreatePoisonRecord(vh.PoisonStore{MemKeystore: then}, dlen))
		})
		vh.StopTape()
		_ = t
		rep.OracleChecks++
		if recO.Kind != "ok" {
			rep.Violate("create", "poison record creation failed: "+recO.String(), lab)
			continue
		}
		cont := recO.Vals[0]
		raw, _, err := crypto.DeserializeEncryptedData(append([]byte{}, cont...))
		if err != nil || len(raw) == 0 {
			rep.Violate("create", "poison record does not deserialize", lab)
			continue
		}
		raw = append([]byte{}, raw...)
		hasCb := sc%7 != 5
		fail := hasCb && sc%3 == 1 // failing callbacks for both record forms in every run
		reader := c11oldOwner
		if r.Intn(3) == 0 {
			reader = c11oldNoKeys
		}
		rep.Count(fmt.Sprintf("callbacks:%v fail:%v", hasCb, fail))
		rep.Count("reader:" + reader)
		mkRun := func(keys *vh.MemKeystore, hasCb, fail bool, yaml string) *c15oldRun {
			delivered := false
			st, cb := c15CallbackStorage(hasCb, fail, &delivered)
			var storage base.PoisonRecordCallbackStorage = st
			if !hasCb && r.Bool() {
				storage = nil // no storage configured at all
			}
			rig, err := x11rig.New(keys, []byte(yaml), storage)
			if err != nil {
				rep.Violate("harness-error", "rig: "+err.Error(), yaml)
				return nil
			}
			p, err := rig.OpenPg([]byte(reader))
			if err != nil {
				rep.Violate("harness-error", "proxyFactory.New: "+err.Error(), yaml)
				return nil
			}
			u := &c15oldRun{rep: rep, keys: keys, rig: rig, cb: cb, delivered: &delivered, hasCb: hasCb, fail: fail, reader: reader, p: p}
			// the chain the factory installed, in order
			rep.OracleChecks++
			want := "OldContainerDetectorWrapper;DecryptHandler"
			if hasCb {
				want = "OldContainerDetectorWrapper;PoisonRecordDetector;DecryptHandler"
			}
			w := x11rig.Wrapper(p.PgSubscribers())
			subs := strings.Join(x11rig.IDs(p.PgSubscribers()), ";")
			if w == nil || strings.Join(w.VerifX11CallbackIDs(), ";") != want ||
				subs != "PgSQLDataDecoderProcessor;OldContainerDetectorWrapper;PgSQLDataEncoderProcessor" {
				rep.Violate("chain-order", "subscribers / detector callbacks differ from the modelled chain: "+subs, lab)
			}
			if sc%4 == 0 {
				if pm, err := rig.OpenMy([]byte(reader)); err == nil {
					rep.OracleChecks++
					if wm := x11rig.Wrapper(pm.MySubscribers()); wm == nil || strings.Join(wm.VerifX11CallbackIDs(), ";") != want {
						rep.Violate("chain-order", "mysql proxy: detector callbacks differ from the modelled chain", lab)
					}
					pm.Close()
				}
			}
			return u
		}
		yaml := c15oldYAML
		if sc%5 == 4 {
			yaml = c15oldPlainYAML // no masked column anywhere: the decrypt handler works on the registry handler itself
			rep.Count("schema:no-masking")
		}
		u := mkRun(full, hasCb, fail, yaml)
		if u == nil {
			continue
		}
		positive := func(what string, o vh.Outcome, replay string) {
			rep.OracleChecks++
			switch {
			case o.Kind == "panic":
				rep.Violate("panic", what+" panicked: "+o.Msg, replay)
			case hasCb && u.cb.n < 1:
				rep.Violate("missed-poison", what+": raw poison record did not trigger the callbacks", replay)
			case u.cb.late:
				rep.Violate("late-callback", what+": callbacks ran after the value was delivered", replay)
			case !hasCb && u.cb.n != 0:
				rep.Violate("callbacks-off", what+": callback ran although none configured", replay)
			case hasCb && fail && !(len(o.Vals) == 2 && o.Vals[1][0] == 1):
				rep.Violate("delivered-after-failed-callback", what+": a value was delivered although the callbacks failed", replay)
			}
		}
		cols := []string{"m", "e", "p"}
		if yaml == c15oldPlainYAML {
			cols = []string{"e", "p"}
		}
		colName := cols[r.Intn(len(cols))]
		rep.Count("column:" + colName)
		// --- P1: quiet prefix, record, any suffix
		pre := c15oldClean(r, r.Intn(30))
		suf, sufClass := c01oldAffix(r)
		rep.Count("suffix:" + sufClass)
		col := c01oldCat(pre, raw, suf)
		o := u.column(lab+fmt.Sprintf(" raw record at offset %d in column %s", len(pre), colName), colName, col)
		if c15oldDecisive(pre, raw, sym, col) {
			rep.Count("decisive:embedded")
			positive("column", o, lab+" col="+hex.EncodeToString(col))
		} else {
			rep.Count("undecided:embedded")
		}
		// through decoder ; wrapper ; encoder
		if sc%2 == 0 {
			col2 := c01oldCat(pre, raw, c15oldClean(r, r.Intn(12)))
			binaryFmt := sc%4 == 2
			o := u.pgColumn(lab+fmt.Sprintf(" onColumnDecryption column %s binary=%v", colName, binaryFmt), colName, 1, col2, binaryFmt)
			if c15oldDecisive(pre, raw, sym, col2) {
				positive("onColumnDecryption", o, lab+" col="+hex.EncodeToString(col2))
			}
		}
		// --- P2: next to ordinary raw envelopes of the client (revealed as usual; the alarm still goes off)
		{
			x := c15oldClean(r, 1+r.Intn(20))
			var ce vh.Outcome
			if r.Bool() {
				ce = e.AbCreate("", x, client.Syms[0], nil)
			} else {
				ce = e.AsCreate("", x, client.Pub(0), nil)
			}
			if ce.Kind == "ok" {
				f := c15oldClean(r, r.Intn(8))
				first := r.Bool()
				var c2 []byte
				if first {
					c2 = c01oldCat(pre, raw, f, ce.Vals[0])
				} else {
					c2 = c01oldCat(pre, ce.Vals[0], f, raw)
				}
				rep.Count(fmt.Sprintf("next-to-raw-client-envelope:record-first=%v", first))
				o := u.column(lab+" next to a raw client envelope", colName, c2)
				if !hasCandidate(c2) && !bytes.Contains(ce.Vals[0][8:], c11oldTag4) && !bytes.Contains(raw[8:], c11oldTag4) {
					positive("column next to raw client envelope", o, lab+" col="+hex.EncodeToString(c2))
					rep.OracleChecks++
					if !fail && reader == c11oldOwner && colName != "p" && o.Kind == "ok" && len(o.Vals) == 4 && !bytes.Contains(o.Vals[2], x) {
						rep.Violate("client-envelope-not-revealed", "the client's raw envelope next to the poison record was not revealed", lab+" col="+hex.EncodeToString(c2))
					}
				}
			}
		}
		// --- P3 (known finding raw-poison-next-to-container): a container header in the same value
		if sc%3 == 0 {
			var other []byte
			if r.Bool() {
				h := binary.LittleEndian.AppendUint64([]byte("%%%"), uint64(13+r.Intn(3)))
				other = append(h, crypto.AcraBlockEnvelopeID, 'z', 'z', 'z')
				rep.Count("next-to-container:forged-header")
			} else if ce := e.EncHandler("", crypto.AcraBlockEnvelopeID, client, c15oldClean(r, 5)); ce.Kind == "ok" {
				other = ce.Vals[0]
				rep.Count("next-to-container:client-container")
			}
			if other != nil {
				c3 := c01oldCat(pre, other, raw)
				if r.Bool() {
					c3 = c01oldCat(pre, raw, other)
				}
				o := u.column(lab+" next to a container header", colName, c3)
				rep.OracleChecks++
				if hasCb && u.cb.n < 1 && o.Kind != "panic" {
					rep.Violate("raw-poison-next-to-container", "a raw poison record that shares the column value with a serialized container (header) did not trigger the callbacks", lab+" col="+hex.EncodeToString(c3))
				}
			}
		}
		// --- P4: the container form behind the wrapper
		{
			c4 := c01oldCat(pre, cont, c15oldClean(r, r.Intn(10)))
			o := u.column(lab+" container form behind the wrapper", colName, c4)
			positive("container form", o, lab+" col="+hex.EncodeToString(c4))
		}
		// --- negatives (callbacks configured, not failing)
		un := u
		if !hasCb || fail {
			u.p.Close()
			un = mkRun(full, true, false, yaml)
			if un == nil {
				continue
			}
		}
		negative := func(class, what string, o vh.Outcome, replay string) {
			rep.OracleChecks++
			if o.Kind == "panic" {
				rep.Violate("panic", what+" panicked: "+o.Msg, replay)
			} else if un.cb.n != 0 {
				rep.Violate(class, what+": callbacks ran on data that is no poison record", replay)
			}
		}
		// a raw client envelope of the same kind
		{
			x := c15oldClean(r, 1+r.Intn(30))
			var ce vh.Outcome
			if sym {
				ce = e.AbCreate("", x, client.Syms[0], nil)
			} else {
				ce = e.AsCreate("", x, client.Pub(0), nil)
			}
			if ce.Kind == "ok" {
				c5 := c01oldCat(pre, ce.Vals[0], suf)
				o := un.column(lab+" raw client envelope", colName, c5)
				negative("false-alarm-client-envelope", "raw client envelope", o, "col="+hex.EncodeToString(c5))
			}
		}
		// random bytes with tag runs
		{
			rnd := r.Bytes(20 + r.Intn(280))
			for i := 0; i+8 <= len(rnd); i += 9 + r.Intn(60) {
				copy(rnd[i:], `""""""""`[:r.Pick(4, 8)])
			}
			o := un.column(lab+" random bytes with tag runs", colName, rnd)
			negative("false-alarm-random", "random bytes", o, "col="+hex.EncodeToString(rnd))
		}
		// truncated record (alone, and followed by other bytes so that the declared length still fits)
		{
			cut := 1 + r.Intn(min(len(raw)-1, 40))
			tr := append([]byte{}, raw[:len(raw)-cut]...)
			if r.Bool() {
				tr = append(tr, r.Bytes(cut+r.Intn(8))...)
			}
			c6 := c01oldCat(pre, tr)
			o := un.column(lab+fmt.Sprintf(" truncated by %d", cut), colName, c6)
			negative("false-alarm-truncated", "truncated raw poison record", o, "col="+hex.EncodeToString(c6))
		}
		// bit flips
		flip := func(bit int) {
			fl := append([]byte{}, raw...)
			fl[bit/8] ^= 1 << (bit % 8)
			c7 := c01oldCat(pre, fl)
			o := un.column(lab+fmt.Sprintf(" bit %d flipped", bit), colName, c7)
			negative("false-alarm-bitflip", fmt.Sprintf("raw poison record with bit %d flipped", bit), o, "col="+hex.EncodeToString(c7))
		}
		flip(r.Intn(len(raw) * 8))
		if thorough && !flippedAll && sc >= 1 {
			flippedAll = true
			for bit := 0; bit < len(raw)*8; bit += 3 {
				flip(bit)
			}
			rep.Count("every-third-bit-flipped-sample")
		}
		// a record under a poison key the keystore no longer has / no poison keys at all
		{
			gone := vh.NewMemKeystore()
			gone.Clients[c11oldOwner] = client
			gone.PoisonSeeds, gone.PoisonSyms = [][]byte{r.Bytes(32)}, [][]byte{r.Bytes(32)}
			if r.Intn(3) == 0 {
				gone.PoisonSeeds, gone.PoisonSyms = nil, nil
				rep.Count("negative:no-poison-keys")
			}
			saved := un
			if ug := mkRun(gone, true, false, yaml); ug != nil {
				un = ug
				o := un.column(lab+" record under an unknown poison key", colName, col)
				negative("false-alarm-foreign-key", "record under unknown key", o, lab)
				ug.p.Close()
			}
			un = saved
		}
		un.p.Close()
		if u != un {
			u.p.Close()
		}
	}
}
