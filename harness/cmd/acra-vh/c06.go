package main

// C06 — rotation keeps old data readable; destruction removes exactly the chosen key.
// Random operation histories are run on the REAL keystore v1 (on an in-memory filesystem.Storage,
// cache sizes off / 1 / unbounded) and the REAL keystore v2 (in-memory backend).  Every step's raw
// result goes into a Coq case (one case = one history) for replay on Model/KeystoreV1.v /
// Model/KeystoreV2.v, and is checked here against a tiny Go implementation of the abstract
// specification (Model/KeySpec.v), independently of the Coq models.

import (
	"encoding/hex"
	"fmt"
	"sort"
	"strings"
	"time"

	"acra-vh/vh"

	"github.com/cossacklabs/acra/keystore"
	"github.com/cossacklabs/acra/keystore/filesystem"
	keystoreV2 "github.com/cossacklabs/acra/keystore/v2/keystore"
	"github.com/cossacklabs/acra/keystore/v2/keystore/api"
	cryptoV2 "github.com/cossacklabs/acra/keystore/v2/keystore/crypto"
	fsV2 "github.com/cossacklabs/acra/keystore/v2/keystore/filesystem"
	backendV2 "github.com/cossacklabs/acra/keystore/v2/keystore/filesystem/backend"
)

func init() { register("c06", "Model.RunKeyRotation", runC06) }

// ---------- slots ----------

const (
	kStoragePair = iota
	kStorageSym
	kHmac
	kPoisonPair
	kPoisonSym
	kAudit
)

var c6KindCoq = []string{"KStoragePair", "KStorageSym", "KHmac", "KPoisonPair", "KPoisonSym", "KAudit"}
var c6Clients = []string{"", "alpha", "bravo-2", "cl_id_3"}

type c6slot struct{ kind, owner int }

func (s c6slot) coq() string { return fmt.Sprintf("(%s, %d)", c6KindCoq[s.kind], s.owner) }
func (s c6slot) id() []byte  { return []byte(c6Clients[s.owner]) }
func (s c6slot) String() string {
	return fmt.Sprintf("%s/%s", strings.TrimPrefix(c6KindCoq[s.kind], "K"), c6Clients[s.owner])
}
func c6HasAll(kind int) bool     { return kind != kHmac && kind != kAudit }
func c6HasDestroy(kind int) bool { return kind != kAudit }

// ---------- the common face of both keystores ----------

type c6keystore interface {
	keystore.ServerKeyStore
	keystore.KeyMaking
}

type c6driver interface {
	ks() c6keystore
	probe() c6keystore         // uncached view of the same storage (used only to learn a new key's bytes)
	reopen() error             // a new keystore object over the same storage
	rotatedID(s c6slot) string // KeyID under which ListRotatedKeys reports the slot
	genStamps(s c6slot) (uint64, uint64, bool)
	dump() string
}

func c6Gen(k c6keystore, s c6slot) error {
	switch s.kind {
	case kStoragePair:
		return k.GenerateDataEncryptionKeys(s.id())
	case kStorageSym:
		return k.GenerateClientIDSymmetricKey(s.id())
	case kHmac:
		return k.GenerateHmacKey(s.id())
	case kPoisonPair:
		return k.GeneratePoisonKeyPair()
	case kPoisonSym:
		return k.GeneratePoisonSymmetricKey()
	}
	return k.GenerateLogKey()
}

func c6Cur(k c6keystore, s c6slot) ([]byte, error) {
	switch s.kind {
	case kStoragePair:
		p, err := k.GetServerDecryptionPrivateKey(s.id())
		if err != nil {
			return nil, err
		}
		return p.Value, nil
	case kStorageSym:
		return k.GetClientIDSymmetricKey(s.id())
	case kHmac:
		return k.GetHMACSecretKey(s.id())
	case kPoisonPair:
		p, err := k.GetPoisonKeyPair()
		if err != nil {
			return nil, err
		}
		return p.Private.Value, nil
	case kPoisonSym:
		return k.GetPoisonSymmetricKey()
	}
	return k.GetLogSecretKey()
}

func c6All(k c6keystore, s c6slot) ([][]byte, error) {
	switch s.kind {
	case kStoragePair:
		ps, err := k.GetServerDecryptionPrivateKeys(s.id())
		if err != nil {
			return nil, err
		}
		out := make([][]byte, len(ps))
		for i, p := range ps {
			out[i] = p.Value
		}
		return out, nil
	case kStorageSym:
		return k.GetClientIDSymmetricKeys(s.id())
	case kPoisonPair:
		ps, err := k.GetPoisonPrivateKeys()
		if err != nil {
			return nil, err
		}
		out := make([][]byte, len(ps))
		for i, p := range ps {
			out[i] = p.Value
		}
		return out, nil
	case kPoisonSym:
		return k.GetPoisonSymmetricKeys()
	}
	return nil, fmt.Errorf("no such API")
}

func c6DestroyCur(k c6keystore, s c6slot) error {
	switch s.kind {
	case kStoragePair:
		return k.DestroyClientIDEncryptionKeyPair(s.id())
	case kStorageSym:
		return k.DestroyClientIDSymmetricKey(s.id())
	case kHmac:
		return k.DestroyHmacSecretKey(s.id())
	case kPoisonPair:
		return k.DestroyPoisonKeyPair()
	case kPoisonSym:
		return k.DestroyPoisonSymmetricKey()
	}
	return fmt.Errorf("no such API")
}

func c6DestroyRot(k c6keystore, s c6slot, i int) error {
	switch s.kind {
	case kStoragePair:
		return k.DestroyRotatedClientIDEncryptionKeyPair(s.id(), i)
	case kStorageSym:
		return k.DestroyRotatedClientIDSymmetricKey(s.id(), i)
	case kHmac:
		return k.DestroyRotatedHmacSecretKey(s.id(), i)
	case kPoisonPair:
		return k.DestroyRotatedPoisonKeyPair(i)
	case kPoisonSym:
		return k.DestroyRotatedPoisonSymmetricKey(i)
	}
	return fmt.Errorf("no such API")
}

// ---------- keystore v1 on an in-memory Storage ----------

type c6v1 struct {
	fs     *vh.MemFS
	enc    keystore.KeyEncryptor
	size   int
	k, p   *filesystem.KeyStore
	seenTS map[string]bool
	dir    string // the directory string the keystore under test is opened with (a spelling of c6Root)
	dirTag string
}

// c6Root is the keystore directory in CLEAN form (used by the file oracles and the probe keystore).
const c6Root = "/ks/v1"

// c6DirSpellings: directory strings that all denote c6Root (the in-memory Storage resolves a path like
// the operating system does: relative to "/", "." / ".." / repeated separators folded on every access).
// The keystore under test is opened with each of them in turn: what it offers must not depend on how
// its directory was written (cache keys built from the directory string must be normalised everywhere).
var c6DirSpellings = []struct{ tag, dir string }{
	{"clean", "/ks/v1"},
	{"trailing-slash", "/ks/v1/"},
	{"dot-prefix", "./ks/v1"},
	{"double-separator", "/ks//v1"},
	{"inner-dot", "/ks/./v1"},
	{"dotdot", "/ks/v1/../v1"},
	{"relative-trailing-dot", "ks/v1/."},
}

// c6DirSeq: every keystore v1 constructed by the C06 domains takes the next spelling (deterministic:
// the number of spellings is coprime to the cycles of cache sizes and key kinds of the generators).
var c6DirSeq int

func newC6v1(r *vh.Rng, size int) (*c6v1, error) {
	sp := c6DirSpellings[c6DirSeq%len(c6DirSpellings)]
	c6DirSeq++
	return newC6v1At(r, size, sp.tag, sp.dir)
}

func newC6v1At(r *vh.Rng, size int, dirTag, dir string) (*c6v1, error) {
	enc, err := keystore.NewSCellKeyEncryptor(r.Bytes(32))
	if err != nil {
		return nil, err
	}
	d := &c6v1{fs: vh.NewMemFS(c6Root), enc: enc, size: size, seenTS: map[string]bool{}, dir: dir, dirTag: dirTag}
	// the probe keystore (identifies key versions) always uses the clean path and no cache
	if d.p, err = filesystem.NewCustomFilesystemKeyStore().KeyDirectory(c6Root).Encryptor(enc).Storage(d.fs).CacheSize(keystore.WithoutCache).Build(); err != nil {
		return nil, err
	}
	return d, d.reopen()
}
func (d *c6v1) ks() c6keystore    { return d.k }
func (d *c6v1) probe() c6keystore { return d.p }
func (d *c6v1) reopen() (err error) {
	d.k, err = filesystem.NewCustomFilesystemKeyStore().KeyDirectory(d.dir).Encryptor(d.enc).Storage(d.fs).CacheSize(d.size).Build()
	return err
}

// c6DescDir: the part of a replay description that names the directory string.
func c6DescDir(drv c6driver, rep *vh.Report) string {
	d, ok := drv.(*c6v1)
	if !ok {
		return ""
	}
	rep.Count("v1-dir-spelling:" + d.dirTag)
	rep.Count(fmt.Sprintf("v1-dir-spelling:%s cache:%d", d.dirTag, d.size))
	return fmt.Sprintf(" KeyDirectory(%q)", d.dir)
}
func (d *c6v1) file(s c6slot) string {
	switch s.kind {
	case kStoragePair:
		return string(s.id()) + "_storage"
	case kStorageSym:
		return string(s.id()) + "_storage_sym"
	case kHmac:
		return string(s.id()) + "_hmac"
	case kPoisonPair:
		return ".poison_key/poison_key"
	case kPoisonSym:
		return ".poison_key/poison_key_sym"
	}
	return "secure_log_key"
}
func (d *c6v1) rotatedID(s c6slot) string {
	f := d.file(s)
	return f[strings.LastIndex(f, "/")+1:]
}

// newStamp finds the not yet seen entry of <file>.old and returns its time in Unix nanoseconds.
func (d *c6v1) newStamp(file string) (uint64, bool) {
	dir := c6Root + "/" + file + ".old"
	for _, n := range d.fs.Names(dir) {
		if !d.seenTS[dir+"/"+n] {
			d.seenTS[dir+"/"+n] = true
			t, err := time.Parse(filesystem.HistoricalFileNameTimeFormat, n)
			if err != nil {
				return 0, false
			}
			return uint64(t.UnixNano()), true
		}
	}
	return 0, false
}
func (d *c6v1) genStamps(s c6slot) (uint64, uint64, bool) {
	t1, ok1 := d.newStamp(d.file(s))
	t2, ok2 := uint64(0), false
	if s.kind == kStoragePair || s.kind == kPoisonPair {
		t2, ok2 = d.newStamp(d.file(s) + ".pub")
	}
	_ = ok2
	return t1, t2, ok1
}
func (d *c6v1) dump() string { return d.fs.Dump() }

// ---------- keystore v2 on the in-memory backend ----------

type c6v2 struct {
	be    *backendV2.InMemory
	suite *cryptoV2.KeyStoreSuite
	k, p  *keystoreV2.ServerKeyStore
	keep  []api.MutableKeyStore
}

func newC6v2(r *vh.Rng) (*c6v2, error) {
	suite, err := cryptoV2.NewSCellSuite(r.Bytes(32), r.Bytes(32))
	if err != nil {
		return nil, err
	}
	d := &c6v2{be: backendV2.NewInMemory(), suite: suite}
	st, err := fsV2.CustomKeyStore(d.be, suite)
	if err != nil {
		return nil, err
	}
	d.keep = append(d.keep, st)
	d.p = keystoreV2.NewServerKeyStore(st)
	return d, d.reopen()
}
func (d *c6v2) ks() c6keystore    { return d.k }
func (d *c6v2) probe() c6keystore { return d.p }
func (d *c6v2) reopen() error {
	st, err := fsV2.CustomKeyStore(d.be, d.suite)
	if err != nil {
		return err
	}
	d.keep = append(d.keep, st) // never finalized while the history runs
	d.k = keystoreV2.NewServerKeyStore(st)
	return nil
}
func (d *c6v2) rotatedID(s c6slot) string {
	switch s.kind {
	case kStoragePair:
		return "client/" + string(s.id()) + "/storage"
	case kStorageSym:
		return "client/" + string(s.id()) + "/storage-sym"
	case kHmac:
		return "client/" + string(s.id()) + "/hmac-sym"
	case kPoisonPair:
		return "poison-record"
	case kPoisonSym:
		return "poison-record-sym"
	}
	return "audit-log"
}
func (d *c6v2) genStamps(s c6slot) (uint64, uint64, bool) { return 0, 0, false }
func (d *c6v2) dump() string {
	l, _ := d.be.ListAll()
	sort.Strings(l)
	return strings.Join(l, " ")
}

// ---------- the specification, in Go (Model/KeySpec.v) ----------

type c6specSlot struct {
	cur int // 0 = none
	rot []int
}
type c6spec map[c6slot]*c6specSlot

func (sp c6spec) at(s c6slot) *c6specSlot {
	if sp[s] == nil {
		sp[s] = &c6specSlot{}
	}
	return sp[s]
}
func (e *c6specSlot) all(hide bool) []int {
	if e.cur != 0 {
		return append([]int{e.cur}, e.rot...)
	}
	if hide {
		return nil
	}
	return append([]int{}, e.rot...)
}
func (e *c6specSlot) gen(o int) {
	if e.cur != 0 {
		e.rot = append([]int{e.cur}, e.rot...)
	}
	e.cur = o
}

// destroyRot removes the rotated key listed with index i and returns its label (0: no such index).
func (e *c6specSlot) destroyRot(i int) int {
	n := len(e.rot)
	if i < 2 || i > n+1 {
		return 0
	}
	p := n - 1 - (i - 2) // index 2 = oldest = last of the newest-first list
	gone := e.rot[p]
	e.rot = append(append([]int{}, e.rot[:p]...), e.rot[p+1:]...)
	return gone
}

func c6ints(l []int) string { return strings.Trim(fmt.Sprint(l), "[]") }
func c6eq(a, b []int) bool {
	if len(a) != len(b) {
		return false
	}
	for i := range a {
		if a[i] != b[i] {
			return false
		}
	}
	return true
}
func c6has(l []int, x int) bool {
	for _, y := range l {
		if y == x {
			return true
		}
	}
	return false
}

// ---------- one history ----------

type c6run struct {
	rep      *vh.Report
	r        *vh.Rng
	drv      c6driver
	v2       bool
	cached   bool // v1 with an LRU cache
	spec     c6spec
	ords     map[string]int
	nOrd     int
	offered  map[c6slot]map[int]bool
	gone     map[c6slot]map[int]bool // keys destroyed (current or rotated-by-index), per slot
	fresh    bool                    // no mutator since the cache was last emptied
	clock    uint64
	hist     []string // human readable history (replay)
	coqOps   []string
	raw      [][]byte
	violated map[string]bool
	desc     string // store under test: format and cache size (part of every replay)
}

func (h *c6run) violate(class, what string) {
	if h.violated[class] {
		return
	}
	h.violated[class] = true
	h.rep.Violate(class, what, h.desc+": "+strings.Join(h.hist, " ; "))
}

func (h *c6run) ordOf(key []byte) int {
	if o, ok := h.ords[hex.EncodeToString(key)]; ok {
		return o
	}
	return 255
}

const (
	c6Ok    = 0
	c6Err   = 1
	c6Panic = 2
)

// step records one operation: Coq term, raw result (tag byte, then one byte per value), history line.
func (h *c6run) step(coq, human string, tag int, vals []int, msg string) {
	b := []byte{byte(tag)}
	for _, v := range vals {
		b = append(b, byte(v))
	}
	h.coqOps = append(h.coqOps, coq)
	h.raw = append(h.raw, b)
	res := []string{"ok", "err", "PANIC"}[tag]
	if tag == c6Ok && vals != nil {
		res += " [" + c6ints(vals) + "]"
	}
	if tag != c6Ok && msg != "" {
		res += " (" + msg + ")"
	}
	h.hist = append(h.hist, human+" -> "+res)
	h.rep.Count("c06op:" + strings.SplitN(human, " ", 2)[0])
	if tag == c6Panic {
		h.violate("panic-"+strings.SplitN(human, " ", 2)[0], "keystore call panicked: "+human+": "+msg)
	}
}

func guardErr(f func() error) (tag int, msg string) {
	o := vh.Guard(func() vh.Outcome {
		if err := f(); err != nil {
			return vh.ErrO(err)
		}
		return vh.Ok()
	})
	switch o.Kind {
	case "ok":
		return c6Ok, ""
	case "err":
		return c6Err, o.Msg
	}
	return c6Panic, o.Msg
}

func (h *c6run) name() string {
	if h.v2 {
		return "v2"
	}
	return "v1"
}

func (h *c6run) doGen(s c6slot) {
	t0 := uint64(time.Now().UTC().UnixNano())
	if t0 <= h.clock {
		t0 = h.clock + 1
	}
	tag, msg := guardErr(func() error { return c6Gen(h.drv.ks(), s) })
	ord := 0
	if tag == c6Ok {
		// learn the bytes of the new key through an uncached view of the same storage
		key, err := c6Cur(h.drv.probe(), s)
		hx := hex.EncodeToString(key)
		if err != nil || len(key) == 0 {
			h.violate("generated-key-unreadable", fmt.Sprintf("%s: key of %v not readable right after generation through an uncached keystore: %v", h.name(), s, err))
		} else if _, dup := h.ords[hx]; dup {
			h.violate("generated-key-not-current", fmt.Sprintf("%s: after generating a key for %v the uncached current key is still key %d", h.name(), s, h.ords[hx]))
		} else {
			h.nOrd++
			ord = h.nOrd
			h.ords[hx] = ord
		}
	}
	if ord == 0 { // failed generation: a label that is never seen again
		h.nOrd++
		ord = h.nOrd
	}
	t1, t2, ok1 := h.drv.genStamps(s)
	if !ok1 || t1 <= h.clock {
		if ok1 {
			h.violate("clock-not-increasing", "wall clock did not increase between two rotations (harness precondition)")
		}
		t1 = t0
	}
	if t2 <= t1 {
		t2 = t1 + 1
	}
	h.clock = t2
	h.step(fmt.Sprintf("(Gen %s %d %d %d)", s.coq(), ord, t1, t2), fmt.Sprintf("gen %v =key%d", s, ord), tag, nil, msg)
	if tag == c6Ok {
		h.spec.at(s).gen(ord)
	}
	h.fresh = false
	h.rep.OracleChecks++
}

func (h *c6run) destroyed(s c6slot, o int) {
	if o == 0 {
		return
	}
	if h.gone[s] == nil {
		h.gone[s] = map[int]bool{}
	}
	h.gone[s][o] = true
}

func (h *c6run) offer(s c6slot, l []int) {
	if h.offered[s] == nil {
		h.offered[s] = map[int]bool{}
	}
	for _, o := range l {
		h.offered[s][o] = true
	}
}

// checkRead: the property's clauses for one "current"/"all" read.
func (h *c6run) checkRead(op string, s c6slot, got []int) {
	h.rep.OracleChecks++
	e := h.spec.at(s)
	var want []int
	if op == "cur" {
		if e.cur != 0 {
			want = []int{e.cur}
		}
	} else {
		want = e.all(false)
	}
	exact := !h.cached || h.fresh
	if exact {
		if !c6eq(got, want) {
			if !h.v2 && op == "all" && e.cur == 0 && len(e.rot) > 0 && len(got) == 0 {
				h.violate("v1-all-keys-fail-without-current",
					fmt.Sprintf("v1: after the current key of %v was destroyed the surviving rotated keys [%s] are no longer offered (read of all keys fails)", s, c6ints(want)))
			} else {
				h.violate(h.name()+"-"+op+"-mismatch",
					fmt.Sprintf("%s: %s %v returned keys [%s], specification says [%s]", h.name(), op, s, c6ints(got), c6ints(want)))
			}
		}
	} else if op == "all" {
		// warm cache: never stops offering a surviving key it offered earlier
		// (v1 offers nothing while there is no current key: known finding above, not repeated here)
		for _, o := range e.all(true) {
			if h.offered[s][o] && !c6has(got, o) {
				h.violate("v1-cache-drops-surviving-key",
					fmt.Sprintf("v1 with cache: key %d of %v was offered earlier and survives but is no longer offered (got [%s]) before any cache reset", o, s, c6ints(got)))
				break
			}
		}
		// warm cache: the first entry (the "current" key) may be stale until the reset, but the older
		// keys that follow it are read from the listed history: a destroyed key has no place there
		// (a destruction by listed index removes that key and no other, also from what is offered)
		for p, o := range got {
			if p >= 1 && h.gone[s][o] {
				h.violate("v1-cache-offers-destroyed-key",
					fmt.Sprintf("v1 with cache: key %d of %v was destroyed but is still offered among the older keys (got [%s], surviving [%s]) before any cache reset", o, s, c6ints(got), c6ints(e.all(false))))
				break
			}
		}
	}
	for _, o := range got {
		if o == 255 {
			h.violate(h.name()+"-unknown-key", fmt.Sprintf("%s: %s %v returned a key that was never generated", h.name(), op, s))
		}
	}
	h.offer(s, got)
}

func (h *c6run) doCur(s c6slot) {
	var key []byte
	tag, msg := guardErr(func() (err error) { key, err = c6Cur(h.drv.ks(), s); return })
	var got []int
	if tag == c6Ok {
		got = []int{h.ordOf(key)}
	}
	h.step("(Cur "+s.coq()+")", fmt.Sprintf("cur %v", s), tag, got, msg)
	if tag != c6Panic {
		h.checkRead("cur", s, got)
	}
}

func (h *c6run) doAll(s c6slot) {
	var ks [][]byte
	tag, msg := guardErr(func() (err error) { ks, err = c6All(h.drv.ks(), s); return })
	var got []int
	if tag == c6Ok {
		got = []int{}
		for _, k := range ks {
			got = append(got, h.ordOf(k))
		}
	}
	h.step("(All "+s.coq()+")", fmt.Sprintf("all %v", s), tag, got, msg)
	if tag != c6Panic {
		h.checkRead("all", s, got)
	}
}

func (h *c6run) doListRot(s c6slot) {
	var idx []int
	var times []time.Time
	tag, msg := guardErr(func() error {
		ds, err := h.drv.ks().ListRotatedKeys()
		if err != nil {
			return err
		}
		id := h.drv.rotatedID(s)
		for _, d := range ds {
			if d.KeyID == id && d.Purpose != keystore.PurposeStorageClientPublicKey {
				idx = append(idx, d.Index)
				if d.CreationTime != nil {
					times = append(times, *d.CreationTime)
				}
			}
		}
		return nil
	})
	if tag == c6Ok && idx == nil {
		idx = []int{}
	}
	h.step("(ListRot "+s.coq()+")", fmt.Sprintf("listrot %v", s), tag, idx, msg)
	if tag == c6Panic {
		return
	}
	h.rep.OracleChecks++
	n := len(h.spec.at(s).rot)
	want := make([]int, n)
	for i := range want {
		want[i] = i + 2
	}
	if !c6eq(idx, want) {
		h.violate(h.name()+"-listrot-mismatch", fmt.Sprintf("%s: rotated keys of %v listed with indices [%s], specification says [%s]", h.name(), s, c6ints(idx), c6ints(want)))
	}
	// the listing is chronological: index 2 is the oldest rotated key
	for i := 1; i < len(times); i++ {
		if times[i].Before(times[i-1]) {
			h.violate(h.name()+"-listrot-order", fmt.Sprintf("%s: rotated keys of %v are not listed in chronological order", h.name(), s))
		}
	}
}

func (h *c6run) doDestroyCur(s c6slot) {
	tag, msg := guardErr(func() error { return c6DestroyCur(h.drv.ks(), s) })
	h.step("(DestroyCur "+s.coq()+")", fmt.Sprintf("destroycur %v", s), tag, nil, msg)
	h.rep.OracleChecks++
	e := h.spec.at(s)
	if tag == c6Ok || h.v2 {
		// v2 reports an error when there is nothing to destroy; the effect is the same
		h.destroyed(s, e.cur)
		e.cur = 0
	}
	h.fresh = false
}

func (h *c6run) doDestroyRot(s c6slot, i int) {
	tag, msg := guardErr(func() error { return c6DestroyRot(h.drv.ks(), s, i) })
	h.step(fmt.Sprintf("(DestroyRot %s (%d)%%Z)", s.coq(), i), fmt.Sprintf("destroyrot %v %d", s, i), tag, nil, msg)
	h.rep.OracleChecks++
	e := h.spec.at(s)
	valid := i >= 2 && i <= len(e.rot)+1
	if valid != (tag == c6Ok) && tag != c6Panic {
		h.violate(h.name()+"-destroyrot-status", fmt.Sprintf("%s: destroying rotated key %d of %v (rotated keys listed: %d) returned %v", h.name(), i, s, len(e.rot), []string{"ok", "an error"}[tag]))
	}
	h.destroyed(s, e.destroyRot(i))
	h.fresh = false
}

func (h *c6run) doReset(reopen bool) {
	if reopen {
		tag, msg := guardErr(func() error { return h.drv.reopen() })
		h.step("Reopen", "reopen", tag, nil, msg)
	} else {
		tag, msg := guardErr(func() error { h.drv.ks().Reset(); return nil })
		h.step("Reset", "reset", tag, nil, msg)
	}
	h.fresh = true
}

func (h *c6run) emit(label string, cacheSize int) {
	var term string
	if h.v2 {
		term = "(V2Hist [" + strings.Join(h.coqOps, "; ") + "])"
	} else {
		term = fmt.Sprintf("(V1Hist (%d)%%Z [%s])", cacheSize, strings.Join(h.coqOps, "; "))
	}
	h.rep.Add(label+" :: "+strings.Join(h.hist, " ; "), term, vh.Ok(h.raw...))
}

// ---------- generator ----------

func c6pickSlot(r *vh.Rng, slots []c6slot) c6slot { return slots[r.Intn(len(slots))] }

// c6newRun builds the keystore under test (v2, or v1 with the given cache size) and an empty history.
func c6newRun(rep *vh.Report, r *vh.Rng, v2 bool, cacheSize int) *c6run {
	return c6newRunAt(rep, r, v2, cacheSize, -1)
}

// c6newRunAt: the same with an explicit directory spelling for keystore v1 (index of c6DirSpellings;
// -1 = the next one of the sequence).
func c6newRunAt(rep *vh.Report, r *vh.Rng, v2 bool, cacheSize int, spelling int) *c6run {
	h := &c6run{rep: rep, r: r, v2: v2, cached: !v2 && cacheSize != keystore.WithoutCache, spec: c6spec{},
		ords: map[string]int{}, offered: map[c6slot]map[int]bool{}, gone: map[c6slot]map[int]bool{}, fresh: true, violated: map[string]bool{}}
	var err error
	if v2 {
		h.desc = "keystore v2"
		h.drv, err = newC6v2(r)
	} else {
		h.desc = fmt.Sprintf("keystore v1 CacheSize(%d)", cacheSize)
		switch cacheSize {
		case keystore.WithoutCache:
			h.desc += " = no cache"
		case keystore.InfiniteCacheSize:
			h.desc += " = unbounded cache"
		}
		if spelling < 0 {
			h.drv, err = newC6v1(r, cacheSize)
		} else {
			sp := c6DirSpellings[spelling%len(c6DirSpellings)]
			h.drv, err = newC6v1At(r, cacheSize, sp.tag, sp.dir)
		}
	}
	if err != nil {
		rep.Violate("harness-setup", "cannot construct keystore: "+err.Error(), "")
		return nil
	}
	h.desc += c6DescDir(h.drv, rep)
	return h
}

func (h *c6run) readAllOrCur(s c6slot) {
	if c6HasAll(s.kind) {
		h.doAll(s)
	} else {
		h.doCur(s)
	}
}

// c6WarmDestroyFamily: the structured family "rotate N times, read all keys (the cache is now warm and
// agrees with the storage), destroy the rotated key listed with index i, read all keys again WITHOUT
// any reset, list the rotated keys, reset, read all keys" — enumerated for every key kind that keeps
// rotated keys, every N, every listed index i (oldest, newest, middle: not only the mirror-symmetric
// ones) and every store configuration with a cache.  Before the reset the oracle demands that no
// surviving key offered by the first read is missing and that the destroyed key is not among the
// older keys offered; after the reset everything must equal the specification exactly.
func c6WarmDestroyFamily(rep *vh.Report, r *vh.Rng, thorough bool) {
	type cfg struct {
		v2   bool
		size int
	}
	cfgs := []cfg{{false, 1}, {false, keystore.InfiniteCacheSize}}
	maxN := 4
	if thorough {
		cfgs = append(cfgs, cfg{false, keystore.WithoutCache}, cfg{false, 2}, cfg{false, 8}, cfg{true, keystore.WithoutCache})
		maxN = 6
	}
	sc := 0
	for _, c := range cfgs {
		for kind := kStoragePair; kind <= kPoisonSym; kind++ { // kAudit has no rotated-key destruction
			for n := 2; n <= maxN; n++ {
				for i := 2; i <= n+1; i++ {
					h := c6newRun(rep, r, c.v2, c.size)
					if h == nil {
						continue
					}
					owner := 0
					if kind <= kHmac {
						owner = 1 + r.Intn(len(c6Clients)-1)
					}
					s := c6slot{kind, owner}
					rep.Count(fmt.Sprintf("store:%s cache:%d", h.name(), c.size))
					rep.Count("opening:warm-destroy-family")
					rep.Count(fmt.Sprintf("warm-destroy:rotations=%d", n))
					rep.Count("warm-destroy:index=" + map[bool]string{true: "mirror-symmetric", false: "asymmetric"}[2*(i-2) == n-1])
					rep.Count("kind:" + c6KindCoq[kind])
					for g := 0; g <= n; g++ { // first generation + n rotations
						h.doGen(s)
					}
					if r.Bool() { // the current key read on its own as well (another cache entry, other LRU order)
						h.doCur(s)
					}
					h.readAllOrCur(s) // warm: list of historical names and every key value cached
					h.doDestroyRot(s, i)
					h.readAllOrCur(s) // no reset in between
					h.doListRot(s)
					if r.Intn(3) == 0 && len(h.spec.at(s).rot) > 0 {
						// a second destruction through the same warm cache
						j := 2 + r.Intn(len(h.spec.at(s).rot))
						rep.Count("warm-destroy:second-destruction")
						h.doDestroyRot(s, j)
						h.readAllOrCur(s)
						h.doListRot(s)
					}
					h.doReset(r.Intn(4) == 0)
					h.readAllOrCur(s)
					h.doCur(s)
					h.doListRot(s)
					h.emit(fmt.Sprintf("wd%d %s cache=%d %v rotations=%d destroy=%d", sc, h.name(), c.size, s, n, i), c.size)
					sc++
				}
			}
		}
	}
}

// c6DirSpellingFamily: the keystore v1 directory string in every spelling x every cache mode (no cache,
// one entry, unbounded; thorough: 2 and 8 entries as well) x key kinds: generate, rotate, read all keys
// (warm: the list of current + rotated file names is cached under a key built from the directory string),
// rotate again, read all keys WITHOUT a reset (the key that was current must still be offered and the
// new one must appear), list, destroy a rotated key by index, read all keys (the destroyed file name must
// have left the cached list), reset, read everything (= specification exactly).  What is offered must not
// depend on how the directory was written: every site that builds such a cache key has to normalise alike.
func c6DirSpellingFamily(rep *vh.Report, r *vh.Rng, thorough bool) {
	sizes := []int{keystore.WithoutCache, 1, keystore.InfiniteCacheSize}
	if thorough {
		sizes = append(sizes, 2, 8)
	}
	kinds := []int{kStoragePair, kStorageSym, kHmac, kPoisonPair, kPoisonSym}
	sc := 0
	for sp := range c6DirSpellings {
		for ci, size := range sizes {
			for ki, kind := range kinds {
				// quick tier: two kinds per (spelling, cache mode), rotating so that every kind meets
				// every spelling and every cache mode; thorough: all of them
				if !thorough && (ki+sp+2*ci)%5 >= 2 {
					continue
				}
				h := c6newRunAt(rep, r, false, size, sp)
				if h == nil {
					continue
				}
				owner := 0
				if kind <= kHmac {
					owner = 1 + r.Intn(len(c6Clients)-1)
				}
				s := c6slot{kind, owner}
				rep.Count(fmt.Sprintf("store:%s cache:%d", h.name(), size))
				rep.Count("opening:dir-spelling-family")
				rep.Count("kind:" + c6KindCoq[kind])
				h.doGen(s)
				if r.Bool() {
					h.readAllOrCur(s) // list cached while there is no rotated key yet
				}
				h.doGen(s)
				h.readAllOrCur(s) // warm
				h.doGen(s)        // rotation through the warm cache
				h.readAllOrCur(s)
				if r.Bool() {
					h.doCur(s)
				}
				h.doListRot(s)
				h.doGen(s) // a second rotation: the list must grow again
				h.readAllOrCur(s)
				i := 2 + r.Intn(len(h.spec.at(s).rot))
				h.doDestroyRot(s, i)
				h.readAllOrCur(s)
				h.doListRot(s)
				if r.Intn(3) == 0 {
					h.doDestroyCur(s)
					h.readAllOrCur(s)
					h.doGen(s)
					h.readAllOrCur(s)
				}
				h.doReset(r.Intn(3) == 0)
				h.readAllOrCur(s)
				h.doCur(s)
				h.doListRot(s)
				h.emit(fmt.Sprintf("ds%d %s cache=%d dir=%s %v", sc, h.name(), size, c6DirSpellings[sp].tag, s), size)
				sc++
			}
		}
	}
}

func runC06(rep *vh.Report, r *vh.Rng, n int, thorough bool) {
	c6WarmDestroyFamily(rep, r, thorough)
	c6DirSpellingFamily(rep, r, thorough)
	for sc := 0; sc < n; sc++ {
		v2 := sc%3 == 2
		cacheSize := keystore.WithoutCache
		if !v2 {
			cacheSize = []int{keystore.WithoutCache, 1, keystore.InfiniteCacheSize, keystore.WithoutCache, keystore.InfiniteCacheSize, 1}[(sc/3+sc)%6]
		}
		h := c6newRun(rep, r, v2, cacheSize)
		if h == nil {
			continue
		}
		// a small pool of slots so that histories revisit them: a focus slot gets most operations
		var slots []c6slot
		nk := 1 + r.Intn(3)
		for i := 0; i < nk; i++ {
			k := r.Intn(6)
			if r.Intn(3) == 0 {
				k = kStorageSym
			}
			o := 0
			if k <= kHmac {
				o = 1 + r.Intn(len(c6Clients)-1)
			}
			slots = append(slots, c6slot{k, o})
		}
		focus := slots[0]
		steps := 8 + r.Intn(18)
		if thorough {
			steps = 8 + r.Intn(32)
		}
		rep.Count(fmt.Sprintf("store:%s cache:%d", h.name(), cacheSize))
		// structured opening aimed at the property text: read through a warm cache around a rotation
		// and a destruction, without any reset in between
		if r.Intn(3) == 0 {
			rep.Count("opening:warm-rotation")
			h.doGen(focus)
			if c6HasAll(focus.kind) {
				h.doAll(focus)
			} else {
				h.doCur(focus)
			}
			h.doGen(focus)
			if c6HasAll(focus.kind) {
				h.doAll(focus)
			}
			h.doCur(focus)
			if c6HasDestroy(focus.kind) && r.Bool() {
				h.doGen(focus)
				h.doDestroyRot(focus, 2+r.Intn(2))
				if c6HasAll(focus.kind) {
					h.doAll(focus)
				}
			}
		}
		for st := 0; st < steps && h.nOrd < 200; st++ {
			s := focus
			if r.Intn(4) == 0 {
				s = c6pickSlot(r, slots)
			}
			rep.Count("kind:" + c6KindCoq[s.kind])
			switch x := r.Intn(100); {
			case x < 30:
				h.doGen(s)
			case x < 42:
				h.doCur(s)
			case x < 62:
				if c6HasAll(s.kind) {
					h.doAll(s)
				} else {
					h.doCur(s)
				}
			case x < 72:
				h.doListRot(s)
			case x < 78:
				if c6HasDestroy(s.kind) {
					h.doDestroyCur(s)
				} else {
					h.doCur(s)
				}
			case x < 90:
				if !c6HasDestroy(s.kind) {
					h.doListRot(s)
					break
				}
				nrot := len(h.spec.at(s).rot)
				i := 2 + r.Intn(nrot+1) // mostly a listed index (or one past the end)
				switch r.Intn(10) {
				case 0:
					i = nrot + 2 + r.Intn(3)
				case 1:
					i = r.Intn(2) // 0, 1: not a rotated index
				case 2:
					i = -1 - r.Intn(3)
				}
				rep.Count(fmt.Sprintf("destroyrot-index:%s", map[bool]string{true: "listed", false: "not-listed"}[i >= 2 && i <= nrot+1]))
				h.doDestroyRot(s, i)
				if c6HasAll(s.kind) && r.Intn(3) != 0 {
					h.doAll(s)
				}
			case x < 95:
				h.doReset(false)
			default:
				h.doReset(true)
			}
		}
		// closing reads: after a reset everything must equal the specification exactly
		h.doReset(r.Bool())
		for _, s := range slots {
			if c6HasAll(s.kind) {
				h.doAll(s)
			}
			h.doCur(s)
			h.doListRot(s)
		}
		h.emit(fmt.Sprintf("sc%d %s cache=%d", sc, h.name(), cacheSize), cacheSize)
	}
}
