package main

// `acra-vh c13sdbg <mysql|pg> <sql>...`: Parse -> String -> Parse of single statements with the token lists
// (developer aid for the C13_statements model; prints to stdout, never used by ./check).

import (
	"fmt"
	"os"

	"github.com/cossacklabs/acra/sqlparser"
)

func init() { generators["c13sdbg"] = c13sDebug }

func c13sDebug() {
	if len(os.Args) < 4 {
		fmt.Println("usage: acra-vh c13sdbg <mysql|pg> <sql>...")
		return
	}
	c := &c13{}
	c.use(os.Args[2] == "pg")
	for _, s := range os.Args[3:] {
		fmt.Printf("IN : %s\n", s)
		t1, err, pan := c.parse(s)
		if err != nil || pan != "" {
			fmt.Printf("  parse error: %v %s\n", err, pan)
			continue
		}
		fmt.Printf("  type %T\n", t1)
		if term, _, ok, why := c13sExport(c.pg, t1); ok {
			fmt.Printf("TERM: %s\n", term)
		} else {
			fmt.Printf("  outside the model: %s\n", why)
		}
		p, pan := c13String(t1)
		fmt.Printf("OUT: %s %s\n", p, pan)
		t2, err, pan := c.parse(p)
		if err != nil || pan != "" {
			fmt.Printf("  REPARSE error: %v %s\n", err, pan)
			continue
		}
		if ok, why := astEqual(t1, t2); !ok {
			fmt.Printf("  DIFFERENT TREE: %s\n", why)
		} else {
			fmt.Printf("  same tree\n")
		}
		toks, ok := c.scanAll(p)
		fmt.Printf("  tokens(%v):", ok)
		for _, t := range toks {
			n := sqlparser.KeywordString(t.typ)
			if n == "" {
				n = fmt.Sprint(t.typ)
			}
			fmt.Printf(" %s[%s]", n, t.val)
		}
		fmt.Println()
	}
}
