package main

// Domain c12my (C12 and the wire part of C14, MySQL side): packet framing (3-byte length + sequence id,
// ReadPacket / Dump / SetData / replaceQuery, payloads of 2^24-1 bytes and more), packet classification
// (IsOK / IsEOF / IsErr / isResultSetRowsEnd), binary-protocol rows (processBinaryDataRow / extractData),
// column definition packets (ParseResultField / ColumnDescription.Dump) and the COM_STMT_EXECUTE parameter
// block (GetBindParameters / SetParameters).
// Valid stream: what is relayed must come out byte-identical; what is rewritten must decode — with the
// reference codecs below, written from the protocol documents — to exactly the intended content (NULL bitmap
// preserved, untouched columns byte-identical, declared lengths = actual lengths).
// Malformed stream (c12mymal.go): no decoder may panic, hang or allocate out of proportion.
// Every call of the real code is recorded as a Model.RunWireMysql op and replayed on the Coq model.

import (
	"bytes"
	"context"
	"encoding/binary"
	"encoding/hex"
	"errors"
	"fmt"
	"math"
	"net"
	"runtime"
	"strconv"
	"strings"
	"time"

	"acra-vh/vh"

	"github.com/cossacklabs/acra/decryptor/base"
	"github.com/cossacklabs/acra/decryptor/mysql"
)

func init() { register("c12my", "Model.RunWireMysql", runC12My) }

// ---------- plumbing ----------

// c12myConn is a net.Conn over a byte stream (reads) and a buffer (writes).
type c12myConn struct {
	r *bytes.Reader
	w bytes.Buffer
}

func (c *c12myConn) Read(p []byte) (int, error)         { return c.r.Read(p) }
func (c *c12myConn) Write(p []byte) (int, error)        { return c.w.Write(p) }
func (c *c12myConn) Close() error                       { return nil }
func (c *c12myConn) LocalAddr() net.Addr                { return nil }
func (c *c12myConn) RemoteAddr() net.Addr               { return nil }
func (c *c12myConn) SetDeadline(t time.Time) error      { return nil }
func (c *c12myConn) SetReadDeadline(t time.Time) error  { return nil }
func (c *c12myConn) SetWriteDeadline(t time.Time) error { return nil }

// c12myPin copies b into a slice whose capacity equals its length (the model reads cap = len).
func c12myPin(b []byte) []byte {
	o := make([]byte, len(b))
	copy(o, b)
	return o
}

func c12myHdr(n int, seq byte) []byte { return []byte{byte(n), byte(n >> 8), byte(n >> 16), seq} }
func c12myFrame(payload []byte, seq byte) []byte {
	return append(c12myHdr(len(payload), seq), payload...)
}
func c12myLe(w int, v uint64) []byte {
	b := make([]byte, w)
	for i := 0; i < w; i++ {
		b[i] = byte(v >> (8 * uint(i)))
	}
	return b
}
func c12myNList(l []byte) string {
	parts := make([]string, len(l))
	for i, v := range l {
		parts[i] = fmt.Sprint(v)
	}
	return "[" + strings.Join(parts, "; ") + "]"
}
func c12myBool(b bool) string {
	if b {
		return "true"
	}
	return "false"
}
func c12myCtx() context.Context {
	return base.SetAccessContextToContext(context.Background(), base.NewAccessContext())
}

type c12myOps struct {
	rep *vh.Report
}

// add records the observation for replay; very large literals are judged by the oracle only (see wireops.go).
func (w *c12myOps) add(label, op string, o vh.Outcome) vh.Outcome {
	size := len(op)
	for _, v := range o.Vals {
		size += 2 * len(v)
	}
	if size > 40000 {
		w.rep.Count("oracle-only:big")
		return o
	}
	w.rep.Add(label, op, o)
	return o
}

// c12myWatch runs f with a time limit and an allocation limit: hang / oom are violations of C14.
func (w *c12myOps) c12myWatch(fn, replay string, f func() vh.Outcome) vh.Outcome {
	var before, after runtime.MemStats
	runtime.ReadMemStats(&before)
	done := make(chan vh.Outcome, 1)
	go func() { done <- vh.Guard(f) }()
	var o vh.Outcome
	select {
	case o = <-done:
	case <-time.After(20 * time.Second):
		w.rep.Violate("hang:"+fn, fn+" did not return within 20 s", replay)
		return vh.Outcome{Kind: "err", Msg: "hang"}
	}
	runtime.ReadMemStats(&after)
	w.rep.OracleChecks++
	if after.TotalAlloc-before.TotalAlloc > 96<<20 {
		w.rep.Violate("oom:"+fn, fmt.Sprintf("%s allocated %d MiB for an input of %d bytes", fn, (after.TotalAlloc-before.TotalAlloc)>>20, len(replay)/2), replay)
	}
	return o
}

func c12myClassFlags(p *mysql.Packet) []byte {
	return cat(flagB(p.IsOK()), flagB(p.IsEOF()), flagB(p.IsErr()), flagB(p.VerifX12IsResultSetRowsEnd()))
}

// ---------- operations on the real code ----------

func (w *c12myOps) Read(label string, stream []byte) vh.Outcome {
	return w.add(label, "(MxRead "+vh.H(stream)+")", w.c12myWatch("ReadPacket", hex.EncodeToString(stream), func() vh.Outcome {
		c := &c12myConn{r: bytes.NewReader(stream)}
		p, err := mysql.ReadPacket(c)
		if err != nil {
			return vh.ErrO(err)
		}
		rest := stream[len(stream)-c.r.Len():]
		return vh.Ok(c12myPin(p.VerifX12Header()), p.GetData(), rest, c12myLe(3, uint64(p.GetPacketPayloadLength())),
			[]byte{p.GetSequenceNumber()}, c12myClassFlags(p), p.Dump())
	}))
}

func (w *c12myOps) Classify(label string, h, d []byte) vh.Outcome {
	return w.add(label, "(MxClassify "+vh.H(h)+" "+vh.H(d)+")", vh.Guard(func() vh.Outcome {
		return vh.Ok(c12myClassFlags(mysql.VerifX12NewPacket(h, c12myPin(d))))
	}))
}

func (w *c12myOps) SetData(label string, stream, d []byte) vh.Outcome {
	return w.add(label, "(MxSetData "+vh.H(stream)+" "+vh.H(d)+")", vh.Guard(func() vh.Outcome {
		p, err := mysql.ReadPacket(&c12myConn{r: bytes.NewReader(stream)})
		if err != nil {
			return vh.ErrO(err)
		}
		p.SetData(c12myPin(d))
		return vh.Ok(p.Dump())
	}))
}

func (w *c12myOps) ReplaceQuery(label string, h, d, q []byte) vh.Outcome {
	return w.add(label, "(MxReplaceQuery "+vh.H(h)+" "+vh.H(d)+" "+vh.H(q)+")", vh.Guard(func() vh.Outcome {
		p := mysql.VerifX12NewPacket(h, c12myPin(d))
		p.VerifX12ReplaceQuery(string(q))
		return vh.Ok(p.Dump())
	}))
}

// scripted subscriber
const (
	c12myTrRaw = iota
	c12myTrFrame
	c12myTrConst
	c12myTrFail
)

type c12myTr struct {
	kind int
	b    []byte
}

func c12myTrCoq(trs []c12myTr) string {
	parts := make([]string, len(trs))
	for i, t := range trs {
		switch t.kind {
		case c12myTrRaw:
			parts[i] = "TrRaw"
		case c12myTrFrame:
			parts[i] = "TrFrame"
		case c12myTrConst:
			parts[i] = "TrConst " + vh.H(t.b)
		default:
			parts[i] = "TrFail"
		}
	}
	return "[" + strings.Join(parts, "; ") + "]"
}

type c12mySub struct {
	trs  []c12myTr
	seen [][]byte // nil entries = nil values
	was  []bool   // value was non-nil
}

func (s *c12mySub) ID() string { return "c12mySub" }
func (s *c12mySub) OnColumn(ctx context.Context, data []byte) (context.Context, []byte, error) {
	info, ok := base.ColumnInfoFromContext(ctx)
	if !ok {
		return ctx, nil, errors.New("no column info")
	}
	s.seen = append(s.seen, append([]byte{}, data...))
	s.was = append(s.was, data != nil)
	t := c12myTr{kind: c12myTrRaw}
	if info.Index() < len(s.trs) {
		t = s.trs[info.Index()]
	}
	switch t.kind {
	case c12myTrRaw:
		return ctx, data, nil
	case c12myTrFrame:
		return ctx, refLenencStr(data), nil
	case c12myTrConst:
		return ctx, t.b, nil
	}
	return ctx, nil, errors.New("scripted failure")
}

func c12myFields(tys []byte) []mysql.VerifField {
	fs := make([]mysql.VerifField, len(tys))
	for i, t := range tys {
		fs[i] = mysql.VerifField{Type: t}
	}
	return fs
}

func (w *c12myOps) BinRow(label string, tys []byte, trs []c12myTr, row []byte) vh.Outcome {
	op := "(MxBinRow " + c12myNList(tys) + " " + c12myTrCoq(trs) + " " + vh.H(row) + ")"
	return w.add(label, op, w.c12myWatch("processBinaryDataRow", fmt.Sprintf("types=%x row=%x", tys, row), func() vh.Outcome {
		sub := &c12mySub{trs: trs}
		out, _, _, err := mysql.VerifProcessDataRow(c12myCtx(), []base.DecryptionSubscriber{sub}, true, c12myPin(row), c12myFields(tys))
		if err != nil {
			return vh.ErrO(err)
		}
		vals := [][]byte{out}
		for i, v := range sub.seen {
			if sub.was[i] {
				vals = append(vals, []byte{0}, v)
			} else {
				vals = append(vals, []byte{1}, []byte{})
			}
		}
		return vh.Ok(vals...)
	}))
}

func (w *c12myOps) ColDef(label string, maria bool, h, d []byte, newty int) vh.Outcome {
	nt := "None"
	if newty >= 0 {
		nt = fmt.Sprintf("(Some %d)", newty)
	}
	op := "(MxColDef " + c12myBool(maria) + " " + vh.H(h) + " " + vh.H(d) + " " + nt + ")"
	return w.add(label, op, w.c12myWatch("ParseResultField", fmt.Sprintf("maria=%v payload=%x", maria, d), func() vh.Outcome {
		f, err := mysql.ParseResultField(mysql.VerifX12NewPacket(h, c12myPin(d)), maria)
		if err != nil {
			return vh.ErrO(err)
		}
		ext := f.ExtendedTypeInfo
		if ext == nil {
			ext = []byte{}
		}
		vals := cat2(optVals(f.Schema), optVals(f.Table), optVals(f.OrgTable), optVals(f.Name), optVals(f.OrgName),
			[][]byte{ext, c12myLe(2, uint64(f.Charset)), c12myLe(4, uint64(f.ColumnLength)), {byte(f.Type)}, c12myLe(2, uint64(f.Flag)),
				{f.Decimal}, c12myLe(8, f.DefaultValueLength)}, optVals(f.DefaultValue), [][]byte{f.Dump()})
		if newty >= 0 {
			f.VerifX12MarkChanged(byte(newty))
			vals = append(vals, f.Dump())
		}
		return vh.Ok(vals...)
	}))
}

func cat2(ls ...[][]byte) [][]byte {
	var o [][]byte
	for _, l := range ls {
		o = append(o, l...)
	}
	return o
}

var c12myStorage = mysql.VerifX12NumericStorage()

func (w *c12myOps) GetParams(label string, d []byte, pn int) vh.Outcome {
	op := fmt.Sprintf("(MxGetParams %s %d)", vh.H(d), pn)
	return w.add(label, op, w.c12myWatch("GetBindParameters", fmt.Sprintf("paramNum=%d payload=%x", pn, d), func() vh.Outcome {
		p := mysql.VerifX12NewPacket(c12myHdr(len(d), 0), c12myPin(d))
		vs, err := p.GetBindParameters(pn)
		if err != nil {
			return vh.ErrO(err)
		}
		if pn == 0 || vs[0] == nil {
			return vh.Ok([]byte{0})
		}
		vals := [][]byte{{1}}
		for _, v := range vs {
			t := v.GetType()
			data, _ := v.GetData(nil)
			vals = append(vals, []byte{t})
			if data == nil {
				vals = append(vals, []byte{1}, []byte{})
				continue
			}
			if _, numeric := c12myStorage[t]; numeric {
				if t == 4 || t == 5 {
					data = []byte{}
				} else {
					enc, err := v.Encode()
					if err != nil {
						return vh.ErrO(err)
					}
					data = enc
				}
			}
			vals = append(vals, []byte{0}, data)
		}
		return vh.Ok(vals...)
	}))
}

// SetParams: GetBindParameters(pn), then SetData(script[i]) on the values with a script entry, then SetParameters.
// Returns the outcome and false when the packet does not give values to work on.
func (w *c12myOps) SetParams(label string, h, d []byte, pn int, script [][]byte) (vh.Outcome, bool) {
	p := mysql.VerifX12NewPacket(h, c12myPin(d))
	var vs []base.BoundValue
	pre := vh.Guard(func() vh.Outcome {
		var err error
		vs, err = p.GetBindParameters(pn)
		if err != nil {
			return vh.ErrO(err)
		}
		return vh.Ok()
	})
	if pre.Kind != "ok" || pn == 0 || vs[0] == nil {
		return pre, false
	}
	specs := make([]string, len(vs))
	for i, v := range vs {
		if i < len(script) && script[i] != nil {
			v.SetData(script[i], nil)
		}
		t := v.GetType()
		neg := 0
		if t == 3 || t == 8 {
			data, _ := v.GetData(nil)
			n, err := strconv.ParseInt(string(data), 10, 64)
			if err != nil {
				neg = 2
			} else if n < 0 {
				neg = 1
			}
		}
		enc, err := v.Encode()
		e := "None"
		if err == nil {
			e = "(Some " + vh.H(enc) + ")"
		}
		specs[i] = fmt.Sprintf("Np %d %d %s", t, neg, e)
	}
	op := "(MxSetParams " + vh.H(h) + " " + vh.H(d) + " [" + strings.Join(specs, "; ") + "])"
	return w.add(label, op, w.c12myWatch("SetParameters", fmt.Sprintf("paramNum=%d payload=%x", pn, d), func() vh.Outcome {
		if err := p.SetParameters(vs); err != nil {
			return vh.ErrO(err)
		}
		return vh.Ok(p.Dump())
	})), true
}

// ---------- reference codecs (from the protocol documents, independent of acra) ----------

// c12myWidth: bytes of a binary-protocol value of type t; -1 = length-encoded string
func c12myWidth(t byte) int {
	switch t {
	case 0x01: // TINY
		return 1
	case 0x02, 0x0d: // SHORT, YEAR
		return 2
	case 0x03, 0x09, 0x04: // LONG, INT24, FLOAT
		return 4
	case 0x08, 0x05: // LONGLONG, DOUBLE
		return 8
	case 0x06: // NULL
		return 0
	}
	return -1
}

type c12myCell struct {
	typ  byte
	null bool
	val  []byte
}

func c12myEncCell(c c12myCell) []byte {
	if c12myWidth(c.typ) >= 0 {
		return c.val
	}
	return refLenencStr(c.val)
}

// binary resultset row: 0x00, NULL bitmap of (n+7+2)/8 bytes with offset 2, values of the non-NULL columns
func c12myRefBinRow(cells []c12myCell) []byte {
	bm := make([]byte, (len(cells)+7+2)/8)
	row := []byte{0}
	for i, c := range cells {
		if c.null {
			bm[(i+2)/8] |= 1 << (uint(i+2) % 8)
		}
	}
	row = append(row, bm...)
	for _, c := range cells {
		if !c.null {
			row = append(row, c12myEncCell(c)...)
		}
	}
	return row
}

func c12myRefLenencInt(b []byte) (uint64, int, bool) {
	if len(b) == 0 {
		return 0, 0, false
	}
	w := 0
	switch b[0] {
	case 0xfc:
		w = 2
	case 0xfd:
		w = 3
	case 0xfe:
		w = 8
	case 0xfb, 0xff:
		return 0, 0, false
	default:
		return uint64(b[0]), 1, true
	}
	if len(b) < 1+w {
		return 0, 0, false
	}
	var v uint64
	for i := 0; i < w; i++ {
		v |= uint64(b[1+i]) << (8 * uint(i))
	}
	return v, 1 + w, true
}

func c12myRefLenencStr(b []byte) ([]byte, int, bool) {
	if len(b) > 0 && b[0] == 0xfb {
		return nil, 1, true
	}
	n, k, ok := c12myRefLenencInt(b)
	if !ok || n > uint64(len(b)-k) {
		return nil, 0, false
	}
	return b[k : k+int(n)], k + int(n), true
}

func c12myRefDecodeBinRow(row []byte, types []byte) ([]c12myCell, bool) {
	bl := (len(types) + 9) / 8
	if len(row) < 1+bl || row[0] != 0 {
		return nil, false
	}
	bm := row[1 : 1+bl]
	pos := 1 + bl
	cells := make([]c12myCell, len(types))
	for i, t := range types {
		cells[i].typ = t
		if bm[(i+2)/8]&(1<<(uint(i+2)%8)) != 0 {
			cells[i].null = true
			continue
		}
		if w := c12myWidth(t); w >= 0 {
			if len(row)-pos < w {
				return nil, false
			}
			cells[i].val = row[pos : pos+w]
			pos += w
			continue
		}
		v, n, ok := c12myRefLenencStr(row[pos:])
		if !ok || v == nil {
			return nil, false
		}
		cells[i].val = v
		pos += n
	}
	return cells, pos == len(row)
}

// column definition (Protocol::ColumnDefinition41)
type c12myColDef struct {
	catalog, schema, table, orgTable, name, orgName []byte
	ext                                              []byte // MariaDB extended type info incl. its length byte; nil = the single 0 byte
	charset                                          uint16
	collen                                           uint32
	typ                                              byte
	flags                                            uint16
	decimals                                         byte
	hasDefault                                       bool
	def                                              []byte
}

func c12myRefColDef(c c12myColDef, maria bool, enc func([]byte) []byte) []byte {
	o := cat(enc(c.catalog), enc(c.schema), enc(c.table), enc(c.orgTable), enc(c.name), enc(c.orgName))
	if maria {
		if c.ext == nil {
			o = append(o, 0)
		} else {
			o = append(o, c.ext...)
		}
	}
	o = append(o, 0x0c)
	o = append(o, c12myLe(2, uint64(c.charset))...)
	o = append(o, c12myLe(4, uint64(c.collen))...)
	o = append(o, c.typ)
	o = append(o, c12myLe(2, uint64(c.flags))...)
	o = append(o, c.decimals, 0, 0)
	if c.hasDefault {
		o = append(o, enc(c.def)...)
	}
	return o
}

func c12myRefDecodeColDef(b []byte, maria bool) (c12myColDef, bool) {
	var c c12myColDef
	pos := 0
	for _, dst := range []*[]byte{&c.catalog, &c.schema, &c.table, &c.orgTable, &c.name, &c.orgName} {
		v, n, ok := c12myRefLenencStr(b[pos:])
		if !ok {
			return c, false
		}
		if v != nil {
			v = append([]byte{}, v...)
		}
		*dst = v
		pos += n
	}
	if maria {
		if pos >= len(b) {
			return c, false
		}
		if b[pos] == 0 {
			pos++
		} else {
			n, k, ok := c12myRefLenencInt(b[pos:])
			if !ok || k != 1 || n > uint64(len(b)-pos-1) {
				return c, false
			}
			c.ext = append([]byte{}, b[pos:pos+1+int(n)]...)
			pos += 1 + int(n)
		}
	}
	if len(b)-pos < 13 || b[pos] != 0x0c {
		return c, false
	}
	c.charset = binary.LittleEndian.Uint16(b[pos+1:])
	c.collen = binary.LittleEndian.Uint32(b[pos+3:])
	c.typ = b[pos+7]
	c.flags = binary.LittleEndian.Uint16(b[pos+8:])
	c.decimals = b[pos+10]
	pos += 13
	if pos < len(b) {
		v, n, ok := c12myRefLenencStr(b[pos:])
		if !ok || v == nil {
			return c, false
		}
		c.hasDefault, c.def = true, append([]byte{}, v...)
		pos += n
	}
	return c, pos == len(b)
}

func c12myColDefEq(a, b c12myColDef) bool {
	eq := func(x, y []byte) bool { return (x == nil) == (y == nil) && bytes.Equal(x, y) }
	return eq(a.schema, b.schema) && eq(a.table, b.table) && eq(a.orgTable, b.orgTable) && eq(a.name, b.name) &&
		eq(a.orgName, b.orgName) && bytes.Equal(a.ext, b.ext) && a.charset == b.charset && a.collen == b.collen && a.typ == b.typ &&
		a.flags == b.flags && a.decimals == b.decimals && a.hasDefault == b.hasDefault && bytes.Equal(a.def, b.def)
}

// COM_STMT_EXECUTE
type c12myParam struct {
	typ, flag byte
	null      bool
	val       []byte // raw little-endian bytes of a numeric type, or the string
}

func c12myRefExecute(stmt uint32, flags byte, iter uint32, ps []c12myParam) []byte {
	o := []byte{0x17}
	o = append(o, c12myLe(4, uint64(stmt))...)
	o = append(o, flags)
	o = append(o, c12myLe(4, uint64(iter))...)
	if len(ps) == 0 {
		return o
	}
	bm := make([]byte, (len(ps)+7)/8)
	for i, p := range ps {
		if p.null {
			bm[i/8] |= 1 << (uint(i) % 8)
		}
	}
	o = append(o, bm...)
	o = append(o, 1)
	for _, p := range ps {
		o = append(o, p.typ, p.flag)
	}
	for _, p := range ps {
		if p.null || p.typ == 6 {
			continue
		}
		if c12myWidth(p.typ) >= 0 {
			o = append(o, p.val...)
		} else {
			o = append(o, refLenencStr(p.val)...)
		}
	}
	return o
}

func c12myRefDecodeExecute(b []byte, pn int) ([]c12myParam, bool) {
	bl := (pn + 7) / 8
	if len(b) < 10+bl+1+2*pn || b[10+bl] != 1 {
		return nil, false
	}
	bm := b[10 : 10+bl]
	ps := make([]c12myParam, pn)
	pos := 10 + bl + 1
	for i := range ps {
		ps[i].typ, ps[i].flag = b[pos], b[pos+1]
		pos += 2
	}
	for i := range ps {
		if bm[i/8]&(1<<(uint(i)%8)) != 0 {
			ps[i].null = true
			continue
		}
		if w := c12myWidth(ps[i].typ); w >= 0 {
			if len(b)-pos < w {
				return nil, false
			}
			ps[i].val = b[pos : pos+w]
			pos += w
			continue
		}
		v, n, ok := c12myRefLenencStr(b[pos:])
		if !ok || v == nil {
			return nil, false
		}
		ps[i].val = v
		pos += n
	}
	return ps, pos == len(b)
}

// the number a (type, unsigned flag, value) triple of an integer parameter denotes
func c12myIntOf(p c12myParam) (string, bool) {
	w := c12myWidth(p.typ)
	if p.typ == 4 || p.typ == 5 || w <= 0 || len(p.val) != w {
		return "", false
	}
	var u uint64
	for i := 0; i < w; i++ {
		u |= uint64(p.val[i]) << (8 * uint(i))
	}
	if p.flag&0x80 != 0 {
		return strconv.FormatUint(u, 10), true
	}
	shift := uint(64 - 8*w)
	return strconv.FormatInt(int64(u<<shift)>>shift, 10), true
}

// ---------- generators ----------

var c12myFixedTypes = []byte{1, 2, 3, 4, 5, 8, 9, 13}
var c12myLenencTypes = []byte{0, 7, 10, 11, 12, 15, 16, 246, 247, 248, 249, 250, 251, 252, 253, 254, 255}
var c12myCounts = []int{1, 1, 2, 3, 5, 6, 7, 8, 9, 13, 14, 15, 16, 17}

func c12myGenCell(r *vh.Rng, allowNullType bool) c12myCell {
	var c c12myCell
	switch k := r.Intn(10); {
	case k < 4:
		c.typ = c12myFixedTypes[r.Intn(len(c12myFixedTypes))]
	case k == 4 && allowNullType:
		c.typ = 6
	default:
		c.typ = c12myLenencTypes[r.Intn(len(c12myLenencTypes))]
	}
	c.null = r.Intn(4) == 0 || c.typ == 6 // a column of type NULL is NULL
	if w := c12myWidth(c.typ); w >= 0 {
		c.val = genValue(r, w)
		switch c.typ { // keep floating point values finite (NaN payloads are not preserved by text conversion)
		case 4:
			if c.val[3]&0x7f == 0x7f && c.val[2]&0x80 != 0 {
				c.val[3] &^= 0x40
			}
			if r.Intn(4) == 0 {
				binary.LittleEndian.PutUint32(c.val, math.Float32bits([]float32{0.1, 1.2345678, 3e38, -1e-40, 0}[r.Intn(5)]))
			}
		case 5:
			if c.val[7]&0x7f == 0x7f && c.val[6]&0xf0 == 0xf0 {
				c.val[7] &^= 0x40
			}
			if r.Intn(4) == 0 {
				binary.LittleEndian.PutUint64(c.val, math.Float64bits([]float64{0.1, 1.23456789012345, math.Pi, 1e300, -4.9e-324, 0}[r.Intn(6)]))
			}
		}
	} else {
		c.val = genValue(r, genLen(r, false))
	}
	return c
}

func runC12My(rep *vh.Report, r *vh.Rng, n int, thorough bool) {
	w := &c12myOps{rep}
	for sc := 0; sc < n; sc++ {
		lab := fmt.Sprintf("sc%d", sc)
		switch r.Intn(10) {
		case 0, 1:
			c12myFraming(w, r, lab)
		case 2:
			c12myClassification(w, r, lab)
		case 3, 4:
			c12myBinaryRow(w, r, lab)
		case 5, 6:
			c12myColumnDef(w, r, lab)
		case 7, 8:
			c12myExecute(w, r, lab)
		default:
			c12myMalformedRandom(w, r, lab)
		}
	}
	c12myMalformedTables(w, thorough) // enumerated on every run, independent of -n
	c12myHandlerEdges(w)
	c12myResultSets(w, r, thorough) // whole result sets through the proxy (c12myrs.go), enumerated on every run
	if thorough {
		c12myHuge(w)
	}
}

// ---- framing ----
func c12myFraming(w *c12myOps, r *vh.Rng, lab string) {
	rep := w.rep
	payload := genValue(r, 1+genLen(r, false))
	seq := byte(r.Intn(256))
	rest := r.Bytes(r.Intn(6))
	stream := cat(c12myFrame(payload, seq), rest)
	rep.Count("framing:read")
	o := w.Read(lab+" ReadPacket", stream)
	rep.OracleChecks++
	if o.Kind != "ok" || !bytes.Equal(o.Vals[1], payload) || !bytes.Equal(o.Vals[2], rest) || !bytes.Equal(o.Vals[6], c12myFrame(payload, seq)) ||
		o.Vals[4][0] != seq {
		rep.Violate("mysql-packet-relay", "a packet read and dumped is not the packet that was sent: "+o.String(), fmt.Sprintf("%s stream=%x", lab, stream))
	}
	// rewritten payload: one frame, declared length = actual, sequence id kept
	nd := genValue(r, 1+genLen(r, false))
	rep.Count("framing:setdata")
	o = w.SetData(lab+" SetData", stream, nd)
	rep.OracleChecks++
	if o.Kind != "ok" || !bytes.Equal(o.Vals[0], c12myFrame(nd, seq)) {
		rep.Violate("mysql-packet-setdata", "SetData+Dump is not header(len(new), seq) ++ new: "+o.String(), fmt.Sprintf("%s stream=%x new=%x", lab, stream, nd))
	}
	// replaceQuery on COM_QUERY / COM_STMT_PREPARE
	cmd := byte(r.Pick(3, 22))
	q := genValue(r, genLen(r, false))
	nq := genValue(r, genLen(r, false))
	rep.Count("framing:replace-query")
	o = w.ReplaceQuery(lab+" replaceQuery", c12myHdr(len(q)+1, seq), cat([]byte{cmd}, q), nq)
	rep.OracleChecks++
	if o.Kind != "ok" || !bytes.Equal(o.Vals[0], c12myFrame(cat([]byte{cmd}, nq), seq)) {
		rep.Violate("mysql-query-rewrite", "replaceQuery+Dump is not header(1+len(new), seq) ++ cmd ++ new: "+o.String(), fmt.Sprintf("%s cmd=%d old=%x new=%x", lab, cmd, q, nq))
	}
}

// ---- classification ----
func c12myClassification(w *c12myOps, r *vh.Rng, lab string) {
	rep := w.rep
	check := func(what string, payload []byte, wantOK, wantEOFpkt, wantErr, wantRowsEnd int) {
		o := w.Classify(lab+" classify "+what, c12myHdr(len(payload), byte(r.Intn(256))), payload)
		rep.OracleChecks++
		bad := o.Kind != "ok"
		if !bad {
			f := o.Vals[0]
			for i, want := range []int{wantOK, wantEOFpkt, wantErr, wantRowsEnd} {
				if want >= 0 && int(f[i]) != want {
					bad = true
				}
			}
		}
		if bad {
			rep.Violate("mysql-packet-classification", fmt.Sprintf("%s classified [IsOK IsEOF IsErr rowsEnd] = %s, wanted [%d %d %d %d] (-1 = any)", what, o.String(), wantOK, wantEOFpkt, wantErr, wantRowsEnd),
				fmt.Sprintf("%s payload=%x", lab, payload))
		}
	}
	switch r.Intn(6) {
	case 0: // OK packet: 0x00 affected_rows last_insert_id status(2) warnings(2) [info]
		rep.Count("class:ok-packet")
		check("OK packet", cat([]byte{0}, refLenencInt(uint64(r.Intn(300))), refLenencInt(uint64(r.Intn(300))), r.Bytes(4), genValue(r, r.Intn(10))), 1, -1, 0, 0)
	case 1: // EOF packet: 0xfe warnings(2) status(2)
		rep.Count("class:eof-packet")
		check("EOF packet", cat([]byte{0xfe}, r.Bytes(4)), 0, 1, 0, 1)
	case 2: // OK packet with the 0xfe header (CLIENT_DEPRECATE_EOF) ends the rows
		rep.Count("class:ok-as-eof")
		check("OK packet with header 0xfe", cat([]byte{0xfe}, refLenencInt(0), refLenencInt(0), r.Bytes(4), genValue(r, r.Intn(40))), 0, -1, 0, 1)
	case 3: // ERR packet
		rep.Count("class:err-packet")
		check("ERR packet", cat([]byte{0xff}, r.Bytes(2), []byte("#HY000"), genValue(r, r.Intn(20))), 0, 0, 1, 0)
	default: // text rows: never the end of the rows, whatever the first column is (empty string = 0x00, NULL = 0xfb)
		k := 1 + r.Intn(5)
		var row []byte
		for i := 0; i < k; i++ {
			switch r.Intn(4) {
			case 0:
				row = append(row, 0) // empty string
			case 1:
				row = append(row, 0xfb)
			default:
				row = append(row, refLenencStr(genValue(r, genLen(r, false)))...)
			}
		}
		rep.Count("class:text-row")
		check("text row", row, -1, -1, -1, 0)
	}
}

// ---- binary rows ----

// c12myRewriter stands between DataDecoderProcessor and DataEncoderProcessor and replaces the values of the chosen columns.
type c12myRewriter struct{ repl map[int][]byte }

func (s *c12myRewriter) ID() string { return "c12myRewriter" }
func (s *c12myRewriter) OnColumn(ctx context.Context, data []byte) (context.Context, []byte, error) {
	info, ok := base.ColumnInfoFromContext(ctx)
	if ok {
		if v, ok := s.repl[info.Index()]; ok {
			return ctx, v, nil
		}
	}
	return ctx, data, nil
}

func c12myBinaryRow(w *c12myOps, r *vh.Rng, lab string) {
	rep := w.rep
	k := c12myCounts[r.Intn(len(c12myCounts))]
	cells := make([]c12myCell, k)
	tys := make([]byte, k)
	for i := range cells {
		cells[i] = c12myGenCell(r, true)
		tys[i] = cells[i].typ
	}
	row := c12myRefBinRow(cells)
	rep.Count(fmt.Sprintf("binrow:cols=%d", k))
	// (a) scripted subscriber, replayed on the model: fixed widths pass raw, strings are re-framed / replaced
	trs := make([]c12myTr, k)
	want := make([]c12myCell, k)
	copy(want, cells)
	fail := false
	for i, c := range cells {
		if c12myWidth(c.typ) >= 0 {
			trs[i] = c12myTr{kind: c12myTrRaw}
			continue
		}
		switch r.Intn(8) {
		case 0, 1, 2:
			nv := genValue(r, genLen(r, false))
			trs[i] = c12myTr{kind: c12myTrConst, b: refLenencStr(nv)}
			want[i].val = nv
			rep.Count("binrow:cell-rewritten")
		case 3:
			if r.Intn(6) == 0 {
				trs[i] = c12myTr{kind: c12myTrFail}
				fail = fail || !c.null
				rep.Count("binrow:cell-fails")
				break
			}
			fallthrough
		default:
			trs[i] = c12myTr{kind: c12myTrFrame}
		}
	}
	o := w.BinRow(lab+" processBinaryDataRow(scripted)", tys, trs, row)
	rep.OracleChecks++
	if fail {
		if o.Kind != "err" {
			rep.Violate("mysql-binrow-subscriber-error", "a subscriber error did not fail the row: "+o.String(), fmt.Sprintf("%s types=%x row=%x", lab, tys, row))
		}
	} else {
		c12myCheckBinRow(rep, "mysql-binrow-rewrite", lab, tys, row, cells, want, o)
	}
	// (b) the subscribers of the real proxy around a rewriter: oracle only (the encoders are C19's models)
	repl := map[int][]byte{}
	want2 := make([]c12myCell, k)
	copy(want2, cells)
	for i, c := range cells {
		if c12myWidth(c.typ) < 0 && !c.null && r.Intn(3) == 0 {
			nv := genValue(r, 1+genLen(r, false))
			repl[i] = nv
			want2[i].val = nv
		}
	}
	o2 := vh.Guard(func() vh.Outcome {
		subs := []base.DecryptionSubscriber{mysql.NewDataDecoderProcessor(), &c12myRewriter{repl}, mysql.NewDataEncoderProcessor()}
		out, _, _, err := mysql.VerifProcessDataRow(c12myCtx(), subs, true, c12myPin(row), c12myFields(tys))
		if err != nil {
			return vh.ErrO(err)
		}
		return vh.Ok(out)
	})
	rep.Count("binrow:real-subscribers")
	rep.OracleChecks++
	c12myCheckBinRow(rep, "mysql-binrow-real-subscribers", lab, tys, row, cells, want2, o2)
}

func c12myCheckBinRow(rep *vh.Report, class, lab string, tys, row []byte, cells, want []c12myCell, o vh.Outcome) {
	replay := fmt.Sprintf("%s types=%x row=%x", lab, tys, row)
	if o.Kind != "ok" {
		rep.Violate(class, "a well-formed binary row was not processed: "+o.String(), replay)
		return
	}
	out := o.Vals[0]
	bl := 1 + (len(tys)+9)/8
	if len(out) < bl || !bytes.Equal(out[:bl], row[:bl]) {
		rep.Violate(class, fmt.Sprintf("header / NULL bitmap changed: %x -> %x", row[:bl], out), replay)
		return
	}
	got, ok := c12myRefDecodeBinRow(out, tys)
	if !ok {
		rep.Violate(class, fmt.Sprintf("the processed row does not decode (declared lengths / widths do not add up): %x", out), replay)
		return
	}
	for i := range want {
		if got[i].null != want[i].null || (!want[i].null && !bytes.Equal(got[i].val, want[i].val)) {
			what := "rewritten"
			if bytes.Equal(cells[i].val, want[i].val) {
				what = "untouched"
			}
			rep.Violate(class, fmt.Sprintf("%s column %d (type 0x%02x) arrives as null=%v %x, expected null=%v %x", what, i, tys[i], got[i].null, got[i].val, want[i].null, want[i].val), replay)
			return
		}
	}
	if !bytes.Equal(out, c12myRefBinRow(want)) {
		rep.Violate(class, fmt.Sprintf("the processed row %x is not the protocol encoding %x of the intended row", out, c12myRefBinRow(want)), replay)
	}
}

// ---- column definitions ----
func c12myGenName(r *vh.Rng) []byte {
	switch r.Intn(12) {
	case 0:
		return []byte{}
	case 1:
		return genValue(r, r.Pick(250, 251, 252, 300))
	}
	return genValue(r, 1+r.Intn(20))
}

func c12myGenColDef(r *vh.Rng, maria bool) c12myColDef {
	c := c12myColDef{catalog: []byte("def"), schema: c12myGenName(r), table: c12myGenName(r), orgTable: c12myGenName(r), name: c12myGenName(r), orgName: c12myGenName(r),
		charset: uint16(r.Intn(65536)), collen: uint32(r.U64()), typ: byte(r.Intn(256)), flags: uint16(r.Intn(65536)), decimals: byte(r.Intn(256))}
	if maria && r.Intn(2) == 0 {
		d := genValue(r, 1+r.Intn(12))
		c.ext = cat([]byte{byte(len(d))}, d)
	}
	if r.Intn(6) == 0 {
		c.hasDefault, c.def = true, genValue(r, genLen(r, false))
	}
	return c
}

// non-shortest length prefix (still well-formed)
func c12myLongLenenc(v []byte) []byte {
	if v == nil {
		return []byte{0xfb}
	}
	return cat([]byte{0xfc, byte(len(v)), byte(len(v) >> 8)}, v)
}

func c12myColumnDef(w *c12myOps, r *vh.Rng, lab string) {
	rep := w.rep
	maria := r.Intn(3) == 0
	c := c12myGenColDef(r, maria)
	enc := refLenencStr
	canonical := true
	if r.Intn(5) == 0 { // another catalog and non-shortest prefixes: the re-serialised definition has another length
		c.catalog = genValue(r, r.Intn(8))
		enc = c12myLongLenenc
		canonical = false
		rep.Count("coldef:non-canonical")
	}
	d := c12myRefColDef(c, maria, enc)
	seq := byte(r.Intn(256))
	h := c12myHdr(len(d), seq)
	newty := -1
	if r.Intn(3) != 0 {
		newty = r.Intn(256)
	}
	rep.Count(fmt.Sprintf("coldef:maria=%v changed=%v default=%v", maria, newty >= 0, c.hasDefault))
	o := w.ColDef(lab+" ParseResultField", maria, h, d, newty)
	replay := fmt.Sprintf("%s maria=%v header=%x payload=%x newtype=%d", lab, maria, h, d, newty)
	rep.OracleChecks++
	if o.Kind != "ok" {
		rep.Violate("mysql-coldef-parse", "a well-formed column definition was refused: "+o.String(), replay)
		return
	}
	v := o.Vals
	opt := func(i int) []byte {
		if v[i][0] == 1 {
			return nil
		}
		return v[i+1]
	}
	got := c12myColDef{schema: opt(0), table: opt(2), orgTable: opt(4), name: opt(6), orgName: opt(8), charset: binary.LittleEndian.Uint16(v[11]),
		collen: binary.LittleEndian.Uint32(v[12]), typ: v[13][0], flags: binary.LittleEndian.Uint16(v[14]), decimals: v[15][0]}
	if len(v[10]) > 0 {
		got.ext = v[10]
	}
	if v[17][0] == 0 {
		got.hasDefault, got.def = true, v[18]
	}
	if !c12myColDefEq(got, c) {
		rep.Violate("mysql-coldef-parse", fmt.Sprintf("parsed fields differ from the ones sent: %+v vs %+v", got, c), replay)
		return
	}
	rep.OracleChecks++
	if !bytes.Equal(v[19], cat(h, d)) {
		rep.Violate("mysql-coldef-relay", fmt.Sprintf("an unchanged column definition is not relayed byte-identically: %x", v[19]), replay)
	}
	if newty < 0 {
		return
	}
	// changed definition: one well-formed frame, same fields, new type
	rep.OracleChecks++
	out := v[20]
	if len(out) < 4 || int(out[0])|int(out[1])<<8|int(out[2])<<16 != len(out)-4 || out[3] != seq {
		rep.Violate("mysql-coldef-rewrite-frame", fmt.Sprintf("re-serialised column definition: header %x declares another length than the %d bytes that follow (or another sequence id than %d)", out[:min(4, len(out))], len(out)-4, seq), replay)
		return
	}
	back, ok := c12myRefDecodeColDef(out[4:], maria)
	wantC := c
	wantC.typ = byte(newty)
	if !ok || !c12myColDefEq(back, wantC) || !bytes.Equal(back.catalog, []byte("def")) {
		rep.Violate("mysql-coldef-rewrite", fmt.Sprintf("re-serialised column definition %x does not decode to the fields sent with the new type (decoded ok=%v %+v)", out[4:], ok, back), replay)
		return
	}
	if canonical && len(out)-4 != len(d) {
		rep.Violate("mysql-coldef-rewrite", "canonical definition changed its length", replay)
	}
}

// ---- COM_STMT_EXECUTE ----
func c12myGenParam(r *vh.Rng) c12myParam {
	c := c12myGenCell(r, true)
	p := c12myParam{typ: c.typ, null: c.null, val: c.val}
	if c12myWidth(p.typ) > 0 && p.typ != 4 && p.typ != 5 && r.Intn(3) == 0 {
		p.flag = 0x80
	}
	if p.typ == 6 {
		p.val = nil
	}
	return p
}

func c12myExecute(w *c12myOps, r *vh.Rng, lab string) {
	rep := w.rep
	pn := c12myCounts[r.Intn(len(c12myCounts))]
	ps := make([]c12myParam, pn)
	for i := range ps {
		ps[i] = c12myGenParam(r)
	}
	d := c12myRefExecute(uint32(r.U64()), byte(r.Intn(256)), uint32(r.U64()), ps)
	seq := byte(r.Intn(256))
	h := c12myHdr(len(d), seq)
	rep.Count(fmt.Sprintf("execute:params=%d", pn))
	replay := fmt.Sprintf("%s paramNum=%d payload=%x", lab, pn, d)
	o := w.GetParams(lab+" GetBindParameters", d, pn)
	rep.OracleChecks++
	if o.Kind != "ok" || len(o.Vals) != 1+3*pn {
		rep.Violate("mysql-execute-parse", "a well-formed COM_STMT_EXECUTE was not parsed: "+o.String(), replay)
		return
	}
	for i, p := range ps {
		ty, null, val := o.Vals[1+3*i][0], o.Vals[2+3*i][0] == 1, o.Vals[3+3*i]
		wantNull := p.null || p.typ == 6
		wantVal := p.val
		if p.typ == 4 || p.typ == 5 {
			wantVal = []byte{}
		}
		if ty != p.typ || null != wantNull || (!wantNull && !bytes.Equal(val, wantVal)) {
			rep.Violate("mysql-execute-parse", fmt.Sprintf("parameter %d: got type 0x%02x null=%v %x, sent type 0x%02x null=%v %x", i, ty, null, val, p.typ, wantNull, wantVal), replay)
			return
		}
	}
	// rewrite some string parameters (they become BLOBs), keep the others
	script := make([][]byte, pn)
	want := make([]c12myParam, pn)
	copy(want, ps)
	for i, p := range ps {
		if c12myWidth(p.typ) < 0 && !p.null && r.Intn(2) == 0 {
			nv := genValue(r, 1+genLen(r, false))
			if bytes.Equal(nv, p.val) {
				continue
			}
			script[i] = nv
			want[i].val = nv
			want[i].typ = 0xfc
			rep.Count("execute:param-rewritten")
		}
	}
	o, ran := w.SetParams(lab+" SetParameters", h, d, pn, script)
	if !ran {
		rep.Violate("mysql-execute-parse", "GetBindParameters gave no values for SetParameters: "+o.String(), replay)
		return
	}
	rep.OracleChecks++
	if o.Kind != "ok" {
		rep.Violate("mysql-execute-rewrite", "SetParameters failed on values it produced itself: "+o.String(), replay)
		return
	}
	out := o.Vals[0]
	if len(out) < 4 || int(out[0])|int(out[1])<<8|int(out[2])<<16 != len(out)-4 || out[3] != seq {
		rep.Violate("mysql-execute-rewrite", fmt.Sprintf("rewritten COM_STMT_EXECUTE: header %x does not declare the %d bytes that follow / keeps the sequence id", out[:min(4, len(out))], len(out)-4), replay)
		return
	}
	body := out[4:]
	bl := (pn + 7) / 8
	if len(body) < 10+bl || !bytes.Equal(body[:10+bl], d[:10+bl]) {
		rep.Violate("mysql-execute-rewrite", fmt.Sprintf("command / statement id / flags / iteration count / NULL bitmap changed: %x", body), replay)
		return
	}
	back, ok := c12myRefDecodeExecute(body, pn)
	if !ok {
		rep.Violate("mysql-execute-rewrite", fmt.Sprintf("rewritten COM_STMT_EXECUTE does not decode (values do not add up): %x", body), replay)
		return
	}
	for i := range want {
		g, x := back[i], want[i]
		same := g.typ == x.typ && g.null == x.null
		if same && !x.null {
			if a, isInt := c12myIntOf(x); isInt {
				b, _ := c12myIntOf(g)
				same = a == b // the unsigned flag may be normalised as long as the number stays
			} else {
				same = bytes.Equal(g.val, x.val) && g.flag == x.flag
			}
		}
		if !same && !x.null && (x.typ == 3 || x.typ == 8) && x.flag&0x80 != 0 && len(x.val) > 0 && x.val[len(x.val)-1]&0x80 != 0 &&
			g.typ == x.typ && g.flag&0x80 == 0 && bytes.Equal(g.val, x.val) {
			// known finding: the unsigned flag of an untouched LONG / LONGLONG parameter is lost
			rep.Violate("mysql-execute-unsigned-int-sign", fmt.Sprintf("parameter %d: unsigned value %x (type 0x%02x, flag 0x80) is forwarded with flag 0x00, i.e. as a negative number", i, x.val, x.typ), replay)
			return
		}
		if !same {
			rep.Violate("mysql-execute-rewrite", fmt.Sprintf("parameter %d arrives as type 0x%02x flag 0x%02x null=%v %x, intended type 0x%02x flag 0x%02x null=%v %x", i, g.typ, g.flag, g.null, g.val, x.typ, x.flag, x.null, x.val), replay)
			return
		}
	}
}

// ---- 16 MiB payloads (thorough tier; implementation oracle only: such literals cannot be replayed in Coq) ----
func c12myHuge(w *c12myOps) {
	rep := w.rep
	const maxp = 1<<24 - 1
	for _, c := range []struct {
		total int
		first byte
		seq   byte
	}{{maxp, 'A', 0}, {maxp + 5, 'A', 1}, {maxp + 1, 0xfe, 254}, {2 * maxp, 0x00, 7}, {2*maxp + 3, 0xfe, 255}} {
		payload := bytes.Repeat([]byte{'x'}, c.total)
		payload[0] = c.first
		var stream []byte
		seq := c.seq
		for rest := payload; ; seq++ {
			n := len(rest)
			if n > maxp {
				n = maxp
			}
			stream = append(stream, c12myFrame(rest[:n], seq)...)
			rest = rest[n:]
			if n < maxp {
				break
			}
		}
		tail := []byte{1, 0, 0, 0, 0x0e}
		lab := fmt.Sprintf("huge payload=%d first=0x%02x seq=%d", c.total, c.first, c.seq)
		rep.Count("huge:multi-packet")
		o := vh.Guard(func() vh.Outcome {
			conn := &c12myConn{r: bytes.NewReader(cat(stream, tail))}
			p, err := mysql.ReadPacket(conn)
			if err != nil {
				return vh.ErrO(err)
			}
			return vh.Ok(p.GetData(), []byte{byte(conn.r.Len())}, p.Dump(), c12myClassFlags(p))
		})
		rep.OracleChecks++
		switch {
		case o.Kind != "ok":
			rep.Violate("mysql-multipacket-relay", "a payload sent as several packets was not read: "+o.String(), lab)
		case !bytes.Equal(o.Vals[0], payload) || int(o.Vals[1][0]) != len(tail):
			rep.Violate("mysql-multipacket-relay", fmt.Sprintf("payload of %d bytes read as %d bytes, %d bytes left unread (expected %d)", len(payload), len(o.Vals[0]), o.Vals[1][0], len(tail)), lab)
		case !bytes.Equal(o.Vals[2], stream):
			d := o.Vals[2]
			rep.Violate("mysql-multipacket-relay", fmt.Sprintf("Dump of a %d byte payload is not the packet sequence received: %d bytes starting %x, received %d bytes starting %x", len(payload), len(d), d[:min(8, len(d))], len(stream), stream[:8]), lab)
		case o.Vals[3][3] != 0:
			rep.Violate("mysql-packet-classification", "a row of 2^24-1 bytes or more was taken for the end of the rows", lab)
		}
		// a rewritten value that crosses the limit in either direction
		o = vh.Guard(func() vh.Outcome {
			p, err := mysql.ReadPacket(&c12myConn{r: bytes.NewReader(c12myFrame([]byte{3, 'q'}, 9))})
			if err != nil {
				return vh.ErrO(err)
			}
			p.SetData(payload)
			return vh.Ok(p.Dump())
		})
		rep.OracleChecks++
		want := append([]byte{}, stream...)
		for i, s := 3, byte(9); i < len(want); i, s = i+4+maxp, s+1 {
			want[i] = s
		}
		if o.Kind != "ok" || !bytes.Equal(o.Vals[0], want) {
			rep.Violate("mysql-multipacket-setdata", "SetData with a payload of 2^24-1 bytes or more is not split into packets: "+o.Kind, lab)
		}
	}
}
