package main

// Operations of the wire-codec domain (C12; malformed stream reused by C14): each runs the REAL acra
// function inside vh.Guard, records the observation as a Model.RunWire op and returns the outcome.

import (
	"bufio"
	"bytes"
	"encoding/binary"
	"fmt"
	"strings"

	"acra-vh/vh"

	mybase "github.com/cossacklabs/acra/decryptor/mysql/base"
	"github.com/cossacklabs/acra/decryptor/postgresql"
	"github.com/cossacklabs/acra/utils"
	"github.com/sirupsen/logrus"
)

type WireOps struct {
	rep *vh.Report
}

var wireLogger = logrus.NewEntry(logrus.StandardLogger())

func le8(n uint64) []byte { b := make([]byte, 8); binary.LittleEndian.PutUint64(b, n); return b }
func be2(n uint16) []byte { b := make([]byte, 2); binary.BigEndian.PutUint16(b, n); return b }
func be4(n uint32) []byte { b := make([]byte, 4); binary.BigEndian.PutUint32(b, n); return b }
func flagB(b bool) []byte {
	if b {
		return []byte{1}
	}
	return []byte{0}
}
func cat(bs ...[]byte) []byte {
	var o []byte
	for _, b := range bs {
		o = append(o, b...)
	}
	return o
}
func optVals(v []byte) [][]byte {
	if v == nil {
		return [][]byte{{1}, {}}
	}
	return [][]byte{{0}, v}
}
func coqOptList(l [][]byte) string {
	parts := make([]string, len(l))
	for i, b := range l {
		parts[i] = vh.HOpt(b)
	}
	return "[" + strings.Join(parts, "; ") + "]"
}
func coqNList(l []uint16) string {
	parts := make([]string, len(l))
	for i, v := range l {
		parts[i] = fmt.Sprint(v)
	}
	return "[" + strings.Join(parts, "; ") + "]"
}

// add records the observation for replay on the model. Values of 64 KiB and more cannot be replayed:
// coqc overflows its stack on a single numeral of that size (vh.H emits one numeral per byte string), so
// those observations are judged by the implementation oracle only and counted as "oracle-only:big".
func (w *WireOps) add(label, op string, o vh.Outcome) vh.Outcome {
	size := len(op)
	for _, v := range o.Vals {
		size += 2 * len(v)
	}
	if size > 40000 {
		w.rep.Count("oracle-only:big")
		return o
	}
	w.rep.Add(label, op, o)
	return o
}

// ---------- MySQL ----------
func (w *WireOps) MyInt(label string, data []byte) vh.Outcome {
	return w.add(label, "(MyInt "+vh.H(data)+")", vh.Guard(func() vh.Outcome {
		num, isNull, n, err := mybase.LengthEncodedInt(data)
		if err != nil {
			return vh.ErrO(err)
		}
		return vh.Ok(le8(num), flagB(isNull), le8(uint64(n)))
	}))
}
func (w *WireOps) MyStr(label string, data []byte) vh.Outcome {
	return w.add(label, "(MyStr "+vh.H(data)+")", vh.Guard(func() vh.Outcome {
		v, n, err := mybase.LengthEncodedString(data)
		if err != nil {
			return vh.ErrO(err)
		}
		return vh.Ok(append(optVals(v), le8(uint64(n)))...)
	}))
}
func (w *WireOps) MySkip(label string, data []byte) vh.Outcome {
	return w.add(label, "(MySkip "+vh.H(data)+")", vh.Guard(func() vh.Outcome {
		n, err := mybase.SkipLengthEncodedString(data)
		if err != nil {
			return vh.ErrO(err)
		}
		return vh.Ok(le8(uint64(n)))
	}))
}
func (w *WireOps) MyPutInt(label string, n uint64) vh.Outcome {
	return w.add(label, "(MyPutInt "+vh.H(le8(n))+")", vh.Guard(func() vh.Outcome {
		return vh.Ok(mybase.PutLengthEncodedInt(n))
	}))
}
func (w *WireOps) MyPutStr(label string, v []byte) vh.Outcome {
	return w.add(label, "(MyPutStr "+vh.HOpt(v)+")", vh.Guard(func() vh.Outcome {
		return vh.Ok(mybase.PutLengthEncodedString(v))
	}))
}

// realTextRow splits a text-protocol row into k fields the way processTextDataRow does
// (LengthEncodedString at the running position).
func realTextRow(k int, data []byte) (vals [][]byte, rest []byte, err error) {
	pos := 0
	for i := 0; i < k; i++ {
		v, n, err := mybase.LengthEncodedString(data[pos:])
		if err != nil {
			return nil, nil, err
		}
		vals = append(vals, v)
		pos += n
	}
	return vals, data[pos:], nil
}
func (w *WireOps) MyTextRow(label string, k int, data []byte) (vh.Outcome, [][]byte) {
	var got [][]byte
	o := w.add(label, fmt.Sprintf("(MyTextRow %d %s)", k, vh.H(data)), vh.Guard(func() vh.Outcome {
		vals, rest, err := realTextRow(k, data)
		if err != nil {
			return vh.ErrO(err)
		}
		got = vals
		var out [][]byte
		for _, v := range vals {
			out = append(out, optVals(v)...)
		}
		return vh.Ok(append(out, rest)...)
	}))
	return o, got
}

// ---------- PostgreSQL ----------
func newHandler(client bool, in []byte) (*postgresql.PacketHandler, *bytes.Buffer) {
	out := &bytes.Buffer{}
	var h *postgresql.PacketHandler
	if client {
		h, _ = postgresql.NewClientSidePacketHandler(bytes.NewReader(in), bufio.NewWriter(out), wireLogger)
	} else {
		h, _ = postgresql.NewDbSidePacketHandler(bytes.NewReader(in), bufio.NewWriter(out), wireLogger)
	}
	return h, out
}

// readOne reads one general message (database side: ReadPacket; client side: ReadClientPacket after start-up)
func readOne(h *postgresql.PacketHandler, client bool) error {
	if client {
		h.SetStarted()
		return h.ReadClientPacket()
	}
	h.Reset()
	return h.ReadPacket()
}

func (w *WireOps) PgRead(label string, client bool, stream []byte) vh.Outcome {
	return w.add(label, "(PgRead "+vh.H(stream)+")", vh.Guard(func() vh.Outcome {
		rd := bytes.NewReader(stream)
		out := &bytes.Buffer{}
		var h *postgresql.PacketHandler
		if client {
			h, _ = postgresql.NewClientSidePacketHandler(rd, bufio.NewWriter(out), wireLogger)
		} else {
			h, _ = postgresql.NewDbSidePacketHandler(rd, bufio.NewWriter(out), wireLogger)
		}
		if err := readOne(h, client); err != nil {
			return vh.ErrO(err)
		}
		m, err := h.Marshal()
		if err != nil {
			return vh.ErrO(err)
		}
		rest := stream[len(stream)-rd.Len():]
		// type, length buffer and payload as the handler holds them: recovered from Marshal
		typ := []byte{stream[0]}
		body := m
		if stream[0] != postgresql.WithoutMessageType {
			body = m[1:]
		}
		return vh.Ok(m, rest, typ, body[:4], body[4:])
	}))
}

func (w *WireOps) PgStartup(label string, stream []byte) vh.Outcome {
	return w.add(label, "(PgStartup "+vh.H(stream)+")", vh.Guard(func() vh.Outcome {
		rd := bytes.NewReader(stream)
		out := &bytes.Buffer{}
		h, _ := postgresql.NewClientSidePacketHandler(rd, bufio.NewWriter(out), wireLogger)
		if err := h.ReadClientPacket(); err != nil {
			return vh.ErrO(err)
		}
		if err := h.VerifSendPacket(); err != nil {
			return vh.ErrO(err)
		}
		m := out.Bytes()
		return vh.Ok(m, stream[len(stream)-rd.Len():], m[4:])
	}))
}

// PgRelay: the proxy's read/send loop over a whole stream until the first error.
func (w *WireOps) PgRelay(label string, client bool, stream []byte) vh.Outcome {
	return w.add(label, "(PgRelay "+vh.H(stream)+")", vh.Guard(func() vh.Outcome {
		h, out := newHandler(client, stream)
		for i := 0; i <= len(stream); i++ {
			if err := readOne(h, client); err != nil {
				break
			}
			if err := h.VerifSendPacket(); err != nil {
				return vh.ErrO(err)
			}
		}
		return vh.Ok(out.Bytes())
	}))
}

func (w *WireOps) PgParseCols(label string, fmts []uint16, desc []byte) vh.Outcome {
	return w.add(label, "(PgParseCols "+coqNList(fmts)+" "+vh.H(desc)+")", vh.Guard(func() vh.Outcome {
		// feed the payload through a framed DataRow so that the handler's buffer holds exactly desc
		stream := cat([]byte{'D'}, be4(uint32(len(desc)+4)), desc)
		h, _ := newHandler(false, stream)
		if err := h.ReadPacket(); err != nil {
			return vh.Outcome{Kind: "panic", Msg: "harness: framing failed: " + err.Error()}
		}
		if err := h.VerifParseColumns(fmts); err != nil {
			return vh.ErrO(err)
		}
		vals := [][]byte{be2(uint16(h.VerifColumnCount()))}
		for _, c := range h.Columns {
			vals = append(vals, append([]byte{}, c.LengthBuf[:]...), append([]byte{}, c.GetData()...), flagB(c.IsNull()))
		}
		return vh.Ok(vals...)
	}))
}

// PgRow: ReadPacket, parseColumns, SetData on every non-NULL column (replacement or its own bytes),
// updateDataFromColumns, sendPacket – the data-row path of handleQueryDataPacket.
func (w *WireOps) PgRow(label string, fmts []uint16, tr [][]byte, stream []byte) vh.Outcome {
	return w.add(label, "(PgRow "+coqNList(fmts)+" "+coqOptList(tr)+" "+vh.H(stream)+")", vh.Guard(func() vh.Outcome {
		h, out := newHandler(false, stream)
		if err := h.ReadPacket(); err != nil {
			return vh.ErrO(err)
		}
		if err := h.VerifParseColumns(fmts); err != nil {
			return vh.ErrO(err)
		}
		if h.VerifColumnCount() != 0 {
			for i := 0; i < h.VerifColumnCount(); i++ {
				c := h.Columns[i]
				if c.IsNull() {
					continue
				}
				if i < len(tr) && tr[i] != nil {
					c.SetData(tr[i])
				} else {
					c.SetData(c.GetData())
				}
			}
			h.VerifUpdateDataFromColumns()
		}
		if err := h.VerifSendPacket(); err != nil {
			return vh.ErrO(err)
		}
		return vh.Ok(out.Bytes())
	}))
}

func (w *WireOps) PgQuery(label string, stream, q []byte) vh.Outcome {
	return w.add(label, "(PgQuery "+vh.H(stream)+" "+vh.H(q)+")", vh.Guard(func() vh.Outcome {
		h, out := newHandler(true, stream)
		if err := readOne(h, true); err != nil {
			return vh.ErrO(err)
		}
		if h.IsSimpleQuery() {
			h.ReplaceQuery(string(q))
		}
		if err := h.VerifSendPacket(); err != nil {
			return vh.ErrO(err)
		}
		return vh.Ok(out.Bytes())
	}))
}

func u16s(l []uint16) []byte {
	var o []byte
	for _, v := range l {
		o = append(o, be2(v)...)
	}
	return o
}

// wireClip returns a copy whose capacity equals its length (a slice expression beyond len must panic,
// not silently read spare capacity).
func wireClip(data []byte) []byte {
	c := make([]byte, len(data))
	copy(c, data)
	return c[:len(c):len(c)]
}

func (w *WireOps) PgBind(label string, data []byte) vh.Outcome {
	return w.add(label, "(PgBind "+vh.H(data)+")", vh.Guard(func() vh.Outcome {
		b, err := postgresql.NewBindPacket(wireClip(data))
		if err != nil {
			return vh.ErrO(err)
		}
		portal, stmt, pf, pv, rf := b.VerifFields()
		vals := [][]byte{[]byte(portal), []byte(stmt), u16s(pf), u16s(rf)}
		for _, v := range pv {
			vals = append(vals, optVals(v)...)
		}
		return vh.Ok(vals...)
	}))
}

// PgBindRewrite: read a Bind message, parse it, replace parameter values, ReplaceBind, send.
func (w *WireOps) PgBindRewrite(label string, stream []byte, tr [][]byte) vh.Outcome {
	return w.add(label, "(PgBindRewrite "+vh.H(stream)+" "+coqOptList(tr)+")", vh.Guard(func() vh.Outcome {
		h, out := newHandler(true, stream)
		if err := readOne(h, true); err != nil {
			return vh.ErrO(err)
		}
		b, err := h.GetBindData()
		if err != nil {
			return vh.ErrO(err)
		}
		_, _, _, pv, _ := b.VerifFields()
		for i := range pv {
			if i < len(tr) && tr[i] != nil {
				b.VerifSetParamValue(i, tr[i])
			}
		}
		if err := h.ReplaceBind(b); err != nil {
			return vh.ErrO(err)
		}
		if err := h.VerifSendPacket(); err != nil {
			return vh.ErrO(err)
		}
		return vh.Ok(out.Bytes())
	}))
}

// PgParse: NewParsePacket and every accessor of the result.
func (w *WireOps) PgParse(label string, data []byte) vh.Outcome {
	return w.add(label, "(PgParse "+vh.H(data)+")", vh.Guard(func() vh.Outcome {
		p, err := postgresql.NewParsePacket(wireClip(data))
		if err != nil {
			return vh.ErrO(err)
		}
		name, query, num, params := p.VerifFields()
		return vh.Ok(name, query, num, cat(params...), p.Marshal(), []byte(p.Name()), []byte(p.QueryString()))
	}))
}

// PgParseReplace: read a client message, ReplaceQuery on a Parse message (the Parse branch), send.
func (w *WireOps) PgParseReplace(label string, stream, q []byte) vh.Outcome {
	return w.add(label, "(PgParseReplace "+vh.H(stream)+" "+vh.H(q)+")", vh.Guard(func() vh.Outcome {
		h, out := newHandler(true, stream)
		if err := readOne(h, true); err != nil {
			return vh.ErrO(err)
		}
		if h.IsParse() {
			h.ReplaceQuery(string(q))
		}
		if err := h.VerifSendPacket(); err != nil {
			return vh.ErrO(err)
		}
		return vh.Ok(out.Bytes())
	}))
}

func (w *WireOps) PgExecute(label string, data []byte) vh.Outcome {
	return w.add(label, "(PgExecute "+vh.H(data)+")", vh.Guard(func() vh.Outcome {
		e, err := postgresql.NewExecutePacket(wireClip(data))
		if err != nil {
			return vh.ErrO(err)
		}
		return vh.Ok([]byte(e.PortalName()), be4(e.VerifS14MaxRows()))
	}))
}

// PgSimpleQuery: read a client message and take its query text the way handleClientPacket does.
func (w *WireOps) PgSimpleQuery(label string, stream []byte) vh.Outcome {
	return w.add(label, "(PgSimpleQuery "+vh.H(stream)+")", vh.Guard(func() vh.Outcome {
		h, _ := newHandler(true, stream)
		if err := readOne(h, true); err != nil {
			return vh.ErrO(err)
		}
		q, err := h.GetSimpleQuery()
		if err != nil {
			return vh.ErrO(err)
		}
		return vh.Ok([]byte(q))
	}))
}

// ---------- bytea ----------
func (w *WireOps) BaEncOct(label string, d []byte) vh.Outcome {
	return w.add(label, "(BaEncOct "+vh.H(d)+")", vh.Guard(func() vh.Outcome { return vh.Ok(utils.EncodeToOctal(d)) }))
}
func (w *WireOps) BaDecOct(label string, d []byte) vh.Outcome {
	return w.add(label, "(BaDecOct "+vh.H(d)+")", vh.Guard(func() vh.Outcome {
		o, err := utils.DecodeOctal(append([]byte{}, d...))
		if err != nil {
			return vh.ErrO(err)
		}
		return vh.Ok(o)
	}))
}
func (w *WireOps) BaEncHex(label string, d []byte) vh.Outcome {
	return w.add(label, "(BaEncHex "+vh.H(d)+")", vh.Guard(func() vh.Outcome { return vh.Ok(utils.PgEncodeToHex(d)) }))
}
func (w *WireOps) BaDecEsc(label string, d []byte) vh.Outcome {
	return w.add(label, "(BaDecEsc "+vh.H(d)+")", vh.Guard(func() vh.Outcome {
		o, err := utils.DecodeEscaped(append([]byte{}, d...))
		if err != nil {
			return vh.ErrO(err)
		}
		return vh.Ok(o)
	}))
}
