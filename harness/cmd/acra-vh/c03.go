package main

import (
	"bytes"
	"encoding/binary"
	"encoding/hex"
	"fmt"

	"acra-vh/vh"

	"github.com/cossacklabs/acra/crypto"
)

func init() { register("c03", "Model.RunEnvelope", runC03) }

type edit struct {
	name string
	val  []byte
}

func le64(n uint64) []byte { b := make([]byte, 8); binary.LittleEndian.PutUint64(b, n); return b }

var lengthBoundaries = []uint64{0, 1, 3, 11, 12, 13, 14, 17, 18, 19, 44, 145, 1 << 16, 1 << 31, 1 << 32, 1<<63 - 1, 1 << 63, 1<<63 + 1, 1<<64 - 13, 1<<64 - 12, 1<<64 - 5, 1<<64 - 4, 1<<64 - 1}

func setAt(v []byte, off int, repl []byte) []byte {
	out := append([]byte{}, v...)
	if off+len(repl) <= len(out) {
		copy(out[off:], repl)
	}
	return out
}

// edits of a serialized container v (id f0/f1): every class the property names
func genEdits(r *vh.Rng, v []byte, id byte, all bool) []edit {
	var es []edit
	nbits := len(v) * 8
	if all {
		for i := 0; i < nbits; i++ {
			o := append([]byte{}, v...)
			o[i/8] ^= 1 << (i % 8)
			es = append(es, edit{fmt.Sprintf("flipbit %d", i), o})
		}
	} else {
		seen := map[int]bool{}
		for k := 0; k < 24; k++ {
			i := r.Intn(nbits)
			if k < 8 { // header bits
				i = r.Intn(min(nbits, 34*8))
			}
			if seen[i] {
				continue
			}
			seen[i] = true
			o := append([]byte{}, v...)
			o[i/8] ^= 1 << (i % 8)
			es = append(es, edit{fmt.Sprintf("flipbit %d", i), o})
		}
	}
	// truncations
	cuts := []int{0, 1, 3, 11, 12, 13, 14, 16, 29, 30, 31, len(v) / 2, len(v) - 45, len(v) - 2, len(v) - 1}
	if all {
		cuts = nil
		for i := 0; i < len(v); i++ {
			cuts = append(cuts, i)
		}
	}
	for _, c := range cuts {
		if c >= 0 && c < len(v) {
			es = append(es, edit{fmt.Sprintf("truncate %d", c), append([]byte{}, v[:c]...)})
		}
	}
	// extensions
	es = append(es, edit{"extend 1", append(append([]byte{}, v...), 0)})
	es = append(es, edit{"extend tag", append(append([]byte{}, v...), []byte("%%%")...)})
	es = append(es, edit{"extend random", append(append([]byte{}, v...), r.Bytes(1+r.Intn(40))...)})
	// container length field (offset 3), envelope id (offset 11)
	for _, b := range lengthBoundaries {
		es = append(es, edit{fmt.Sprintf("container-len %d", b), setAt(v, 3, le64(b))})
	}
	es = append(es, edit{"container-len len-1", setAt(v, 3, le64(uint64(len(v)-1)))})
	es = append(es, edit{"container-len len+1", setAt(v, 3, le64(uint64(len(v)+1)))})
	// the whole boundary table of the declared length (0..14, around len, overflowing), also combined with
	// an extension (the declared length then frames a proper prefix / points past the longer value)
	for _, b := range c03HeaderLengths(len(v)) {
		es = append(es, edit{fmt.Sprintf("container-len-table %d", b), setAt(v, 3, le64(b))})
	}
	ext := append(append([]byte{}, v...), r.Bytes(1+r.Intn(20))...)
	for _, b := range []uint64{0, 5, 11, 12, 13, uint64(len(v)), uint64(len(ext)), uint64(len(ext) + 1), 1<<64 - 1} {
		es = append(es, edit{fmt.Sprintf("container-len-extended %d", b), setAt(ext, 3, le64(b))})
	}
	for _, b := range []byte{0x00, 0xf0, 0xf1, 0xf2, 0xff} {
		es = append(es, edit{fmt.Sprintf("envelope-id %02x", b), setAt(v, 11, []byte{b})})
	}
	in := 12 // inner envelope offset
	if id == crypto.AcraBlockEnvelopeID {
		for _, b := range lengthBoundaries {
			es = append(es, edit{fmt.Sprintf("ab-restlen %d", b), setAt(v, in+4, le64(b))})
		}
		es = append(es, edit{"ab-restlen exact-1", setAt(v, in+4, le64(uint64(len(v)-in-4-1)))})
		es = append(es, edit{"ab-restlen exact+1", setAt(v, in+4, le64(uint64(len(v)-in-4+1)))})
		kl := []uint16{0, 1, 43, 44, 45, 75, 77, 200, 0x7fff, 0xffff}
		// key lengths around what is left of the block after the header / of the whole block
		for d := -20; d <= 2; d++ {
			if v := len(v) - in + d; v >= 0 && v <= 0xffff {
				kl = append(kl, uint16(v))
			}
		}
		for _, k := range kl {
			kb := make([]byte, 2)
			binary.LittleEndian.PutUint16(kb, k)
			es = append(es, edit{fmt.Sprintf("ab-keylen %d", k), setAt(v, in+16, kb)})
		}
		for _, t := range []byte{1, 0x7f, 0xff} {
			es = append(es, edit{fmt.Sprintf("ab-kektype %02x", t), setAt(v, in+12, []byte{t})})
			es = append(es, edit{fmt.Sprintf("ab-datatype %02x", t), setAt(v, in+15, []byte{t})})
		}
		es = append(es, edit{"ab-keyid", setAt(v, in+13, r.Bytes(2))})
	} else {
		for _, b := range lengthBoundaries {
			es = append(es, edit{fmt.Sprintf("as-datalen %d", b), setAt(v, in+137, le64(b))})
		}
		es = append(es, edit{"as-datalen exact-1", setAt(v, in+137, le64(uint64(len(v)-in-145-1)))})
		es = append(es, edit{"as-datalen exact+1", setAt(v, in+137, le64(uint64(len(v)-in-145+1)))})
		es = append(es, edit{"as-tag", setAt(v, in, []byte(`"""""""!`))})
	}
	return es
}

// runC03: alter protected values in every way the property names; at every reveal entry point the
// outcome must be an error or exactly the original plaintext, never a panic, and the column
// processor must hand a damaged value out unchanged.
func runC03(rep *vh.Report, r *vh.Rng, n int, thorough bool) {
	e := &EnvOps{rep, r}
	for sc := 0; sc < n; sc++ {
		ks := vh.NewKeySet(r, 1+r.Intn(2), 1+r.Intn(2), true)
		id := byte(crypto.AcraStructEnvelopeID)
		if sc%2 == 0 {
			id = crypto.AcraBlockEnvelopeID
		}
		x := r.Bytes(1 + r.Intn(40))
		if sc%5 == 0 {
			x = []byte("%%%\"\"\"\"\"\"\"\"payload")
		}
		lab := fmt.Sprintf("sc%d id=%02x len=%d", sc, id, len(x))
		prot := e.EncHandler(lab+" protect", id, ks, x)
		if prot.Kind != "ok" {
			rep.Violate("protect-error", "protect failed: "+prot.String(), lab)
			continue
		}
		v := prot.Vals[0]
		// a second value of the same client, for splices
		x2 := r.Bytes(1 + r.Intn(40))
		v2 := e.EncHandler(lab+" protect2", id, ks, x2).Vals[0]
		edits := genEdits(r, v, id, thorough && sc < 2)
		// splices: key block of one with data of the other (and vice versa)
		if id == crypto.AcraBlockEnvelopeID {
			kb := 12 + 18 + 76 // container header + block header + encrypted key
			sp := func(a, b []byte) []byte {
				o := append(append([]byte{}, a[:kb]...), b[kb:]...)
				copy(o[3:], le64(uint64(len(o))))
				copy(o[16:], le64(uint64(len(o)-16)))
				return o
			}
			edits = append(edits, edit{"splice key(v) data(v2)", sp(v, v2)}, edit{"splice key(v2) data(v)", sp(v2, v)})
		} else {
			kb := 12 + 8 + 45 + 84
			sp := func(a, b []byte) []byte {
				o := append(append([]byte{}, a[:kb]...), b[kb:]...)
				copy(o[3:], le64(uint64(len(o))))
				return o
			}
			edits = append(edits, edit{"splice key(v) data(v2)", sp(v, v2)}, edit{"splice key(v2) data(v)", sp(v2, v)})
		}
		for _, ed := range edits {
			cls := ed.name
			if i := bytes.IndexByte([]byte(cls), ' '); i > 0 {
				cls = cls[:i]
			}
			rep.Count("edit:" + cls)
			if bytes.Equal(ed.val, v) {
				continue
			}
			elab := lab + " " + ed.name
			verdict := func(what string, o vh.Outcome) {
				rep.OracleChecks++
				switch o.Kind {
				case "panic":
					rep.Violate("panic:"+what, what+" panicked on a modified value: "+o.Msg, elab+" v'="+hex.EncodeToString(ed.val))
				case "ok":
					// the original or (for a splice carrying v2's data block intact) nothing else
					if !bytes.Equal(o.Vals[0], x) {
						rep.Violate("misdecrypt:"+what, what+" returned different plaintext "+hx(o.Vals[0])+" for a modified value", elab+" x="+hex.EncodeToString(x)+" v'="+hex.EncodeToString(ed.val))
					}
				}
			}
			switch r.Intn(3) {
			case 0:
				verdict("DecryptWithHandler", e.DecHandler(elab+" DecryptWithHandler", id, ks, ed.val))
			case 1:
				verdict("Process", e.Process(elab+" Process", ks, ed.val))
			default:
				verdict("translator.Decrypt", e.TrDecrypt(elab+" translator.Decrypt", id, ks, ed.val))
			}
			// header rule: a value whose declared container length does not describe it is refused by every
			// entry point that parses the header (c03header.go)
			c03HeaderCheck(e, elab, id, ks, ed.val)
			// column path: unchanged, or the original revealed in place of the declared container
			pre := genAffix(r)
			col := append(append([]byte{}, pre...), ed.val...)
			oc := e.OnColumn(elab+" OnColumn", ks, col)
			rep.OracleChecks++
			switch oc.Kind {
			case "panic":
				rep.Violate("panic:OnColumn", "OnColumn panicked on a modified value: "+oc.Msg, elab+" col="+hex.EncodeToString(col))
			case "err":
				rep.Violate("column-error", "OnColumn returned an error for a damaged value", elab+" col="+hex.EncodeToString(col))
			case "ok":
				out := oc.Vals[0]
				if !bytes.Equal(out, col) && !bytes.Contains(out, x) {
					rep.Violate("column-misdecrypt", "OnColumn changed a damaged value into something that is not the original", elab+" col="+hex.EncodeToString(col)+" out="+hex.EncodeToString(out))
				}
				if len(out) > len(col) {
					rep.Violate("column-grow", "OnColumn output longer than input", elab)
				}
			}
		}
		// searchable: swapped hash
		if sc%3 == 0 {
			s1 := e.TrEncSearch(lab+" EncryptSearchable", id, ks, x)
			s2 := e.TrEncSearch(lab+" EncryptSearchable2", id, ks, x2)
			if s1.Kind == "ok" && s2.Kind == "ok" && !bytes.Equal(x, x2) {
				d := e.TrDecSearch(lab+" DecryptSearchable swapped hash", id, ks, s1.Vals[0], s2.Vals[1])
				rep.OracleChecks++
				if d.Kind == "ok" || d.Kind == "panic" {
					rep.Violate("hash-swap", "a swapped search hash was accepted: "+d.String(), lab)
				}
				for k := 0; k < 6; k++ {
					hsh := append([]byte{}, s1.Vals[1]...)
					hsh[r.Intn(len(hsh))] ^= 1 << r.Intn(8)
					d := e.TrDecSearch(lab+" DecryptSearchable flipped hash", id, ks, s1.Vals[0], hsh)
					rep.OracleChecks++
					if d.Kind == "ok" || d.Kind == "panic" {
						rep.Violate("hash-flip", "a modified search hash was accepted: "+d.String(), lab)
					}
				}
			}
		}
		// raw (old format) envelopes through Process / OnColumn-independent library calls
		if sc%4 == 1 {
			inner := v[12:]
			for k := 0; k < 10; k++ {
				o := append([]byte{}, inner...)
				o[r.Intn(len(o))] ^= 1 << r.Intn(8)
				if id == crypto.AcraBlockEnvelopeID {
					d := e.AbDecrypt(lab+" raw AcraBlock.Decrypt flipped", o, ks.Syms, nil)
					rep.OracleChecks++
					if d.Kind == "panic" || (d.Kind == "ok" && !bytes.Equal(d.Vals[0], x)) {
						rep.Violate("raw-ab", "AcraBlock.Decrypt on a modified block: "+d.String(), lab+" b="+hex.EncodeToString(o))
					}
					e.AbExtract(lab+" raw Extract flipped", o)
				} else {
					var privs [][]byte
					for i := range ks.Seeds {
						privs = append(privs, ks.Priv(i))
					}
					d := e.AsDecrypt(lab+" raw DecryptAcrastruct flipped", o, privs, nil)
					rep.OracleChecks++
					if d.Kind == "panic" || (d.Kind == "ok" && !bytes.Equal(d.Vals[0], x)) {
						rep.Violate("raw-as", "DecryptAcrastruct on a modified struct: "+d.String(), lab+" v="+hex.EncodeToString(o))
					}
				}
				e.Process(lab+" raw Process flipped", ks, o)
			}
		}
	}
}
