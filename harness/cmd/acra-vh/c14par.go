package main

// Domain c14par (property C14, work package x14log): the hand-written text decoders that were "fuzzing only":
// audit-log line parsers (plaintext / CEF / JSON) and the log file scanner, key file name and key ring path
// parsers of both key stores, SNI / query trimming / base64 field framing / TLS client id conversion.
// Every operation runs the REAL function under recover() + timeout on a field-structured malformed stream, is
// recorded for the replay on the checked model (Model/RunParsersExt.v) and is judged by the property's own
// oracle: no panic, no hang, output bounded linearly by the input.

import (
	"bufio"
	"bytes"
	"context"
	"crypto/sha512"
	"encoding/base64"
	"encoding/binary"
	"encoding/hex"
	"fmt"
	"os"
	"path/filepath"
	"strings"
	"time"

	"acra-vh/vh"

	censorcommon "github.com/cossacklabs/acra/acra-censor/common"
	"github.com/cossacklabs/acra/acrablock"
	"github.com/cossacklabs/acra/cmd/acra-translator/http_api"
	acracrypto "github.com/cossacklabs/acra/crypto"
	"github.com/cossacklabs/acra/decryptor/base"
	acrahmac "github.com/cossacklabs/acra/hmac"
	"github.com/cossacklabs/acra/keystore"
	ksfs "github.com/cossacklabs/acra/keystore/filesystem"
	ks2 "github.com/cossacklabs/acra/keystore/v2/keystore"
	"github.com/cossacklabs/acra/logging"
	"github.com/cossacklabs/acra/network"
	"github.com/cossacklabs/themis/gothemis/keys"
)

func init() { register("c14par", "Model.RunParsersExt", runC14Par) }

func c14parMaxLine() int { return bufio.MaxScanTokenSize }

// c14parB emits a byte string as a Coq term; long strings in 40-byte chunks (literals parse in quadratic time).
func c14parB(b []byte) string {
	if len(b) <= 48 {
		return vh.H(b)
	}
	// groups of 32 chunks joined with ++ (a flat list of more than ~100 literals overflows coqc's stack)
	var sb strings.Builder
	sb.WriteString("(")
	for g := 0; g < len(b); g += 32 * 40 {
		if g > 0 {
			sb.WriteString(" ++ ")
		}
		sb.WriteString("hbs [")
		ge := min(g+32*40, len(b))
		for i := g; i < ge; i += 40 {
			if i > g {
				sb.WriteString("; ")
			}
			sb.WriteString("0x1" + hex.EncodeToString(b[i:min(i+40, ge)]))
		}
		sb.WriteString("]")
	}
	sb.WriteString(")")
	return sb.String()
}

func c14parBool(b bool) string {
	if b {
		return "true"
	}
	return "false"
}

// c14parGuard runs f under recover() and a timeout; a hang is reported as outcome kind "hang".
func c14parGuard(f func() vh.Outcome) vh.Outcome {
	ch := make(chan vh.Outcome, 1)
	go func() { ch <- vh.Guard(f) }()
	select {
	case o := <-ch:
		return o
	case <-time.After(20 * time.Second):
		return vh.Outcome{Kind: "hang", Msg: "no result after 20s"}
	}
}

func c14parShort(b []byte) string {
	if len(b) > 96 {
		return fmt.Sprintf("%q…(%d bytes) hex-prefix=%s", b[:96], len(b), hex.EncodeToString(b[:96]))
	}
	return fmt.Sprintf("%q hex=%s", b, hex.EncodeToString(b))
}

// c14parJudge applies the C14 oracle to one observation: panic / hang are violations, bound is the linear output bound.
func c14parJudge(rep *vh.Report, target string, in []byte, o vh.Outcome, outLen, bound int) {
	rep.OracleChecks++
	rep.Count("target:" + target)
	switch o.Kind {
	case "panic":
		rep.Violate("panic:"+target, target+" panicked: "+o.Msg, "input="+c14parShort(in)+" full-hex="+hex.EncodeToString(in[:min(len(in), 4096)]))
	case "hang":
		rep.Violate("hang:"+target, target+" did not return: "+o.Msg, "input="+c14parShort(in))
	default:
		if outLen > bound {
			rep.Violate("oversize:"+target, fmt.Sprintf("%s produced %d bytes from %d input bytes (bound %d)", target, outLen, len(in), bound), "input="+c14parShort(in))
		}
	}
}

// ---------- generators ----------

var c14parBodies = []string{
	`time="2020-01-01T00:00:00Z" level=info msg="hello" product=acra-server`,
	`time="2020-01-01T00:00:00Z" level=info msg="End of current audit log chain" chain=end`,
	`CEF:0|cossacklabs|acra-server|0.1|100|msg|1|unixTime=1.0`,
	`CEF:0|cossack\|labs|acra\\server|0.1|100|a\=b \| c|1|unixTime=1.0 k\=ey=va\\lue\=x`,
	`CEF:0|c|a|0|100|End of current audit log chain|1|unixTime=1.0 chain=end`,
	`{"level":"info","msg":"m","product":"acra-server"}`,
	``,
	` `,
	`integrity=`,
}

var c14parTags = []string{"00aa", "", "0", "00a", "00AA", "zz", "0g", "00aa00aa00aa00aa00aa00aa00aa00aa00aa00aa00aa00aa00aa00aa00aa00aa", "00 aa", "\xff\xfe", "00aa\x00"}
var c14parTrail = []string{"", " chain=new", " chain=new ", "  chain=new", " chain=end", " chain=new chain=new", " \t", " ", "  ", " chain=new ", "\xc2", "\xe2\x80", " chain=ne", "chain=new", " CHAIN=NEW"}

func c14parLine(r *vh.Rng, rep *vh.Report) []byte {
	var b []byte
	kind := r.Intn(12)
	body := []byte(c14parBodies[r.Intn(len(c14parBodies))])
	switch r.Intn(6) {
	case 0:
		body = r.Bytes(r.Intn(40)) // arbitrary bytes incl. invalid UTF-8
		rep.Count("body:random")
	case 1:
		body = append(body, "\xff\xc0 \xe2\x28\xa1 "...)
		rep.Count("body:invalid-utf8")
	default:
		rep.Count("body:seed")
	}
	field := func() []byte {
		f := " integrity=" + c14parTags[r.Intn(len(c14parTags))] + c14parTrail[r.Intn(len(c14parTrail))]
		return []byte(f)
	}
	switch kind {
	case 0:
		rep.Count("line:no-field")
		b = body
	case 1:
		rep.Count("line:empty")
		b = nil
	case 2:
		rep.Count("line:field-at-start")
		b = append(field(), body...)
	case 3:
		rep.Count("line:field-only")
		b = field()
	case 4, 5:
		rep.Count("line:several-fields")
		b = body
		for i := 0; i < 2+r.Intn(3); i++ {
			b = append(b, field()...)
			if r.Bool() {
				b = append(b, " k=v"...)
			}
		}
	case 6:
		rep.Count("line:token-prefixes")
		b = append(body, " integrity"...)
		b = append(b, []string{"", " =00aa", "= 00aa", " integrity", " integrit=00"}[r.Intn(5)]...)
	case 7:
		rep.Count("line:very-long")
		n := 1200 + r.Intn(1500)
		pad := bytes.Repeat([]byte{byte('a' + r.Intn(26))}, n)
		if r.Bool() {
			b = append(append(body, pad...), field()...)
		} else {
			b = append(append(body, field()...), pad...)
		}
	case 8:
		rep.Count("line:token-overlap")
		b = append(body, " integrity= integrity= integrity=00aa"...)
	default:
		rep.Count("line:one-field")
		b = append(body, field()...)
	}
	return b
}

var c14parFixedV1Names = []string{"poison_key", "poison_key.pub", "poison_key_sym", "auth_key", "", "_", "__", ".pub", "_sym", "_storage_sym", "storage_sym", "_hmac", "hmac",
	"a_hmac", "a_b_storage", "a_storage.pub", "a_zone", "a_zone.pub", "a_b_zone_sym", "secure_log_key", "a_server", "a_b_translator.pub", "a.pub", "a", "_storage", "storage_", "a__sym"}
var c14parCtxPoison = []string{".poison_key/poison_key", ".poison_key/poison_key_sym", ".poison_key/poison_key.pub", "poison_key", "x/.poison_key/poison_key",
	".poison_key/poison_key.old/2020-01-02T03:04:05.123456789", ".poison_key/poison_key_sym.old/2020-01-02T03:04:05"}
var c14parCtxDegenerate = []string{"", "/", "//", ".", "..", "_hmac", ".old", "_hmac.old", "_storage_sym", "a/", "a//", "/a", ".old/", "_sym", "m.old.old",
	"dir/client_storage.old/2020-01-02T03:04:05.1", "dir/_hmac.old/2020-01-02T03:04:05", "2020-01-02T03:04:05", "/2020-01-02T03:04:05", "_hmac/2020-01-02T03:04:05"}
var c14parSniHosts = []string{"", ":", "::", "host", "host:5432", "[::1]:5432", "::1", "host:", ":5432", "a:b:c", "\xff:\xfe"}

var c14parNameParts = []string{"hmac", "storage", "storage.pub", "zone", "zone.pub", "sym", "log", "key", "server", "server.pub",
	"translator", "translator.pub", "client", "a", "", "bb", "poison", "auth", ".pub", "x.pub", "storage.old", "\xff", "id-1"}

func c14parV1Name(r *vh.Rng, rep *vh.Report) string {
	switch r.Intn(10) {
	case 0:
		rep.Count("name:fixed")
		return c14parFixedV1Names[r.Intn(len(c14parFixedV1Names))]
	case 1:
		rep.Count("name:random")
		return string(r.Bytes(r.Intn(24)))
	case 2:
		rep.Count("name:single")
		return c14parNameParts[r.Intn(len(c14parNameParts))]
	default:
		rep.Count("name:components")
		n := 1 + r.Intn(5)
		parts := make([]string, n)
		for i := range parts {
			parts[i] = c14parNameParts[r.Intn(len(c14parNameParts))]
		}
		return strings.Join(parts, "_")
	}
}

var c14parDirs = []string{"", "client/", "client/a/", "/client/a/", "client//a//", "x/client/../a/", "clients/", "client/a/b/", "./", "../", "/", "//", "a/", "client", "notclient/x/", "\xffclient/\xfe/"}
var c14parRingFiles = []string{"hmac-sym.keyring", "storage.keyring", "storage-sym.keyring", "audit-log.keyring", "poison-record.keyring", "poison-record-sym.keyring",
	".keyring", "x.keyring", "storage.keyring.keyring", "storage", "keyring", "storage.keyring/", "client.keyring", ".keyring.keyring"}

func c14parV2Name(r *vh.Rng, rep *vh.Report) string {
	if r.Intn(8) == 0 {
		rep.Count("v2name:random")
		return string(r.Bytes(r.Intn(16))) + ".keyring"
	}
	rep.Count("v2name:structured")
	s := ""
	for i := 0; i < r.Intn(3); i++ {
		s += c14parDirs[r.Intn(len(c14parDirs))]
	}
	return s + c14parRingFiles[r.Intn(len(c14parRingFiles))]
}

var c14parCtxSuffixes = []string{"_hmac", "_server", "_translator", "_storage", "_storage_sym", "_sym", ".pub", ".old", "_zone", ""}

func c14parCtxName(r *vh.Rng, rep *vh.Report) string {
	switch r.Intn(10) {
	case 0:
		rep.Count("ctxname:poison")
		return []string{".poison_key/poison_key", ".poison_key/poison_key_sym", ".poison_key/poison_key.pub", "poison_key", "x/.poison_key/poison_key",
			".poison_key/poison_key.old/2020-01-02T03:04:05.123456789", ".poison_key/poison_key_sym.old/2020-01-02T03:04:05"}[r.Intn(7)]
	case 1:
		rep.Count("ctxname:degenerate")
		return []string{"", "/", "//", ".", "..", "_hmac", ".old", "_hmac.old", "_storage_sym", "a/", "a//", "/a", ".old/", "_sym", "m.old.old"}[r.Intn(15)]
	case 2:
		rep.Count("ctxname:random")
		return string(r.Bytes(r.Intn(20)))
	case 3, 4:
		rep.Count("ctxname:historical")
		ts := []string{"2020-01-02T03:04:05.123456789", "2020-01-02T03:04:05", "2020-02-30T03:04:05", "2020-01-02T03:04:05.", "2020-01-02T03:04:05,5", "2020-1-2T3:4:5", "0000-01-01T00:00:00.000000000000", "2020-01-02T24:04:05"}[r.Intn(8)]
		return "dir/" + "client" + c14parCtxSuffixes[r.Intn(len(c14parCtxSuffixes))] + ".old/" + ts
	default:
		rep.Count("ctxname:suffixed")
		id := []string{"client", "a", "", "a_b", "x/y", "\xff\xfe"}[r.Intn(6)]
		s := id + c14parCtxSuffixes[r.Intn(len(c14parCtxSuffixes))]
		if r.Intn(3) == 0 {
			s += c14parCtxSuffixes[r.Intn(len(c14parCtxSuffixes))]
		}
		if r.Intn(3) == 0 {
			s = "keys/" + s
		}
		return s
	}
}

func c14parRingPath(r *vh.Rng, rep *vh.Report) string {
	switch r.Intn(6) {
	case 0:
		rep.Count("ring:global")
		return []string{"poison-record", "audit-log", "poison-record-sym", "poison-record/", "/audit-log", ""}[r.Intn(6)]
	case 1:
		rep.Count("ring:random")
		return string(r.Bytes(r.Intn(16)))
	default:
		rep.Count("ring:components")
		n := 1 + r.Intn(4)
		parts := make([]string, n)
		for i := range parts {
			parts[i] = []string{"client", "storage", "hmac-sym", "storage-sym", "a", "", "id_1", "clients", "\xff"}[r.Intn(9)]
		}
		return strings.Join(parts, "/")
	}
}

func c14parLe8(n int) []byte {
	b := make([]byte, 8)
	binary.LittleEndian.PutUint64(b, uint64(n))
	return b
}

func c14parLineSig(l []byte) []byte {
	out := c14parLe8(len(l))
	out = append(out, l[:min(8, len(l))]...)
	return append(out, l[len(l)-min(8, len(l)):]...)
}

// ---------- searchable-hash extractor: boundary table (runs once per domain run, in every tier) ----------

// c14parShape returns base[:n] either as an exact-capacity copy (a value copied out of a packet) or as a
// sub-slice of a bigger buffer (a value sliced out of a row): the two shapes fail differently on a wrong length check.
func c14parShape(base []byte, n int, exact bool) []byte {
	if exact {
		d := make([]byte, n)
		copy(d, base[:n])
		return d
	}
	big := make([]byte, len(base)+64)
	copy(big, base)
	return big[:n]
}

func c14parHashSweep(rep *vh.Report, r *vh.Rng) {
	// first bytes: every registered tag (probed from the real ExtractHash) and its neighbours, plus 0x7e/0x7f/0x80
	tagSet := map[int]bool{0x7e: true, 0x7f: true, 0x80: true}
	for t := 0; t < 256; t++ {
		buf := make([]byte, 300)
		buf[0] = byte(t)
		if acrahmac.ExtractHash(buf) != nil {
			tagSet[t], tagSet[(t+255)%256], tagSet[(t+1)%256] = true, true, true
		}
	}
	var tags []int
	for t := 0; t < 256; t++ {
		if tagSet[t] {
			tags = append(tags, t)
		}
	}
	tape := vh.StartTape(r)
	_ = tape
	symKey := r.Bytes(32)
	block, err := acrablock.CreateAcraBlock([]byte("searchable"), symKey, nil)
	vh.StopTape()
	if err != nil {
		panic(err)
	}
	hmacKey := r.Bytes(32)
	matcher := acracrypto.NewEnvelopeMatcher()
	const maxLen = 70
	for _, tag := range tags {
		for fill := 0; fill < 2; fill++ {
			base0 := r.Bytes(maxLen + 60)
			base0[0] = byte(tag)
			if fill == 1 { // hash-sized prefix followed by a real envelope
				copy(base0[33:], block)
				rep.Count("hash:followed-by-envelope")
			} else {
				rep.Count("hash:random-tail")
			}
			base0 = base0[:maxLen]
			for _, exact := range []bool{true, false} {
				shape := "spare-capacity"
				if exact {
					shape = "exact-capacity"
				}
				rep.Count("hash:" + shape)
				var mask0, mask1, hash0, hash1, rests1 []byte
				bad0, bad1 := false, false
				for n := 0; n <= maxLen; n++ {
					what := fmt.Sprintf("first byte 0x%02x, length %d, %s, data(hex)=%s", tag, n, shape, hex.EncodeToString(base0[:n]))
					judge := func(target string, o vh.Outcome, ok bool, why string) {
						rep.OracleChecks++
						rep.Count("target:" + target)
						if o.Kind == "panic" || o.Kind == "hang" {
							rep.Violate(o.Kind+":"+target, target+" "+o.Kind+": "+o.Msg, what)
						} else if !ok {
							rep.Violate("overread:"+target, target+": "+why, what)
						}
					}
					// ExtractHash
					data := c14parShape(base0, n, exact)
					var got []byte
					o := c14parGuard(func() vh.Outcome {
						h := acrahmac.ExtractHash(data)
						if h == nil {
							return vh.Ok(nil)
						}
						got = h.Marshal()
						return vh.Ok(got)
					})
					judge("hmac.ExtractHash", o, len(got) <= n && bytes.Equal(got, base0[:len(got)]), "hash is not a prefix of the value (read past its end)")
					if o.Kind != "ok" {
						bad0 = true
					} else if got == nil {
						mask0 = append(mask0, 0)
					} else {
						mask0, hash0 = append(mask0, 1), got
					}
					// ExtractHashAndData
					data = c14parShape(base0, n, exact)
					var hs, rest []byte
					o = c14parGuard(func() vh.Outcome {
						h, d := acrahmac.ExtractHashAndData(data)
						if h == nil {
							return vh.Ok(nil, nil)
						}
						hs, rest = h.Marshal(), d
						return vh.Ok(hs, rest)
					})
					judge("hmac.ExtractHashAndData", o, bytes.Equal(append(append([]byte{}, hs...), rest...), base0[:len(hs)+len(rest)]) && (hs == nil || len(hs)+len(rest) == n),
						"hash ++ rest is not the value")
					if o.Kind != "ok" {
						bad1 = true
					} else if hs == nil {
						mask1, rests1 = append(mask1, 0), append(rests1, 0)
					} else {
						mask1, hash1, rests1 = append(mask1, 1), hs, append(rests1, byte(len(rest)))
					}
					// Processor.OnColumn (first subscription of the HMAC processor on every column from the database)
					data = c14parShape(base0, n, exact)
					matched := false
					if n >= 33 && acrahmac.ExtractHash(c14parShape(base0, maxLen, true)) != nil {
						matched = matcher.Match(c14parShape(base0[33:], n-33, true))
					}
					var out []byte
					o = c14parGuard(func() vh.Outcome {
						p := acrahmac.NewHMACProcessor(acrahmac.SimpleHmacKeyStore(hmacKey))
						_, res, err := p.OnColumn(context.Background(), data)
						if err != nil {
							return vh.ErrO(err)
						}
						out = res
						return vh.Ok(res)
					})
					judge("hmac.Processor.OnColumn", o, len(out) <= n && bytes.Equal(out, base0[n-len(out):n]), "output is not a suffix of the column")
					replayOne := exact && (n <= 1 || (n >= 31 && n <= 35) || n == maxLen)
					if replayOne && o.Kind == "ok" {
						// the model also predicts hashData/rawData; they are private: the observable is the column passed on
						var hd, raw []byte
						if len(out) != n {
							hd, raw = base0[:n-len(out)], base0[:n]
						}
						rep.Add("Processor.OnColumn "+what, fmt.Sprintf("HxOnColumn %s %s", c14parBool(matched), c14parB(base0[:n])), vh.Ok(c14parLe8(len(out)), hd, c14parLe8(len(raw))))
					} else if replayOne {
						rep.Add("Processor.OnColumn "+what, fmt.Sprintf("HxOnColumn %s %s", c14parBool(matched), c14parB(base0[:n])), o)
					}
					// NewHashProcessor around a recording inner processor
					data = c14parShape(base0, n, exact)
					var received []byte
					o = c14parGuard(func() vh.Outcome {
						inner := base.ProcessorFunc(func(d []byte, _ *base.DataProcessorContext) ([]byte, error) {
							received = append([]byte{}, d...)
							return d, nil
						})
						acrahmac.NewHashProcessor(inner, acrahmac.SimpleHmacKeyStore(hmacKey)).Process(data, base.NewDataProcessorContext(nil))
						var h []byte
						if len(received) != n {
							h = base0[:n-len(received)]
						}
						return vh.Ok(c14parLe8(len(received)), h)
					})
					judge("hmac.NewHashProcessor", o, len(received) <= n && bytes.Equal(received, base0[n-len(received):n]), "inner processor did not get a suffix of the value")
					if replayOne {
						rep.Add("NewHashProcessor "+what, "HxStrip "+c14parB(base0[:n]), o)
					}
					// DecryptRotatedSearchableAcraStruct / AcraBlock: implementation oracle (decryptors: Model/EnvelopeChecked.v)
					data = c14parShape(base0, n, exact)
					o = c14parGuard(func() vh.Outcome {
						acrahmac.DecryptRotatedSearchableAcraBlock(data, hmacKey, [][]byte{symKey}, nil)
						return vh.Ok()
					})
					judge("hmac.DecryptRotatedSearchableAcraBlock", o, true, "")
					data = c14parShape(base0, n, exact)
					o = c14parGuard(func() vh.Outcome {
						acrahmac.DecryptRotatedSearchableAcraStruct(data, hmacKey, []*keys.PrivateKey{{Value: symKey}}, nil)
						return vh.Ok()
					})
					judge("hmac.DecryptRotatedSearchableAcraStruct", o, true, "")
					rep.Evaluations += 2
				}
				lab := fmt.Sprintf("sweep first byte 0x%02x lengths 0..%d %s", tag, maxLen, shape)
				if bad0 {
					rep.Add("ExtractHash "+lab, "HxSweep 0 "+c14parB(base0), vh.Outcome{Kind: "panic"})
				} else {
					rep.Add("ExtractHash "+lab, "HxSweep 0 "+c14parB(base0), vh.Ok(mask0, hash0, make([]byte, len(mask0))))
				}
				if bad1 {
					rep.Add("ExtractHashAndData "+lab, "HxSweep 1 "+c14parB(base0), vh.Outcome{Kind: "panic"})
				} else {
					rep.Add("ExtractHashAndData "+lab, "HxSweep 1 "+c14parB(base0), vh.Ok(mask1, hash1, rests1))
				}
			}
		}
	}
	// a complete envelope behind the hash (the shape AcraServer sees for a searchable column), both slice shapes
	for _, tag := range tags {
		full := append(append([]byte{byte(tag)}, r.Bytes(32)...), block...)
		for _, exact := range []bool{true, false} {
			for _, cut := range []int{0, 1} { // whole value / last byte of the envelope missing
				n := len(full) - cut
				what := fmt.Sprintf("first byte 0x%02x, 32 bytes, AcraBlock (%d bytes, %d cut), exact-capacity=%v, data(hex)=%s", tag, len(block), cut, exact, hex.EncodeToString(full[:n]))
				data := c14parShape(full, n, exact)
				matched := matcher.Match(c14parShape(full[33:], n-33, true))
				rep.Count(fmt.Sprintf("hash:full-envelope matched=%v", matched))
				var out []byte
				o := c14parGuard(func() vh.Outcome {
					p := acrahmac.NewHMACProcessor(acrahmac.SimpleHmacKeyStore(hmacKey))
					_, res, err := p.OnColumn(context.Background(), data)
					if err != nil {
						return vh.ErrO(err)
					}
					out = res
					var hd, raw []byte
					if len(res) != n {
						hd, raw = full[:n-len(res)], full[:n]
					}
					return vh.Ok(c14parLe8(len(res)), hd, c14parLe8(len(raw)))
				})
				rep.OracleChecks++
				if o.Kind != "ok" {
					rep.Violate(o.Kind+":hmac.Processor.OnColumn", "hmac.Processor.OnColumn "+o.Kind+": "+o.Msg, what)
				} else if len(out) > n || !bytes.Equal(out, full[n-len(out):n]) {
					rep.Violate("overread:hmac.Processor.OnColumn", "output is not a suffix of the column", what)
				}
				rep.Add("Processor.OnColumn "+what[:60], fmt.Sprintf("HxOnColumn %s %s", c14parBool(matched), c14parB(full[:n])), o)
				data = c14parShape(full, n, exact)
				o = c14parGuard(func() vh.Outcome {
					var received []byte
					inner := base.ProcessorFunc(func(d []byte, _ *base.DataProcessorContext) ([]byte, error) {
						received = append([]byte{}, d...)
						return d, nil
					})
					acrahmac.NewHashProcessor(inner, acrahmac.SimpleHmacKeyStore(hmacKey)).Process(data, base.NewDataProcessorContext(nil))
					var h []byte
					if len(received) != n {
						h = full[:n-len(received)]
					}
					return vh.Ok(c14parLe8(len(received)), h)
				})
				rep.OracleChecks++
				if o.Kind != "ok" {
					rep.Violate(o.Kind+":hmac.NewHashProcessor", "hmac.NewHashProcessor "+o.Kind+": "+o.Msg, what)
				}
				rep.Add("NewHashProcessor "+what[:60], "HxStrip "+c14parB(full[:n]), o)
				data = c14parShape(full, n, exact)
				o = c14parGuard(func() vh.Outcome {
					acrahmac.DecryptRotatedSearchableAcraBlock(data, hmacKey, [][]byte{symKey}, nil)
					return vh.Ok()
				})
				rep.OracleChecks++
				if o.Kind != "ok" {
					rep.Violate(o.Kind+":hmac.DecryptRotatedSearchableAcraBlock", "hmac.DecryptRotatedSearchableAcraBlock "+o.Kind+": "+o.Msg, what)
				}
			}
		}
	}
}

// ---------- the domain ----------

func runC14Par(rep *vh.Report, r *vh.Rng, n int, thorough bool) {
	parsers := map[bool]logging.LogParser{}
	for cef, f := range map[bool]string{false: logging.PlaintextFormatString, true: logging.CefFormatString} {
		p, err := logging.NewLogParser(f)
		if err != nil {
			panic(err)
		}
		parsers[cef] = p
	}
	jsonParser, _ := logging.NewLogParser(logging.JSONFormatString)
	parseText := func(cef bool, line []byte) {
		var outLen int
		o := c14parGuard(func() vh.Outcome {
			if len(line) == 0 { // VerifyIntegrityCheck skips empty strings before the parser
				return vh.Ok([]byte{0})
			}
			e, err := parsers[cef].ParseEntry(string(line))
			if err == logging.ErrCefIntegrityExtract || err == logging.ErrPlaintextIntegrityExtract {
				return vh.Ok([]byte{0})
			}
			if err != nil {
				return vh.ErrO(err)
			}
			fl := func(b bool) []byte {
				if b {
					return []byte{1}
				}
				return []byte{0}
			}
			outLen = len(e.RawData) + 2*len(e.Integrity)
			if !bytes.HasPrefix(line, e.RawData) {
				panic("signed part is not a prefix of the line")
			}
			// the signed part is a prefix of the line (checked above): its length identifies it
			return vh.Ok([]byte{1}, c14parLe8(len(e.RawData)), e.Integrity, fl(e.IsNewChain), fl(e.IsEndChain))
		})
		target := "logging.ParseEntry/plaintext"
		if cef {
			target = "logging.ParseEntry/cef"
		}
		c14parJudge(rep, target, line, o, outLen, len(line))
		rep.Add(target+" "+c14parShort(line), fmt.Sprintf("ParseText %s %s", c14parBool(cef), c14parB(line)), o)
	}
	tmp, err := os.MkdirTemp("", "c14par")
	if err != nil {
		panic(err)
	}
	defer os.RemoveAll(tmp)
	scanRep := func(pre, fill []byte, count int, post []byte) {
		file := append(append(append([]byte{}, pre...), bytes.Repeat(fill, count)...), post...)
		path := filepath.Join(tmp, "audit.log")
		if err := os.WriteFile(path, file, 0o600); err != nil {
			panic(err)
		}
		delivered := 0
		o := c14parGuard(func() vh.Outcome {
			src := logging.ReadLogEntries([]string{path}, false, false)
			var sigs [][]byte
			for e := range src.Entries {
				sigs = append(sigs, c14parLineSig([]byte(e.RawLogEntry)))
			}
			delivered = len(sigs)
			if src.Error != nil {
				return vh.ErrO(src.Error)
			}
			return vh.Ok(sigs...)
		})
		c14parJudge(rep, "logging.ReadLogEntries", file[:min(len(file), 256)], o, 0, 0)
		// oracle: a log file is either read completely or the reader reports an error
		want := bytes.Count(file, []byte{'\n'})
		if len(file) > 0 && file[len(file)-1] != '\n' {
			want++
		}
		rep.OracleChecks++
		if o.Kind == "ok" && delivered != want {
			rep.Violate("log-lines-dropped", fmt.Sprintf("ReadLogEntries delivered %d of %d lines and reported no error: the rest of the audit log stays unverified", delivered, want),
				fmt.Sprintf("file = %q ++ %q x %d ++ %q", pre, fill, count, post))
		}
		rep.Add(fmt.Sprintf("ReadLogEntries %d bytes", len(file)), fmt.Sprintf("ScanRep %s %s %d %s", c14parB(pre), c14parB(fill), count, c14parB(post)), o)
	}
	hexConv, err := network.NewDefaultHexIdentifierConverter()
	if err != nil {
		panic(err)
	}
	c14parHashSweep(rep, r)

	describeKeyFile := func(name string) {
		var outLen int
		o := c14parGuard(func() vh.Outcome {
			d, err := ksfs.DescribeKeyFile(name)
			if err != nil {
				return vh.ErrO(err)
			}
			outLen = max(len(d.KeyID), len(d.ClientID))
			return vh.Ok([]byte(d.KeyID), []byte(d.ClientID), []byte(d.Purpose))
		})
		c14parJudge(rep, "filesystem.DescribeKeyFile", []byte(name), o, outLen, len(name))
		rep.Add("DescribeKeyFile "+c14parShort([]byte(name)), "DescribeKeyFile "+c14parB([]byte(name)), o)
	}
	ctxFromFilename := func(name string) {
		hist := ksfs.VerifX14IsHistoricalFilename(name)
		if hist {
			rep.Count("ctxname:is-historical")
		}
		var outLen int
		o := c14parGuard(func() vh.Outcome {
			kc := ksfs.VerifContextFromFilename(name)
			outLen = len(kc.ClientID) + len(kc.Context)
			return vh.Ok([]byte(kc.Purpose), kc.ClientID, kc.Context)
		})
		c14parJudge(rep, "filesystem.getContextFromFilename", []byte(name), o, outLen, len(name)+1)
		rep.Add("getContextFromFilename "+c14parShort([]byte(name)), fmt.Sprintf("CtxFromFilename %s %s", c14parBool(hist), c14parB([]byte(name))), o)
	}
	describeKeyRing := func(path string) {
		var outLen int
		o := c14parGuard(func() vh.Outcome {
			d, err := (*ks2.ServerKeyStore)(nil).DescribeKeyRing(path)
			if err != nil {
				return vh.ErrO(err)
			}
			outLen = max(len(d.KeyID), len(d.ClientID))
			return vh.Ok([]byte(d.KeyID), []byte(d.ClientID), []byte(d.Purpose))
		})
		c14parJudge(rep, "v2.DescribeKeyRing", []byte(path), o, outLen, len(path))
		rep.Add("DescribeKeyRing "+c14parShort([]byte(path)), "DescribeKeyRing "+c14parB([]byte(path)), o)
	}
	sniOrHostname := func(sni, host string) {
		o := c14parGuard(func() vh.Outcome { return vh.Ok([]byte(network.SNIOrHostname(sni, host))) })
		c14parJudge(rep, "network.SNIOrHostname", []byte(host), o, 0, 0)
		rep.Add("SNIOrHostname", fmt.Sprintf("SniOrHostname %s %s", c14parB([]byte(sni)), c14parB([]byte(host))), o)
	}
	// ---- boundary tables: every entry in every run (the random stream below only adds variety) ----
	for _, nm := range c14parFixedV1Names {
		describeKeyFile(nm)
	}
	for _, d := range c14parDirs {
		describeKeyFile(d + "storage.keyring")
	}
	for _, f := range c14parRingFiles {
		describeKeyFile("client/a/" + f)
	}
	for _, nm := range append(append([]string{}, c14parCtxPoison...), c14parCtxDegenerate...) {
		ctxFromFilename(nm)
	}
	for _, suf := range c14parCtxSuffixes {
		ctxFromFilename(suf)
		ctxFromFilename("id" + suf)
		ctxFromFilename("id" + suf + ".old")
	}
	ringParts := []string{"client", "storage", "storage-sym", "hmac-sym", "a", ""}
	for _, a := range ringParts {
		describeKeyRing(a)
		for _, b := range ringParts {
			describeKeyRing(a + "/" + b)
			if a == "client" || a == "a" {
				for _, c := range ringParts {
					describeKeyRing(a + "/" + b + "/" + c)
				}
			}
		}
	}
	for _, p4 := range []string{"client/a/storage/x", "client/a/hmac-sym/", "x/client/a/storage", "/client/a/storage-sym", "client/a/b/storage-sym"} {
		describeKeyRing(p4)
	}
	for _, g := range []string{"poison-record", "audit-log", "poison-record-sym", "poison-record/", "/audit-log"} {
		describeKeyRing(g)
	}
	for _, h := range c14parSniHosts {
		sniOrHostname("", h)
	}
	sniOrHostname("db.example", "host:1")
	for k, sz := range []int{10, 4000, 65000, c14parMaxLine() - 2, c14parMaxLine(), c14parMaxLine() + 1, 100000} {
		pre := []byte("first line integrity=00\nsecond\r\n")
		post := [][]byte{[]byte("\nafter the long line integrity=00aa\nlast"), []byte(""), []byte("\n"), []byte("\r\nx\n\n")}[k%4]
		rep.Count(fmt.Sprintf("scan:line-%d", sz))
		scanRep(pre, []byte{byte('a' + k)}, sz, post)
	}

	for i := 0; i < n; i++ {
		// --- 1. audit-log lines ---
		line := c14parLine(r, rep)
		parseText(false, line)
		parseText(true, line)
		{ // JSON: implementation oracle only (encoding/json tokenizer is outside the model, see C20_json)
			jl := line
			if r.Intn(3) == 0 {
				jl = []byte(`{"integrity":"` + c14parTags[r.Intn(len(c14parTags))] + `","chain":` + []string{`"new"`, `"end"`, `1`, `null`, `["new"]`}[r.Intn(5)] +
					`,"msg":"<A&>","n":` + []string{"1e400", "1", "-0", "[[[[[[[[[[1]]]]]]]]]]", `{"a":{"a":{"a":1}}}`}[r.Intn(5)] + `}`)
				jl = jl[:len(jl)-r.Intn(3)*r.Intn(2)]
			}
			var outLen int
			o := c14parGuard(func() vh.Outcome {
				e, err := jsonParser.ParseEntry(string(jl))
				if err != nil {
					return vh.ErrO(err)
				}
				outLen = len(e.RawData) + 2*len(e.Integrity)
				return vh.Ok()
			})
			c14parJudge(rep, "logging.ParseEntry/json", jl, o, outLen, 16*len(jl)+64)
			rep.Evaluations++
		}
		// direct probes of the two library functions written out in the model
		if i%2 == 0 {
			alpha := []byte(" integrity=ab")
			s := make([]byte, r.Intn(30))
			for k := range s {
				s[k] = alpha[r.Intn(len(alpha))]
			}
			tok := []byte([]string{" integrity=", "=", "ab", "", " i", "integrity= integrity="}[r.Intn(6)])
			o := c14parGuard(func() vh.Outcome { return vh.Ok(c14parLe8(strings.LastIndex(string(s), string(tok)))) })
			rep.Add("strings.LastIndex", fmt.Sprintf("LastIndex %s %s", c14parB(tok), c14parB(s)), o)
			hx := make([]byte, r.Intn(12))
			for k := range hx {
				hx[k] = "0123456789abcdefABCDEFg \xff"[r.Intn(25)]
			}
			o = c14parGuard(func() vh.Outcome {
				b, err := hex.DecodeString(string(hx))
				if err != nil {
					return vh.ErrO(err)
				}
				return vh.Ok(b)
			})
			rep.Add("hex.DecodeString", fmt.Sprintf("HexDecode %s", c14parB(hx)), o)
		}
		// --- 2. key file names (v1 and v2 spellings) ---
		describeKeyFile(c14parV1Name(r, rep))
		describeKeyFile(c14parV2Name(r, rep))
		ctxFromFilename(c14parCtxName(r, rep))
		// --- 3. v2 key ring paths ---
		describeKeyRing(c14parRingPath(r, rep))
		// --- 4. smaller slicers ---
		if i%2 == 1 {
			sniOrHostname([]string{"", "", "", "db.example", ":"}[r.Intn(5)], c14parSniHosts[r.Intn(len(c14parSniHosts))])

			q := r.Bytes(r.Intn(20))
			lim := r.Pick(0, 1, len(q)-1, len(q), len(q)+1, censorcommon.LogQueryLength)
			if lim < 0 {
				lim = 0
			}
			o := c14parGuard(func() vh.Outcome { return vh.Ok([]byte(censorcommon.TrimStringToN(string(q), lim))) })
			c14parJudge(rep, "common.TrimStringToN", q, o, 0, 0)
			rep.Add("TrimStringToN", fmt.Sprintf("TrimToN %s false %d", c14parB(q), lim), o)

			id := r.Bytes(r.Pick(0, 1, 2, 20, 64, 65, 200))
			digest := sha512.Sum512(id)
			var conv []byte
			o = c14parGuard(func() vh.Outcome {
				out, err := hexConv.Convert(id)
				if err != nil {
					return vh.ErrO(err)
				}
				conv = out
				var pieces [][]byte
				for k := 0; k < len(out); k += 32 {
					pieces = append(pieces, out[k:min(k+32, len(out))])
				}
				return vh.Ok(pieces...)
			})
			c14parJudge(rep, "network.HexIdentifierConverter.Convert", id, o, len(conv), 2*sha512.Size)
			rep.OracleChecks++
			if o.Kind == "ok" && !keystore.ValidateID(conv) {
				rep.Violate("tls-client-id-invalid", "client id derived from a certificate identifier does not pass keystore.ValidateID", "identifier(hex)="+hex.EncodeToString(id))
			}
			rep.Add("HexIdentifierConverter.Convert", fmt.Sprintf("TlsConvert %s %s", c14parB(id), c14parB(digest[:])), o)

			inner := []byte(base64.StdEncoding.EncodeToString(r.Bytes(r.Intn(10))))
			switch r.Intn(6) {
			case 0:
				inner = append(inner, "=="...)
			case 1:
				if len(inner) > 0 {
					inner = inner[:len(inner)-1]
				}
			case 2:
				inner = append(inner[:len(inner)/2], append([]byte("\n"), inner[len(inner)/2:]...)...)
			case 3:
				inner = append(inner, '*')
			}
			raw := append(append([]byte{'"'}, inner...), '"')
			switch r.Intn(8) {
			case 0:
				raw = raw[1:]
			case 1:
				raw = raw[:len(raw)-1]
			case 2:
				raw = raw[:r.Intn(3)]
			case 3:
				raw = []byte([]string{"", `"`, `""`, `1`, `12`, `null`, `"a`, `a"`}[r.Intn(8)])
			}
			// what base64.StdEncoding.Decode writes for the inner part (the decoder is abstract in the model)
			var decoded []byte
			if len(raw) > 2 {
				in := raw[1 : len(raw)-1]
				dst := make([]byte, base64.StdEncoding.DecodedLen(len(in)))
				k, _ := base64.StdEncoding.Decode(dst, in)
				decoded = dst[:k]
			}
			var outLen int
			o = c14parGuard(func() vh.Outcome {
				b, err := http_api.VerifX14BinaryUnmarshalJSON(raw)
				if err != nil {
					return vh.ErrO(err)
				}
				outLen = len(b)
				return vh.Ok(b)
			})
			c14parJudge(rep, "http_api.binaryType.UnmarshalJSON", raw, o, outLen, len(raw))
			rep.Add("binaryType.UnmarshalJSON "+c14parShort(raw), fmt.Sprintf("BinUnmarshal %s %s", c14parB(raw), c14parB(decoded)), o)
		}
	}
}
