package main

// c19rows: the ROW-level path of the PostgreSQL proxy for property C19.  The real proxy (both goroutines, vh.PgRig)
// answers Parse/Bind/Describe/Execute (and simple) sessions against the fake back end; the result rows have 1..4
// columns with typed protected columns at every position, the Bind packet carries every layout of result-format
// codes (none, ONE code text, ONE code binary, one code per column: all binary / mixed / all text, and the
// malformed layouts: too few, too many, unknown code), the reader owns the keys or not, every failure policy.
// Every DataRow the client receives (or the error / closed session it gets instead) is replayed on
// Model/TypedRows.v handle_data_row, and judged by an oracle that knows only PostgreSQL's rule for result-format
// codes and the reference encodings of c19.go.

import (
	"bytes"
	"encoding/binary"
	"encoding/hex"
	"fmt"
	"strconv"
	"strings"

	"acra-vh/vh"

	"github.com/cossacklabs/acra/crypto"
	"github.com/cossacklabs/acra/decryptor/postgresql"
	"github.com/cossacklabs/acra/encryptor/base/config"
)

func init() { register("c19rows", "Model.RunTypedRows", runC19Rows) }

const (
	c19rowsOwner = "owner"
	c19rowsOther = "other"
	c19rowsOidI8 = 20
)

// layouts of the result-format codes of a Bind packet
const (
	c19rowsNone    = iota // no codes: all text
	c19rowsOneText        // ONE code 0: applies to every column
	c19rowsOneBin         // ONE code 1: applies to every column
	c19rowsAllBin         // one code per column, all binary
	c19rowsMixed          // one code per column, mixed
	c19rowsAllText        // one code per column, all text
	c19rowsSimple         // simple protocol: no Bind packet
	c19rowsShort          // malformed: fewer codes than columns (at least two)
	c19rowsLong           // malformed: more codes than columns
	c19rowsUnknown        // malformed: a code that is neither 0 nor 1
	c19rowsLayouts
)

var c19rowsLayoutName = []string{"none", "one-text", "one-binary", "n-binary", "n-mixed", "n-text", "simple", "short", "long", "unknown-code"}

type c19rowsCol struct {
	name string
	kind int     // 0 = no setting, 1..4 = int32 / int64 / str / bytes
	pol  int     // index into policyWords (0 = not configured)
	def  *string // default_data_value
	oid  uint32  // type of the database column (protected columns are bytea)
	set  config.ColumnEncryptionSetting
}

type c19rowsCell struct {
	class  string // null | empty | envelope | garbage | plain-literal | plain
	orig   []byte // what the writer protected (class envelope)
	stored []byte // what the database holds
}

type c19rowsScenario struct {
	hexlike int // > 0: one cell of a column without setting is a text that starts like bytea hex output (known finding)
	cols    []*c19rowsCol
	layout  int
	codes   []int16
	owner   bool
	rows    [][]c19rowsCell
}

// ---------- PostgreSQL's rule for result-format codes, from the protocol documentation (message Bind) ----------

// c19rowsRule: "zero codes: all result columns use the default format (text); one: the specified format code is applied
// to all result columns; or the actual number of result columns".  valid=false: the server rejects such a Bind.
func c19rowsRule(simple bool, codes []int16, ncols, i int) (binaryFmt bool, valid bool) {
	if simple || len(codes) == 0 {
		return false, true
	}
	for _, c := range codes {
		if c != 0 && c != 1 {
			return false, false
		}
	}
	if len(codes) == 1 {
		return codes[0] == 1, true
	}
	if len(codes) != ncols {
		return false, false
	}
	return codes[i] == 1, true
}

// what the fake back end sends for a stored value (vh.typeOut)
func c19rowsWire(oid uint32, stored []byte, binaryFmt bool) []byte {
	if oid == vh.OidBytea && !binaryFmt {
		return []byte(`\x` + hex.EncodeToString(stored))
	}
	return stored
}

// ---------- generators ----------

var c19rowsDefaults = [][]string{nil,
	{"-42", "0", "2147483647", "-2147483648", "+7"},
	{"-42", "9223372036854775807", "-9223372036854775808", "4294967296"},
	{"n/a", "жλ", "0"},
	{"AAECAw==", "aGVsbG8=", "/w=="}}

var c19rowsInts = [][]string{nil,
	{"0", "1", "-1", "2147483647", "-2147483648", "-1234567", "42", "65536"},
	{"0", "-1", "9223372036854775807", "-9223372036854775808", "4294967296", "-2147483649", "1234567890123"}}

func c19rowsOriginal(r *vh.Rng, kind int) []byte {
	switch kind {
	case 1:
		if r.Bool() {
			return []byte(strconv.FormatInt(int64(int32(r.U64())), 10))
		}
		return []byte(c19rowsInts[1][r.Intn(len(c19rowsInts[1]))])
	case 2:
		if r.Bool() {
			return []byte(strconv.FormatInt(int64(r.U64()), 10))
		}
		return []byte(c19rowsInts[2][r.Intn(len(c19rowsInts[2]))])
	case 3:
		return []byte([]string{"hello", "жλ utf8", "x", "123", `a\b`, "tab\tnl\n"}[r.Intn(6)])
	}
	if r.Bool() {
		return []byte{0, 1, 2, 0xff, 0xfe}
	}
	return r.Bytes(1 + r.Intn(24))
}

// bytes that are no envelope, no integer literal, not 4 or 8 bytes long and hold no container tag
func c19rowsGarbage(r *vh.Rng) []byte {
	for {
		n := 1 + r.Intn(30)
		if n == 4 || n == 8 {
			n++
		}
		b := r.Bytes(n)
		b[0] |= 0x80 // not a digit or sign: no integer literal
		if !bytes.Contains(b, []byte("%%%")) && !bytes.Contains(b, []byte{'"', '"', '"'}) {
			return b
		}
	}
}

func (sc *c19rowsScenario) yaml() string {
	var sb strings.Builder
	sb.WriteString("schemas:\n  - table: t\n    columns:\n")
	for _, c := range sc.cols {
		sb.WriteString("      - " + c.name + "\n")
	}
	sb.WriteString("    encrypted:\n")
	for _, c := range sc.cols {
		if c.kind == 0 {
			continue
		}
		sb.WriteString("      - column: " + c.name + "\n        data_type: " + dataTypeOfKind[c.kind] + "\n")
		if c.pol != 0 {
			sb.WriteString("        response_on_fail: " + policyWords[c.pol] + "\n")
		}
		if c.def != nil {
			sb.WriteString("        default_data_value: '" + *c.def + "'\n")
		}
	}
	return sb.String()
}

func c19rowsCodes(r *vh.Rng, layout, n, focus int) []int16 {
	switch layout {
	case c19rowsNone, c19rowsSimple:
		return nil
	case c19rowsOneText:
		return []int16{0}
	case c19rowsOneBin:
		return []int16{1}
	case c19rowsAllBin, c19rowsAllText:
		out := make([]int16, n)
		for i := range out {
			out[i] = int16(map[bool]int{true: 1}[layout == c19rowsAllBin])
		}
		return out
	case c19rowsMixed:
		out := make([]int16, n)
		for i := range out {
			out[i] = int16(r.Intn(2))
		}
		if n >= 2 { // really mixed, the focus column on either side
			out[focus] = int16(r.Intn(2))
			out[(focus+1)%n] = 1 - out[focus]
		}
		return out
	case c19rowsShort:
		m := n - 1
		if m < 2 {
			m = 2
		}
		out := make([]int16, m)
		for i := range out {
			out[i] = int16(r.Intn(2))
		}
		return out
	case c19rowsLong:
		out := make([]int16, n+1+r.Intn(2))
		for i := range out {
			out[i] = int16(r.Intn(2))
		}
		return out
	}
	out := make([]int16, r.Pick(1, n, n))
	for i := range out {
		out[i] = int16(r.Intn(2))
	}
	out[r.Intn(len(out))] = int16(r.Pick(2, 3, 256, -1))
	return out
}

// c19rowsBuild: a table of n columns with a typed protected column (kind, pol) at position focus
func c19rowsBuild(r *vh.Rng, owner *vh.MemKeystore, n, focus, kind, pol, layout int, ownerReads bool, nrows, hexlike int, rep *vh.Report) *c19rowsScenario {
	sc := &c19rowsScenario{layout: layout, owner: ownerReads}
	hexAt := -1
	if hexlike > 0 && n >= 2 {
		sc.hexlike, hexAt = hexlike, (focus+1)%n
	}
	for i := 0; i < n; i++ {
		c := &c19rowsCol{name: fmt.Sprintf("c%d", i)}
		if i == focus {
			c.kind, c.pol = kind, pol
		} else if i != hexAt && r.Bool() {
			c.kind, c.pol = 1+r.Intn(4), r.Intn(4)
		}
		if c.kind != 0 {
			c.oid = vh.OidBytea
			if c.pol == 2 && r.Intn(8) != 0 {
				d := c19rowsDefaults[c.kind][r.Intn(len(c19rowsDefaults[c.kind]))]
				c.def = &d
			}
		} else {
			c.oid = uint32(r.Pick(vh.OidText, vh.OidText, vh.OidInt4, vh.OidBytea))
			if i == hexAt {
				c.oid = vh.OidText
			}
		}
		sc.cols = append(sc.cols, c)
	}
	sc.codes = c19rowsCodes(r, layout, n, focus)
	for row := 0; row < nrows; row++ {
		var cells []c19rowsCell
		for i, c := range sc.cols {
			var cell c19rowsCell
			binaryFmt, _ := c19rowsRule(layout == c19rowsSimple, sc.codes, n, i)
			if c.kind == 0 {
				switch {
				case i == hexAt && row == 0:
					cell.class = "plain-hexlike"
					cell.stored = []byte([]string{`\x`, `\xZZ`, `\xampp\htdocs`, `\x41`, `\x4`}[sc.hexlike-1])
				case r.Intn(8) == 0:
					cell.class = "null"
				case c.oid == vh.OidInt4:
					cell.class = "plain"
					v := int32(r.U64())
					if binaryFmt { // int4send
						cell.stored = u32be(uint32(v))
					} else {
						cell.stored = []byte(strconv.Itoa(int(v)))
					}
				case c.oid == vh.OidText:
					cell.class = "plain"
					cell.stored = []byte([]string{"alice", "жλ", "12", "a b c", "o'k", "x"}[r.Intn(6)])
				default:
					cell.class = "plain"
					cell.stored = r.Bytes(1 + r.Intn(12))
				}
				if binaryFmt && cell.class != "plain-hexlike" && len(cell.stored) > 0 && cell.stored[0] == '\\' {
					// a binary cell of a column without setting is seen by utils.DecodeEscaped too (the substitute
					// setting is a "binary data operation"): a value that starts like bytea hex text is another matter
					cell.stored[0] = 'b'
				}
				cells = append(cells, cell)
				continue
			}
			k := r.Intn(20)
			if i == focus && row == 0 {
				k = 2 + r.Intn(12) // the focus cell of the first row is a protected value
			}
			switch {
			case k == 0:
				cell.class = "null"
			case k == 1:
				cell.class = "empty"
				cell.stored = []byte{}
			case k < 16:
				cell.class = "envelope"
				cell.orig = c19rowsOriginal(r, c.kind)
				id := byte(crypto.AcraBlockEnvelopeID)
				if r.Intn(6) == 0 {
					id = crypto.AcraStructEnvelopeID
				}
				vh.StartTape(r)
				env, err := crypto.NewRegistryHandler(owner).EncryptWithHandler(handlerByID(id), []byte(c19rowsOwner), append([]byte{}, cell.orig...))
				vh.StopTape()
				if err != nil {
					rep.Count("encrypt-error")
					cell.class = "null"
					break
				}
				cell.stored = env
			case k < 19:
				cell.class = "garbage"
				cell.stored = c19rowsGarbage(r)
			default:
				cell.class = "plain-literal"
				cell.stored = c19rowsOriginal(r, c.kind)
				if len(cell.stored) == 4 || len(cell.stored) == 8 {
					cell.stored = append(cell.stored, 'z')
				}
			}
			cells = append(cells, cell)
		}
		sc.rows = append(sc.rows, cells)
	}
	return sc
}

// ---------- oracle ----------

// c19rowsWant: what the client must receive for one cell (the property text + PostgreSQL's format rule);
// wantErr = the statement must be answered with an error instead of this row
func c19rowsWant(c *c19rowsCol, cell c19rowsCell, binaryFmt, ownerReads bool) (want []byte, null, wantErr bool) {
	if cell.class == "null" {
		return nil, true, false
	}
	if c.kind == 0 {
		return c19rowsWire(c.oid, cell.stored, binaryFmt), false, false
	}
	if len(cell.stored) == 0 {
		return []byte{}, false, false
	}
	if cell.class == "envelope" && ownerReads {
		v, _ := refTyped(c.kind, binaryFmt, cell.orig)
		return v, false, false
	}
	if c.kind <= 2 {
		if v, ok := refTyped(c.kind, binaryFmt, cell.stored); ok { // an unprotected integer literal passes as the declared type
			return v, false, false
		}
	}
	switch c.pol {
	case 2:
		if c.def != nil {
			v, _ := refDefault(c.kind, binaryFmt, *c.def)
			return v, false, false
		}
	case 3:
		return nil, false, true
	}
	return refCiphertext(c.kind, binaryFmt, cell.stored), false, false
}

func c19rowsEncCell(v []byte, null bool) []byte {
	if null {
		return []byte{0}
	}
	return append([]byte{1}, v...)
}

func c19rowsCoqCodes(simple bool, codes []int16) string {
	if simple {
		return "None"
	}
	var s []string
	for _, c := range codes {
		s = append(s, strconv.Itoa(int(uint16(c))))
	}
	return "(Some [" + strings.Join(s, "; ") + "])"
}

func (sc *c19rowsScenario) describe() string {
	var sb strings.Builder
	for _, c := range sc.cols {
		if c.kind == 0 {
			fmt.Fprintf(&sb, " %s:plain(oid %d)", c.name, c.oid)
		} else {
			fmt.Fprintf(&sb, " %s:%s/%q/default=%s", c.name, dataTypeOfKind[c.kind], policyWords[c.pol], optQ(c.def))
		}
	}
	return sb.String()
}

func (sc *c19rowsScenario) run(rep *vh.Report, ks *vh.MemKeystore, id int) {
	n := len(sc.cols)
	simple := sc.layout == c19rowsSimple
	reader := c19rowsOther
	if sc.owner {
		reader = c19rowsOwner
	}
	var names []string
	for _, c := range sc.cols {
		names = append(names, c.name)
	}
	sql := "SELECT " + strings.Join(names, ", ") + " FROM t"
	head := fmt.Sprintf("sc%d %s result-format codes=%v (%s) reader=%s columns:%s", id, sql, sc.codes, c19rowsLayoutName[sc.layout], reader, sc.describe())
	rep.Count("layout:" + c19rowsLayoutName[sc.layout])
	rep.Count(fmt.Sprintf("columns:%d", n))
	rep.Count("reader:" + reader)

	db := vh.NewFakeDB()
	pt := &vh.PgTable{Name: "t"}
	for _, c := range sc.cols {
		pt.Cols = append(pt.Cols, vh.PgCol{Name: c.name, Oid: c.oid})
	}
	for _, cells := range sc.rows {
		var row [][]byte
		for _, cell := range cells {
			if cell.class == "null" {
				row = append(row, nil)
			} else {
				row = append(row, append([]byte{}, cell.stored...))
			}
		}
		pt.Rows = append(pt.Rows, row)
	}
	db.Tables["t"] = pt
	yaml := sc.yaml()
	rig, err := vh.NewPgRig(ks, []byte(yaml), db)
	if err != nil {
		rep.Violate("harness-error", "pg rig: "+err.Error(), head+"\n"+yaml)
		return
	}
	ts := rig.Schema.GetTableSchema("t")
	for i, c := range sc.cols {
		if c.kind != 0 {
			c.set = ts.GetColumnEncryptionSettings(c.name)
			if c.set == nil {
				rep.Violate("harness-error", "no setting for a configured column", head+"\n"+yaml)
				return
			}
			rep.Count(fmt.Sprintf("typed-column:%s@%d/%d policy=%s", dataTypeOfKind[c.kind], i, n, policyWords[c.pol]))
		}
	}
	s, err := rig.Open([]byte(reader), nil)
	if err != nil {
		rep.Violate("harness-error", "pg rig open: "+err.Error(), head)
		return
	}
	var res *vh.ClientResult
	if simple {
		res = s.Simple(sql)
	} else {
		res = s.Extended(sql, nil, nil, sc.codes)
	}
	_, _, stmts, beErr := s.Close()
	if s.Hung { // the rig's timeout under machine load, not an answer of the proxy
		rep.Count("hung(skipped)")
		return
	}
	if s.Panic != "" {
		rep.OracleChecks++
		rep.Violate("panic", "a proxy goroutine panicked: "+s.Panic, head)
		return
	}
	for _, st := range stmts {
		if st.Err != "" {
			rep.Violate("harness-error", "the fake back end refused the statement: "+st.Err, head)
			return
		}
	}
	_ = beErr

	// ---- RowDescription: replay + oracle
	if len(res.Fields) == n {
		var coq []string
		var got [][]byte
		for i, c := range sc.cols {
			if c.set != nil {
				coq = append(coq, fmt.Sprintf("(Some %s, %d)", c19CoqSetting(c.set), c.oid))
			} else {
				coq = append(coq, fmt.Sprintf("(None, %d)", c.oid))
			}
			got = append(got, u32be(res.Fields[i].DataTypeOID))
			rep.OracleChecks++
			want := c.oid
			if c.kind != 0 {
				want = c.set.GetDBDataTypeID()
				if kindOfID(want) != c.kind {
					rep.Violate("row-description-type", "the setting's type id is not the declared type", head)
				}
			}
			wantFmt, valid := c19rowsRule(simple, sc.codes, n, i)
			if res.Fields[i].DataTypeOID != want || (valid && (res.Fields[i].Format == 1) != wantFmt) {
				rep.Violate("row-description-type", fmt.Sprintf("column %d is described as type %d format %d, want type %d binary=%v", i, res.Fields[i].DataTypeOID, res.Fields[i].Format, want, wantFmt), head)
			}
		}
		rep.Add(head+" RowDescription", "RowOids ["+strings.Join(coq, "; ")+"]", vh.Ok(got...))
	} else if !res.Closed || len(res.Fields) != 0 {
		rep.OracleChecks++
		rep.Violate("row-description-type", fmt.Sprintf("row description with %d fields for %d columns", len(res.Fields), n), head)
	}

	// ---- every row: replay on the model + oracle
	valid := true
	for i := 0; i < n; i++ {
		if _, v := c19rowsRule(simple, sc.codes, n, i); !v {
			valid = false
		}
	}
	rep.Count(fmt.Sprintf("codes-valid:%v", valid))
	failed := res.Closed || res.Err != ""
	if len(res.Rows) > len(sc.rows) || (!failed && len(res.Rows) != len(sc.rows)) {
		rep.OracleChecks++
		rep.Violate("row-count", fmt.Sprintf("%d rows delivered, the table has %d (closed=%v err=%q)", len(res.Rows), len(sc.rows), res.Closed, res.Err), head)
		return
	}
	for ri, cells := range sc.rows {
		if ri > len(res.Rows) {
			break // rows behind the failing one are skipped by the proxy
		}
		var coq, show []string
		wantErr := false
		var want [][]byte
		var wantNull []bool
		for i, c := range sc.cols {
			binaryFmt, _ := c19rowsRule(simple, sc.codes, n, i)
			cell := cells[i]
			setting, wire, revealed := "None", "None", "None"
			if c.set != nil {
				setting = "(Some " + c19CoqSetting(c.set) + ")"
			}
			if cell.class != "null" {
				// the cell the back end sends: its own reading of the codes (vh.fmtAt: beyond the list = text)
				sent := binaryFmt
				if !simple && len(sc.codes) > 1 {
					sent = i < len(sc.codes) && sc.codes[i] == 1
				} else if !simple && len(sc.codes) == 1 {
					sent = sc.codes[0] == 1
				}
				wire = "(Some " + vh.H(c19rowsWire(c.oid, cell.stored, sent)) + ")"
				if c.oid == vh.OidBytea && !sent { // bytea text output: \x + hex (Model/Typed.v pg_hex, compared with utils.PgEncodeToHex by domain c19)
					wire = "(Some (pg_hex " + vh.H(cell.stored) + "))"
				}
			}
			if cell.class == "envelope" && sc.owner {
				revealed = "(Some " + vh.H(cell.orig) + ")"
			}
			coq = append(coq, fmt.Sprintf("(mk_rcol %s %s %s)", setting, wire, revealed))
			w, null, e := c19rowsWant(c, cell, binaryFmt, sc.owner)
			want, wantNull = append(want, w), append(wantNull, null)
			wantErr = wantErr || e
			show = append(show, fmt.Sprintf("%s[%s binary=%v original=%q stored=%s]", c.name, cell.class, binaryFmt, cell.orig, hx(cell.stored)))
		}
		lab := fmt.Sprintf("%s row %d: %s", head, ri, strings.Join(show, " "))
		var o vh.Outcome
		delivered := ri < len(res.Rows)
		switch {
		case delivered:
			vals := [][]byte{{0}}
			for _, v := range res.Rows[ri] {
				vals = append(vals, c19rowsEncCell(v, v == nil))
			}
			o = vh.Ok(vals...)
		case res.Closed:
			o = vh.Ok([]byte{2})
		default:
			o = vh.Ok([]byte{1})
		}
		rep.Add(lab, fmt.Sprintf("Row %s [%s]", c19rowsCoqCodes(simple, sc.codes), strings.Join(coq, "; ")), o)
		rep.Count(fmt.Sprintf("row-outcome:%d", o.Vals[0][0]))
		if !valid {
			continue // a Bind the server rejects: comparison with the model only
		}
		rep.OracleChecks++
		hexCol := -1
		for i := range sc.cols {
			if cells[i].class == "plain-hexlike" {
				hexCol = i
			}
		}
		if hexCol >= 0 && wantErr {
			continue // which of the two ends the row depends on the order of the columns: comparison with the model only
		}
		if hexCol >= 0 {
			// known finding: the substitute setting of a column WITHOUT setting is a "binary data operation", its cells go
			// through utils.DecodeEscaped in both formats (Properties/C19_rows.v C19_rows_unprotected_hexlike_refuted)
			rep.Count("row-with-hexlike-unprotected-text")
			if !delivered || len(res.Rows[ri]) != n || !bytes.Equal(res.Rows[ri][hexCol], cells[hexCol].stored) {
				got := "no row (closed=" + fmt.Sprint(res.Closed) + " err=" + res.Err + " proxy=" + s.ProxyErr + ")"
				if delivered {
					got = c19rowsShowRow(res.Rows[ri])
				}
				rep.Violate("unprotected-hexlike-value", fmt.Sprintf("a text value %q of a column without any setting did not reach the client unchanged", cells[hexCol].stored), lab+" delivered="+got)
			}
			continue
		}
		switch {
		case wantErr && delivered:
			rep.Violate("error-policy-no-error", "policy error: a row with an unrevealed value of such a column was delivered", lab+" delivered="+c19rowsShowRow(res.Rows[ri]))
		case wantErr && res.Closed:
			rep.Violate("error-policy-no-error", "policy error: the session was ended instead of an error response for the statement", lab)
		case wantErr:
		case !delivered:
			rep.Violate("row-not-delivered", fmt.Sprintf("the row was not delivered (closed=%v err=%q proxy=%q)", res.Closed, res.Err, s.ProxyErr), lab)
		default:
			got := res.Rows[ri]
			if len(got) != n {
				rep.Violate("partial-row", fmt.Sprintf("row with %d cells for %d columns", len(got), n), lab)
				break
			}
			for i, c := range sc.cols {
				if (got[i] == nil) == wantNull[i] && bytes.Equal(got[i], want[i]) {
					continue
				}
				binaryFmt, _ := c19rowsRule(simple, sc.codes, n, i)
				class, what := "unprotected-column-changed", "a column without setting was changed"
				if c.kind != 0 {
					class = "row-cell-wrong-value"
					what = fmt.Sprintf("column %d of %d (%s, policy %q, requested format binary=%v, %s, reader %s): the client did not receive the value in the declared type and the format it asked for", i, n, dataTypeOfKind[c.kind], policyWords[c.pol], binaryFmt, cells[i].class, reader)
				}
				rep.Violate(class, what, fmt.Sprintf("%s column=%d got=%s want=%s (null=%v)", lab, i, hx(got[i]), hx(want[i]), wantNull[i]))
				break
			}
		}
	}
}

func c19rowsShowRow(row [][]byte) string {
	var s []string
	for _, c := range row {
		if c == nil {
			s = append(s, "NULL")
		} else {
			s = append(s, hx(c))
		}
	}
	return "[" + strings.Join(s, " ") + "]"
}

// ---------- the format rule itself: GetParameterFormatByIndex / BindPacket.GetResultFormats ----------

func c19rowsFmtStatus(err error) vh.Outcome {
	switch err {
	case postgresql.ErrNotEnoughFormats:
		return vh.Ok([]byte{3})
	case postgresql.ErrUnknownFormat:
		return vh.Ok([]byte{4})
	}
	return vh.Ok([]byte{2})
}

func c19rowsMicro(rep *vh.Report, r *vh.Rng) {
	tables := [][]uint16{{}, {0}, {1}, {2}, {65535}, {256}, {0, 0}, {0, 1}, {1, 0}, {1, 1}, {1, 2}, {2, 1}, {0, 1, 0}, {1, 1, 1}, {1, 1, 1, 1}, {1, 0, 1, 0}, {0, 0, 0, 7}}
	for i := 0; i < 6; i++ {
		t := make([]uint16, 2+r.Intn(4))
		for k := range t {
			t[k] = uint16(r.Intn(2))
		}
		tables = append(tables, t)
	}
	for _, codes := range tables {
		var cs []string
		for _, c := range codes {
			cs = append(cs, strconv.Itoa(int(c)))
		}
		coq := "[" + strings.Join(cs, "; ") + "]"
		for i := 0; i <= len(codes)+1 && i < 6; i++ {
			idx := i
			o := vh.Guard(func() vh.Outcome {
				f, err := postgresql.GetParameterFormatByIndex(idx, codes)
				if err != nil {
					return c19rowsFmtStatus(err)
				}
				return vh.Ok([]byte{0}, []byte{byte(f)})
			})
			rep.Add(fmt.Sprintf("GetParameterFormatByIndex(%d, %v)", i, codes), fmt.Sprintf("Fmt %d %s", i, coq), o)
			// oracle: PostgreSQL's rule
			var c16 []int16
			for _, c := range codes {
				c16 = append(c16, int16(c))
			}
			if len(codes) >= 2 && i >= len(codes) {
				continue
			}
			if want, valid := c19rowsRule(false, c16, len(codes), i); valid {
				rep.OracleChecks++
				if len(o.Vals) != 2 || (o.Vals[1][0] == 1) != want {
					rep.Violate("format-rule", fmt.Sprintf("GetParameterFormatByIndex(%d, %v) is not the format PostgreSQL uses for that column (binary=%v)", i, codes, want), o.String())
				}
			}
		}
		// a real Bind packet with these result-format codes
		body := []byte{0, 0, 0, 0, 0, 0}
		body = binary.BigEndian.AppendUint16(body, uint16(len(codes)))
		for _, c := range codes {
			body = binary.BigEndian.AppendUint16(body, c)
		}
		o := vh.Guard(func() vh.Outcome {
			bp, err := postgresql.NewBindPacket(body)
			if err != nil {
				return vh.Ok([]byte{2})
			}
			fs, err := bp.GetResultFormats()
			if err != nil {
				return c19rowsFmtStatus(err)
			}
			vals := [][]byte{{0}}
			for _, f := range fs {
				vals = append(vals, []byte{byte(f)})
			}
			return vh.Ok(vals...)
		})
		rep.Add(fmt.Sprintf("Bind%v.GetResultFormats", codes), "ResFmts "+coq, o)
	}
}

// ---------- domain ----------

func runC19Rows(rep *vh.Report, r *vh.Rng, n int, thorough bool) {
	r = vh.NewRng(r.U64() ^ 0x6319726f7773)
	ks := vh.NewMemKeystore()
	ks.Clients[c19rowsOwner] = vh.NewKeySet(r, 1, 1, true)
	ks.Clients[c19rowsOther] = vh.NewKeySet(r, 1, 1, true)
	c19rowsMicro(rep, r)
	id := 0
	hexlike := 0
	run := func(ncols, focus, kind, pol, layout int, owner bool) {
		nrows := 1
		if r.Intn(3) == 0 {
			nrows = 2
		}
		if thorough && r.Intn(4) == 0 {
			nrows = 3
		}
		sc := c19rowsBuild(r, ks, ncols, focus, kind, pol, layout, owner, nrows, hexlike, rep)
		hexlike = 0
		sc.run(rep, ks, id)
		id++
	}
	pols := []int{1, 2, 3}
	if thorough {
		// the whole product: column count x position x layout x reader x type x policy
		for ncols := 1; ncols <= 4; ncols++ {
			for focus := 0; focus < ncols; focus++ {
				for layout := 0; layout < c19rowsLayouts; layout++ {
					for _, owner := range []bool{true, false} {
						for kind := 1; kind <= 4; kind++ {
							for _, pol := range pols {
								run(ncols, focus, kind, pol, layout, owner)
							}
						}
					}
				}
			}
		}
	} else {
		// every position of every column count x the well-formed layouts x reader; type and policy rotate
		k := 0
		for ncols := 1; ncols <= 4; ncols++ {
			for focus := 0; focus < ncols; focus++ {
				for _, layout := range []int{c19rowsNone, c19rowsOneText, c19rowsOneBin, c19rowsAllBin, c19rowsMixed} {
					for _, owner := range []bool{true, false} {
						if layout != c19rowsOneBin && layout != c19rowsMixed && owner != ((ncols+focus+layout)%2 == 0) {
							continue // both readers for the layouts with a binary column among others, alternating for the rest
						}
						run(ncols, focus, 1+k%4, pols[(k/4+k)%3], layout, owner)
						k++
					}
				}
			}
		}
		// the boundary of the rule - ONE code for SEVERAL columns, protected column behind the first: type x policy x reader
		for kind := 1; kind <= 4; kind++ {
			for _, pol := range pols {
				for _, owner := range []bool{true, false} {
					ncols := 2 + k%3
					run(ncols, 1+k%(ncols-1), kind, pol, c19rowsOneBin, owner)
					k++
				}
			}
			for _, owner := range []bool{true, false} {
				ncols := 2 + k%3
				run(ncols, 1+k%(ncols-1), kind, pols[k%3], c19rowsOneText, owner)
				k++
			}
		}
		// simple protocol and the malformed layouts
		for _, layout := range []int{c19rowsSimple, c19rowsAllText, c19rowsShort, c19rowsLong, c19rowsUnknown} {
			for i := 0; i < 3; i++ {
				ncols := 1 + (k+i)%4
				run(ncols, k%ncols, 1+k%4, pols[k%3], layout, i != 1)
				k++
			}
		}
	}
	// a text value that starts like bytea hex output in a column WITHOUT setting next to the typed column (known finding)
	for h := 1; h <= 5; h++ {
		hexlike = h
		run(2+h%3, h%2, 1+h%4, pols[h%3], []int{c19rowsNone, c19rowsOneBin, c19rowsAllText}[h%3], h%2 == 0)
	}
	// random scenarios
	for i := 0; i < n; i++ {
		if r.Intn(25) == 0 {
			hexlike = 1 + r.Intn(5)
		}
		ncols := 1 + r.Intn(4)
		layout := r.Intn(c19rowsLayouts)
		if layout >= c19rowsShort && r.Bool() { // ~85 % well-formed
			layout = r.Intn(c19rowsShort)
		}
		pol := r.Intn(4)
		run(ncols, r.Intn(ncols), 1+r.Intn(4), pol, layout, r.Intn(3) != 0)
	}
}
