package main

// C16 — the comparison family of the statement generator.
//
// The redaction walk handles comparisons specially (convertComparison turns an all-literal IN list into one list
// bind variable), so a literal can sit at many operand positions whose treatment differs: left / right / escape
// operand, left of an IN whose list is replaced, inside a function call / arithmetic / sub-select / CASE / nested
// comparison that is itself an operand.  This file enumerates
//     comparison form  x  operand position  x  operand form
// ("atoms": the operand form carries fresh marker literals at the chosen position, plain marker literals stand
// at the other positions), in both dialects and every literal spelling, and packs the atoms into statements:
// a few atoms joined by AND / OR / NOT inside a statement frame (WHERE of SELECT / UPDATE / DELETE, HAVING,
// JOIN ... ON, SET a = (...), select expression, CASE WHEN, VALUES, ON DUPLICATE KEY UPDATE, sub-select ...), so
// both visit functions of the normalizer (WalkStatement for DML, WalkSelect below a SELECT) see every atom kind.
// Quick tier: the full product of the major forms and major operand forms, every other (form, position) and
// operand form at least once by rotation; thorough tier: the full product.
// An atom / statement that the real parser rejects is counted (cmp-unparsed:...) and regenerated in plain
// spelling, then dropped: coverage lost to the grammar is visible in the evidence.

import (
	"fmt"
	"strings"

	"acra-vh/vh"

	"github.com/cossacklabs/acra/sqlparser"
)

type c16CmpForm struct {
	name    string
	sql     string // @1 = the left operand, @2 ... = the other operands in source order
	n       int
	major   bool
	dialect string // "" = both
}

var c16CmpForms = []c16CmpForm{
	{"eq", "@1 = @2", 2, true, ""},
	{"lt", "@1 < @2", 2, false, ""},
	{"gt", "@1 > @2", 2, false, ""},
	{"le", "@1 <= @2", 2, false, ""},
	{"ge", "@1 >= @2", 2, false, ""},
	{"ne", "@1 != @2", 2, false, ""},
	{"ne-ltgt", "@1 <> @2", 2, false, ""},
	{"null-safe-eq", "@1 <=> @2", 2, false, ""},
	{"in", "@1 in (@2, @3)", 3, true, ""},
	{"not-in", "@1 not in (@2, @3)", 3, true, ""},
	{"in-one", "@1 in (@2)", 2, true, ""},
	{"in-mixed", "@1 in (@2, c3, @3)", 3, true, ""},
	{"not-in-mixed", "@1 not in (c3, @2)", 2, false, ""},
	{"in-subselect", "@1 in (select d from t2 where e = @2)", 2, true, ""},
	{"not-in-subselect", "@1 not in (select d from t2 where e = @2)", 2, false, ""},
	{"in-listarg", "@1 in ::lst9", 1, false, ""},
	{"like", "@1 like @2", 2, true, ""},
	{"not-like", "@1 not like @2", 2, false, ""},
	{"like-escape", "@1 like @2 escape @3", 3, true, ""},
	{"not-like-escape", "@1 not like @2 escape @3", 3, false, ""},
	{"ilike", "@1 ilike @2", 2, false, "pg"},
	{"not-ilike-escape", "@1 not ilike @2 escape @3", 3, false, "pg"},
	{"regexp", "@1 regexp @2", 2, false, ""},
	{"not-regexp", "@1 not regexp @2", 2, false, ""},
	{"between", "@1 between @2 and @3", 3, true, ""},
	{"not-between", "@1 not between @2 and @3", 3, false, ""},
	{"tuple-eq", "(@1, c3) = (@2, @3)", 3, true, ""},
	{"tuple-in", "(@1, c3) in ((@2, @3), (@4, c4))", 4, true, ""},
	{"tuple-in-literals", "(@1, @2) in ((@3, @4))", 4, false, ""},
	{"is-null", "@1 is null", 1, false, ""},
	{"is-not-null", "@1 is not null", 1, false, ""},
	{"is-true", "@1 is true", 1, false, ""},
	{"is-not-true", "@1 is not true", 1, false, ""},
	{"is-false", "@1 is false", 1, false, ""},
	{"is-not-false", "@1 is not false", 1, false, ""},
	{"in-is-true", "@1 in (@2, @3) is true", 3, false, ""},
	{"json-extract", "c3 -> @1 = @2", 2, false, ""},
}

type c16CmpOperand struct {
	name    string
	sql     string
	major   bool
	dialect string
}

var c16CmpOperands = []c16CmpOperand{
	{"literal", "$S", true, ""},
	{"func-arg", "lower($S)", true, ""},
	{"func-arg-nested", "coalesce(nullif(c2, $S), $S)", true, ""},
	{"arith", "c2 + $N", true, ""},
	{"sub-select", "(select d from t2 where e = $S)", true, ""},
	{"case", "case when c2 = $S then $S else c3 end", true, ""},
	{"nested-cmp", "(c2 = $S)", true, ""},
	{"nested-in", "(c2 in ($S, $S))", true, ""},
	{"nested-left-of-in", "($S in ($S, $S))", true, ""},
	{"cast", "cast($S as char)", true, ""},
	{"arith-left", "$N * c2 - $N", false, ""},
	{"func-two-args", "concat(c2, $S, $S)", false, ""},
	{"binary", "binary $S", false, ""},
	{"collate", "$S collate utf8_bin", false, ""},
	{"convert-using", "convert($S using utf8)", false, ""},
	{"interval", "interval $N day", false, "mysql"},
	{"tuple", "($S, c2)", false, ""},
	{"substr", "substr(c2, $N, $N)", false, ""},
	{"match", "match(c2) against ($S)", false, ""},
	{"sub-select-bare", "(select $S)", false, ""},
	{"bit-or", "c2 | $N", false, ""},
	{"bang", "!$N", false, ""},
}

// frames: @C = the condition built from the atoms
var c16CmpFrames = []struct{ name, sql string }{
	{"select-where", "select a from t1 where @C"},
	{"update-where", "update t1 set a = b where @C"},
	{"having", "select a, count(*) from t1 group by a having @C"},
	{"delete-where", "delete from t1 where @C"},
	{"join-on", "select t1.a from t1 join t2 on @C"},
	{"update-set", "update t1 set a = (@C) where b = c"},
	{"select-expr", "select a, (@C) as f from t1"},
	{"delete-limit", "delete from t1 where @C order by a limit 5"},
	{"case-cond", "select case when @C then a else b end from t1"},
	{"insert-values", "insert into t1 (a, b) values ((@C), 1)"},
	{"sub-select-where", "select a from t1 where b in (select c from t2 where @C)"},
	{"update-where-limit", "update t1 set a = b where @C order by a limit 5"},
	{"insert-select", "insert into t1 (a) select c from t2 where @C"},
	{"order-by", "select a from t1 order by (@C)"},
	{"on-dup", "insert into t1 (a, b) values (1, 2) on duplicate key update b = (@C)"},
	{"func-arg", "select if(@C, a, b) from t1"},
	{"not-paren", "select a from t1 where not (@C)"},
	{"union", "select a from t1 where @C union select b from t2"},
}

type c16CmpAtom struct {
	form, operand, pos int // pos: 1-based operand position of the form that carries the operand form
	dialect            string
	kind               string // "" or the spelling forced on the literals of the operand form
}

func (a c16CmpAtom) label() string {
	l := fmt.Sprintf("%s@%d/%s", c16CmpForms[a.form].name, a.pos, c16CmpOperands[a.operand].name)
	if a.kind != "" {
		l += "[" + a.kind + "]"
	}
	return l
}

func c16CmpFormIndex(name string) int {
	for i, f := range c16CmpForms {
		if f.name == name {
			return i
		}
	}
	panic("c16: comparison form " + name)
}

func c16CmpOperandIndex(name string) int {
	for i, o := range c16CmpOperands {
		if o.name == name {
			return i
		}
	}
	panic("c16: operand form " + name)
}

func c16CmpDialectOK(d, want string) bool { return want == "" || want == d }

// c16CmpAtoms: the atoms of one dialect for the tier
func c16CmpAtoms(r *vh.Rng, dialect string, thorough bool) []c16CmpAtom {
	var atoms []c16CmpAtom
	var minorOps, allOps []int
	for oi, o := range c16CmpOperands {
		if !c16CmpDialectOK(dialect, o.dialect) {
			continue
		}
		allOps = append(allOps, oi)
		if !o.major {
			minorOps = append(minorOps, oi)
		}
	}
	rotMinor, rotAll := r.Intn(len(minorOps)), r.Intn(len(allOps))
	for fi, f := range c16CmpForms {
		if !c16CmpDialectOK(dialect, f.dialect) {
			continue
		}
		for pos := 1; pos <= f.n; pos++ {
			if thorough {
				for _, oi := range allOps {
					atoms = append(atoms, c16CmpAtom{fi, oi, pos, dialect, ""})
				}
				continue
			}
			if f.major {
				for _, oi := range allOps {
					if c16CmpOperands[oi].major {
						atoms = append(atoms, c16CmpAtom{fi, oi, pos, dialect, ""})
					}
				}
				atoms = append(atoms, c16CmpAtom{fi, minorOps[rotMinor%len(minorOps)], pos, dialect, ""})
				rotMinor++
			} else {
				for k := 0; k < 2; k++ {
					atoms = append(atoms, c16CmpAtom{fi, allOps[rotAll%len(allOps)], pos, dialect, ""})
					rotAll += 5 // 5 is coprime to the number of operand forms in both dialects (22, 21)
				}
			}
		}
	}
	// every spelling of a literal at the left of an IN whose list is replaced, of a BETWEEN and of a LIKE: bare and
	// as a function argument (thorough: at every position of these forms)
	kinds := append(append([]string{}, stringKinds...), numberKinds...)
	rot := r.Intn(4)
	for _, kind := range kinds {
		if kind == "dq" && dialect == "pg" {
			continue
		}
		spelled := []struct{ form, operand string }{{"in", "literal"}, {"not-in", "func-arg"}, {"between", "literal"}, {"like", "func-arg"}}
		for i, fo := range spelled {
			fi := c16CmpFormIndex(fo.form)
			if thorough {
				for pos := 1; pos <= c16CmpForms[fi].n; pos++ {
					atoms = append(atoms, c16CmpAtom{fi, c16CmpOperandIndex("literal"), pos, dialect, kind})
					atoms = append(atoms, c16CmpAtom{fi, c16CmpOperandIndex("func-arg"), pos, dialect, kind})
				}
			} else if i < 2 || (i+rot)%2 == 0 {
				atoms = append(atoms, c16CmpAtom{fi, c16CmpOperandIndex(fo.operand), 1, dialect, kind})
			}
		}
		rot++
	}
	return atoms
}

// c16CmpAtomText: the SQL of an atom with its marker literals
func c16CmpAtomText(r *vh.Rng, rep *vh.Report, a c16CmpAtom, forceKind string) (string, []marker) {
	f := c16CmpForms[a.form]
	tpl := f.sql
	const opToken = "\x00OPERAND\x00"
	for p := f.n; p >= 1; p-- {
		slot := "$S"
		if p == a.pos {
			slot = opToken
		}
		tpl = strings.Replace(tpl, fmt.Sprintf("@%d", p), slot, 1)
	}
	opKind := forceKind
	if opKind == "" {
		opKind = a.kind
	}
	op, ms := c16Expand(r, rep, c16CmpOperands[a.operand].sql, a.dialect, opKind)
	rest, ms2 := c16Expand(r, rep, tpl, a.dialect, forceKind)
	return strings.Replace(rest, opToken, op, 1), append(ms, ms2...)
}

func c16CmpParses(sql string) bool {
	var ok bool
	o := vh.Guard(func() vh.Outcome {
		_, err := sqlparser.New(sqlparser.ModeStrict).Parse(sql)
		ok = err == nil
		return vh.Ok()
	})
	return o.Kind == "ok" && ok
}

type c16CmpPiece struct {
	atom    c16CmpAtom
	sql     string
	markers []marker
}

// c16CmpPieceOf: text of an atom that the real parser accepts (second try in plain spelling), or ok = false
func c16CmpPieceOf(r *vh.Rng, rep *vh.Report, a c16CmpAtom) (c16CmpPiece, bool) {
	setDialect(a.dialect)
	for _, force := range []string{"", "plain"} {
		sql, ms := c16CmpAtomText(r, nil, a, force)
		if c16CmpParses("select 1 from t1 where " + sql) {
			for _, m := range ms {
				rep.Count("spelling:" + m.kind)
			}
			return c16CmpPiece{a, sql, ms}, true
		}
		if force == "" {
			rep.Count("cmp-respelled:" + a.dialect + ":" + a.label())
		}
	}
	rep.Count("cmp-unparsed-atom:" + a.dialect + ":" + a.label())
	return c16CmpPiece{}, false
}

// c16CmpAssemble: the pieces joined by AND / OR / AND NOT inside a frame
func c16CmpAssemble(r *vh.Rng, frame int, pieces []c16CmpPiece) c16GenStmt {
	var cond strings.Builder
	var ms []marker
	var labels []string
	for i, p := range pieces {
		if i > 0 {
			switch r.Intn(4) {
			case 0:
				cond.WriteString(" or ")
				cond.WriteString(p.sql)
			case 1:
				cond.WriteString(" and not (")
				cond.WriteString(p.sql)
				cond.WriteString(")")
			case 2:
				s := cond.String()
				cond.Reset()
				cond.WriteString("(" + s + ") and " + p.sql)
			default:
				cond.WriteString(" and ")
				cond.WriteString(p.sql)
			}
		} else {
			cond.WriteString(p.sql)
		}
		ms = append(ms, p.markers...)
		labels = append(labels, p.atom.label())
	}
	fr := c16CmpFrames[frame%len(c16CmpFrames)]
	return c16GenStmt{
		pos:     "cmp:" + fr.name + ":" + strings.Join(labels, "+"),
		sql:     strings.Replace(fr.sql, "@C", cond.String(), 1),
		markers: ms,
		dialect: pieces[0].atom.dialect,
		pieces:  append([]c16CmpPiece{}, pieces...),
		frame:   frame % len(c16CmpFrames),
	}
}

// c16CmpShrink: a statement of the family whose redacted text kept a literal is tried again atom by atom (same
// frame, the real HandleRawSQLQuery); the first atom that fails alone is the smaller failing input.
func c16CmpShrink(g c16GenStmt, mode sqlparser.Mode) (sql, red, hit string, ok bool) {
	if len(g.pieces) < 2 {
		return "", "", "", false
	}
	setDialect(g.dialect)
	for _, p := range g.pieces {
		small := strings.Replace(c16CmpFrames[g.frame].sql, "@C", p.sql, 1)
		var r string
		o := vh.Guard(func() vh.Outcome {
			_, r, _, _ = sqlparser.New(mode).HandleRawSQLQuery(small)
			return vh.Ok()
		})
		if o.Kind != "ok" {
			continue
		}
		if h := findMarker(r, p.markers); h != "" {
			return small, r, h, true
		}
	}
	return "", "", "", false
}

// c16CmpStatements: the systematic part of the family for this tier
func c16CmpStatements(r *vh.Rng, rep *vh.Report, thorough bool) []c16GenStmt {
	per := 5
	if thorough {
		per = 3
	}
	var out []c16GenStmt
	frame := r.Intn(len(c16CmpFrames))
	for _, d := range []string{"mysql", "pg"} {
		atoms := c16CmpAtoms(r, d, thorough)
		for i := len(atoms) - 1; i > 0; i-- {
			j := r.Intn(i + 1)
			atoms[i], atoms[j] = atoms[j], atoms[i]
		}
		var pieces []c16CmpPiece
		for _, a := range atoms {
			if p, ok := c16CmpPieceOf(r, rep, a); ok {
				pieces = append(pieces, p)
			}
		}
		for i := 0; i < len(pieces); i += per {
			e := i + per
			if e > len(pieces) {
				e = len(pieces)
			}
			g := c16CmpAssemble(r, frame, pieces[i:e])
			frame++
			setDialect(d)
			if c16CmpParses(g.sql) {
				out = append(out, g)
				continue
			}
			// the combination does not parse in this frame: every atom on its own, in the plainest frame
			rep.Count("cmp-unparsed-combination:" + d + ":" + c16CmpFrames[(frame-1)%len(c16CmpFrames)].name)
			for _, p := range pieces[i:e] {
				out = append(out, c16CmpAssemble(r, 0, []c16CmpPiece{p}))
			}
		}
	}
	for _, g := range out {
		c16CmpCountStmt(rep, g)
	}
	rep.Count(fmt.Sprintf("cmp-systematic-statements:%d", len(out)))
	return out
}

// c16CmpRandom: one random atom (any form, position, operand form) in a random frame
func c16CmpRandom(r *vh.Rng, rep *vh.Report, dialect string) (c16GenStmt, bool) {
	for try := 0; try < 8; try++ {
		fi, oi := r.Intn(len(c16CmpForms)), r.Intn(len(c16CmpOperands))
		if !c16CmpDialectOK(dialect, c16CmpForms[fi].dialect) || !c16CmpDialectOK(dialect, c16CmpOperands[oi].dialect) {
			continue
		}
		a := c16CmpAtom{fi, oi, 1 + r.Intn(c16CmpForms[fi].n), dialect, ""}
		p, ok := c16CmpPieceOf(r, rep, a)
		if !ok {
			continue
		}
		g := c16CmpAssemble(r, r.Intn(len(c16CmpFrames)), []c16CmpPiece{p})
		c16CmpCountStmt(rep, g)
		return g, true
	}
	return c16GenStmt{}, false
}

func c16CmpCountStmt(rep *vh.Report, g c16GenStmt) {
	parts := strings.SplitN(g.pos, ":", 3)
	if len(parts) != 3 {
		return
	}
	rep.Count("cmp-frame:" + parts[1])
	for _, l := range strings.Split(parts[2], "+") {
		fo := strings.SplitN(l, "/", 2)
		if len(fo) == 2 {
			if i := strings.Index(fo[1], "["); i >= 0 {
				rep.Count("cmp-forced-spelling:" + strings.Trim(fo[1][i:], "[]") + ":" + fo[0])
				fo[1] = fo[1][:i]
			}
			rep.Count("cmp-form:" + fo[0])
			rep.Count("cmp-operand:" + fo[1])
			if strings.HasPrefix(fo[0], "in@1") || strings.HasPrefix(fo[0], "not-in@1") || strings.HasPrefix(fo[0], "in-one@1") {
				rep.Count("cmp-left-of-replaced-in:" + g.dialect + ":" + fo[1])
			}
		}
	}
}
