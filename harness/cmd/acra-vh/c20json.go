package main

// C20 (extension) — the JSON path of the audit log at the level of the authenticated bytes.
//
// Domain c20json drives the REAL logrus std logger through logging.AuditLogHandler with the REAL JSON
// crypto formatter + JSONFormatterHook, with field values of every JSON kind (integers around 2^53 and
// 2^63, floats, exponent forms, json.Number / json.RawMessage literals, nested objects / arrays with
// repeated member names, unicode, invalid UTF-8, escapes).  A spy hook in front of the crypto hook records
// the formatted entry exactly as JSONFormatterHook.PostFormat receives it.  Recorded for the model
// (Model.RunAuditLogJson): the bytes written per entry (JWrite), what the REAL JSONLogParser.ParseEntry
// extracts from every line — authenticated bytes included — (JParse), the verdict of the REAL
// IntegrityCheckVerifier on the intact log and on JSON-aware manipulations (JVerify), the side condition of
// the honest theorem (JWf), and direct probes of encoding/json's number and string layer (NumProbe,
// FloatProbe, StrProbe).  JSON texts reach the model as syntax trees made by Go's own tokenizer.
//
// Generator part: AL_JSON_* definitions of coq/Gen/AuditLogConsts.v (decoder configuration of the writer
// side and of the verifier side, found by running both; ASCII rendering table of json.Marshal).

import (
	"bytes"
	"encoding/binary"
	"encoding/json"
	"errors"
	"fmt"
	"go/ast"
	"go/parser"
	"go/token"
	"io"
	"math"
	"os"
	"path/filepath"
	"sort"
	"strconv"
	"strings"
	"time"
	"unicode/utf8"

	"acra-vh/vh"

	"github.com/cossacklabs/acra/logging"
	"github.com/sirupsen/logrus"
)

func init() {
	register("c20json", "Model.RunAuditLogJson", c20jRun)
}

// ---------- generator ----------

// c20jProbeDecoder classifies how a side represents numbers after decoding, from what it prints for two
// literals that float64 cannot keep (2^53+1) resp. would print differently (1E2).
func c20jProbeDecoder(big, exp string) (useNumber bool, err error) {
	switch {
	case big == "9007199254740993" && exp == "1E2":
		return true, nil
	case big == "9007199254740992" && exp == "100":
		return false, nil
	}
	return false, fmt.Errorf("unknown JSON number representation: 9007199254740993 -> %q, 1E2 -> %q", big, exp)
}

const c20jProbeText = `{"big":9007199254740993,"exp":1E2,"level":"info","msg":"probe"}`

func c20jWriterUsesNumber() (bool, error) {
	hook, err := logging.NewJSONFormatterHook([]byte("probe key"))
	if err != nil {
		return false, err
	}
	buf := bytes.NewBufferString(c20jProbeText)
	if err := hook.PostFormat(&logrus.Entry{Message: "probe", Data: logrus.Fields{}}, buf); err != nil {
		return false, err
	}
	w, ok := c20jLex(bytes.TrimRight(buf.Bytes(), "\n"))
	if !ok || w.kind != '{' {
		return false, fmt.Errorf("writer probe: output is not a JSON object: %q", buf.Bytes())
	}
	return c20jProbeDecoder(c20jMemberLit(w, "big"), c20jMemberLit(w, "exp"))
}

func c20jVerifierUsesNumber() (bool, error) {
	e, err := (&logging.JSONLogParser{}).ParseEntry(`{"big":9007199254740993,"exp":1E2,"integrity":"00"}`)
	if err != nil {
		return false, err
	}
	d := logging.JSONKeyValueDelimiter
	parts := strings.Split(string(e.RawData), d)
	// delimiter big delimiter <v> delimiter delimiter exp delimiter <v> delimiter
	if len(parts) != 7 || parts[1] != "big" || parts[4] != "exp" {
		return false, fmt.Errorf("verifier probe: unexpected authenticated bytes %q", e.RawData)
	}
	return c20jProbeDecoder(parts[2], parts[5])
}

func c20jMemberLit(w *c20jW, key string) string {
	for i, k := range w.keys {
		if k == key && w.vals[i].kind == '#' {
			return w.vals[i].s
		}
	}
	return ""
}

// c20jAstUseNumber: does the body of the method call (something).UseNumber()? (go/ast cross-check, recorded as a comment)
func c20jAstUseNumber(file, recv, method string) string {
	repo := os.Getenv("VERIF_REPO")
	if repo == "" {
		repo = "/repo"
	}
	f, err := parser.ParseFile(token.NewFileSet(), filepath.Join(repo, "logging", file), nil, 0)
	if err != nil {
		return "unreadable"
	}
	res := "method not found"
	for _, d := range f.Decls {
		fd, ok := d.(*ast.FuncDecl)
		if !ok || fd.Name.Name != method || fd.Recv == nil || len(fd.Recv.List) != 1 || fd.Body == nil {
			continue
		}
		t := fd.Recv.List[0].Type
		if st, ok := t.(*ast.StarExpr); ok {
			t = st.X
		}
		if id, ok := t.(*ast.Ident); !ok || id.Name != recv {
			continue
		}
		res = "no"
		ast.Inspect(fd.Body, func(n ast.Node) bool {
			if sel, ok := n.(*ast.SelectorExpr); ok && sel.Sel.Name == "UseNumber" {
				res = "yes"
			}
			return true
		})
	}
	return res
}

func c20jEmitConsts() {
	wu, err := c20jWriterUsesNumber()
	if err != nil {
		fmt.Fprintln(os.Stderr, "auditlog generator:", err)
		os.Exit(1)
	}
	vu, err := c20jVerifierUsesNumber()
	if err != nil {
		fmt.Fprintln(os.Stderr, "auditlog generator:", err)
		os.Exit(1)
	}
	fmt.Println("(* decoder configuration of the two sides of the JSON audit log, observed by running JSONFormatterHook.PostFormat and")
	fmt.Println("   JSONLogParser.ParseEntry on 9007199254740993 and 1E2 (true = numbers kept as json.Number, false = float64);")
	fmt.Printf("   go/ast: PostFormat calls UseNumber: %s, ParseEntry calls UseNumber: %s *)\n",
		c20jAstUseNumber("logging.go", "JSONFormatterHook", "PostFormat"), c20jAstUseNumber("log_entry_parser.go", "JSONLogParser", "ParseEntry"))
	fmt.Printf("Definition AL_JSON_WRITER_USENUMBER : bool := %v.\n", wu)
	fmt.Printf("Definition AL_JSON_VERIFIER_USENUMBER : bool := %v.\n", vu)
	// how json.Marshal renders each byte below 0x80 inside a string (escapeHTML on), without the quotes
	var tbl []string
	for i := 0; i < 128; i++ {
		b, err := json.Marshal(string([]byte{byte(i)}))
		if err != nil || len(b) < 3 {
			fmt.Fprintln(os.Stderr, "auditlog generator: json.Marshal of a one-byte string failed")
			os.Exit(1)
		}
		tbl = append(tbl, c20CoqBytes(b[1:len(b)-1]))
	}
	fmt.Printf("Definition AL_JSON_ASCII : list bytes := [%s].\n", strings.Join(tbl, "; "))
}

// ---------- JSON syntax trees (what the model receives) ----------

type c20jW struct {
	kind byte   // 'n' null, 't' true, 'f' false, '#' number (s = literal), 's' string (s = content), '[' array, '{' object
	s    string
	arr  []*c20jW
	keys []string
	vals []*c20jW
}

// c20jLex: syntax tree of a JSON text, made by encoding/json's own tokenizer (number literals as written,
// strings unquoted, members in source order, repeated names kept). ok = json.Valid(text).
func c20jLex(text []byte) (*c20jW, bool) {
	if !json.Valid(text) {
		return nil, false
	}
	dec := json.NewDecoder(bytes.NewReader(text))
	dec.UseNumber()
	w, err := c20jLexValue(dec)
	if err != nil {
		return nil, false
	}
	if _, err := dec.Token(); err != io.EOF {
		return nil, false
	}
	return w, true
}

func c20jLexValue(dec *json.Decoder) (*c20jW, error) {
	tok, err := dec.Token()
	if err != nil {
		return nil, err
	}
	switch t := tok.(type) {
	case nil:
		return &c20jW{kind: 'n'}, nil
	case bool:
		if t {
			return &c20jW{kind: 't'}, nil
		}
		return &c20jW{kind: 'f'}, nil
	case json.Number:
		return &c20jW{kind: '#', s: string(t)}, nil
	case string:
		return &c20jW{kind: 's', s: t}, nil
	case json.Delim:
		switch t {
		case '[':
			w := &c20jW{kind: '['}
			for dec.More() {
				x, err := c20jLexValue(dec)
				if err != nil {
					return nil, err
				}
				w.arr = append(w.arr, x)
			}
			_, err := dec.Token()
			return w, err
		case '{':
			w := &c20jW{kind: '{'}
			for dec.More() {
				k, err := dec.Token()
				if err != nil {
					return nil, err
				}
				ks, ok := k.(string)
				if !ok {
					return nil, errors.New("member name is not a string")
				}
				x, err := c20jLexValue(dec)
				if err != nil {
					return nil, err
				}
				w.keys = append(w.keys, ks)
				w.vals = append(w.vals, x)
			}
			_, err := dec.Token()
			return w, err
		}
	}
	return nil, fmt.Errorf("unexpected token %v", tok)
}

func (w *c20jW) coq() string {
	switch w.kind {
	case 'n':
		return "WNull"
	case 't':
		return "(WBool true)"
	case 'f':
		return "(WBool false)"
	case '#':
		return "(WNum " + vh.H([]byte(w.s)) + ")"
	case 's':
		return "(WStr " + vh.H([]byte(w.s)) + ")"
	case '[':
		parts := make([]string, len(w.arr))
		for i, x := range w.arr {
			parts[i] = x.coq()
		}
		return "(WArr [" + strings.Join(parts, "; ") + "])"
	}
	parts := make([]string, len(w.keys))
	for i, k := range w.keys {
		parts[i] = "(" + vh.H([]byte(k)) + ", " + w.vals[i].coq() + ")"
	}
	return "(WObj [" + strings.Join(parts, "; ") + "])"
}

func c20jLen4(n int) []byte {
	b := make([]byte, 4)
	binary.LittleEndian.PutUint32(b, uint32(n))
	return b
}

// enc: injective byte form of a tree (twin of RunAuditLogJson.wenc)
func (w *c20jW) enc(out []byte) []byte {
	switch w.kind {
	case 'n', 't', 'f':
		return append(out, w.kind)
	case '#', 's':
		out = append(out, w.kind)
		out = append(out, c20jLen4(len(w.s))...)
		return append(out, w.s...)
	case '[':
		out = append(out, '[')
		out = append(out, c20jLen4(len(w.arr))...)
		for _, x := range w.arr {
			out = x.enc(out)
		}
		return out
	}
	out = append(out, '{')
	out = append(out, c20jLen4(len(w.keys))...)
	for i, k := range w.keys {
		out = append(out, c20jLen4(len(k))...)
		out = append(out, k...)
		out = w.vals[i].enc(out)
	}
	return out
}

// text: a JSON text with this syntax tree (literals and member order kept)
func (w *c20jW) text(sb *bytes.Buffer) {
	q := func(s string) {
		b, _ := json.Marshal(s)
		sb.Write(b)
	}
	switch w.kind {
	case 'n':
		sb.WriteString("null")
	case 't':
		sb.WriteString("true")
	case 'f':
		sb.WriteString("false")
	case '#':
		sb.WriteString(w.s)
	case 's':
		q(w.s)
	case '[':
		sb.WriteByte('[')
		for i, x := range w.arr {
			if i > 0 {
				sb.WriteByte(',')
			}
			x.text(sb)
		}
		sb.WriteByte(']')
	default:
		sb.WriteByte('{')
		for i, k := range w.keys {
			if i > 0 {
				sb.WriteByte(',')
			}
			q(k)
			sb.WriteByte(':')
			w.vals[i].text(sb)
		}
		sb.WriteByte('}')
	}
}

func (w *c20jW) String() string {
	var sb bytes.Buffer
	w.text(&sb)
	return sb.String()
}

func (w *c20jW) clone() *c20jW {
	c := &c20jW{kind: w.kind, s: w.s, keys: append([]string{}, w.keys...)}
	for _, x := range w.arr {
		c.arr = append(c.arr, x.clone())
	}
	for _, x := range w.vals {
		c.vals = append(c.vals, x.clone())
	}
	return c
}

func (w *c20jW) get(key string) *c20jW { // last member of that name (what a Go map keeps)
	var r *c20jW
	for i, k := range w.keys {
		if k == key {
			r = w.vals[i]
		}
	}
	return r
}

func (w *c20jW) del(key string) {
	var ks []string
	var vs []*c20jW
	for i, k := range w.keys {
		if k != key {
			ks = append(ks, k)
			vs = append(vs, w.vals[i])
		}
	}
	w.keys, w.vals = ks, vs
}

func c20jLineTerm(line string) string {
	if line == "" {
		return "WEmpty"
	}
	w, ok := c20jLex([]byte(line))
	if !ok {
		return "WBad"
	}
	return "(WLine " + w.coq() + ")"
}

func c20jLinesTerm(lines []string) string {
	parts := make([]string, len(lines))
	for i, l := range lines {
		parts[i] = c20jLineTerm(l)
	}
	return "[" + strings.Join(parts, "; ") + "]"
}

// ---------- field values ----------

var c20jFloats = []float64{0.1, 0.5, 1e21, 1e-7, 1e-6, 9.99999e-7, 1e20, 123456789012345680000, 999999999999999900000, 5e-324, math.MaxFloat64,
	math.SmallestNonzeroFloat64 * 3, 2.2250738585072014e-308, 2.225073858507201e-308, 1.5e300, 2.5e-300, 1.0 / 3, 2.0 / 3, 1e22, 1e23, 8.41e21, 5e-7,
	4.35, 100, 1e15, 1e16, 1e17, 123456.789e3, 0.000123, 9007199254740992, 9007199254740994, 1.7976931348623157e308, 4.9406564584124654e-324,
	float64(float32(0.1)), float64(float32(16777217)), 2.5, -2.5, 1e-5, 12345678901234567890}

var c20jNumberLits = []string{"1E2", "1e+2", "1e2", "-0", "0.10", "1.0", "100e-2", "9007199254740993", "9007199254740992", "9007199254740995",
	"18446744073709551615", "18446744073709551616", "9223372036854775807", "9223372036854775808", "-9223372036854775809", "1e-400", "0.000001",
	"0.0000001", "0.00000099999999999999995", "123456789012345678901234567890", "2.4703282292062328e-324", "2.4703282292062327e-324", "1E-7", "0e0",
	"-0.0E+5", "1.7976931348623157e308", "1.7976931348623158e308", "4.35", "0.30000000000000004", "5e-324", "1e21", "999999999999999999999", "1e22",
	"0.1e1", "10e-1", "1.00000000000000000000000000000000000001", "1.2345678901234567890123456789", "72057594037927945", "72057594037927936"}

var c20jRaws = []string{`{"b":1,"a":[1,2.50,{"x":null}],"b":2}`, ` [ 1 , "é😀 " ] `, `"A\/\b\f\n\u007f"`, `{}`, `[]`, `[[],{}]`, `{"":0}`,
	`{"integrity":"00","chain":"new","z":{"z":{"z":[true,false,null]}}}`, `"\ud800"`, `"\ud83d"`, `[1e0,1E0,1.0,1]`, `{"k":"v","k":"w","K":"x"}`,
	`"<script>&amp;"`, `[9007199254740993,-9007199254740993,1e-7,-1E-7]`, `{"delimiter":"delimiter","a":"xdelimiterdelimiterbdelimiter"}`}

var c20jStrings = []string{"é", " ", " x", "\xff\xfe", "<tag>&", "\x00\x1f\x7f", "\\\"", "😀", "\xed\xa0\x80", "delimiter", "a\xe2\x80", "\xe2\x80\xa8", "\xf4\x90\x80\x80",
	"\xc0\xaf", "\xf0\x9f\x98", "\b\f\n\r\t", " \u0085", "�", "\xef\xbf\xbd", "日本語", "\xe0\x9f\xbf", "\xe0\xa0\x80", "\xf0\x8f\xbf\xbf", "\xf0\x90\x80\x80", "\xc2", "\xdf\xbf"}

func c20jString(r *vh.Rng) string {
	var sb strings.Builder
	n := 1 + r.Intn(4)
	for i := 0; i < n; i++ {
		switch r.Intn(3) {
		case 0:
			sb.WriteString(c20jStrings[r.Intn(len(c20jStrings))])
		case 1:
			sb.WriteString(c20Pieces[r.Intn(len(c20Pieces))])
		default:
			sb.WriteString(c20Words[r.Intn(len(c20Words))])
		}
	}
	return sb.String()
}

// mostly moderate exponents (the model's exact printer works on integers of about |exponent| bits)
func c20jFiniteBits(r *vh.Rng) float64 {
	for {
		var f float64
		switch k := r.Intn(16); {
		case k == 0: // any exponent
			f = math.Float64frombits(r.U64())
		case k == 1: // subnormal / tiny
			f = math.Float64frombits(r.U64() & (1<<uint(1+r.Intn(60)) - 1))
		default:
			f = math.Float64frombits(r.U64()&^(0x7ff<<52) | uint64(1023-60+r.Intn(140))<<52)
		}
		if !math.IsNaN(f) && !math.IsInf(f, 0) {
			return f
		}
	}
}

func c20jValue(r *vh.Rng, rep *vh.Report, depth int, outOfRange bool) interface{} {
	k := r.Intn(16)
	if depth >= 2 && (k == 10 || k == 11) {
		k = 0
	}
	switch k {
	case 0:
		rep.Count("value:small-int")
		return r.Intn(100000) - 500
	case 1:
		rep.Count("value:int~2^53")
		v := int64(1)<<53 + int64(r.Intn(7)) - 3
		if r.Bool() {
			v = -v
		}
		return v
	case 2:
		rep.Count("value:int~2^63")
		switch r.Intn(5) {
		case 0:
			return uint64(1)<<63 + uint64(r.Intn(2049)) - 1024
		case 1:
			return uint64(math.MaxUint64) - uint64(r.Intn(3))
		case 2:
			return int64(math.MinInt64) + int64(r.Intn(3))
		case 3:
			return int64(math.MaxInt64) - int64(r.Intn(1500))
		}
		return time.Date(2026, 9, 23, 1, 2, 3, r.Intn(1000000000), time.UTC).UnixNano()
	case 3:
		rep.Count("value:float-table")
		f := c20jFloats[r.Intn(len(c20jFloats))]
		if r.Intn(3) == 0 {
			f = -f
		}
		return f
	case 4:
		rep.Count("value:float-bits")
		return c20jFiniteBits(r)
	case 5:
		rep.Count("value:number-literal")
		return json.Number(c20jNumberLits[r.Intn(len(c20jNumberLits))])
	case 6:
		rep.Count("value:raw-json")
		if outOfRange && r.Intn(4) == 0 {
			rep.Count("value:out-of-range-number")
			return json.RawMessage(`[1,1e400]`)
		}
		return json.RawMessage(c20jRaws[r.Intn(len(c20jRaws))])
	case 7:
		rep.Count("value:bool")
		return r.Bool()
	case 8:
		rep.Count("value:null")
		return nil
	case 9, 14:
		rep.Count("value:string-unicode")
		return c20jString(r)
	case 10:
		rep.Count("value:object")
		m := map[string]interface{}{}
		for i, n := 0, r.Intn(4); i < n; i++ {
			m[[]string{"k", "z", "a", "é", "delimiter", "integrity", "chain", "", "a\xffb", " "}[r.Intn(10)]] = c20jValue(r, rep, depth+1, false)
		}
		return m
	case 11:
		rep.Count("value:array")
		a := []interface{}{}
		for i, n := 0, r.Intn(4); i < n; i++ {
			a = append(a, c20jValue(r, rep, depth+1, false))
		}
		return a
	case 12:
		rep.Count("value:duration")
		return time.Duration(r.U64() >> uint(r.Intn(60)))
	case 13:
		rep.Count("value:error")
		return errors.New(c20jString(r))
	}
	rep.Count("value:string-plain")
	return c20Msg(r, true)
}

var c20jNames = []string{"user", "n", "session_id", "started_ns", "ratio", "é", "na me", "a<b", "k\xff", "delimiter", "adelimiterb", "", "msg", "level", "timestamp",
	"unixTime", "Integrity", "chain2", "a b", `q"`, "zz", "zzz", "~", "\x7f", "delimiterzdelimiter1delimiter"}

func c20jScenario(r *vh.Rng, rep *vh.Report, profile int, sc int) []c20Event {
	base := time.Date(2026, 3, 4, 5, 6, 7, 0, time.UTC).Add(time.Duration(sc) * time.Minute)
	var evs []c20Event
	sink := false
	n := 2 + r.Intn(6)
	for i := 0; i < n; i++ {
		t := base.Add(time.Duration(i)*977*time.Millisecond + time.Duration(r.Intn(1000))*time.Millisecond)
		switch x := r.Intn(12); {
		case x == 0 && i > 0:
			evs = append(evs, c20Event{kind: evFinalize})
			rep.Count("event:finalize")
			continue
		case x <= 2 && i > 0:
			evs = append(evs, c20Event{kind: evReset})
			rep.Count("event:reset")
			continue
		}
		ev := c20Event{kind: evEntry, t: t, fields: logrus.Fields{}}
		ev.level = []logrus.Level{logrus.InfoLevel, logrus.WarnLevel, logrus.ErrorLevel, logrus.DebugLevel}[r.Intn(4)]
		ev.msg = c20Msg(r, true)
		if r.Intn(4) == 0 {
			ev.msg = c20jString(r)
		}
		if r.Intn(10) == 0 {
			ev.msg = logging.EndOfAuditLogChainMessage
			if r.Bool() {
				ev.msg = strings.ToUpper(ev.msg)
			}
			if profile < 2 {
				ev.msg += "." // the bare reserved message at a chain start belongs to class json-reserved-field
			}
			rep.Count("msg:reserved-end-message")
		}
		nf := 1 + r.Intn(4)
		for j := 0; j < nf; j++ {
			name := c20jNames[r.Intn(len(c20jNames))]
			if profile == 2 && r.Intn(4) == 0 {
				name = []string{"integrity", "chain"}[r.Intn(2)]
			}
			v := c20jValue(r, rep, 0, profile == 2)
			if name == "chain" && r.Intn(2) == 0 {
				v = []string{"new", "end"}[r.Intn(2)]
			}
			if name == "chain2" && r.Intn(2) == 0 {
				name, v = "chain", []interface{}{"other", "end", 7, true}[r.Intn(4)] // a user field `chain` that is not "new"
			}
			ev.fields[name] = v
		}
		if !sink {
			// once per scenario: every class of character json.Marshal treats specially, and one number of each layout
			sink = true
			ev.fields["sink"] = []interface{}{"<a href=\"x\">&amp;</a> \u2028\u2029 \x00\x1f\x7f \\ / \xff\xed\xa0\x80 \u00e9\U0001F600", 1e21, 1e-7, 0.1, int64(1)<<53 + 1}
		}
		evs = append(evs, ev)
		rep.Count("event:entry")
	}
	if r.Intn(3) != 0 {
		evs = append(evs, c20Event{kind: evFinalize})
	}
	return evs
}

// ---------- running the real writer, with a spy in front of the crypto hook ----------

type c20jSpy struct{ formatted [][]byte }

func (s *c20jSpy) PreFormat(*logrus.Entry) error { return nil }
func (s *c20jSpy) PostFormat(_ *logrus.Entry, b *bytes.Buffer) error {
	s.formatted = append(s.formatted, append([]byte{}, b.Bytes()...))
	return nil
}

type c20jEntry struct {
	formatted []byte // what JSONFormatterHook.PostFormat received
	chunk     []byte // what was written (nil: the hook failed, logrus dropped the entry)
	resetAt   bool   // the writer's key was reset right after this entry
	first     bool   // first written entry of its chain
}

// c20jSink: the writer behind the handler; a chunk belongs to the entry that was formatted last
type c20jSink struct {
	spy     *c20jSpy
	byEntry map[int][]byte
}

func (s *c20jSink) Write(p []byte) (int, error) {
	s.byEntry[len(s.spy.formatted)-1] = append([]byte{}, p...)
	return len(p), nil
}

func c20jWrite(key []byte, evs []c20Event) []c20jEntry {
	hooks, err := logging.NewHooks(key, logging.JSONFormatString)
	if err != nil {
		panic(err)
	}
	spy := &c20jSpy{}
	sink := &c20jSink{spy: spy, byEntry: map[int][]byte{}}
	formatter := logging.CreateCryptoFormatter(logging.JSONFormatString)
	formatter.SetServiceName(c20Service)
	formatter.SetHooks(append([]logging.FormatterHook{spy}, hooks...))
	handler, _ := logging.NewAuditLogHandler(formatter, sink)
	logrus.SetOutput(handler)
	logrus.SetFormatter(handler)
	logrus.SetLevel(logrus.DebugLevel)
	stderr := os.Stderr // logrus reports a failed hook on stderr ("Failed to obtain reader")
	if null, err := os.OpenFile(os.DevNull, os.O_WRONLY, 0); err == nil {
		os.Stderr = null
		defer func() { os.Stderr = stderr; null.Close() }()
	}
	resets := map[int]bool{}
	for i := range evs {
		ev := &evs[i]
		switch ev.kind {
		case evEntry:
			f := logrus.Fields{}
			for k, v := range ev.fields {
				f[k] = v
			}
			logrus.WithTime(ev.t).WithFields(f).Log(ev.level, ev.msg)
		case evFinalize:
			handler.FinalizeChain()
		case evReset:
			handler.ResetChain(key)
			resets[len(spy.formatted)-1] = true
		}
	}
	out := make([]c20jEntry, len(spy.formatted))
	first := true
	for i := range out {
		out[i] = c20jEntry{formatted: spy.formatted[i], chunk: sink.byEntry[i], resetAt: resets[i]}
		if out[i].chunk != nil {
			out[i].first = first
			first = false
		}
		if out[i].resetAt {
			first = true
		}
	}
	return out
}

// ---------- the real parser / verifier ----------

func c20jParse(lines []string) vh.Outcome {
	return vh.Guard(func() vh.Outcome {
		var vals [][]byte
		for _, line := range lines {
			e, err := (&logging.JSONLogParser{}).ParseEntry(line)
			switch {
			case err == nil:
				fl := func(b bool) []byte {
					if b {
						return []byte{1}
					}
					return []byte{0}
				}
				vals = append(vals, []byte{0}, e.RawData, e.Integrity, fl(e.IsNewChain), fl(e.IsEndChain))
			case err == logging.ErrJSONIntegrityExtract:
				vals = append(vals, []byte{1}, nil, nil, nil, nil)
			default:
				vals = append(vals, []byte{2}, nil, nil, nil, nil)
			}
		}
		return vh.Ok(vals...)
	})
}

// ---------- tampering with a JSON line ----------

type c20jTamper struct {
	kind   string
	lines  []string
	must   bool // the property requires detection …
	bound  int  // … no later than at this line
	detail string
	known  string // class of the recorded finding this manipulation demonstrates
}

func c20jLeaves(w *c20jW, pred func(*c20jW) bool, out *[]*c20jW) {
	if pred(w) {
		*out = append(*out, w)
	}
	for _, x := range w.arr {
		c20jLeaves(x, pred, out)
	}
	for _, x := range w.vals {
		c20jLeaves(x, pred, out)
	}
}

// user members of a line: everything but the integrity value (and the chain=new marker)
func c20jUserTree(line string) *c20jW {
	w, ok := c20jLex([]byte(line))
	if !ok || w.kind != '{' {
		return nil
	}
	return w
}

func c20jReserved(k string, v *c20jW) bool {
	return k == logging.IntegrityKey || (k == logging.AuditLogChainKey && v.kind == 's' && v.s == logging.NewAuditLogChainValue)
}

// c20jEdits: single-entry manipulations of line i that change the entry (as a JSON value)
func c20jEdits(r *vh.Rng, line string, i int) []c20jTamper {
	var ts []c20jTamper
	base := c20jUserTree(line)
	if base == nil {
		return nil
	}
	mk := func(kind string, w *c20jW, must bool, detail, known string) {
		s := w.String()
		if s != line {
			ts = append(ts, c20jTamper{kind: kind, lines: []string{s}, must: must, bound: i + 1, detail: fmt.Sprintf("line %d %s -> %s", i, detail, s), known: known})
		}
	}
	userIdx := func(w *c20jW) []int {
		var idx []int
		for j, k := range w.keys {
			if !c20jReserved(k, w.vals[j]) {
				idx = append(idx, j)
			}
		}
		return idx
	}
	pickUserLeaves := func(w *c20jW, pred func(*c20jW) bool) []*c20jW {
		var out []*c20jW
		for _, j := range userIdx(w) {
			c20jLeaves(w.vals[j], pred, &out)
		}
		return out
	}
	// a string value: one character changed
	{
		w := base.clone()
		if ls := pickUserLeaves(w, func(x *c20jW) bool { return x.kind == 's' }); len(ls) > 0 {
			x := ls[r.Intn(len(ls))]
			if len(x.s) == 0 {
				x.s = "x"
			} else {
				rs := []rune(x.s)
				p := r.Intn(len(rs))
				if rs[p] == 'x' {
					rs[p] = 'y'
				} else {
					rs[p] = 'x'
				}
				x.s = string(rs)
			}
			mk("edit-string", w, true, "string value", "")
		}
	}
	// a number: another value / the same float64 written differently
	{
		w := base.clone()
		if ls := pickUserLeaves(w, func(x *c20jW) bool { return x.kind == '#' }); len(ls) > 0 {
			x := ls[r.Intn(len(ls))]
			f, err := strconv.ParseFloat(x.s, 64)
			if err == nil {
				old := x.s
				lit := func(g float64) string {
					t := strconv.FormatFloat(g, 'g', -1, 64)
					return strings.Replace(t, "e+", "e", 1) // 'g' writes e+21; both are valid JSON
				}
				if g := f + 1; g != f && !math.IsInf(g, 0) {
					x.s = lit(g)
					mk("edit-number", w, true, "number "+old, "")
				}
				// the neighbouring float64: the smallest change a number can undergo
				if g := math.Nextafter(f, math.Inf(1-2*r.Intn(2))); !math.IsInf(g, 0) {
					x.s = lit(g)
					mk("edit-number-ulp", w, true, "number "+old, "")
				}
				// alias: same float64, another literal (whether it is noticed depends on the decoder: recorded only)
				x.s = old
				switch {
				case !strings.ContainsAny(old, ".eE"):
					x.s = old + ".0"
				case !strings.ContainsAny(old, "eE"):
					x.s = old + "0"
				default:
					x.s = strings.Replace(strings.Replace(old, "e", "E", 1), "E+", "E", 1)
				}
				mk("number-alias", w, false, "number "+old+" rewritten", "")
			}
		}
	}
	// big integer literal: last digit changed inside the float64 rounding interval (same float64, another integer)
	{
		w := base.clone()
		ls := pickUserLeaves(w, func(x *c20jW) bool { return x.kind == '#' && len(x.s) >= 17 && !strings.ContainsAny(x.s, ".eE") })
		if len(ls) > 0 {
			x := ls[r.Intn(len(ls))]
			f0, _ := strconv.ParseFloat(x.s, 64)
			b := []byte(x.s)
			for d := byte('0'); d <= '9'; d++ {
				if d == b[len(b)-1] {
					continue
				}
				c := append(append([]byte{}, b[:len(b)-1]...), d)
				if f1, _ := strconv.ParseFloat(string(c), 64); f1 == f0 {
					old := x.s
					x.s = string(c)
					mk("integer-alias", w, false, "integer "+old+" (same float64)", "")
					break
				}
			}
		}
	}
	uidx := userIdx(base)
	if len(uidx) > 0 {
		// member renamed / dropped / retyped
		{
			w := base.clone()
			j := uidx[r.Intn(len(uidx))]
			w.keys[j] += "_"
			mk("rename-member", w, true, fmt.Sprintf("member %q", base.keys[j]), "")
		}
		if len(uidx) > 1 {
			w := base.clone()
			j := uidx[r.Intn(len(uidx))]
			k := w.keys[j]
			dup := 0
			for _, k2 := range w.keys {
				if k2 == k {
					dup++
				}
			}
			if dup == 1 {
				w.del(k)
				mk("drop-member", w, true, fmt.Sprintf("member %q", k), "")
			}
		}
		{
			w := base.clone()
			j := uidx[r.Intn(len(uidx))]
			x := w.vals[j]
			switch x.kind {
			case '#':
				w.vals[j] = &c20jW{kind: 's', s: x.s}
			case 's':
				w.vals[j] = &c20jW{kind: '[', arr: []*c20jW{x}}
			case 't':
				w.vals[j] = &c20jW{kind: 'f'}
			case 'f', 'n':
				w.vals[j] = &c20jW{kind: 't'}
			case '[':
				w.vals[j] = &c20jW{kind: '[', arr: append([]*c20jW{{kind: 'n'}}, x.arr...)}
			case '{':
				w.vals[j] = &c20jW{kind: '{', keys: append([]string{"injected"}, x.keys...), vals: append([]*c20jW{{kind: 't'}}, x.vals...)}
			}
			mk("retype-member", w, true, fmt.Sprintf("member %q", base.keys[j]), "")
		}
	}
	// member added
	{
		w := base.clone()
		w.keys = append(w.keys, "injected")
		w.vals = append(w.vals, &c20jW{kind: '#', s: "1"})
		mk("add-member", w, true, "", "")
	}
	// members in another order (the same JSON value: recorded only)
	if len(base.keys) > 1 {
		w := base.clone()
		n := len(w.keys)
		a, b := r.Intn(n), r.Intn(n)
		w.keys[a], w.keys[b] = w.keys[b], w.keys[a]
		w.vals[a], w.vals[b] = w.vals[b], w.vals[a]
		distinct := map[string]bool{}
		for _, k := range w.keys {
			distinct[k] = true
		}
		if len(distinct) == n {
			mk("reorder-members", w, false, "", "")
		}
	}
	// the two last user members folded into ONE member whose name spells the canonical form of both
	// (convertMapToBytes puts names between `delimiter` tokens without escaping them)
	if len(uidx) >= 2 {
		seen := map[string]*c20jW{}
		for _, j := range uidx {
			seen[base.keys[j]] = base.vals[j]
		}
		var ks []string
		for k := range seen {
			ks = append(ks, k)
		}
		sort.Strings(ks)
		if len(ks) >= 2 {
			ka, kb := ks[len(ks)-2], ks[len(ks)-1]
			var generic interface{}
			if json.Unmarshal([]byte(seen[ka].String()), &generic) == nil {
				va, _ := json.Marshal(generic)
				d := logging.JSONKeyValueDelimiter
				merged := ka + d + string(va) + d + d + kb
				if utf8.ValidString(merged) {
					w := &c20jW{kind: '{'}
					for j, k := range base.keys {
						if k != ka && k != kb {
							w.keys = append(w.keys, k)
							w.vals = append(w.vals, base.vals[j])
						}
					}
					w.keys = append(w.keys, merged)
					w.vals = append(w.vals, seen[kb])
					mk("merge-members", w, true, fmt.Sprintf("members %q and %q folded into one", ka, kb), "json-delimiter-ambiguity")
				}
			}
		}
	}
	return ts
}

// ---------- the domain ----------

func c20jRun(rep *vh.Report, r *vh.Rng, n int, thorough bool) {
	c20jProbes(rep, r, thorough)
	// layout of the canonical form and decoder configuration, read off the running code (what the semantic edits are built from)
	canon, err := c20jsProbeCanon()
	if err != nil {
		panic(err)
	}
	wu, err1 := c20jWriterUsesNumber()
	vu, err2 := c20jVerifierUsesNumber()
	literalNumbers := err1 == nil && err2 == nil && wu && vu
	for sc := 0; sc < n; sc++ {
		profile := []int{0, 1, 1, 1, 2, 1, 1, 1, 2, 1}[r.Intn(10)]
		key := r.Bytes([]int{32, 32, 16, 1, 64, 65}[r.Intn(6)])
		evs := c20jScenario(r, rep, profile, sc)
		c20jsAugment(rep, canon, evs) // string members spelling other types / holding the separator tokens (own generator)
		if sc == 0 {
			// an entry the hook cannot decode (number out of float64 range): logrus drops it, the chain goes on
			drop := c20Event{kind: evEntry, t: time.Date(2026, 3, 4, 5, 6, 7, 500, time.UTC), level: logrus.InfoLevel, msg: "dropped",
				fields: logrus.Fields{"n": json.RawMessage(`[1,1e400]`)}}
			evs = append(evs[:1], append([]c20Event{drop}, evs[1:]...)...)
		}
		rep.Count(fmt.Sprintf("profile:%d", profile))
		lab := fmt.Sprintf("json sc%d profile=%d key=%x", sc, profile, key)
		gen := r
		r := vh.NewRng(gen.U64()) // scenarios depend on the seed only (service entries carry wall-clock time stamps)

		var ents []c20jEntry
		wo := vh.Guard(func() vh.Outcome { ents = c20jWrite(key, evs); return vh.Ok() })
		rep.OracleChecks++
		if wo.Kind == "panic" {
			rep.Violate("writer-panic", "the JSON audit-log writer panicked: "+wo.Msg, lab+fmt.Sprintf(" events=%+v", evs))
			continue
		}
		var file []byte
		var phys []string
		var written []*c20jEntry
		for i := range ents {
			if ents[i].chunk != nil {
				file = append(file, ents[i].chunk...)
				phys = append(phys, strings.TrimSuffix(string(ents[i].chunk), "\n"))
				written = append(written, &ents[i])
			}
		}
		replay := lab + " log=" + c20Short(file)

		// ---- writer op + classification of the history ----
		knownClass := ""
		ok := true
		var wevs []string
		var expVals [][]byte
		for i := range ents {
			e := &ents[i]
			fw, valid := c20jLex(e.formatted)
			if !valid {
				rep.Violate("formatter-output", "logrus' JSON formatter produced something that is not JSON", lab+fmt.Sprintf(" formatted=%q", e.formatted))
				ok = false
				break
			}
			wevs = append(wevs, "JBEntry "+fw.coq())
			if e.resetAt {
				wevs = append(wevs, "JBReset "+vh.H(key))
			}
			if e.chunk == nil {
				rep.Count("writer:entry-dropped")
				continue
			}
			rep.OracleChecks++
			lw, lvalid := c20jLex(bytes.TrimSuffix(e.chunk, []byte("\n")))
			if !lvalid || lw.kind != '{' || !bytes.HasSuffix(e.chunk, []byte("\n")) || bytes.Count(e.chunk, []byte("\n")) != 1 {
				rep.Violate("line-structure", "a produced JSON entry is not one line holding one JSON object", replay)
				ok = false
				break
			}
			expVals = append(expVals, e.chunk, lw.enc(nil))
			if fw.kind == '{' {
				cv := fw.get(logging.AuditLogChainKey)
				if fw.get(logging.IntegrityKey) != nil || (cv != nil && (e.first || (cv.kind == 's' && cv.s == logging.NewAuditLogChainValue))) {
					knownClass = "json-reserved-field"
				}
			}
			// chain marker on the first entry of a chain and only there
			rep.OracleChecks++
			mv := lw.get(logging.AuditLogChainKey)
			isNew := mv != nil && mv.kind == 's' && mv.s == logging.NewAuditLogChainValue
			if isNew != e.first && knownClass == "" {
				rep.Violate("chain-marker", fmt.Sprintf("entry %d: chain=new marker %v but first-of-chain %v", i, isNew, e.first), replay)
			}
		}
		if !ok {
			continue
		}
		if knownClass != "" {
			rep.Count("known-class:" + knownClass)
		}
		evsTerm := "[" + strings.Join(wevs, "; ") + "]"
		rep.Add(lab+" write", fmt.Sprintf("(JWrite %s %s)", vh.H(key), evsTerm), vh.Ok(expVals...))
		wf := byte(1)
		if knownClass != "" {
			wf = 0
		}
		rep.Add(lab+" side-condition", fmt.Sprintf("(JWf %s %s)", vh.H(key), evsTerm), vh.Ok([]byte{wf}))

		// ---- what the real parser extracts from every line (authenticated bytes included) ----
		rep.Add(lab+" parse lines", "(JParse "+c20jLinesTerm(phys)+")", c20jParse(phys))

		// ---- intact log ----
		v, o := c20Verify(logging.JSONFormatString, key, file)
		rep.Add(lab+" verify intact", fmt.Sprintf("(JVerify %s %s)", vh.H(key), c20jLinesTerm(phys)), o)
		rep.OracleChecks++
		if v.code != 0 {
			cls := "honest-rejected"
			if knownClass != "" {
				cls = knownClass
			}
			rep.Violate(cls, fmt.Sprintf("an intact json audit log does not verify with its own key: %s at line %d", v.msg, v.line), replay)
			rep.Count("honest:rejected")
			continue
		}
		rep.Count("honest:accepted")
		if knownClass != "" || len(phys) == 0 {
			continue
		}
		chainOf := make([]int, len(written))
		c := 0
		for i := range written {
			chainOf[i] = c
			if written[i].resetAt {
				c++
			}
		}
		// ---- semantic single-entry edits of every line (retype / respell / split / merge / move a boundary): c20jsem.go ----
		c20jsOracle(rep, canon, literalNumbers, lab, key, phys, thorough)
		// dropped entries that carried a reset do not occur: service entries are always written
		join := func(ls []string) []byte { return c20Join(ls) }
		verify := func(kind, detail string, ls []string) c20Verdict {
			f2 := join(ls)
			v, o := c20Verify(logging.JSONFormatString, key, f2)
			rep.Add(lab+" verify "+kind+" "+detail, fmt.Sprintf("(JVerify %s %s)", vh.H(key), c20jLinesTerm(ls)), o)
			rep.Count("tamper:" + kind)
			rep.OracleChecks++
			return v
		}

		// ---- wrong key ----
		{
			k2 := append([]byte{}, key...)
			k2[r.Intn(len(k2))] ^= byte(1 << uint(r.Intn(8)))
			f2 := join(phys)
			v, o := c20Verify(logging.JSONFormatString, k2, f2)
			rep.Add(lab+" verify wrong-key", fmt.Sprintf("(JVerify %s %s)", vh.H(k2), c20jLinesTerm(phys)), o)
			rep.OracleChecks++
			if v.code == 0 || v.line > 0 {
				rep.Violate("wrong-key-accepted", fmt.Sprintf("verification with another key did not fail at the first entry: %+v", v), replay+fmt.Sprintf(" key2=%x", k2))
			}
		}
		// ---- a truncation ----
		{
			cut := r.Intn(len(phys))
			v := verify("truncate", fmt.Sprintf("@%d", cut), phys[:cut])
			if v.code != 0 {
				rep.Violate("prefix-rejected", fmt.Sprintf("the first %d lines of an honest log do not verify: %+v", cut, v), replay)
			}
		}
		// ---- manipulations ----
		var ts []c20jTamper
		for i := range phys {
			cp := func() []string { return append([]string{}, phys...) }
			hasSucc := i+1 < len(phys) && chainOf[i+1] == chainOf[i]
			for _, t := range c20jEdits(r, phys[i], i) {
				e := cp()
				e[i] = t.lines[0]
				t.lines = e
				ts = append(ts, t)
			}
			{
				e := cp()
				e[i] = c20EditTag(r, logging.JSONFormatString, phys[i])
				ts = append(ts, c20jTamper{kind: "edit-tag", lines: e, must: true, bound: i + 1, detail: fmt.Sprintf("line %d -> %s", i, e[i])})
			}
			{
				e := append(cp()[:i], phys[i+1:]...)
				ts = append(ts, c20jTamper{kind: "delete", lines: e, must: hasSucc, bound: i, detail: fmt.Sprintf("line %d removed", i)})
			}
			{
				e := append(append(cp()[:i+1], phys[i]), phys[i+1:]...)
				must := !(written[i].first && strings.Contains(phys[i], logging.EndOfAuditLogChainMessage))
				ts = append(ts, c20jTamper{kind: "duplicate", lines: e, must: must, bound: i + 2, detail: fmt.Sprintf("line %d duplicated", i)})
			}
			if i+1 < len(phys) {
				e := cp()
				e[i], e[i+1] = e[i+1], e[i]
				must := c20Authenticated(logging.JSONFormatString, phys[i]) != c20Authenticated(logging.JSONFormatString, phys[i+1]) &&
					(hasSucc || !(written[i].first && written[i+1].first))
				ts = append(ts, c20jTamper{kind: "swap", lines: e, must: must, bound: i + 1, detail: fmt.Sprintf("lines %d and %d swapped", i, i+1)})
			}
		}
		budget := 8
		if thorough {
			budget = len(ts)
		}
		// one manipulation of every kind, the kinds taken in an order that rotates with the scenario (value-level
		// kinds first: the line-level ones are also exercised by domain c20), then random ones
		kinds := []string{"edit-number-ulp", "edit-string", "merge-members", "retype-member", "edit-number", "rename-member", "drop-member", "add-member",
			"number-alias", "integer-alias", "reorder-members", "edit-tag", "delete", "duplicate", "swap"}
		perm := make([]int, len(ts))
		for i := range perm {
			perm[i] = i
		}
		for i := len(perm) - 1; i > 0; i-- {
			j := r.Intn(i + 1)
			perm[i], perm[j] = perm[j], perm[i]
		}
		var order []int
		for k := range kinds {
			kind := kinds[(k+sc*5)%len(kinds)]
			for _, i := range perm {
				if ts[i].kind == kind {
					order = append(order, i)
					break
				}
			}
		}
		order = append(order, perm...)
		if thorough {
			order = order[:0]
			for i := range ts {
				order = append(order, i)
			}
		}
		done := map[int]bool{}
		for _, idx := range order {
			if budget == 0 {
				break
			}
			if done[idx] {
				continue
			}
			done[idx] = true
			budget--
			t := ts[idx]
			v := verify(t.kind, t.detail, t.lines)
			if v.code < 0 {
				rep.Violate("verifier-panic", "the verifier panicked: "+v.msg, replay+" tampered="+c20Short(join(t.lines)))
				continue
			}
			if t.must && (v.code == 0 || v.line > t.bound) {
				cls := "undetected-" + t.kind
				if t.known != "" {
					cls = t.known
				}
				rep.Violate(cls, fmt.Sprintf("%s (%s): verifier result %+v, expected a failure no later than line %d", t.kind, t.detail, v, t.bound),
					replay+" tampered="+c20Short(join(t.lines)))
			}
			if v.code == 0 {
				rep.Count("tamper-accepted:" + t.kind)
			}
		}
	}
}

// ---------- direct probes of encoding/json (number and string layer of the model) ----------

func c20jProbes(rep *vh.Report, r *vh.Rng, thorough bool) {
	le8 := func(x uint64) []byte {
		b := make([]byte, 8)
		binary.LittleEndian.PutUint64(b, x)
		return b
	}
	// batches: (terms, expected values, labels)
	type batch struct {
		op    string
		terms []string
		vals  [][]byte
		lab   []string
	}
	nb, fb, sb := &batch{op: "NumProbe"}, &batch{op: "FloatProbe"}, &batch{op: "StrProbe"}
	flush := func(b *batch, force bool) {
		if len(b.terms) >= 24 || (force && len(b.terms) > 0) {
			rep.Add(b.op+" "+strings.Join(b.lab, " | "), "("+b.op+" ["+strings.Join(b.terms, "; ")+"])", vh.Ok(b.vals...))
			b.terms, b.vals, b.lab = nil, nil, nil
		}
	}
	num := func(lit string) {
		var v interface{}
		err := json.Unmarshal([]byte(lit), &v)
		f, isF := v.(float64)
		switch {
		case err != nil:
			nb.vals = append(nb.vals, nil, nil)
		case isF:
			out, _ := json.Marshal(f)
			nb.vals = append(nb.vals, le8(math.Float64bits(f)), out)
		default:
			return
		}
		nb.terms = append(nb.terms, vh.H([]byte(lit)))
		nb.lab = append(nb.lab, lit)
		rep.Count("probe:number-literal")
		flush(nb, false)
	}
	flt := func(f float64) {
		out, err := json.Marshal(f)
		if err != nil {
			return
		}
		var back float64
		json.Unmarshal(out, &back)
		fb.terms = append(fb.terms, fmt.Sprintf("%d", math.Float64bits(f)))
		fb.vals = append(fb.vals, out, le8(math.Float64bits(back)))
		fb.lab = append(fb.lab, string(out))
		rep.OracleChecks++
		if math.Float64bits(back) != math.Float64bits(f) {
			rep.Violate("float-roundtrip", "encoding/json does not read back the float it printed", fmt.Sprintf("bits=%x printed=%s", math.Float64bits(f), out))
		}
		rep.Count("probe:float")
		flush(fb, false)
	}
	str := func(s string) {
		q, _ := json.Marshal(s)
		var back string
		json.Unmarshal(q, &back)
		sb.terms = append(sb.terms, vh.H([]byte(s)))
		sb.vals = append(sb.vals, q, []byte(back))
		sb.lab = append(sb.lab, fmt.Sprintf("%q", s))
		rep.Count("probe:string")
		flush(sb, false)
	}
	defer func() { flush(nb, true); flush(fb, true); flush(sb, true) }()
	for _, l := range c20jNumberLits {
		num(l)
	}
	for _, l := range []string{"1e400", "-1e309", "1.7976931348623159e308", "1e310", "123456789e301", "1e-330", "0.1e-322", "1e23", "8.5e-5", "1.5e-323",
		"9007199254740993.0", "9007199254740993e0", "0.9007199254740993e16", "4503599627370496.5", "4503599627370497.5", "9223372036854775808.5",
		"1e999999999999", "-1e-999999999999", "0.000000000000000000000000000000000000000000000000000000000000000000000001e80"} {
		num(l)
	}
	for _, f := range c20jFloats {
		flt(f)
		flt(-f)
	}
	for _, k := range []uint{53, 54, 63, 64, 10, 70, 100} {
		base := math.Ldexp(1, int(k))
		for _, f := range []float64{base, math.Nextafter(base, 0), math.Nextafter(base, math.Inf(1))} {
			flt(f)
		}
	}
	for _, f := range []float64{1e21, 1e-6} { // the layout switches of encoding/json
		flt(math.Nextafter(f, 0))
		flt(math.Nextafter(f, math.Inf(1)))
	}
	flt(math.Copysign(0, -1))
	flt(0)
	nr := 60
	if thorough {
		nr = 1500
	}
	for i := 0; i < nr; i++ {
		f := c20jFiniteBits(r)
		flt(f)
		if i%3 == 0 { // a literal with more digits than needed / in another layout
			num(strconv.FormatFloat(f, []byte{'e', 'f', 'g'}[r.Intn(3)], []int{-1, 17, 20, 25}[r.Intn(4)], 64))
		}
		if i%5 == 0 { // integers of 15..20 digits
			num(strconv.FormatUint(r.U64()>>uint(r.Intn(16)), 10))
		}
	}
	for _, s := range c20jStrings {
		str(s)
	}
	all := make([]byte, 128)
	for i := range all {
		all[i] = byte(i)
	}
	str(string(all))
	for i := 0; i < 12; i++ {
		str(c20jString(r) + string(r.Bytes(r.Intn(6))))
	}
}
