package main

// C10, e-mail tokens: the full "e-mail shaped" oracle and the length x TLD sweep.
//
// ORACLE (c10EmailShapeProblem). A token issued for an e-mail typed value of n bytes
//   * has exactly n bytes;
//   * if n is below the length of the shortest e-mail the code's TLD lists allow ("a@b" + shortest
//     TLD) it cannot be e-mail shaped and must be a plain string over the token alphabet;
//   * otherwise it is  local '@' label tld  with exactly one '@', which is not the first byte, a
//     NON-EMPTY local part and a NON-EMPTY domain label between the '@' and the last '.', both over
//     the token alphabet (so no further '.' or '@'), and tld (from the last '.' to the end) is
//     literally one of the TLDs the code defines.
//   Every constant comes from the compiled acra package (charset, the two TLD lists).
//
// GENERATOR (c10EmailSweep). The code's behaviour depends on the length of the value only: it compares
// the length with thresholds that are meant to leave room for "a@b" in front of the TLD it draws. So
// every length around every such threshold (t+2 .. t+5 for every TLD length t the code has, i.e. one
// below the minimum up to the first length at which every TLD fits with room to spare, and one long
// value) is combined with EVERY TLD index: the first 8-byte draw of the call (the Int31n that selects
// the TLD) is forced through the script tape to idx<<32, so that Int31n(len(tlds)) = idx mod len(tlds)
// whichever list the code uses at that length. A few unforced draws per length are added. Each
// length is one scenario (history on an empty store) replayed on Model.RunTokens.

import (
	"bytes"
	"encoding/binary"
	"fmt"
	"sort"
	"strings"

	"acra-vh/vh"

	"github.com/cossacklabs/acra/pseudonymization"
)

func c10EmailTLDs() []string {
	return append(pseudonymization.VerifGenericTLDs(), pseudonymization.VerifCcTLDs()...)
}

// c10EmailMinLen: the shortest e-mail shaped string over the code's TLD lists: "a@b" + shortest TLD.
func c10EmailMinLen() int {
	min := -1
	for _, t := range c10EmailTLDs() {
		if min < 0 || len(t) < min {
			min = len(t)
		}
	}
	return len("a@b") + min
}

func c10InCharset(b []byte) bool {
	charset := pseudonymization.VerifCharset()
	for _, c := range b {
		if c >= 0x80 || !strings.ContainsRune(charset, rune(c)) {
			return false
		}
	}
	return true
}

// c10EmailShapeProblem is the format-preservation oracle for e-mail tokens ("" = fine).
func c10EmailShapeProblem(v, tok []byte) string {
	if len(tok) != len(v) {
		return fmt.Sprintf("e-mail token %q has length %d, the value has length %d", tok, len(tok), len(v))
	}
	if len(v) < c10EmailMinLen() {
		if !c10InCharset(tok) {
			return fmt.Sprintf("short e-mail token %q is not alphanumeric", tok)
		}
		return ""
	}
	bad := func(why string) string {
		return fmt.Sprintf("e-mail token %q (for a %d byte value) is not e-mail shaped: %s", tok, len(v), why)
	}
	if n := bytes.Count(tok, []byte("@")); n != 1 {
		return bad(fmt.Sprintf("%d '@' signs", n))
	}
	at := bytes.IndexByte(tok, '@')
	if at == 0 {
		return bad("empty local part ('@' is the first byte)")
	}
	dot := bytes.LastIndexByte(tok, '.')
	if dot < at {
		return bad("no '.' after the '@'")
	}
	local, label, tld := tok[:at], tok[at+1:dot], tok[dot:]
	if len(label) == 0 {
		return bad("empty domain label between '@' and the TLD " + string(tld))
	}
	known := false
	for _, t := range c10EmailTLDs() {
		known = known || string(tld) == t
	}
	if !known {
		return bad(fmt.Sprintf("TLD %q is not one of %v", tld, c10EmailTLDs()))
	}
	if !c10InCharset(local) {
		return bad(fmt.Sprintf("local part %q is not alphanumeric", local))
	}
	if !c10InCharset(label) {
		return bad(fmt.Sprintf("domain label %q is not alphanumeric", label))
	}
	return ""
}

// c10EmailSweepLens: the lengths around every length threshold an e-mail generator over the code's TLD
// lists can have: for each TLD length t, "a@b"+t is the first length at which that TLD fits; sweep from
// one below the smallest such length to two above the largest, plus long values (odd and even rest).
func c10EmailSweepLens(thorough bool) []int {
	set := map[int]bool{}
	max := 0
	for _, t := range c10EmailTLDs() {
		for d := 2; d <= 5; d++ { // "a@b"+t is t+3
			set[len(t)+d] = true
		}
		if len(t) > max {
			max = len(t)
		}
	}
	set[4*max-3] = true // one long value (17 for ".info")
	if thorough {
		for n := 0; n <= 2*max+6; n++ {
			set[n] = true
		}
		for _, n := range []int{31, 32, 43, 64, 255} {
			set[n] = true
		}
	}
	var lens []int
	for n := range set {
		lens = append(lens, n)
	}
	sort.Ints(lens)
	return lens
}

// c10EmailValue: an e-mail typed value of exactly n bytes not used before in this scenario: mostly a
// well-formed address, sometimes arbitrary bytes (the tokenizer looks at the length only).
func c10EmailValue(r *vh.Rng, n int, used map[string]bool) []byte {
	letters := "abcdefghijklmnopqrstuvwxyz0123456789"
	for try := 0; ; try++ {
		var v []byte
		switch {
		case n == 0:
			return []byte{}
		case r.Intn(5) == 0 || try > 50:
			v = r.Bytes(n)
		default:
			v = make([]byte, n)
			for i := range v {
				v[i] = letters[r.Intn(len(letters))]
			}
			tlds := c10EmailTLDs()
			tld := tlds[r.Intn(len(tlds))]
			if n >= len(tld)+3 {
				copy(v[n-len(tld):], tld)
				v[1+r.Intn(n-len(tld)-2)] = '@'
			} else if n >= 2 {
				v[r.Intn(n)] = '@'
			}
		}
		if !used[string(v)] || try > 200 {
			used[string(v)] = true
			return v
		}
	}
}

// c10ForceTLD: the 8 bytes cryptoRandomSource.Uint64 must read so that math/rand's Int31() = idx, hence
// Int31n(k) = idx mod k for every list length k the code may use (idx is far below the rejection bound).
func c10ForceTLD(idx int) [][]byte {
	b := make([]byte, 8)
	binary.BigEndian.PutUint64(b, uint64(idx)<<32)
	return [][]byte{b}
}

// c10EmailSuffix: how the token ends, for the evidence distribution (which TLD came out at which length).
func c10EmailSuffix(tok []byte) string {
	if i := bytes.LastIndexByte(tok, '.'); i >= 0 {
		return string(tok[i:])
	}
	return "none"
}

func c10EmailSweep(rep *vh.Report, r *vh.Rng, f *storeFactory, thorough bool) {
	lens := c10EmailSweepLens(thorough)
	nTLD := len(c10EmailTLDs())
	rounds, fresh := 1, 3
	if thorough {
		rounds, fresh = len(storeCfgs), 8
	}
	off := r.Intn(len(storeCfgs))
	for round := 0; round < rounds; round++ {
		for li, n := range lens {
			cfg := storeCfgs[(li+off+round)%len(storeCfgs)]
			ctxs := genCtxs(r)
			e := newTokEnv(rep, r, f, cfg, ctxs)
			used := map[string]bool{}
			rep.Count(fmt.Sprintf("email-sweep:len=%d", n))
			for k := 0; k < nTLD+fresh; k++ {
				c := ctxs[0]
				if len(ctxs) > 2 && r.Intn(5) == 0 {
					c = ctxs[2]
				}
				v := c10EmailValue(r, n, used)
				var forced [][]byte
				kind := "fresh"
				if k < nTLD {
					forced, kind = c10ForceTLD(k), "forced"
				}
				consistent := r.Intn(3) > 0
				via := r.Intn(3)
				before := len(e.outs)
				var tok []byte
				if via == 2 { // DataTokenizer on the column text (detokenizes the token itself)
					rep.Count("email-sweep:via-datatokenizer")
					e.dtForced = forced
					e.dtTok(consistent, tEmail, c, v)
					if o := e.outs[before]; len(o) > 0 && o[0] == 0 {
						tok = o[1:]
					}
				} else {
					o := e.tok(consistent, tEmail, c, v, forced, via)
					if o.Kind == "ok" {
						tok = o.Vals[0]
						e.checkOwner(tEmail, c, v, tok, via)
					}
				}
				if tok != nil {
					rep.Count(fmt.Sprintf("email-sweep:len=%d:%s:tld=%s", n, kind, c10EmailSuffix(tok)))
				} else {
					rep.Count(fmt.Sprintf("email-sweep:len=%d:%s:failed", n, kind))
				}
			}
			e.finish(fmt.Sprintf("family email-sweep #%d len=%d store=%s", round, n, cfg))
		}
	}
}
