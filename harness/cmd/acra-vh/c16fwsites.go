package main

// c16fwsites — go/ast reading of the firewall's log call sites (property C16).
//
// Printed as coq/Gen/CensorLogSites.v on every run:
//   * CENSOR_HANDLE_QUERY: every call in AcraCensor.HandleQuery that is a log call, a call of one of the firewall's
//     own methods, a handler's CheckQuery or any other call that receives a value derived from the client statement:
//     the branch of HandleQuery's control flow it stands in (from the enclosing conditions), the callee, and for
//     every actual argument WHICH of HandleQuery's values it is (the raw statement, the normalized text, the
//     redacted text, the parsed statement) — simple data flow from the parameter and from the named results of
//     Parser.HandleRawSQLQuery (read from sqlparser/ast_methods.go);
//   * CENSOR_HELPERS: the firewall's own methods called from there (logAllowedQuery, logDeniedQuery, ...): their
//     top-level guarded clauses (conjunctions of `p == nil`, `p != nil`, `p == ""`, `p != ""` over parameters) with
//     the log calls of each clause: level, format, and which parameter every argument / field value refers to and
//     whether it is printed with %T only;
//   * CENSOR_HANDLER_SITES: the log calls in the handlers' CheckQuery methods, same form.
// Whatever the reader does not understand is printed as CB_unknown / CA_unknown / CS_unknown and stops the proof
// (Proofs/CensorLog.v: sites_ok).  The same tables drive the replay of firewall runs on the model (c16fw.go) and the
// classification of the captured log entries by their message format.

import (
	"bytes"
	"fmt"
	"go/ast"
	"go/parser"
	"go/printer"
	"go/token"
	"os"
	"path/filepath"
	"reflect"
	"regexp"
	"runtime"
	"sort"
	"strings"

	acracensor "github.com/cossacklabs/acra/acra-censor"
)

func init() { generators["c16fwsites"] = c16fwEmitSites }

type c16fwArg struct {
	Src      string // Coq term of type csrc
	TypeOnly bool
}
type c16fwSite struct {
	Func  string
	Line  int
	Level string // Coq term of type clevel
	Code  int    // logrus level number
	Msg   string // format / first message literal
	Args  []c16fwArg
}
type c16fwClause struct {
	Guard   []string // Coq terms of type catom
	Sites   []c16fwSite
	Returns bool
}
type c16fwHelper struct {
	Name    string
	Arity   int
	Clauses []c16fwClause
}
type c16fwCall struct {
	Line   int
	Branch string
	Path   string
	Kind   string // log | helper | capture | ignore | handler | other
	Name   string
	Site   *c16fwSite
	Args   []string // csrc of each actual argument
}
type c16fwTables struct {
	File         string
	Calls        []c16fwCall
	Helpers      []c16fwHelper
	HandlerSites []c16fwSite
	ResultNames  []string
	Problems     []string
}

func c16fwCensorDir() string {
	f, _ := runtime.FuncForPC(reflect.ValueOf(acracensor.NewAcraCensor).Pointer()).FileLine(0)
	if f != "" {
		if _, err := os.Stat(f); err == nil {
			return filepath.Dir(f)
		}
	}
	repo := os.Getenv("VERIF_REPO")
	if repo == "" {
		repo = "/repo"
	}
	return filepath.Join(repo, "acra-censor")
}

var c16fwLevelRe = regexp.MustCompile(`^(Trace|Debug|Info|Print|Warn|Warning|Error|Fatal|Panic)(f|ln)?$`)

func c16fwLevel(name string) (string, int, bool) {
	m := c16fwLevelRe.FindStringSubmatch(name)
	if m == nil {
		return "", 0, false
	}
	switch m[1] {
	case "Trace":
		return "CL_trace", 6, true
	case "Debug":
		return "CL_debug", 5, true
	case "Info", "Print":
		return "CL_info", 4, true
	case "Warn", "Warning":
		return "CL_warning", 3, true
	case "Error":
		return "CL_error", 2, true
	case "Fatal":
		return "CL_fatal", 1, true
	}
	return "CL_panic", 0, true
}

func c16fwSrcText(fset *token.FileSet, n ast.Node) string {
	var b bytes.Buffer
	printer.Fprint(&b, fset, n)
	return strings.Join(strings.Fields(b.String()), " ")
}

// c16fwLogChain: is call a logrus-style log call?  Returns the With* calls of its receiver chain.
func c16fwLogChain(call *ast.CallExpr) (sel *ast.SelectorExpr, withs []*ast.CallExpr, ok bool) {
	s, isSel := call.Fun.(*ast.SelectorExpr)
	if !isSel {
		return nil, nil, false
	}
	if _, _, lv := c16fwLevel(s.Sel.Name); !lv {
		return nil, nil, false
	}
	x := s.X
	for {
		switch v := x.(type) {
		case *ast.CallExpr:
			ws, isSel := v.Fun.(*ast.SelectorExpr)
			if !isSel || !strings.HasPrefix(ws.Sel.Name, "With") {
				return nil, nil, false
			}
			withs = append(withs, v)
			x = ws.X
			continue
		case *ast.Ident:
			n := strings.ToLower(v.Name)
			return s, withs, n == "log" || n == "logrus" || strings.HasSuffix(n, "logger")
		case *ast.SelectorExpr:
			return s, withs, strings.HasSuffix(strings.ToLower(v.Sel.Name), "logger")
		}
		return nil, nil, false
	}
}

var c16fwSrcRank = map[string]int{"CS_none": 0, "CS_redacted": 2, "CS_normalized": 3, "CS_parsed": 4, "CS_raw": 5, "CS_unknown": 6}

func c16fwJoin(a, b string) string {
	ra, rb := c16fwSrcRank[a], c16fwSrcRank[b]
	if strings.HasPrefix(a, "(CS_param") {
		ra = 1
	}
	if strings.HasPrefix(b, "(CS_param") {
		rb = 1
	}
	if ra == 1 && rb == 1 && a != b {
		return "CS_unknown"
	}
	if rb > ra {
		return b
	}
	return a
}

// c16fwSrcOf: which tracked value does an expression refer to (join over its identifiers)
func c16fwSrcOf(e ast.Expr, env map[string]string) string {
	src := "CS_none"
	ast.Inspect(e, func(n ast.Node) bool {
		switch v := n.(type) {
		case *ast.SelectorExpr:
			// only the operand of a selector is a variable reference
			ast.Inspect(v.X, func(m ast.Node) bool {
				if id, ok := m.(*ast.Ident); ok {
					if s, ok := env[id.Name]; ok {
						src = c16fwJoin(src, s)
					}
				}
				return true
			})
			return false
		case *ast.Ident:
			if s, ok := env[v.Name]; ok {
				src = c16fwJoin(src, s)
			}
		}
		return true
	})
	return src
}

func c16fwVerbs(format string) []byte {
	var vs []byte
	for i := 0; i < len(format); i++ {
		if format[i] != '%' {
			continue
		}
		i++
		for i < len(format) && strings.IndexByte("+-# 0123456789.*[]", format[i]) >= 0 {
			i++
		}
		if i < len(format) && format[i] != '%' {
			vs = append(vs, format[i])
		}
	}
	return vs
}

func c16fwStrLit(e ast.Expr) (string, bool) {
	switch v := e.(type) {
	case *ast.BasicLit:
		if v.Kind == token.STRING {
			s := v.Value
			if len(s) >= 2 {
				return strings.ReplaceAll(s[1:len(s)-1], `\"`, `"`), true
			}
		}
	case *ast.BinaryExpr:
		a, ok1 := c16fwStrLit(v.X)
		b, ok2 := c16fwStrLit(v.Y)
		if ok1 && ok2 {
			return a + b, true
		}
	}
	return "", false
}

// c16fwSiteOf: the log call as a site: level, message, the tracked values its arguments and fields refer to
func c16fwSiteOf(fset *token.FileSet, fn string, call *ast.CallExpr, env map[string]string) (*c16fwSite, bool) {
	sel, withs, ok := c16fwLogChain(call)
	if !ok {
		return nil, false
	}
	lv, code, _ := c16fwLevel(sel.Sel.Name)
	s := &c16fwSite{Func: fn, Line: fset.Position(call.Pos()).Line, Level: lv, Code: code}
	args := call.Args
	var verbs []byte
	isF := strings.HasSuffix(sel.Sel.Name, "f")
	if len(args) > 0 {
		if m, ok := c16fwStrLit(args[0]); ok {
			s.Msg = m
			if isF {
				verbs = c16fwVerbs(m)
			}
			args = args[1:]
		} else if isF {
			// a format that is not a literal: the argument itself is the message
			s.Msg = "?"
		}
	}
	for i, a := range args {
		src := c16fwSrcOf(a, env)
		if src == "CS_none" {
			continue
		}
		s.Args = append(s.Args, c16fwArg{src, isF && i < len(verbs) && verbs[i] == 'T'})
	}
	for _, w := range withs {
		for _, a := range w.Args {
			if src := c16fwSrcOf(a, env); src != "CS_none" {
				s.Args = append(s.Args, c16fwArg{src, false})
			}
		}
	}
	return s, true
}

func c16fwParams(fd *ast.FuncDecl) []string {
	var ps []string
	for _, f := range fd.Type.Params.List {
		for _, n := range f.Names {
			ps = append(ps, n.Name)
		}
	}
	return ps
}

func c16fwRecvName(fd *ast.FuncDecl) (name, typ string) {
	if fd.Recv == nil || len(fd.Recv.List) == 0 {
		return "", ""
	}
	f := fd.Recv.List[0]
	if len(f.Names) > 0 {
		name = f.Names[0].Name
	}
	t := f.Type
	if st, ok := t.(*ast.StarExpr); ok {
		t = st.X
	}
	if id, ok := t.(*ast.Ident); ok {
		typ = id.Name
	}
	return
}

// c16fwResultNames: the named results of Parser.HandleRawSQLQuery
func c16fwResultNames() []string {
	fset := token.NewFileSet()
	f, err := parser.ParseFile(fset, filepath.Join(sqlparserDir(), "ast_methods.go"), nil, 0)
	if err != nil {
		return nil
	}
	for _, d := range f.Decls {
		fd, ok := d.(*ast.FuncDecl)
		if !ok || fd.Name.Name != "HandleRawSQLQuery" || fd.Type.Results == nil {
			continue
		}
		var ns []string
		for _, r := range fd.Type.Results.List {
			if len(r.Names) == 0 {
				ns = append(ns, "")
			}
			for _, n := range r.Names {
				ns = append(ns, n.Name)
			}
		}
		return ns
	}
	return nil
}

func c16fwResultSrc(name string) string {
	l := strings.ToLower(name)
	switch {
	case strings.Contains(l, "normalized"):
		return "CS_normalized"
	case strings.Contains(l, "redacted"):
		return "CS_redacted"
	case strings.Contains(l, "parsed"):
		return "CS_parsed"
	case l == "err":
		return "CS_none"
	}
	return "CS_unknown"
}

// c16fwFlow: flow-insensitive propagation of the tracked values through the assignments of a function body
func c16fwFlow(body *ast.BlockStmt, env map[string]string, results []string) {
	for round := 0; round < 4; round++ {
		ast.Inspect(body, func(n ast.Node) bool {
			as, ok := n.(*ast.AssignStmt)
			if !ok {
				return true
			}
			set := func(lhs ast.Expr, s string) {
				if id, ok := lhs.(*ast.Ident); ok && id.Name != "_" {
					if old, ok := env[id.Name]; ok {
						s = c16fwJoin(old, s)
					}
					if s != "CS_none" || env[id.Name] != "" {
						env[id.Name] = s
					}
				}
			}
			if len(as.Rhs) == 1 {
				if call, ok := as.Rhs[0].(*ast.CallExpr); ok {
					if sel, ok := call.Fun.(*ast.SelectorExpr); ok {
						if sel.Sel.Name == "HandleRawSQLQuery" && len(call.Args) == 1 && len(as.Lhs) == len(results) {
							for i, l := range as.Lhs {
								if c16fwSrcOf(call.Args[0], env) == "CS_none" {
									set(l, "CS_none")
								} else {
									set(l, c16fwResultSrc(results[i]))
								}
							}
							return true
						}
						if sel.Sel.Name == "CheckQuery" {
							// (bool, error) of a handler: a verdict and one of the package's constant errors
							return true
						}
					}
				}
				s := c16fwSrcOf(as.Rhs[0], env)
				for _, l := range as.Lhs {
					set(l, s)
				}
				return true
			}
			for i, l := range as.Lhs {
				if i < len(as.Rhs) {
					set(l, c16fwSrcOf(as.Rhs[i], env))
				}
			}
			return true
		})
	}
}

func c16fwBranch(path []string, afterLoop bool) string {
	has := func(i int, pre string, subs ...string) bool {
		if i >= len(path) || !strings.HasPrefix(path[i], pre) {
			return false
		}
		for _, s := range subs {
			if !strings.Contains(path[i], s) {
				return false
			}
		}
		return true
	}
	switch {
	case len(path) == 0 && !afterLoop:
		return "CB_entry"
	case len(path) == 0:
		return "CB_end"
	case has(0, "if{", "== sqlparser.ErrQuerySyntaxError}") && !afterLoop:
		switch {
		case len(path) == 1:
			return "CB_unparsed"
		case len(path) == 2 && has(1, "if{", ".ignoreParseError}") && !strings.Contains(path[1], "!"):
			return "CB_unparsed_ignored"
		case len(path) == 2 && has(1, "else{", ".ignoreParseError}") && !strings.Contains(path[1], "!"):
			return "CB_unparsed_denied"
		}
	case has(0, "range{", ".handlers}"):
		switch {
		case len(path) == 1:
			return "CB_check"
		case len(path) == 2 && has(1, "if{", ":= handler.(*handlers.QueryCaptureHandler); ok}"):
			return "CB_capture"
		case len(path) == 2 && has(1, "if{", ":= handler.(*handlers.QueryIgnoreHandler); ok}"):
			return "CB_ignore_check"
		case len(path) == 3 && has(1, "if{", ":= handler.(*handlers.QueryIgnoreHandler); ok}") && path[2] == "if{!continueHandling}":
			return "CB_ignore_match"
		case len(path) == 2 && path[1] == "if{err != nil}":
			return "CB_deny"
		case len(path) == 2 && path[1] == "if{!continueHandling}":
			return "CB_allow_stop"
		}
	}
	return "CB_unknown"
}

// c16fwAtoms: a helper's guard as a conjunction of tests on its parameters
func c16fwAtoms(e ast.Expr, params []string) []string {
	idx := func(x ast.Expr) int {
		if id, ok := x.(*ast.Ident); ok {
			for i, p := range params {
				if p == id.Name {
					return i
				}
			}
		}
		return -1
	}
	switch v := e.(type) {
	case *ast.ParenExpr:
		return c16fwAtoms(v.X, params)
	case *ast.BinaryExpr:
		if v.Op == token.LAND {
			return append(c16fwAtoms(v.X, params), c16fwAtoms(v.Y, params)...)
		}
		if v.Op == token.EQL || v.Op == token.NEQ {
			p := idx(v.X)
			if p >= 0 {
				if id, ok := v.Y.(*ast.Ident); ok && id.Name == "nil" {
					if v.Op == token.EQL {
						return []string{fmt.Sprintf("(CA_nil %d)", p)}
					}
					return []string{fmt.Sprintf("(CA_nonnil %d)", p)}
				}
				if s, ok := c16fwStrLit(v.Y); ok && s == "" {
					if v.Op == token.EQL {
						return []string{fmt.Sprintf("(CA_empty %d)", p)}
					}
					return []string{fmt.Sprintf("(CA_nonempty %d)", p)}
				}
			}
		}
	}
	return []string{"CA_unknown"}
}

func c16fwLogCallsIn(fset *token.FileSet, fn string, n ast.Node, env map[string]string) []c16fwSite {
	var sites []c16fwSite
	ast.Inspect(n, func(m ast.Node) bool {
		if call, ok := m.(*ast.CallExpr); ok {
			if s, ok := c16fwSiteOf(fset, fn, call, env); ok {
				sites = append(sites, *s)
				return false
			}
		}
		return true
	})
	return sites
}

func c16fwHelperOf(fset *token.FileSet, fd *ast.FuncDecl) c16fwHelper {
	params := c16fwParams(fd)
	env := map[string]string{}
	for i, p := range params {
		env[p] = fmt.Sprintf("(CS_param %d)", i)
	}
	c16fwFlow(fd.Body, env, nil)
	h := c16fwHelper{Name: fd.Name.Name, Arity: len(params)}
	for _, st := range fd.Body.List {
		switch v := st.(type) {
		case *ast.IfStmt:
			sites := c16fwLogCallsIn(fset, fd.Name.Name, v, env)
			if len(sites) == 0 {
				continue
			}
			cl := c16fwClause{Sites: sites}
			cl.Guard = c16fwAtoms(v.Cond, params)
			if v.Init != nil || v.Else != nil {
				cl.Guard = []string{"CA_unknown"}
			}
			for _, inner := range v.Body.List {
				switch inner.(type) {
				case *ast.ExprStmt, *ast.ReturnStmt:
				default:
					cl.Guard = []string{"CA_unknown"} // nested control flow inside a clause
				}
			}
			if n := len(v.Body.List); n > 0 {
				_, cl.Returns = v.Body.List[n-1].(*ast.ReturnStmt)
			}
			h.Clauses = append(h.Clauses, cl)
		case *ast.ReturnStmt:
			h.Clauses = append(h.Clauses, c16fwClause{Returns: true})
		case *ast.ExprStmt:
			if sites := c16fwLogCallsIn(fset, fd.Name.Name, v, env); len(sites) > 0 {
				h.Clauses = append(h.Clauses, c16fwClause{Sites: sites})
			}
		default:
			if sites := c16fwLogCallsIn(fset, fd.Name.Name, st, env); len(sites) > 0 {
				h.Clauses = append(h.Clauses, c16fwClause{Guard: []string{"CA_unknown"}, Sites: sites})
			}
		}
	}
	return h
}

var c16fwCache *c16fwTables

func c16fwLoadSites() *c16fwTables {
	if c16fwCache != nil {
		return c16fwCache
	}
	t := &c16fwTables{}
	dir := c16fwCensorDir()
	t.File = filepath.Join(dir, "acra-censor_implementation.go")
	t.ResultNames = c16fwResultNames()
	if len(t.ResultNames) != 4 {
		t.Problems = append(t.Problems, fmt.Sprintf("HandleRawSQLQuery results not understood: %v", t.ResultNames))
	}
	fset := token.NewFileSet()
	f, err := parser.ParseFile(fset, t.File, nil, 0)
	if err != nil {
		t.Problems = append(t.Problems, err.Error())
		c16fwCache = t
		return t
	}
	methods := map[string]*ast.FuncDecl{}
	var entry *ast.FuncDecl
	for _, d := range f.Decls {
		if fd, ok := d.(*ast.FuncDecl); ok && fd.Body != nil {
			if _, typ := c16fwRecvName(fd); typ == "AcraCensor" {
				methods[fd.Name.Name] = fd
				if fd.Name.Name == "HandleQuery" {
					entry = fd
				}
			}
		}
	}
	if entry == nil {
		t.Problems = append(t.Problems, "AcraCensor.HandleQuery not found")
		c16fwCache = t
		return t
	}
	recv, _ := c16fwRecvName(entry)
	params := c16fwParams(entry)
	env := map[string]string{}
	if len(params) == 1 {
		env[params[0]] = "CS_raw"
	} else {
		t.Problems = append(t.Problems, "HandleQuery parameters not understood")
	}
	c16fwFlow(entry.Body, env, t.ResultNames)
	used := map[string]bool{}
	afterLoop := false
	var visitStmts func(list []ast.Stmt, path []string)
	visitExpr := func(n ast.Node, path []string) {
		if n == nil || reflect.ValueOf(n).IsNil() {
			return
		}
		ast.Inspect(n, func(m ast.Node) bool {
			call, ok := m.(*ast.CallExpr)
			if !ok {
				return true
			}
			c := c16fwCall{Line: fset.Position(call.Pos()).Line, Branch: c16fwBranch(path, afterLoop), Path: strings.Join(path, " / ")}
			for _, a := range call.Args {
				c.Args = append(c.Args, c16fwSrcOf(a, env))
			}
			tainted := false
			for _, a := range c.Args {
				if a != "CS_none" {
					tainted = true
				}
			}
			if s, ok := c16fwSiteOf(fset, "HandleQuery", call, env); ok {
				c.Kind, c.Site, c.Args = "log", s, nil
				t.Calls = append(t.Calls, c)
				return false
			}
			sel, isSel := call.Fun.(*ast.SelectorExpr)
			if isSel {
				if id, ok := sel.X.(*ast.Ident); ok && id.Name == recv && methods[sel.Sel.Name] != nil {
					c.Kind, c.Name = "helper", sel.Sel.Name
					used[sel.Sel.Name] = true
					t.Calls = append(t.Calls, c)
					return true
				}
				if sel.Sel.Name == "CheckQuery" {
					c.Name = c16fwSrcText(fset, sel.X)
					switch {
					case strings.Contains(c.Path, "QueryCaptureHandler"):
						c.Kind = "capture"
					case strings.Contains(c.Path, "QueryIgnoreHandler"):
						c.Kind = "ignore"
					default:
						c.Kind = "handler"
					}
					t.Calls = append(t.Calls, c)
					return true
				}
			}
			if tainted {
				c.Kind, c.Name = "other", c16fwSrcText(fset, call.Fun)
				t.Calls = append(t.Calls, c)
			}
			return true
		})
	}
	visitStmts = func(list []ast.Stmt, path []string) {
		for _, st := range list {
			switch v := st.(type) {
			case *ast.IfStmt:
				cond := c16fwSrcText(fset, v.Cond)
				if v.Init != nil {
					visitExpr(v.Init, path)
					cond = c16fwSrcText(fset, v.Init) + "; " + cond
				}
				visitExpr(v.Cond, path)
				visitStmts(v.Body.List, append(append([]string{}, path...), "if{"+cond+"}"))
				switch e := v.Else.(type) {
				case *ast.BlockStmt:
					visitStmts(e.List, append(append([]string{}, path...), "else{"+cond+"}"))
				case *ast.IfStmt:
					visitStmts([]ast.Stmt{e}, append(append([]string{}, path...), "else{"+cond+"}"))
				}
			case *ast.RangeStmt:
				visitExpr(v.X, path)
				visitStmts(v.Body.List, append(append([]string{}, path...), "range{"+c16fwSrcText(fset, v.X)+"}"))
				if len(path) == 0 {
					afterLoop = true
				}
			case *ast.ForStmt:
				visitStmts(v.Body.List, append(append([]string{}, path...), "for{"+c16fwSrcText(fset, v.Cond)+"}"))
				if len(path) == 0 {
					afterLoop = true
				}
			case *ast.BlockStmt:
				visitStmts(v.List, path)
			case *ast.SwitchStmt, *ast.TypeSwitchStmt, *ast.SelectStmt, *ast.GoStmt, *ast.DeferStmt, *ast.LabeledStmt:
				visitExpr(st, append(append([]string{}, path...), "unknown{"+fmt.Sprintf("%T", st)+"}"))
			default:
				visitExpr(st, path)
			}
		}
	}
	visitStmts(entry.Body.List, nil)
	var names []string
	for n := range used {
		names = append(names, n)
	}
	sort.Strings(names)
	for _, n := range names {
		t.Helpers = append(t.Helpers, c16fwHelperOf(fset, methods[n]))
	}
	// the handlers' CheckQuery methods
	hdir := filepath.Join(dir, "handlers")
	ents, _ := os.ReadDir(hdir)
	for _, e := range ents {
		if !strings.HasSuffix(e.Name(), ".go") || strings.HasSuffix(e.Name(), "_test.go") {
			continue
		}
		hf, err := parser.ParseFile(fset, filepath.Join(hdir, e.Name()), nil, 0)
		if err != nil {
			t.Problems = append(t.Problems, err.Error())
			continue
		}
		for _, d := range hf.Decls {
			fd, ok := d.(*ast.FuncDecl)
			if !ok || fd.Body == nil || fd.Name.Name != "CheckQuery" {
				continue
			}
			_, typ := c16fwRecvName(fd)
			henv := map[string]string{}
			for i, p := range c16fwParams(fd) {
				henv[p] = fmt.Sprintf("(CS_param %d)", i)
			}
			c16fwFlow(fd.Body, henv, nil)
			t.HandlerSites = append(t.HandlerSites, c16fwLogCallsIn(fset, typ+".CheckQuery", fd.Body, henv)...)
		}
	}
	c16fwCache = t
	return t
}

// c16fwComment: text that is safe inside a Coq comment
func c16fwComment(s string) string {
	return strings.ReplaceAll(strings.ReplaceAll(strings.ReplaceAll(s, "(*", "( *"), "*)", "* )"), "\"", "'")
}

func c16fwCoqString(s string) string { return "\"" + strings.ReplaceAll(s, "\"", "\"\"") + "\"" }

func (s *c16fwSite) coq() string {
	var as []string
	for _, a := range s.Args {
		as = append(as, fmt.Sprintf("mkLA %s %v", a.Src, a.TypeOnly))
	}
	return fmt.Sprintf("mkLS %d %s %s [%s]", s.Line, s.Level, c16fwCoqString(s.Msg), strings.Join(as, "; "))
}

func c16fwEmitSites() {
	t := c16fwLoadSites()
	var sb strings.Builder
	sb.WriteString("(* GENERATED by `acra-vh c16fwsites` from acra-censor/acra-censor_implementation.go, acra-censor/handlers/*.go and\n")
	sb.WriteString("   sqlparser/ast_methods.go (go/ast). Do not edit. *)\n")
	sb.WriteString("From Coq Require Import List NArith String.\nImport ListNotations.\nLocal Open Scope string_scope.\n\n")
	sb.WriteString("(* which of HandleQuery's values an expression refers to *)\n")
	sb.WriteString("Inductive csrc := CS_none | CS_raw | CS_normalized | CS_redacted | CS_parsed | CS_param (i : nat) | CS_unknown.\n")
	sb.WriteString("Inductive clevel := CL_panic | CL_fatal | CL_error | CL_warning | CL_info | CL_debug | CL_trace.\n")
	sb.WriteString("Record clogarg := mkLA { la_src : csrc; la_type_only : bool (* printed with %T *) }.\n")
	sb.WriteString("Record clogsite := mkLS { ls_line : N; ls_level : clevel; ls_msg : string; ls_args : list clogarg }.\n")
	sb.WriteString("Inductive catom := CA_nil (p : nat) | CA_nonnil (p : nat) | CA_empty (p : nat) | CA_nonempty (p : nat) | CA_unknown.\n")
	sb.WriteString("Record cclause := mkCC { cc_guard : list catom; cc_sites : list clogsite; cc_returns : bool }.\n")
	sb.WriteString("Record chelper := mkCH { ch_name : string; ch_arity : nat; ch_clauses : list cclause }.\n")
	sb.WriteString("Inductive cbranch := CB_entry | CB_unparsed | CB_unparsed_ignored | CB_unparsed_denied | CB_capture | CB_ignore_check\n")
	sb.WriteString("  | CB_ignore_match | CB_check | CB_deny | CB_allow_stop | CB_end | CB_unknown.\n")
	sb.WriteString("Inductive ccallee := CK_log (s : clogsite) | CK_helper (name : string) | CK_check_capture | CK_check_ignore | CK_check_handler\n")
	sb.WriteString("  | CK_other (name : string).\n")
	sb.WriteString("Record ccall := mkCall { call_line : N; call_branch : cbranch; call_callee : ccallee; call_args : list csrc }.\n\n")
	fmt.Fprintf(&sb, "(* named results of Parser.HandleRawSQLQuery: %s *)\n", strings.Join(t.ResultNames, ", "))
	fmt.Fprintf(&sb, "Definition CENSOR_SITES_UNDERSTOOD : bool := %v.\n", len(t.Problems) == 0)
	for _, p := range t.Problems {
		fmt.Fprintf(&sb, "(* problem: %s *)\n", c16fwComment(p))
	}
	sb.WriteString("\n(* AcraCensor.HandleQuery: calls in source order *)\nDefinition CENSOR_HANDLE_QUERY : list ccall := [\n")
	for i, c := range t.Calls {
		var callee string
		switch c.Kind {
		case "log":
			callee = "(CK_log (" + c.Site.coq() + "))"
		case "helper":
			callee = "(CK_helper " + c16fwCoqString(c.Name) + ")"
		case "capture":
			callee = "CK_check_capture"
		case "ignore":
			callee = "CK_check_ignore"
		case "handler":
			callee = "CK_check_handler"
		default:
			callee = "(CK_other " + c16fwCoqString(c.Name) + ")"
		}
		sep := ";"
		if i == len(t.Calls)-1 {
			sep = ""
		}
		fmt.Fprintf(&sb, "  (* line %d  %s *)\n  mkCall %d %s %s [%s]%s\n", c.Line, c16fwComment(c.Path), c.Line, c.Branch, callee, strings.Join(c.Args, "; "), sep)
	}
	sb.WriteString("].\n\n(* the firewall's own methods called from HandleQuery *)\nDefinition CENSOR_HELPERS : list chelper := [\n")
	for i, h := range t.Helpers {
		fmt.Fprintf(&sb, "  mkCH %s %d [\n", c16fwCoqString(h.Name), h.Arity)
		for j, cl := range h.Clauses {
			var ss []string
			for k := range cl.Sites {
				ss = append(ss, cl.Sites[k].coq())
			}
			sep := ";"
			if j == len(h.Clauses)-1 {
				sep = ""
			}
			fmt.Fprintf(&sb, "    mkCC [%s] [%s] %v%s\n", strings.Join(cl.Guard, "; "), strings.Join(ss, ";\n      "), cl.Returns, sep)
		}
		sep := ";"
		if i == len(t.Helpers)-1 {
			sep = ""
		}
		sb.WriteString("  ]" + sep + "\n")
	}
	sb.WriteString("].\n\n(* log calls inside the handlers' CheckQuery methods (parameter 0 = the statement text, 1 = the parsed statement) *)\n")
	sb.WriteString("Definition CENSOR_HANDLER_SITES : list (string * clogsite) := [\n")
	for i := range t.HandlerSites {
		s := &t.HandlerSites[i]
		sep := ";"
		if i == len(t.HandlerSites)-1 {
			sep = ""
		}
		fmt.Fprintf(&sb, "  (%s, %s)%s\n", c16fwCoqString(s.Func), s.coq(), sep)
	}
	sb.WriteString("].\n")
	fmt.Print(sb.String())
}
