package main

// C05, domain c05: the REAL AcraCensor (built from generated YAML through LoadConfiguration) and the
// REAL common.CheckTableNamesMatch against Model/Censor.v, plus the property's own oracle:
//   * the verdict is identical for formatting variants of a statement (keyword case, whitespace,
//     trailing semicolon, margin comments);
//   * a deny rule made from a statement (its text, one of its tables, a pattern obtained by
//     generalising it) rejects the statement; a statement that differs outside the generalised
//     positions is not caught by the pattern;
//   * what the allow rules in front of denyall do not admit is rejected;
//   * unparsable statements are rejected unless ignore_parse_error is set;
//   * table rules on FROM trees (scenario tableTrees + statement kind select-tree): nested / parenthesised
//     joins and table lists on the left and on the right of a join, table sets that hold only some of the
//     tree's tables: `deny tables` rejects iff one table of the tree is listed, `allow tables` + denyall admits
//     iff all are; every evaluation of the table rule the chain makes is replayed on the model (the model
//     evaluates the rule itself inside OpCensor, and on its own as OpTables) and judged from the generator's
//     own list of the tables of the tree.

import (
	"fmt"
	"sort"
	"strings"

	"acra-vh/vh"

	acracensor "github.com/cossacklabs/acra/acra-censor"
	"github.com/cossacklabs/acra/acra-censor/common"
	"github.com/cossacklabs/acra/acra-censor/handlers"
	"github.com/cossacklabs/acra/sqlparser"
)

func init() { register("c05", "Model.RunCensor", runC05) }

// ---------- statements as token lists ----------

type c5tok struct {
	s  string
	kw bool // SQL keyword: case may vary
}

type c5stmt struct {
	toks     []c5tok
	kind     string
	visible  []string // tables CheckTableNamesMatch is documented to look at (FROM list / INSERT target)
	nested   []string // tables read inside sub-selects / union arms / INSERT ... SELECT
	lits     []int    // token indices of literals
	whereAt  int      // token index of WHERE (-1: none); the clause runs to the end
	parsable bool
	subOp    bool   // the FROM tree has a sub-select operand (never a listed table)
	shape    string // FROM tree statements: the intended tree (c5tnode.shape)
}

func kw(s string) c5tok { return c5tok{s, true} }
func id(s string) c5tok { return c5tok{s, false} }
func c5lit(r *vh.Rng) string {
	if r.Bool() {
		return fmt.Sprintf("%d", r.Intn(1000))
	}
	return "'" + []string{"x", "secret", "a b", "Z9", "o''k"}[r.Intn(5)] + "'"
}

var c5tables = []string{"t0", "t1", "t2", "t3", "secrets", "plain"}
var c5cols = []string{"a", "b", "c", "n"}

func (s *c5stmt) add(ts ...c5tok) { s.toks = append(s.toks, ts...) }
func (s *c5stmt) lit(r *vh.Rng) {
	s.lits = append(s.lits, len(s.toks))
	s.add(id(c5lit(r)))
}
func (s *c5stmt) where(r *vh.Rng, col string) {
	s.whereAt = len(s.toks)
	s.add(kw("where"), id(col), id("="))
	s.lit(r)
	if r.Bool() {
		s.add(kw("and"), id(c5cols[r.Intn(4)]), id([]string{"=", "<", ">", "!="}[r.Intn(4)]))
		s.lit(r)
	}
}

func genStmt(r *vh.Rng, kind int) *c5stmt {
	s := &c5stmt{whereAt: -1, parsable: true}
	t := func() string { return c5tables[r.Intn(len(c5tables))] }
	c := func() string { return c5cols[r.Intn(len(c5cols))] }
	t1, t2 := t(), t()
	switch kind {
	case 0:
		s.kind = "select"
		s.add(kw("select"), id(c()), id(","), id(c()), kw("from"), id(t1))
		s.visible = []string{t1}
		if r.Intn(4) != 0 {
			s.where(r, c())
		}
	case 1:
		s.kind = "select-join"
		s.add(kw("select"), id(t1+".a"), kw("from"), id(t1), kw([]string{"join", "left join", "inner join"}[r.Intn(3)]), id(t2), kw("on"), id(t1+".a"), id("="), id(t2+".b"))
		s.visible = []string{t1, t2}
		if r.Bool() {
			s.where(r, t1+".c")
		}
	case 2:
		s.kind = "select-list"
		s.add(kw("select"), id(c()), kw("from"), id(t1), id(","), id(t2))
		s.visible = []string{t1, t2}
		if r.Bool() {
			s.where(r, c())
		}
	case 3:
		s.kind = "select-paren"
		t3 := t()
		s.add(kw("select"), id(c()), kw("from"), id(t3), id(","), id("("), id(t1), id(","), id(t2), id(")"))
		s.visible = []string{t3, t1, t2}
	case 4:
		s.kind = "select-alias"
		s.add(kw("select"), id("x."+c()), kw("from"), id(t1), kw("as"), id("x"))
		s.visible = []string{t1}
		if r.Bool() {
			s.where(r, "x."+c())
		}
	case 5:
		s.kind = "select-subfrom"
		s.add(kw("select"), id("s.a"), kw("from"), id("("), kw("select"), id("a"), kw("from"), id(t1), id(")"), kw("as"), id("s"))
		s.nested = []string{t1}
		if r.Bool() {
			s.add(id(","), id(t2))
			s.visible = []string{t2}
		}
	case 6:
		s.kind = "select-subwhere"
		s.add(kw("select"), id(c()), kw("from"), id(t1), kw("where"), id("a"), kw("in"), id("("), kw("select"), id("a"), kw("from"), id(t2), id(")"))
		s.visible = []string{t1}
		s.nested = []string{t2}
	case 7:
		s.kind = "union"
		s.add(kw("select"), id("a"), kw("from"), id(t1), kw([]string{"union", "union all"}[r.Intn(2)]), kw("select"), id("a"), kw("from"), id(t2))
		s.nested = []string{t1, t2}
	case 8:
		s.kind = "insert"
		s.add(kw("insert"), kw("into"), id(t1), id("("), id("a"), id(","), id("b"), id(")"), kw("values"), id("("))
		s.lit(r)
		s.add(id(","))
		s.lit(r)
		s.add(id(")"))
		s.visible = []string{t1}
	case 9:
		s.kind = "insert-select"
		s.add(kw("insert"), kw("into"), id(t1), id("("), id("a"), id(")"), kw("select"), id("a"), kw("from"), id(t2))
		s.visible = []string{t1}
		s.nested = []string{t2}
	case 10:
		s.kind = "update"
		s.add(kw("update"), id(t1), kw("set"), id(c()), id("="))
		s.lit(r)
		s.where(r, c())
	case 11:
		s.kind = "delete"
		s.add(kw("delete"), kw("from"), id(t1))
		if r.Bool() {
			s.where(r, c())
		}
	case 12:
		top, name := c5tBuild(r, r.Intn(c5tShapes))
		return c5tStmt(r, top, name)
	default:
		s.kind = "unparsable"
		s.parsable = false
		switch r.Intn(4) {
		case 0:
			s.add(id("selec"), id("a"), id("frm"), id(t1))
		case 1:
			s.add(kw("select"), id("a"), kw("from"), id("\""+t1+"\""), kw("where"))
		case 2:
			s.add(id("drop the"), id(t1), id("(("))
		default:
			s.add(kw("select"), kw("from"), kw("where"), id("=")) // keywords only
		}
	}
	return s
}

// render: opt bits 0-1 keyword case (lower, upper, mixed), bit 2 wide whitespace, bit 3 trailing ';',
// bit 4 leading comment, bit 5 trailing comment
func (s *c5stmt) render(opt int) string {
	var parts []string
	for i, t := range s.toks {
		x := t.s
		if t.kw {
			switch opt & 3 {
			case 1:
				x = strings.ToUpper(x)
			case 2, 3:
				b := []byte(x)
				for j := range b {
					if (i+j)%2 == 0 && b[j] >= 'a' && b[j] <= 'z' {
						b[j] -= 32
					}
				}
				x = string(b)
			}
		}
		parts = append(parts, x)
	}
	sep := " "
	if opt&4 != 0 {
		sep = " \t\n  "
	}
	q := strings.Join(parts, sep)
	if opt&4 != 0 {
		q = "  " + q + " \n"
	}
	if opt&8 != 0 {
		q += ";"
	}
	if opt&16 != 0 {
		q = "/* lead */ " + q
	}
	if opt&32 != 0 {
		q += " /* trail */"
	}
	return q
}

// pattern obtained from the statement by generalising literals (mask over s.lits) or the WHERE clause
func (s *c5stmt) pattern(mask int, wholeWhere bool) string {
	var parts []string
	for i, t := range s.toks {
		if wholeWhere && s.whereAt >= 0 && i >= s.whereAt {
			parts = append(parts, "%%WHERE%%")
			break
		}
		x := t.s
		for k, li := range s.lits {
			if li == i && mask&(1<<k) != 0 {
				x = "%%VALUE%%"
			}
		}
		parts = append(parts, x)
	}
	return strings.Join(parts, " ")
}

// ---------- FROM trees: nested / parenthesised joins and table lists ----------

type c5tnode struct {
	kind  int    // 0 table, 1 join, 2 parenthesised list, 3 sub-select operand
	table string // kind 0: the table; kind 3: the table read inside the sub-select
	alias string
	join  string // kind 1: join keyword(s)
	on    bool   // kind 1: has an ON condition
	l, r  *c5tnode
	es    []*c5tnode
}

var c5tInner = []string{"join", "inner join", "cross join"}
var c5tOuter = []string{"left join", "right join", "left outer join"}

func c5tLeaf(t string) *c5tnode        { return &c5tnode{kind: 0, table: t} }
func c5tParen(es ...*c5tnode) *c5tnode { return &c5tnode{kind: 2, es: es} }

// c5tJoin: a join of l and r with a random join keyword that is legal for the operands
func c5tJoin(r *vh.Rng, l, rt *c5tnode) *c5tnode {
	n := &c5tnode{kind: 1, l: l, r: rt, on: true}
	switch {
	case rt.kind == 1: // a join as right operand WITHOUT parentheses: only an outer join takes a table_reference there
		n.join = c5tOuter[r.Intn(len(c5tOuter))]
		if rt.join != "natural join" {
			rt.on = true // `a left join b join c on P`: the parser gives the only ON to the inner join and fails
		}
	default:
		switch r.Intn(8) {
		case 0, 1, 2:
			n.join = c5tOuter[r.Intn(len(c5tOuter))]
		case 3:
			n.join = "natural join"
			n.on = false
		case 4:
			n.join = "straight_join"
		default:
			n.join = c5tInner[r.Intn(len(c5tInner))]
			n.on = r.Intn(4) != 0
		}
	}
	return n
}

func c5perm(r *vh.Rng, n int) []int {
	p := make([]int, n)
	for i := range p {
		j := r.Intn(i + 1)
		p[i] = p[j]
		p[j] = i
	}
	return p
}

// tables the FROM tree shows to the table rule (left to right), tables read inside sub-select operands
func (n *c5tnode) leaves(vis, nested *[]string, subs *int) {
	switch n.kind {
	case 0:
		*vis = append(*vis, n.table)
	case 1:
		n.l.leaves(vis, nested, subs)
		n.r.leaves(vis, nested, subs)
	case 2:
		for _, x := range n.es {
			x.leaves(vis, nested, subs)
		}
	default:
		*nested = append(*nested, n.table)
		*subs++
	}
}

func (n *c5tnode) first() string {
	switch n.kind {
	case 1:
		return n.l.first()
	case 2:
		return n.es[0].first()
	}
	if n.alias != "" {
		return n.alias
	}
	return n.table
}

func (n *c5tnode) shape() string {
	switch n.kind {
	case 0:
		return n.table
	case 1:
		return "J(" + n.l.shape() + "," + n.r.shape() + ")"
	case 2:
		var xs []string
		for _, x := range n.es {
			xs = append(xs, x.shape())
		}
		return "P(" + strings.Join(xs, ",") + ")"
	}
	return "S"
}

// the same notation for what the REAL parser built
func c5astShape(e sqlparser.TableExpr) string {
	switch t := e.(type) {
	case *sqlparser.AliasedTableExpr:
		if _, ok := t.Expr.(*sqlparser.Subquery); ok {
			return "S"
		}
		return sqlparser.String(t.Expr)
	case *sqlparser.JoinTableExpr:
		return "J(" + c5astShape(t.LeftExpr) + "," + c5astShape(t.RightExpr) + ")"
	case *sqlparser.ParenTableExpr:
		var xs []string
		for _, x := range t.Exprs {
			xs = append(xs, c5astShape(x))
		}
		return "P(" + strings.Join(xs, ",") + ")"
	}
	return "?"
}

func (n *c5tnode) emit(s *c5stmt) {
	switch n.kind {
	case 0:
		s.add(id(n.table))
		if n.alias != "" {
			s.add(kw("as"), id(n.alias))
		}
	case 1:
		n.l.emit(s)
		s.add(kw(n.join))
		n.r.emit(s)
		if n.on {
			s.add(kw("on"), id(n.l.first()+".a"), id("="), id(n.r.first()+".b"))
		}
	case 2:
		s.add(id("("))
		for i, x := range n.es {
			if i > 0 {
				s.add(id(","))
			}
			x.emit(s)
		}
		s.add(id(")"))
	default:
		s.add(id("("), kw("select"), id("a"), kw("from"), id(n.table), id(")"), kw("as"), id(n.alias))
	}
}

// c5tShapes structured shapes + one random tree; A..E are distinct tables
const c5tShapes = 21

var c5tShapeNames = [c5tShapes]string{
	"right-nested-join", "right-list", "left-nested-join", "left-list", "both-nested-joins", "both-lists",
	"left-join-right-list", "left-list-right-join", "right-join-unparenthesised", "right-deep-joins", "right-deep-list-inner",
	"right-deep-list-outer", "list-element-nested", "list-of-joins", "paren-top-left", "paren-top-right", "flat-left-assoc",
	"single-parens", "double-parens-right", "right-nested-left-assoc", "random",
}

func c5tBuild(r *vh.Rng, shape int) (*c5tnode, string) {
	p := c5perm(r, len(c5tables))
	T := func(i int) *c5tnode {
		n := c5tLeaf(c5tables[p[i]])
		if r.Intn(5) == 0 {
			n.alias = fmt.Sprintf("x%d", i)
		}
		return n
	}
	J := func(l, rt *c5tnode) *c5tnode { return c5tJoin(r, l, rt) }
	P := c5tParen
	A, B, C, D, E, F := T(0), T(1), T(2), T(3), T(4), T(5)
	var n *c5tnode
	switch shape {
	case 0:
		n = J(A, P(J(B, C)))
	case 1:
		n = J(A, P(B, C))
	case 2:
		n = J(P(J(A, B)), C)
	case 3:
		n = J(P(A, B), C)
	case 4:
		n = J(P(J(A, B)), P(J(C, D)))
	case 5:
		n = J(P(A, B), P(C, D))
	case 6:
		n = J(P(J(A, B)), P(C, D))
	case 7:
		n = J(P(A, B), P(J(C, D)))
	case 8:
		n = J(A, J(B, C)) // A LEFT JOIN B JOIN C ON .. ON ..
	case 9:
		n = J(A, P(J(B, P(J(C, D)))))
	case 10:
		n = J(A, P(J(P(B, C), D)))
	case 11:
		n = J(A, P(B, P(J(C, D))))
	case 12:
		n = P(A, P(J(B, P(C, D)))) // top-level list: A, (B JOIN (C, D))
	case 13:
		n = P(J(A, P(J(B, C))), J(P(D, E), F)) // top-level list of joins
	case 14:
		n = P(P(J(P(J(A, B)), C))) // ((A JOIN B) JOIN C) in parentheses
	case 15:
		n = P(P(J(A, P(B, C))))
	case 16:
		n = J(J(A, B), C)
	case 17:
		n = J(P(A), P(P(J(B, C))))
	case 18:
		n = J(A, P(P(B, C)))
	case 19:
		n = J(J(A, P(J(B, C))), D)
	default:
		n = c5tRandom(r, 3)
		if n.kind != 2 || r.Bool() {
			n = P(n) // the top node stands for the FROM list
		}
	}
	if shape < 12 || shape >= 16 && shape < 20 {
		n = P(n) // a FROM list of one element
	}
	return n, c5tShapeNames[shape]
}

// c5tRandom: random tree; tables may repeat, operands may be sub-selects
func c5tRandom(r *vh.Rng, depth int) *c5tnode {
	k := r.Intn(10)
	if depth == 0 || k < 2 {
		if r.Intn(8) == 0 {
			return &c5tnode{kind: 3, table: c5tables[r.Intn(len(c5tables))], alias: fmt.Sprintf("s%d", r.Intn(100))}
		}
		n := c5tLeaf(c5tables[r.Intn(len(c5tables))])
		if r.Intn(4) == 0 {
			n.alias = fmt.Sprintf("y%d", r.Intn(100))
		}
		return n
	}
	if k < 7 {
		l := c5tRandom(r, depth-1)
		rt := c5tRandom(r, depth-1)
		if l.kind == 1 && r.Intn(3) == 0 {
			l = c5tParen(l)
		}
		if rt.kind == 1 && r.Intn(4) != 0 {
			rt = c5tParen(rt)
		}
		return c5tJoin(r, l, rt)
	}
	var es []*c5tnode
	for i, m := 0, 1+r.Intn(3); i < m; i++ {
		es = append(es, c5tRandom(r, depth-1))
	}
	return c5tParen(es...)
}

// c5tStmt: SELECT over the FROM tree; `top` is a kind-2 node standing for the FROM list (no parentheses emitted)
func c5tStmt(r *vh.Rng, top *c5tnode, name string) *c5stmt {
	s := &c5stmt{whereAt: -1, parsable: true, kind: "select-tree"}
	s.add(kw("select"), id(c5cols[r.Intn(len(c5cols))]), kw("from"))
	var shapes []string
	for i, x := range top.es {
		if i > 0 {
			s.add(id(","))
		}
		x.emit(s)
		shapes = append(shapes, x.shape())
	}
	s.shape = name + ":" + strings.Join(shapes, ",")
	subs := 0
	top.leaves(&s.visible, &s.nested, &subs)
	s.subOp = subs > 0
	if r.Intn(3) == 0 {
		s.where(r, c5cols[r.Intn(len(c5cols))])
	}
	return s
}

// ---------- configurations ----------

type c5handler struct {
	kind                      string
	queries, tables, patterns []string
}

func yamlStr(s string) string { return "'" + strings.ReplaceAll(s, "'", "''") + "'" }

func c5yaml(ipe bool, hs []c5handler) string {
	var b strings.Builder
	b.WriteString("version: 0.85.0\n")
	if ipe {
		b.WriteString("ignore_parse_error: true\n")
	}
	b.WriteString("handlers:\n")
	for _, h := range hs {
		b.WriteString("  - handler: " + h.kind + "\n")
		for _, f := range []struct {
			n string
			v []string
		}{{"queries", h.queries}, {"tables", h.tables}, {"patterns", h.patterns}} {
			if len(f.v) > 0 {
				b.WriteString("    " + f.n + ":\n")
				for _, v := range f.v {
					b.WriteString("      - " + yamlStr(v) + "\n")
				}
			}
		}
	}
	if len(hs) == 0 {
		b.WriteString("  []\n")
	}
	return b.String()
}

func c5load(y string) (*acracensor.AcraCensor, error) {
	c := acracensor.NewAcraCensor()
	if err := c.LoadConfiguration([]byte(y)); err != nil {
		return nil, err
	}
	return c, nil
}

func verdictCode(err error) byte {
	switch err {
	case nil:
		return 0
	case common.ErrDenyByQueryError:
		return 1
	case common.ErrDenyByTableError:
		return 2
	case common.ErrDenyByPatternError:
		return 3
	case common.ErrDenyAllError:
		return 4
	case sqlparser.ErrQuerySyntaxError:
		return 5
	}
	return 0xff
}

func cb(b bool) string {
	if b {
		return "T"
	}
	return "F"
}

var c5parser = sqlparser.New(sqlparser.ModeStrict)

// c5teval is one evaluation of the table rule (one allow/deny handler with a `tables:` list on one statement)
type c5teval struct {
	names    []string // the handler's table list, sorted
	set      map[string]bool
	one, all bool // what the REAL common.CheckTableNamesMatch answered
}

func c5setTerm(set map[string]bool) (string, []string) {
	var names []string
	for t := range set {
		names = append(names, t)
	}
	sort.Strings(names)
	var hs []string
	for _, t := range names {
		hs = append(hs, vh.H([]byte(t)))
	}
	return "[" + strings.Join(hs, "; ") + "]", names
}

// chainTerm describes the configured chain and the statement for the model: the exact-query result is computed
// with the REAL matcher (input of the model); the TABLE rule is NOT an input: the term carries every handler's
// table list and the FROM tree / INSERT target of the parsed statement and the model evaluates the rule itself
// (OpCensor).  When a handler of the chain has patterns the PATTERN rule is not an input either: the term then
// carries the tree forms (c05pat_tree.go) of the handlers' parsed patterns and of the parsed statement and the
// model evaluates common.CheckPatternsMatching itself (OpCensorP, Model/CensorPattern.v); without patterns the
// shorter OpCensor form is kept.  Every table-rule evaluation the chain can make is also returned so that it is
// replayed (OpTables) and judged on its own.
func chainTerm(c *acracensor.AcraCensor, raw string) (string, bool, sqlparser.Statement, []c5teval) {
	norm, _, parsed, err := c5parser.HandleRawSQLQuery(raw)
	isParsed := err == nil
	var hs, hsP []string
	anyPatterns := false
	var evals []c5teval
	for _, h := range c.VerifHandlers() {
		switch x := h.(type) {
		case *handlers.AllowHandler, *handlers.DenyHandler:
			var q, t map[string]bool
			var p []sqlparser.Statement
			name := "SA"
			if a, ok := x.(*handlers.AllowHandler); ok {
				q, t, p = a.VerifRules()
			} else {
				q, t, p = x.(*handlers.DenyHandler).VerifRules()
				name = "SD"
			}
			mq, mp := false, false
			setTerm, names := c5setTerm(t)
			if isParsed {
				mq = common.CheckExactQueriesMatch(norm, q)
				mp = common.CheckPatternsMatching(p, parsed)
				if len(t) != 0 {
					ev := c5teval{names: names, set: t}
					ev.one, ev.all = common.CheckTableNamesMatch(parsed, t)
					evals = append(evals, ev)
				}
			}
			hs = append(hs, fmt.Sprintf("%s %s %s %s %s %s", name, cb(len(q) != 0), cb(mq), setTerm, cb(len(p) != 0), cb(mp)))
			var pts []string
			for _, pat := range p {
				pts = append(pts, c5pTree(pat).H())
				anyPatterns = true
			}
			hsP = append(hsP, fmt.Sprintf("P%s %s %s %s [%s]", name[1:], cb(len(q) != 0), cb(mq), setTerm, strings.Join(pts, "; ")))
		case *handlers.AllowAllHandler:
			hs = append(hs, "SAA")
			hsP = append(hsP, "PAA")
		case *handlers.DenyAllHandler:
			hs = append(hs, "SDA")
			hsP = append(hsP, "PDA")
		case *handlers.QueryIgnoreHandler:
			ig := x.VerifQueries()
			hs = append(hs, "SI "+cb(ig[sqlparser.String(parsed)] || ig[raw]))
			hsP = append(hsP, "PI "+cb(ig[sqlparser.String(parsed)] || ig[raw]))
		case *handlers.QueryCaptureHandler:
			hs = append(hs, "SC")
			hsP = append(hsP, "PC")
		default:
			hs = append(hs, "SC")
			hsP = append(hsP, "PC")
		}
	}
	st := "STOther"
	if isParsed {
		st = stmtTablesTerm(parsed)
	}
	if anyPatterns {
		stTree := "(hbs [])"
		if isParsed {
			stTree = c5pTree(parsed).H()
		}
		return fmt.Sprintf("(OpCensorP %s %s %s %s %s [%s])", cb(c.VerifIgnoreParseError()), cb(c.VerifHasUnparsedWriter()), cb(isParsed), st, stTree, strings.Join(hsP, "; ")), isParsed, parsed, evals
	}
	return fmt.Sprintf("(OpCensor %s %s %s %s [%s])", cb(c.VerifIgnoreParseError()), cb(c.VerifHasUnparsedWriter()), cb(isParsed), st, strings.Join(hs, "; ")), isParsed, parsed, evals
}

// ---------- table expressions -> Coq ----------

func texprTerm(e sqlparser.TableExpr) string {
	switch t := e.(type) {
	case *sqlparser.AliasedTableExpr:
		key := []byte(sqlparser.String(t.Expr))
		if sq, ok := t.Expr.(*sqlparser.Subquery); ok {
			var inner []string
			if sel, ok := sq.Select.(*sqlparser.Select); ok {
				for _, x := range sel.From {
					inner = append(inner, texprTerm(x))
				}
			}
			return fmt.Sprintf("(TSub %s [%s])", vh.H(key), strings.Join(inner, "; "))
		}
		return "(TAliased " + vh.H(key) + ")"
	case *sqlparser.JoinTableExpr:
		return fmt.Sprintf("(TJoin %s %s)", texprTerm(t.LeftExpr), texprTerm(t.RightExpr))
	case *sqlparser.ParenTableExpr:
		var xs []string
		for _, x := range t.Exprs {
			xs = append(xs, texprTerm(x))
		}
		return "(TParen [" + strings.Join(xs, "; ") + "])"
	}
	return "(TParen [])"
}

func stmtTablesTerm(p sqlparser.Statement) string {
	switch q := p.(type) {
	case *sqlparser.Select:
		var xs []string
		for _, x := range q.From {
			xs = append(xs, texprTerm(x))
		}
		return "(STSelect [" + strings.Join(xs, "; ") + "])"
	case *sqlparser.Insert:
		return "(STInsert " + vh.H([]byte(q.Table.Name.String())) + ")"
	}
	return "STOther"
}

// ---------- the domain ----------

type c5run struct {
	rep   *vh.Report
	r     *vh.Rng
	seenT map[string]bool // table-rule evaluations already recorded for the model: (table set, FROM tree, answer)
}

// ask runs the real censor on raw, records the case for the model and returns the verdict code.
func (e *c5run) ask(label string, c *acracensor.AcraCensor, raw string) byte {
	return e.askS(label, c, raw, nil)
}

// askS: as ask; every evaluation of the table rule the chain makes on the statement is replayed on the model
// (OpTables) and, when the generator's description s of the statement is given, judged by the table-rule
// oracle (expectation from the generator's own list of the tables in the FROM tree).
func (e *c5run) askS(label string, c *acracensor.AcraCensor, raw string, s *c5stmt) byte {
	term, isParsed, parsed, evals := chainTerm(c, raw)
	var code byte
	o := vh.Guard(func() vh.Outcome {
		code = verdictCode(c.HandleQuery(raw))
		return vh.Ok([]byte{code})
	})
	e.rep.Add(label+" q="+raw, term, o)
	if isParsed {
		for _, ev := range evals {
			setTerm, _ := c5setTerm(ev.set)
			tterm := fmt.Sprintf("(OpTables %s %s)", setTerm, stmtTablesTerm(parsed))
			e.rep.Count("table-rule-evals")
			// the same rule on the same tree with the same answer (formatting variants, the deny and the allow
			// configuration of one table set) is the same computation on the model: recorded once
			if key := tterm + cb(ev.one) + cb(ev.all); !e.seenT[key] {
				e.seenT[key] = true
				e.rep.Add(fmt.Sprintf("%s table-rule set=%v q=%s", label, ev.names, raw), tterm, vh.Ok(fl(ev.one), fl(ev.all)))
			} else {
				e.rep.Count("table-rule-evals-same-term-not-repeated")
			}
			if s != nil && s.parsable {
				e.judgeTables(s, raw, ev.set, ev.names, ev.one, ev.all)
			}
		}
	}
	if o.Kind == "panic" {
		e.rep.Violate("censor-panic", "HandleQuery panicked: "+o.Msg, label+" q="+raw)
		return 0xfe
	}
	return code
}

// c5tableExpect: what the table rule must answer for statement s and table set `set`, from the generator's own
// knowledge of the statement (ok=false: not judged).
func c5tableExpect(s *c5stmt, set map[string]bool) (wantOne, wantAll, ok bool) {
	wantOne, wantAll = false, len(s.visible) > 0
	for _, t := range s.visible {
		if set[t] {
			wantOne = true
		} else {
			wantAll = false
		}
	}
	if s.kind == "update" || s.kind == "delete" {
		wantOne, wantAll = false, false
	}
	if s.kind == "select-subfrom" || s.subOp {
		wantAll = false // the sub-select itself is never a listed table
	}
	return wantOne, wantAll, s.kind != "union"
}

func (e *c5run) judgeTables(s *c5stmt, raw string, set map[string]bool, names []string, one, all bool) {
	wantOne, wantAll, ok := c5tableExpect(s, set)
	if !ok {
		return
	}
	e.rep.OracleChecks++
	if len(s.visible) > 1 && wantOne && !wantAll {
		e.rep.Count("table-rule-mixed-membership")
	}
	if one != wantOne || all != wantAll {
		e.rep.Violate("table-rule", fmt.Sprintf("CheckTableNamesMatch(%q, %v) = (atLeastOne=%v, all=%v), expected (%v,%v): the FROM tree %s shows the tables %v",
			raw, names, one, all, wantOne, wantAll, s.shape, s.visible), "tables: "+strings.Join(names, ",")+"\nstatement: "+raw)
	}
}

func pickOpts(r *vh.Rng, k int) []int {
	seen := map[int]bool{0: true}
	out := []int{0}
	for len(out) < k {
		o := r.Intn(64)
		if !seen[o] {
			seen[o] = true
			out = append(out, o)
		}
	}
	return out
}

func subset(r *vh.Rng, xs []string, p int) []string {
	var out []string
	for _, x := range xs {
		if r.Intn(p) == 0 {
			out = append(out, x)
		}
	}
	return out
}

func has(xs []string, x string) bool {
	for _, y := range xs {
		if x == y {
			return true
		}
	}
	return false
}

func runC05(rep *vh.Report, r *vh.Rng, n int, thorough bool) {
	e := &c5run{rep, r, map[string]bool{}}
	nVar := 3
	if thorough {
		nVar = 6
	}
	for sc := 0; sc < n; sc++ {
		// a pool of statements for this scenario
		var pool []*c5stmt
		for i := 0; i < 6; i++ {
			k := r.Intn(14)
			if thorough && sc < 14 {
				k = (sc + i) % 14
			}
			st := genStmt(r, k)
			_, _, _, perr := c5parser.HandleRawSQLQuery(st.render(0))
			if st.parsable != (perr == nil) {
				rep.Count("generator-parsable-mismatch:" + st.kind)
				st.parsable = perr == nil
			}
			pool = append(pool, st)
		}
		switch sc % 5 {
		case 0:
			e.randomChain(sc, pool, nVar)
		case 1:
			e.denyFromStatement(sc, pool, nVar)
		case 2:
			e.allowThenDenyAll(sc, pool, nVar)
		case 3:
			e.tablesAndUnparsed(sc, pool, nVar)
		default:
			e.tableTrees(sc, thorough)
		}
	}
	// the clause tables of every statement kind through allow-patterns + denyall and deny-patterns (c05clauses.go)
	e.clauseFamily(thorough)
}

// variants asks the verdict for formatting variants of one statement and checks they agree.
func (e *c5run) variants(label string, c *acracensor.AcraCensor, y string, s *c5stmt, nVar int) byte {
	opts := pickOpts(e.r, nVar)
	base := e.askS(label+" v0", c, s.render(0), s)
	for _, o := range opts[1:] {
		v := e.askS(fmt.Sprintf("%s v%d", label, o), c, s.render(o), s)
		e.rep.OracleChecks++
		e.rep.Count(fmt.Sprintf("variant-bits:%06b", o))
		if (v == 0) != (base == 0) || (s.parsable && v != base) {
			e.rep.Violate("variant-verdict", fmt.Sprintf("verdict %d for %q but %d for its formatting variant %q", base, s.render(0), v, s.render(o)),
				"config:\n"+y+"statements: "+s.render(0)+" | "+s.render(o))
		}
	}
	return base
}

func (e *c5run) genHandler(pool []*c5stmt, kind string) c5handler {
	r := e.r
	h := c5handler{kind: kind}
	if kind == "allowall" || kind == "denyall" {
		return h
	}
	var parsable []*c5stmt
	for _, s := range pool {
		if s.parsable {
			parsable = append(parsable, s)
		}
	}
	if kind == "query_ignore" {
		for _, s := range pool {
			if r.Intn(3) == 0 {
				h.queries = append(h.queries, s.render(r.Intn(16)))
			}
		}
		return h
	}
	for _, s := range parsable {
		if r.Intn(4) == 0 {
			h.queries = append(h.queries, s.render(r.Intn(16)))
		}
		if r.Intn(5) == 0 {
			if len(s.lits) > 0 {
				h.patterns = append(h.patterns, s.pattern(1+r.Intn(1<<len(s.lits)-1), false))
			} else {
				h.patterns = append(h.patterns, s.render(0))
			}
		}
	}
	if r.Intn(8) == 0 {
		h.patterns = append(h.patterns, []string{"%%SELECT%%", "%%INSERT%%", "%%UPDATE%%", "%%DELETE%%", "%%UNION%%"}[r.Intn(5)])
	}
	if r.Bool() {
		h.tables = subset(r, c5tables, 3)
	}
	return h
}

// randomChain: random ordered chains; correspondence with the model + variant oracle.
func (e *c5run) randomChain(sc int, pool []*c5stmt, nVar int) {
	r := e.r
	kinds := []string{"allow", "deny", "allow", "deny", "allowall", "denyall", "query_ignore"}
	var hs []c5handler
	nh := r.Intn(5)
	for i := 0; i < nh; i++ {
		hs = append(hs, e.genHandler(pool, kinds[r.Intn(len(kinds))]))
	}
	ipe := r.Intn(3) == 0
	y := c5yaml(ipe, hs)
	c, err := c5load(y)
	if err != nil {
		e.rep.Count("config-rejected")
		return
	}
	e.rep.Count(fmt.Sprintf("chain-len:%d", nh))
	for i, s := range pool {
		e.rep.Count("stmt:" + s.kind)
		e.variants(fmt.Sprintf("sc%d chain s%d", sc, i), c, y, s, nVar)
	}
}

// denyFromStatement: a deny rule derived from a statement must reject it (all variants).
func (e *c5run) denyFromStatement(sc int, pool []*c5stmt, nVar int) {
	r := e.r
	for i, s := range pool {
		if !s.parsable {
			continue
		}
		e.rep.Count("stmt:" + s.kind)
		// (a) by normalized text: the rule is written in another spelling
		y := c5yaml(false, []c5handler{{kind: "deny", queries: []string{s.render(1 + r.Intn(15))}}})
		if c, err := c5load(y); err == nil {
			v := e.variants(fmt.Sprintf("sc%d deny-query s%d", sc, i), c, y, s, nVar)
			e.rep.OracleChecks++
			if v == 0 {
				e.rep.Violate("deny-query-missed", "statement equal to a deny query (other spelling) was allowed: "+s.render(0), "config:\n"+y+"statement: "+s.render(0))
			}
		}
		// (b) by pattern: generalise a non-empty subset of literals, or the whole WHERE clause
		if len(s.lits) > 0 {
			mask := 1 + r.Intn(1<<len(s.lits)-1)
			whole := s.whereAt >= 0 && r.Intn(4) == 0
			pat := s.pattern(mask, whole)
			y := c5yaml(false, []c5handler{{kind: "deny", patterns: []string{pat}}})
			c, err := c5load(y)
			if err != nil {
				e.rep.Count("pattern-rejected")
			} else {
				e.rep.Count("pattern:" + s.kind)
				v := e.variants(fmt.Sprintf("sc%d deny-pattern s%d", sc, i), c, y, s, nVar)
				e.rep.OracleChecks++
				if v == 0 {
					e.rep.Violate("deny-pattern-missed", fmt.Sprintf("pattern %q obtained from %q by generalisation does not match it", pat, s.render(0)), "config:\n"+y+"statement: "+s.render(0))
				}
				// a statement that differs in a NON-generalised position (the table) must not match
				other := *s
				other.toks = append([]c5tok{}, s.toks...)
				changed := false
				for k, t := range other.toks {
					if !t.kw && has(c5tables, t.s) {
						other.toks[k] = id("zz" + t.s)
						changed = true
					}
				}
				if changed {
					v2 := e.ask(fmt.Sprintf("sc%d deny-pattern-other s%d", sc, i), c, other.render(0))
					e.rep.OracleChecks++
					if v2 != 0 {
						e.rep.Violate("pattern-overmatch", fmt.Sprintf("pattern %q rejected %q which differs outside the generalised positions", pat, other.render(0)), "config:\n"+y)
					}
				}
			}
		}
		// (b') the pattern is the statement without its WHERE clause: the censor must answer (no crash), and
		// the statement itself without WHERE must be caught
		if s.whereAt > 0 {
			short := *s
			short.toks = append([]c5tok{}, s.toks[:s.whereAt]...)
			y := c5yaml(false, []c5handler{{kind: "deny", patterns: []string{short.render(0)}}})
			if c, err := c5load(y); err == nil {
				e.ask(fmt.Sprintf("sc%d deny-pattern-nowhere s%d", sc, i), c, s.render(0))
				v := e.ask(fmt.Sprintf("sc%d deny-pattern-nowhere-self s%d", sc, i), c, short.render(1))
				e.rep.OracleChecks++
				if v == 0 {
					e.rep.Violate("deny-pattern-missed", "pattern equal to the statement does not match it: "+short.render(0), "config:\n"+y)
				}
			}
		}
		// (c) by table
		for _, t := range s.visible {
			y := c5yaml(false, []c5handler{{kind: "deny", tables: []string{t}}})
			if c, err := c5load(y); err == nil {
				v := e.variants(fmt.Sprintf("sc%d deny-table s%d", sc, i), c, y, s, 2)
				e.rep.OracleChecks++
				if v == 0 {
					e.rep.Violate("deny-table-missed", "statement "+s.render(0)+" selects from / inserts into denied table "+t+" and was allowed", "config:\n"+y+"statement: "+s.render(0))
				}
			}
		}
		for _, t := range s.nested {
			if has(s.visible, t) {
				continue
			}
			y := c5yaml(false, []c5handler{{kind: "deny", tables: []string{t}}})
			if c, err := c5load(y); err == nil {
				v := e.ask(fmt.Sprintf("sc%d deny-table-nested s%d", sc, i), c, s.render(0))
				e.rep.OracleChecks++
				e.rep.Count("nested-read:" + s.kind)
				if v == 0 {
					e.rep.Violate("deny-table-nested-read", "statement "+s.render(0)+" reads denied table "+t+" inside a sub-select/union arm/INSERT..SELECT and was allowed", "config:\n"+y+"statement: "+s.render(0))
				}
			}
		}
	}
}

// allowThenDenyAll: [allow rules..., denyall]: admitted statements pass, all others are rejected.
func (e *c5run) allowThenDenyAll(sc int, pool []*c5stmt, nVar int) {
	r := e.r
	var parsable []*c5stmt
	for _, s := range pool {
		if s.parsable {
			parsable = append(parsable, s)
		}
	}
	if len(parsable) < 2 {
		return
	}
	adm := parsable[0]
	mode := r.Intn(3)
	h := c5handler{kind: "allow"}
	switch {
	case mode == 0 || (mode == 1 && len(adm.lits) == 0):
		mode = 0
		h.queries = []string{adm.render(r.Intn(16))}
	case mode == 1:
		h.patterns = []string{adm.pattern(1<<len(adm.lits)-1, false)}
	default:
		h.tables = append([]string{}, adm.visible...)
	}
	ipe := r.Intn(4) == 0
	hs := []c5handler{h, {kind: "denyall"}}
	if r.Intn(3) == 0 {
		hs = append([]c5handler{{kind: "query_ignore", queries: []string{"select 1"}}}, hs...)
	}
	y := c5yaml(ipe, hs)
	c, err := c5load(y)
	if err != nil {
		e.rep.Count("config-rejected")
		return
	}
	e.rep.Count(fmt.Sprintf("allow-mode:%d", mode))
	v := e.variants(fmt.Sprintf("sc%d allow-admitted", sc), c, y, adm, nVar)
	e.rep.OracleChecks++
	want := true
	if mode == 2 && (len(adm.visible) == 0 || adm.kind == "update" || adm.kind == "delete" || adm.kind == "union" || adm.kind == "select-subfrom" || adm.subOp) {
		want = false // table rules do not look at these statement kinds; a sub-select is never a listed table
	}
	if want && v != 0 {
		e.rep.Violate("allow-missed", fmt.Sprintf("statement admitted by the allow rule was rejected (%d): %s", v, adm.render(0)), "config:\n"+y)
	}
	for i, s := range pool[1:] {
		if s == adm {
			continue
		}
		got := e.variants(fmt.Sprintf("sc%d allow-other s%d", sc, i), c, y, s, 2)
		// independent expectation: only what the rule admits may pass
		admitted := false
		switch mode {
		case 0:
			admitted = s.parsable && normEq(s, adm)
		case 1:
			admitted = s.parsable && sameShape(s, adm)
		default:
			admitted = s.parsable && len(s.visible) > 0 && !s.subOp && (s.kind != "update" && s.kind != "delete" && s.kind != "union" && s.kind != "select-subfrom")
			for _, t := range s.visible {
				if !has(adm.visible, t) {
					admitted = false
				}
			}
		}
		e.rep.OracleChecks++
		if !admitted && got == 0 {
			e.rep.Violate("denyall-bypassed", "statement not admitted by the allow rule in front of denyall was allowed: "+s.render(0), "config:\n"+y+"statement: "+s.render(0))
		}
	}
}

// tableTrees: FROM trees with nested / parenthesised joins and table lists on either side of a join, against
// table rules whose set holds SOME of the tree's tables (every single table, every set lacking a single table,
// the whole set, a disjoint set, random sets): `deny tables` must reject iff at least one table of the tree is
// listed, `allow tables` in front of denyall must admit iff all of them are.  Every evaluation of the table
// rule is replayed on the model (OpTables, OpCensor) and judged from the generator's own list of the tables.
func (e *c5run) tableTrees(sc int, thorough bool) {
	r := e.r
	// quick: 4 trees per scenario, the shapes rotate (all of them within 6 scenarios); thorough: the first
	// scenario additionally walks through every shape with EVERY non-empty subset of the tree's tables
	nTrees, exhaustive := 4, thorough && sc/5 == 0
	if exhaustive {
		nTrees = c5tShapes
	}
	for k := 0; k < nTrees; k++ {
		shape := ((sc/5)*4 + k) % c5tShapes
		top, name := c5tBuild(r, shape)
		s := c5tStmt(r, top, name)
		e.rep.Count("tree:" + name)
		_, _, parsed, perr := c5parser.HandleRawSQLQuery(s.render(0))
		if perr != nil {
			e.rep.Count("generator-parsable-mismatch:tree:" + name)
			continue
		}
		if sel, ok := parsed.(*sqlparser.Select); ok {
			var got []string
			for _, x := range sel.From {
				got = append(got, c5astShape(x))
			}
			if name+":"+strings.Join(got, ",") != s.shape {
				e.rep.Count("tree-shape-differs:" + name)
			}
		}
		// the distinct tables of the tree
		var ts []string
		for _, t := range s.visible {
			if !has(ts, t) {
				ts = append(ts, t)
			}
		}
		var outside []string
		for _, t := range c5tables {
			if !has(ts, t) {
				outside = append(outside, t)
			}
		}
		outside = append(outside, "zz_other")
		// table sets: bit 1 = asked under a deny rule, bit 2 = asked under an allow rule in front of denyall
		type c5tset struct {
			tables []string
			rules  int
		}
		var sets []c5tset
		if exhaustive && len(ts) <= 6 {
			for m := 1; m < 1<<len(ts); m++ {
				var x []string
				for i, t := range ts {
					if m&(1<<i) != 0 {
						x = append(x, t)
					}
				}
				sets = append(sets, c5tset{x, 3})
			}
		} else {
			for i := range ts {
				sets = append(sets, c5tset{[]string{ts[i]}, 1}) // exactly one table of the tree is denied
				var x []string
				for j, t := range ts {
					if j != i {
						x = append(x, t)
					}
				}
				if len(x) > 0 {
					sets = append(sets, c5tset{x, 2}) // exactly one table of the tree is not allow-listed
				}
			}
			sets = append(sets, c5tset{append([]string{}, ts...), 3})
		}
		sets = append(sets, c5tset{[]string{outside[r.Intn(len(outside))]}, 3})
		{ // a random subset, padded with tables outside the tree
			x := subset(r, ts, 2)
			x = append(x, subset(r, outside, 3)...)
			if len(x) > 0 {
				sets = append(sets, c5tset{x, 3})
			}
		}
		for si, cs := range sets {
			set := cs.tables
			in := map[string]bool{}
			for _, t := range set {
				in[t] = true
			}
			wantOne, wantAll, _ := c5tableExpect(s, in)
			switch {
			case wantAll:
				e.rep.Count("tree-membership:all")
			case wantOne:
				e.rep.Count("tree-membership:mixed")
			default:
				e.rep.Count("tree-membership:none")
			}
			// deny rule; handlers without an opinion around it
			deny := []c5handler{{kind: "deny", tables: set}}
			switch r.Intn(4) {
			case 0:
				deny = append(deny, c5handler{kind: "allowall"})
			case 1:
				deny = append([]c5handler{{kind: "query_ignore", queries: []string{"select 1"}}, {kind: "allow", queries: []string{"select 2"}}}, deny...)
			}
			y := c5yaml(false, deny)
			if c, err := c5load(y); err != nil {
				e.rep.Count("config-rejected")
			} else if cs.rules&1 != 0 {
				raw := s.render(r.Intn(64))
				v := e.askS(fmt.Sprintf("sc%d tree%d set%d deny-tables", sc, k, si), c, raw, s)
				e.rep.OracleChecks++
				if wantOne && v == 0 {
					e.rep.Violate("deny-table-missed", fmt.Sprintf("statement %q reads table(s) of the deny list %v in its FROM tree %s and was allowed", raw, set, s.shape), "config:\n"+y+"statement: "+raw)
				}
				if !wantOne && v != 0 {
					e.rep.Violate("deny-table-overmatch", fmt.Sprintf("statement %q has none of the denied tables %v in its FROM tree %s and was rejected (%d)", raw, set, s.shape, v), "config:\n"+y+"statement: "+raw)
				}
			}
			// allow rule in front of denyall
			allow := []c5handler{{kind: "allow", tables: set}, {kind: "denyall"}}
			if r.Intn(4) == 0 {
				allow = append([]c5handler{{kind: "deny", queries: []string{"select 3"}}}, allow...)
			}
			y = c5yaml(false, allow)
			if c, err := c5load(y); err != nil {
				e.rep.Count("config-rejected")
			} else if cs.rules&2 != 0 {
				raw := s.render(r.Intn(64))
				v := e.askS(fmt.Sprintf("sc%d tree%d set%d allow-tables-denyall", sc, k, si), c, raw, s)
				e.rep.OracleChecks++
				if !wantAll && v == 0 {
					e.rep.Violate("denyall-bypassed", fmt.Sprintf("statement %q reads a table outside the allow list %v (FROM tree %s shows %v) in front of denyall and was allowed", raw, set, s.shape, s.visible), "config:\n"+y+"statement: "+raw)
				}
				if wantAll && v != 0 {
					e.rep.Violate("allow-missed", fmt.Sprintf("statement %q reads only tables of the allow list %v and was rejected (%d)", raw, set, v), "config:\n"+y+"statement: "+raw)
				}
			}
		}
	}
}

func normEq(a, b *c5stmt) bool { return a.render(0) == b.render(0) }

// same token sequence except for literals
func sameShape(a, b *c5stmt) bool {
	if len(a.toks) != len(b.toks) {
		return false
	}
	isLit := map[int]bool{}
	for _, i := range b.lits {
		isLit[i] = true
	}
	for i := range a.toks {
		if isLit[i] {
			continue
		}
		if a.toks[i].s != b.toks[i].s {
			return false
		}
	}
	return true
}

// tablesAndUnparsed: CheckTableNamesMatch on real ASTs against the model + parse-error branch.
func (e *c5run) tablesAndUnparsed(sc int, pool []*c5stmt, nVar int) {
	r := e.r
	for i, s := range pool {
		raw := s.render(r.Intn(64))
		_, _, parsed, err := c5parser.HandleRawSQLQuery(raw)
		if err == nil {
			for k := 0; k < 3; k++ {
				set := map[string]bool{}
				for _, t := range subset(r, c5tables, 2) {
					set[t] = true
				}
				if k == 2 {
					for _, t := range s.visible {
						set[t] = true
					}
				}
				setTerm, names := c5setTerm(set)
				var one, all bool
				o := vh.Guard(func() vh.Outcome {
					one, all = common.CheckTableNamesMatch(parsed, set)
					return vh.Ok(fl(one), fl(all))
				})
				e.rep.Add(fmt.Sprintf("sc%d tables s%d set=%v q=%s", sc, i, names, raw),
					fmt.Sprintf("(OpTables %s %s)", setTerm, stmtTablesTerm(parsed)), o)
				// oracle from the generator's own knowledge of the statement
				e.judgeTables(s, raw, set, names, one, all)
			}
		}
		if !s.parsable {
			e.rep.Count("stmt:unparsable")
			for _, ipe := range []bool{false, true} {
				term := []c5handler{{kind: "allowall"}}
				if r.Bool() {
					term = []c5handler{{kind: "deny", tables: []string{"t0"}}, {kind: "allow", queries: []string{"select 1"}}}
				}
				y := c5yaml(ipe, term)
				c, err := c5load(y)
				if err != nil {
					continue
				}
				v := e.variants(fmt.Sprintf("sc%d unparsed ipe=%v s%d", sc, ipe, i), c, y, s, nVar)
				e.rep.OracleChecks++
				if !ipe && v != 5 {
					e.rep.Violate("unparsed-allowed", fmt.Sprintf("unparsable statement %q got verdict %d without ignore_parse_error", s.render(0), v), "config:\n"+y)
				}
				if ipe && v != 0 {
					e.rep.Violate("unparsed-tolerated-denied", fmt.Sprintf("unparsable statement %q got verdict %d with ignore_parse_error and no deny-all", s.render(0), v), "config:\n"+y)
				}
			}
		}
	}
}

func fl(b bool) []byte {
	if b {
		return []byte{1}
	}
	return []byte{0}
}
