package main

// C05, domain c05: the REAL AcraCensor (built from generated YAML through LoadConfiguration) and the
// REAL common.CheckTableNamesMatch against Model/Censor.v, plus the property's own oracle:
//   * the verdict is identical for formatting variants of a statement (keyword case, whitespace,
//     trailing semicolon, margin comments);
//   * a deny rule made from a statement (its text, one of its tables, a pattern obtained by
//     generalising it) rejects the statement; a statement that differs outside the generalised
//     positions is not caught by the pattern;
//   * what the allow rules in front of denyall do not admit is rejected;
//   * unparsable statements are rejected unless ignore_parse_error is set.

import (
	"fmt"
	"sort"
	"strings"

	"acra-vh/vh"

	acracensor "github.com/cossacklabs/acra/acra-censor"
	"github.com/cossacklabs/acra/acra-censor/common"
	"github.com/cossacklabs/acra/acra-censor/handlers"
	"github.com/cossacklabs/acra/sqlparser"
)

func init() { register("c05", "Model.RunCensor", runC05) }

// ---------- statements as token lists ----------

type c5tok struct {
	s  string
	kw bool // SQL keyword: case may vary
}

type c5stmt struct {
	toks     []c5tok
	kind     string
	visible  []string // tables CheckTableNamesMatch is documented to look at (FROM list / INSERT target)
	nested   []string // tables read inside sub-selects / union arms / INSERT ... SELECT
	lits     []int    // token indices of literals
	whereAt  int      // token index of WHERE (-1: none); the clause runs to the end
	parsable bool
}

func kw(s string) c5tok { return c5tok{s, true} }
func id(s string) c5tok { return c5tok{s, false} }
func c5lit(r *vh.Rng) string {
	if r.Bool() {
		return fmt.Sprintf("%d", r.Intn(1000))
	}
	return "'" + []string{"x", "secret", "a b", "Z9", "o''k"}[r.Intn(5)] + "'"
}

var c5tables = []string{"t0", "t1", "t2", "t3", "secrets", "plain"}
var c5cols = []string{"a", "b", "c", "n"}

func (s *c5stmt) add(ts ...c5tok) { s.toks = append(s.toks, ts...) }
func (s *c5stmt) lit(r *vh.Rng) {
	s.lits = append(s.lits, len(s.toks))
	s.add(id(c5lit(r)))
}
func (s *c5stmt) where(r *vh.Rng, col string) {
	s.whereAt = len(s.toks)
	s.add(kw("where"), id(col), id("="))
	s.lit(r)
	if r.Bool() {
		s.add(kw("and"), id(c5cols[r.Intn(4)]), id([]string{"=", "<", ">", "!="}[r.Intn(4)]))
		s.lit(r)
	}
}

func genStmt(r *vh.Rng, kind int) *c5stmt {
	s := &c5stmt{whereAt: -1, parsable: true}
	t := func() string { return c5tables[r.Intn(len(c5tables))] }
	c := func() string { return c5cols[r.Intn(len(c5cols))] }
	t1, t2 := t(), t()
	switch kind {
	case 0:
		s.kind = "select"
		s.add(kw("select"), id(c()), id(","), id(c()), kw("from"), id(t1))
		s.visible = []string{t1}
		if r.Intn(4) != 0 {
			s.where(r, c())
		}
	case 1:
		s.kind = "select-join"
		s.add(kw("select"), id(t1+".a"), kw("from"), id(t1), kw([]string{"join", "left join", "inner join"}[r.Intn(3)]), id(t2), kw("on"), id(t1+".a"), id("="), id(t2+".b"))
		s.visible = []string{t1, t2}
		if r.Bool() {
			s.where(r, t1+".c")
		}
	case 2:
		s.kind = "select-list"
		s.add(kw("select"), id(c()), kw("from"), id(t1), id(","), id(t2))
		s.visible = []string{t1, t2}
		if r.Bool() {
			s.where(r, c())
		}
	case 3:
		s.kind = "select-paren"
		t3 := t()
		s.add(kw("select"), id(c()), kw("from"), id(t3), id(","), id("("), id(t1), id(","), id(t2), id(")"))
		s.visible = []string{t3, t1, t2}
	case 4:
		s.kind = "select-alias"
		s.add(kw("select"), id("x."+c()), kw("from"), id(t1), kw("as"), id("x"))
		s.visible = []string{t1}
		if r.Bool() {
			s.where(r, "x."+c())
		}
	case 5:
		s.kind = "select-subfrom"
		s.add(kw("select"), id("s.a"), kw("from"), id("("), kw("select"), id("a"), kw("from"), id(t1), id(")"), kw("as"), id("s"))
		s.nested = []string{t1}
		if r.Bool() {
			s.add(id(","), id(t2))
			s.visible = []string{t2}
		}
	case 6:
		s.kind = "select-subwhere"
		s.add(kw("select"), id(c()), kw("from"), id(t1), kw("where"), id("a"), kw("in"), id("("), kw("select"), id("a"), kw("from"), id(t2), id(")"))
		s.visible = []string{t1}
		s.nested = []string{t2}
	case 7:
		s.kind = "union"
		s.add(kw("select"), id("a"), kw("from"), id(t1), kw([]string{"union", "union all"}[r.Intn(2)]), kw("select"), id("a"), kw("from"), id(t2))
		s.nested = []string{t1, t2}
	case 8:
		s.kind = "insert"
		s.add(kw("insert"), kw("into"), id(t1), id("("), id("a"), id(","), id("b"), id(")"), kw("values"), id("("))
		s.lit(r)
		s.add(id(","))
		s.lit(r)
		s.add(id(")"))
		s.visible = []string{t1}
	case 9:
		s.kind = "insert-select"
		s.add(kw("insert"), kw("into"), id(t1), id("("), id("a"), id(")"), kw("select"), id("a"), kw("from"), id(t2))
		s.visible = []string{t1}
		s.nested = []string{t2}
	case 10:
		s.kind = "update"
		s.add(kw("update"), id(t1), kw("set"), id(c()), id("="))
		s.lit(r)
		s.where(r, c())
	case 11:
		s.kind = "delete"
		s.add(kw("delete"), kw("from"), id(t1))
		if r.Bool() {
			s.where(r, c())
		}
	default:
		s.kind = "unparsable"
		s.parsable = false
		switch r.Intn(4) {
		case 0:
			s.add(id("selec"), id("a"), id("frm"), id(t1))
		case 1:
			s.add(kw("select"), id("a"), kw("from"), id("\""+t1+"\""), kw("where"))
		case 2:
			s.add(id("drop the"), id(t1), id("(("))
		default:
			s.add(kw("select"), kw("from"), kw("where"), id("=")) // keywords only
		}
	}
	return s
}

// render: opt bits 0-1 keyword case (lower, upper, mixed), bit 2 wide whitespace, bit 3 trailing ';',
// bit 4 leading comment, bit 5 trailing comment
func (s *c5stmt) render(opt int) string {
	var parts []string
	for i, t := range s.toks {
		x := t.s
		if t.kw {
			switch opt & 3 {
			case 1:
				x = strings.ToUpper(x)
			case 2, 3:
				b := []byte(x)
				for j := range b {
					if (i+j)%2 == 0 && b[j] >= 'a' && b[j] <= 'z' {
						b[j] -= 32
					}
				}
				x = string(b)
			}
		}
		parts = append(parts, x)
	}
	sep := " "
	if opt&4 != 0 {
		sep = " \t\n  "
	}
	q := strings.Join(parts, sep)
	if opt&4 != 0 {
		q = "  " + q + " \n"
	}
	if opt&8 != 0 {
		q += ";"
	}
	if opt&16 != 0 {
		q = "/* lead */ " + q
	}
	if opt&32 != 0 {
		q += " /* trail */"
	}
	return q
}

// pattern obtained from the statement by generalising literals (mask over s.lits) or the WHERE clause
func (s *c5stmt) pattern(mask int, wholeWhere bool) string {
	var parts []string
	for i, t := range s.toks {
		if wholeWhere && s.whereAt >= 0 && i >= s.whereAt {
			parts = append(parts, "%%WHERE%%")
			break
		}
		x := t.s
		for k, li := range s.lits {
			if li == i && mask&(1<<k) != 0 {
				x = "%%VALUE%%"
			}
		}
		parts = append(parts, x)
	}
	return strings.Join(parts, " ")
}

// ---------- configurations ----------

type c5handler struct {
	kind                      string
	queries, tables, patterns []string
}

func yamlStr(s string) string { return "'" + strings.ReplaceAll(s, "'", "''") + "'" }

func c5yaml(ipe bool, hs []c5handler) string {
	var b strings.Builder
	b.WriteString("version: 0.85.0\n")
	if ipe {
		b.WriteString("ignore_parse_error: true\n")
	}
	b.WriteString("handlers:\n")
	for _, h := range hs {
		b.WriteString("  - handler: " + h.kind + "\n")
		for _, f := range []struct {
			n string
			v []string
		}{{"queries", h.queries}, {"tables", h.tables}, {"patterns", h.patterns}} {
			if len(f.v) > 0 {
				b.WriteString("    " + f.n + ":\n")
				for _, v := range f.v {
					b.WriteString("      - " + yamlStr(v) + "\n")
				}
			}
		}
	}
	if len(hs) == 0 {
		b.WriteString("  []\n")
	}
	return b.String()
}

func c5load(y string) (*acracensor.AcraCensor, error) {
	c := acracensor.NewAcraCensor()
	if err := c.LoadConfiguration([]byte(y)); err != nil {
		return nil, err
	}
	return c, nil
}

func verdictCode(err error) byte {
	switch err {
	case nil:
		return 0
	case common.ErrDenyByQueryError:
		return 1
	case common.ErrDenyByTableError:
		return 2
	case common.ErrDenyByPatternError:
		return 3
	case common.ErrDenyAllError:
		return 4
	case sqlparser.ErrQuerySyntaxError:
		return 5
	}
	return 0xff
}

func cb(b bool) string {
	if b {
		return "T"
	}
	return "F"
}

var c5parser = sqlparser.New(sqlparser.ModeStrict)

// chainTerm computes, with the REAL matchers, what every handler of the chain sees of the query.
func chainTerm(c *acracensor.AcraCensor, raw string) (string, bool) {
	norm, _, parsed, err := c5parser.HandleRawSQLQuery(raw)
	isParsed := err == nil
	var hs []string
	for _, h := range c.VerifHandlers() {
		switch x := h.(type) {
		case *handlers.AllowHandler, *handlers.DenyHandler:
			var q, t map[string]bool
			var p []sqlparser.Statement
			name := "HA"
			if a, ok := x.(*handlers.AllowHandler); ok {
				q, t, p = a.VerifRules()
			} else {
				q, t, p = x.(*handlers.DenyHandler).VerifRules()
				name = "HD"
			}
			mq, one, all, mp := false, false, false, false
			if isParsed {
				mq = common.CheckExactQueriesMatch(norm, q)
				one, all = common.CheckTableNamesMatch(parsed, t)
				mp = common.CheckPatternsMatching(p, parsed)
			}
			hs = append(hs, fmt.Sprintf("%s %s %s %s %s %s %s %s", name, cb(len(q) != 0), cb(mq), cb(len(t) != 0), cb(one), cb(all), cb(len(p) != 0), cb(mp)))
		case *handlers.AllowAllHandler:
			hs = append(hs, "HAA")
		case *handlers.DenyAllHandler:
			hs = append(hs, "HDA")
		case *handlers.QueryIgnoreHandler:
			ig := x.VerifQueries()
			hs = append(hs, "HI "+cb(ig[sqlparser.String(parsed)] || ig[raw]))
		case *handlers.QueryCaptureHandler:
			hs = append(hs, "HC")
		default:
			hs = append(hs, "HC")
		}
	}
	return fmt.Sprintf("(OpChain %s %s %s [%s])", cb(c.VerifIgnoreParseError()), cb(c.VerifHasUnparsedWriter()), cb(isParsed), strings.Join(hs, "; ")), isParsed
}

// ---------- table expressions -> Coq ----------

func texprTerm(e sqlparser.TableExpr) string {
	switch t := e.(type) {
	case *sqlparser.AliasedTableExpr:
		key := []byte(sqlparser.String(t.Expr))
		if sq, ok := t.Expr.(*sqlparser.Subquery); ok {
			var inner []string
			if sel, ok := sq.Select.(*sqlparser.Select); ok {
				for _, x := range sel.From {
					inner = append(inner, texprTerm(x))
				}
			}
			return fmt.Sprintf("(TSub %s [%s])", vh.H(key), strings.Join(inner, "; "))
		}
		return "(TAliased " + vh.H(key) + ")"
	case *sqlparser.JoinTableExpr:
		return fmt.Sprintf("(TJoin %s %s)", texprTerm(t.LeftExpr), texprTerm(t.RightExpr))
	case *sqlparser.ParenTableExpr:
		var xs []string
		for _, x := range t.Exprs {
			xs = append(xs, texprTerm(x))
		}
		return "(TParen [" + strings.Join(xs, "; ") + "])"
	}
	return "(TParen [])"
}

func stmtTablesTerm(p sqlparser.Statement) string {
	switch q := p.(type) {
	case *sqlparser.Select:
		var xs []string
		for _, x := range q.From {
			xs = append(xs, texprTerm(x))
		}
		return "(STSelect [" + strings.Join(xs, "; ") + "])"
	case *sqlparser.Insert:
		return "(STInsert " + vh.H([]byte(q.Table.Name.String())) + ")"
	}
	return "STOther"
}

// ---------- the domain ----------

type c5run struct {
	rep *vh.Report
	r   *vh.Rng
}

// ask runs the real censor on raw, records the case for the model and returns the verdict code.
func (e *c5run) ask(label string, c *acracensor.AcraCensor, raw string) byte {
	term, _ := chainTerm(c, raw)
	var code byte
	o := vh.Guard(func() vh.Outcome {
		code = verdictCode(c.HandleQuery(raw))
		return vh.Ok([]byte{code})
	})
	e.rep.Add(label+" q="+raw, term, o)
	if o.Kind == "panic" {
		e.rep.Violate("censor-panic", "HandleQuery panicked: "+o.Msg, label+" q="+raw)
		return 0xfe
	}
	return code
}

func pickOpts(r *vh.Rng, k int) []int {
	seen := map[int]bool{0: true}
	out := []int{0}
	for len(out) < k {
		o := r.Intn(64)
		if !seen[o] {
			seen[o] = true
			out = append(out, o)
		}
	}
	return out
}

func subset(r *vh.Rng, xs []string, p int) []string {
	var out []string
	for _, x := range xs {
		if r.Intn(p) == 0 {
			out = append(out, x)
		}
	}
	return out
}

func has(xs []string, x string) bool {
	for _, y := range xs {
		if x == y {
			return true
		}
	}
	return false
}

func runC05(rep *vh.Report, r *vh.Rng, n int, thorough bool) {
	e := &c5run{rep, r}
	nVar := 3
	if thorough {
		nVar = 6
	}
	for sc := 0; sc < n; sc++ {
		// a pool of statements for this scenario
		var pool []*c5stmt
		for i := 0; i < 6; i++ {
			k := r.Intn(13)
			if thorough && sc < 13 {
				k = (sc + i) % 13
			}
			st := genStmt(r, k)
			_, _, _, perr := c5parser.HandleRawSQLQuery(st.render(0))
			if st.parsable != (perr == nil) {
				rep.Count("generator-parsable-mismatch:" + st.kind)
				st.parsable = perr == nil
			}
			pool = append(pool, st)
		}
		switch sc % 4 {
		case 0:
			e.randomChain(sc, pool, nVar)
		case 1:
			e.denyFromStatement(sc, pool, nVar)
		case 2:
			e.allowThenDenyAll(sc, pool, nVar)
		default:
			e.tablesAndUnparsed(sc, pool, nVar)
		}
	}
}

// variants asks the verdict for formatting variants of one statement and checks they agree.
func (e *c5run) variants(label string, c *acracensor.AcraCensor, y string, s *c5stmt, nVar int) byte {
	opts := pickOpts(e.r, nVar)
	base := e.ask(label+" v0", c, s.render(0))
	for _, o := range opts[1:] {
		v := e.ask(fmt.Sprintf("%s v%d", label, o), c, s.render(o))
		e.rep.OracleChecks++
		e.rep.Count(fmt.Sprintf("variant-bits:%06b", o))
		if (v == 0) != (base == 0) || (s.parsable && v != base) {
			e.rep.Violate("variant-verdict", fmt.Sprintf("verdict %d for %q but %d for its formatting variant %q", base, s.render(0), v, s.render(o)),
				"config:\n"+y+"statements: "+s.render(0)+" | "+s.render(o))
		}
	}
	return base
}

func (e *c5run) genHandler(pool []*c5stmt, kind string) c5handler {
	r := e.r
	h := c5handler{kind: kind}
	if kind == "allowall" || kind == "denyall" {
		return h
	}
	var parsable []*c5stmt
	for _, s := range pool {
		if s.parsable {
			parsable = append(parsable, s)
		}
	}
	if kind == "query_ignore" {
		for _, s := range pool {
			if r.Intn(3) == 0 {
				h.queries = append(h.queries, s.render(r.Intn(16)))
			}
		}
		return h
	}
	for _, s := range parsable {
		if r.Intn(4) == 0 {
			h.queries = append(h.queries, s.render(r.Intn(16)))
		}
		if r.Intn(5) == 0 {
			if len(s.lits) > 0 {
				h.patterns = append(h.patterns, s.pattern(1+r.Intn(1<<len(s.lits)-1), false))
			} else {
				h.patterns = append(h.patterns, s.render(0))
			}
		}
	}
	if r.Intn(8) == 0 {
		h.patterns = append(h.patterns, []string{"%%SELECT%%", "%%INSERT%%", "%%UPDATE%%", "%%DELETE%%", "%%UNION%%"}[r.Intn(5)])
	}
	if r.Bool() {
		h.tables = subset(r, c5tables, 3)
	}
	return h
}

// randomChain: random ordered chains; correspondence with the model + variant oracle.
func (e *c5run) randomChain(sc int, pool []*c5stmt, nVar int) {
	r := e.r
	kinds := []string{"allow", "deny", "allow", "deny", "allowall", "denyall", "query_ignore"}
	var hs []c5handler
	nh := r.Intn(5)
	for i := 0; i < nh; i++ {
		hs = append(hs, e.genHandler(pool, kinds[r.Intn(len(kinds))]))
	}
	ipe := r.Intn(3) == 0
	y := c5yaml(ipe, hs)
	c, err := c5load(y)
	if err != nil {
		e.rep.Count("config-rejected")
		return
	}
	e.rep.Count(fmt.Sprintf("chain-len:%d", nh))
	for i, s := range pool {
		e.rep.Count("stmt:" + s.kind)
		e.variants(fmt.Sprintf("sc%d chain s%d", sc, i), c, y, s, nVar)
	}
}

// denyFromStatement: a deny rule derived from a statement must reject it (all variants).
func (e *c5run) denyFromStatement(sc int, pool []*c5stmt, nVar int) {
	r := e.r
	for i, s := range pool {
		if !s.parsable {
			continue
		}
		e.rep.Count("stmt:" + s.kind)
		// (a) by normalized text: the rule is written in another spelling
		y := c5yaml(false, []c5handler{{kind: "deny", queries: []string{s.render(1 + r.Intn(15))}}})
		if c, err := c5load(y); err == nil {
			v := e.variants(fmt.Sprintf("sc%d deny-query s%d", sc, i), c, y, s, nVar)
			e.rep.OracleChecks++
			if v == 0 {
				e.rep.Violate("deny-query-missed", "statement equal to a deny query (other spelling) was allowed: "+s.render(0), "config:\n"+y+"statement: "+s.render(0))
			}
		}
		// (b) by pattern: generalise a non-empty subset of literals, or the whole WHERE clause
		if len(s.lits) > 0 {
			mask := 1 + r.Intn(1<<len(s.lits)-1)
			whole := s.whereAt >= 0 && r.Intn(4) == 0
			pat := s.pattern(mask, whole)
			y := c5yaml(false, []c5handler{{kind: "deny", patterns: []string{pat}}})
			c, err := c5load(y)
			if err != nil {
				e.rep.Count("pattern-rejected")
			} else {
				e.rep.Count("pattern:" + s.kind)
				v := e.variants(fmt.Sprintf("sc%d deny-pattern s%d", sc, i), c, y, s, nVar)
				e.rep.OracleChecks++
				if v == 0 {
					e.rep.Violate("deny-pattern-missed", fmt.Sprintf("pattern %q obtained from %q by generalisation does not match it", pat, s.render(0)), "config:\n"+y+"statement: "+s.render(0))
				}
				// a statement that differs in a NON-generalised position (the table) must not match
				other := *s
				other.toks = append([]c5tok{}, s.toks...)
				changed := false
				for k, t := range other.toks {
					if !t.kw && has(c5tables, t.s) {
						other.toks[k] = id("zz" + t.s)
						changed = true
					}
				}
				if changed {
					v2 := e.ask(fmt.Sprintf("sc%d deny-pattern-other s%d", sc, i), c, other.render(0))
					e.rep.OracleChecks++
					if v2 != 0 {
						e.rep.Violate("pattern-overmatch", fmt.Sprintf("pattern %q rejected %q which differs outside the generalised positions", pat, other.render(0)), "config:\n"+y)
					}
				}
			}
		}
		// (b') the pattern is the statement without its WHERE clause: the censor must answer (no crash), and
		// the statement itself without WHERE must be caught
		if s.whereAt > 0 {
			short := *s
			short.toks = append([]c5tok{}, s.toks[:s.whereAt]...)
			y := c5yaml(false, []c5handler{{kind: "deny", patterns: []string{short.render(0)}}})
			if c, err := c5load(y); err == nil {
				e.ask(fmt.Sprintf("sc%d deny-pattern-nowhere s%d", sc, i), c, s.render(0))
				v := e.ask(fmt.Sprintf("sc%d deny-pattern-nowhere-self s%d", sc, i), c, short.render(1))
				e.rep.OracleChecks++
				if v == 0 {
					e.rep.Violate("deny-pattern-missed", "pattern equal to the statement does not match it: "+short.render(0), "config:\n"+y)
				}
			}
		}
		// (c) by table
		for _, t := range s.visible {
			y := c5yaml(false, []c5handler{{kind: "deny", tables: []string{t}}})
			if c, err := c5load(y); err == nil {
				v := e.variants(fmt.Sprintf("sc%d deny-table s%d", sc, i), c, y, s, 2)
				e.rep.OracleChecks++
				if v == 0 {
					e.rep.Violate("deny-table-missed", "statement "+s.render(0)+" selects from / inserts into denied table "+t+" and was allowed", "config:\n"+y+"statement: "+s.render(0))
				}
			}
		}
		for _, t := range s.nested {
			if has(s.visible, t) {
				continue
			}
			y := c5yaml(false, []c5handler{{kind: "deny", tables: []string{t}}})
			if c, err := c5load(y); err == nil {
				v := e.ask(fmt.Sprintf("sc%d deny-table-nested s%d", sc, i), c, s.render(0))
				e.rep.OracleChecks++
				e.rep.Count("nested-read:" + s.kind)
				if v == 0 {
					e.rep.Violate("deny-table-nested-read", "statement "+s.render(0)+" reads denied table "+t+" inside a sub-select/union arm/INSERT..SELECT and was allowed", "config:\n"+y+"statement: "+s.render(0))
				}
			}
		}
	}
}

// allowThenDenyAll: [allow rules..., denyall]: admitted statements pass, all others are rejected.
func (e *c5run) allowThenDenyAll(sc int, pool []*c5stmt, nVar int) {
	r := e.r
	var parsable []*c5stmt
	for _, s := range pool {
		if s.parsable {
			parsable = append(parsable, s)
		}
	}
	if len(parsable) < 2 {
		return
	}
	adm := parsable[0]
	mode := r.Intn(3)
	h := c5handler{kind: "allow"}
	switch {
	case mode == 0 || (mode == 1 && len(adm.lits) == 0):
		mode = 0
		h.queries = []string{adm.render(r.Intn(16))}
	case mode == 1:
		h.patterns = []string{adm.pattern(1<<len(adm.lits)-1, false)}
	default:
		h.tables = append([]string{}, adm.visible...)
	}
	ipe := r.Intn(4) == 0
	hs := []c5handler{h, {kind: "denyall"}}
	if r.Intn(3) == 0 {
		hs = append([]c5handler{{kind: "query_ignore", queries: []string{"select 1"}}}, hs...)
	}
	y := c5yaml(ipe, hs)
	c, err := c5load(y)
	if err != nil {
		e.rep.Count("config-rejected")
		return
	}
	e.rep.Count(fmt.Sprintf("allow-mode:%d", mode))
	v := e.variants(fmt.Sprintf("sc%d allow-admitted", sc), c, y, adm, nVar)
	e.rep.OracleChecks++
	want := true
	if mode == 2 && (len(adm.visible) == 0 || adm.kind == "update" || adm.kind == "delete" || adm.kind == "union" || adm.kind == "select-subfrom") {
		want = false // table rules do not look at these statement kinds; a sub-select is never a listed table
	}
	if want && v != 0 {
		e.rep.Violate("allow-missed", fmt.Sprintf("statement admitted by the allow rule was rejected (%d): %s", v, adm.render(0)), "config:\n"+y)
	}
	for i, s := range pool[1:] {
		if s == adm {
			continue
		}
		got := e.variants(fmt.Sprintf("sc%d allow-other s%d", sc, i), c, y, s, 2)
		// independent expectation: only what the rule admits may pass
		admitted := false
		switch mode {
		case 0:
			admitted = s.parsable && normEq(s, adm)
		case 1:
			admitted = s.parsable && sameShape(s, adm)
		default:
			admitted = s.parsable && len(s.visible) > 0 && (s.kind != "update" && s.kind != "delete" && s.kind != "union" && s.kind != "select-subfrom")
			for _, t := range s.visible {
				if !has(adm.visible, t) {
					admitted = false
				}
			}
		}
		e.rep.OracleChecks++
		if !admitted && got == 0 {
			e.rep.Violate("denyall-bypassed", "statement not admitted by the allow rule in front of denyall was allowed: "+s.render(0), "config:\n"+y+"statement: "+s.render(0))
		}
	}
}

func normEq(a, b *c5stmt) bool { return a.render(0) == b.render(0) }

// same token sequence except for literals
func sameShape(a, b *c5stmt) bool {
	if len(a.toks) != len(b.toks) {
		return false
	}
	isLit := map[int]bool{}
	for _, i := range b.lits {
		isLit[i] = true
	}
	for i := range a.toks {
		if isLit[i] {
			continue
		}
		if a.toks[i].s != b.toks[i].s {
			return false
		}
	}
	return true
}

// tablesAndUnparsed: CheckTableNamesMatch on real ASTs against the model + parse-error branch.
func (e *c5run) tablesAndUnparsed(sc int, pool []*c5stmt, nVar int) {
	r := e.r
	for i, s := range pool {
		raw := s.render(r.Intn(64))
		_, _, parsed, err := c5parser.HandleRawSQLQuery(raw)
		if err == nil {
			for k := 0; k < 3; k++ {
				set := map[string]bool{}
				for _, t := range subset(r, c5tables, 2) {
					set[t] = true
				}
				if k == 2 {
					for _, t := range s.visible {
						set[t] = true
					}
				}
				var names []string
				for t := range set {
					names = append(names, t)
				}
				sort.Strings(names)
				var hs []string
				for _, t := range names {
					hs = append(hs, vh.H([]byte(t)))
				}
				var one, all bool
				o := vh.Guard(func() vh.Outcome {
					one, all = common.CheckTableNamesMatch(parsed, set)
					return vh.Ok(fl(one), fl(all))
				})
				e.rep.Add(fmt.Sprintf("sc%d tables s%d set=%v q=%s", sc, i, names, raw),
					fmt.Sprintf("(OpTables [%s] %s)", strings.Join(hs, "; "), stmtTablesTerm(parsed)), o)
				// oracle from the generator's own knowledge of the statement
				e.rep.OracleChecks++
				wantOne, wantAll := false, len(s.visible) > 0
				for _, t := range s.visible {
					if set[t] {
						wantOne = true
					} else {
						wantAll = false
					}
				}
				if s.kind == "update" || s.kind == "delete" {
					wantOne, wantAll = false, false
				}
				if s.kind == "select-subfrom" {
					wantAll = false // the sub-select itself is never a listed table
				}
				if s.kind != "union" && (one != wantOne || all != wantAll) {
					e.rep.Violate("table-rule", fmt.Sprintf("CheckTableNamesMatch(%q, %v) = (%v,%v), expected (%v,%v)", raw, names, one, all, wantOne, wantAll), raw)
				}
			}
		}
		if !s.parsable {
			e.rep.Count("stmt:unparsable")
			for _, ipe := range []bool{false, true} {
				term := []c5handler{{kind: "allowall"}}
				if r.Bool() {
					term = []c5handler{{kind: "deny", tables: []string{"t0"}}, {kind: "allow", queries: []string{"select 1"}}}
				}
				y := c5yaml(ipe, term)
				c, err := c5load(y)
				if err != nil {
					continue
				}
				v := e.variants(fmt.Sprintf("sc%d unparsed ipe=%v s%d", sc, ipe, i), c, y, s, nVar)
				e.rep.OracleChecks++
				if !ipe && v != 5 {
					e.rep.Violate("unparsed-allowed", fmt.Sprintf("unparsable statement %q got verdict %d without ignore_parse_error", s.render(0), v), "config:\n"+y)
				}
				if ipe && v != 0 {
					e.rep.Violate("unparsed-tolerated-denied", fmt.Sprintf("unparsable statement %q got verdict %d with ignore_parse_error and no deny-all", s.render(0), v), "config:\n"+y)
				}
			}
		}
	}
}

func fl(b bool) []byte {
	if b {
		return []byte{1}
	}
	return []byte{0}
}
