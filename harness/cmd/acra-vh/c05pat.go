package main

// C05, domain c05pat: the STRUCTURAL PATTERN matcher of AcraCensor (acra-censor/common/matching_logic.go)
// against Model/CensorPattern.v.
//
// A scenario generates one statement (every DML kind, joins, sub-selects, unions, IN lists, BETWEEN, functions,
// CASE, CAST, INTERVAL ...) as a tree of text segments in which the GENERALISABLE positions are marked (slots):
//
//	value     a literal / TRUE / NULL / function call          -> %%VALUE%%
//	column    a column name or a column expression             -> %%COLUMN%%
//	where     the WHERE clause (also an absent one)             -> %%WHERE%%
//	subquery  a parenthesised sub-select                        -> (%%SUBQUERY%%)
//	list      the last k>=1 values of an IN list                -> %%LIST_OF_VALUES%%
//	star      a select list                                     -> *
//	select / union / insert / update / delete / begin ...       -> %%SELECT%% ... (whole statement of the kind)
//
// and derives from it
//   - patterns obtained by generalising random subsets of the slots (every placeholder kind): the REAL
//     ParsePatterns + CheckPatternsMatching must say "match" (oracle class generalisation-missed);
//   - spelling variants of the statement (keyword / identifier case): must still match;
//   - near misses: the statement with ONE position outside the generalised slots changed (a table, a column, a
//     literal, an operator, a keyword such as DESC/ALL/DISTINCT, a LIMIT, a RETURNING list ...): the real matcher
//     must say "no match" (oracle class pattern-overmatch; the one documented exception, a change in the clauses
//     after a generalised WHERE, is the known finding where-placeholder-absorbs-tail);
//   - damaged ASTs (one pointer / interface / slice field of the parsed statement or pattern set to nil): the
//     real matcher either answers or panics with a nil dereference, and the model must predict which.
//
// After the generated scenarios the domain runs the CLAUSE family (c05clauses.go): tables of the clauses of every
// statement kind, pattern and statement differing in exactly one clause, with and without each placeholder kind.
//
// Every real (pattern AST, statement AST, result) is exported to tree form by reflection (c05pat_tree.go) and
// replayed on match_impl (OpMatch / OpMatchRaw); the documented relation instance_of is evaluated by the model on
// the same pairs and compared with what the generator knows (OpInst).

import (
	"fmt"
	"reflect"
	"strings"

	"acra-vh/vh"

	"github.com/cossacklabs/acra/acra-censor/common"
	"github.com/cossacklabs/acra/sqlparser"
	"github.com/cossacklabs/acra/sqlparser/dialect/mysql"
	"github.com/cossacklabs/acra/sqlparser/dialect/postgresql"
)

func init() { register("c05pat", "Model.RunCensorPattern", runC05pat) }

// ---------- statements as trees of segments ----------

type c5pSeg struct {
	text  string    // leaf text
	kw    bool      // leaf is a keyword: spelling variants change its case
	ident bool      // leaf is an unquoted identifier: spelling variants change its case
	mut   []string  // leaf: alternative texts that make a DIFFERENT statement (near miss)
	slot  string    // "" or the placeholder class
	ph    string    // text of the placeholder that generalises this slot
	kids  []*c5pSeg // content (composite / slot)
	tight bool      // composite: no blanks between the parts
	tails []*c5pSeg // leaf: WHERE slots in whose trailing clauses (same statement) the leaf lies
}

type c5pGen struct {
	r      *vh.Rng
	tails  []*c5pSeg
	pg     bool
	rep    *vh.Report
	noTail bool // arms of a UNION: ORDER BY / LIMIT / lock written after the last arm belong to the UNION node
}

func c5pLeaf(t string) *c5pSeg             { return &c5pSeg{text: t} }
func c5pKw(t string) *c5pSeg               { return &c5pSeg{text: t, kw: true} }
func c5pSeq(ks ...*c5pSeg) *c5pSeg         { return &c5pSeg{kids: ks} }
func c5pTight(ks ...*c5pSeg) *c5pSeg       { return &c5pSeg{kids: ks, tight: true} }
func c5pSlot(class, ph string, ks ...*c5pSeg) *c5pSeg {
	if ks == nil {
		ks = []*c5pSeg{}
	}
	return &c5pSeg{slot: class, ph: ph, kids: ks}
}

func (g *c5pGen) mutLeaf(t string, kw bool, alts ...string) *c5pSeg {
	return &c5pSeg{text: t, kw: kw, mut: alts, tails: append([]*c5pSeg{}, g.tails...)}
}

var c5pTables = []string{"t0", "t1", "t2", "secrets", "plain", "Orders"}
var c5pCols = []string{"a", "b", "c", "n", "id", "Name"}

func (g *c5pGen) pick(xs []string) string { return xs[g.r.Intn(len(xs))] }

func (g *c5pGen) other(xs []string, x string) string {
	for {
		y := g.pick(xs)
		if !strings.EqualFold(x, y) {
			return y
		}
	}
}

func (g *c5pGen) table() *c5pSeg {
	t := g.pick(c5pTables)
	s := g.mutLeaf(t, false, g.other(c5pTables, t), "zz_"+t)
	s.ident = true
	return s
}

func (g *c5pGen) colName() *c5pSeg {
	c := g.pick(c5pCols)
	s := g.mutLeaf(c, false, g.other(c5pCols, c), "zz_"+c)
	s.ident = true
	return s
}

// a column reference: the name is a %%COLUMN%% slot; sometimes qualified
func (g *c5pGen) column() *c5pSeg {
	if g.r.Intn(4) == 0 {
		t := g.pick(c5pTables)
		q := g.mutLeaf(t+".", false, g.other(c5pTables, t)+".")
		return c5pTight(q, c5pSlot("column", "%%COLUMN%%", g.colName()))
	}
	return c5pSlot("colref", "%%COLUMN%%", g.colName()) // the whole expression is the column reference
}

// a literal leaf (no slot)
func (g *c5pGen) litLeaf() *c5pSeg {
	switch g.r.Intn(12) {
	case 0, 1, 2:
		n := g.r.Intn(1000)
		return g.mutLeaf(fmt.Sprint(n), false, fmt.Sprint(n+1), fmt.Sprintf("'%d'", n))
	case 3, 4, 5:
		s := []string{"x", "secret", "a b", "Z9", "o''k", "", "caf\xc3\xa9"}[g.r.Intn(7)]
		return g.mutLeaf("'"+s+"'", false, "'"+s+"q'", "'"+strings.ToUpper(s)+"Q'")
	case 6:
		return g.mutLeaf("1.5", false, "1.50", "15")
	case 7:
		return g.mutLeaf("x'ff'", false, "x'fe'", "0xff")
	case 8:
		return g.mutLeaf("0x1f", false, "0x1e")
	case 9:
		return g.mutLeaf("true", true, "false")
	case 10:
		return g.mutLeaf("null", true, "0")
	default:
		if g.pg {
			return g.mutLeaf("$1", false, "$2")
		}
		return g.mutLeaf(":v1", false, ":v2", "?")
	}
}

// a value: literal or function call inside a %%VALUE%% slot
func (g *c5pGen) value(depth int) *c5pSeg {
	if depth > 0 && g.r.Intn(6) == 0 {
		return c5pSlot([]string{"value", "columnexpr"}[g.r.Intn(2)], "", g.funcCall(depth-1))
	}
	if g.pg && g.r.Intn(10) == 0 {
		l := g.litLeaf()
		for l.text == "null" || l.text == "true" {
			l = g.litLeaf()
		}
		return c5pSlot("value", "", c5pTight(l, g.mutLeaf("::text", false, "::int")))
	}
	return c5pSlot("value", "", g.litLeaf())
}

func (g *c5pGen) funcCall(depth int) *c5pSeg {
	switch g.r.Intn(5) {
	case 0:
		return c5pSeq(g.mutLeaf("now(", false, "curdate("), c5pLeaf(")"))
	case 1:
		return c5pSeq(g.mutLeaf("lower(", false, "upper("), g.scalar(depth), c5pLeaf(")"))
	case 2:
		return c5pSeq(g.mutLeaf("coalesce(", false, "ifnull("), g.scalar(depth), c5pLeaf(","), g.value(0), c5pLeaf(")"))
	case 3:
		return c5pSeq(g.mutLeaf("count(", false, "sum("), g.mutLeaf("", true, "distinct"), g.column(), c5pLeaf(")"))
	default:
		return c5pSeq(c5pTight(c5pSlot("column", "%%COLUMN%%", g.mutLeaf("concat", false, "concat_ws")), c5pLeaf("(")), g.scalar(depth), c5pLeaf(","), g.value(0), c5pLeaf(")"))
	}
}

// a scalar expression
func (g *c5pGen) scalar(depth int) *c5pSeg {
	k := g.r.Intn(14)
	if depth <= 0 && k >= 5 {
		k = g.r.Intn(5)
	}
	switch k {
	case 0, 1, 2:
		return g.column()
	case 3, 4:
		return g.value(depth)
	case 5:
		return c5pSeq(g.scalar(depth-1), g.mutLeaf([]string{"+", "-", "*", "/"}[g.r.Intn(4)], false, "%"), g.scalar(depth-1))
	case 6:
		return c5pSlot("columnexpr", "", c5pSeq(c5pLeaf("("), g.scalar(depth-1), c5pLeaf(")")))
	case 7:
		return g.subquery(depth-1, true)
	case 8: // CASE
		ks := []*c5pSeg{c5pKw("case")}
		if g.r.Bool() {
			ks = append(ks, g.column())
			ks = append(ks, c5pKw("when"), g.value(0), c5pKw("then"), g.value(0))
		} else {
			ks = append(ks, c5pKw("when"), g.cond(depth-1), c5pKw("then"), g.value(0))
		}
		if g.r.Bool() {
			ks = append(ks, c5pKw("else"), g.scalar(0))
		}
		ks = append(ks, c5pKw("end"))
		return c5pSlot("columnexpr", "", c5pSeq(ks...))
	case 9: // CONVERT / CAST
		typ := g.mutLeaf([]string{"char", "char(10)", "decimal(10, 2)", "signed", "binary(4)"}[g.r.Intn(5)], true, "char(11)", "date")
		if g.r.Bool() {
			return c5pSeq(c5pKw("cast("), g.scalar(depth-1), c5pKw("as"), typ, c5pLeaf(")"))
		}
		return c5pSeq(c5pKw("convert("), g.scalar(depth-1), c5pLeaf(","), typ, c5pLeaf(")"))
	case 10: // INTERVAL
		return c5pSeq(c5pSlot("value", "", c5pSeq(g.mutLeaf("now(", false, "curdate("), c5pLeaf(")"))), g.mutLeaf("-", false, "+"), c5pKw("interval"),
			c5pSlot("value", "", g.mutLeaf(fmt.Sprint(1+g.r.Intn(30)), false, "99")), g.mutLeaf("day", true, "hour"))
	case 11:
		return c5pSlot([]string{"value", "columnexpr"}[g.r.Intn(2)], "", g.funcCall(depth-1))
	case 12:
		return c5pSeq(g.mutLeaf("-", false, "~"), g.column())
	default:
		return c5pSeq(g.column(), c5pKw("collate"), g.mutLeaf("utf8_bin", false, "utf8_general_ci"))
	}
}

// slot text of a value / column-expression slot depends on the class
func c5pPh(class string) string {
	switch class {
	case "value":
		return "%%VALUE%%"
	case "columnexpr", "column", "colref":
		return "%%COLUMN%%"
	}
	return ""
}

// a parenthesised sub-select (as expression or table)
func (g *c5pGen) subquery(depth int, scalarCtx bool) *c5pSeg {
	inner := g.selectStmt(depth, scalarCtx)
	return c5pSeq(c5pLeaf("("), c5pSlot("subquery", "%%SUBQUERY%%", inner), c5pLeaf(")"))
}

// an IN list; the last k>=1 values form a %%LIST_OF_VALUES%% slot
func (g *c5pGen) inList() *c5pSeg {
	n := 1 + g.r.Intn(5)
	k := 1 + g.r.Intn(n)
	var head, tail []*c5pSeg
	for i := 0; i < n; i++ {
		var v *c5pSeg
		if i < n-k && g.r.Intn(6) == 0 {
			v = g.subquery(0, true)
		} else {
			v = g.value(0)
		}
		if i > 0 {
			if i < n-k {
				head = append(head, c5pLeaf(","))
			} else if i > n-k {
				tail = append(tail, c5pLeaf(","))
			}
		}
		if i < n-k {
			head = append(head, v)
		} else {
			tail = append(tail, v)
		}
	}
	ks := []*c5pSeg{c5pLeaf("(")}
	ks = append(ks, head...)
	if len(head) > 0 {
		ks = append(ks, c5pLeaf(","))
	}
	ks = append(ks, c5pSlot("list", "%%LIST_OF_VALUES%%", tail...), c5pLeaf(")"))
	return c5pSeq(ks...)
}

// a condition
func (g *c5pGen) cond(depth int) *c5pSeg {
	k := g.r.Intn(18)
	if depth <= 0 && k >= 6 {
		k = g.r.Intn(6)
	}
	switch k {
	case 0, 1, 2:
		op := []string{"=", "<", ">", "<=", ">=", "!=", "<=>"}[g.r.Intn(7)]
		return c5pSeq(g.scalar(depth), g.mutLeaf(op, false, "<>"), g.scalar(depth))
	case 3:
		return c5pSeq(g.column(), g.mutLeaf("", true, "not"), c5pKw("between"), g.value(0), c5pKw("and"), g.value(0))
	case 4, 16, 17:
		return c5pSeq(g.column(), g.mutLeaf("", true, "not"), c5pKw("in"), g.inList())
	case 5:
		return c5pSeq(g.column(), c5pKw("is"), g.mutLeaf("", true, "not"), c5pKw("null"))
	case 6, 7:
		return c5pSeq(g.cond(depth-1), g.mutLeaf("and", true, "or"), g.cond(depth-1))
	case 8:
		return c5pSeq(g.cond(depth-1), g.mutLeaf("or", true, "xor"), g.cond(depth-1))
	case 9:
		return c5pSeq(c5pKw("not"), c5pLeaf("("), g.cond(depth-1), c5pLeaf(")"))
	case 10:
		return c5pSeq(c5pLeaf("("), g.cond(depth-1), c5pLeaf(")"))
	case 11:
		return c5pSeq(g.column(), g.mutLeaf("", true, "not"), c5pKw("in"), g.subquery(depth-1, true))
	case 12:
		return c5pSeq(g.mutLeaf("", true, "not"), c5pKw("exists"), g.subquery(depth-1, false))
	case 13:
		ks := []*c5pSeg{g.column(), g.mutLeaf("like", true, "not like"), g.value(0)}
		if g.r.Intn(3) == 0 {
			ks = append(ks, c5pKw("escape"), c5pSlot("value", "", g.mutLeaf("'!'", false, "'#'")))
		}
		return c5pSeq(ks...)
	case 14:
		return c5pSeq(g.scalar(depth-1), g.mutLeaf("=", false, "!="), g.subquery(depth-1, true))
	default:
		return c5pSeq(c5pLeaf("("), g.column(), c5pLeaf(","), g.column(), c5pLeaf(")"), g.mutLeaf("=", false, "!="), c5pLeaf("("), g.value(0), c5pLeaf(","), g.value(0), c5pLeaf(")"))
	}
}

// WHERE clause slot (possibly absent)
func (g *c5pGen) where(depth int, pAbsent int) *c5pSeg {
	if g.r.Intn(pAbsent) == 0 {
		return c5pSlot("where", "%%WHERE%%")
	}
	return c5pSlot("where", "%%WHERE%%", c5pKw("where"), g.cond(depth))
}

// a table reference
func (g *c5pGen) tableRef(depth int) *c5pSeg {
	k := g.r.Intn(12)
	if depth <= 0 && k >= 6 {
		k = g.r.Intn(6)
	}
	switch k {
	case 0, 1, 2, 3:
		return g.table()
	case 4, 5:
		al := g.mutLeaf("x"+fmt.Sprint(g.r.Intn(3)), false, "zz")
		al.ident = true
		return c5pSeq(g.table(), c5pKw("as"), al)
	case 6, 7:
		j := []string{"join", "inner join", "left join", "right join", "cross join", "straight_join"}[g.r.Intn(6)]
		alt := "left outer join"
		if strings.HasPrefix(j, "left") {
			alt = "right join"
		}
		ks := []*c5pSeg{g.tableRef(depth - 1), g.mutLeaf(j, true, alt), g.tableRef(0)}
		if g.r.Intn(5) == 0 {
			ks = append(ks, c5pKw("using"), c5pLeaf("("), c5pSlot("column", "%%COLUMN%%", g.colName()), c5pLeaf(")"))
		} else {
			ks = append(ks, c5pKw("on"), g.cond(0))
		}
		return c5pSeq(ks...)
	case 8:
		return c5pSeq(g.tableRef(depth-1), g.mutLeaf("natural join", true, "natural left join"), g.table())
	case 9:
		al := g.mutLeaf("s"+fmt.Sprint(g.r.Intn(3)), false, "zs")
		return c5pSeq(g.subquery(depth-1, false), c5pKw("as"), al)
	case 10:
		return c5pSeq(c5pLeaf("("), g.tableRef(depth-1), c5pLeaf(","), g.tableRef(0), c5pLeaf(")"))
	default:
		if g.pg {
			return g.table()
		}
		return c5pSeq(g.table(), g.mutLeaf("use index (", true, "ignore index (", "force index ("), c5pSlot("column", "%%COLUMN%%", g.mutLeaf("i1", false, "i2")), c5pLeaf(")"))
	}
}

// one item of a select list
func (g *c5pGen) selectItem(depth int, single bool) *c5pSeg {
	switch g.r.Intn(10) {
	case 0:
		return c5pSlot("columnexpr", "", c5pLeaf("*"))
	case 1:
		t := g.pick(c5pTables)
		if single {
			// a select list that is a single `t.*` is the `*` wild card of the matcher ("all columns are allowed")
			return c5pLeaf(t + ".*")
		}
		return g.mutLeaf(t+".*", false, g.other(c5pTables, t)+".*")
	case 2, 3:
		al := g.mutLeaf("al"+fmt.Sprint(g.r.Intn(3)), false, "zal")
		al.ident = true
		return c5pSeq(g.scalar(depth), c5pKw("as"), c5pSlot("column", "%%COLUMN%%", al))
	default:
		return g.scalar(depth)
	}
}

func (g *c5pGen) orderBy() []*c5pSeg {
	ks := []*c5pSeg{c5pKw("order by"), g.scalar(0), g.mutLeaf([]string{"", "asc", "desc"}[g.r.Intn(3)], true, "desc")}
	if ks[2].text == "desc" {
		ks[2].mut = []string{"asc"}
	}
	if g.r.Intn(3) == 0 {
		ks = append(ks, c5pLeaf(","), g.column())
	}
	return ks
}

func (g *c5pGen) limit() []*c5pSeg {
	n := 1 + g.r.Intn(50)
	ks := []*c5pSeg{c5pKw("limit"), c5pSlot("value", "", g.mutLeaf(fmt.Sprint(n), false, fmt.Sprint(n+1)))}
	if g.r.Intn(3) == 0 {
		ks = append(ks, c5pKw("offset"), c5pSlot("value", "", g.mutLeaf(fmt.Sprint(g.r.Intn(9)), false, "77")))
	}
	return ks
}

// SELECT; the whole statement is a %%SELECT%% slot
func (g *c5pGen) selectStmt(depth int, scalarCtx bool) *c5pSeg {
	noTail := g.noTail
	g.noTail = false
	ks := []*c5pSeg{c5pKw("select")}
	if !scalarCtx {
		ks = append(ks, g.mutLeaf([]string{"", "", "", "distinct", "sql_no_cache"}[g.r.Intn(5)], true, "distinct"))
		if ks[1].text == "distinct" {
			ks[1].mut = []string{""}
		}
	}
	var items []*c5pSeg
	n := 1
	if !scalarCtx {
		n += g.r.Intn(3)
	}
	for i := 0; i < n; i++ {
		if i > 0 {
			items = append(items, c5pLeaf(","))
		}
		if scalarCtx {
			items = append(items, g.scalar(depth))
		} else {
			items = append(items, g.selectItem(depth, n == 1))
		}
	}
	ks = append(ks, c5pSlot("star", "*", items...))
	if g.r.Intn(12) != 0 {
		ks = append(ks, c5pKw("from"), g.tableRef(depth))
		for g.r.Intn(4) == 0 {
			ks = append(ks, c5pLeaf(","), g.tableRef(0))
		}
		w := g.where(depth, 4)
		ks = append(ks, w)
		saved := g.tails
		g.tails = append(append([]*c5pSeg{}, g.tails...), w)
		if g.r.Intn(4) == 0 {
			ks = append(ks, c5pKw("group by"), g.column())
			if g.r.Bool() {
				ks = append(ks, c5pKw("having"), c5pSeq(g.mutLeaf("count(*)", false, "sum(n)"), g.mutLeaf(">", false, "<"), g.value(0)))
			}
		}
		if !noTail && g.r.Intn(3) == 0 {
			ks = append(ks, g.orderBy()...)
		}
		if !noTail && g.r.Intn(3) == 0 {
			ks = append(ks, g.limit()...)
		}
		if !noTail && !scalarCtx && depth > 0 && g.r.Intn(8) == 0 {
			ks = append(ks, g.mutLeaf("for update", true, "lock in share mode"))
		}
		g.tails = saved
	}
	return c5pSlot("select", "%%SELECT%%", ks...)
}

func (g *c5pGen) unionArm(depth int) *c5pSeg {
	g.noTail = true
	s := g.selectStmt(depth, false)
	g.noTail = false
	return s
}

func (g *c5pGen) unionStmt(depth int) *c5pSeg {
	ks := []*c5pSeg{g.unionArm(depth - 1), g.mutLeaf([]string{"union", "union all", "union distinct"}[g.r.Intn(3)], true, "union all"), g.unionArm(depth - 1)}
	if ks[1].text == "union all" {
		ks[1].mut = []string{"union"}
	}
	if g.r.Intn(3) == 0 {
		ks = append(ks, g.mutLeaf("union", true, "union all"), g.unionArm(0))
	}
	if g.r.Intn(4) == 0 {
		ks = append(ks, c5pKw("order by"), c5pSlot("value", "", g.mutLeaf("1", false, "2")))
	}
	if g.r.Intn(4) == 0 {
		ks = append(ks, g.limit()...)
	}
	return c5pSlot("union", "%%UNION%%", ks...)
}

func (g *c5pGen) returning() []*c5pSeg {
	if g.r.Intn(3) != 0 {
		return nil
	}
	switch g.r.Intn(3) {
	case 0:
		return []*c5pSeg{c5pKw("returning"), c5pSlot("star", "*", c5pSlot("columnexpr", "", c5pLeaf("*")))}
	case 1:
		return []*c5pSeg{c5pKw("returning"), c5pSlot("star", "*", g.column(), c5pLeaf(","), g.column())}
	default:
		return []*c5pSeg{c5pKw("returning"), c5pSlot("star", "*", g.subquery(0, true))}
	}
}

func (g *c5pGen) insertStmt(depth int) *c5pSeg {
	ks := []*c5pSeg{g.mutLeaf([]string{"insert into", "insert ignore into", "replace into", "insert"}[g.r.Intn(4)], true, "replace")}
	ks = append(ks, g.table())
	ncol := 1 + g.r.Intn(3)
	mode := g.r.Intn(10)
	if mode == 9 {
		ks = append(ks, g.mutLeaf("default values", true, "values (default)"))
		ks = append(ks, g.returning()...)
		return c5pSlot("insert", "%%INSERT%%", ks...)
	}
	if g.r.Intn(5) != 0 {
		ks = append(ks, c5pLeaf("("))
		for i := 0; i < ncol; i++ {
			if i > 0 {
				ks = append(ks, c5pLeaf(","))
			}
			ks = append(ks, c5pSlot("column", "%%COLUMN%%", g.colName()))
		}
		ks = append(ks, c5pLeaf(")"))
	}
	switch {
	case mode < 6:
		ks = append(ks, c5pKw("values"))
		for row, nrow := 0, 1+g.r.Intn(2); row < nrow; row++ {
			if row > 0 {
				ks = append(ks, c5pLeaf(","))
			}
			ks = append(ks, c5pLeaf("("))
			for i := 0; i < ncol; i++ {
				if i > 0 {
					ks = append(ks, c5pLeaf(","))
				}
				if g.r.Intn(8) == 0 {
					ks = append(ks, g.mutLeaf("default", true, "null"))
				} else {
					ks = append(ks, g.value(1))
				}
			}
			ks = append(ks, c5pLeaf(")"))
		}
		if !g.pg && g.r.Intn(4) == 0 {
			ks = append(ks, c5pKw("on duplicate key update"), g.column(), c5pLeaf("="), g.value(0))
		}
	case mode == 6:
		ks = append(ks, g.selectStmt(depth-1, false))
	case mode == 7:
		ks = append(ks, c5pLeaf("("), g.selectStmt(depth-1, false), c5pLeaf(")"))
	default:
		ks = append(ks, g.unionStmt(1))
	}
	ks = append(ks, g.returning()...)
	return c5pSlot("insert", "%%INSERT%%", ks...)
}

func (g *c5pGen) updateStmt(depth int) *c5pSeg {
	ks := []*c5pSeg{c5pKw("update"), g.tableRef(0), c5pKw("set")}
	for i, n := 0, 1+g.r.Intn(2); i < n; i++ {
		if i > 0 {
			ks = append(ks, c5pLeaf(","))
		}
		ks = append(ks, g.column(), c5pLeaf("="), g.scalar(1))
	}
	if g.pg && g.r.Intn(3) == 0 {
		ks = append(ks, c5pKw("from"), g.tableRef(0))
	}
	w := g.where(depth, 5)
	ks = append(ks, w)
	saved := g.tails
	g.tails = append(append([]*c5pSeg{}, g.tails...), w)
	if !g.pg && g.r.Intn(4) == 0 {
		ks = append(ks, g.orderBy()...)
	}
	if !g.pg && g.r.Intn(4) == 0 {
		ks = append(ks, c5pKw("limit"), c5pSlot("value", "", g.mutLeaf("3", false, "4")))
	}
	g.tails = saved
	if g.pg {
		ks = append(ks, g.returning()...)
	}
	return c5pSlot("update", "%%UPDATE%%", ks...)
}

func (g *c5pGen) deleteStmt(depth int) *c5pSeg {
	ks := []*c5pSeg{c5pKw("delete from"), g.table()}
	w := g.where(depth, 4)
	ks = append(ks, w)
	saved := g.tails
	g.tails = append(append([]*c5pSeg{}, g.tails...), w)
	if !g.pg && g.r.Intn(4) == 0 {
		ks = append(ks, g.orderBy()...)
	}
	if !g.pg && g.r.Intn(4) == 0 {
		ks = append(ks, c5pKw("limit"), c5pSlot("value", "", g.mutLeaf("3", false, "4")))
	}
	g.tails = saved
	ks = append(ks, g.returning()...)
	return c5pSlot("delete", "%%DELETE%%", ks...)
}

// statements outside DML: the pattern is the statement itself (no placeholder inside), BEGIN/COMMIT/ROLLBACK have
// a whole-statement placeholder
const c5pOtherKinds = 15

func (g *c5pGen) otherStmt(variant int) *c5pSeg {
	if variant < 0 {
		variant = g.r.Intn(c5pOtherKinds)
	}
	switch variant {
	case 12: // statement kinds the matcher has no comparator for (known finding pattern-unsupported-statement-kind)
		return c5pSeq(c5pKw("stream"), c5pLeaf("*"), c5pKw("from"), g.table())
	case 13:
		if g.pg {
			return c5pSeq(c5pKw("execute"), g.mutLeaf("s1", false, "s2"))
		}
		return c5pSeq(c5pKw("prepare"), g.mutLeaf("s1", false, "s2"), c5pKw("from"), g.mutLeaf("'select 1'", false, "'select 2'"))
	case 14:
		if g.r.Bool() {
			return c5pSeq(c5pKw("execute"), g.mutLeaf("s1", false, "s2"))
		}
		return c5pSeq(c5pKw("deallocate prepare"), g.mutLeaf("s1", false, "s2"))
	case 0:
		return c5pSlot("begin", "%%BEGIN%%", g.mutLeaf([]string{"begin", "start transaction"}[g.r.Intn(2)], true, "commit"))
	case 1:
		return c5pSlot("commit", "%%COMMIT%%", g.mutLeaf("commit", true, "rollback"))
	case 2:
		return c5pSlot("rollback", "%%ROLLBACK%%", g.mutLeaf("rollback", true, "begin"))
	case 3:
		return c5pSeq(c5pKw("set"), g.mutLeaf("autocommit", false, "sql_mode"), c5pLeaf("="), g.mutLeaf("1", false, "0"))
	case 4:
		return c5pSeq(c5pKw("show"), g.mutLeaf("tables", true, "databases"))
	case 5:
		return c5pSeq(c5pKw("use"), g.mutLeaf("db1", false, "db2"))
	case 6:
		return c5pSeq(c5pKw("create table"), g.mutLeaf("nt", false, "nt2"), c5pLeaf("("), g.mutLeaf("a int", false, "a bigint"), c5pLeaf(")"))
	case 7:
		return c5pSeq(g.mutLeaf("drop table", true, "truncate table"), g.mutLeaf("nt", false, "nt2"))
	case 8:
		return c5pSeq(c5pKw("alter table"), g.mutLeaf("nt", false, "nt2"), c5pKw("add column"), c5pLeaf("b int"))
	case 9:
		return c5pSeq(g.mutLeaf("explain", true, "describe"), c5pLeaf("select 1"))
	case 10:
		return c5pSeq(c5pKw("analyze table"), g.mutLeaf("nt", false, "nt2"))
	default:
		return c5pSeq(c5pKw("create database"), g.mutLeaf("d1", false, "d2"))
	}
}

// c5pWrong: texts that are NOT what the placeholder of the class stands for (put in place of the slot's content)
func c5pWrong(class string) []string {
	switch class {
	case "value":
		return []string{"(select 1)", "a + 1", "zz_col", "(1)"}
	case "colref", "columnexpr":
		return []string{"a + 1", "null", "true", "not a"}
	case "list":
		return []string{"1, (select 2)", "(select 2)", "zz_col", "1, zz_col, 2"}
	case "subquery":
		return []string{"1", "zz_col"}
	case "select":
		return []string{"select 1 union select 2"}
	case "union":
		return []string{"select 1"}
	}
	return nil
}

// ---------- rendering ----------

type c5pRender struct {
	gen     map[*c5pSeg]bool // generalised slots
	mut     *c5pSeg          // leaf to change (near miss)
	mutText string
	repl    *c5pSeg // slot whose content is replaced by replText (something the placeholder does not stand for)
	replTxt string
	caseOpt int // 0 as generated, 1 upper-case keywords, 2 upper-case keywords and identifiers
}

func (s *c5pSeg) render(b *[]string, o *c5pRender) {
	if s == o.repl {
		*b = append(*b, o.replTxt)
		return
	}
	if s.slot != "" && o.gen[s] {
		*b = append(*b, s.ph)
		return
	}
	if s.kids != nil {
		if s.tight {
			var parts []string
			for _, k := range s.kids {
				k.render(&parts, o)
			}
			*b = append(*b, strings.Join(parts, ""))
			return
		}
		for _, k := range s.kids {
			k.render(b, o)
		}
		return
	}
	t := s.text
	if s == o.mut {
		t = o.mutText
	}
	if (s.kw && o.caseOpt >= 1) || (s.ident && o.caseOpt >= 2) {
		t = strings.ToUpper(t)
	}
	if t != "" {
		*b = append(*b, t)
	}
}

func (s *c5pSeg) sql(o *c5pRender) string {
	var parts []string
	s.render(&parts, o)
	return strings.Join(parts, " ")
}

// c5pTailsOf: the WHERE slots in whose trailing clauses the segment lies (taken from its first mutable leaf)
func c5pTailsOf(root, s *c5pSeg) []*c5pSeg {
	var leaves []*c5pSeg
	s.walk(map[*c5pSeg]bool{}, nil, &leaves)
	if len(leaves) > 0 {
		return leaves[0].tails
	}
	return nil
}

// walk collects the slots and the mutable leaves that are visible under the generalisation gen
func (s *c5pSeg) walk(gen map[*c5pSeg]bool, slots *[]*c5pSeg, leaves *[]*c5pSeg) {
	if s.slot != "" {
		if slots != nil {
			*slots = append(*slots, s)
		}
		if gen[s] {
			return
		}
	}
	if s.kids == nil && len(s.mut) > 0 && leaves != nil {
		*leaves = append(*leaves, s)
	}
	for _, k := range s.kids {
		k.walk(gen, slots, leaves)
	}
}

// ---------- the domain ----------

type c5pRun struct {
	rep    *vh.Report
	r      *vh.Rng
	parser *sqlparser.Parser
	seen   map[string]bool
	// observations on the current pattern, recorded as ONE operation (OpMatchMany) by flush
	batchPat   string
	batchLabel string
	batchStmts []string
	batchVals  [][]byte
	batchMore  int // the clause family (c05clauses.go) has many small statements per pattern: larger operations
}

func c5pFlag(b bool) []byte {
	if b {
		return []byte{1}
	}
	return []byte{0}
}

// match runs the real matcher on (statement, pattern) and records the observation for the model
func (e *c5pRun) match(label string, stmt, pat sqlparser.Statement, raw bool, doc, loose bool) (bool, bool) {
	var res bool
	o := vh.Guard(func() vh.Outcome {
		res = common.CheckPatternsMatching([]sqlparser.Statement{pat}, stmt)
		if raw {
			return vh.Ok(c5pFlag(res))
		}
		// result; the parser's trees have the assumed shape; no node kind without a comparator (except in the
		// statements generated for that purpose); what the documented relation must say (generator)
		return vh.Ok(c5pFlag(res), []byte{1}, []byte{1}, c5pFlag(c5pMissClass(c5pKindName(stmt)) == "generalisation-missed"), c5pFlag(doc), c5pFlag(loose))
	})
	before := c5pTypedNil
	tp, ts := c5pTree(pat), c5pTree(stmt)
	if c5pTypedNil != before {
		e.rep.Count("typed-nil-in-interface")
	}
	op := "OpMatch"
	if raw {
		op = "OpMatchRaw"
	}
	tph, tsh := tp.H(), ts.H()
	term := fmt.Sprintf("(%s %s %s)", op, tph, tsh)
	if e.seen[term] {
		e.rep.Count("same-pair-not-repeated")
		return res, o.Kind == "panic"
	}
	e.seen[term] = true
	e.rep.Distribution["tree-nodes"] += tp.size() + ts.size()
	e.rep.Count("pairs")
	if raw || o.Kind != "ok" {
		e.rep.Add(label, term, o)
		return res, o.Kind == "panic"
	}
	// same pattern as the previous observation: one operation for all of them
	if e.batchPat != tph || len(e.batchStmts) >= 5+e.batchMore { // small operations: the case files are replayed in parallel
		e.flush()
		e.batchPat, e.batchLabel = tph, label
	} else {
		e.batchLabel += " | " + label
	}
	var six []byte
	for _, v := range o.Vals {
		six = append(six, v...)
	}
	e.batchStmts = append(e.batchStmts, tsh)
	e.batchVals = append(e.batchVals, six)
	return res, false
}

// flush records the observations gathered for the current pattern
func (e *c5pRun) flush() {
	if len(e.batchStmts) > 0 {
		e.rep.Add(e.batchLabel, fmt.Sprintf("(OpMatchMany %s [%s])", e.batchPat, strings.Join(e.batchStmts, "; ")), vh.Ok(e.batchVals...))
	}
	e.batchPat, e.batchLabel, e.batchStmts, e.batchVals = "", "", nil, nil
}

func (e *c5pRun) parsePattern(p string) sqlparser.Statement {
	ps, err := common.ParsePatterns([]string{p}, e.parser)
	if err != nil || len(ps) != 1 {
		return nil
	}
	return ps[0]
}

func runC05pat(rep *vh.Report, r *vh.Rng, n int, thorough bool) {
	e := &c5pRun{rep: rep, r: r, parser: sqlparser.New(sqlparser.ModeStrict), seen: map[string]bool{}}
	nGen, nMiss := 4, 4
	if thorough {
		nGen, nMiss = 8, 8
	}
	// every statement kind outside DML once per run (small trees): BEGIN/COMMIT/ROLLBACK placeholders, the
	// reflect.DeepEqual kinds, and the kinds the matcher has no comparator for
	sqlparser.SetDefaultDialect(mysql.NewMySQLDialect())
	for v := 0; v < c5pOtherKinds; v++ {
		g := &c5pGen{r: r, rep: rep}
		st := g.otherStmt(v)
		fillPh(st)
		e.scenario(1000+v, st, 1, 2)
		e.flush()
	}
	for sc := 0; sc < n; sc++ {
		pg := sc%4 == 3
		if pg {
			sqlparser.SetDefaultDialect(postgresql.NewPostgreSQLDialect())
		} else {
			sqlparser.SetDefaultDialect(mysql.NewMySQLDialect())
		}
		g := &c5pGen{r: r, pg: pg, rep: rep}
		var st *c5pSeg
		kind := r.Intn(20)
		if sc < 20 {
			kind = (sc * 7) % 20 // every statement kind early in every run
		}
		switch {
		case kind < 8:
			st = g.selectStmt(2, false)
		case kind < 10:
			st = g.unionStmt(2)
		case kind < 13:
			st = g.insertStmt(2)
		case kind < 15:
			st = g.updateStmt(2)
		case kind < 17:
			st = g.deleteStmt(2)
		default:
			st = g.otherStmt(-1)
		}
		fillPh(st)
		e.scenario(sc, st, nGen, nMiss)
		e.flush()
	}
	sqlparser.SetDefaultDialect(mysql.NewMySQLDialect())
	// the clause tables of every statement kind: pattern and statement differ in exactly one clause (c05clauses.go)
	e.clauseFamily(thorough)
}

// fillPh sets the placeholder text of value / column-expression slots
func fillPh(s *c5pSeg) {
	if s.slot != "" && s.ph == "" {
		s.ph = c5pPh(s.slot)
	}
	for _, k := range s.kids {
		fillPh(k)
	}
}

func (e *c5pRun) scenario(sc int, st *c5pSeg, nGen, nMiss int) {
	r := e.r
	none := &c5pRender{gen: map[*c5pSeg]bool{}}
	text := st.sql(none)
	stmt, err := e.parser.Parse(text)
	if err != nil {
		e.rep.Count("statement-rejected")
		if len(e.rep.Samples) < 8 {
			e.rep.Samples = append(e.rep.Samples, "statement-rejected: "+text+" :: "+err.Error())
		}
		return
	}
	kind := c5pKindName(stmt)
	e.rep.Count("stmt:" + kind)
	var slots []*c5pSeg
	st.walk(map[*c5pSeg]bool{}, &slots, nil)

	// the statement as its own pattern
	if self := e.parsePattern(text); self != nil {
		res, pan := e.match(fmt.Sprintf("sc%d self q=%s", sc, text), stmt, self, false, true, true)
		e.rep.OracleChecks++
		if pan {
			e.rep.Violate("pattern-panic", "the matcher panicked on a statement used as its own pattern: "+text, "pattern: "+text+"\nstatement: "+text)
		} else if !res {
			e.rep.Violate(c5pMissClass(kind), fmt.Sprintf("the statement %q used as a pattern does not match itself", text), "pattern: "+text+"\nstatement: "+text)
		}
	}

	// generalisations: random subsets of the slots; the first rounds take every single slot class in turn
	for k := 0; k < nGen+len(slots); k++ {
		gen := map[*c5pSeg]bool{}
		if k < len(slots) {
			if k >= 6 && r.Intn(2) == 0 {
				continue
			}
			gen[slots[k]] = true
		} else {
			p := 2 + r.Intn(3)
			for _, s := range slots {
				if r.Intn(p) == 0 {
					gen[s] = true
				}
			}
		}
		o := &c5pRender{gen: gen}
		ptext := st.sql(o)
		pat := e.parsePattern(ptext)
		if pat == nil {
			e.rep.Count("pattern-rejected")
			continue
		}
		var visible []*c5pSeg
		st.walk(gen, &visible, nil)
		for _, s := range visible {
			if gen[s] {
				e.rep.Count("generalised:" + s.slot)
			}
		}
		// spelling variant of the statement
		q, qtext := stmt, text
		if variant := r.Intn(3); variant > 0 {
			vt := st.sql(&c5pRender{gen: map[*c5pSeg]bool{}, caseOpt: variant})
			if vq, err := e.parser.Parse(vt); err == nil {
				q, qtext = vq, vt
				e.rep.Count(fmt.Sprintf("spelling-variant:%d", variant))
			}
		}
		label := fmt.Sprintf("sc%d gen pattern=%s q=%s", sc, ptext, qtext)
		res, pan := e.match(label, q, pat, false, true, true)
		e.rep.OracleChecks++
		if pan {
			e.rep.Violate("pattern-panic", "the matcher panicked: pattern "+ptext+" statement "+qtext, "pattern: "+ptext+"\nstatement: "+qtext)
		} else if !res {
			e.rep.Violate(c5pMissClass(kind), fmt.Sprintf("pattern %q obtained from %q by generalisation does not match it", ptext, qtext), "pattern: "+ptext+"\nstatement: "+qtext)
		}

		// near misses against this pattern
		var leaves []*c5pSeg
		st.walk(gen, nil, &leaves)
		for m := 0; m < nMiss && len(leaves) > 0; m++ {
			if k >= len(slots) && m >= 2 {
				break
			}
			lf := leaves[r.Intn(len(leaves))]
			mt := lf.mut[r.Intn(len(lf.mut))]
			mtext := st.sql(&c5pRender{gen: map[*c5pSeg]bool{}, mut: lf, mutText: mt})
			if mtext == text {
				continue
			}
			mq, err := e.parser.Parse(mtext)
			if err != nil {
				e.rep.Count("near-miss-rejected")
				continue
			}
			if sqlparser.String(mq) == sqlparser.String(stmt) {
				e.rep.Count("near-miss-same-statement") // e.g. `asc` added: the same statement
				continue
			}
			absorbed := false
			for _, w := range lf.tails {
				if gen[w] {
					absorbed = true
				}
			}
			e.rep.Count("near-miss")
			res, pan := e.match(fmt.Sprintf("sc%d miss pattern=%s q=%s", sc, ptext, mtext), mq, pat, false, false, absorbed)
			e.rep.OracleChecks++
			switch {
			case pan:
				e.rep.Violate("pattern-panic", "the matcher panicked: pattern "+ptext+" statement "+mtext, "pattern: "+ptext+"\nstatement: "+mtext)
			case res && absorbed:
				e.rep.Count("near-miss-after-generalised-where")
				e.rep.Violate("where-placeholder-absorbs-tail", fmt.Sprintf("pattern %q matches %q, which differs from the pattern in a clause AFTER the WHERE clause (%q for %q)", ptext, mtext, mt, lf.text),
					"pattern: "+ptext+"\nstatement: "+mtext)
			case res:
				e.rep.Violate("pattern-overmatch", fmt.Sprintf("pattern %q matches %q, which differs from it outside the placeholder positions (%q instead of %q)", ptext, mtext, mt, lf.text),
					"pattern: "+ptext+"\nstatement: "+mtext)
			}
		}

		// class misses: the content of a generalised slot replaced by something the placeholder does not stand for
		var cands []*c5pSeg
		for _, s := range visible {
			if gen[s] && c5pWrong(s.slot) != nil {
				cands = append(cands, s)
			}
		}
		nClassMiss := 2
		if k < len(slots) && len(cands) == 1 {
			nClassMiss = len(c5pWrong(cands[0].slot)) // one generalised slot: everything its placeholder does not stand for
		}
		for m := 0; m < nClassMiss && len(cands) > 0; m++ {
			sl := cands[r.Intn(len(cands))]
			ws := c5pWrong(sl.slot)
			wt := ws[r.Intn(len(ws))]
			if k < len(slots) && len(cands) == 1 {
				wt = ws[m]
			}
			mtext := st.sql(&c5pRender{gen: map[*c5pSeg]bool{}, repl: sl, replTxt: wt})
			mq, err := e.parser.Parse(mtext)
			if err != nil {
				e.rep.Count("class-miss-rejected")
				continue
			}
			absorbed := false
			for _, w := range c5pTailsOf(st, sl) {
				if gen[w] {
					absorbed = true
				}
			}
			e.rep.Count("class-miss:" + sl.slot)
			res, pan := e.match(fmt.Sprintf("sc%d class-miss pattern=%s q=%s", sc, ptext, mtext), mq, pat, false, false, absorbed)
			e.rep.OracleChecks++
			switch {
			case pan:
				e.rep.Violate("pattern-panic", "the matcher panicked: pattern "+ptext+" statement "+mtext, "pattern: "+ptext+"\nstatement: "+mtext)
			case res && absorbed:
				e.rep.Violate("where-placeholder-absorbs-tail", fmt.Sprintf("pattern %q matches %q, which differs from the pattern in a clause AFTER the WHERE clause", ptext, mtext), "pattern: "+ptext+"\nstatement: "+mtext)
			case res:
				e.rep.Violate("pattern-overmatch", fmt.Sprintf("pattern %q matches %q although %q is not what %s stands for", ptext, mtext, wt, sl.ph), "pattern: "+ptext+"\nstatement: "+mtext)
			}
		}

		// damaged ASTs: one nil-able field set to nil in a fresh parse of the statement or of the pattern
		if k%3 == 0 {
			e.damaged(sc, ptext, qtext)
		}
	}
}

func c5pKindName(st sqlparser.Statement) string {
	return strings.TrimPrefix(reflect.TypeOf(st).String(), "*sqlparser.")
}

func c5pMissClass(kind string) string {
	switch kind {
	case "Stream", "Prepare", "Execute", "DeallocatePrepare":
		return "pattern-unsupported-statement-kind"
	}
	return "generalisation-missed"
}

// damaged: parse pattern and statement again, set one pointer / interface / slice field reachable from one of them
// to nil, run the real matcher and record what happened (OpMatchRaw)
func (e *c5pRun) damaged(sc int, ptext, qtext string) {
	pat := e.parsePattern(ptext)
	q, err := e.parser.Parse(qtext)
	if pat == nil || err != nil {
		return
	}
	target := interface{}(q)
	side := "statement"
	if e.r.Bool() {
		target, side = pat, "pattern"
	}
	var fields []reflect.Value
	var names []string
	c5pNilable(reflect.ValueOf(target), "", &fields, &names, map[uintptr]bool{})
	if len(fields) == 0 {
		return
	}
	i := e.r.Intn(len(fields))
	fields[i].Set(reflect.Zero(fields[i].Type()))
	e.rep.Count("damaged:" + side)
	_, pan := e.match(fmt.Sprintf("sc%d damaged %s%s=nil pattern=%s q=%s", sc, side, names[i], ptext, qtext), q, pat, true, false, false)
	if pan {
		e.rep.Count("damaged-panic")
	}
}

// c5pNilable collects the settable non-nil pointer / interface / slice fields below v
func c5pNilable(v reflect.Value, path string, out *[]reflect.Value, names *[]string, seen map[uintptr]bool) {
	switch v.Kind() {
	case reflect.Interface:
		if !v.IsNil() {
			c5pNilable(v.Elem(), path, out, names, seen)
		}
	case reflect.Ptr:
		if v.IsNil() || seen[v.Pointer()] {
			return
		}
		seen[v.Pointer()] = true
		c5pNilable(v.Elem(), path, out, names, seen)
	case reflect.Struct:
		for i := 0; i < v.NumField(); i++ {
			f := v.Field(i)
			if !f.CanSet() {
				continue
			}
			name := path + "." + v.Type().Field(i).Name
			switch f.Kind() {
			case reflect.Ptr, reflect.Interface, reflect.Slice:
				if !f.IsNil() {
					*out = append(*out, f)
					*names = append(*names, name)
				}
			}
			c5pNilable(f, name, out, names, seen)
		}
	case reflect.Slice:
		if v.Type().Elem().Kind() == reflect.Uint8 {
			return
		}
		for i := 0; i < v.Len(); i++ {
			el := v.Index(i)
			name := fmt.Sprintf("%s[%d]", path, i)
			switch el.Kind() {
			case reflect.Ptr, reflect.Interface:
				if !el.IsNil() && el.CanSet() {
					*out = append(*out, el)
					*names = append(*names, name)
				}
			}
			c5pNilable(el, name, out, names, seen)
		}
	}
}
