package main

// Domain c14trans (properties C14 / C12, work package xtr): the REAL Go functions that `acra-vh transgo`
// translates are run on boundary / malformed / random inputs; every observation is replayed twice by
// Model/RunTrans.v: on the TRANSLATED definition of Gen/Trans.v (op tag T: validates the translator) and on
// the hand-written checked model (op tag H: a disagreement there is a concrete input on which the code and
// the model that carries the theorems differ).  Oracle on the implementation only: no panic outside the
// documented caller-side preconditions (C14), length-encoded integers/strings round-trip and the extractors
// return a prefix of their input of the declared length (C12).

import (
	"bytes"
	"encoding/binary"
	"encoding/hex"
	"fmt"
	"strings"

	"acra-vh/vh"

	"github.com/cossacklabs/acra/acrablock"
	"github.com/cossacklabs/acra/acrastruct"
	"github.com/cossacklabs/acra/crypto"
	mybase "github.com/cossacklabs/acra/decryptor/mysql/base"
	"github.com/cossacklabs/acra/decryptor/postgresql"
	"github.com/cossacklabs/acra/keystore/v2/keystore/api"
)

func init() { register("c14trans", "Model.RunTrans", xtrRunDomain) }

func xtrExact(b []byte) []byte { // cap == len: the shape Lib/GoSlice.v models
	c := make([]byte, len(b))
	copy(c, b)
	return c
}
func xtrU8(n uint64) []byte { b := make([]byte, 8); binary.LittleEndian.PutUint64(b, n); return b }
func xtrZ8(n int) []byte    { return xtrU8(uint64(int64(n))) }
func xtrFlag(b bool) []byte {
	if b {
		return []byte{1}
	}
	return []byte{0}
}
func xtrZ(n int) string { return fmt.Sprintf("(%d)%%Z", n) }

type xtrCtx struct {
	rep *vh.Report
	r   *vh.Rng
}

// record: one real call; replayed on the translation (T) and, when hand is true, on the hand model (H).
// mustNotPanic: the C14 oracle applies (entry point, or helper called within its precondition).
func (c *xtrCtx) record(name, args, human string, hand, mustNotPanic bool, f func() vh.Outcome) vh.Outcome {
	o := vh.Guard(f)
	c.rep.Add("trans:"+name+" "+human, "("+name+" T "+args+")", o)
	if hand {
		c.rep.Add("hand:"+name+" "+human, "("+name+" H "+args+")", o)
	}
	c.rep.Count("fn:" + name)
	if mustNotPanic {
		c.rep.OracleChecks++
		if o.Kind == "panic" {
			c.rep.Violate("xtr-panic-"+name, "C14: "+name+" panics on attacker-supplied input: "+o.Msg, name+" "+human)
		}
	}
	return o
}

func (c *xtrCtx) oracle(ok bool, class, what, replay string) {
	c.rep.OracleChecks++
	if !ok {
		c.rep.Violate(class, what, replay)
	}
}

// ---------- MySQL length-encoded integers / strings ----------
func (c *xtrCtx) lenencInputs() [][]byte {
	r := c.r
	var ins [][]byte
	// boundary table: every tag class x every length around the header size
	for _, tag := range []byte{0, 1, 250, 0xfb, 0xfc, 0xfd, 0xfe, 0xff} {
		for _, l := range []int{0, 1, 2, 3, 4, 5, 8, 9, 10, 12} {
			if l == 0 {
				ins = append(ins, []byte{})
				continue
			}
			b := r.Bytes(l)
			b[0] = tag
			ins = append(ins, b)
		}
	}
	// declared length against the remaining data
	for _, rem := range []int{0, 1, 5, 250, 251, 300} {
		for _, d := range []int{-1, 0, 1} {
			n := rem + d
			if n < 0 {
				continue
			}
			ins = append(ins, append(mybase.PutLengthEncodedInt(uint64(n)), r.Bytes(rem)...))
		}
	}
	for _, big := range []uint64{1 << 31, 1<<32 - 1, 1 << 32, 1<<63 - 1, 1 << 63, 1<<63 + 1, 1<<64 - 9, 1<<64 - 8, 1<<64 - 1} {
		b := append([]byte{0xfe}, xtrU8(big)...)
		ins = append(ins, append(b, r.Bytes(r.Intn(12))...))
	}
	for _, v := range []uint64{0xffff, 0x10000, 0xffffff} {
		ins = append(ins, append(mybase.PutLengthEncodedInt(v), r.Bytes(3)...))
	}
	return ins
}

func (c *xtrCtx) lenenc(data []byte) {
	h := hex.EncodeToString(data)
	arg := vh.H(data)
	c.record("LEI", arg, h, true, true, func() vh.Outcome {
		num, isNull, n, err := mybase.LengthEncodedInt(xtrExact(data))
		if err != nil {
			return vh.ErrO(err)
		}
		return vh.Ok(xtrU8(num), xtrFlag(isNull), xtrZ8(n))
	})
	o := c.record("LES", arg, h, true, true, func() vh.Outcome {
		v, n, err := mybase.LengthEncodedString(xtrExact(data))
		if err != nil {
			return vh.ErrO(err)
		}
		return vh.Ok(v, xtrZ8(n))
	})
	if o.Kind == "ok" {
		n := int(int64(binary.LittleEndian.Uint64(o.Vals[1])))
		c.oracle(n >= 1 && n <= len(data) && len(o.Vals[0]) <= n && bytes.Equal(o.Vals[0], data[n-len(o.Vals[0]):n]),
			"xtr-lenenc-string", "C12: LengthEncodedString returns bytes that are not the declared window of its input", h)
	}
	o = c.record("SLES", arg, h, true, true, func() vh.Outcome {
		n, err := mybase.SkipLengthEncodedString(xtrExact(data))
		if err != nil {
			return vh.ErrO(err)
		}
		return vh.Ok(xtrZ8(n))
	})
	if o.Kind == "ok" {
		n := int(int64(binary.LittleEndian.Uint64(o.Vals[0])))
		c.oracle(n >= 1 && n <= len(data), "xtr-lenenc-skip", "C12: SkipLengthEncodedString skips outside its input", h)
	}
}

func (c *xtrCtx) putInt(n uint64) {
	arg := fmt.Sprintf("%d", n)
	var enc []byte
	c.record("PLEI", arg, arg, true, true, func() vh.Outcome {
		enc = mybase.PutLengthEncodedInt(n)
		return vh.Ok(enc)
	})
	// C12 round trip on the implementation
	junk := c.r.Bytes(c.r.Intn(3))
	num, isNull, k, err := mybase.LengthEncodedInt(append(xtrExact(enc), junk...))
	c.oracle(err == nil && !isNull && num == n && k == len(enc), "xtr-lenenc-roundtrip",
		fmt.Sprintf("C12: LengthEncodedInt(PutLengthEncodedInt(%d)) = (%d, %v, %d, %v), encoding %x", n, num, isNull, k, err, enc), arg)
	c.record("U16", fmt.Sprintf("%d", uint16(n)), arg, true, true, func() vh.Outcome { return vh.Ok(mybase.Uint16ToBytes(uint16(n))) })
	c.record("U32", fmt.Sprintf("%d", uint32(n)), arg, true, true, func() vh.Outcome { return vh.Ok(mybase.Uint32ToBytes(uint32(n))) })
	c.record("U64B", arg, arg, true, true, func() vh.Outcome { return vh.Ok(mybase.Uint64ToBytes(n)) })
}

// ---------- AcraStruct ----------
func (c *xtrCtx) acrastructInputs() [][]byte {
	r := c.r
	min := acrastruct.GetMinAcraStructLength()
	mk := func(declared uint64, payload int) []byte {
		b := append([]byte{}, acrastruct.TagBegin...)
		b = append(b, r.Bytes(acrastruct.KeyBlockLength)...)
		b = append(b, xtrU8(declared)...)
		return append(b, r.Bytes(payload)...)
	}
	var ins [][]byte
	for _, p := range []int{0, 1, 7, 40} {
		for _, d := range []int{-1, 0, 1} {
			if p+d >= 0 {
				ins = append(ins, mk(uint64(p+d), p))
			}
		}
		ins = append(ins, append(mk(uint64(p), p), r.Bytes(1+r.Intn(5))...)) // trailing data
		ins = append(ins, mk(1<<32+uint64(p), p), mk(1<<16+uint64(p), p))       // equal to the payload length modulo 2^32 / 2^16
	}
	for _, big := range []uint64{1 << 31, 1<<63 - 1, 1<<63 - uint64(min), 1<<63 - uint64(min) - 1, 1 << 63, -uint64(min), -uint64(min) + 1, -uint64(min) - 1, 1<<64 - 1} {
		ins = append(ins, mk(big, r.Intn(9)))
	}
	v := mk(5, 5)
	for _, l := range []int{0, 1, 7, 8, 9, min - 9, min - 8, min - 1, min, min + 1} {
		ins = append(ins, v[:l])
	}
	bad := mk(3, 3)
	bad[r.Intn(8)] ^= 0x40
	ins = append(ins, bad, r.Bytes(min), r.Bytes(min+3))
	return ins
}

func (c *xtrCtx) acrastruct(data []byte) {
	h := hex.EncodeToString(data)
	arg := vh.H(data)
	min := acrastruct.GetMinAcraStructLength()
	c.record("AsDataLen", arg, h, true, len(data) >= min, func() vh.Outcome {
		return vh.Ok(xtrZ8(acrastruct.GetDataLengthFromAcraStruct(xtrExact(data))))
	})
	c.record("AsValidate", arg, h, true, true, func() vh.Outcome {
		if err := acrastruct.ValidateAcraStructLength(xtrExact(data)); err != nil {
			return vh.ErrO(err)
		}
		return vh.Ok()
	})
	o := c.record("AsExtract", arg, h, true, true, func() vh.Outcome {
		n, s, err := acrastruct.ExtractAcraStruct(xtrExact(data))
		if err != nil {
			return vh.ErrO(err)
		}
		return vh.Ok(xtrZ8(n), s)
	})
	if o.Kind == "ok" {
		n := int(int64(binary.LittleEndian.Uint64(o.Vals[0])))
		c.oracle(n >= min && n <= len(data) && bytes.Equal(o.Vals[1], data[:n]) &&
			uint64(n-min) == binary.LittleEndian.Uint64(data[min-8:min]),
			"xtr-acrastruct-extract", "C12: ExtractAcraStruct returns something else than the declared prefix of its input", h)
	}
}

// ---------- AcraBlock ----------
func (c *xtrCtx) acrablockInputs() [][]byte {
	r := c.r
	mk := func(rest uint64, kek, det byte, dek, payload int) []byte {
		b := append([]byte{}, acrastruct.TagBegin[:acrablock.TagBeginSize]...)
		b = append(b, xtrU8(rest)...)
		b = append(b, kek)
		b = append(b, r.Bytes(2)...)
		b = append(b, det)
		b = append(b, byte(dek), byte(dek>>8))
		return append(b, r.Bytes(dek+payload)...)
	}
	var ins [][]byte
	for _, tot := range []int{0, 1, 10, 60} {
		full := uint64(acrablock.AcraBlockMinSize - acrablock.TagBeginSize + tot)
		for _, d := range []int{-1, 0, 1} {
			ins = append(ins, mk(uint64(int(full)+d), 0, 0, tot/2, tot-tot/2))
		}
		ins = append(ins, append(mk(full, 0, 0, tot/2, tot-tot/2), r.Bytes(1+r.Intn(4))...))
		ins = append(ins, mk(1<<32+full, 0, 0, tot/2, tot-tot/2)) // equal to the real length modulo 2^32
	}
	for _, rest := range []uint64{0, 1, 13, 14, 15, 1 << 31, 1<<63 - 4, 1<<63 - 5, 1 << 63, 1<<64 - 4, 1<<64 - 5, 1<<64 - 3, 1<<64 - 1} {
		ins = append(ins, mk(rest, 0, 0, 2, 6))
	}
	ins = append(ins, mk(14+8, 1, 0, 2, 6), mk(14+8, 0, 1, 2, 6), mk(14+8, 0xff, 0xff, 2, 6))
	v := mk(14+8, 0, 0, 2, 6)
	for _, l := range []int{0, 1, 3, 4, 11, 12, 13, 14, 15, 16, 17, 18, 19} {
		ins = append(ins, v[:l])
	}
	bad := mk(14+8, 0, 0, 2, 6)
	bad[r.Intn(4)] ^= 0x01
	ins = append(ins, bad, r.Bytes(18), r.Bytes(30))
	return ins
}

func (c *xtrCtx) acrablock(data []byte) {
	h := hex.EncodeToString(data)
	arg := vh.H(data)
	c.record("AbKeyLen", arg, h, true, len(data) >= acrablock.AcraBlockMinSize, func() vh.Outcome {
		return vh.Ok(xtrZ8(acrablock.AcraBlock(xtrExact(data)).EncryptedDataEncryptionKeyLength()))
	})
	c.record("AbKeyId", arg, h, true, true, func() vh.Outcome {
		id, err := acrablock.VerifGetKeyEncryptionKeyID(xtrExact(data))
		if err != nil {
			return vh.ErrO(err)
		}
		return vh.Ok(id)
	})
	o := c.record("AbExtract", arg, h, true, true, func() vh.Outcome {
		n, b, err := acrablock.ExtractAcraBlockFromData(xtrExact(data))
		if err != nil {
			return vh.ErrO(err)
		}
		return vh.Ok(xtrZ8(n), b)
	})
	if o.Kind == "ok" {
		n := int(int64(binary.LittleEndian.Uint64(o.Vals[0])))
		c.oracle(n >= acrablock.AcraBlockMinSize && n <= len(data) && bytes.Equal(o.Vals[1], data[:n]) &&
			uint64(n-acrablock.TagBeginSize) == binary.LittleEndian.Uint64(data[4:12]),
			"xtr-acrablock-extract", "C12: ExtractAcraBlockFromData returns something else than the declared prefix of its input", h)
	}
}

// ---------- serialized container length ----------
func (c *xtrCtx) containerInputs() [][]byte {
	r := c.r
	mk := func(l uint64, payload int) []byte {
		b := append([]byte{}, crypto.TagBegin...)
		b = append(b, xtrU8(l)...)
		b = append(b, 0xf0)
		return append(b, r.Bytes(payload)...)
	}
	var ins [][]byte
	for _, p := range []int{0, 1, 9, 33} {
		for _, d := range []int{-1, 0, 1} {
			ins = append(ins, mk(uint64(crypto.SerializedContainerMinSize+p+d), p))
		}
	}
	for _, l := range []uint64{0, 1, 11, 12, 13, 1 << 31, 1<<63 - 1, 1 << 63, 1<<63 + 12, 1<<64 - 1} {
		ins = append(ins, mk(l, r.Intn(6)))
	}
	v := mk(20, 8)
	for _, l := range []int{0, 2, 3, 10, 11, 12, 13} {
		ins = append(ins, v[:l])
	}
	return ins
}

func (c *xtrCtx) container(data []byte) {
	h := hex.EncodeToString(data)
	c.record("ScLen", vh.H(data), h, true, len(data) > crypto.SerializedContainerMinSize, func() vh.Outcome {
		n, err := crypto.VerifGetSerializedContainerLength(xtrExact(data))
		if err != nil {
			return vh.ErrO(err)
		}
		return vh.Ok(xtrU8(n))
	})
}

// ---------- PostgreSQL parameter formats, key states ----------
func (c *xtrCtx) pgFormat(i int, fmts []uint16) {
	var ns []string
	for _, f := range fmts {
		ns = append(ns, fmt.Sprintf("%d", f))
	}
	arg := xtrZ(i) + " [" + strings.Join(ns, "; ") + "]"
	// the hand model takes the column index as a nat: it is replayed for i >= 0 (the callers pass loop indices)
	c.record("PgFmt", arg, arg, i >= 0 && i < 4096, i >= 0, func() vh.Outcome {
		f, err := postgresql.GetParameterFormatByIndex(i, fmts)
		if err != nil {
			return vh.ErrO(err)
		}
		return vh.Ok(xtrU8(uint64(f)))
	})
}

func (c *xtrCtx) keyState(a, b int) {
	arg := xtrZ(a) + " " + xtrZ(b)
	c.record("KsTrans", arg, arg, a >= 0 && b >= 0, true, func() vh.Outcome {
		return vh.Ok(xtrFlag(api.KeyStateTransitionValid(api.KeyState(a), api.KeyState(b))))
	})
}

func xtrRunDomain(rep *vh.Report, r *vh.Rng, n int, thorough bool) {
	c := &xtrCtx{rep, r}
	// boundary tables (independent of n)
	c.record("AsMin", "", "", true, true, func() vh.Outcome { return vh.Ok(xtrZ8(acrastruct.GetMinAcraStructLength())) })
	for _, d := range c.lenencInputs() {
		rep.Count("gen:lenenc-boundary")
		c.lenenc(d)
	}
	for _, v := range []uint64{0, 1, 249, 250, 251, 252, 253, 254, 255, 256, 0xfffe, 0xffff, 0x10000, 0x10001, 0xfffffe, 0xffffff, 0x1000000,
		1<<32 - 1, 1 << 32, 1<<63 - 1, 1 << 63, 1<<64 - 1} {
		rep.Count("gen:putint-boundary")
		c.putInt(v)
	}
	for _, d := range c.acrastructInputs() {
		rep.Count("gen:acrastruct-boundary")
		c.acrastruct(d)
	}
	for _, d := range c.acrablockInputs() {
		rep.Count("gen:acrablock-boundary")
		c.acrablock(d)
	}
	for _, d := range c.containerInputs() {
		rep.Count("gen:container-boundary")
		c.container(d)
	}
	for _, fm := range [][]uint16{nil, {0}, {1}, {2}, {0xffff}, {0, 1}, {1, 0, 2}, {1, 1, 1, 0}} {
		for _, i := range []int{-1, 0, 1, 2, 3, 4, 1 << 40} {
			rep.Count("gen:pgfmt-boundary")
			c.pgFormat(i, fm)
		}
	}
	for a := -1; a <= 8; a++ {
		for b := -1; b <= 8; b++ {
			rep.Count("gen:keystate-all")
			c.keyState(a, b)
		}
	}
	// random / mutated stream
	for i := 0; i < n; i++ {
		switch r.Intn(6) {
		case 0:
			rep.Count("gen:lenenc-random")
			d := r.Bytes(r.Intn(14))
			if len(d) > 0 && r.Intn(3) > 0 {
				d[0] = byte(0xf8 + r.Intn(8))
			}
			c.lenenc(d)
		case 1:
			rep.Count("gen:putint-random")
			c.putInt(r.U64() >> uint(r.Intn(64)))
		case 2:
			rep.Count("gen:acrastruct-mutated")
			ins := c.acrastructInputs()
			d := ins[r.Intn(len(ins))]
			if len(d) > 0 && r.Bool() {
				d[r.Intn(len(d))] = byte(r.Intn(256))
			}
			c.acrastruct(d)
		case 3:
			rep.Count("gen:acrablock-mutated")
			ins := c.acrablockInputs()
			d := ins[r.Intn(len(ins))]
			if len(d) > 0 && r.Bool() {
				d[r.Intn(len(d))] = byte(r.Intn(256))
			}
			c.acrablock(d)
		case 4:
			rep.Count("gen:container-mutated")
			ins := c.containerInputs()
			d := ins[r.Intn(len(ins))]
			if len(d) > 0 && r.Bool() {
				d[r.Intn(len(d))] = byte(r.Intn(256))
			}
			c.container(d)
		case 5:
			rep.Count("gen:pgfmt-random")
			fm := make([]uint16, r.Intn(5))
			for j := range fm {
				fm[j] = uint16(r.Pick(0, 1, 1, 0, 2, 0xffff))
			}
			c.pgFormat(r.Intn(7)-1, fm)
		}
	}
	xtr2Run(c, n) // xtr2: extended subset (xtr2_dom.go)
}
