package main

// xtr2: extension of domain c14trans for the functions translated with the extended subset
// (append / make / nil-sensitive parameter / range loop) and for the translator self-test functions
// (harness/xtr/selftest: counted loop, fuelled scanner loop, make + copy; NOT acra code, `T` replay only
// validates the translator against the Go compiler).  Called at the end of xtrRunDomain.

import (
	"bytes"
	"encoding/hex"
	"fmt"

	"acra-vh/vh"
	"acra-vh/xtr/selftest"

	mybase "github.com/cossacklabs/acra/decryptor/mysql/base"
	"github.com/cossacklabs/acra/utils"
)

func xtr2Bool(b bool) string {
	if b {
		return "true"
	}
	return "false"
}

func (c *xtrCtx) xtr2PutString(isNil bool, b []byte) {
	h := fmt.Sprintf("nil=%v %s", isNil, hex.EncodeToString(b))
	var in []byte
	if !isNil {
		in = xtrExact(b)
	} else {
		b = nil
	}
	o := c.record("PLES", xtr2Bool(isNil)+" "+vh.H(b), h, true, true, func() vh.Outcome {
		return vh.Ok(mybase.PutLengthEncodedString(in))
	})
	// C12: the decoder reads back exactly what was encoded, and consumes exactly the encoding
	if o.Kind == "ok" {
		enc := mybase.PutLengthEncodedString(in)
		rest := c.r.Bytes(c.r.Intn(4))
		v, n, err := mybase.LengthEncodedString(append(xtrExact(enc), rest...))
		ok := err == nil && n == len(enc) && bytes.Equal(v, b) && (isNil == (v == nil))
		c.oracle(ok, "xtr2-putstring-roundtrip", fmt.Sprintf("C12: LengthEncodedString(PutLengthEncodedString(x)) = (%x, %d, %v) for x = %s (encoding %x)", v, n, err, h, enc), "PLES "+h)
	}
}

func (c *xtrCtx) xtr2Octal(d []byte) {
	h := hex.EncodeToString(d)
	o := c.record("EncOct", vh.H(d), h, true, true, func() vh.Outcome { return vh.Ok(utils.EncodeToOctal(xtrExact(d))) })
	if o.Kind == "ok" {
		enc := utils.EncodeToOctal(xtrExact(d))
		back, err := utils.DecodeOctal(enc)
		c.oracle(err == nil && bytes.Equal(back, d), "xtr2-octal-roundtrip", fmt.Sprintf("C12: DecodeOctal(EncodeToOctal(x)) = (%x, %v) for x = %s (encoding %q)", back, err, h, enc), "EncOct "+h)
		printable := true
		for _, ch := range enc {
			if ch < 32 || ch > 126 {
				printable = false
			}
		}
		c.oracle(printable, "xtr2-octal-unprintable", fmt.Sprintf("C12: EncodeToOctal(%s) = %x contains a byte outside 32..126", h, enc), "EncOct "+h)
	}
}

func (c *xtrCtx) xtr2Selftest(d []byte, from, to int) {
	h := fmt.Sprintf("%s %d %d", hex.EncodeToString(d), from, to)
	c.record("StSum", vh.H(d)+" "+xtrZ(from)+" "+xtrZ(to), h, true, false, func() vh.Outcome {
		return vh.Ok(xtrU8(uint64(selftest.SumWindow(xtrExact(d), from, to))))
	})
	c.record("StScan", vh.H(d), hex.EncodeToString(d), false, false, func() vh.Outcome {
		n, t, err := selftest.ScanRecords(xtrExact(d))
		if err != nil {
			return vh.ErrO(err)
		}
		return vh.Ok(xtrZ8(n), xtrZ8(t))
	})
	c.record("StPad", vh.H(d)+" "+xtrZ(to), h, true, false, func() vh.Outcome {
		return vh.Ok(selftest.PadCopy(xtrExact(d), to))
	})
}

func xtr2Run(c *xtrCtx, n int) {
	r, rep := c.r, c.rep
	// PutLengthEncodedString: nil, empty (NOT nil: encodes as 00), lengths around the integer encoding classes
	c.xtr2PutString(true, nil)
	for _, l := range []int{0, 1, 2, 249, 250, 251, 252, 255, 256, 1000} {
		rep.Count("gen:putstring-boundary")
		c.xtr2PutString(false, r.Bytes(l))
	}
	// the 3-byte / 4-byte length classes: implementation oracle only (a 64 KiB literal is too large to replay in Coq)
	for _, l := range []int{0xffff, 0x10000} {
		rep.Count("gen:putstring-large-oracle-only")
		b := r.Bytes(l)
		enc := mybase.PutLengthEncodedString(b)
		v, k, err := mybase.LengthEncodedString(enc)
		c.oracle(err == nil && k == len(enc) && bytes.Equal(v, b), "xtr2-putstring-roundtrip", fmt.Sprintf("C12: round trip of a %d byte string fails (%d, %v)", l, k, err), fmt.Sprintf("PLES len=%d", l))
	}
	// every byte value through the predicate; the encoder on every byte value alone and on mixed strings
	for ch := 0; ch < 256; ch++ {
		rep.Count("gen:printable-all")
		cc := byte(ch)
		if ch%16 == 0 || (ch >= 30 && ch <= 33) || (ch >= 91 && ch <= 93) || (ch >= 125 && ch <= 128) || ch == 255 {
			c.record("PrintCh", fmt.Sprintf("%d%%N", ch), fmt.Sprint(ch), true, true, func() vh.Outcome {
				return vh.Ok(xtrFlag(utils.IsPrintableEscapeChar(cc)))
			})
		}
		if ch%8 == 0 || ch == 92 || ch == 31 || ch == 127 || ch == 126 {
			c.xtr2Octal([]byte{cc})
		}
	}
	for _, d := range [][]byte{{}, {92, 92}, {92, 48, 48, 48}, {0, 255, 92, 65, 31, 32, 126, 127}, []byte("plain text"), []byte("\\x00\\\\")} {
		rep.Count("gen:octal-boundary")
		c.xtr2Octal(d)
	}
	// self-test: window bounds around the slice, record lists (padding, terminator, truncated)
	for _, d := range [][]byte{{}, {5}, {1, 2, 3, 250, 251}} {
		for _, ft := range [][2]int{{0, 0}, {0, len(d)}, {0, len(d) + 1}, {-1, 1}, {1, 0}, {2, 4}, {len(d), len(d)}, {3, -2}} {
			rep.Count("gen:selftest-boundary")
			c.xtr2Selftest(d, ft[0], ft[1])
		}
	}
	for _, d := range [][]byte{{0}, {255, 255}, {1, 9, 0, 7}, {2, 9}, {2, 9, 9, 255, 1, 7}, {3, 1, 2, 3, 255}, {254}} {
		rep.Count("gen:selftest-records")
		c.xtr2Selftest(d, 0, len(d))
	}
	c.xtr2Selftest([]byte{1, 2}, 0, -1) // make with a negative length
	for i := 0; i < n/3+4; i++ {
		switch r.Intn(3) {
		case 0:
			rep.Count("gen:putstring-random")
			c.xtr2PutString(r.Intn(8) == 0, r.Bytes(r.Intn(300)))
		case 1:
			rep.Count("gen:octal-random")
			d := r.Bytes(r.Intn(24))
			for j := range d {
				if r.Intn(3) == 0 {
					d[j] = byte(r.Pick(92, 92, 48, 55, 31, 32, 126, 127, 0, 255))
				}
			}
			c.xtr2Octal(d)
		case 2:
			rep.Count("gen:selftest-random")
			d := r.Bytes(r.Intn(12))
			for j := range d {
				if r.Intn(2) == 0 {
					d[j] = byte(r.Pick(0, 1, 2, 3, 255, 4))
				}
			}
			c.xtr2Selftest(d, r.Intn(6)-1, r.Intn(16)-2)
		}
	}
}
