package main

// Domain c15hist (property C15): detector HISTORIES.
//
// The poison detector is a long-lived object: one PoisonRecordDetector per database connection (proxyFactory.New) and
// one per process in the translator (NewTranslatorService).  Whether the k-th value raises the alarm must depend on
// that value and on the keystore AT THAT TIME only, never on what the same object inspected before.
//
// One scenario = one keystore (mutable: poison keys are added / rotated in the middle of the history), several
// clients, and three REAL long-lived objects built once over it:
//   chain      crypto.EnvelopeDetector -> PoisonRecordDetector -> DecryptHandler   (as both proxy factories build it)
//   detector   crypto.PoisonRecordDetector (OnCryptoEnvelope called directly)
//   translator common.TranslatorService (Decrypt / DecryptSym)
// fed a sequence of values: ordinary envelopes of both kinds for several clients, envelopes the connected client
// cannot decrypt, poison records of both kinds under the current / a rotated / a not-yet-provisioned / a foreign
// poison key, garbage, look-alikes (well-formed containers around noise, truncated and bit-flipped records, legacy raw
// forms), several envelopes in one value.  Provisioning states of the poison keys: none / key pair only / symmetric
// only / both (cycled deterministically so that the quick tier holds each), 1..3 keys per kind.
// The history of every scenario starts with a structured opening (the table c15histOpenings: an envelope of kind X
// that is ordinary / undecryptable / a look-alike, then a poison record of kind Y, on each object) and ends with a
// closing (poison records of both kinds on each object after everything else).
//
// Oracles (on the implementation, independent of the model):
//   by construction   the k-th value must raise the alarm iff callbacks are configured and it embeds a poison record
//                     whose key the keystore holds at step k (translator: and the operation returned an error)
//   prefix independence   the same value given, at the same moment, to FRESH objects built over the same keystore must
//                     give the same callback count, error flag and output as the long-lived objects
// The whole history is one model operation (Model/RunPoisonHistory.v: a state machine over the list of values with the
// per-value callback counts as the expected outcome).

import (
	"bytes"
	"context"
	"encoding/hex"
	"fmt"
	"strings"

	"acra-vh/vh"

	"github.com/cossacklabs/acra/cmd/acra-translator/common"
	"github.com/cossacklabs/acra/crypto"
	"github.com/cossacklabs/acra/decryptor/base"
	"github.com/cossacklabs/acra/poison"
	"github.com/cossacklabs/themis/gothemis/core"
)

func init() { register("c15hist", "Model.RunPoisonHistory", runC15hist) }

// ---- the three long-lived objects ------------------------------------------------------------------------------

type c15histObjects struct {
	delivered bool
	chainCb   *countingCallback
	detCb     *countingCallback
	trCb      *countingCallback
	chain     *crypto.EnvelopeDetector
	det       crypto.PoisonRecordDetector
	svc       *common.TranslatorService
}

// c15histBuild builds the objects exactly once per call over the (shared, mutable) keystore m.
func c15histBuild(m *vh.MemKeystore, hasCb, fail bool) *c15histObjects {
	o := &c15histObjects{}
	var st *poison.CallbackStorage
	// chain: proxyFactory.New adds the poison detector first and only when the storage has callbacks
	st, o.chainCb = c15CallbackStorage(hasCb, fail, &o.delivered)
	rh := crypto.NewRegistryHandler(m)
	o.chain = crypto.NewEnvelopeDetector()
	if st != nil && st.HasCallbacks() {
		pd := crypto.NewPoisonRecordsRecognizer(m, rh)
		pd.SetPoisonRecordCallbacks(st)
		o.chain.AddCallback(pd)
	}
	o.chain.AddCallback(crypto.NewDecryptHandler(m, rh))
	// direct detector
	st, o.detCb = c15CallbackStorage(hasCb, fail, &o.delivered)
	o.det = crypto.NewPoisonRecordsRecognizer(m, crypto.NewRegistryHandler(m))
	o.det.SetPoisonRecordCallbacks(st)
	// translator
	st, o.trCb = c15CallbackStorage(hasCb, fail, &o.delivered)
	svc, err := common.NewTranslatorService(&common.TranslatorData{Keystorage: m, PoisonRecordCallbacks: st})
	if err != nil {
		panic(err)
	}
	o.svc = svc
	return o
}

const (
	c15histChain = iota
	c15histDetector
	c15histTrAS
	c15histTrAB
)

var c15histObjName = []string{"chain", "detector", "translator.Decrypt", "translator.DecryptSym"}

type c15histObs struct {
	calls int
	late  bool
	out   vh.Outcome // canonical per-value outcome: [n8 calls, 00, vals…] | [n8 calls, 04, flag?] (output = input) | [n8 calls, 01] ; Kind "panic"
}

// c15histFeed gives one value to one of the objects and returns what happened for THIS value.
func (o *c15histObjects) c15histFeed(obj int, client string, val []byte) c15histObs {
	var cb *countingCallback
	switch obj {
	case c15histChain:
		cb = o.chainCb
	case c15histDetector:
		cb = o.detCb
	default:
		cb = o.trCb
	}
	before := cb.n
	cb.late = false
	o.delivered = false
	ctx := base.SetAccessContextToContext(context.Background(), base.NewAccessContext(base.WithClientID([]byte(client))))
	data := append([]byte{}, val...)
	out := vh.Guard(func() vh.Outcome {
		switch obj {
		case c15histChain:
			rctx, res, err := o.chain.OnColumn(ctx, data)
			o.delivered = true
			f := byte(0)
			if base.IsDecryptedFromContext(rctx) {
				f = 1
			}
			if err != nil {
				return vh.Ok(n8(cb.n-before), []byte{1})
			}
			if bytes.Equal(res, val) {
				return vh.Ok(n8(cb.n-before), []byte{4}, []byte{f})
			}
			return vh.Ok(n8(cb.n-before), []byte{0}, res, []byte{f})
		case c15histDetector:
			res, err := o.det.OnCryptoEnvelope(ctx, data)
			o.delivered = true
			if err != nil {
				return vh.Ok(n8(cb.n-before), []byte{1})
			}
			if bytes.Equal(res, val) {
				return vh.Ok(n8(cb.n-before), []byte{4})
			}
			return vh.Ok(n8(cb.n-before), []byte{0}, res)
		default:
			var res []byte
			var err error
			if obj == c15histTrAS {
				res, err = o.svc.Decrypt(context.Background(), data, []byte(client), nil)
			} else {
				res, err = o.svc.DecryptSym(context.Background(), data, []byte(client), nil)
			}
			o.delivered = true
			if err != nil {
				return vh.Ok(n8(cb.n-before), []byte{1})
			}
			return vh.Ok(n8(cb.n-before), []byte{0}, res)
		}
	})
	o.delivered = true
	return c15histObs{calls: cb.n - before, late: cb.late, out: out}
}

// ---- values -------------------------------------------------------------------------------------------------------

// c15histPoison is one poison record embedded in a value: alarm expected iff the keystore holds its key at that time
type c15histPoison struct {
	sym bool
	key []byte // seed of the key pair / symmetric key
}

type c15histValue struct {
	kind      string
	data      []byte
	poisons   []c15histPoison // intact poison records embedded (after a prefix the scanner gets through)
	bare      bool            // the value is exactly one container (+ optional suffix): may go to the direct detector
	undecided bool            // look-alike whose alarm is not fixed by construction (only the prefix-independence oracle decides)
}

type c15histGen struct {
	rep     *vh.Report
	r       *vh.Rng
	e       *EnvOps
	m       *vh.MemKeystore
	clients []string
	// poison key pool: keys the keystore holds, will hold later, or never holds
	seeds, syms [][]byte
}

func c15histHas(list [][]byte, k []byte) bool {
	for _, x := range list {
		if bytes.Equal(x, k) {
			return true
		}
	}
	return false
}

// c15histOpenable: does the keystore hold, NOW, the key of one of the embedded records?
func (g *c15histGen) c15histOpenable(v *c15histValue) bool {
	for _, p := range v.poisons {
		if p.sym && c15histHas(g.m.PoisonSyms, p.key) || !p.sym && c15histHas(g.m.PoisonSeeds, p.key) {
			return true
		}
	}
	return false
}

// record: a real poison record (poison.Create*PoisonRecord) under the given key
func (g *c15histGen) c15histRecord(sym bool, key []byte) []byte {
	then := vh.NewMemKeystore()
	if sym {
		then.PoisonSyms = [][]byte{key}
	} else {
		then.PoisonSeeds = [][]byte{key}
	}
	dlen := g.r.Pick(1, 16, 99, 100, 1+g.r.Intn(120))
	vh.StartTape(g.r)
	defer vh.StopTape()
	var rec []byte
	var err error
	if sym {
		rec, err = poison.CreateSymmetricPoisonRecord(vh.PoisonStore{MemKeystore: then}, dlen)
	} else {
		rec, err = poison.CreatePoisonRecord(vh.PoisonStore{MemKeystore: then}, dlen)
	}
	if err != nil {
		panic(err)
	}
	return rec
}

// which: "current" (head of the keystore's list), "rotated" (older key still held), "future"/"foreign" (a pool key the
// keystore does not hold now), falling back to any pool key
func (g *c15histGen) c15histPickKey(sym bool, which string) []byte {
	held, pool := g.m.PoisonSeeds, g.seeds
	if sym {
		held, pool = g.m.PoisonSyms, g.syms
	}
	switch which {
	case "current":
		if len(held) > 0 {
			return held[0]
		}
	case "rotated":
		if len(held) > 1 {
			return held[1+g.r.Intn(len(held)-1)]
		}
		if len(held) > 0 {
			return held[0]
		}
	}
	var absent [][]byte
	for _, k := range pool {
		if !c15histHas(held, k) {
			absent = append(absent, k)
		}
	}
	if len(absent) > 0 {
		return absent[g.r.Intn(len(absent))]
	}
	return pool[g.r.Intn(len(pool))]
}

func (g *c15histGen) c15histPoisonValue(sym bool, which string) *c15histValue {
	key := g.c15histPickKey(sym, which)
	return &c15histValue{kind: fmt.Sprintf("poison(sym=%v,%s)", sym, which), data: g.c15histRecord(sym, key),
		poisons: []c15histPoison{{sym, key}}, bare: true}
}

// an ordinary protected value of the given client
func (g *c15histGen) c15histClientEnvelope(client string, id byte) *c15histValue {
	ce := g.e.EncHandler("client envelope", id, g.m.Clients[client], g.r.Bytes(1+g.r.Intn(60)))
	if ce.Kind != "ok" {
		panic("client envelope: " + ce.String())
	}
	return &c15histValue{kind: fmt.Sprintf("envelope(%s,id=%02x)", client, id), data: ce.Vals[0], bare: true}
}

func c15histKindID(sym bool) byte {
	if sym {
		return crypto.AcraBlockEnvelopeID
	}
	return crypto.AcraStructEnvelopeID
}

// look-alikes and garbage
func (g *c15histGen) c15histNoise(sym bool) *c15histValue {
	r := g.r
	switch r.Intn(6) {
	case 0: // random bytes, some with tag runs
		b := r.Bytes(r.Intn(200))
		if r.Bool() && len(b) > 16 {
			copy(b[r.Intn(len(b)-12):], "%%%")
		}
		return &c15histValue{kind: "garbage", data: b}
	case 1: // well-formed container around noise
		ser, err := crypto.SerializeEncryptedData(r.Bytes(1+r.Intn(150)), c15histKindID(sym))
		if err != nil {
			panic(err)
		}
		return &c15histValue{kind: fmt.Sprintf("container-around-noise(id=%02x)", c15histKindID(sym)), data: ser, bare: true}
	case 2: // truncated record (possibly refilled so that the declared length still fits)
		v := g.c15histRecord(sym, g.c15histPickKey(sym, "current"))
		cut := 1 + r.Intn(min(len(v)-1, 40))
		tr := append([]byte{}, v[:len(v)-cut]...)
		if r.Bool() {
			tr = append(tr, r.Bytes(cut+r.Intn(8))...)
		}
		return &c15histValue{kind: fmt.Sprintf("truncated(sym=%v)", sym), data: tr, bare: true}
	case 3: // one bit flipped behind the container header
		v := g.c15histRecord(sym, g.c15histPickKey(sym, "current"))
		bit := crypto.SerializedContainerMinSize*8 + r.Intn((len(v)-crypto.SerializedContainerMinSize)*8)
		v[bit/8] ^= 1 << (bit % 8)
		return &c15histValue{kind: fmt.Sprintf("bitflip(sym=%v,bit=%d)", sym, bit), data: v, bare: true}
	case 4: // one bit flipped inside the container header: the inner envelope may still be found in its raw form
		v := g.c15histRecord(sym, g.c15histPickKey(sym, "current"))
		bit := r.Intn(crypto.SerializedContainerMinSize * 8)
		v[bit/8] ^= 1 << (bit % 8)
		return &c15histValue{kind: fmt.Sprintf("header-bitflip(sym=%v,bit=%d)", sym, bit), data: v, bare: true, undecided: true}
	default: // legacy raw form: the inner envelope without its container
		v := g.c15histRecord(sym, g.c15histPickKey(sym, "current"))
		inner, _, err := crypto.DeserializeEncryptedData(v)
		if err != nil {
			panic(err)
		}
		return &c15histValue{kind: fmt.Sprintf("raw-inner(sym=%v)", sym), data: append([]byte{}, inner...), bare: true, undecided: true}
	}
}

// embed: prefix + value + suffix; two values in one column
func (g *c15histGen) c15histEmbed(v *c15histValue) *c15histValue {
	pre, suf := genAround(g.r, g.r.Intn(4) != 0), genAround(g.r, false)
	d := append(append(append([]byte{}, pre...), v.data...), suf...)
	return &c15histValue{kind: "embedded " + v.kind, data: d, poisons: v.poisons, undecided: v.undecided, bare: len(pre) == 0 && v.bare}
}

func (g *c15histGen) c15histJoin(a, b *c15histValue) *c15histValue {
	mid := genAround(g.r, true)
	d := append(append(append([]byte{}, a.data...), mid...), b.data...)
	return &c15histValue{kind: a.kind + " ++ " + b.kind, data: d, poisons: append(append([]c15histPoison{}, a.poisons...), b.poisons...),
		undecided: a.undecided || b.undecided}
}

func (g *c15histGen) c15histRandomValue() *c15histValue {
	r := g.r
	sym := r.Bool()
	var v *c15histValue
	switch r.Intn(10) {
	case 0, 1:
		v = g.c15histClientEnvelope(g.clients[r.Intn(len(g.clients))], c15histKindID(sym))
	case 2, 3:
		v = g.c15histPoisonValue(sym, []string{"current", "rotated", "future", "current"}[r.Intn(4)])
	case 4, 5:
		v = g.c15histNoise(sym)
	case 6:
		v = g.c15histJoin(g.c15histClientEnvelope(g.clients[r.Intn(len(g.clients))], c15histKindID(r.Bool())), g.c15histPoisonValue(sym, "current"))
	case 7:
		v = g.c15histJoin(g.c15histNoise(r.Bool()), g.c15histPoisonValue(sym, "current"))
	case 8:
		v = g.c15histJoin(g.c15histPoisonValue(!sym, "future"), g.c15histPoisonValue(sym, "current"))
	default:
		v = g.c15histJoin(g.c15histClientEnvelope(g.clients[r.Intn(len(g.clients))], c15histKindID(sym)), g.c15histNoise(r.Bool()))
	}
	if r.Intn(3) == 0 {
		v = g.c15histEmbed(v)
	}
	return v
}

// ---- structured openings ------------------------------------------------------------------------------------------

// first: what the objects inspect before the poison record; X = kind of that first envelope, Y = kind of the record
var c15histOpenings = []struct {
	first string
	rel   string // kind of the first envelope: the "other" kind than the record's, or the "same"
}{
	{"ordinary", "other"}, {"undecryptable", "other"}, {"lookalike", "other"}, {"poison-foreign-key", "other"},
	{"ordinary", "same"}, {"undecryptable", "same"}, {"none", "same"}, {"poison-foreign-key", "same"}, {"lookalike", "same"},
}

var c15histProvisioning = []string{"pair-only", "sym-only", "none", "both"}

// ---- the domain -----------------------------------------------------------------------------------------------------

func c15histPK(m *vh.MemKeystore) string { return coqPK(m) }

func runC15hist(rep *vh.Report, r *vh.Rng, n int, thorough bool) {
	scratch := vh.NewReport("scratch", 0)
	for sc := 0; sc < n; sc++ {
		g := &c15histGen{rep: rep, r: r, e: &EnvOps{rep: scratch, r: r}, m: vh.NewMemKeystore()}
		// clients
		g.clients = []string{clientID, "client2"}
		if r.Bool() {
			g.clients = append(g.clients, "client3")
		}
		for _, c := range g.clients {
			g.m.Clients[c] = vh.NewKeySet(r, 1+r.Intn(2), 1+r.Intn(2), false)
		}
		// poison key pool and initial provisioning: every (provisioning, opening) pair is reached by the two counters
		for i := 0; i < 4; i++ {
			g.seeds = append(g.seeds, r.Bytes(32))
			g.syms = append(g.syms, r.Bytes(32))
		}
		prov := c15histProvisioning[sc%len(c15histProvisioning)]
		opening := c15histOpenings[(sc/len(c15histProvisioning))%len(c15histOpenings)]
		// the record of the opening is of the provisioned kind when only one kind is provisioned
		ySym := prov == "sym-only" || (prov != "pair-only" && (sc/len(c15histProvisioning))%2 == 1)
		xSym := ySym != (opening.rel == "other")
		if prov == "pair-only" || prov == "both" {
			g.m.PoisonSeeds = append([][]byte{}, g.seeds[:1+r.Intn(3)]...)
		}
		if prov == "sym-only" || prov == "both" {
			g.m.PoisonSyms = append([][]byte{}, g.syms[:1+r.Intn(3)]...)
		}
		hasCb := sc%7 != 6
		fail := hasCb && r.Intn(8) == 0
		rep.Count("provisioning:" + prov)
		rep.Count("opening:" + opening.first)
		rep.Count(fmt.Sprintf("callbacks:%v fail:%v", hasCb, fail))
		objs := c15histBuild(g.m, hasCb, fail)

		// one model operation per long-lived object (0 chain, 1 detector, 2 translator): the values it was given, in order
		var terms [3][]string
		var expect [3][][]byte // flattened per-value outcomes
		var pkTable []string   // the keystore's poison keys, one entry per distinct state, in order of appearance
		ksIndex := map[string]int{}
		var ksTable []string
		for i, c := range g.clients {
			ksIndex[c] = i
			ksTable = append(ksTable, g.m.Clients[c].Coq())
		}
		pkNow := func() int {
			t := c15histPK(g.m)
			if len(pkTable) == 0 || pkTable[len(pkTable)-1] != t {
				pkTable = append(pkTable, t)
			}
			return len(pkTable) - 1
		}
		var log []string // human-readable history (the replay)
		step := 0

		keysNow := func() string {
			return fmt.Sprintf("poison-key-pairs=%d poison-sym-keys=%d", len(g.m.PoisonSeeds), len(g.m.PoisonSyms))
		}
		feed := func(obj int, client string, v *c15histValue) {
			if obj == c15histDetector && !v.bare {
				obj = c15histChain
			}
			hist := min(obj, 2)
			switch obj {
			case c15histChain:
				terms[hist] = append(terms[hist], fmt.Sprintf("HCol %d %d %s", pkNow(), ksIndex[client], vh.H(v.data)))
			case c15histDetector:
				terms[hist] = append(terms[hist], fmt.Sprintf("HEnv %d %s", pkNow(), vh.H(v.data)))
			case c15histTrAS:
				terms[hist] = append(terms[hist], fmt.Sprintf("HTr %s %d %d %s", vh.H([]byte{crypto.AcraStructEnvelopeID}), ksIndex[client], pkNow(), vh.H(v.data)))
			default:
				terms[hist] = append(terms[hist], fmt.Sprintf("HTr %s %d %d %s", vh.H([]byte{crypto.AcraBlockEnvelopeID}), ksIndex[client], pkNow(), vh.H(v.data)))
			}
			line := fmt.Sprintf("step %d: %s [%s] %s as %s: %s = %s", step, c15histObjName[obj], keysNow(),
				map[bool]string{true: "callbacks configured", false: "no callbacks"}[hasCb], client, v.kind, hex.EncodeToString(v.data))
			log = append(log, line)
			replay := func() string {
				if len(rep.Violations) >= 6 { // the first ones carry the whole history; afterwards: the last steps only
					return fmt.Sprintf("scenario %d (provisioning %s, callback fails=%v), last steps of the history:\n%s", sc, prov, fail, strings.Join(log[max(0, len(log)-4):], "\n"))
				}
				return fmt.Sprintf("scenario %d (provisioning %s, opening %s of the %s kind then a record sym=%v, callback fails=%v); one long-lived object per kind; history:\n%s",
					sc, prov, opening.first, opening.rel, ySym, fail, strings.Join(log, "\n"))
			}
			obs := objs.c15histFeed(obj, client, v.data)
			// prefix independence: fresh objects over the same keystore, same value, same moment
			fresh := c15histBuild(g.m, hasCb, fail).c15histFeed(obj, client, v.data)
			rep.Count("object:" + c15histObjName[obj])
			rep.Count("value:" + strings.SplitN(strings.TrimPrefix(strings.TrimPrefix(v.kind, "again "), "embedded "), "(", 2)[0])
			if strings.HasPrefix(v.kind, "again ") {
				rep.Count("value-given-again")
			}
			rep.OracleChecks++
			switch {
			case obs.out.Kind == "panic":
				rep.Violate("panic", fmt.Sprintf("%s panicked at step %d: %s", c15histObjName[obj], step, obs.out.Msg), replay())
			case obs.late:
				rep.Violate("late-callback", fmt.Sprintf("%s: callbacks ran after the value of step %d was delivered", c15histObjName[obj], step), replay())
			case obs.calls != fresh.calls || obs.out.String() != fresh.out.String():
				rep.Violate("history-dependent", fmt.Sprintf("%s at step %d: the long-lived object ran the callbacks %d time(s) (%s), a fresh object over the same keystore %d time(s) (%s)",
					c15histObjName[obj], step, obs.calls, c15histShort(obs.out), fresh.calls, c15histShort(fresh.out)), replay())
			}
			// by construction
			if !v.undecided {
				rep.OracleChecks++
				errored := obs.out.Kind == "ok" && len(obs.out.Vals) > 1 && obs.out.Vals[1][0] == 1
				want := hasCb && g.c15histOpenable(v)
				if obj >= c15histTrAS && obs.out.Kind == "ok" && !errored {
					want = false // the client's own keys decrypted the value: the translator does not look further
					if g.c15histOpenable(v) && len(v.poisons) == 1 && v.bare {
						rep.Violate("poison-delivered", fmt.Sprintf("translator returned a value for a poison record at step %d", step), replay())
					}
				}
				switch {
				case want && obs.calls < 1:
					rep.Violate("history-missed-poison", fmt.Sprintf("%s at step %d: the value holds a poison record whose key the keystore holds now, the callbacks did not run (%s)",
						c15histObjName[obj], step, v.kind), replay())
				case !want && obs.calls != 0:
					rep.Violate("history-false-alarm", fmt.Sprintf("%s at step %d: callbacks ran %d time(s) on a value no poison key of the keystore opens now (%s)",
						c15histObjName[obj], step, obs.calls, v.kind), replay())
				}
				if want {
					rep.Count("expected:alarm")
				} else {
					rep.Count("expected:quiet")
				}
			} else {
				rep.Count("expected:undecided(prefix-independence only)")
			}
			if obs.out.Kind == "ok" {
				expect[hist] = append(expect[hist], obs.out.Vals...)
			} else {
				expect[hist] = append(expect[hist], []byte{2})
			}
			step++
		}
		feedAll := func(client string, v *c15histValue) {
			feed(c15histChain, client, v)
			feed(c15histDetector, client, v)
			if r.Bool() {
				feed(c15histTrAS, client, v)
			} else {
				feed(c15histTrAB, client, v)
			}
		}
		keyEvent := func(sym bool) {
			held, pool := &g.m.PoisonSeeds, g.seeds
			if sym {
				held, pool = &g.m.PoisonSyms, g.syms
			}
			for _, k := range pool {
				if !c15histHas(*held, k) {
					what := "provisioned"
					if len(*held) > 0 {
						what = "rotated"
					}
					*held = append([][]byte{k}, *held...)
					log = append(log, fmt.Sprintf("keystore: poison key (sym=%v) %s -> %s", sym, what, keysNow()))
					rep.Count("keystore-event:" + what)
					return
				}
			}
		}

		// --- opening
		conn := g.clients[0]
		other := g.clients[1]
		switch opening.first {
		case "ordinary":
			feedAll(conn, g.c15histClientEnvelope(conn, c15histKindID(xSym)))
		case "undecryptable":
			feedAll(conn, g.c15histClientEnvelope(other, c15histKindID(xSym)))
		case "lookalike":
			feedAll(conn, g.c15histNoise(xSym))
		case "poison-foreign-key":
			feedAll(conn, g.c15histPoisonValue(xSym, "future"))
		}
		ywhich := "current"
		if sc%3 == 2 {
			ywhich = "rotated"
		}
		y := g.c15histPoisonValue(ySym, ywhich)
		if sc%2 == 0 {
			feedAll(conn, y)
		} else {
			feedAll(other, g.c15histEmbed(y))
		}
		// --- random tail with keystore events
		tail := 4
		if thorough {
			tail = 5 + r.Intn(8)
		}
		for i := 0; i < tail; i++ {
			if r.Intn(4) == 0 {
				keyEvent(r.Bool())
			}
			v := g.c15histRandomValue()
			feed(r.Pick(c15histChain, c15histChain, c15histDetector, c15histTrAS, c15histTrAB), g.clients[r.Intn(len(g.clients))], v)
			if r.Intn(4) == 0 { // the same value twice in a row (possibly for another client / on another object)
				rv := *v
				rv.kind = "again " + v.kind
				feed(r.Pick(c15histChain, c15histDetector, c15histTrAS, c15histTrAB), g.clients[r.Intn(len(g.clients))], &rv)
			}
		}
		// --- a record made under a key that arrives only now: quiet before, alarm after
		lateSym := sc%4 < 2
		lateKey := g.c15histPickKey(lateSym, "future")
		if (thorough || sc%2 == 0) && !c15histHas(map[bool][][]byte{true: g.m.PoisonSyms, false: g.m.PoisonSeeds}[lateSym], lateKey) {
			lv := &c15histValue{kind: fmt.Sprintf("poison(sym=%v,key-arrives-later)", lateSym), data: g.c15histRecord(lateSym, lateKey),
				poisons: []c15histPoison{{lateSym, lateKey}}, bare: true}
			feed(r.Pick(c15histChain, c15histDetector), conn, lv)
			held := &g.m.PoisonSeeds
			if lateSym {
				held = &g.m.PoisonSyms
			}
			*held = append([][]byte{lateKey}, *held...)
			log = append(log, fmt.Sprintf("keystore: poison key (sym=%v) of the previous record added -> %s", lateSym, keysNow()))
			rep.Count("keystore-event:key-of-earlier-record-added")
			feedAll(conn, lv)
		}
		// --- closing: both kinds on every object, after everything else
		feed(c15histChain, other, g.c15histEmbed(g.c15histPoisonValue(false, "current")))
		feed(c15histChain, conn, g.c15histPoisonValue(true, "current"))
		feed(c15histDetector, conn, g.c15histPoisonValue(sc%2 == 0, "current"))
		feed(c15histTrAB, other, g.c15histPoisonValue(false, "rotated"))
		feed(c15histTrAS, conn, g.c15histPoisonValue(true, "current"))
		// the record of the opening once more (a retried request / the same row read again): same verdict as the first time
		again := *y
		again.kind = "again " + y.kind
		feedAll(conn, &again)

		for hist, name := range []string{"chain", "detector", "translator"} {
			rep.Add(fmt.Sprintf("sc%d %s history of %d values (scenario: %d), provisioning=%s opening=%s/%s callbacks=%v fail=%v", sc, name, len(terms[hist]), step, prov, opening.first, opening.rel, hasCb, fail),
				fmt.Sprintf("PoisonHistory %s %s [%s] [%s] [%s]", coqBool(hasCb), coqBool(fail), strings.Join(pkTable, "; "), strings.Join(ksTable, "; "), strings.Join(terms[hist], "; ")),
				vh.Ok(expect[hist]...))
		}
	}
}

func c15histShort(o vh.Outcome) string {
	s := o.String()
	if len(s) > 120 {
		return s[:120] + "…"
	}
	return s
}

var _ = core.KeyPair
