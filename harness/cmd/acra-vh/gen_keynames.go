package main

// Generator `keynames` (prints coq/Gen/KeyNames.v) and the probes shared with the c02ks domain.
//
// Nothing here contains a storage-name string of acra: every name is OBSERVED by running the real
// key stores over recording in-memory storages (vhiso.MemFS for keystore v1, vhiso.SpyBackend around
// backend.NewInMemory for keystore v2) with a probe id and splitting the accessed path around the probe.

import (
	"fmt"
	"os"
	"strings"

	"acra-vh/vhiso"

	"github.com/cossacklabs/acra/keystore"
	"github.com/cossacklabs/acra/keystore/filesystem"
	ks2 "github.com/cossacklabs/acra/keystore/v2/keystore"
	ks2crypto "github.com/cossacklabs/acra/keystore/v2/keystore/crypto"
	fs2 "github.com/cossacklabs/acra/keystore/v2/keystore/filesystem"
	"github.com/cossacklabs/acra/keystore/v2/keystore/filesystem/backend"
)

func init() { generators["keynames"] = emitKeyNames }

const c02V1Dir = "/ks" // directory name inside the in-memory storage (never on the real file system)

var ksMaster = []byte("0123456789abcdef0123456789abcdef")
var ksSignKey = []byte("fedcba9876543210fedcba9876543210")

// V1 purposes = the per-client files the v1 key store reads or writes.  Order = constructor order of
// [v1_purpose] in coq/Model/KeyNames.v.
var v1Purposes = []string{"StoragePriv", "StoragePub", "StorageSym", "Hmac",
	"ConnPriv", "ConnPub", "ServerPriv", "ServerPub", "TransPriv", "TransPub"}

// V2 purposes = the per-client key rings.
var v2Purposes = []string{"StorageRing", "StorageSymRing", "HmacRing"}

func newV1(m *vhiso.MemFS) *filesystem.KeyStore {
	enc, err := keystore.NewSCellKeyEncryptor(ksMaster)
	if err != nil {
		panic(err)
	}
	ks, err := filesystem.NewCustomFilesystemKeyStore().KeyDirectory(c02V1Dir).Encryptor(enc).Storage(m).Build()
	if err != nil {
		panic(err)
	}
	return ks
}

func c02NewV2(spy *vhiso.SpyBackend) *ks2.ServerKeyStore {
	suite, err := ks2crypto.NewSCellSuite(ksMaster, ksSignKey)
	if err != nil {
		panic(err)
	}
	st, err := fs2.CustomKeyStore(spy, suite)
	if err != nil {
		panic(err)
	}
	return ks2.NewServerKeyStore(st)
}

func newSpy() *vhiso.SpyBackend { return &vhiso.SpyBackend{Inner: backend.NewInMemory()} }

func nthLog(log []string, op string, n int) (string, bool) {
	for _, l := range log {
		if strings.HasPrefix(l, op+" ") {
			if n == 0 {
				return l[len(op)+1:], true
			}
			n--
		}
	}
	return "", false
}

// v1Name: the storage name (relative to the key directory) the REAL v1 key store uses for (purpose, id),
// observed on a fresh empty in-memory storage.  ok=false when the real code refuses the id before
// touching the storage (the legacy generators validate ids).
func v1Name(purpose string, id []byte) (name string, ok bool) {
	m := vhiso.NewMemFS()
	ks := newV1(m)
	m.ResetLog()
	var p string
	switch purpose {
	case "StoragePriv":
		ks.GetServerDecryptionPrivateKey(id)
		p, ok = nthLog(m.Log, "stat", 0)
	case "StoragePub":
		ks.GetClientIDEncryptionPublicKey(id)
		p, ok = nthLog(m.Log, "read", 0)
	case "StorageSym":
		ks.GetClientIDSymmetricKey(id)
		p, ok = nthLog(m.Log, "read", 0)
	case "Hmac":
		ks.GetHMACSecretKey(id)
		p, ok = nthLog(m.Log, "read", 0)
	case "ConnPriv", "ConnPub":
		ks.GenerateConnectorKeys(id)
		p, ok = nthLog(m.Log, "rename", map[string]int{"ConnPriv": 0, "ConnPub": 1}[purpose])
	case "ServerPriv", "ServerPub":
		ks.GenerateServerKeys(id)
		p, ok = nthLog(m.Log, "rename", map[string]int{"ServerPriv": 0, "ServerPub": 1}[purpose])
	case "TransPriv", "TransPub":
		ks.GenerateTranslatorKeys(id)
		p, ok = nthLog(m.Log, "rename", map[string]int{"TransPriv": 0, "TransPub": 1}[purpose])
	default:
		panic("unknown v1 purpose " + purpose)
	}
	if !ok {
		return "", false
	}
	if !strings.HasPrefix(p, c02V1Dir+"/") {
		panic("v1 key store accessed a path outside its directory: " + p)
	}
	return p[len(c02V1Dir)+1:], true
}

// v1GenName: the name the v1 GENERATOR of a current purpose writes (must equal the getter's name).
func v1GenName(purpose string, id []byte) (string, bool) {
	m := vhiso.NewMemFS()
	ks := newV1(m)
	m.ResetLog()
	n := 0
	switch purpose {
	case "StoragePriv":
		ks.GenerateDataEncryptionKeys(id)
	case "StoragePub":
		ks.GenerateDataEncryptionKeys(id)
		n = 1
	case "StorageSym":
		ks.GenerateClientIDSymmetricKey(id)
	case "Hmac":
		ks.GenerateHmacKey(id)
	default:
		return v1Name(purpose, id)
	}
	p, ok := nthLog(m.Log, "rename", n)
	if !ok || !strings.HasPrefix(p, c02V1Dir+"/") {
		return "", false
	}
	return p[len(c02V1Dir)+1:], true
}

func v1Globals() []string {
	m := vhiso.NewMemFS()
	ks := newV1(m)
	m.ResetLog()
	ks.GeneratePoisonKeyPair()
	ks.GeneratePoisonSymmetricKey()
	ks.GenerateLogKey()
	var out []string
	for i := 0; ; i++ {
		p, ok := nthLog(m.Log, "rename", i)
		if !ok {
			break
		}
		out = append(out, strings.TrimPrefix(p, c02V1Dir+"/"))
	}
	if len(out) != 4 {
		panic(fmt.Sprint("expected 4 global v1 key files, saw ", out))
	}
	return out
}

// v2Name: the backend path the REAL v2 key store fetches for (purpose, id).
func v2Name(purpose string, id []byte) (string, bool) {
	spy := newSpy()
	ks := c02NewV2(spy)
	switch purpose {
	case "StorageRing":
		ks.GetServerDecryptionPrivateKey(id)
	case "StorageSymRing":
		ks.GetClientIDSymmetricKey(id)
	case "HmacRing":
		ks.GetHMACSecretKey(id)
	default:
		panic("unknown v2 purpose " + purpose)
	}
	return nthLog(spy.Log, "get", 0)
}

// v2PubName: the path fetched by the public-key getter (same ring as the private key).
func v2PubName(id []byte) (string, bool) {
	spy := newSpy()
	ks := c02NewV2(spy)
	ks.GetClientIDEncryptionPublicKey(id)
	return nthLog(spy.Log, "get", 0)
}

func v2Globals() []string {
	var out []string
	for i := 0; i < 4; i++ {
		spy := newSpy()
		ks := c02NewV2(spy)
		switch i {
		case 0:
			ks.GetPoisonKeyPair()
		case 1:
			ks.GetPoisonSymmetricKey()
		case 2:
			ks.GetLogSecretKey()
		case 3:
			continue
		}
		p, ok := nthLog(spy.Log, "get", 0)
		if !ok {
			panic("no backend access for a global v2 ring")
		}
		out = append(out, p)
	}
	return out
}

func splitProbe(name, probe string) (pre, suf string) {
	if strings.Count(name, probe) != 1 {
		fmt.Fprintf(os.Stderr, "keynames: probe id occurs %d times in %q\n", strings.Count(name, probe), name)
		os.Exit(3)
	}
	i := strings.Index(name, probe)
	return name[:i], name[i+len(probe):]
}

func coqB(s string) string { return "(hb 0x1" + fmt.Sprintf("%x", s) + "%N)" }

func emitKeyNames() {
	probe := "QZPROBEIDQZ"
	probe2 := "Wy7-k 0_Jx" // second probe: the split must not depend on the id
	fmt.Println("(* GENERATED by `acra-vh keynames` from /repo on every run. Do not edit.")
	fmt.Println("   Every name is observed by running the real key stores over recording in-memory storages. *)")
	fmt.Println("From Acra Require Import Lib.Bytes.")
	fmt.Println("(* keystore v1 (keystore/filesystem): per-client file name = PRE ++ id ++ SUF, relative to the key directory *)")
	for _, p := range v1Purposes {
		n1, ok1 := v1Name(p, []byte(probe))
		n2, ok2 := v1Name(p, []byte(probe2))
		if !ok1 || !ok2 {
			fmt.Fprintln(os.Stderr, "keynames: no storage access observed for v1 purpose", p)
			os.Exit(3)
		}
		pre, suf := splitProbe(n1, probe)
		pre2, suf2 := splitProbe(n2, probe2)
		if pre != pre2 || suf != suf2 {
			fmt.Fprintln(os.Stderr, "keynames: v1 name of", p, "is not prefix+id+suffix")
			os.Exit(3)
		}
		if g, ok := v1GenName(p, []byte(probe)); !ok || g != n1 {
			fmt.Fprintln(os.Stderr, "keynames: v1 generator and getter of", p, "use different names", g, n1)
			os.Exit(3)
		}
		fmt.Printf("Definition V1_%s_PRE : bytes := %s. (* %q *)\n", p, coqB(pre), pre)
		fmt.Printf("Definition V1_%s_SUF : bytes := %s. (* %q *)\n", p, coqB(suf), suf)
	}
	var gl []string
	for _, g := range v1Globals() {
		gl = append(gl, coqB(g))
	}
	fmt.Printf("(* keystore v1 files that belong to no client: %q *)\n", v1Globals())
	fmt.Printf("Definition V1_GLOBALS : list bytes := [%s].\n", strings.Join(gl, "; "))
	fmt.Println("(* keystore v2 (keystore/v2/keystore): backend path of a per-client key ring = PRE ++ id ++ SUF for ids that")
	fmt.Println("   filepath.Join leaves alone (non-empty, no '/', not \".\" or \"..\") *)")
	for _, p := range v2Purposes {
		n1, ok1 := v2Name(p, []byte(probe))
		n2, ok2 := v2Name(p, []byte(probe2))
		if !ok1 || !ok2 {
			fmt.Fprintln(os.Stderr, "keynames: no backend access observed for v2 purpose", p)
			os.Exit(3)
		}
		pre, suf := splitProbe(n1, probe)
		pre2, suf2 := splitProbe(n2, probe2)
		if pre != pre2 || suf != suf2 {
			fmt.Fprintln(os.Stderr, "keynames: v2 name of", p, "is not prefix+id+suffix")
			os.Exit(3)
		}
		fmt.Printf("Definition V2_%s_PRE : bytes := %s. (* %q *)\n", p, coqB(pre), pre)
		fmt.Printf("Definition V2_%s_SUF : bytes := %s. (* %q *)\n", p, coqB(suf), suf)
	}
	gl = nil
	for _, g := range v2Globals() {
		gl = append(gl, coqB(g))
	}
	fmt.Printf("(* keystore v2 rings that belong to no client: %q *)\n", v2Globals())
	fmt.Printf("Definition V2_GLOBALS : list bytes := [%s].\n", strings.Join(gl, "; "))
	fmt.Println("(* keystore.ValidateID: length bounds (constants) and the set of accepted bytes, obtained by calling")
	fmt.Println("   ValidateID on a valid id with each of the 256 byte values inserted at the front, middle and end *)")
	fmt.Printf("Definition ID_MIN_LEN : nat := %d.\n", keystore.MinClientIDLength)
	fmt.Printf("Definition ID_MAX_LEN : nat := %d.\n", keystore.MaxClientIDLength)
	var okBytes []byte
	for c := 0; c < 256; c++ {
		a := keystore.ValidateID(append([]byte{byte(c)}, "AAAAAA"...))
		b := keystore.ValidateID(append(append([]byte("AAA"), byte(c)), "AAA"...))
		d := keystore.ValidateID(append([]byte("AAAAAA"), byte(c)))
		if a != b || b != d {
			fmt.Fprintf(os.Stderr, "keynames: ValidateID is position dependent for byte %d\n", c)
			os.Exit(3)
		}
		if a {
			okBytes = append(okBytes, byte(c))
		}
	}
	fmt.Printf("Definition ID_VALID_BYTES : bytes := %s. (* %q *)\n", coqB(string(okBytes)), string(okBytes))
}
