package main

// C13_statements: "text re-serialised by acra's SQL parser parses back to the same structure" for whole
// data-manipulation statements.
//
// Model cases (replayed on coq/Model/RunSqlStmt.v):
//   SRound  a real parse tree mapped to a model tree: the model's token printer against Tokenizer(String(t)), the
//           model's text printer against String(t) byte for byte, the model's lexer against the Tokenizer on that
//           text, the model's parser against Parse(String(t)), and wf against "Go round-trips it";
//   SLex    the model's lexer against the real Tokenizer on token soup.
// Implementation-only oracle: Parse(String(t)) = t for generated statements, statements with spliced sub-trees and
// value substitution through the real encryptor (classes of the three known findings of this domain are decided
// on the tree, everything else is a violation).

import (
	"fmt"
	"strings"

	"acra-vh/vh"

	"github.com/cossacklabs/acra/sqlparser"
)

func init() { register("c13s", "Model.RunSqlStmt", runC13s) }

type c13s struct {
	*c13
	pieces map[bool]*c13sPool
}

// printed sub-trees of accepted statements, for splicing
type c13sPool struct {
	exprs, sels, tables []string
}

// ---------------------------------------------------------------------------------------------
// statement text generator (both dialects; only constructs of the modelled fragment, so that most cases export)
// ---------------------------------------------------------------------------------------------

type c13sGen struct {
	r    *vh.Rng
	pg   bool
	pool *c13sPool
	nph  int
}

func (g *c13sGen) pick(xs ...string) string { return xs[g.r.Intn(len(xs))] }
func (g *c13sGen) chance(n int) bool        { return g.r.Intn(n) == 0 }

var c13sPlain = []string{"a", "b", "c1", "t1", "t2", "u", "col", "Tb", "k_2", "x", "y", "id", "name", "total"}

// identifiers as written in the statement: plain, keyword or odd names quoted the dialect's way, remembered quotes
func (g *c13sGen) ident() string {
	switch g.r.Intn(12) {
	case 0:
		if g.pg {
			return g.pick(`"Abc"`, `"a b"`, `"select"`, `"x-y"`)
		}
		return g.pick("`select`", "`a b`", "`x``y`", "`from`", "`1a`", "`Key`")
	case 1:
		if !g.pg {
			return g.pick("`status`", "`date`", "`order`", "`a.b`", "`dual`")
		}
		return g.pick(`"Status"`, `"date"`)
	}
	return g.pick(c13sPlain...)
}

func (g *c13sGen) alias() string {
	switch g.r.Intn(10) {
	case 0:
		return g.pick(`'al'`, `'a b'`, `'x1'`)
	case 1:
		return g.pick(`"al"`, `"A l"`)
	}
	return g.ident()
}

func (g *c13sGen) tableAlias() string {
	if g.chance(12) {
		return g.pick(`'ta'`, `'t b'`)
	}
	if g.pg && g.chance(8) {
		return `"TA"`
	}
	return g.ident()
}

func (g *c13sGen) col() string {
	switch g.r.Intn(6) {
	case 0:
		return g.ident() + "." + g.ident()
	case 1:
		if g.chance(3) {
			return g.ident() + "." + g.ident() + "." + g.ident()
		}
	}
	return g.ident()
}

func (g *c13sGen) lit() string {
	switch g.r.Intn(22) {
	case 0:
		return g.pick("'a'", "'it''s'", "'\\\\'", "''", "'x\\ny'", "'%a_'", "'\\x41'", "'日本'")
	case 1:
		return g.pick("x'AB'", "X'00ff'", "x''")
	case 2:
		return g.pick("0xAB", "0x0", "0Xff")
	case 3:
		return g.pick("b'01'", "B'1'", "b''")
	case 4:
		return g.pick("1e3", ".5", "1.", "1.5e-3", "0.0", "12.5E+2")
	case 5:
		if g.pg {
			g.nph++
			return fmt.Sprintf("$%d", g.nph)
		}
		return "?"
	case 6:
		return "?"
	case 7:
		if g.pg {
			return g.pick("E'a\\nb'", "e'x'", "E'\\\\x'")
		}
		return g.pick("\"dq\"", "\"d''q\"", "\"\"")
	case 8:
		return g.pick("'1'::int", "1::text", "'a'::varchar::text", "2.5::numeric")
	case 9:
		return g.pick("-5", "-0", "- 7", "+3")
	case 10, 11:
		return "'" + g.pick("abc", "x y", "2020-01-02", "0") + "'"
	}
	return fmt.Sprint(g.r.Intn(1000))
}

var c13sBin = []string{"+", "-", "*", "/", "%", "div", "mod", "&", "|", "^", "<<", ">>"}
var c13sCmp = []string{"=", "<", ">", "<=", ">=", "!=", "<>", "<=>"}
var c13sUnits = []string{"day", "hour", "minute", "second", "month", "year", "week", "quarter", "microsecond", "day_hour", "year_month", "minute_second"}
var c13sFuncs = []string{"f", "count", "max", "concat", "coalesce", "lower", "now", "if", "left", "right", "mod", "replace", "database", "date", "time", "status", "current_timestamp", "utc_date", "schema", "offset"}

// value expression
func (g *c13sGen) val(d int) string {
	if d <= 0 {
		if g.chance(2) {
			return g.col()
		}
		return g.lit()
	}
	switch g.r.Intn(26) {
	case 0, 1, 2:
		return g.val(d-1) + " " + g.pick(c13sBin...) + " " + g.val(d-1)
	case 3:
		return "(" + g.expr(d-1) + ")"
	case 4:
		return g.pick("-", "+", "~", "!", "binary ", "_binary ", "- ", "-  -") + g.val(d-1)
	case 5:
		return g.fn(d)
	case 6:
		return "case " + g.caseBody(d)
	case 7:
		if g.chance(2) {
			return "cast(" + g.expr(d-1) + " as " + g.ctype() + ")"
		}
		return "convert(" + g.expr(d-1) + ", " + g.ctype() + ")"
	case 8:
		return "convert(" + g.expr(d-1) + " using " + g.pick("utf8", "latin1", "utf8mb4") + ")"
	case 9:
		if g.pg {
			return "interval '" + g.pick("1 day", "2 hours", "1") + "'"
		}
		return "interval " + g.val(d-1) + " " + g.pick(c13sUnits...)
	case 10:
		return g.val(d-1) + " collate " + g.pick("utf8_bin", "latin1_general_ci", "utf8mb4_unicode_ci")
	case 11:
		return "(" + g.sel(d-1, false) + ")"
	case 12:
		return "(" + g.list(d-1, 2) + ")"
	case 13:
		return g.pick("null", "true", "false")
	case 14:
		return "values(" + g.col() + ")"
	case 15:
		if g.pool != nil && len(g.pool.exprs) > 0 {
			return "(" + g.pool.exprs[g.r.Intn(len(g.pool.exprs))] + ")"
		}
	}
	if g.chance(2) {
		return g.col()
	}
	return g.lit()
}

func (g *c13sGen) ctype() string {
	switch g.r.Intn(8) {
	case 0:
		return g.pick("signed", "unsigned", "signed integer", "unsigned integer", "date", "json")
	case 1:
		return g.pick("char", "char(10)", "binary", "binary(4)", "nchar(3)", "datetime", "datetime(6)", "time", "time(3)")
	case 2:
		return g.pick("decimal", "decimal(10)", "decimal(10, 2)")
	}
	return g.pick("signed", "char(5)", "date", "decimal(8, 3)", "unsigned")
}

func (g *c13sGen) caseBody(d int) string {
	s := ""
	if g.chance(2) {
		s = g.expr(d-1) + " "
	}
	for i, n := 0, 1+g.r.Intn(3); i < n; i++ {
		s += "when " + g.expr(d-1) + " then " + g.expr(d-1) + " "
	}
	if g.chance(2) {
		s += "else " + g.expr(d-1) + " "
	}
	return s + "end"
}

func (g *c13sGen) fn(d int) string {
	name := g.pick(c13sFuncs...)
	switch name {
	case "current_timestamp", "utc_date":
		return name + "()"
	case "now", "database", "schema":
		if g.chance(2) {
			return name + "()"
		}
	case "count":
		if g.chance(3) {
			return "count(*)"
		}
		if g.chance(3) {
			return "count(distinct " + g.val(d-1) + ")"
		}
	}
	args := g.selExprs(d-1, 1+g.r.Intn(3), g.chance(6))
	q := ""
	if g.chance(10) && (name == "f" || name == "concat" || name == "lower") {
		q = g.ident() + "."
	}
	return q + name + "(" + args + ")"
}

func (g *c13sGen) list(d, min int) string {
	n := min + g.r.Intn(3)
	parts := make([]string, n)
	for i := range parts {
		parts[i] = g.expr(d)
	}
	return strings.Join(parts, ", ")
}

// boolean / general expression
func (g *c13sGen) expr(d int) string {
	if d <= 0 {
		return g.val(0)
	}
	switch g.r.Intn(22) {
	case 0, 1:
		return g.expr(d-1) + " " + g.pick("and", "or", "AND", "||", "&&") + " " + g.expr(d-1)
	case 2:
		return "not " + g.expr(d-1)
	case 3, 4:
		return g.val(d-1) + " " + g.pick(c13sCmp...) + " " + g.val(d-1)
	case 5:
		if g.chance(2) {
			return g.val(d-1) + g.pick(" in (", " not in (") + g.sel(d-1, false) + ")"
		}
		return g.val(d-1) + g.pick(" in (", " not in (") + g.list(d-1, 1) + ")"
	case 6:
		op := g.pick("like", "not like", "regexp", "not regexp", "rlike")
		if g.pg && g.chance(2) {
			op = g.pick("ilike", "not ilike")
		}
		s := g.val(d-1) + " " + op + " " + g.val(d-1)
		if strings.HasSuffix(op, "like") && g.chance(3) {
			s += " escape " + g.pick("'!'", "'\\\\'", "'|'")
		}
		return s
	case 7:
		return g.val(d-1) + g.pick(" between ", " not between ") + g.val(d-1) + " and " + g.val(d-1)
	case 8:
		return g.expr(d-1) + " " + g.pick("is null", "is not null", "is true", "is not true", "is false", "is not false")
	case 9:
		return "exists (" + g.sel(d-1, false) + ")"
	case 10:
		if g.chance(4) {
			return "default"
		}
	}
	return g.val(d)
}

func (g *c13sGen) selExprs(d, n int, stars bool) string {
	parts := make([]string, n)
	for i := range parts {
		switch {
		case stars && g.chance(3):
			parts[i] = g.pick("*", g.ident()+".*", g.ident()+"."+g.ident()+".*")
		default:
			parts[i] = g.expr(d)
			if g.chance(3) {
				parts[i] += g.pick(" as ", " as ", " ") + g.alias()
			}
		}
	}
	return strings.Join(parts, ", ")
}

func (g *c13sGen) tableName() string {
	if g.chance(4) {
		return g.ident() + "." + g.ident()
	}
	return g.ident()
}

func (g *c13sGen) aliased() string {
	s := g.tableName()
	if g.chance(3) {
		s += g.pick(" as ", " ") + g.tableAlias()
	}
	return s
}

func (g *c13sGen) factor(d int) string {
	switch g.r.Intn(8) {
	case 0:
		if d > 0 {
			return "(" + g.sel(d-1, false) + ") as " + g.tableAlias()
		}
	case 1:
		if d > 0 {
			return "(" + g.trefs(d-1) + ")"
		}
	case 2:
		if g.pool != nil && len(g.pool.tables) > 0 && d > 0 {
			return "(" + g.pool.tables[g.r.Intn(len(g.pool.tables))] + ")"
		}
	}
	return g.aliased()
}

func (g *c13sGen) cond(d int) string {
	if g.chance(3) {
		return " using (" + g.ident() + g.pick("", ", "+g.ident()) + ")"
	}
	return " on " + g.expr(d)
}

func (g *c13sGen) tref(d int) string {
	s := g.factor(d)
	for i, n := 0, g.r.Intn(3); d > 0 && i < n; i++ {
		switch g.r.Intn(6) {
		case 0:
			s += " " + g.pick("left join", "right join", "left outer join", "right outer join") + " " + g.tref(d-1) + g.cond(d-1)
		case 1:
			s += " " + g.pick("natural join", "natural left join", "natural right outer join") + " " + g.factor(d-1)
		case 2:
			s += " straight_join " + g.factor(d-1)
			if g.chance(2) {
				s += " on " + g.expr(d-1)
			}
		default:
			s += " " + g.pick("join", "inner join", "cross join") + " " + g.factor(d-1)
			if g.chance(3) == false {
				s += g.cond(d - 1)
			}
		}
	}
	return s
}

func (g *c13sGen) trefs(d int) string {
	s := g.tref(d)
	for g.chance(4) {
		s += ", " + g.tref(d)
	}
	return s
}

func (g *c13sGen) orderBy(d int) string {
	if !g.chance(3) {
		return ""
	}
	n := 1 + g.r.Intn(2)
	parts := make([]string, n)
	for i := range parts {
		parts[i] = g.expr(d) + g.pick("", " asc", " desc", " DESC", " asc nulls first", " desc nulls last", " asc nulls last", " desc nulls first")
	}
	return " order by " + strings.Join(parts, ", ")
}

// limOperand: literals and placeholders that differ between the two operands of one LIMIT clause
func (g *c13sGen) limOperands() (string, string) {
	n := 1 + g.r.Intn(40)
	m := n + 1 + g.r.Intn(40)
	a, b := fmt.Sprint(n), fmt.Sprint(m)
	if g.chance(4) {
		if g.pg {
			g.nph += 2
			a, b = fmt.Sprintf("$%d", g.nph-1), fmt.Sprintf("$%d", g.nph)
		} else {
			a, b = "?", "?" // numbered :v1, :v2 ... by the tokenizer
		}
	} else if g.chance(5) {
		a = "?"
		if g.pg {
			g.nph++
			a = fmt.Sprintf("$%d", g.nph)
		}
	}
	if g.chance(2) {
		a, b = b, a
	}
	return a, b
}

func (g *c13sGen) limit(d int) string {
	if !g.chance(3) {
		return ""
	}
	a, b := g.limOperands()
	switch g.r.Intn(6) {
	case 0, 1:
		return " limit " + a + " offset " + b
	case 2:
		if g.pg {
			return g.pick(" limit all", " limit all offset "+a)
		}
		return " limit " + a + ", " + b
	case 3:
		return " limit " + g.val(d)
	}
	return " limit " + a
}

func (g *c13sGen) base(d int) string {
	s := "select " + g.pick("", "", "distinct ") + g.selExprs(d, 1+g.r.Intn(3), true)
	if !g.chance(8) {
		s += " from " + g.trefs(d)
	}
	if g.chance(2) {
		s += " where " + g.expr(d)
	}
	if g.chance(4) {
		s += " group by " + g.list(d, 1)
	}
	if g.chance(5) {
		s += " having " + g.expr(d)
	}
	return s
}

func (g *c13sGen) tails(d int) string {
	return g.orderBy(d) + g.limit(d) + g.pick("", "", "", "", " for update", " lock in share mode")
}

// select_statement; top: may start with a parenthesised select
func (g *c13sGen) sel(d int, top bool) string {
	if d > 0 && g.pool != nil && len(g.pool.sels) > 0 && g.chance(10) && !top {
		return g.pool.sels[g.r.Intn(len(g.pool.sels))]
	}
	s := g.base(d) + g.tails(d)
	if top && d > 0 && g.chance(6) {
		s = "(" + g.sel(d-1, true) + ")" // union_lhs must be followed by a union
		s += " " + g.pick("union", "union all", "union distinct") + " " + g.base(d-1) + g.tails(d - 1)
	}
	for d > 0 && g.chance(4) {
		rhs := g.base(d - 1)
		if g.chance(3) {
			rhs = "(" + g.sel(d-1, true) + ")"
		}
		s += " " + g.pick("union", "union all", "union distinct") + " " + rhs + g.tails(d-1)
	}
	return s
}

func (g *c13sGen) updates(d int) string {
	n := 1 + g.r.Intn(3)
	parts := make([]string, n)
	for i := range parts {
		parts[i] = g.col() + " = " + g.expr(d)
	}
	return strings.Join(parts, ", ")
}

func (g *c13sGen) returning(d int) string {
	if g.chance(5) {
		return " returning " + g.selExprs(d, 1+g.r.Intn(2), true)
	}
	return ""
}

func (g *c13sGen) stmt(d int) string {
	switch g.r.Intn(10) {
	case 0, 1, 2:
		s := g.pick("insert", "insert", "replace") + g.pick("", "", " ignore") + g.pick(" into ", " into ", " ") + g.tableName()
		if g.chance(12) {
			return s + " default values"
		}
		cols := ""
		if g.chance(2) {
			n := 1 + g.r.Intn(3)
			parts := make([]string, n)
			for i := range parts {
				parts[i] = g.alias()
				if g.chance(8) {
					parts[i] = g.ident() + "." + parts[i]
				}
			}
			cols = "(" + strings.Join(parts, ", ") + ")"
		}
		switch g.r.Intn(5) {
		case 0, 1, 2:
			n := 1 + g.r.Intn(3)
			rows := make([]string, n)
			for i := range rows {
				if g.chance(10) {
					rows[i] = "()"
				} else {
					rows[i] = "(" + g.list(d, 1) + ")"
				}
			}
			s += cols + " values " + strings.Join(rows, ", ")
		case 3:
			s += cols + " " + g.sel(d, false)
		default:
			if cols == "" && g.chance(2) {
				s += " set " + g.updates(d)
			} else {
				s += cols + " (" + g.sel(d, false) + ")"
			}
		}
		if g.chance(3) {
			s += " on duplicate key update " + g.updates(d)
		}
		return s + g.returning(d)
	case 3, 4:
		s := "update " + g.trefs(d) + " set " + g.updates(d)
		if g.pg && g.chance(4) {
			s += " from " + g.trefs(d)
		}
		if g.chance(2) {
			s += " where " + g.expr(d)
		}
		s += g.orderBy(d) + g.limit(d)
		if g.pg {
			s += g.returning(d)
		}
		return s
	case 5:
		if g.chance(3) {
			tg := g.aliased() + g.pick("", ", "+g.aliased())
			s := "delete from " + tg + " using " + g.trefs(d)
			if g.chance(2) {
				s = "delete " + tg + " from " + g.trefs(d)
			}
			if g.chance(2) {
				s += " where " + g.expr(d)
			}
			return s + g.returning(d)
		}
		s := "delete from " + g.aliased()
		if g.chance(2) {
			s += " where " + g.expr(d)
		}
		return s + g.orderBy(d) + g.limit(d) + g.returning(d)
	}
	return g.sel(d, true)
}

// ---------------------------------------------------------------------------------------------
// the property's oracle on the implementation: Parse(String(t)) = t, classes decided on the tree
// ---------------------------------------------------------------------------------------------

// c13sOpenJoinEnd: the printed select ends with a join that has no condition (a following ON is taken as its condition)
func c13sOpenJoinEnd(s sqlparser.SelectStatement) bool {
	open := func(sel *sqlparser.Select, tails bool) bool {
		if sel.Where != nil || len(sel.GroupBy) != 0 || sel.Having != nil || len(sel.From) == 0 {
			return false
		}
		if tails && (len(sel.OrderBy) != 0 || sel.Limit != nil || sel.Lock != "") {
			return false
		}
		j, ok := sel.From[len(sel.From)-1].(*sqlparser.JoinTableExpr)
		return ok && (j.Join == sqlparser.JoinStr || j.Join == sqlparser.StraightJoinStr) && j.Condition.On == nil && j.Condition.Using == nil
	}
	switch n := s.(type) {
	case *sqlparser.Select:
		return open(n, true)
	case *sqlparser.Union:
		if len(n.OrderBy) != 0 || n.Limit != nil || n.Lock != "" {
			return false
		}
		if r, ok := n.Right.(*sqlparser.Select); ok {
			return open(r, false)
		}
	}
	return false
}

// c13sKnownClass: the narrow classes of the known findings of this domain (decided on the ORIGINAL tree).
func c13sKnownClass(pg bool, t sqlparser.Statement) string {
	class := ""
	if ins, ok := t.(*sqlparser.Insert); ok && ins.OnDup != nil {
		if s, ok := ins.Rows.(sqlparser.SelectStatement); ok && c13sOpenJoinEnd(s) {
			return "stmt-insert-select-open-join-before-on-duplicate"
		}
	}
	sqlparser.Walk(func(n sqlparser.SQLNode) (bool, error) {
		if isNilNode(n) {
			return false, nil
		}
		switch v := n.(type) {
		case *sqlparser.ConvertType:
			if v.Type == "varchar" && v.Length == nil {
				class = "stmt-convert-varchar-length-dropped"
			}
		case *sqlparser.IntervalExpr:
			if txt, pan := c13String(v.Expr); !pg && pan == "" && strings.HasPrefix(txt, "'") {
				class = "stmt-mysql-interval-string-operand"
			}
		case *sqlparser.Order:
			// the existing known finding of C13 (class name of the c13 domain)
			_, isNull := v.Expr.(*sqlparser.NullVal)
			f, isFunc := v.Expr.(*sqlparser.FuncExpr)
			if (isNull || (isFunc && f.Name.Lowered() == "rand")) && v.Direction != sqlparser.AscScr {
				class = "roundtrip-Order"
			}
		case sqlparser.ColIdent:
			if q := byte(c13sQuoteOf(v)); q == '\'' && strings.ContainsAny(v.String(), "'\\") {
				class = "stmt-single-quoted-alias-printed-raw"
			} else if q == 0 && !pg && v.String() != "dual" && strings.ToLower(v.String()) == "dual" {
				class = "stmt-dual-case"
			}
		case sqlparser.TableIdent:
			if q := byte(c13sQuoteOf(v)); q == '\'' && strings.ContainsAny(v.RawValue(), "'\\") {
				class = "stmt-single-quoted-alias-printed-raw"
			} else if q == 0 && !pg && v.RawValue() != "dual" && strings.ToLower(v.RawValue()) == "dual" {
				class = "stmt-dual-case"
			}
		}
		return class == "", nil
	}, t)
	return class
}

func (c *c13s) oracle(s string, t1 sqlparser.Statement, origin string) {
	c.rep.OracleChecks++
	rp := func(extra string) string {
		return fmt.Sprintf("dialect: %s (%s)\ns : %s\n%s", c.dname(), origin, s, extra)
	}
	s2, pan := c13String(t1)
	if pan != "" {
		c.rep.Violate("panic", "String panicked on a parser-produced tree: "+pan, rp(""))
		return
	}
	t2, err, pan := c.parse(s2)
	if pan != "" {
		c.rep.Violate("panic", "Parse panicked on printed text: "+pan, rp("s2: "+s2))
		return
	}
	known := c13sKnownClass(c.pg, t1)
	if err != nil {
		class := known
		if class == "" {
			class = "stmt-reparse-error-" + c.minimalNonReparsable(t1)
		}
		c.rep.Violate(class, "printed statement is rejected by the parser: "+err.Error(), rp("s2: "+s2+"\nerror: "+err.Error()))
		return
	}
	cmp := c13Cmp()
	if !cmp.Equal(t1, t2) {
		s3, _ := c13String(t2)
		class := known
		if class == "" {
			class = "stmt-roundtrip-" + cmp.Node
		}
		c.rep.Violate(class, "re-parsed tree differs at "+cmp.Path+" ("+cmp.Why+")", rp("s2: "+s2+"\nString(t2): "+s3))
		return
	}
	if s3, pan := c13String(t2); pan != "" || s3 != s2 {
		c.rep.Violate("stmt-string-unstable", "String(Parse(String(t))) differs from String(t)", rp("s2: "+s2+"\nString(t2): "+s3+pan))
	}
}

// ---------------------------------------------------------------------------------------------
// model cases
// ---------------------------------------------------------------------------------------------

func c13sBool(b bool) string {
	if b {
		return "true"
	}
	return "false"
}

// opRound: one tree through the model (see the header). Returns false when the tree is outside the fragment.
func (c *c13s) opRound(t1 sqlparser.Statement, origin string) bool {
	term, _, ok, why := c13sExport(c.pg, t1)
	if !ok {
		c.rep.Count("outside:" + why)
		return false
	}
	printed, pan := c13String(t1)
	if pan != "" {
		c.rep.Count("round:string-panic")
		return false
	}
	toks, ok, why := c.c13sTokens(printed)
	if !ok {
		c.rep.Count("round:token-outside:" + why)
		return false
	}
	if !c.valArgsStableS(t1, printed) {
		c.rep.Count("outside:bind-variable-names")
		return false
	}
	g := "GSame"
	t2, err, pan := c.parse(printed)
	switch {
	case pan != "":
		c.rep.Count("round:parse-panic")
		return false
	case err != nil:
		g = "GErr"
	default:
		if eq, _ := astEqual(t1, t2); !eq {
			if term2, _, ok2, _ := c13sExport(c.pg, t2); ok2 {
				g = "(GOther " + term2 + ")"
			} else {
				g = "GOut"
			}
		}
	}
	c.rep.Count("round:" + origin + ":" + strings.SplitN(g, " ", 2)[0] + ":" + c.dname())
	c.rep.Count("round-stmt:" + goType(t1))
	c.add(fmt.Sprintf("round %s %s %s", c.dname(), origin, clip(printed, 200)),
		fmt.Sprintf("(SRound %s %s %s %s %s)", c13sBool(c.pg), term, c13sTokList(toks), c13sChunks([]byte(printed)), g))
	return true
}

// valArgsStableS: bind variables are printed as `?` and renumbered by the tokenizer
func (c *c13s) valArgsStableS(t sqlparser.Statement, printed string) bool {
	var inTree []string
	sqlparser.Walk(func(n sqlparser.SQLNode) (bool, error) {
		if v, ok := n.(*sqlparser.SQLVal); ok && v != nil && v.Type == sqlparser.ValArg {
			inTree = append(inTree, string(v.Val))
		}
		return true, nil
	}, t)
	if len(inTree) == 0 {
		return true
	}
	toks, ok := c.scanAll(printed)
	if !ok {
		return false
	}
	var inText []string
	for _, t := range toks {
		if t.typ == sqlparser.VALUE_ARG {
			inText = append(inText, string(t.val))
		}
	}
	if len(inText) != len(inTree) {
		return false
	}
	seen := map[string]bool{}
	for _, v := range inTree {
		seen[v] = true
	}
	for _, v := range inText { // same multiset in print order is what the token printer needs; Walk order may differ
		if !seen[v] {
			return false
		}
	}
	// print order = token order: compare sequences through the exporter's literal list
	_, lits, ok, _ := c13sExport(c.pg, t)
	if !ok {
		return false
	}
	i := 0
	for _, l := range lits {
		if l.Type == sqlparser.ValArg {
			if i >= len(inText) || string(l.Val) != inText[i] {
				return false
			}
			i++
		}
	}
	return i == len(inText)
}

// opSubst: the real UpdateExpressionValue on the j-th literal (print order) of a statement; the model substitutes
// the same position (Model/SqlStmtSubst.v) and must arrive at the same tree; wf is closed under admissible values.
func (c *c13s) opSubst(s string) bool {
	t1, err, pan := c.parse(s)
	if err != nil || pan != "" || t1 == nil {
		return false
	}
	before, lits, ok, _ := c13sExport(c.pg, t1)
	printed, _ := c13String(t1)
	if !ok || !c.valArgsStableS(t1, printed) || c13sKnownClass(c.pg, t1) != "" {
		return false
	}
	if t2, err, pan := c.parse(printed); err != nil || pan != "" {
		return false
	} else if eq, _ := astEqual(t1, t2); !eq {
		return false
	}
	var idx []int
	for i, l := range lits {
		if substEligible(l) {
			idx = append(idx, i)
		}
	}
	if len(idx) == 0 {
		return false
	}
	j := idx[c.r.Intn(len(idx))]
	leaf := lits[j]
	parent := parentTypeOf(t1, leaf)
	if leaf.Type == sqlparser.IntVal && len(leaf.CastType) != 0 {
		parent = "CastIntVal" // an integer literal with a ::cast (known finding for negative replacements)
	}
	done, _, dclass := c.substitute(t1, leaf, leaf, parent, fmt.Sprintf("literal #%d", j), -1)
	if !done {
		return false
	}
	after, _, ok, why := c13sExport(c.pg, t1)
	if !ok {
		c.rep.Count("subst:after-outside:" + why)
		return false
	}
	c.rep.Count("subst:" + parent + ":" + dclass)
	c.add(fmt.Sprintf("subst %s #%d %s", c.dname(), j, clip(s, 160)),
		fmt.Sprintf("(SSubst %s %s %d%%nat %d (hb %s) %s)", c13sBool(c.pg), before, j, int(leaf.Type), c13sH(leaf.Val), after))
	return true
}

var c13sSoup = []string{"select", "a", "1", "'s'", "\"d\"", "`b`", "(", ")", ",", ".", "+", "-", "*", "/", "<", ">", "=", "!", "<=", ">=", "<>", "!=", "<=>",
	"<<", ">>", "&", "|", "&&", "||", "^", "~", "%", "?", ":v1", "::int", "$1", "0x1F", "x'0A'", "b'10'", "1.5", ".5", "1e5", "1e", "E'q'", "dual", "DUAL",
	"Select", "@@a.b", "@v", "_x", " ", "  ", "\n", "\t", "''", "'a''b'", "'\\''", "\"\"", "``", "`a``b`", "9z", "0xg", "1.2.3", "a.b", "$", "$x", ":", "x'A'", "--", "/*", "#", ";"}

// opLex: token soup through the real tokenizer and the model's lexer
func (c *c13s) opLex() {
	n := 1 + c.r.Intn(8)
	var sb strings.Builder
	for i := 0; i < n; i++ {
		sb.WriteString(c13sSoup[c.r.Intn(len(c13sSoup))])
		if c.r.Intn(3) != 0 {
			sb.WriteByte(' ')
		}
	}
	text := sb.String()
	res := "None"
	if toks, ok, _ := c.c13sTokens(text); ok {
		res = "(Some " + c13sTokList(toks) + ")"
		c.rep.Count("lex:ok")
	} else {
		// the model answers None for LEX_ERROR, comments and tokens outside the model alike; a text with an
		// outside token that is no lexical error is not a case
		if _, lexok := c.scanAll(text); lexok {
			c.rep.Count("lex:outside-token")
			return
		}
		c.rep.Count("lex:error")
	}
	c.add(fmt.Sprintf("lex %s %q", c.dname(), clip(text, 80)), fmt.Sprintf("(SLex %s %s %s)", c13sBool(c.pg), c13sChunks([]byte(text)), res))
}

// hand-written statements over every clause of the fragment and the places where printer and grammar are delicate
var c13sBoundary = []string{
	"select distinct a, b as x, t.*, d.t.* from t1 as p, (t2 join t3 on t2.a = t3.a) where a = 1 group by a, b having count(*) > 1 order by a asc, b desc limit 10 offset 2",
	"select a from t1 left join t2 join t3 on t2.a = t3.a on t1.a = t2.a",
	"select a from t1 left join t2 using (a, b) right join t3 on t1.a = t3.a natural join t4 straight_join t5 on t4.x = t5.x",
	"select a from t1 join t2 join t3 join t4 on t3.a = t4.a",
	"select a from t1 natural left join t2 natural right join (t3, t4)",
	"select a from (select b from u where c in (select d from v) order by b limit 1) as s where exists (select 1 from w) and not exists (select 2 from w)",
	"select 1 from t union select 2 from u union all select 3 from v order by 1 limit 2",
	"(select 1 from t order by a limit 1) union (select 2 from u) order by 1 desc for update",
	"select 1 from t order by a union distinct (select 2 from u limit 1) lock in share mode",
	"select case a when 1 then 'x' when 2 then 'y' else 'z' end, case when a > 1 then a end from t",
	"select cast(a as signed), convert(b, decimal(10, 2)), convert(c using utf8), cast(d as char(3)), cast(e as binary), cast(f as datetime(6)) from t",
	"select a collate utf8_bin, -a collate utf8_bin, binary a collate utf8_bin collate latin1_bin from t",
	"select -5, - 5, -(5), - -5, +5, -a, - -a, ~-5, !a, binary a, -5 + -3, 1 - -2, -.5, -1e3, -0x10 from t",
	"select 'a', 'it''s', '\\\\', x'AB', 0xAB, b'01', 1e3, .5, 1., ?, ?, 'a' 'b' from t",
	"select a is null, a is not null, (a = b) is true, a = b is true, not a is false, a and b is not true from t",
	"select a between 1 and 2, a not between b and c and d, a like 'x' escape '!', a not like b, a regexp 'r', a not regexp b from t",
	"select a in (1), a in (1, 2), a not in (select b from u), (a, b) in ((1, 2), (3, 4)), (a) from t",
	"select count(*), count(distinct a), max(a + 1), if(a, b, c), left(a, 1), right(a, 2), mod(a, 2), replace(a, 'x', 'y'), database(), schema(), now(), current_timestamp(), utc_date(), s.f(a), f(t.*), f(a as x) from t",
	"select values(a), default from t",
	"select `select`, `a b`, `x``y`, `Key`, `status` from `from` as `as` join `t 1`.`order` on `a b` = 1",
	"select a as 'al', b as \"dq\", c d, e as `bq` from t as 'ta'",
	"select a from DUAL",
	"select 1",
	"insert into t (a, b) values (1, 'x'), (2, default), ()",
	"insert ignore into d.t values (1), (2) on duplicate key update a = values(a), t.b = b + 1",
	"replace into t (a) select a from u where a > 1",
	"insert into t select a from u union select b from v",
	"insert into t (a, b) (select a, b from u)",
	"insert into t set a = 1, b = 'x'",
	"insert into t select * from b join c on b.i = c.i on duplicate key update a = 1",
	"insert into t default values",
	"insert into t (t.a, b) values (1, 2) returning a, b as x, *",
	"update t set a = 1, t.b = b + 1, d.t.c = (select max(c) from u) where a = 1 order by a desc limit 5",
	"update t1 join t2 on t1.a = t2.a set t1.b = t2.b",
	"delete from t where a = 1 order by a limit 1",
	"delete from t as x",
	"delete a, b from a join b on a.x = b.x where a.y = 1",
	"delete from a, b as c using a join b as c where a.x = 1",
	// every LIMIT spelling with DIFFERENT operands, at top level, in sub-selects, unions, INSERT .. SELECT
	"select a from t limit 3 offset 7",
	"select a from t limit ? offset ?",
	"select a from (select b from u limit 4 offset 9) as s where c in (select d from v limit 1 offset 2) limit 5 offset 6",
	"select a from t union select b from u limit 6 offset 1",
	"(select a from t limit 2 offset 8) union all (select b from u limit 9 offset 3) limit 7 offset 4",
	"insert into t select a from u limit 11 offset 12",
	"insert into t (a) select a from u union select b from v limit 13 offset 14 on duplicate key update a = 1",
	"update t set a = (select b from u limit 1 offset 2) limit 3",
	"delete from t where a in (select b from u limit 3 offset 5) limit 4",
	// known findings of this domain (see known_findings.json)
	"insert into a (select * from b join c) on duplicate key update x = 1",
	"insert into a (select 1 from x union select * from b straight_join c) on duplicate key update x = 1",
	"select cast(a as varchar(10)) from t",
	"select a as 'it''s' from t",
	"select a from t as 'x\\y'",
}
var c13sBoundaryMy = []string{
	"select interval 1 day, interval a + 1 hour, interval '1' day, date_add(a, interval 1 month) from t",
	"select a from t limit 1, 2",
	"select a from t limit ?, ?",
	"select a from (select b from u limit 4, 9) as s where c in (select d from v limit 2, 1) union select e from w limit 6, 5",
	"insert into t select a from u limit 11, 12",
	"update t set a = 1 order by a limit 7",
	"select \"dq string\", \"d''q\", \"\" from t",
	"select interval \"1\" + 1 day, interval \"2\" hour from t",
	"select 1 from `DUAL`, `Dual` as d",
}
var c13sBoundaryPg = []string{
	"select interval '1 day', a + interval '2 hours', '1'::int, 'a'::varchar::text, $1, $2 from t where a ilike 'x' and b not ilike 'y' escape '!'",
	"select \"Abc\", \"a b\".\"C\", t.\"Col\" as \"Alias\" from \"Sch\".\"Tbl\" as \"T\" where E'a\\nb' = e'x'",
	"select a from t limit all", "select a from t limit all offset 3",
	"select a from t limit $1 offset $2", "select a from (select b from u limit $2 offset $1) as s limit all offset $3",
	"insert into t select a from u limit 5 offset 6 returning a", "select a from t order by a desc nulls last, b asc nulls first",
	"update t set a = 1 from u, v where t.a = u.a returning t.a, *",
	"insert into t (a) values (1) returning a",
	"delete from t where a = 1 returning *",
}

func runC13s(rep *vh.Report, r *vh.Rng, n int, thorough bool) {
	r = vh.NewRng(r.U64())
	c := &c13s{c13: &c13{rep: rep, r: r}, pieces: map[bool]*c13sPool{}}
	corpus := c13Corpus()
	rep.Count(fmt.Sprintf("corpus-inputs:%d", len(corpus)))
	if len(corpus) < 100 {
		rep.Violate("corpus-missing", "could not read the parser's test corpus", repoRoot()+"/sqlparser/parse_test.go")
	}

	// ---- 1. the parser's own corpus + boundary statements, both dialects: every DML tree of the fragment through the model ----
	type acc struct {
		s  string
		pg bool
	}
	var accepted []acc
	for _, pg := range []bool{false, true} {
		c.use(pg)
		p := &c13sPool{}
		c.pieces[pg] = p
		seen := map[string]bool{}
		extra := c13sBoundaryMy
		if pg {
			extra = c13sBoundaryPg
		}
		all := append(append(append([]string{}, c13sBoundary...), extra...), corpus...)
		nb := len(c13sBoundary) + len(extra)
		for ci, s := range all {
			t1, err, pan := c.parse(s)
			if pan != "" {
				rep.OracleChecks++
				rep.Violate("panic", "Parse panicked: "+pan, c.dname()+": "+s)
				continue
			}
			if err != nil || t1 == nil {
				if ci < nb {
					rep.Count("boundary:rejected:" + c.dname())
				}
				continue
			}
			switch t1.(type) {
			case *sqlparser.Select, *sqlparser.Union, *sqlparser.ParenSelect, *sqlparser.Insert, *sqlparser.Update, *sqlparser.Delete:
			default:
				continue
			}
			if ci < nb {
				c.oracle(s, t1, "boundary")
				c.opRound(t1, "boundary")
			} else {
				accepted = append(accepted, acc{s, pg})
			}
			// printed sub-trees for splicing
			sqlparser.Walk(func(nd sqlparser.SQLNode) (bool, error) {
				if isNilNode(nd) {
					return false, nil
				}
				add := func(dst *[]string, max int) {
					if txt, pan := c13String(nd); pan == "" && len(txt) > 0 && len(txt) <= max && !seen[txt] {
						if !strings.Contains(txt, "/*") && !strings.Contains(txt, ":") {
							seen[txt] = true
							*dst = append(*dst, txt)
						}
					}
				}
				switch nd.(type) {
				case *sqlparser.Select, *sqlparser.Union:
					if nd != sqlparser.SQLNode(t1) {
						add(&p.sels, 160)
					}
				case *sqlparser.JoinTableExpr, *sqlparser.ParenTableExpr:
					add(&p.tables, 120)
				case sqlparser.Expr:
					add(&p.exprs, 60)
				}
				return true, nil
			}, t1)
		}
		rep.Count(fmt.Sprintf("pool:%s:exprs=%d,sels=%d,tables=%d", c.dname(), len(p.exprs), len(p.sels), len(p.tables)))
	}
	// corpus statements: a seed-chosen share in quick, all of them in thorough (the c13 domain runs the oracle on all)
	share := 3
	if thorough {
		share = 1
	}
	for i, a := range accepted {
		if (i+int(r.U64()%uint64(share)))%share != 0 {
			continue
		}
		c.use(a.pg)
		t1, err, _ := c.parse(a.s)
		if err == nil && t1 != nil {
			c.opRound(t1, "corpus")
		}
	}

	// ---- 2. generated statements (with spliced sub-trees of accepted statements): oracle + model ----
	gen, acceptedN := 0, 0
	var wildPool []acc
	for _, pg := range []bool{false, true} {
		extra := c13sBoundaryMy
		if pg {
			extra = c13sBoundaryPg
		}
		for _, s := range append(append([]string{}, c13sBoundary...), extra...) {
			wildPool = append(wildPool, acc{s, pg})
		}
	}
	for gen < 12*n && acceptedN < 2*n {
		gen++
		pg := r.Intn(3) == 0
		c.use(pg)
		g := &c13sGen{r: r, pg: pg}
		if r.Intn(3) == 0 {
			g.pool = c.pieces[pg]
		}
		s := g.stmt(1 + r.Intn(3))
		if len(s) > 900 {
			rep.Count("gen:too-long")
			continue
		}
		t1, err, pan := c.parse(s)
		if pan != "" {
			rep.OracleChecks++
			rep.Violate("panic", "Parse panicked: "+pan, c.dname()+": "+s)
			continue
		}
		origin := "generated"
		if g.pool != nil {
			origin = "spliced"
		}
		if err != nil || t1 == nil {
			rep.Count("gen:rejected:" + origin + ":" + c.dname())
			continue
		}
		rep.Count("gen:accepted:" + origin + ":" + c.dname())
		acceptedN++
		c.oracle(s, t1, origin)
		if acceptedN <= n {
			c.opRound(t1, origin)
		}
		if len(s) < 300 {
			wildPool = append(wildPool, acc{s, pg})
		}
	}

	// ---- 2b. trees the grammar cannot build ----
	for i, done := 0, 0; i < 6*n && done < n/2 && len(wildPool) > 1; i++ {
		a := wildPool[r.Intn(len(wildPool))]
		b := wildPool[r.Intn(len(wildPool))]
		if a.pg != b.pg {
			continue
		}
		c.use(a.pg)
		if c.opWild(a.s, b.s) {
			done++
		}
	}

	// ---- 2c. value substitution through the real encryptor (MySQL coder => MySQL dialect) ----
	c.use(false)
	for i, done := 0, 0; i < 8*n && done < n/2; i++ {
		a := wildPool[r.Intn(len(wildPool))]
		if !a.pg && c.opSubst(a.s) {
			done++
		}
	}

	// ---- 3. lexer ----
	for i := 0; i < n/2; i++ {
		c.use(r.Intn(3) == 0)
		c.opLex()
	}
	c.use(false)
}
