package main

// C04 (column resolution): running the REAL statement analysis of encryptor/mysql (the sqlparser front end:
// queryDataEncryptor.go, utils.go) on one parsed statement and observing what it resolved:
//
//	write, text protocol  QueryDataEncryptor.OnQuery with a recording DataEncryptor: which SQLVal nodes of the AST
//	                      (identified by their PATH in the generic tree form) were handed to the encryptor and with
//	                      which column setting; which placeholder numbers were registered with which setting
//	write, bound values   QueryDataEncryptor.OnBind with recording BoundValues: which parameters were encrypted
//	                      with which setting (or the error / panic)
//	read                  the second QueryDataEncryptor of the proxy (encryptor == nil): the per-result-column
//	                      settings GetQueryEncryptionSettings() after OnQuery
//
// No acra hook is needed: DataEncryptor, BoundValue, ClientSession are interfaces, the settings are read back
// through the public getters.  The encryptor configuration is loaded from YAML by the real
// config.MapTableSchemaStoreFromConfig.

import (
	"bytes"
	"context"
	"encoding/hex"
	"fmt"
	"net"
	"reflect"
	"sort"
	"strconv"
	"strings"

	decbase "github.com/cossacklabs/acra/decryptor/base"
	encbase "github.com/cossacklabs/acra/encryptor/base"
	"github.com/cossacklabs/acra/encryptor/base/config"
	encmysql "github.com/cossacklabs/acra/encryptor/mysql"
	"github.com/cossacklabs/acra/sqlparser"
	"github.com/cossacklabs/acra/sqlparser/dialect"
	mysqldialect "github.com/cossacklabs/acra/sqlparser/dialect/mysql"
	pgdialect "github.com/cossacklabs/acra/sqlparser/dialect/postgresql"

	"acra-vh/vh"
)

// ---------- configuration ----------

type c4cTable struct {
	name string
	cols []string // `columns:` (nil: key absent)
	enc  []string // `encrypted:` column names
}

type c4cEnv struct {
	pg      bool // sqlparser dialect: PostgreSQL (legacy use of this front end) instead of MySQL
	cs      bool // MySQL: case_sensitive_table_identifiers
	tabs    []c4cTable
	store   *config.MapTableSchemaStore
	sids    map[config.ColumnEncryptionSetting]int // setting object -> 100*table index + encrypted index (of the LAST entry with these names)
	parser  *sqlparser.Parser
	dialect dialect.Dialect
}

func c4cQuoteYAML(s string) string {
	return "\"" + strings.NewReplacer("\\", "\\\\", "\"", "\\\"").Replace(s) + "\""
}

func c4cNewEnv(tabs []c4cTable, pg, cs bool) (*c4cEnv, error) {
	var y strings.Builder
	y.WriteString("schemas:\n")
	for _, t := range tabs {
		fmt.Fprintf(&y, "  - table: %s\n", c4cQuoteYAML(t.name))
		if t.cols != nil {
			y.WriteString("    columns:\n")
			for _, c := range t.cols {
				fmt.Fprintf(&y, "      - %s\n", c4cQuoteYAML(c))
			}
		}
		if len(t.enc) > 0 {
			y.WriteString("    encrypted:\n")
			for _, c := range t.enc {
				fmt.Fprintf(&y, "      - column: %s\n", c4cQuoteYAML(c))
			}
		}
	}
	store, err := config.MapTableSchemaStoreFromConfig([]byte(y.String()), !pg)
	if err != nil {
		return nil, err
	}
	e := &c4cEnv{pg: pg, cs: cs, tabs: tabs, store: store, sids: map[config.ColumnEncryptionSetting]int{}}
	for ti, t := range tabs {
		sch := store.GetTableSchema(t.name)
		if sch == nil {
			return nil, fmt.Errorf("c04col: table %q lost", t.name)
		}
		for ei, c := range t.enc {
			// later entries with the same names replace earlier ones (Go maps): the sid of the last one stays
			if s := sch.GetColumnEncryptionSettings(c); s != nil {
				last := true
				for tj := ti + 1; tj < len(tabs); tj++ {
					if tabs[tj].name == t.name {
						last = false
					}
				}
				if last {
					e.sids[s] = 100*ti + ei
				}
			}
		}
	}
	if pg {
		e.dialect = pgdialect.NewPostgreSQLDialect()
	} else {
		e.dialect = mysqldialect.NewMySQLDialect(mysqldialect.SetTableNameCaseSensitivity(cs))
	}
	e.parser = sqlparser.New(sqlparser.ModeStrict)
	return e, nil
}

// the dialect is a package-level variable of sqlparser
func (e *c4cEnv) use() { sqlparser.SetDefaultDialect(e.dialect) }

// Coq term of the configuration: (mkcfg [ (name, columns, [(column, sid)]) ])
func (e *c4cEnv) coq() string {
	var ts []string
	for ti, t := range e.tabs {
		var cs, es []string
		for _, c := range t.cols {
			cs = append(cs, vh.H([]byte(c)))
		}
		for ei, c := range t.enc {
			es = append(es, fmt.Sprintf("(%s, %d%%N)", vh.H([]byte(c)), 100*ti+ei))
		}
		ts = append(ts, fmt.Sprintf("(%s, [%s], [%s])", vh.H([]byte(t.name)), strings.Join(cs, "; "), strings.Join(es, "; ")))
	}
	d := "DMysql false"
	if e.pg {
		d = "DPg"
	} else if e.cs {
		d = "DMysql true"
	}
	return fmt.Sprintf("(%s) [%s]", d, strings.Join(ts, "; "))
}

func (e *c4cEnv) sid(s config.ColumnEncryptionSetting) int {
	if s == nil {
		return -1
	}
	if v, ok := e.sids[s]; ok {
		return v
	}
	return -2
}

// ---------- session / recording encryptor / recording bound values ----------

type c4cSession struct{ data map[string]interface{} }

func (s *c4cSession) Context() context.Context           { return context.Background() }
func (s *c4cSession) ClientConnection() net.Conn         { return nil }
func (s *c4cSession) DatabaseConnection() net.Conn       { return nil }
func (s *c4cSession) ProtocolState() interface{}         { return nil }
func (s *c4cSession) SetProtocolState(state interface{}) {}
func (s *c4cSession) GetData(k string) (interface{}, bool) {
	v, ok := s.data[k]
	return v, ok
}
func (s *c4cSession) SetData(k string, v interface{}) { s.data[k] = v }
func (s *c4cSession) DeleteData(k string)             { delete(s.data, k) }
func (s *c4cSession) HasData(k string) bool           { _, ok := s.data[k]; return ok }

func c4cCtx() (context.Context, *c4cSession) {
	s := &c4cSession{data: map[string]interface{}{}}
	ctx := decbase.SetClientSessionToContext(context.Background(), s)
	ctx = decbase.SetAccessContextToContext(ctx, decbase.NewAccessContext(decbase.WithClientID([]byte("c04col"))))
	return ctx, s
}

type c4cCall struct {
	setting config.ColumnEncryptionSetting
	data    []byte
}

type c4cRecEnc struct{ calls []c4cCall }

// the protected form is E<4 digits>: valid UTF-8 (stays a string literal), not a number (an IntVal becomes X'..')
func (r *c4cRecEnc) EncryptWithClientID(clientID, data []byte, setting config.ColumnEncryptionSetting) ([]byte, error) {
	r.calls = append(r.calls, c4cCall{setting, append([]byte{}, data...)})
	return []byte(fmt.Sprintf("E%04d", len(r.calls)-1)), nil
}

func c4cSeqOf(val []byte) int {
	try := func(b []byte) int {
		if len(b) == 5 && b[0] == 'E' {
			if n, err := strconv.Atoi(string(b[1:])); err == nil {
				return n
			}
		}
		return -1
	}
	if n := try(val); n >= 0 {
		return n
	}
	for _, h := range [][]byte{val, bytes.TrimPrefix(val, []byte("0x"))} {
		if d, err := hex.DecodeString(string(h)); err == nil {
			if n := try(d); n >= 0 {
				return n
			}
		}
	}
	return -1
}

type c4cBound struct {
	data []byte
	set  config.ColumnEncryptionSetting
	sets int
}

func (b *c4cBound) Format() decbase.BoundValueFormat { return decbase.TextFormat }
func (b *c4cBound) Copy() decbase.BoundValue         { c := *b; return &c }
func (b *c4cBound) SetData(d []byte, s config.ColumnEncryptionSetting) error {
	b.data, b.set = d, s
	b.sets++
	return nil
}
func (b *c4cBound) GetData(config.ColumnEncryptionSetting) ([]byte, error) { return b.data, nil }
func (b *c4cBound) Encode() ([]byte, error)                                { return b.data, nil }
func (b *c4cBound) GetType() byte                                          { return 0 }

// ---------- paths of the SQLVal nodes (same child numbering as c5pExport) ----------

type c4cValNode struct {
	path []int
	node *sqlparser.SQLVal
	typ  sqlparser.ValType
	val  []byte
}

func c4cValNodes(x interface{}) []*c4cValNode {
	var out []*c4cValNode
	var walk func(v reflect.Value, path []int)
	walk = func(v reflect.Value, path []int) {
		switch v.Kind() {
		case reflect.Interface:
			if !v.IsNil() {
				walk(v.Elem(), path)
			}
		case reflect.Ptr:
			if v.IsNil() {
				return
			}
			if sv, ok := v.Interface().(*sqlparser.SQLVal); ok {
				out = append(out, &c4cValNode{path: append([]int{}, path...), node: sv, typ: sv.Type, val: append([]byte{}, sv.Val...)})
				return
			}
			walk(v.Elem(), path)
		case reflect.Slice:
			if v.Type().Elem().Kind() == reflect.Uint8 {
				return
			}
			for i := 0; i < v.Len(); i++ {
				walk(v.Index(i), append(path, i))
			}
		case reflect.Struct:
			t := v.Type()
			n := 0
			for i := 0; i < t.NumField(); i++ {
				if c5pSkipField(t.Field(i)) {
					continue
				}
				walk(v.Field(i), append(path, n))
				n++
			}
		}
	}
	walk(reflect.ValueOf(x), nil)
	return out
}

func c4cPathCoq(p []int) string {
	var s []string
	for _, i := range p {
		s = append(s, strconv.Itoa(i))
	}
	return "[" + strings.Join(s, "; ") + "]%nat"
}

// ---------- the three observations ----------

type c4cLit struct {
	path []int
	sid  int
}

type c4cBind struct{ idx, sid int }

type c4cWriteObs struct {
	tree     *c5pNode // the statement BEFORE the call
	lits     []c4cLit // in call order
	binds    []c4cBind
	err      error
	panicked bool
	other    string // "" or a description of a change outside the selected literals
}

func c4cGuard(f func()) (panicked bool) {
	defer func() {
		if r := recover(); r != nil {
			panicked = true
		}
	}()
	f()
	return false
}

// c4cWrite runs OnQuery of the encrypting QueryDataEncryptor
func (e *c4cEnv) write(sql string) (*c4cWriteObs, error) {
	e.use()
	stmt, err := e.parser.Parse(sql)
	if err != nil {
		return nil, err
	}
	o := &c4cWriteObs{tree: c5pTree(stmt)}
	nodes := c4cValNodes(stmt)
	rec := &c4cRecEnc{}
	qe, _ := encmysql.NewQueryEncryptor(e.store, e.parser, rec)
	ctx, sess := c4cCtx()
	o.panicked = c4cGuard(func() {
		_, _, o.err = qe.OnQuery(ctx, encmysql.NewOnQueryObjectFromStatement(stmt, e.parser))
	})
	if o.panicked {
		return o, nil
	}
	bySeq := map[int]*c4cValNode{}
	for _, n := range nodes {
		if n.node.Type == n.typ && bytes.Equal(n.node.Val, n.val) {
			continue
		}
		seq := c4cSeqOf(n.node.Val)
		if seq < 0 || seq >= len(rec.calls) || bySeq[seq] != nil {
			o.other = fmt.Sprintf("literal at %v changed to %q outside the encryptor", n.path, n.node.Val)
			continue
		}
		bySeq[seq] = n
	}
	for seq, c := range rec.calls {
		n := bySeq[seq]
		if n == nil {
			o.other = fmt.Sprintf("encryptor call %d (%q) left no trace in the statement", seq, c.data)
			continue
		}
		o.lits = append(o.lits, c4cLit{n.path, e.sid(c.setting)})
		// restore, then the two trees must be equal: nothing else was touched
		n.node.Type, n.node.Val = n.typ, n.val
	}
	if o.other == "" && !bytes.Equal(c4cNoCache(c5pTree(stmt)).enc(nil), c4cNoCache(o.tree).enc(nil)) {
		o.other = "the statement changed outside the selected literals"
	}
	for idx, s := range encbase.PlaceholderSettingsFromClientSession(sess) {
		o.binds = append(o.binds, c4cBind{idx, e.sid(s)})
	}
	sort.Slice(o.binds, func(i, j int) bool { return o.binds[i].idx < o.binds[j].idx })
	return o, nil
}

type c4cBindObs struct {
	tree     *c5pNode
	n        int
	sel      []c4cBind // parameters encrypted, by index
	err      error
	panicked bool
}

// bindRun runs OnBind of the encrypting QueryDataEncryptor with n bound parameters
func (e *c4cEnv) bindRun(sql string, n int) (*c4cBindObs, error) {
	e.use()
	stmt, err := e.parser.Parse(sql)
	if err != nil {
		return nil, err
	}
	o := &c4cBindObs{tree: c5pTree(stmt), n: n}
	rec := &c4cRecEnc{}
	qe, _ := encmysql.NewQueryEncryptor(e.store, e.parser, rec)
	ctx, _ := c4cCtx()
	vals := make([]decbase.BoundValue, n)
	for i := range vals {
		vals[i] = &c4cBound{data: []byte(fmt.Sprintf("P%04d", i))}
	}
	var out []decbase.BoundValue
	o.panicked = c4cGuard(func() { out, _, o.err = qe.OnBind(ctx, stmt, vals) })
	if o.panicked || o.err != nil {
		return o, nil
	}
	for i, v := range out {
		b := v.(*c4cBound)
		if b.sets > 0 {
			o.sel = append(o.sel, c4cBind{i, e.sid(b.set)})
		}
	}
	return o, nil
}

type c4cItem struct {
	sid                  int // -1: nil item
	table, column, alias string
}

type c4cReadObs struct {
	tree     *c5pNode
	items    []c4cItem
	isNil    bool // querySelectSettings == nil (nothing computed)
	err      error
	panicked bool
}

// read runs OnQuery of the settings-only QueryDataEncryptor (encryptor == nil)
func (e *c4cEnv) read(sql string) (*c4cReadObs, error) {
	e.use()
	stmt, err := e.parser.Parse(sql)
	if err != nil {
		return nil, err
	}
	o := &c4cReadObs{tree: c5pTree(stmt)}
	qe, _ := encmysql.NewQueryEncryptor(e.store, e.parser, nil)
	ctx, _ := c4cCtx()
	o.panicked = c4cGuard(func() {
		_, _, o.err = qe.OnQuery(ctx, encmysql.NewOnQueryObjectFromStatement(stmt, e.parser))
	})
	if o.panicked {
		return o, nil
	}
	items := qe.GetQueryEncryptionSettings()
	o.isNil = items == nil
	for _, it := range items {
		if it == nil {
			o.items = append(o.items, c4cItem{sid: -1})
		} else {
			o.items = append(o.items, c4cItem{e.sid(it.Setting()), it.TableName(), it.ColumnName(), it.ColumnAlias()})
		}
	}
	return o, nil
}

// c4cNoCache returns a copy of the tree without the `lowered` caches of ColIdent / TableIdent (Lowered() fills them)
func c4cNoCache(n *c5pNode) *c5pNode {
	c := &c5pNode{kind: n.kind, lab: n.lab}
	k := c5pKinds[n.kind]
	for i, ch := range n.cs {
		if (k.name == "ColIdent" || k.name == "TableIdent") && i < len(k.fields) && k.fields[i] == "lowered" {
			c.cs = append(c.cs, &c5pNode{kind: c5pKString})
			continue
		}
		c.cs = append(c.cs, c4cNoCache(ch))
	}
	return c
}

func c4cRestoreDialect() { sqlparser.SetDefaultDialect(mysqldialect.NewMySQLDialect()) }
