package main

// C20 (JSON path) — SEMANTIC single-entry edits: does the canonical byte string that is authenticated tell apart
// every two field maps a reader of the log tells apart?
//
// The HMAC chain protects the bytes convertMapToBytes makes of the decoded entry; an edited line is caught only if
// those bytes change.  This file adds to domain c20json, for EVERY line of EVERY honest history, edits that keep the
// line a well-formed JSON object but change it as a JSON VALUE in the ways a non-injective canonical form would
// not notice:
//   - each top-level value retyped (string <-> the number / boolean / null / object / array it spells, number ->
//     string of its literal and of its canonical print, nested value -> string of its rendering, small cross table);
//   - numbers respelled (1 / 1.0 / 1e0, 1e3 / 1000, -0 / 0 ...);
//   - one string member split into two members / two adjacent members merged into one (into the value and into the
//     name), a name/value boundary moved — at every separator token the canonical form uses.  The tokens are NOT
//     written here: c20jsProbeCanon obtains them by running the real JSONLogParser.ParseEntry on a marker entry
//     (the generator prints the same probe into Gen/AuditLogConsts.v: AL_JSON_CANON_*);
//   - members renamed so that the sorted order is kept, values exchanged between members, members reordered,
//     a member dropped, a member with an "empty" value (null, "", false, 0, [], {}) added.
// Every edited log goes through the REAL IntegrityCheckVerifier with the correct key.  An edit that DIFFERS from the
// original as a JSON value (objects as maps, numbers as the decoder configuration of the code represents them) and is
// not reported at its line or the next one is a violation of class
//   json-delimiter-ambiguity      if the two maps already coincide under the REFERENCE canonical form
//                                 (names between the probed tokens, values as json.Marshal prints them) — the
//                                 recorded finding: a member NAME spelling the separator tokens;
//   json-semantic-edit-accepted   otherwise (the replay shows the original line, the edited line, the verdict).
// Model replay: a sample of the edited lines (every kind) is parsed by the real parser and by the model (JParse,
// authenticated bytes compared byte for byte); every accepted edit and a few others are verified on both (JVerify).

import (
	"bytes"
	"encoding/json"
	"fmt"
	"go/ast"
	"go/parser"
	"go/token"
	"hash/fnv"
	"os"
	"path/filepath"
	"sort"
	"strconv"
	"strings"
	"unicode/utf8"

	"acra-vh/vh"

	"github.com/cossacklabs/acra/logging"
	"github.com/sirupsen/logrus"
)

func init() {
	generators["auditlogcanon"] = c20jsEmitConsts // coq/Gen/AuditLogCanon.v
}

// ---------- the canonical form, probed ----------

// c20jsCanon: layout of convertMapToBytes as observed: pre name mid value post, per member, nothing between members
type c20jsCanon struct {
	pre, mid, post string
	quoted         bool // a top-level string value is authenticated as json.Marshal prints it (with quotes and escapes)
}

func (c c20jsCanon) inter() string { return c.post + c.pre }

const (
	c20jsProbeKA = "PKA7"
	c20jsProbeVA = "pva3<"
	c20jsProbeKB = "PKB7"
	c20jsProbeVB = "pvb3"
)

// c20jsProbeCanon runs the real parser on {"PKA7":"pva3<","PKB7":"pvb3","integrity":"00"} and reads the layout off RawData
func c20jsProbeCanon() (c20jsCanon, error) {
	var c c20jsCanon
	line := fmt.Sprintf(`{%q:"pva3<",%q:%q,"integrity":"00"}`, c20jsProbeKA, c20jsProbeKB, c20jsProbeVB)
	e, err := (&logging.JSONLogParser{}).ParseEntry(line)
	if err != nil {
		return c, err
	}
	raw := string(e.RawData)
	bad := func(why string) (c20jsCanon, error) {
		return c, fmt.Errorf("canonical-form probe: %s in %q", why, raw)
	}
	val := func(v string) (string, bool, bool) { // the span of a string value: as json.Marshal prints it, or raw
		m, _ := json.Marshal(v)
		if strings.Count(raw, string(m)) == 1 {
			return string(m), true, true
		}
		if strings.Count(raw, v) == 1 {
			return v, false, true
		}
		return "", false, false
	}
	va, qa, ok1 := val(c20jsProbeVA)
	vb, qb, ok2 := val(c20jsProbeVB)
	if !ok1 || !ok2 || qa != qb {
		return bad("string values neither marshalled nor raw")
	}
	if strings.Count(raw, c20jsProbeKA) != 1 || strings.Count(raw, c20jsProbeKB) != 1 {
		return bad("member names not found once")
	}
	iKA, iVA, iKB, iVB := strings.Index(raw, c20jsProbeKA), strings.Index(raw, va), strings.Index(raw, c20jsProbeKB), strings.Index(raw, vb)
	if !(iKA < iVA && iVA < iKB && iKB < iVB) {
		return bad("members out of order")
	}
	c.pre = raw[:iKA]
	c.mid = raw[iKA+len(c20jsProbeKA) : iVA]
	inter := raw[iVA+len(va) : iKB]
	mid2 := raw[iKB+len(c20jsProbeKB) : iVB]
	c.post = raw[iVB+len(vb):]
	c.quoted = qa
	if mid2 != c.mid || inter != c.post+c.pre {
		return bad("layout is not (pre name mid value post)*")
	}
	return c, nil
}

// c20jsAstGetBytes: go/ast cross-check recorded as a comment: is every return of getBytes `json.Marshal(<param>)`?
func c20jsAstGetBytes() string {
	repo := os.Getenv("VERIF_REPO")
	if repo == "" {
		repo = "/repo"
	}
	f, err := parser.ParseFile(token.NewFileSet(), filepath.Join(repo, "logging", "log_entry_parser.go"), nil, 0)
	if err != nil {
		return "unreadable"
	}
	for _, d := range f.Decls {
		fd, ok := d.(*ast.FuncDecl)
		if !ok || fd.Name.Name != "getBytes" || fd.Recv != nil || fd.Body == nil {
			continue
		}
		total, marshal := 0, 0
		ast.Inspect(fd.Body, func(n ast.Node) bool {
			rs, ok := n.(*ast.ReturnStmt)
			if !ok {
				return true
			}
			total++
			if len(rs.Results) == 1 {
				if call, ok := rs.Results[0].(*ast.CallExpr); ok {
					if sel, ok := call.Fun.(*ast.SelectorExpr); ok && sel.Sel.Name == "Marshal" {
						if x, ok := sel.X.(*ast.Ident); ok && x.Name == "json" {
							marshal++
						}
					}
				}
			}
			return true
		})
		return fmt.Sprintf("%d return statement(s), %d of them `return json.Marshal(...)`", total, marshal)
	}
	return "function not found"
}

// c20jsEmitConsts: generator of coq/Gen/AuditLogCanon.v (a file of its own: only the injectivity obligations depend on it)
func c20jsEmitConsts() {
	fmt.Println("(* GENERATED by `acra-vh auditlogcanon` from /repo (package logging) on every run. Do not edit. *)")
	fmt.Println("From Acra Require Import Lib.Bytes.")
	c, err := c20jsProbeCanon()
	if err != nil {
		fmt.Fprintln(os.Stderr, "auditlog generator:", err)
		os.Exit(1)
	}
	fmt.Println("(* layout of the canonical byte string of the JSON audit log (convertMapToBytes / getBytes), observed by running")
	fmt.Printf("   JSONLogParser.ParseEntry on {%q:%q,%q:%q,\"integrity\":\"00\"}: per member PRE name MID value POST;\n", c20jsProbeKA, c20jsProbeVA, c20jsProbeKB, c20jsProbeVB)
	fmt.Println("   STRING_QUOTED = a top-level string value is authenticated as json.Marshal prints it (false = its raw bytes);")
	fmt.Printf("   go/ast: getBytes has %s *)\n", c20jsAstGetBytes())
	d := func(name, v string) {
		fmt.Printf("Definition %s : bytes := %s. (* %q *)\n", name, c20CoqBytes([]byte(v)), v)
	}
	d("AL_JSON_CANON_PRE", c.pre)
	d("AL_JSON_CANON_MID", c.mid)
	d("AL_JSON_CANON_POST", c.post)
	fmt.Printf("Definition AL_JSON_CANON_STRING_QUOTED : bool := %v.\n", c.quoted)
}

// ---------- honest histories that carry the material the edits need ----------

var c20jsLookAlikes = []string{"123", "-0", "0", "1e3", "1.0", "1790176222.319", "9007199254740993", "true", "false", "null", `{"a":1}`, `{}`, `[1,"x"]`, `[]`,
	`"quoted"`, "", " 1", "1 ", "tru", "NULL", `{"b":"y","a":[null]}`, "1E2", "-1.5e-7", "0.10"}

var c20jsExtraNames = []string{"flag", "count", "payload", "note", "ref", "granted", "attempt", "detail"}

// c20jsAugment adds to some entries of an honest history string members that SPELL other JSON types and string members
// that contain the separator tokens of the canonical form followed by a would-be member name.  The extra choices come
// from a generator of their own (seeded by the content of the history, which is a function of the seed) so that the
// scenarios of the domain stay what they were.
func c20jsAugment(rep *vh.Report, canon c20jsCanon, evs []c20Event) {
	h := fnv.New64a()
	for i := range evs {
		fmt.Fprintf(h, "%d|%s|%d|%d;", evs[i].kind, evs[i].msg, evs[i].t.UnixNano(), len(evs[i].fields))
	}
	r := vh.NewRng(h.Sum64())
	words := func() string { return c20Words[r.Intn(len(c20Words))] + " " + c20Words[r.Intn(len(c20Words))] }
	for i := range evs {
		ev := &evs[i]
		if ev.kind != evEntry || ev.msg == logging.EndOfAuditLogChainMessage {
			continue
		}
		for j, n := 0, r.Intn(3); j < n; j++ {
			name := c20jsExtraNames[r.Intn(len(c20jsExtraNames))]
			if _, dup := ev.fields[name]; dup {
				continue
			}
			switch r.Intn(5) {
			case 0, 1:
				ev.fields[name] = c20jsLookAlikes[r.Intn(len(c20jsLookAlikes))]
				rep.Count("value:string-spelling-another-type")
			case 2: // value + (end of member, start of member) + a name sorting right behind + (name/value separator) + value
				ev.fields[name] = words() + canon.inter() + name + "0" + canon.mid + words()
				rep.Count("value:string-with-member-separator")
			case 3:
				ev.fields[name] = words() + canon.mid + words()
				rep.Count("value:string-with-name-separator")
			default: // the same with the quotes json.Marshal puts around string values
				ev.fields[name] = words() + `"` + canon.inter() + name + "0" + canon.mid + `"` + words()
				rep.Count("value:string-with-quoted-member-separator")
			}
		}
		if r.Intn(6) == 0 { // the message itself (members level < msg < note < product)
			ev.msg = words() + canon.inter() + "note" + canon.mid + words()
			rep.Count("msg:with-member-separator")
		}
	}
}

// ---------- JSON values as a reader of the log sees them ----------

// c20jsSame: equal as JSON values (objects as maps — the last of repeated names counts —, numbers as the decoder of
// the code represents them: float64, or the literal when BOTH sides use json.Number)
func c20jsSame(a, b *c20jW, literalNumbers bool) bool {
	if a.kind != b.kind {
		return false
	}
	switch a.kind {
	case 'n', 't', 'f':
		return true
	case 's':
		return a.s == b.s
	case '#':
		if literalNumbers {
			return a.s == b.s
		}
		fa, ea := strconv.ParseFloat(a.s, 64)
		fb, eb := strconv.ParseFloat(b.s, 64)
		if ea != nil || eb != nil {
			return a.s == b.s
		}
		return fa == fb
	case '[':
		if len(a.arr) != len(b.arr) {
			return false
		}
		for i := range a.arr {
			if !c20jsSame(a.arr[i], b.arr[i], literalNumbers) {
				return false
			}
		}
		return true
	}
	ma, mb := map[string]*c20jW{}, map[string]*c20jW{}
	for i, k := range a.keys {
		ma[k] = a.vals[i]
	}
	for i, k := range b.keys {
		mb[k] = b.vals[i]
	}
	if len(ma) != len(mb) {
		return false
	}
	for k, x := range ma {
		y, ok := mb[k]
		if !ok || !c20jsSame(x, y, literalNumbers) {
			return false
		}
	}
	return true
}

// c20jsRefCanon: the REFERENCE canonical form of a line — what the recorded finding json-delimiter-ambiguity is
// about: reserved members taken out, names in sort.Strings order between the probed tokens, every value as
// json.Marshal prints the decoded value.  Independent of getBytes.  ok=false: not decodable.
func c20jsRefCanon(canon c20jsCanon, w *c20jW, literalNumbers bool) (string, bool) {
	dec := json.NewDecoder(strings.NewReader(w.String()))
	if literalNumbers {
		dec.UseNumber()
	}
	m := map[string]interface{}{}
	if err := dec.Decode(&m); err != nil {
		return "", false
	}
	delete(m, logging.IntegrityKey)
	if v, ok := m[logging.AuditLogChainKey].(string); ok && v == logging.NewAuditLogChainValue {
		delete(m, logging.AuditLogChainKey)
	}
	var ks []string
	for k := range m {
		ks = append(ks, k)
	}
	sort.Strings(ks)
	var sb strings.Builder
	for _, k := range ks {
		v, err := json.Marshal(m[k])
		if err != nil {
			return "", false
		}
		sb.WriteString(canon.pre + k + canon.mid + string(v) + canon.post)
	}
	return sb.String(), true
}

// ---------- the edits ----------

type c20jsEdit struct {
	kind   string
	detail string
	w      *c20jW
}

func c20jsStr(s string) *c20jW { return &c20jW{kind: 's', s: s} }

// json.Marshal of the decoded value (names sorted, floats in shortest form): what a canonical form built on
// json.Marshal sees of a nested value / a number
func c20jsPrint(w *c20jW) (string, bool) {
	var g interface{}
	if json.Unmarshal([]byte(w.String()), &g) != nil {
		return "", false
	}
	b, err := json.Marshal(g)
	if err != nil {
		return "", false
	}
	return string(b), true
}

// the two ways a canonical form may spell a value: strings raw or marshalled
func c20jsSpellings(w *c20jW) []string {
	var out []string
	if p, ok := c20jsPrint(w); ok {
		out = append(out, p)
	}
	if w.kind == 's' {
		out = append(out, w.s)
	}
	return out
}

func c20jsIndexes(s, tok string, max int) []int {
	var out []int
	if tok == "" {
		return nil
	}
	for from := 0; len(out) < max; {
		p := strings.Index(s[from:], tok)
		if p < 0 {
			break
		}
		out = append(out, from+p)
		from += p + 1
	}
	return out
}

func c20jsNumberSpellings(lit string) []string {
	f, err := strconv.ParseFloat(lit, 64)
	if err != nil {
		return nil
	}
	seen := map[string]bool{lit: true}
	var out []string
	add := func(s string) {
		if !seen[s] && json.Valid([]byte(s)) {
			seen[s] = true
			out = append(out, s)
		}
	}
	if m, err := json.Marshal(f); err == nil {
		add(string(m)) // canonical print
	}
	if !strings.ContainsAny(lit, ".eE") {
		add(lit + ".0")
		add(lit + "e0")
		add(lit + "E+0")
	} else if !strings.ContainsAny(lit, "eE") {
		add(lit + "0")
		add(strings.TrimSuffix(strings.TrimRight(lit, "0"), "."))
	}
	add(strings.Replace(strconv.FormatFloat(f, 'e', -1, 64), "e+", "e", 1))
	add(strconv.FormatFloat(f, 'e', -1, 64))
	if g := strconv.FormatFloat(f, 'f', -1, 64); len(g) <= 40 {
		add(g)
	}
	if strings.ContainsAny(lit, "e") {
		add(strings.Replace(lit, "e", "E", 1))
	}
	if f == 0 { // 0, -0, 0.0, -0.0, 0e0
		for _, z := range []string{"0", "-0", "0.0", "-0.0", "0e5"} {
			add(z)
		}
	}
	if trimmed := strings.TrimSuffix(lit, "000"); trimmed != lit && trimmed != "" && trimmed != "-" && !strings.ContainsAny(lit, ".eE") {
		add(trimmed + "e3") // 1000 -> 1e3
	}
	return out
}

// c20jsEdits: every semantic edit of one line (deterministic; the line itself is left out)
func c20jsEdits(canon c20jsCanon, base *c20jW) []c20jsEdit {
	var out []c20jsEdit
	seen := map[string]bool{base.String(): true}
	emit := func(kind, detail string, w *c20jW) {
		t := w.String()
		if seen[t] || !utf8.ValidString(t) || !json.Valid([]byte(t)) {
			return
		}
		seen[t] = true
		out = append(out, c20jsEdit{kind: kind, detail: detail, w: w})
	}
	var user []int
	for j, k := range base.keys {
		if !c20jReserved(k, base.vals[j]) {
			user = append(user, j)
		}
	}
	withVal := func(j int, v *c20jW) *c20jW {
		w := base.clone()
		w.vals[j] = v
		return w
	}
	// w with member j replaced by the given members (in its place)
	replace := func(drop map[int]bool, at int, ks []string, vs []*c20jW) *c20jW {
		w := &c20jW{kind: '{'}
		for j, k := range base.keys {
			if j == at {
				w.keys = append(w.keys, ks...)
				w.vals = append(w.vals, vs...)
			}
			if !drop[j] {
				w.keys = append(w.keys, k)
				w.vals = append(w.vals, base.vals[j].clone())
			}
		}
		return w
	}
	for _, j := range user {
		k, x := base.keys[j], base.vals[j]
		name := fmt.Sprintf("member %q", k)
		// --- retype ---
		switch x.kind {
		case 's':
			if y, ok := c20jLex([]byte(x.s)); ok && !(y.kind == 's' && y.s == x.s) {
				kind := map[byte]string{'#': "number", 't': "bool", 'f': "bool", 'n': "null", '{': "object", '[': "array", 's': "string"}[y.kind]
				emit("retype:string->"+kind, name+" string -> the "+kind+" it spells", withVal(j, y))
			}
			if x.s == "" {
				emit("retype:cross", name+` "" -> null`, withVal(j, &c20jW{kind: 'n'}))
			}
		case '#':
			emit("retype:number->string", name+" number -> string of its literal", withVal(j, c20jsStr(x.s)))
			if p, ok := c20jsPrint(x); ok {
				emit("retype:number->string", name+" number -> string of its canonical print", withVal(j, c20jsStr(p)))
			}
			if f, err := strconv.ParseFloat(x.s, 64); err == nil && (f == 0 || f == 1) {
				emit("retype:cross", name+" 0/1 -> false/true", withVal(j, &c20jW{kind: map[bool]byte{true: 't', false: 'f'}[f == 1]}))
			}
		case 't', 'f', 'n':
			lit := map[byte]string{'t': "true", 'f': "false", 'n': "null"}[x.kind]
			emit("retype:"+map[byte]string{'t': "bool", 'f': "bool", 'n': "null"}[x.kind]+"->string", name+" "+lit+" -> string", withVal(j, c20jsStr(lit)))
			switch x.kind {
			case 't':
				emit("retype:cross", name+" true -> 1", withVal(j, &c20jW{kind: '#', s: "1"}))
			case 'f':
				emit("retype:cross", name+" false -> null", withVal(j, &c20jW{kind: 'n'}))
				emit("retype:cross", name+" false -> 0", withVal(j, &c20jW{kind: '#', s: "0"}))
			case 'n':
				emit("retype:cross", name+` null -> ""`, withVal(j, c20jsStr("")))
				emit("retype:cross", name+" null -> false", withVal(j, &c20jW{kind: 'f'}))
				emit("retype:cross", name+" null -> 0", withVal(j, &c20jW{kind: '#', s: "0"}))
			}
		case '{', '[':
			kind := map[byte]string{'{': "object", '[': "array"}[x.kind]
			if p, ok := c20jsPrint(x); ok {
				emit("retype:"+kind+"->string", name+" "+kind+" -> string of its rendering", withVal(j, c20jsStr(p)))
			}
			emit("retype:"+kind+"->string", name+" "+kind+" -> string of its text", withVal(j, c20jsStr(x.String())))
		}
		// --- number spellings ---
		if x.kind == '#' {
			for _, s := range c20jsNumberSpellings(x.s) {
				emit("spell-number", name+" "+x.s+" -> "+s, withVal(j, &c20jW{kind: '#', s: s}))
			}
		}
		// --- split one string member into two, at (end of member)(start of member) name (name/value separator) ---
		if x.kind == 's' {
			for _, p := range c20jsIndexes(x.s, canon.inter(), 3) {
				rest := x.s[p+len(canon.inter()):]
				for _, q := range c20jsIndexes(rest, canon.mid, 3) {
					a, k2, b := x.s[:p], rest[:q], rest[q+len(canon.mid):]
					emit("split-member", name+fmt.Sprintf(" -> %q and new member %q", k, k2), replace(map[int]bool{j: true}, j, []string{k, k2}, []*c20jW{c20jsStr(a), c20jsStr(b)}))
					if strings.HasSuffix(a, `"`) && strings.HasPrefix(b, `"`) {
						emit("split-member", name+fmt.Sprintf(" -> %q and new member %q (quotes dropped)", k, k2),
							replace(map[int]bool{j: true}, j, []string{k, k2}, []*c20jW{c20jsStr(a[:len(a)-1]), c20jsStr(b[1:])}))
					}
					if y, ok := c20jLex([]byte(b)); ok && y.kind != 's' { // the cut-off value spelling another type
						emit("split-member", name+fmt.Sprintf(" -> %q and new typed member %q", k, k2), replace(map[int]bool{j: true}, j, []string{k, k2}, []*c20jW{c20jsStr(a), y}))
					}
				}
			}
			// --- the name/value boundary moved into the value's text ---
			for _, p := range c20jsIndexes(x.s, canon.mid, 3) {
				emit("move-boundary", name+" name extended by the head of the value", replace(map[int]bool{j: true}, j, []string{k + canon.mid + x.s[:p]}, []*c20jW{c20jsStr(x.s[p+len(canon.mid):])}))
			}
			if rs := []rune(x.s); len(rs) > 0 { // … and without any token
				emit("move-boundary", name+" first character of the value moved to the name", replace(map[int]bool{j: true}, j, []string{k + string(rs[0])}, []*c20jW{c20jsStr(string(rs[1:]))}))
			}
		}
		// --- the boundary moved into the name ---
		for _, sp := range c20jsSpellings(x) {
			for _, p := range c20jsIndexes(k, canon.mid, 3) {
				emit("move-boundary", name+" tail of the name moved to the value", replace(map[int]bool{j: true}, j, []string{k[:p]}, []*c20jW{c20jsStr(k[p+len(canon.mid):] + canon.mid + sp)}))
			}
			if rs := []rune(k); len(rs) > 1 && x.kind == 's' {
				emit("move-boundary", name+" last character of the name moved to the value", replace(map[int]bool{j: true}, j, []string{string(rs[:len(rs)-1])}, []*c20jW{c20jsStr(string(rs[len(rs)-1:]) + sp)}))
			}
		}
	}
	// --- a member dropped / a member with an "empty" value added (a canonical form that leaves such values out) ---
	for _, j := range user {
		if len(user) > 1 {
			emit("drop-member", fmt.Sprintf("member %q removed", base.keys[j]), replace(map[int]bool{j: true}, -1, nil, nil))
		}
	}
	for _, v := range []*c20jW{{kind: 'n'}, c20jsStr(""), {kind: 'f'}, {kind: '#', s: "0"}, {kind: '['}, {kind: '{'}} {
		w := base.clone()
		w.keys = append(w.keys, "zz9")
		w.vals = append(w.vals, v)
		emit("add-empty-member", "member \"zz9\":"+v.String()+" added", w)
	}
	// --- adjacent members (sort.Strings order of the names that are authenticated) ---
	last := map[string]int{}
	for _, j := range user {
		last[base.keys[j]] = j
	}
	var ks []string
	for k := range last {
		ks = append(ks, k)
	}
	sort.Strings(ks)
	dropName := func(k string) map[int]bool {
		d := map[int]bool{}
		for j, k2 := range base.keys {
			if k2 == k {
				d[j] = true
			}
		}
		return d
	}
	for i := 0; i+1 < len(ks); i++ {
		ka, kb := ks[i], ks[i+1]
		ja, jb := last[ka], last[kb]
		va, vb := base.vals[ja], base.vals[jb]
		drop := dropName(ka)
		for j := range dropName(kb) {
			drop[j] = true
		}
		pair := fmt.Sprintf("members %q and %q", ka, kb)
		for _, sa := range c20jsSpellings(va) {
			for _, sb := range c20jsSpellings(vb) {
				// two members -> ONE string member holding the canonical text of both
				emit("merge-into-value", pair+" folded into the value of the first", replace(drop, ja, []string{ka}, []*c20jW{c20jsStr(sa + canon.inter() + kb + canon.mid + sb)}))
			}
			// two members -> one member whose NAME holds the canonical text of the first (the recorded finding when values are marshalled)
			emit("merge-into-name", pair+" folded into one name", replace(drop, ja, []string{ka + canon.mid + sa + canon.inter() + kb}, []*c20jW{vb.clone()}))
		}
		// values exchanged
		{
			w := base.clone()
			w.vals[ja], w.vals[jb] = w.vals[jb], w.vals[ja]
			emit("swap-values", pair+" exchange their values", w)
		}
	}
	// --- renamed, sorted order kept ---
	for i, k := range ks {
		k2 := k + "0"
		if _, exists := last[k2]; exists || (i+1 < len(ks) && !(k2 < ks[i+1])) {
			continue
		}
		w := base.clone()
		for j := range w.keys {
			if w.keys[j] == k {
				w.keys[j] = k2
			}
		}
		emit("rename-in-order", fmt.Sprintf("member %q -> %q (same place in the sorted order)", k, k2), w)
	}
	// --- renamed: the case of one letter (a canonical form that folds names) ---
	for _, k := range ks {
		for p, c := range k {
			if (c >= 'a' && c <= 'z') || (c >= 'A' && c <= 'Z') {
				k2 := k[:p] + string(c^0x20) + k[p+1:]
				if _, exists := last[k2]; !exists {
					w := base.clone()
					for j := range w.keys {
						if w.keys[j] == k {
							w.keys[j] = k2
						}
					}
					emit("rename-case", fmt.Sprintf("member %q -> %q", k, k2), w)
				}
				break
			}
		}
	}
	// --- the same value, members written in another order (never a change: recorded only) ---
	if len(base.keys) > 1 {
		w := base.clone()
		n := len(w.keys)
		for a := 0; a < n/2; a++ {
			w.keys[a], w.keys[n-1-a] = w.keys[n-1-a], w.keys[a]
			w.vals[a], w.vals[n-1-a] = w.vals[n-1-a], w.vals[a]
		}
		emit("reorder", "members in reverse order", w)
	}
	return out
}

// ---------- the oracle ----------

const (
	c20jsClassNew   = "json-semantic-edit-accepted"
	c20jsClassKnown = "json-delimiter-ambiguity"
)

// c20jsOracle: all semantic edits of all lines of one honest, accepted log (key = the correct key)
func c20jsOracle(rep *vh.Report, canon c20jsCanon, literalNumbers bool, lab string, key []byte, phys []string, thorough bool) {
	type picked struct {
		i        int
		e        c20jsEdit
		text     string
		accepted bool
	}
	var parseSample []picked  // edited lines replayed through the parser (JParse)
	var verifySample []picked // edited logs replayed through the verifier (JVerify)
	kindSeen := map[string]int{}
	perKind := 1 // edited lines of each kind that are replayed through the model's parser, per history
	if thorough {
		perKind = 3
	}
	recorded := map[string]int{}
	for i, line := range phys {
		base := c20jUserTree(line)
		if base == nil {
			continue
		}
		refBase, refOK := c20jsRefCanon(canon, base, literalNumbers)
		for _, e := range c20jsEdits(canon, base) {
			text := e.w.String()
			ls := append([]string{}, phys...)
			ls[i] = text
			v, _ := c20Verify(logging.JSONFormatString, key, c20Join(ls))
			rep.OracleChecks++
			rep.Count("sem-edit:" + e.kind)
			if v.code < 0 {
				rep.Violate("verifier-panic", "the verifier panicked: "+v.msg, lab+" edited line "+strconv.Itoa(i)+": "+text)
				continue
			}
			accepted := v.code == 0 || v.line > i+1
			same := c20jsSame(base, e.w, literalNumbers)
			p := picked{i: i, e: e, text: text, accepted: accepted}
			switch {
			case same && accepted:
				rep.Count("sem-edit-same-value-accepted:" + e.kind)
			case same:
				rep.Count("sem-edit-same-value-rejected:" + e.kind)
			case !accepted:
				rep.Count("sem-edit-detected:" + e.kind)
			default:
				cls := c20jsClassNew
				if ref, ok := c20jsRefCanon(canon, e.w, literalNumbers); ok && refOK && ref == refBase {
					cls = c20jsClassKnown // the two maps coincide already when every value is marshalled: a NAME spells the tokens
				}
				rep.Count("sem-edit-ACCEPTED:" + cls + ":" + e.kind)
				// every accepted edit is counted; the report carries the first ones of each class and kind of this history
				recorded[cls+e.kind]++
				if recorded[cls+e.kind] > 1 || (cls == c20jsClassKnown && recorded[cls] > 0) {
					break
				}
				recorded[cls]++
				rep.Violate(cls,
					fmt.Sprintf("JSON audit log: a changed entry verifies with the correct key (%s: %s); verifier result %+v, expected a failure no later than line %d",
						e.kind, e.detail, v, i+1),
					fmt.Sprintf("%s\n  line %d of %d, as written : %s\n  line %d, edited            : %s\n  IntegrityCheckVerifier.VerifyIntegrityCheck(correct key) on the log with that one line replaced: %s\n  whole log: %s",
						lab, i, len(phys), line, i, text, map[bool]string{true: "ACCEPTED (no error)", false: fmt.Sprintf("first error only at line %d (%s)", v.line, v.msg)}[v.code == 0],
						c20Short(c20Join(ls))))
				if recorded[cls] <= 3 {
					verifySample = append(verifySample, p)
				}
			}
			if kindSeen[e.kind] < perKind {
				kindSeen[e.kind]++
				parseSample = append(parseSample, p)
			}
		}
	}
	// --- replay on the model ---
	// the parser on edited lines of every kind (authenticated bytes byte for byte), in batches
	for s0 := 0; s0 < len(parseSample); s0 += 8 {
		end := s0 + 8
		if end > len(parseSample) {
			end = len(parseSample)
		}
		var ls, kinds []string
		for _, p := range parseSample[s0:end] {
			ls = append(ls, p.text)
			kinds = append(kinds, p.e.kind)
		}
		rep.Add(lab+" parse edited lines "+strings.Join(kinds, ","), "(JParse "+c20jLinesTerm(ls)+")", c20jParse(ls))
	}
	// the verifier on the log up to the edited line: accepted edits, and (rotating with the history) three others
	if n := len(parseSample); n > 0 && !thorough {
		h := fnv.New32a()
		h.Write([]byte(lab))
		for k := 0; k < 3; k++ {
			verifySample = append(verifySample, parseSample[(int(h.Sum32()%uint32(n))+k*(n/3+1))%n])
		}
	} else if thorough { // one of every kind
		one := map[string]bool{}
		for _, p := range parseSample {
			if !one[p.e.kind] {
				one[p.e.kind] = true
				verifySample = append(verifySample, p)
			}
		}
	}
	done := map[string]bool{}
	for _, p := range verifySample {
		if done[p.text] {
			continue
		}
		done[p.text] = true
		ls := append(append([]string{}, phys[:p.i]...), p.text)
		_, o := c20Verify(logging.JSONFormatString, key, c20Join(ls))
		rep.Add(lab+" verify sem-edit "+p.e.kind+" "+p.e.detail, fmt.Sprintf("(JVerify %s %s)", vh.H(key), c20jLinesTerm(ls)), o)
		rep.Count("sem-edit-replayed:" + p.e.kind)
	}
}

var _ = bytes.Equal
var _ = logrus.Fields{}
