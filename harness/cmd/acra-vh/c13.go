package main

// C13: "text re-serialised by acra's SQL parser parses back to the same structure".
//
// Model cases (replayed on coq/Model/RunSqlExpr.v): OPrint / OParse / OWf / OSubst / OEsc / OScan over the
// expression fragment of sqlparser. Implementation-only oracles: Parse -> String -> Parse over the parser's own
// test corpus and over statements spliced from its sub-expressions (both dialects); value substitution through
// the real encryptor/mysql.UpdateExpressionValue + DBDataCoder; string literal escape round trip.

import (
	"bytes"
	"context"
	"encoding/hex"
	"fmt"
	"os"
	"reflect"
	"regexp"
	"strconv"
	"strings"

	"acra-vh/vh"

	encmysql "github.com/cossacklabs/acra/encryptor/mysql"
	"github.com/cossacklabs/acra/sqlparser"
	"github.com/cossacklabs/acra/sqlparser/dependency/bytes2"
	"github.com/cossacklabs/acra/sqlparser/dependency/sqltypes"
	"github.com/cossacklabs/acra/sqlparser/dialect"
	"github.com/cossacklabs/acra/sqlparser/dialect/mysql"
	"github.com/cossacklabs/acra/sqlparser/dialect/postgresql"
)

func init() { register("c13", "Model.RunSqlExpr", runC13) }

// ---------------------------------------------------------------------------------------------
// guarded calls into sqlparser
// ---------------------------------------------------------------------------------------------

type c13 struct {
	rep *vh.Report
	r   *vh.Rng
	d   dialect.Dialect
	pg  bool
}

func (c *c13) use(pg bool) {
	c.pg = pg
	if pg {
		c.d = postgresql.NewPostgreSQLDialect()
	} else {
		c.d = mysql.NewMySQLDialect()
	}
	// String()/Format and some grammar actions read the package-level default dialect
	sqlparser.SetDefaultDialect(c.d)
}

func (c *c13) dname() string {
	if c.pg {
		return "pg"
	}
	return "mysql"
}

func (c *c13) parse(s string) (st sqlparser.Statement, err error, pan string) {
	defer func() {
		if r := recover(); r != nil {
			pan, st = fmt.Sprint(r), nil
		}
	}()
	st, err = sqlparser.ParseWithDialect(c.d, s)
	return
}

func c13String(n sqlparser.SQLNode) (s string, pan string) {
	defer func() {
		if r := recover(); r != nil {
			pan = fmt.Sprint(r)
		}
	}()
	s = sqlparser.String(n)
	return
}

const c13Prefix = "select 1 from t where "

// parseExpr parses `select 1 from t where <text>` and returns the WHERE expression.
func (c *c13) parseExpr(text string) (e sqlparser.Expr, sel *sqlparser.Select, err error, pan string) {
	st, err, pan := c.parse(c13Prefix + text)
	if err != nil || pan != "" {
		return nil, nil, err, pan
	}
	sel, ok := st.(*sqlparser.Select)
	if !ok || sel.Where == nil || sel.Where.Expr == nil {
		return nil, nil, fmt.Errorf("no where expression"), ""
	}
	return sel.Where.Expr, sel, nil, ""
}

func c13Cmp() *vh.AstCmp {
	return &vh.AstCmp{SkipFields: map[string]bool{"lowered": true}, NodePkg: "/sqlparser"}
}

// c13CmpLoose additionally ignores the NAME of bind variables: SQLVal.Format prints every `:name` as `?`
// (deliberately, see the comment there) and the tokenizer numbers `?` as :v1, :v2 ...
func c13CmpLoose() *vh.AstCmp {
	c := c13Cmp()
	c.SkipField = func(st reflect.Value, field string) bool {
		return field == "Val" && st.Type().Name() == "SQLVal" && st.FieldByName("Type").Int() == int64(sqlparser.ValArg)
	}
	return c
}

// astEqual: structural equality of two parse trees (exported and unexported fields, caches ignored).
func astEqual(a, b interface{}) (bool, string) {
	c := c13Cmp()
	if c.Equal(a, b) {
		return true, ""
	}
	return false, c.Path + " (" + c.Why + ")"
}

func isNilNode(n interface{}) bool {
	if n == nil {
		return true
	}
	v := reflect.ValueOf(n)
	switch v.Kind() {
	case reflect.Ptr, reflect.Interface, reflect.Slice, reflect.Map:
		return v.IsNil()
	}
	return false
}

func goType(n interface{}) string {
	if n == nil {
		return "nil"
	}
	t := reflect.TypeOf(n)
	for t.Kind() == reflect.Ptr {
		t = t.Elem()
	}
	return t.Name()
}

func clip(s string, n int) string {
	if len(s) > n {
		return s[:n] + "…"
	}
	return s
}

// ---------------------------------------------------------------------------------------------
// Go tree -> model term
// ---------------------------------------------------------------------------------------------

var c13CmpOps = map[string]string{
	sqlparser.EqualStr: "CEq", sqlparser.LessThanStr: "CLt", sqlparser.GreaterThanStr: "CGt", sqlparser.LessEqualStr: "CLe",
	sqlparser.GreaterEqualStr: "CGe", sqlparser.NotEqualStr: "CNe", sqlparser.NullSafeEqualStr: "CNse", sqlparser.InStr: "CIn",
	sqlparser.NotInStr: "CNotIn", sqlparser.LikeStr: "CLike", sqlparser.NotLikeStr: "CNotLike", sqlparser.RegexpStr: "CRegexp",
	sqlparser.NotRegexpStr: "CNotRegexp",
}
var c13BinOps = map[string]string{
	sqlparser.BitAndStr: "BBitAnd", sqlparser.BitOrStr: "BBitOr", sqlparser.BitXorStr: "BBitXor", sqlparser.PlusStr: "BPlus",
	sqlparser.MinusStr: "BMinus", sqlparser.MultStr: "BMult", sqlparser.DivStr: "BDiv", sqlparser.IntDivStr: "BIntDiv",
	sqlparser.ModStr: "BMod", sqlparser.ShiftLeftStr: "BShl", sqlparser.ShiftRightStr: "BShr",
}
var c13UnOps = map[string]string{
	sqlparser.UPlusStr: "UPlus", sqlparser.UMinusStr: "UMinus", sqlparser.TildaStr: "UTilda", sqlparser.BangStr: "UBang",
	sqlparser.BinaryStr: "UBinary", sqlparser.UBinaryStr: "UUBinary",
}
var c13IsOps = map[string]string{
	sqlparser.IsNullStr: "IsNull", sqlparser.IsNotNullStr: "IsNotNull", sqlparser.IsTrueStr: "IsTrue",
	sqlparser.IsNotTrueStr: "IsNotTrue", sqlparser.IsFalseStr: "IsFalse", sqlparser.IsNotFalseStr: "IsNotFalse",
}

func coqList(xs []string) string { return "[" + strings.Join(xs, "; ") + "]" }

// exportExpr renders e as a term of Model.SqlExpr.expr; ok=false: outside the modelled fragment (why = Go type).
func (c *c13) exportExpr(e sqlparser.Expr) (term string, ok bool, why string) {
	out := func(w string) (string, bool, string) { return "", false, w }
	if isNilNode(e) {
		return out("nil")
	}
	many := func(es []sqlparser.Expr) (string, bool, string) {
		parts := make([]string, len(es))
		for i, x := range es {
			t, ok, w := c.exportExpr(x)
			if !ok {
				return out(w)
			}
			parts[i] = t
		}
		return coqList(parts), true, ""
	}
	args := func(name string, es ...sqlparser.Expr) (string, bool, string) {
		s := "(" + name
		for _, x := range es {
			t, ok, w := c.exportExpr(x)
			if !ok {
				return out(w)
			}
			s += " " + t
		}
		return s + ")", true, ""
	}
	switch n := e.(type) {
	case *sqlparser.AndExpr:
		return args("EAnd", n.Left, n.Right)
	case *sqlparser.OrExpr:
		return args("EOr", n.Left, n.Right)
	case *sqlparser.NotExpr:
		return args("ENot", n.Expr)
	case *sqlparser.ParenExpr:
		return args("EParen", n.Expr)
	case *sqlparser.ComparisonExpr:
		op, ok := c13CmpOps[n.Operator]
		if !ok {
			return out("ComparisonExpr:" + n.Operator)
		}
		if n.Escape == nil {
			return args("ECmp "+op, n.Left, n.Right)
		}
		return args("ECmpEsc "+op, n.Left, n.Right, n.Escape)
	case *sqlparser.RangeCond:
		switch n.Operator {
		case sqlparser.BetweenStr:
			return args("ERange false", n.Left, n.From, n.To)
		case sqlparser.NotBetweenStr:
			return args("ERange true", n.Left, n.From, n.To)
		}
		return out("RangeCond:" + n.Operator)
	case *sqlparser.IsExpr:
		op, ok := c13IsOps[n.Operator]
		if !ok {
			return out("IsExpr:" + n.Operator)
		}
		return args("EIs "+op, n.Expr)
	case *sqlparser.BinaryExpr:
		op, ok := c13BinOps[n.Operator]
		if !ok {
			return out("BinaryExpr:" + n.Operator)
		}
		return args("EBin "+op, n.Left, n.Right)
	case *sqlparser.UnaryExpr:
		op, ok := c13UnOps[n.Operator]
		if !ok {
			return out("UnaryExpr:" + n.Operator)
		}
		return args("EUn "+op, n.Expr)
	case *sqlparser.SQLVal:
		if len(n.CastType) != 0 {
			return out("SQLVal:cast")
		}
		if n.Type < sqlparser.StrVal || n.Type > sqlparser.PgPlaceholder {
			return out("SQLVal:unknown")
		}
		return fmt.Sprintf("(ELit %d %s)", int(n.Type), vh.H(n.Val)), true, ""
	case *sqlparser.NullVal:
		return "ENull", true, ""
	case sqlparser.BoolVal:
		if bool(n) {
			return "(EBool true)", true, ""
		}
		return "(EBool false)", true, ""
	case *sqlparser.ColName:
		// identifiers that remember their quoting (PostgreSQL "Abc") are not TId tokens
		if reflect.ValueOf(n.Name).FieldByName("quote").Uint() != 0 ||
			n.Qualifier.Name.String() != n.Qualifier.Name.RawValue() || n.Qualifier.Qualifier.String() != n.Qualifier.Qualifier.RawValue() {
			return out("ColName:quoted")
		}
		if c.pg { // the PostgreSQL printer double-quotes such names and the quoting is remembered on re-parse
			for _, s := range []string{n.Qualifier.Qualifier.String(), n.Qualifier.Name.String(), n.Name.String()} {
				if s != "" && !plainIdent(s) {
					return out("ColName:needs-quoting-pg")
				}
			}
		}
		var q []string
		if s := n.Qualifier.Qualifier.String(); s != "" {
			q = append(q, vh.H([]byte(s)))
		}
		if s := n.Qualifier.Name.String(); s != "" {
			q = append(q, vh.H([]byte(s)))
		}
		return fmt.Sprintf("(ECol %s %s)", coqList(q), vh.H([]byte(n.Name.String()))), true, ""
	case sqlparser.ValTuple:
		t, ok, w := many([]sqlparser.Expr(n))
		if !ok {
			return out(w)
		}
		return "(ETuple " + t + ")", true, ""
	case *sqlparser.FuncExpr:
		if !n.Qualifier.IsEmpty() {
			return out("FuncExpr:qualified")
		}
		if n.Distinct {
			return out("FuncExpr:distinct")
		}
		if !plainIdent(n.Name.String()) { // printed raw: `mod(a, b)`, `left(a, 1)` are keyword tokens, not ID
			return out("FuncExpr:keyword-name")
		}
		var es []sqlparser.Expr
		for _, se := range n.Exprs {
			ae, ok := se.(*sqlparser.AliasedExpr)
			if !ok {
				return out("FuncExpr:" + goType(se))
			}
			if !ae.As.IsEmpty() {
				return out("FuncExpr:alias")
			}
			es = append(es, ae.Expr)
		}
		t, ok, w := many(es)
		if !ok {
			return out(w)
		}
		return fmt.Sprintf("(EFunc %s %s)", vh.H([]byte(n.Name.String())), t), true, ""
	}
	return out(goType(e))
}

// plainIdent: s is tokenized as exactly one ID token spelled s (not a keyword, no quoting needed).
func plainIdent(s string) bool {
	defer func() { recover() }()
	tkn := sqlparser.NewStringTokenizerWithDialect(mysql.NewMySQLDialect(), s)
	typ, val := tkn.Scan()
	if typ != sqlparser.ID || string(val) != s {
		return false
	}
	typ, _ = tkn.Scan()
	return typ == 0
}

// childSlots: the child expression fields of a fragment node in the model's path order.
func childSlots(e sqlparser.Expr) []*sqlparser.Expr {
	switch n := e.(type) {
	case *sqlparser.AndExpr:
		return []*sqlparser.Expr{&n.Left, &n.Right}
	case *sqlparser.OrExpr:
		return []*sqlparser.Expr{&n.Left, &n.Right}
	case *sqlparser.NotExpr:
		return []*sqlparser.Expr{&n.Expr}
	case *sqlparser.ParenExpr:
		return []*sqlparser.Expr{&n.Expr}
	case *sqlparser.ComparisonExpr:
		if n.Escape != nil {
			return []*sqlparser.Expr{&n.Left, &n.Right, &n.Escape}
		}
		return []*sqlparser.Expr{&n.Left, &n.Right}
	case *sqlparser.RangeCond:
		return []*sqlparser.Expr{&n.Left, &n.From, &n.To}
	case *sqlparser.IsExpr:
		return []*sqlparser.Expr{&n.Expr}
	case *sqlparser.BinaryExpr:
		return []*sqlparser.Expr{&n.Left, &n.Right}
	case *sqlparser.UnaryExpr:
		return []*sqlparser.Expr{&n.Expr}
	case sqlparser.ValTuple:
		out := make([]*sqlparser.Expr, len(n))
		for i := range n {
			out[i] = &n[i]
		}
		return out
	case *sqlparser.FuncExpr:
		var out []*sqlparser.Expr
		for _, se := range n.Exprs {
			if ae, ok := se.(*sqlparser.AliasedExpr); ok {
				out = append(out, &ae.Expr)
			}
		}
		return out
	}
	return nil
}

// ---------------------------------------------------------------------------------------------
// Go tokenizer -> model tokens
// ---------------------------------------------------------------------------------------------

var c13KwTok = map[int]string{
	sqlparser.AND: "KAnd", sqlparser.OR: "KOr", sqlparser.NOT: "KNot", sqlparser.IS: "KIs", sqlparser.NULL: "KNull",
	sqlparser.TRUE: "KTrue", sqlparser.FALSE: "KFalse", sqlparser.BETWEEN: "KBetween", sqlparser.IN: "KIn",
	sqlparser.LIKE: "KLike", sqlparser.ESCAPE: "KEscape", sqlparser.REGEXP: "KRegexp", sqlparser.DIV: "KDiv",
	sqlparser.MOD: "KMod", sqlparser.BINARY: "KBinary", sqlparser.UNDERSCORE_BINARY: "KUBinary",
	'=': "KEq", '<': "KLt", '>': "KGt", sqlparser.LE: "KLe", sqlparser.GE: "KGe", sqlparser.NE: "KNe",
	sqlparser.NULL_SAFE_EQUAL: "KNse", '|': "KBitOr", '&': "KBitAnd", sqlparser.SHIFT_LEFT: "KShl",
	sqlparser.SHIFT_RIGHT: "KShr", '+': "KPlus", '-': "KMinus", '*': "KStar", '/': "KSlash", '%': "KPercent",
	'^': "KCaret", '~': "KTilde", '!': "KBang", '(': "KLParen", ')': "KRParen", ',': "KComma", '.': "KDot",
}
var c13LitTok = map[int]int{
	sqlparser.SINGLE_QUOTE_STRING: 0, sqlparser.INTEGRAL: 1, sqlparser.FLOAT: 2, sqlparser.HEXNUM: 3, sqlparser.HEX: 4,
	sqlparser.VALUE_ARG: 5, sqlparser.BIT_LITERAL: 6, sqlparser.PG_ESCAPE_STRING: 7, sqlparser.DOLLAR_SIGN: 8,
}

type c13Tok struct {
	typ int
	val []byte
}

// scanAll runs the real tokenizer until EOF; ok=false on LEX_ERROR or a panic.
func (c *c13) scanAll(text string) (toks []c13Tok, ok bool) {
	defer func() {
		if r := recover(); r != nil {
			toks, ok = nil, false
		}
	}()
	tkn := sqlparser.NewStringTokenizerWithDialect(c.d, text)
	for i := 0; i < len(text)+4; i++ {
		typ, val := tkn.Scan()
		if typ == 0 {
			return toks, true
		}
		if typ == sqlparser.LEX_ERROR {
			return nil, false
		}
		toks = append(toks, c13Tok{typ, append([]byte{}, val...)})
	}
	return nil, false
}

// tokensOf: model tokens of text; ok=false when some token is outside the fragment (why names it).
func (c *c13) tokensOf(text string) (terms []string, ok bool, why string) {
	toks, ok := c.scanAll(text)
	if !ok {
		return nil, false, "lex-error"
	}
	for i, t := range toks {
		// sql.y: column_name: table_id '.' reserved_sql_id — after a '.' a reserved keyword is an identifier
		// (the tokenizer hands over the lower-cased keyword text); this is decided by the grammar context, the
		// token-level model receives it as TId.
		if i > 0 && toks[i-1].typ == '.' && t.typ != sqlparser.ID && len(t.val) > 0 && sqlparser.KeywordString(t.typ) != "" {
			terms = append(terms, "(TId "+vh.H(t.val)+")")
			continue
		}
		if k, ok := c13KwTok[t.typ]; ok {
			terms = append(terms, "(TK "+k+")")
			continue
		}
		if l, ok := c13LitTok[t.typ]; ok {
			terms = append(terms, fmt.Sprintf("(TLit %d %s)", l, vh.H(t.val)))
			continue
		}
		switch {
		case t.typ == sqlparser.ID:
			terms = append(terms, "(TId "+vh.H(t.val)+")")
		case t.typ == sqlparser.DOUBLE_QUOTE_STRING && !c.pg:
			terms = append(terms, "(TLit 0 "+vh.H(t.val)+")")
		default:
			name := sqlparser.KeywordString(t.typ)
			if name == "" {
				name = strconv.Itoa(t.typ)
			}
			return nil, false, "token:" + name
		}
	}
	return terms, true, ""
}

// valArgsStable: String() prints every `:name` bind variable as `?`, which the tokenizer renumbers :v1, :v2 …;
// a tree survives print -> tokenize only if its ValArgs already carry exactly those names in print order.
func (c *c13) valArgsStable(e sqlparser.Expr, printed string) bool {
	var inTree [][]byte
	sqlparser.Walk(func(n sqlparser.SQLNode) (bool, error) {
		if v, ok := n.(*sqlparser.SQLVal); ok && v != nil && v.Type == sqlparser.ValArg {
			inTree = append(inTree, v.Val)
		}
		return true, nil
	}, e)
	if len(inTree) == 0 {
		return true
	}
	toks, ok := c.scanAll(printed)
	if !ok {
		return false
	}
	var inText [][]byte
	for _, t := range toks {
		if t.typ == sqlparser.VALUE_ARG {
			inText = append(inText, t.val)
		}
	}
	if len(inText) != len(inTree) {
		return false
	}
	for i := range inText {
		if !bytes.Equal(inText[i], inTree[i]) {
			return false
		}
	}
	return true
}

// ---------------------------------------------------------------------------------------------
// expression text generator (lexeme lists, so that token-level mutations are possible)
// ---------------------------------------------------------------------------------------------

type xgen struct {
	r   *vh.Rng
	lit bool // literal-heavy atoms (substitution scenarios)
}

var c13Idents = []string{"a", "b", "c", "c1", "t1", "fn", "d", "col", "A", "Tb", "k_2"}

func (g *xgen) pick(xs ...string) string { return xs[g.r.Intn(len(xs))] }

func (g *xgen) kw(s string) string {
	switch g.r.Intn(6) {
	case 0:
		return strings.ToUpper(s)
	case 1:
		return strings.ToUpper(s[:1]) + s[1:]
	}
	return s
}

func (g *xgen) ident() []string {
	id := func() string { return c13Idents[g.r.Intn(len(c13Idents))] }
	switch g.r.Intn(12) {
	case 0, 1:
		return []string{id() + "." + id()}
	case 2:
		return []string{id() + "." + id() + "." + id()}
	case 3:
		return []string{id(), ".", id()}
	case 4:
		return []string{"`" + g.pick("a b", "select", "x", "Q") + "`"}
	case 5:
		if g.r.Intn(10) == 0 { // sql.y reserved_sql_id: a reserved keyword is an identifier after '.'
			return []string{id(), ".", g.kw(g.pick("not", "and", "in", "null", "is", "like", "div", "binary", "true", "between", "escape", "or", "mod", "regexp", "false"))}
		}
	}
	return []string{id()}
}

func (g *xgen) literal() []string {
	r := g.r
	switch r.Intn(24) {
	case 0, 1, 2, 3, 4:
		return []string{g.pick("0", "1", "7", "42", "007", "123456", "18446744073709551616")}
	case 5, 6, 7, 8, 9:
		return []string{g.pick(`'abc'`, `''`, `'it''s'`, `'a\'b'`, `'\\'`, `'%x_'`, `'a\nb'`, `'\x41'`, `'q\x'`, `'\0\Z'`, `'a"b'`, `'é'`, `' '`)}
	case 10:
		return []string{g.pick("1.5", ".5", "1e3", "1.2e-1", "08.3", "2.")}
	case 11:
		return []string{g.pick("0x1F", "0xab", "0X1f", "0x")}
	case 12:
		return []string{g.pick("x'4142'", "X'00ff'", "x''")}
	case 13:
		return []string{g.pick("b'0101'", "B'1'", "b''")}
	case 14:
		return []string{g.pick("?", "?", ":nm", ":v7", ":v1")}
	case 15:
		return []string{g.pick(`E'ab\n'`, `e'x'`, `E''`, `e'\x41'`)}
	case 16:
		return []string{g.pick("$1", "$23")}
	case 17:
		return []string{g.pick(`"dq"`, `"a""b"`, `""`, `"it's"`)}
	case 18, 19:
		return []string{"-", g.pick("1", "5", "42")}
	case 20:
		return []string{g.kw("null")}
	case 21:
		return []string{g.kw(g.pick("true", "false"))}
	case 22:
		return []string{"_binary", g.pick(`'abc'`, `'x'`, "5")}
	}
	return []string{"(", g.pick(`'abc'`, "5", `'p'`, "0x10"), ")"}
}

func (g *xgen) atom0() []string {
	n := 55
	if g.lit {
		n = 25
	}
	if g.r.Intn(100) < n {
		return g.ident()
	}
	return g.literal()
}

func c13Cat(parts ...[]string) []string {
	var out []string
	for _, p := range parts {
		out = append(out, p...)
	}
	return out
}
func w(s ...string) []string { return s }

func (g *xgen) list(d, max int) []string {
	n := 1 + g.r.Intn(max)
	out := g.top(d)
	for i := 1; i < n; i++ {
		out = c13Cat(out, w(","), g.top(d))
	}
	return out
}

// top: an `expression` (mostly) as used for list elements / function arguments
func (g *xgen) top(d int) []string {
	if g.r.Intn(3) == 0 {
		return g.boolean(d)
	}
	return g.val(d)
}

func (g *xgen) atom(d int) []string {
	if d <= 0 {
		return g.atom0()
	}
	switch x := g.r.Intn(100); {
	case x < 62:
		return g.atom0()
	case x < 72:
		if g.r.Intn(5) == 0 {
			return w(g.pick("fn", "f", "Concat"), "(", ")")
		}
		return c13Cat(w(g.pick("fn", "f", "Concat")), w("("), g.list(d-1, 3), w(")"))
	case x < 92:
		return c13Cat(w("("), g.top(d-1), w(")"))
	}
	return c13Cat(w("("), g.top(d-1), w(","), g.list(d-1, 2), w(")"))
}

var c13BinLex = []string{"+", "-", "*", "/", "%", "mod", "div", "&", "|", "^", "<<", ">>"}
var c13CmpLex = []string{"=", "=", "<", ">", "<=", ">=", "!=", "<>", "<=>"}

func (g *xgen) val(d int) []string {
	if d <= 0 {
		return g.atom0()
	}
	switch x := g.r.Intn(100); {
	case x < 30:
		return g.atom(d)
	case x < 68:
		op := c13BinLex[g.r.Intn(len(c13BinLex))]
		if op == "mod" || op == "div" {
			op = g.kw(op)
		}
		return c13Cat(g.val(d-1), w(op), g.val(d-1))
	case x < 84:
		op := g.pick("-", "-", "+", "~", "!", "binary", "_binary")
		if op == "binary" {
			op = g.kw(op)
		}
		return c13Cat(w(op), g.val(d-1))
	case x < 93:
		return g.atom(d)
	}
	return g.boolean(d - 1) // sort violation: a condition where the grammar wants a value
}

func (g *xgen) not() []string {
	if g.r.Intn(2) == 0 {
		return w(g.kw("not"))
	}
	return nil
}

func (g *xgen) boolean(d int) []string {
	if d <= 0 {
		return c13Cat(g.atom0(), w(c13CmpLex[g.r.Intn(len(c13CmpLex))]), g.atom0())
	}
	switch x := g.r.Intn(100); {
	case x < 24:
		return c13Cat(g.val(d-1), w(c13CmpLex[g.r.Intn(len(c13CmpLex))]), g.val(d-1))
	case x < 32:
		return c13Cat(g.val(d-1), g.not(), w(g.kw("in"), "("), g.list(d-1, 3), w(")"))
	case x < 41:
		out := c13Cat(g.val(d-1), g.not(), w(g.kw("like")), g.val(d-1))
		if g.r.Intn(3) == 0 {
			out = c13Cat(out, w(g.kw("escape")), g.val(d-1))
		}
		return out
	case x < 46:
		return c13Cat(g.val(d-1), g.not(), w(g.kw(g.pick("regexp", "rlike"))), g.val(d-1))
	case x < 55:
		return c13Cat(g.val(d-1), g.not(), w(g.kw("between")), g.val(d-1), w(g.kw("and")), g.val(d-1))
	case x < 69:
		op := g.pick("and", "or", "and", "or", "&&", "||")
		if op == "and" || op == "or" {
			op = g.kw(op)
		}
		return c13Cat(g.boolean(d-1), w(op), g.boolean(d-1))
	case x < 77:
		return c13Cat(w(g.kw("not")), g.boolean(d-1))
	case x < 86:
		return c13Cat(g.boolean(d-1), w(g.kw("is")), g.not(), w(g.kw(g.pick("null", "true", "false"))))
	case x < 91:
		return c13Cat(w("("), g.boolean(d-1), w(")"))
	}
	return g.val(d)
}

func (g *xgen) expr() []string {
	for {
		d := 1 + g.r.Intn(3)
		var l []string
		if g.r.Intn(10) < 7 {
			l = g.boolean(d)
		} else {
			l = g.val(d)
		}
		if len(l) <= 70 {
			return l
		}
	}
}

func isPunct(b byte) bool { return strings.IndexByte("()=<>!+-*/%^~&|,.", b) >= 0 }

func (g *xgen) join(lex []string) string {
	var sb strings.Builder
	if g.r.Intn(12) == 0 {
		sb.WriteByte(' ')
	}
	for i, l := range lex {
		if l == "" {
			continue
		}
		if i > 0 && lex[i-1] != "" {
			prev := lex[i-1]
			sp := " "
			if isPunct(prev[len(prev)-1]) || isPunct(l[0]) {
				switch g.r.Intn(5) {
				case 0, 1:
					sp = ""
				case 2:
					sp = "  "
				}
			} else {
				switch g.r.Intn(12) {
				case 0:
					sp = "  "
				case 1:
					sp = "\t"
				case 2:
					sp = "\n"
				}
			}
			sb.WriteString(sp)
		}
		sb.WriteString(l)
	}
	if g.r.Intn(12) == 0 {
		sb.WriteByte(' ')
	}
	return sb.String()
}

var c13InsertLex = []string{"+", "-", "=", "and", "or", "not", "(", ")", ",", "is", "in", "like", "between", "escape", "~", "!", "null", ".", "binary", "*", "<", "a", "1"}

func (g *xgen) mutate(lex []string) ([]string, string) {
	out := append([]string{}, lex...)
	if len(out) == 0 {
		return out, "none"
	}
	i := g.r.Intn(len(out))
	switch g.r.Intn(6) {
	case 0:
		return append(out[:i], out[i+1:]...), "delete"
	case 1:
		out = append(out[:i+1], out[i:]...)
		return out, "duplicate"
	case 2:
		if i+1 < len(out) {
			out[i], out[i+1] = out[i+1], out[i]
		}
		return out, "swap"
	case 3:
		var ps []int
		for j, l := range out {
			if l == "(" || l == ")" {
				ps = append(ps, j)
			}
		}
		if len(ps) > 0 {
			j := ps[g.r.Intn(len(ps))]
			return append(out[:j], out[j+1:]...), "drop-paren"
		}
		return append(out[:i], out[i+1:]...), "delete"
	}
	ins := c13InsertLex[g.r.Intn(len(c13InsertLex))]
	out = append(out[:i], append([]string{ins}, out[i:]...)...)
	return out, "insert"
}

// ---------------------------------------------------------------------------------------------
// direct AST construction (OWf)
// ---------------------------------------------------------------------------------------------

func mkCol(parts ...string) *sqlparser.ColName {
	c := &sqlparser.ColName{Name: sqlparser.NewColIdent(parts[len(parts)-1])}
	switch len(parts) {
	case 2:
		c.Qualifier = sqlparser.TableName{Name: sqlparser.NewTableIdent(parts[0])}
	case 3:
		c.Qualifier = sqlparser.TableName{Qualifier: sqlparser.NewTableIdent(parts[0]), Name: sqlparser.NewTableIdent(parts[1])}
	}
	return c
}

var c13TreeIdents = []string{"a", "b", "c1", "t1", "fn"}

func (g *xgen) digits() string {
	return g.pick("0", "1", "5", "7", "42", "100", "65536")
}

func (g *xgen) leaf() sqlparser.Expr {
	id := func() string { return c13TreeIdents[g.r.Intn(len(c13TreeIdents))] }
	switch x := g.r.Intn(100); {
	case x < 28:
		return mkCol(id())
	case x < 34:
		return mkCol(id(), id())
	case x < 37:
		return mkCol(id(), id(), id())
	case x < 52:
		return sqlparser.NewIntVal([]byte(g.digits()))
	case x < 60:
		return sqlparser.NewIntVal([]byte("-" + g.digits()))
	case x < 72:
		return sqlparser.NewStrVal([]byte(g.pick("abc", "", "it's", "a\\b", "%x_", "\\x41", "a\nb", "\x00\x1a", "\"")))
	case x < 76:
		return sqlparser.NewFloatVal([]byte(g.pick("1.5", ".5", "1e3", "1.2e-1")))
	case x < 79:
		return sqlparser.NewHexNum([]byte(g.pick("0x1F", "0xab")))
	case x < 82:
		return sqlparser.NewHexVal([]byte(g.pick("4142", "00ff", "")))
	case x < 84:
		return sqlparser.NewBitVal([]byte(g.pick("0101", "1")))
	case x < 86:
		return sqlparser.NewPgEscapeString([]byte(g.pick("ab\n", "x", "\\x41")))
	case x < 88:
		return &sqlparser.SQLVal{Type: sqlparser.PgPlaceholder, Val: []byte(g.pick("$1", "$23"))}
	case x < 94:
		return &sqlparser.NullVal{}
	}
	return sqlparser.BoolVal(g.r.Bool())
}

var c13CmpKeys = []string{"=", "<", ">", "<=", ">=", "!=", "<=>", "in", "not in", "like", "not like", "regexp", "not regexp"}
var c13BinKeys = []string{"&", "|", "^", "+", "-", "*", "/", "div", "%", "<<", ">>"}
var c13UnKeys = []string{"+", "-", "~", "!", "binary ", "_binary "}
var c13IsKeys = []string{"is null", "is not null", "is true", "is not true", "is false", "is not false"}

func (g *xgen) tuple(d, min int) sqlparser.ValTuple {
	n := min + g.r.Intn(3)
	t := sqlparser.ValTuple{}
	for i := 0; i < n; i++ {
		t = append(t, g.tree(d))
	}
	return t
}

// tree: random nesting over the fragment node kinds; no parentheses are inserted for precedence.
func (g *xgen) tree(d int) sqlparser.Expr {
	if d <= 0 || g.r.Intn(6) == 0 {
		return g.leaf()
	}
	switch g.r.Intn(22) {
	case 0:
		return &sqlparser.AndExpr{Left: g.tree(d - 1), Right: g.tree(d - 1)}
	case 1:
		return &sqlparser.OrExpr{Left: g.tree(d - 1), Right: g.tree(d - 1)}
	case 2:
		return &sqlparser.NotExpr{Expr: g.tree(d - 1)}
	case 3, 4:
		return &sqlparser.ParenExpr{Expr: g.tree(d - 1)}
	case 5, 6, 7:
		op := c13CmpKeys[g.r.Intn(len(c13CmpKeys))]
		n := &sqlparser.ComparisonExpr{Operator: op, Left: g.tree(d - 1)}
		if (op == "in" || op == "not in") && g.r.Intn(8) != 0 {
			n.Right = g.tuple(d-1, 1)
		} else {
			n.Right = g.tree(d - 1)
		}
		isLike := op == "like" || op == "not like"
		if (isLike && g.r.Intn(3) == 0) || (!isLike && g.r.Intn(25) == 0) {
			n.Escape = g.tree(d - 1)
		}
		return n
	case 8:
		return &sqlparser.RangeCond{Operator: g.pick("between", "not between"), Left: g.tree(d - 1), From: g.tree(d - 1), To: g.tree(d - 1)}
	case 9:
		return &sqlparser.IsExpr{Operator: c13IsKeys[g.r.Intn(len(c13IsKeys))], Expr: g.tree(d - 1)}
	case 10, 11, 12, 13, 14:
		return &sqlparser.BinaryExpr{Operator: c13BinKeys[g.r.Intn(len(c13BinKeys))], Left: g.tree(d - 1), Right: g.tree(d - 1)}
	case 15, 16, 17:
		return &sqlparser.UnaryExpr{Operator: c13UnKeys[g.r.Intn(len(c13UnKeys))], Expr: g.tree(d - 1)}
	case 18:
		if g.r.Intn(12) == 0 {
			return sqlparser.ValTuple{}
		}
		return g.tuple(d-1, 1)
	case 19:
		f := &sqlparser.FuncExpr{Name: sqlparser.NewColIdent(g.pick("fn", "f"))}
		for i, n := 0, g.r.Intn(3); i < n; i++ {
			f.Exprs = append(f.Exprs, &sqlparser.AliasedExpr{Expr: g.tree(d - 1)})
		}
		return f
	}
	return g.leaf()
}

// ---------------------------------------------------------------------------------------------
// domain
// ---------------------------------------------------------------------------------------------

func (c *c13) add(label, op string) {
	c.rep.Add(clip(label, 160), op, vh.Ok())
}

// genParsed: a generated expression text the real parser accepts and whose tree is inside the fragment.
func (c *c13) genParsed(g *xgen) (text string, e sqlparser.Expr, sel *sqlparser.Select, term string, ok bool) {
	for try := 0; try < 40; try++ {
		text = g.join(g.expr())
		e, sel, err, pan := c.parseExpr(text)
		if err != nil || pan != "" {
			continue
		}
		term, ok, _ := c.exportExpr(e)
		if !ok {
			continue
		}
		return text, e, sel, term, true
	}
	return "", nil, nil, "", false
}

func (c *c13) opParse(g *xgen) {
	lex := g.expr()
	class := "valid-gen"
	if c.r.Intn(100) < 18 {
		var m string
		lex, m = g.mutate(lex)
		if c.r.Intn(4) == 0 {
			lex, _ = g.mutate(lex)
		}
		class = "mutated-" + m
	}
	text := g.join(lex)
	toks, ok, why := c.tokensOf(text)
	if !ok {
		c.rep.Count("parse-skip:" + why)
		return
	}
	e, _, err, pan := c.parseExpr(text)
	c.rep.OracleChecks++
	if pan != "" {
		c.rep.Violate("panic", "Parse panicked: "+pan, c.dname()+": "+c13Prefix+text)
		return
	}
	if err != nil {
		c.rep.Count("gen:" + class + ":rejected")
		c.rep.Count("OParse:None:" + c.dname())
		c.add(fmt.Sprintf("parse[%s] %s %q => error", c.dname(), class, text), fmt.Sprintf("(OParse %s None)", coqList(toks)))
		return
	}
	term, ok, why := c.exportExpr(e)
	if !ok {
		c.rep.Count("outside-fragment:" + why)
		return
	}
	c.rep.Count("gen:" + class + ":accepted")
	c.rep.Count("OParse:Some:" + c.dname())
	if st, err, pan := c.parse(c13Prefix + text); err == nil && pan == "" {
		c.roundTrip(c13Prefix+text, st, "generated-"+class)
	}
	c.add(fmt.Sprintf("parse[%s] %s %q", c.dname(), class, text), fmt.Sprintf("(OParse %s (Some %s))", coqList(toks), term))
}

func (c *c13) opPrintOf(e sqlparser.Expr, origin string) bool {
	term, ok, why := c.exportExpr(e)
	if !ok {
		c.rep.Count("outside-fragment:" + why)
		return false
	}
	s, pan := c13String(e)
	if pan != "" {
		c.rep.Violate("panic", "String panicked on a parser-produced tree: "+pan, c.dname()+": "+term)
		return false
	}
	if !c.valArgsStable(e, s) {
		c.rep.Count("print-skip:valarg-renumbering")
		return false
	}
	toks, ok, why := c.tokensOf(s)
	if !ok {
		c.rep.Count("print-skip:" + why)
		return false
	}
	c.rep.Count("OPrint:" + origin + ":" + c.dname())
	c.add(fmt.Sprintf("print[%s] %s %q", c.dname(), origin, s), fmt.Sprintf("(OPrint %s %s)", term, coqList(toks)))
	return true
}

// goRoundTrips: Parse(prefix + String(t)) succeeds and gives a tree structurally equal to t.
func (c *c13) goRoundTrips(t sqlparser.Expr) (bool, string) {
	s, pan := c13String(t)
	if pan != "" {
		return false, "<String panicked: " + pan + ">"
	}
	e2, _, err, pan := c.parseExpr(s)
	if err != nil || pan != "" {
		return false, s
	}
	eq, _ := astEqual(t, e2)
	return eq, s
}

func (c *c13) opWf(g *xgen) {
	var t sqlparser.Expr
	class := ""
	switch x := c.r.Intn(100); {
	case x < 22: // parser-produced
		_, e, _, _, ok := c.genParsed(g)
		if !ok {
			return
		}
		t, class = e, "parsed"
	case x < 62: // almost WF: one child of a parser-produced tree replaced by a tree without parentheses
		_, e, _, _, ok := c.genParsed(g)
		if !ok {
			return
		}
		t, class = e, "almost"
		node := e
		for hop := 0; ; hop++ {
			slots := childSlots(node)
			if len(slots) == 0 {
				if hop == 0 { // a leaf: wrap instead
					t = &sqlparser.UnaryExpr{Operator: c13UnKeys[c.r.Intn(len(c13UnKeys))], Expr: g.tree(1)}
				}
				break
			}
			sl := slots[c.r.Intn(len(slots))]
			if len(childSlots(*sl)) == 0 || c.r.Intn(3) == 0 {
				if c.r.Intn(4) == 0 {
					if _, e2, _, _, ok := c.genParsed(g); ok {
						*sl = e2
						break
					}
				}
				*sl = g.tree(1 + c.r.Intn(2))
				break
			}
			node = *sl
		}
	default:
		t, class = g.tree(1+c.r.Intn(4)), "random"
	}
	term, ok, why := c.exportExpr(t)
	if !ok {
		c.rep.Count("outside-fragment:" + why)
		return
	}
	b, s := c.goRoundTrips(t)
	if !c.valArgsStable(t, s) {
		c.rep.Count("wf-skip:valarg-renumbering")
		return
	}
	if class == "parsed" {
		c.rep.OracleChecks++
		if !b {
			c.rep.Violate("roundtrip-fragment", "parser-produced expression tree does not survive String -> Parse", c.dname()+": "+s+" :: "+term)
		}
	}
	c.rep.Count(fmt.Sprintf("OWf:%s:%v:%s", class, b, c.dname()))
	c.add(fmt.Sprintf("wf[%s] %s %q => %v", c.dname(), class, s, b), fmt.Sprintf("(OWf %s %v)", term, b))
}

// ---- value substitution ----

var c13Special = []string{"'", "\"", "\\", "\x00", "\n", "\x1a", "%", "_", "a", "é", "\\x", "x", "\r", "\t", "\b", "--", "/*", "?", ":v1", " "}

// substData: replacement data of class k (k < 0: random class).
func (c *c13) substData(k int) ([]byte, string) {
	r := c.r
	if k < 0 {
		k = r.Intn(9)
	}
	dig := func(n int) []byte {
		b := make([]byte, n)
		for i := range b {
			b[i] = byte('0' + r.Intn(10))
		}
		return b
	}
	switch k {
	case 0, 1, 2:
		var sb []byte
		for i, n := 0, 1+r.Intn(12); i < n; i++ {
			sb = append(sb, c13Special[r.Intn(len(c13Special))]...)
		}
		return sb, "utf8-special"
	case 3:
		return dig(1 + r.Intn(9)), "digits"
	case 4:
		return append([]byte("-"), dig(1+r.Intn(9))...), "minus-digits"
	case 5:
		return append([]byte("+"), dig(1+r.Intn(9))...), "plus-digits"
	case 6:
		b := r.Bytes(1 + r.Intn(24))
		b[r.Intn(len(b))] = 0xff
		return b, "binary"
	case 7:
		return r.Bytes(1), "one-byte"
	}
	if r.Bool() {
		return bytes.Repeat([]byte("ab'\\\"%é"), 25), "long-text"
	}
	return r.Bytes(200), "long-binary"
}

func substEligible(v *sqlparser.SQLVal) bool {
	if v == nil {
		return false
	}
	switch v.Type {
	case sqlparser.StrVal, sqlparser.HexVal, sqlparser.PgEscapeString, sqlparser.IntVal, sqlparser.HexNum:
		return true
	}
	return false
}

var c13ValTypeNames = map[sqlparser.ValType]string{
	sqlparser.StrVal: "StrVal", sqlparser.IntVal: "IntVal", sqlparser.FloatVal: "FloatVal", sqlparser.HexNum: "HexNum",
	sqlparser.HexVal: "HexVal", sqlparser.ValArg: "ValArg", sqlparser.BitVal: "BitVal", sqlparser.PgEscapeString: "PgEscapeString",
	sqlparser.PgPlaceholder: "PgPlaceholder", sqlparser.UnknownVal: "UnknownVal",
}

// substitute runs the real UpdateExpressionValue on target (the leaf or a wrapper of it) and then checks, on the
// implementation alone, that the printed statement parses back to the mutated tree (the leaf's Val apart).
// Returns false when the value was left unchanged / the call failed.
func (c *c13) substitute(stmt sqlparser.Statement, target sqlparser.Expr, leaf *sqlparser.SQLVal, parent, where string, dk int) (bool, []byte, string) {
	before, _ := c13String(stmt)
	oldType := leaf.Type
	data, dclass := c.substData(dk)
	var uerr error
	o := vh.Guard(func() vh.Outcome {
		uerr = encmysql.UpdateExpressionValue(context.Background(), target, &encmysql.DBDataCoder{}, nil,
			func(context.Context, []byte) ([]byte, error) { return data, nil })
		return vh.Ok()
	})
	replay := func(extra string) string {
		return fmt.Sprintf("statement: %s\nleaf: %s %s\nnew data (hex): %s\n%s", before, where, c13ValTypeNames[oldType], hex.EncodeToString(data), extra)
	}
	c.rep.Count("subst-data:" + dclass)
	if o.Kind == "panic" {
		c.rep.OracleChecks++
		c.rep.Violate("panic", "UpdateExpressionValue panicked: "+o.Msg, replay(""))
		return false, data, dclass
	}
	if uerr != nil {
		c.rep.Count("subst-skip:" + clip(uerr.Error(), 40))
		return false, data, dclass
	}
	c.rep.Count(fmt.Sprintf("subst-type:%s->%s", c13ValTypeNames[oldType], c13ValTypeNames[leaf.Type]))
	c.rep.OracleChecks++
	class := fmt.Sprintf("subst-%s-in-%s-%s", c13ValTypeNames[oldType], parent, dclass)
	after, pan := c13String(stmt)
	if pan != "" {
		c.rep.Violate("panic", "String panicked after substitution: "+pan, replay(""))
		return true, data, dclass
	}
	st2, err, pan := c.parse(after)
	if pan != "" {
		c.rep.Violate("panic", "Parse panicked after substitution: "+pan, replay("after: "+after))
		return true, data, dclass
	}
	if err != nil {
		c.rep.Violate(class, "statement with substituted value does not parse: "+err.Error(), replay("after: "+after))
		return true, data, dclass
	}
	cmp := c13CmpLoose()
	cmp.IgnorePtr, cmp.IgnoreName = reflect.ValueOf(leaf).Pointer(), "Val"
	if !cmp.Equal(stmt, st2) {
		s3, _ := c13String(st2)
		c.rep.Violate(class, "statement with substituted value parses to a different structure at "+cmp.Path+" ("+cmp.Why+")",
			replay("after: "+after+"\nreparsed prints: "+s3))
	}
	return true, data, dclass
}

type leafRef struct {
	path   []int
	v      *sqlparser.SQLVal
	parent sqlparser.Expr
}

func collectLeaves(e, parent sqlparser.Expr, path []int, out *[]leafRef) {
	if v, ok := e.(*sqlparser.SQLVal); ok {
		if substEligible(v) {
			*out = append(*out, leafRef{append([]int{}, path...), v, parent})
		}
		return
	}
	for i, sl := range childSlots(e) {
		collectLeaves(*sl, e, append(path, i), out)
	}
}

func (c *c13) opSubst(g *xgen) {
	for try := 0; try < 20; try++ {
		text, e, sel, term, ok := c.genParsed(g)
		if !ok {
			return
		}
		var leaves []leafRef
		collectLeaves(e, nil, nil, &leaves)
		if len(leaves) == 0 {
			continue
		}
		lf := leaves[c.r.Intn(len(leaves))]
		if c.r.Intn(2) == 0 { // prefer a literal under a wrapper UpdateExpressionValue unwraps
			var wrapped []leafRef
			for _, l := range leaves {
				switch p := l.parent.(type) {
				case *sqlparser.ParenExpr:
					wrapped = append(wrapped, l)
				case *sqlparser.UnaryExpr:
					if p.Operator == sqlparser.UBinaryStr {
						wrapped = append(wrapped, l)
					}
				}
			}
			if len(wrapped) > 0 {
				lf = wrapped[c.r.Intn(len(wrapped))]
			}
		}
		target, tclass := sqlparser.Expr(lf.v), "leaf"
		switch p := lf.parent.(type) {
		case *sqlparser.ParenExpr:
			if c.r.Intn(3) != 0 {
				target, tclass = p, "via-paren"
			}
		case *sqlparser.UnaryExpr:
			if p.Operator == sqlparser.UBinaryStr && c.r.Intn(3) != 0 {
				target, tclass = p, "via-_binary"
			}
		}
		parent := "root"
		if lf.parent != nil {
			parent = goType(lf.parent)
		}
		changed, data, dclass := c.substitute(sel, target, lf.v, parent, fmt.Sprintf("path %v", lf.path), -1)
		if !changed {
			continue
		}
		term2, ok, why := c.exportExpr(e)
		if !ok {
			c.rep.Count("outside-fragment:" + why)
			return
		}
		ps := make([]string, len(lf.path))
		for i, p := range lf.path {
			ps[i] = strconv.Itoa(p)
		}
		path := "[]"
		if len(ps) > 0 {
			path = "(" + coqList(ps) + "%nat)"
		}
		c.rep.Count("OSubst:" + tclass)
		c.rep.Count("subst-parent:" + parent)
		c.add(fmt.Sprintf("subst %q path %v %s %s data=%s", text, lf.path, tclass, dclass, clip(hex.EncodeToString(data), 40)),
			fmt.Sprintf("(OSubst %s %s %s)", term, path, term2))
		return
	}
}

// substInStatement: the substitution oracle (no model case) on a corpus statement: any literal below INSERT rows,
// UPDATE SET expressions or a WHERE clause.
// which < 0: a random literal; dk < 0: a random data class. Returns the number of candidate literals.
func (c *c13) substInStatement(s string, which, dk int) int {
	st, err, pan := c.parse(s)
	if err != nil || pan != "" || st == nil {
		return 0
	}
	type cand struct {
		v      *sqlparser.SQLVal
		parent string
	}
	var cands []cand
	collect := func(root sqlparser.SQLNode) {
		sqlparser.Walk(func(n sqlparser.SQLNode) (bool, error) {
			if isNilNode(n) {
				return false, nil
			}
			if v, ok := n.(*sqlparser.SQLVal); ok && substEligible(v) {
				cands = append(cands, cand{v, ""})
			}
			return true, nil
		}, root)
	}
	sqlparser.Walk(func(n sqlparser.SQLNode) (bool, error) {
		if isNilNode(n) {
			return false, nil
		}
		switch x := n.(type) {
		case *sqlparser.Where:
			collect(x.Expr)
			return false, nil
		case sqlparser.Values:
			collect(x)
			return false, nil
		case sqlparser.UpdateExprs:
			collect(x)
			return false, nil
		}
		return true, nil
	}, st)
	if len(cands) == 0 {
		c.rep.Count("subst-corpus:no-literal")
		return 0
	}
	if which < 0 {
		which = c.r.Intn(len(cands))
	}
	if which >= len(cands) {
		return len(cands)
	}
	cd := cands[which]
	parent := parentTypeOf(st, cd.v)
	c.rep.Count("subst-corpus:" + parent)
	c.substitute(st, cd.v, cd.v, parent, "literal "+strconv.Quote(string(cd.v.Val))+" below "+parent, dk)
	return len(cands)
}

// parentTypeOf: name of the innermost sqlparser node type that holds target (reflective search).
func parentTypeOf(root interface{}, target *sqlparser.SQLVal) string {
	tp := reflect.ValueOf(target).Pointer()
	found := ""
	var walk func(v reflect.Value, node string, depth int) bool
	walk = func(v reflect.Value, node string, depth int) bool {
		if !v.IsValid() || depth > 200 {
			return false
		}
		switch v.Kind() {
		case reflect.Interface:
			if v.IsNil() {
				return false
			}
			return walk(v.Elem(), node, depth+1)
		case reflect.Ptr:
			if v.IsNil() {
				return false
			}
			if v.Pointer() == tp && v.Type().Elem().Name() == "SQLVal" {
				found = node
				return true
			}
			return walk(v.Elem(), node, depth+1)
		case reflect.Struct:
			n := node
			if v.Type().Name() != "" && strings.HasSuffix(v.Type().PkgPath(), "/sqlparser") {
				n = v.Type().Name()
			}
			for i := 0; i < v.NumField(); i++ {
				if walk(v.Field(i), n, depth+1) {
					return true
				}
			}
		case reflect.Slice, reflect.Array:
			n := node
			if v.Type().Name() != "" && strings.HasSuffix(v.Type().PkgPath(), "/sqlparser") {
				n = v.Type().Name()
			}
			for i := 0; i < v.Len(); i++ {
				if walk(v.Index(i), n, depth+1) {
					return true
				}
			}
		}
		return false
	}
	if walk(reflect.ValueOf(root), goType(root), 0) {
		return found
	}
	return "unknown"
}

// ---- string literal text ----

var c13EscBytes = []byte{0x00, '\'', '"', '\b', '\n', '\r', '\t', 0x1a, '\\', 'x', 'X', '\\', '\'', 'a', '0', 'Z', 'n', '%', '_', ' '}

func (c *c13) escValue() []byte {
	r := c.r
	n := r.Intn(41)
	if r.Intn(4) == 0 {
		n = r.Intn(5)
	}
	v := make([]byte, n)
	for i := range v {
		if r.Intn(4) == 0 {
			v[i] = byte(r.U64())
		} else {
			v[i] = c13EscBytes[r.Intn(len(c13EscBytes))]
		}
	}
	if n >= 2 && r.Intn(6) == 0 {
		v[0], v[1] = '\\', byte(r.Pick('x', 'X'))
	}
	return v
}

func encodeSQL(v []byte) []byte {
	buf := &bytes2.Buffer{}
	sqltypes.MakeTrusted(sqltypes.VarBinary, v).EncodeSQL(buf)
	return append([]byte{}, buf.Bytes()...)
}

// scanOne: ONE Scan() of the MySQL tokenizer over txt; for a string token the value and the text after it.
func (c *c13) scanOne(txt []byte) (val, rest []byte, ok bool, typ int) {
	defer func() {
		if r := recover(); r != nil {
			ok, typ = false, -1
		}
	}()
	tkn := sqlparser.NewStringTokenizerWithDialect(c.d, string(txt))
	typ, v := tkn.Scan()
	if typ != sqlparser.SINGLE_QUOTE_STRING {
		return nil, nil, false, typ
	}
	// Position counts consumed characters including the one look-ahead character (EOF counts once)
	p := tkn.Position - 1
	if p > len(txt) {
		p = len(txt)
	}
	return append([]byte{}, v...), append([]byte{}, txt[p:]...), true, typ
}

func (c *c13) opEsc() {
	v := c.escValue()
	var txt []byte
	o := vh.Guard(func() vh.Outcome { txt = encodeSQL(v); return vh.Ok() })
	if o.Kind == "panic" {
		c.rep.Violate("panic", "EncodeSQL panicked: "+o.Msg, hex.EncodeToString(v))
		return
	}
	c.rep.Count("OEsc")
	c.add(fmt.Sprintf("esc %s", clip(hex.EncodeToString(v), 60)), fmt.Sprintf("(OEsc %s %s)", vh.H(v), vh.H(txt)))
	// oracle: the tokenizer reads the literal back as exactly v, with nothing left over
	c.rep.OracleChecks++
	val, rest, ok, _ := c.scanOne(txt)
	if !ok || !bytes.Equal(val, v) || len(rest) != 0 {
		c.rep.Violate("escape-roundtrip", "EncodeSQL(v) is not tokenized back to v",
			fmt.Sprintf("v=%s text=%s scanned=%s ok=%v rest=%s", hex.EncodeToString(v), hex.EncodeToString(txt), hex.EncodeToString(val), ok, hex.EncodeToString(rest)))
	}
}

var c13ScanSoup = []string{"\\", "'", "''", "\\x", "\\X", "a", "x", "0", "n", "Z", "\"", "%", "\x00", "\xff", " ", "\\'", "\\\\", "b", "\\n", "\\0"}

func (c *c13) opScan() {
	r := c.r
	soup := func(n int, quotes bool) []byte {
		var b []byte
		for i := 0; i < n; i++ {
			p := c13ScanSoup[r.Intn(len(c13ScanSoup))]
			if !quotes && strings.Contains(p, "'") {
				continue
			}
			b = append(b, p...)
		}
		return b
	}
	var body []byte
	class := ""
	switch r.Intn(8) {
	case 0, 1:
		body = append(encodeSQL(c.escValue())[1:], soup(r.Intn(4), true)...)
		class = "encoded+suffix"
	case 2, 3, 4:
		if r.Bool() {
			body = append(body, c13ScanSoup[r.Pick(0, 1, 2, 3, 4, 3, 4)]...)
		}
		body = append(body, soup(1+r.Intn(12), true)...)
		if r.Intn(3) != 0 {
			body = append(body, '\'')
			body = append(body, soup(r.Intn(3), true)...)
		}
		class = "soup"
	case 5:
		body = soup(r.Intn(10), false)
		class = "unterminated"
	case 6:
		body = append(soup(r.Intn(8), r.Bool()), '\\')
		class = "ends-in-backslash"
	default:
		body = append(r.Bytes(r.Intn(12)), '\'')
		body = append(body, r.Bytes(r.Intn(3))...)
		class = "random-bytes"
	}
	txt := append([]byte{'\''}, body...)
	val, rest, ok, typ := c.scanOne(txt)
	res := "None"
	switch {
	case ok:
		res = fmt.Sprintf("(Some (%s, %s))", vh.H(val), vh.H(rest))
	case typ == sqlparser.LEX_ERROR:
	default:
		c.rep.Count("scan-skip:unexpected-token")
		return
	}
	c.rep.Count("OScan:" + class + ":" + map[bool]string{true: "some", false: "none"}[ok])
	c.add(fmt.Sprintf("scan %s %s", class, clip(hex.EncodeToString(txt), 60)), fmt.Sprintf("(OScan %s %s)", vh.H(txt), res))
}

// ---- the differential oracle: Parse -> String -> Parse ----

// minimalNonReparsable: Go type of the smallest expression of t whose printed form is not accepted back.
func (c *c13) minimalNonReparsable(t sqlparser.Statement) string {
	best, bestLen := "", 1<<30
	sqlparser.Walk(func(n sqlparser.SQLNode) (bool, error) {
		if isNilNode(n) {
			return false, nil
		}
		if e, ok := n.(sqlparser.Expr); ok {
			s, pan := c13String(e)
			if pan == "" && len(s) < bestLen {
				st, err, pan := c.parse("select (" + s + ") from t")
				bad := err != nil && pan == ""
				if !bad && pan == "" { // accepted, but as a different construct?
					if sel, ok := st.(*sqlparser.Select); ok && len(sel.SelectExprs) == 1 {
						if ae, ok := sel.SelectExprs[0].(*sqlparser.AliasedExpr); ok {
							if pe, ok := ae.Expr.(*sqlparser.ParenExpr); ok && goType(pe.Expr) != goType(e) {
								bad = true
							}
						}
					}
				}
				if bad {
					best, bestLen = goType(e), len(s)
				}
			}
		}
		return true, nil
	}, t)
	if best == "" {
		return goType(t)
	}
	return best
}

// roundTrip: the property's oracle on one accepted statement.
func (c *c13) roundTrip(s string, t1 sqlparser.Statement, origin string) {
	// C13 quantifies over data-manipulation statements (the ones acra re-serialises). DDL / SHOW / USE /
	// PREPARE ... are parsed only partially by this grammar by design and are never printed by acra.
	switch t1.(type) {
	case *sqlparser.Select, *sqlparser.Union, *sqlparser.ParenSelect, *sqlparser.Insert, *sqlparser.Update, *sqlparser.Delete:
	default:
		c.rep.Count("oracle-skip-not-DML:" + goType(t1))
		return
	}
	c.rep.OracleChecks++
	rp := func(extra string) string {
		return fmt.Sprintf("dialect: %s (%s)\ns : %s\n%s", c.dname(), origin, s, extra)
	}
	s2, pan := c13String(t1)
	if pan != "" {
		c.rep.Violate("panic", "String panicked on a parser-produced tree: "+pan, rp(""))
		return
	}
	t2, err, pan := c.parse(s2)
	if pan != "" {
		c.rep.Violate("panic", "Parse panicked on printed text: "+pan, rp("s2: "+s2))
		return
	}
	if err != nil {
		c.rep.Violate("roundtrip-reparse-error-"+c.minimalNonReparsable(t1), "printed statement is rejected by the parser: "+err.Error(), rp("s2: "+s2+"\nerror: "+err.Error()))
		return
	}
	cmp := c13Cmp()
	if !cmp.Equal(t1, t2) {
		s3, _ := c13String(t2)
		if c13CmpLoose().Equal(t1, t2) {
			c.rep.Violate("roundtrip-valarg-renamed", "named bind variable is printed as `?` and re-parsed as a positional one: "+cmp.Path+" ("+cmp.Why+")", rp("s2: "+s2+"\nString(t2): "+s3))
			return
		}
		c.rep.Violate("roundtrip-"+cmp.Node, "re-parsed tree differs at "+cmp.Path+" ("+cmp.Why+")", rp("s2: "+s2+"\nString(t2): "+s3))
		return
	}
	s3, pan := c13String(t2)
	if pan != "" || s3 != s2 {
		c.rep.Violate("roundtrip-string-unstable", "String(Parse(String(t))) differs from String(t)", rp("s2: "+s2+"\nString(t2): "+s3+pan))
	}
}

var c13InputRe = regexp.MustCompile("input:\\s*(\"(?:[^\"\\\\]|\\\\.)*\"|`[^`]*`)")

func c13Corpus() []string {
	src, err := os.ReadFile(repoRoot() + "/sqlparser/parse_test.go")
	if err != nil {
		return nil
	}
	seen := map[string]bool{}
	var out []string
	for _, m := range c13InputRe.FindAllStringSubmatch(string(src), -1) {
		s, err := strconv.Unquote(m[1])
		if err != nil || seen[s] || strings.TrimSpace(s) == "" {
			continue
		}
		seen[s] = true
		out = append(out, s)
	}
	return out
}

// statements aimed at places where the printer is known to take short cuts (always run, both dialects)
var c13Boundary = []string{
	"select a from t order by null desc",
	"select a from t order by rand() desc, b asc",
	"select :nm from t where a = :v3 and b = ?",
	"select `a b`(1) from t",
	"select `select`(1) from t",
	"select a.`b c`(1) from t",
	"select 1 from t where a = b collate `utf8 x`",
	"select `a``b`, `t``x`.c from `t``x`",
	"select 't'.a from 't'",
	"select - - a, - -1, -(-1), - - - 1, -+1, +-1, - -1.5, -0x10, ~-1, !-1, -~1, - - -a from t",
	"select x'4142' 'abc' from t",
	"select 1 from t where (a, b) = (1, 2) and (a) in ((1), (2))",
	`select 1 from t where a = '\x41\'' and b = 'a\\x' and c = '\\\\x' and d = '\\x41'`,
	"select \"a\"\"b\", \"it's\" from t",
	"select 1 from t where a = b = c",
	"select 1 from t where not a = b is null and not (a) is true",
	"select 1 from t where a between b and c and d between (e and f) and g",
	"select 1 from t where a like b escape c and d not like e escape 'x' or f",
	"select 1 from t where a - -1 = -a - 1 and a -1 = b and 2 - - 2 = - - 2",
	"select 1 from t where binary a = b and !a = b and ~a + b = c and -a * b = c and - a ^ b = c",
	"select 1 from t where a ^ b ^ c = a * b / c % d div e mod f and a | b & c << d >> e + f - g = 1",
	"select 1 from t where a in (1) and b in ((1)) and c in ((1, 2), (3, 4))",
	"select Date, Select.From, T.Key from Tbl",
	"select \"Abc\", \"a\"\"b\" from \"Tb\" where \"Tb\".\"Col\" = 1",
}

// statements whose every literal is substituted with every data class (MySQL dialect)
var c13BoundarySubst = []string{
	"select 1 from t where a = -5 collate utf8_bin and b = 5 collate utf8_bin and c = 'x' collate utf8_bin",
	"select 1 from t where -a - 5 = -(7) and ~3 = !4 and b = +'x' and c = -'y' and d = - 0x10 and e = binary 6 and f = _binary 8",
	"update t set a = 1, b = 'x', c = X'41', d = 0x41, e = _binary 'y', f = ('z') where g in (1, 'x') and h between 1 and 2 and i like 'p' escape '!'",
	"insert into t(a, b, c) values (1, 'x', X'41'), (-1, _binary 'y', (0x41)) on duplicate key update a = 2",
	"select 1 from t where a = b - interval 1 day and c = 5 mod 2 and d = 5 div 2 and e = 1 - 2 and f = 1 -2",
	"select 1 from t where a = case when b = 1 then 'x' else 2 end and c = f(1, 'y') and d = convert(3, char) and e is null",
	"delete from t where a = 1 and b = 'x' and c = (2) and d = ((3)) and e = _binary('z')",
}

type c13Pool struct {
	stmts  []string         // corpus statements the dialect accepts
	pieces []string         // String() of every expression sub-tree
	exprs  []sqlparser.Expr // fragment sub-trees (for OPrint)
}

var c13SpliceOps = []string{"and", "or", "=", "<", ">", "<=", ">=", "!=", "<=>", "+", "-", "*", "/", "div", "%", "&", "|", "^", "<<", ">>", "like"}

func (c *c13) splice(p *c13Pool) (string, string) {
	r := c.r
	pc := func() string {
		s := p.pieces[r.Intn(len(p.pieces))]
		if r.Intn(4) == 0 {
			return "(" + s + ")"
		}
		return s
	}
	op := c13SpliceOps[r.Intn(len(c13SpliceOps))]
	if r.Intn(5) == 0 { // further contexts an expression can be spliced into
		switch r.Intn(9) {
		case 0:
			return fmt.Sprintf("select %s as x from t group by %s having %s order by %s desc", pc(), pc(), pc(), pc()), "clauses"
		case 1:
			return fmt.Sprintf("select * from t join u on %s %s %s", pc(), op, pc()), "join-on"
		case 2:
			return fmt.Sprintf("select %s %s %s collate utf8_bin from t", pc(), op, pc()), "collate"
		case 3:
			return fmt.Sprintf("select cast(%s as char) from t", pc()), "cast"
		case 4:
			return fmt.Sprintf("select %s + interval %s day from t", pc(), pc()), "interval"
		case 5:
			u := []string{"!", "~", "binary ", "+", "not ", "_binary ", "- "}[r.Intn(7)]
			return fmt.Sprintf("select 1 from t where %s%s %s %s", u, pc(), op, pc()), "prefix-op"
		case 6:
			return fmt.Sprintf("insert into t(a) values (1) on duplicate key update a = %s", pc()), "on-dup"
		case 7:
			return fmt.Sprintf("select (select %s from u where %s) from t", pc(), pc()), "subquery"
		}
		return fmt.Sprintf("select 1 from t where %s like %s escape %s", pc(), pc(), pc()), "like-escape"
	}
	switch r.Intn(12) {
	case 0, 1:
		return fmt.Sprintf("select %s from t where %s %s %s", pc(), pc(), op, pc()), "binop"
	case 2:
		return fmt.Sprintf("select %s from t where %s %s (%s)", pc(), pc(), op, pc()), "binop-paren"
	case 3:
		return fmt.Sprintf("select 1 from t where not %s", pc()), "not"
	case 4:
		return fmt.Sprintf("select 1 from t where %s between %s and %s", pc(), pc(), pc()), "between"
	case 5:
		return fmt.Sprintf("select 1 from t where %s in (%s, %s)", pc(), pc(), pc()), "in"
	case 6:
		return fmt.Sprintf("select -%s from t", pc()), "neg"
	case 7:
		return fmt.Sprintf("select 1 from t where %s is null", pc()), "is-null"
	case 8:
		return fmt.Sprintf("select f(%s, %s) from t", pc(), pc()), "func"
	case 9:
		return fmt.Sprintf("select case when %s then %s else %s end from t", pc(), pc(), pc()), "case"
	case 10:
		return fmt.Sprintf("insert into t(a) values (%s)", pc()), "insert"
	}
	return fmt.Sprintf("update t set a = %s where %s", pc(), pc()), "update"
}

func runC13(rep *vh.Report, r *vh.Rng, n int, thorough bool) {
	// vh.NewRng(seed) starts the splitmix64 counter at seed*G+c, so consecutive seeds yield the SAME stream shifted
	// by one draw; re-seed from one (well mixed) draw so that different seeds give unrelated scenarios.
	r = vh.NewRng(r.U64())
	c := &c13{rep: rep, r: r}
	corpus := c13Corpus()
	rep.Count(fmt.Sprintf("corpus-inputs:%d", len(corpus)))
	if len(corpus) < 100 {
		rep.Violate("corpus-missing", "could not read the parser's test corpus", repoRoot()+"/sqlparser/parse_test.go")
	}

	// ---- 1. the parser's own corpus, both dialects ----
	pools := map[bool]*c13Pool{}
	for _, pg := range []bool{false, true} {
		c.use(pg)
		p := &c13Pool{}
		pools[pg] = p
		seenPiece := map[string]bool{}
		for ci, s := range append(append([]string{}, corpus...), c13Boundary...) {
			origin := "corpus"
			if ci >= len(corpus) {
				origin = "boundary"
			}
			t1, err, pan := c.parse(s)
			if pan != "" {
				rep.OracleChecks++
				rep.Violate("panic", "Parse panicked: "+pan, c.dname()+": "+s)
				continue
			}
			if err != nil || t1 == nil {
				rep.Count("corpus:rejected:" + c.dname())
				continue
			}
			rep.Count("corpus:accepted:" + c.dname())
			rep.Count("stmt:" + goType(t1))
			p.stmts = append(p.stmts, s)
			c.roundTrip(s, t1, origin)
			sqlparser.Walk(func(nd sqlparser.SQLNode) (bool, error) {
				if isNilNode(nd) {
					return false, nil
				}
				if e, ok := nd.(sqlparser.Expr); ok {
					if txt, pan := c13String(e); pan == "" && len(txt) > 0 && len(txt) <= 80 && !seenPiece[txt] {
						seenPiece[txt] = true
						p.pieces = append(p.pieces, txt)
					}
					if _, ok, _ := c.exportExpr(e); ok {
						p.exprs = append(p.exprs, e)
					}
				}
				return true, nil
			}, t1)
		}
		rep.Count(fmt.Sprintf("pieces:%s:%d", c.dname(), len(p.pieces)))
	}

	// ---- 2. substitution oracle on corpus statements (MySQL coder => MySQL dialect) ----
	c.use(false)
	for _, s := range pools[false].stmts {
		c.substInStatement(s, -1, -1)
	}
	for _, s := range c13BoundarySubst { // every literal x every data class
		for i, n := 0, 1; i < n; i++ {
			for k := 0; k < 9; k++ {
				n = c.substInStatement(s, i, k)
			}
		}
	}

	// ---- 3. splices (bulk of n) ----
	accepted := 0
	for i := 0; i < 6*n && accepted < 2*n; i++ {
		pg := r.Intn(3) == 0
		c.use(pg)
		p := pools[pg]
		if len(p.pieces) == 0 {
			break
		}
		s, class := c.splice(p)
		t1, err, pan := c.parse(s)
		if pan != "" {
			rep.OracleChecks++
			rep.Violate("panic", "Parse panicked: "+pan, c.dname()+": "+s)
			continue
		}
		if err != nil || t1 == nil {
			rep.Count("splice:" + class + ":rejected")
			continue
		}
		rep.Count("splice:" + class + ":accepted:" + c.dname())
		accepted++
		c.roundTrip(s, t1, "splice-"+class)
		if !pg && r.Intn(3) == 0 {
			c.substInStatement(s, -1, -1)
		}
	}

	// ---- 4. model cases ----
	g := &xgen{r: r}
	pickDialect := func() { c.use(r.Intn(6) == 0) }
	quota := func(target int, f func()) {
		start := len(rep.Cases)
		for i := 0; i < 8*target && len(rep.Cases)-start < target; i++ {
			f()
		}
	}
	quota(n*5/8, func() { // OPrint
		pickDialect()
		if p := pools[c.pg]; r.Intn(2) == 0 && len(p.exprs) > 0 {
			c.opPrintOf(p.exprs[r.Intn(len(p.exprs))], "corpus")
			return
		}
		if _, e, _, _, ok := c.genParsed(g); ok {
			c.opPrintOf(e, "generated")
		}
	})
	quota(n*7/8, func() { pickDialect(); c.opParse(g) })
	quota(n*5/8, func() { pickDialect(); c.opWf(g) })
	c.use(false)
	gl := &xgen{r: r, lit: true}
	quota(n*3/8, func() { c.opSubst(gl) })
	quota(n/4, func() { c.opEsc() })
	quota(n*3/8, func() { c.opScan() })
	if thorough { // finite enumeration: every fragment sub-expression of the corpus through the printer model
		for _, pg := range []bool{false, true} {
			c.use(pg)
			seen := map[string]bool{}
			for _, e := range pools[pg].exprs {
				if txt, pan := c13String(e); pan == "" && !seen[txt] {
					seen[txt] = true
					c.opPrintOf(e, "corpus-all")
				}
			}
		}
	}
	c.use(false)
}
