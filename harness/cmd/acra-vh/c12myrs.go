package main

// c12myrs.go (domain c12my, C12): WHOLE MySQL result sets through the real proxy (ProxyDatabaseConnection ->
// QueryResponseHandler) on the in-process rig harness/myrig/c12my_rig.go (scripted raw back end).
// Enumerated on every run (independent of -n): protocol (text = COM_QUERY, binary = COM_STMT_PREPARE +
// COM_STMT_EXECUTE) x client capability CLIENT_DEPRECATE_EOF off/on x terminator form (EOF_Packet of 5 bytes; OK_Packet
// with the 0xfe header of 7 bytes, with an info string / session-state data that make it 8, 9, 16, 250, 251, 258, 261,
// 65535, 65536, 70000 bytes; ERR_Packet after the rows) x result shapes (column counts 1..12, no rows, NULL / empty /
// 250 / 251 / 65536-byte first columns; thorough tier: a first column of 2^24 bytes, i.e. a row that starts with the
// 0xfe length prefix, and a terminator of MaxPayloadLen-1 bytes).
// No column of the result sets is protected: every packet the database sends must reach the client byte-for-byte
// and in order (oracle class mysql-resultset-relay). Every terminator and every row packet of at most 300 bytes is
// also classified through the replayed op MxClassify (class mysql-packet-classification).

import (
	"bytes"
	"fmt"
	"sync"
	"time"

	acracensor "github.com/cossacklabs/acra/acra-censor"
	"github.com/sirupsen/logrus"

	"acra-vh/myrig"
	"acra-vh/vh"
)

type c12myrsTerm struct {
	name    string
	payload []byte
	rowsEnd int // expected isResultSetRowsEnd (1), or 0 for ERR
}

// c12myrsLenencOfTotal: a canonical length-encoded string that occupies exactly t bytes (nil if none exists).
func c12myrsLenencOfTotal(t int, fill byte) []byte {
	mk := func(n int) []byte { return bytes.Repeat([]byte{fill}, n) }
	switch {
	case t >= 1 && t-1 <= 250:
		return refLenencStr(mk(t - 1))
	case t-3 >= 251 && t-3 <= 0xffff:
		return refLenencStr(mk(t - 3))
	case t-4 >= 0x10000 && t-4 <= 0xffffff:
		return refLenencStr(mk(t - 4))
	}
	return nil
}

// c12myrsOK: OK_Packet with the 0xfe header of exactly `total` (>= 7) bytes: affected_rows 0, last_insert_id 0,
// status, warnings 0, then an info string, or (session) an empty info string and session-state data.
func c12myrsOK(total int, session bool) []byte {
	status := []byte{0x02, 0x00}
	if session {
		status = []byte{0x02, 0x40} // SERVER_STATUS_AUTOCOMMIT | SERVER_SESSION_STATE_CHANGED
	}
	p := cat([]byte{0xfe, 0x00, 0x00}, status, []byte{0x00, 0x00})
	if total == 7 {
		return p
	}
	if !session {
		s := c12myrsLenencOfTotal(total-7, 'i')
		if s == nil {
			return nil
		}
		return cat(p, s)
	}
	s := c12myrsLenencOfTotal(total-8, 0x01)
	if s == nil {
		return nil
	}
	return cat(p, []byte{0x00}, s)
}

func c12myrsTerminators(depEOF, thorough bool) []c12myrsTerm {
	errp := c12myrsTerm{"ERR packet", cat([]byte{0xff, 0x25, 0x05}, []byte("#70100Query execution was interrupted")), 0}
	if !depEOF {
		return []c12myrsTerm{
			{"EOF packet (5 bytes)", []byte{0xfe, 0x00, 0x00, 0x02, 0x00}, 1},
			{"EOF packet (5 bytes, warnings, status)", []byte{0xfe, 0x03, 0x00, 0x22, 0x00}, 1},
			errp,
		}
	}
	var out []c12myrsTerm
	totals := []int{7, 8, 9, 16, 250, 251, 258, 261, 65535, 65536, 70000}
	if thorough {
		totals = append(totals, 1<<24-2)
	}
	for _, t := range totals {
		if p := c12myrsOK(t, false); p != nil {
			out = append(out, c12myrsTerm{fmt.Sprintf("OK packet with header 0xfe, %d bytes (info string)", t), p, 1})
		}
		if t >= 9 {
			if p := c12myrsOK(t, true); p != nil {
				out = append(out, c12myrsTerm{fmt.Sprintf("OK packet with header 0xfe, %d bytes (session state)", t), p, 1})
			}
		}
	}
	return append(out, errp)
}

type c12myrsShape struct {
	name string
	cols int
	rows [][][]byte // cell nil = NULL
	huge bool
}

func c12myrsShapes(thorough bool) []c12myrsShape {
	v := func(n int, b byte) []byte { return bytes.Repeat([]byte{b}, n) }
	var many [][][]byte
	for i := 0; i < 40; i++ {
		many = append(many, [][]byte{[]byte(fmt.Sprintf("%d", i)), v(i*7%60, 'm')})
	}
	wide := make([][]byte, 12)
	wideNull := make([][]byte, 12)
	for i := range wide {
		wide[i] = v(i, 'w')
	}
	shapes := []c12myrsShape{
		{"1 column, no rows", 1, nil, false},
		{"1 column: value, empty string, NULL", 1, [][][]byte{{[]byte("42")}, {{}}, {nil}}, false},
		{"3 columns: NULL / empty / 250 / 251 / 65536-byte first column", 3, [][][]byte{
			{nil, []byte("a"), nil}, {{}, nil, []byte("b")}, {v(250, 'x'), {}, {}}, {v(251, 'y'), []byte("c"), nil},
			{v(65536, 'z'), nil, v(300, 'q')}, {nil, nil, nil}}, false},
		{"2 columns, 40 rows", 2, many, false},
		{"12 columns: all values, all NULL", 12, [][][]byte{wide, wideNull}, false},
	}
	if thorough {
		shapes = append(shapes, c12myrsShape{"2 columns: first column of 2^24 bytes (row starts with 0xfe)", 2, [][][]byte{{[]byte("k"), nil}, {v(1<<24, 'H'), []byte("t")}}, true})
	}
	return shapes
}

func c12myrsTextRow(cells [][]byte) []byte {
	var p []byte
	for _, c := range cells {
		if c == nil {
			p = append(p, 0xfb)
		} else {
			p = append(p, refLenencStr(c)...)
		}
	}
	return p
}

func c12myrsBinRow(cells [][]byte) []byte {
	bm := make([]byte, (len(cells)+7+2)/8)
	var vals []byte
	for i, c := range cells {
		if c == nil {
			bm[(i+2)/8] |= 1 << uint((i+2)%8)
		} else {
			vals = append(vals, refLenencStr(c)...)
		}
	}
	return cat([]byte{0x00}, bm, vals)
}

// c12myrsResult: the packets of one result set (column count, definitions, [EOF], rows, terminator)
func c12myrsResult(sh c12myrsShape, depEOF, binary bool, term []byte) (pkts [][]byte, rowPkts [][]byte) {
	pkts = append(pkts, refLenencInt(uint64(sh.cols)))
	for i := 0; i < sh.cols; i++ {
		pkts = append(pkts, myrig.C12myPackField("plain_t", fmt.Sprintf("c%d", i), myrig.TypeVarString, 45, 0))
	}
	if !depEOF {
		pkts = append(pkts, []byte{0xfe, 0x00, 0x00, 0x02, 0x00})
	}
	for _, row := range sh.rows {
		var p []byte
		if binary {
			p = c12myrsBinRow(row)
		} else {
			p = c12myrsTextRow(row)
		}
		pkts = append(pkts, p)
		rowPkts = append(rowPkts, p)
	}
	return append(pkts, term), rowPkts
}

func c12myrsHead(b []byte) string {
	if len(b) <= 96 {
		return fmt.Sprintf("%x", b)
	}
	return fmt.Sprintf("%x...(%d bytes)", b[:96], len(b))
}

func c12myResultSets(w *c12myOps, r *vh.Rng, thorough bool) {
	rep := w.rep
	logrus.SetLevel(logrus.PanicLevel)
	ks := vh.NewMemKeystore()
	ks.Clients["client_a"] = vh.NewKeySet(r, 1, 1, true)
	enc := []byte("schemas:\n  - table: other_table\n    columns: [id, secret]\n    encrypted:\n      - column: secret\n  - table: plain_t\n    columns: [c0, c1, c2, c3, c4, c5, c6, c7, c8, c9, c10, c11]\n")
	rig, err := myrig.C05myNew(ks, enc, acracensor.NewAcraCensor())
	if err != nil {
		rep.Violate("harness-error", "c12my result-set rig: "+err.Error(), "")
		return
	}
	var mu sync.Mutex
	var current [][]byte
	answer := func(cmd []byte) [][]byte {
		mu.Lock()
		defer mu.Unlock()
		a := current
		current = nil
		return a
	}
	reported := 0
	classified := map[string]bool{}
	classify := func(what string, p []byte, wantRowsEnd int) {
		if len(p) > 300 || classified[string(p)] {
			return
		}
		classified[string(p)] = true
		o := w.Classify("rs classify "+what, c12myHdr(len(p), byte(len(classified))), p)
		rep.OracleChecks++
		if o.Kind != "ok" || int(o.Vals[0][3]) != wantRowsEnd {
			rep.Violate("mysql-packet-classification", fmt.Sprintf("%s: isResultSetRowsEnd = %s, wanted %d", what, o.String(), wantRowsEnd), fmt.Sprintf("payload=%x", p))
		}
	}
	for _, binary := range []bool{false, true} {
		for _, depEOF := range []bool{false, true} {
			var s *myrig.C05mySession
			stmtID := uint32(0)
			// exchange sends one command and reads its answer; ok=false: the session is gone
			exchange := func(lab string, cmd []byte, pkts [][]byte) bool {
				relayClass := "mysql-resultset-relay"
				if n := len(pkts); n > 2 && len(pkts[n-1]) > 0 && pkts[n-1][0] == 0xff {
					relayClass = "mysql-resultset-relay-err-after-rows" // the rows end with an ERR_Packet
				}
				mu.Lock()
				current = pkts
				mu.Unlock()
				before, _ := s.C12myClientRead(0)
				s.Send(0, cmd)
				got := 0
				alive := true
				for got < len(pkts) {
					if _, ok := s.Recv(); !ok {
						alive = false
						break
					}
					got++
				}
				_, recv := s.C12myClientRead(before)
				want := myrig.C12myFrames(1, pkts)
				rep.OracleChecks++
				if !alive || !bytes.Equal(recv, want) || len(s.Pending()) > 0 {
					if reported < 12 {
						var ps []string
						for _, p := range pkts {
							ps = append(ps, c12myrsHead(p))
						}
						rep.Violate(relayClass, fmt.Sprintf("%s: the client did not receive the database's answer byte-for-byte (packets received %d of %d, bytes received %d of %d, connection alive=%v, proxy error %q, panic %q)",
							lab, got, len(pkts), len(recv), len(want), alive, s.ProxyErr(), s.Panic()),
							fmt.Sprintf("%s command=%x CLIENT_DEPRECATE_EOF=%v database packets (payloads, sequence ids from 1)=%v client received=%s", lab, cmd, depEOF, ps, c12myrsHead(recv)))
					}
					reported++
					return false
				}
				return true
			}
			open := func() bool {
				var err error
				s, err = rig.C12myOpen([]byte("client_a"), depEOF, answer)
				if err != nil {
					rep.Violate("harness-error", "c12my result-set session: "+err.Error(), "")
					return false
				}
				s.Timeout = 60 * time.Second // a closed connection is noticed at once; the limit only guards against a hang
				return true
			}
			prepare := func(cols int) bool {
				stmtID++
				sql := "select c0"
				for i := 1; i < cols; i++ {
					sql += fmt.Sprintf(", c%d", i)
				}
				sql += " from plain_t"
				pk := [][]byte{cat([]byte{0x00}, c12myLe(4, uint64(stmtID)), c12myLe(2, uint64(cols)), []byte{0, 0, 0, 0, 0})}
				for i := 0; i < cols; i++ {
					pk = append(pk, myrig.C12myPackField("plain_t", fmt.Sprintf("c%d", i), myrig.TypeVarString, 45, 0))
				}
				if !depEOF {
					pk = append(pk, []byte{0xfe, 0x00, 0x00, 0x02, 0x00})
				}
				rep.Count("rs:prepare")
				return exchange(fmt.Sprintf("COM_STMT_PREPARE %q", sql), cat([]byte{0x16}, []byte(sql)), pk)
			}
			if !open() {
				continue
			}
			for _, sh := range c12myrsShapes(thorough) {
				for ti, tm := range c12myrsTerminators(depEOF, thorough) {
					if sh.huge && ti%6 != 1 { // 16 MiB rows: every sixth terminator form (keeps the thorough tier in minutes)
						continue
					}
					proto := "text"
					if binary {
						proto = "binary"
					}
					lab := fmt.Sprintf("%s result set, CLIENT_DEPRECATE_EOF=%v, %s, terminator %s", proto, depEOF, sh.name, tm.name)
					rep.Count("rs:" + proto + fmt.Sprintf(":depeof=%v", depEOF))
					rep.Count("rs:term:" + tm.name)
					pkts, rowPkts := c12myrsResult(sh, depEOF, binary, tm.payload)
					classify(tm.name, tm.payload, tm.rowsEnd)
					if !binary {
						for _, p := range rowPkts {
							classify("text row", p, 0)
						}
					}
					ok := true
					if s == nil {
						ok = open()
					}
					var cmd []byte
					if ok && binary {
						ok = prepare(sh.cols)
						cmd = cat([]byte{0x17}, c12myLe(4, uint64(stmtID)), []byte{0x00, 0x01, 0x00, 0x00, 0x00})
					} else {
						sql := "select c0"
						for i := 1; i < sh.cols; i++ {
							sql += fmt.Sprintf(", c%d", i)
						}
						cmd = cat([]byte{0x03}, []byte(sql+" from plain_t"))
					}
					if ok {
						ok = exchange(lab, cmd, pkts)
					}
					if !ok && s != nil {
						s.Shutdown()
						s = nil
						stmtID = 0
					}
				}
			}
			if s != nil {
				s.Quit()
			}
		}
	}
	if reported > 12 {
		rep.Count(fmt.Sprintf("rs:violations-not-listed=%d", reported-12))
	}
}
