package main

import (
	"bytes"
	"context"
	"encoding/hex"
	"errors"
	"fmt"

	"acra-vh/vh"

	"github.com/cossacklabs/acra/cmd/acra-translator/common"
	"github.com/cossacklabs/acra/crypto"
	"github.com/cossacklabs/acra/decryptor/base"
	"github.com/cossacklabs/acra/poison"
	"github.com/cossacklabs/themis/gothemis/core"
)

func init() { register("c15", "Model.RunPoison", runC15) }

// countingCallback is what the harness registers in the real poison.CallbackStorage.
type countingCallback struct {
	n         int
	delivered *bool // set by the harness when the operation has returned
	late      bool  // a call that happened after delivery
	fail      bool
}

func (c *countingCallback) Call() error {
	c.n++
	if *c.delivered {
		c.late = true
	}
	if c.fail {
		return errors.New("callback failed")
	}
	return nil
}

type PoisonOps struct {
	rep *vh.Report
	r   *vh.Rng
}

func coqBool(b bool) string {
	if b {
		return "true"
	}
	return "false"
}

func coqPK(m *vh.MemKeystore) string {
	var privs [][]byte
	for _, s := range m.PoisonSeeds {
		p, _ := core.KeyPair(s)
		privs = append(privs, p)
	}
	return fmt.Sprintf("(mk_pk %s %s)", vh.HL(privs), vh.HL(m.PoisonSyms))
}

// c15CallbackStorage builds the real callback storage: hasCb=false gives a storage without callbacks
func c15CallbackStorage(hasCb, fail bool, delivered *bool) (*poison.CallbackStorage, *countingCallback) {
	st := poison.NewCallbackStorage()
	cb := &countingCallback{delivered: delivered, fail: fail}
	if hasCb {
		st.AddCallback(cb)
	}
	return st, cb
}

func evOutcome(cb *countingCallback, err error, vals ...[]byte) vh.Outcome {
	if err != nil {
		return vh.Ok(n8(cb.n), []byte{1})
	}
	return vh.Ok(append([][]byte{n8(cb.n), {0}}, vals...)...)
}

// Create: real poison.CreatePoisonRecord / CreateSymmetricPoisonRecord under the keystore's current poison key
func (p *PoisonOps) Create(label string, m *vh.MemKeystore, sym bool, n int) vh.Outcome {
	t := vh.StartTape(p.r)
	o := vh.Guard(func() vh.Outcome {
		if sym {
			return one(poison.CreateSymmetricPoisonRecord(vh.PoisonStore{MemKeystore: m}, n))
		}
		return one(poison.CreatePoisonRecord(vh.PoisonStore{MemKeystore: m}, n))
	})
	vh.StopTape()
	if len(t.Chunks) == 0 {
		return o
	}
	if sym {
		p.rep.Add(label, fmt.Sprintf("PoisonCreateSym %s %s %s", vh.H(m.PoisonSyms[0]), vh.H(t.Chunks[0]), vh.HL(t.Chunks[1:])), o)
	} else {
		_, pub := core.KeyPair(m.PoisonSeeds[0])
		p.rep.Add(label, fmt.Sprintf("PoisonCreate %s %s %s", vh.H(pub), vh.H(t.Chunks[0]), vh.HL(t.Chunks[1:])), o)
	}
	return o
}

// Column: the detector chain exactly as proxyFactory.New builds it (poison detector first, then the decrypt handler)
func (p *PoisonOps) Column(label string, m *vh.MemKeystore, ks *vh.KeySet, hasCb, fail bool, col []byte) (vh.Outcome, *countingCallback) {
	delivered := false
	st, cb := c15CallbackStorage(hasCb, fail, &delivered)
	rh := crypto.NewRegistryHandler(m)
	det := crypto.NewEnvelopeDetector()
	if st != nil && st.HasCallbacks() {
		pd := crypto.NewPoisonRecordsRecognizer(m, rh)
		pd.SetPoisonRecordCallbacks(st)
		det.AddCallback(pd)
	}
	det.AddCallback(crypto.NewDecryptHandler(m, rh))
	o := vh.Guard(func() vh.Outcome {
		ctx, out, err := det.OnColumn(clientCtx(), append([]byte{}, col...))
		delivered = true
		f := byte(0)
		if base.IsDecryptedFromContext(ctx) {
			f = 1
		}
		return evOutcome(cb, err, out, []byte{f})
	})
	p.rep.Add(label, fmt.Sprintf("PoisonColumn %s %s %s %s %s", coqBool(hasCb), coqBool(fail), coqPK(m), ks.Coq(), vh.H(col)), o)
	return o, cb
}

// Detect: PoisonRecordDetector.OnCryptoEnvelope on one container
func (p *PoisonOps) Detect(label string, m *vh.MemKeystore, hasCb, fail bool, container []byte) (vh.Outcome, *countingCallback) {
	delivered := false
	st, cb := c15CallbackStorage(hasCb, fail, &delivered)
	pd := crypto.NewPoisonRecordsRecognizer(m, crypto.NewRegistryHandler(m))
	pd.SetPoisonRecordCallbacks(st)
	o := vh.Guard(func() vh.Outcome {
		out, err := pd.OnCryptoEnvelope(clientCtx(), append([]byte{}, container...))
		delivered = true
		return evOutcome(cb, err, out)
	})
	p.rep.Add(label, fmt.Sprintf("PoisonDetect %s %s %s %s", coqBool(hasCb), coqBool(fail), coqPK(m), vh.H(container)), o)
	return o, cb
}

// Translator: TranslatorService.Decrypt / DecryptSym with poison callbacks configured
func (p *PoisonOps) Translator(label string, id byte, m *vh.MemKeystore, ks *vh.KeySet, hasCb, fail bool, data []byte) (vh.Outcome, *countingCallback) {
	delivered := false
	st, cb := c15CallbackStorage(hasCb, fail, &delivered)
	svc, err := common.NewTranslatorService(&common.TranslatorData{Keystorage: m, PoisonRecordCallbacks: st})
	if err != nil {
		panic(err)
	}
	o := vh.Guard(func() vh.Outcome {
		var out []byte
		var err error
		if id == crypto.AcraStructEnvelopeID {
			out, err = svc.Decrypt(context.Background(), append([]byte{}, data...), []byte(clientID), nil)
		} else {
			out, err = svc.DecryptSym(context.Background(), append([]byte{}, data...), []byte(clientID), nil)
		}
		delivered = true
		return evOutcome(cb, err, out)
	})
	p.rep.Add(label, fmt.Sprintf("PoisonTranslator %s %s %s %s %s %s", vh.H([]byte{id}), ks.Coq(), coqBool(hasCb), coqBool(fail), coqPK(m), vh.H(data)), o)
	return o, cb
}

// tagFree: random bytes without '%' (a quiet prefix), or with some (resynchronisation)
func genAround(r *vh.Rng, quiet bool) []byte {
	b := r.Bytes(r.Intn(40))
	for i := range b {
		if b[i] == '%' && (quiet || r.Intn(3) != 0) {
			b[i] = '$'
		}
	}
	if !quiet && len(b) > 0 && r.Bool() {
		b[len(b)-1] = '%'
	}
	return b
}

// runC15: poison records under every key of a poison-key history, embedded in column bytes and passed to the
// translator; negatives: random bytes, client envelopes, truncated and bit-flipped poison records.
// Oracle (independent of the model): positives: callbacks ran (>= 1) and none after delivery; negatives: 0 runs.
func runC15(rep *vh.Report, r *vh.Rng, n int, thorough bool) {
	p := &PoisonOps{rep, r}
	e := &EnvOps{rep: vh.NewReport("scratch", 0), r: r} // client envelopes (ops recorded elsewhere: C01)
	flippedAll := false
	for sc := 0; sc < n; sc++ {
		// poison key history: keys[0] newest. Records are made at different moments of that history.
		nAsym, nSym := 1+r.Intn(3), 1+r.Intn(3)
		var seeds, syms [][]byte
		for i := 0; i < nAsym; i++ {
			seeds = append(seeds, r.Bytes(32))
		}
		for i := 0; i < nSym; i++ {
			syms = append(syms, r.Bytes(32))
		}
		client := vh.NewKeySet(r, 1+r.Intn(2), 1+r.Intn(2), false)
		full := vh.NewMemKeystore()
		full.Clients[clientID] = client
		full.PoisonSeeds, full.PoisonSyms = seeds, syms
		sym := r.Bool()
		// the moment the record was made: key index k was the current one
		k := r.Intn(nAsym)
		if sym {
			k = r.Intn(nSym)
		}
		then := vh.NewMemKeystore()
		then.PoisonSeeds, then.PoisonSyms = seeds, syms
		if sym {
			then.PoisonSyms = syms[k:]
		} else {
			then.PoisonSeeds = seeds[k:]
		}
		dlen := r.Pick(1, 2, 16, 99, 100, 1+r.Intn(200))
		lab := fmt.Sprintf("sc%d sym=%v keyindex=%d/%d datalen=%d", sc, sym, k, map[bool]int{true: nSym, false: nAsym}[sym], dlen)
		rep.Count(fmt.Sprintf("record:sym=%v", sym))
		rep.Count(fmt.Sprintf("key:%s", map[bool]string{true: "current", false: "rotated"}[k == 0]))
		rec := p.Create(lab+" create", then, sym, dlen)
		rep.OracleChecks++
		if rec.Kind != "ok" {
			rep.Violate("create", "poison record creation failed: "+rec.String(), lab)
			continue
		}
		v := rec.Vals[0]
		hasCb := r.Intn(8) != 0
		fail := hasCb && r.Intn(8) == 0
		positive := func(what string, o vh.Outcome, cb *countingCallback, replay string) {
			rep.OracleChecks++
			switch {
			case o.Kind == "panic":
				rep.Violate("panic", what+" panicked: "+o.Msg, replay)
			case hasCb && cb.n < 1:
				rep.Violate("missed-poison", what+": poison record did not trigger the callbacks", replay)
			case cb.late:
				rep.Violate("late-callback", what+": callbacks ran after the value was delivered", replay)
			case !hasCb && cb.n != 0:
				rep.Violate("callbacks-off", what+": callback ran although none configured", replay)
			}
		}
		negative := func(class, what string, o vh.Outcome, cb *countingCallback, replay string) {
			rep.OracleChecks++
			if o.Kind == "panic" {
				rep.Violate("panic", what+" panicked: "+o.Msg, replay)
			} else if cb.n != 0 {
				rep.Violate(class, what+": callbacks ran on data that is no poison record", replay)
			}
		}
		// --- positive: embedded in a column
		quiet := r.Intn(4) != 0
		pre, suf := genAround(r, quiet), genAround(r, false)
		col := append(append(append([]byte{}, pre...), v...), suf...)
		rep.Count(fmt.Sprintf("prefix-quiet:%v", quiet))
		rep.Count(fmt.Sprintf("callbacks:%v fail:%v", hasCb, fail))
		o, cb := p.Column(lab+fmt.Sprintf(" column offset=%d", len(pre)), full, client, hasCb, fail, col)
		positive("column", o, cb, lab+" col="+hex.EncodeToString(col))
		if !hasCb { // detector absent: identical to the plain chain of C01
			plain := e.OnColumn("plain", client, col)
			rep.OracleChecks++
			if o.Kind != "ok" || plain.Kind != "ok" || len(o.Vals) != 4 || !bytes.Equal(o.Vals[2], plain.Vals[0]) {
				rep.Violate("callbacks-off", "output differs from the chain without detector", lab)
			}
		}
		if sc%3 == 0 {
			od, cbd := p.Detect(lab+" OnCryptoEnvelope", full, hasCb, fail, v)
			positive("OnCryptoEnvelope", od, cbd, lab+" v="+hex.EncodeToString(v))
		}
		// --- positive: translator, both operations, record alone or inside other bytes
		tid := byte(crypto.AcraStructEnvelopeID)
		if r.Bool() {
			tid = crypto.AcraBlockEnvelopeID
		}
		tdata := v
		if r.Intn(3) == 0 {
			tdata = col
		}
		ot, cbt := p.Translator(lab+fmt.Sprintf(" translator id=%02x", tid), tid, full, client, hasCb, fail, tdata)
		positive("translator", ot, cbt, lab+" data="+hex.EncodeToString(tdata))
		rep.OracleChecks++
		if ot.Kind == "ok" && len(ot.Vals) > 1 && ot.Vals[1][0] == 0 {
			rep.Violate("poison-delivered", "translator returned a value for a poison record", lab)
		}
		// --- negatives (callbacks always configured here)
		hasCbSaved, failSaved := hasCb, fail
		hasCb, fail = true, false
		// record under a poison key the keystore no longer has
		gone := vh.NewMemKeystore()
		gone.Clients[clientID] = client
		gone.PoisonSeeds, gone.PoisonSyms = [][]byte{r.Bytes(32)}, [][]byte{r.Bytes(32)}
		if r.Intn(4) == 0 { // no poison keys at all: ErrKeysNotFound path
			gone.PoisonSeeds, gone.PoisonSyms = nil, nil
			rep.Count("negative:no-poison-keys")
		}
		o, cb = p.Column(lab+" foreign-key record", gone, client, true, false, col)
		negative("false-alarm-foreign-key", "record under unknown key", o, cb, lab)
		// random bytes
		rnd := r.Bytes(r.Intn(300))
		if r.Bool() && len(rnd) > 16 {
			copy(rnd[r.Intn(len(rnd)-12):], "%%%")
		}
		o, cb = p.Column(lab+" random bytes", full, client, true, false, rnd)
		negative("false-alarm-random", "random bytes", o, cb, "col="+hex.EncodeToString(rnd))
		// a valid client envelope
		cid := byte(crypto.AcraStructEnvelopeID)
		if r.Bool() {
			cid = crypto.AcraBlockEnvelopeID
		}
		ce := e.EncHandler("client envelope", cid, client, r.Bytes(1+r.Intn(60)))
		if ce.Kind == "ok" {
			ccol := append(append(append([]byte{}, pre...), ce.Vals[0]...), suf...)
			o, cb = p.Column(lab+" client envelope", full, client, true, false, ccol)
			negative("false-alarm-client-envelope", "client envelope", o, cb, "col="+hex.EncodeToString(ccol))
			ot, cbt = p.Translator(lab+" translator client envelope", cid, full, client, true, false, ce.Vals[0])
			negative("false-alarm-client-envelope", "translator client envelope", ot, cbt, "data="+hex.EncodeToString(ce.Vals[0]))
			// the other operation cannot decrypt it and goes through the poison check
			ot, cbt = p.Translator(lab+" translator client envelope (other op)", cid^1, full, client, true, false, ce.Vals[0])
			negative("false-alarm-client-envelope", "translator client envelope, other operation", ot, cbt, "data="+hex.EncodeToString(ce.Vals[0]))
		}
		// truncated record (alone, and followed by other bytes so that the declared length still fits)
		cut := 1 + r.Intn(min(len(v)-1, 40))
		tr := append([]byte{}, v[:len(v)-cut]...)
		if r.Bool() {
			tr = append(tr, r.Bytes(cut+r.Intn(8))...)
		}
		o, cb = p.Column(lab+fmt.Sprintf(" truncated by %d", cut), full, client, true, false, append(append([]byte{}, pre...), tr...))
		negative("false-alarm-truncated", "truncated poison record", o, cb, "data="+hex.EncodeToString(tr))
		// bit flips: one random bit (every bit of one sample in the thorough tier). A flip inside the 12-byte
		// container header leaves the inner envelope intact, which the detector may still find in its raw form:
		// not a damaged record, so the oracle does not decide those.
		flip := func(bit int) {
			fl := append([]byte{}, v...)
			fl[bit/8] ^= 1 << (bit % 8)
			var o vh.Outcome
			var cb *countingCallback
			if r.Bool() {
				o, cb = p.Column(lab+fmt.Sprintf(" bit %d flipped", bit), full, client, true, false, append(append([]byte{}, pre...), fl...))
			} else {
				o, cb = p.Translator(lab+fmt.Sprintf(" translator bit %d flipped", bit), tid, full, client, true, false, fl)
			}
			if bit/8 < crypto.SerializedContainerMinSize {
				rep.Count("flip-in-container-header(undecided)")
				return
			}
			negative("false-alarm-bitflip", fmt.Sprintf("poison record with bit %d flipped", bit), o, cb, "data="+hex.EncodeToString(fl))
		}
		flip(r.Intn(len(v) * 8))
		flip(r.Intn(len(v) * 8))
		if thorough && !flippedAll && sc >= 2 {
			flippedAll = true
			for bit := 0; bit < len(v)*8; bit++ {
				flip(bit)
			}
			rep.Count("all-bits-flipped-sample")
		}
		hasCb, fail = hasCbSaved, failSaved
	}
}
